#!/usr/bin/env python3
"""Source anchors bookkeeping.

  tools/anchors.py update [repo]    record the fingerprints of the current tree (run after every fix: commit in /repo)
  tools/anchors.py show [repo]      per property: functions whose fingerprint differs from the record
"""
import sys, os, json, subprocess
if sys.executable != "/venv/bin/python" and os.path.exists("/venv/bin/python"):
    os.execv("/venv/bin/python", ["/venv/bin/python"] + sys.argv)      # the interpreter the checks run under
sys.path.insert(0, os.path.dirname(os.path.dirname(os.path.abspath(__file__))))
from vlib import anchors

cmd = sys.argv[1] if len(sys.argv) > 1 else "show"
repo = sys.argv[2] if len(sys.argv) > 2 else os.environ.get("VERIF_REPO", "/repo")
if cmd == "update":
    head = subprocess.run(["git", "-C", repo, "rev-parse", "HEAD"], capture_output=True, text=True).stdout.strip()
    snap = anchors.snapshot(repo)
    json.dump({"repo_head": head, "python": "%d.%d" % sys.version_info[:2], "files": snap}, open(anchors.ANCHORS, "w"), indent=0, sort_keys=True)
    print("recorded", sum(len(v) for v in snap.values()), "anchors in", len(snap), "files at", head[:7])
else:
    for i in range(1, 21):
        pid = "C%02d" % i
        ch = anchors.changed(pid, repo)
        print(pid, "no record" if ch is None else (ch or "unchanged"))
