#!/bin/bash
# tools/refresh_benign.sh [J]: re-run every harmless rewrite against its own property's check and every check anchored in the
# files it touches (quick tier, seed 0), on the current checks; records go to benign/*/meta.json (part of refresh_all.sh)
J=${1:-5}
cd "$(dirname "$0")/.."
python3 - <<'PY'
import json, glob
for f in glob.glob('benign/*/meta.json'):
    m = json.load(open(f)); m['runs'] = {}; m.pop('quiet', None)
    json.dump(m, open(f, 'w'), indent=1)
PY
( for d in benign/*/; do id=$(basename $d); echo "$id $(python3 -c "import json;print(json.load(open('$d/meta.json'))['property'])")"; done; tools/benign_cross_list.sh ) | sort | awk '{a[$1]=a[$1] (a[$1]?",":"") $2} END {for (k in a) print k, a[k]}' | sort > /tmp/refresh_benign_list.txt
cat /tmp/refresh_benign_list.txt | xargs -P $J -L 1 sh -c 'tools/benign.py run $0 --checks $1 --seeds 0 2>&1 | grep -v conda | cut -c1-200' > refresh_benign.log 2>&1
echo REFRESHDONE
