import sys, json, os
pid=sys.argv[1]
txt=open(f'/tmp/m/{pid}.txt').read()
prev=[]
for k in (1,2,3,4,5,6,7,8,9,'a4-1','a4-2'):
    try:
        m=json.load(open(f'/verif/seeded/{pid}-{k}/meta.json'))
        first=[l for l in (m.get('needs') or '').splitlines() if l.strip()]
        prev.append('- '+(first[0].lstrip('# ').strip() if first else ''))
    except Exception: pass
prevtxt="\n".join(prev)
print(f"""You are helping to evaluate a verification effort by producing realistic *seeded defects* for a Python library (tjweisman/geometry_tools: numpy toolkit for hyperbolic/projective geometry, group representations, Coxeter groups, finite-state automata, matplotlib drawing). You have your own scratch git checkout of the library at /tmp/m4/{pid} (a detached git worktree; edit files there freely; never touch /repo or /verif and do not read anything under /verif). Python to use: /venv/bin/python (numpy 2.x, scipy, matplotlib installed; no network).

The semantic property to break:

{txt}

Three earlier rounds already produced these changes for this property — do NOT repeat them or close variants; go after other functions, other clauses of the property, other kinds of trigger:
{prevtxt}

TASK: produce THREE different, independent source changes to the library (each a small, realistic edit of the kind a maintainer could plausibly make by mistake during a refactor, an 'optimisation', a vectorisation, a caching/memoisation addition, an API clean-up, a numerical-robustness tweak, a NumPy-compatibility change...) such that, for each change separately:
 (a) the library still imports and the existing test suite gives the SAME per-test results as before the change. First record the baseline: cd /tmp/m4/{pid} && /venv/bin/python -m pytest -q -rA -p no:cacheprovider --continue-on-collection-errors testing 2>&1 | grep -E "^(PASSED|FAILED|ERROR)" | sort > /tmp/m4/{pid}_out/baseline.txt  (expect about 81 passed, 3 failed, 2 sage collection errors) and compare the same listing with each change applied.
 (b) the change makes the property above FALSE for some inputs, but needs something specific to manifest. This round we want the HARD kinds: a history of several operations on the same or on several objects in one process (state leaking through a cache, a shared mutable default, an alias between an object and its copy, an in-place write reached only through a particular call order); a particular COMBINATION of options/keyword arguments; two cooperating sites that each look fine alone; a particular composite shape or dimension together with a particular model/mode; a dtype (integer, complex, float32) or packaging (list, 0-d array); an input on a measure-zero but natural locus (an entry exactly 0, two equal points, an ideal point, an axis of length 1, an empty list). NOT something ordinary first use would expose at once, and not a plain sign/factor error in a formula that any random input exposes. Also welcome this round, since the earlier rounds concentrated on caches/aliases/dtypes: a boundary of a range (length 0 or 1, rank 1, dimension 1, the last index, an empty composite, maxlen equal to the exact length); large or tiny magnitudes (1e8, 1e-8) where a tolerance or threshold constant decides a branch; a documented-but-rarely-used option, alias or alternative entry point (a classmethod constructor, a module-level function next to the method, a keyword alias) that no longer agrees with the main one; an interaction between two public functions that are each correct alone; an error path (an invalid input that must raise now silently returns something, or a valid borderline input that now raises); behaviour for composite inputs whose members are of DIFFERENT kinds (e.g. one ideal and one interior point, one elliptic and one loxodromic isometry, accepted and rejected words) in one call.
 (c) you write a demonstration program demo.py (standalone; it must start with: import os, sys; sys.path.insert(0, os.environ.get('GT_ROOT', '/tmp/m4/{pid}')) ) that exits 0 on the unchanged library and exits non-zero (assertion failure) with the change applied, checking the property (observable behaviour), not implementation details.

For each change k=1,2,3 create /tmp/m4/{pid}_out/k/ containing: patch.diff (`git diff` in /tmp/m4/{pid} with only that change applied; must apply cleanly with `git apply` to the unchanged tree), demo.py, and notes.md (first line: a one-sentence title of the change; then which clause it breaks, what it needs in order to manifest, what you ran and saw). After producing each patch restore the tree with `git -C /tmp/m4/{pid} checkout -- .` and verify: demo passes on the clean tree, `git apply` works, demo fails with the patch, per-test results unchanged with the patch. Leave the worktree clean at the end. Note: the unchanged library may itself have rough edges; steer your demos around pre-existing failures (the demo must pass on the unchanged tree) and mention any you notice in notes.md. Your final message: a 3-row table (change, file/function, what it needs to manifest, verified yes/no).""")
