import sys, json, os
pid=sys.argv[1]
import os
txt=open(os.path.join(os.path.dirname(os.path.abspath(__file__)), 'props', pid + '.txt')).read()
prev=[]
for k in (1,2,3,4,5,6,7,8,9,10,11,12,13,14,15,'a4-1','a4-2'):
    try:
        m=json.load(open(f'/verif/seeded/{pid}-{k}/meta.json'))
        first=[l for l in (m.get('needs') or '').splitlines() if l.strip()]
        prev.append('- '+(first[0].lstrip('# ').strip() if first else ''))
    except Exception: pass
prevtxt="\n".join(prev)
print(f"""You are helping to evaluate a verification effort by producing realistic *seeded defects* for a Python library (tjweisman/geometry_tools: numpy toolkit for hyperbolic/projective geometry, group representations, Coxeter groups, finite-state automata, matplotlib drawing). You have your own scratch git checkout of the library at /tmp/m6/{pid} (a detached git worktree; edit files there freely; never touch /repo or /verif and do not read anything under /verif). Python to use: /venv/bin/python (numpy 2.x, scipy, matplotlib installed; no network).

The semantic property to break:

{txt}

Five earlier rounds already produced these changes for this property — do NOT repeat them or close variants; go after other functions, other clauses of the property, other kinds of trigger:
{prevtxt}

TASK: produce TWO different, independent source changes to the library (each a small, realistic edit of the kind a maintainer could plausibly make by mistake during a refactor, an 'optimisation', a vectorisation, a caching/memoisation addition, an API clean-up, a numerical-robustness tweak, a NumPy-compatibility change...) such that, for each change separately:
 (a) the library still imports and the existing test suite gives the SAME per-test results as before the change. First record the baseline: cd /tmp/m6/{pid} && /venv/bin/python -m pytest -q -rA -p no:cacheprovider --continue-on-collection-errors testing 2>&1 | grep -E "^(PASSED|FAILED|ERROR)" | sort > /tmp/m6/{pid}_out/baseline.txt  (most tests pass; a few fail or error for missing optional dependencies — what matters is that the listing is identical with and without your change) and compare the same listing with each change applied.
 (b) the change makes the property above FALSE for some inputs, but needs something specific to manifest — NOT something ordinary first use would expose at once. This round is a free round: ANY kind of realistic slip is welcome — a sign, an off-by-one, a swapped axis or argument, a dropped abs / copy / normalisation / transpose, a wrong branch condition or comparison, a loop bound, a wrong default, a tolerance, a broadcasting or reshape mistake, an in-place write, a cache or memo key, a dtype, a refactor that moves a line across a branch, a vectorisation that mishandles one case, a clean-up that drops a special case, an API tweak that changes a convention in one place but not another — in ANY function the property touches, as long as it is different from everything listed above and hits a clause or function not yet hit if possible. Prefer changes that need a multi-step sequence of operations, an unusual input, a particular combination of options, or two cooperating edits at different sites that each look fine alone. Make the two changes exercise different clauses of the property and different functions, and prefer failures that are silent (a wrong value, not an exception).
 (c) you write a demonstration program demo.py (standalone; it must start with: import os, sys; sys.path.insert(0, os.environ.get('GT_ROOT', '/tmp/m6/{pid}')) ) that exits 0 on the unchanged library and exits non-zero (assertion failure) with the change applied, checking the property (observable behaviour), not implementation details.

For each change k=1,2 create /tmp/m6/{pid}_out/k/ containing: patch.diff (`git diff` in /tmp/m6/{pid} with only that change applied; must apply cleanly with `git apply` to the unchanged tree), demo.py, and notes.md (first line: a one-sentence title of the change; then which clause it breaks, what it needs in order to manifest, what you ran and saw). After producing each patch restore the tree with `git -C /tmp/m6/{pid} checkout -- .` and verify: demo passes on the clean tree, `git apply` works, demo fails with the patch, per-test results unchanged with the patch. Leave the worktree clean at the end. Note: the unchanged library may itself have rough edges; steer your demos around pre-existing failures (the demo must pass on the unchanged tree) and mention any you notice in notes.md. Your final message: a 2-row table (change, file/function, what it needs to manifest, verified yes/no).""")
