#!/usr/bin/env python3
"""Seeded-defect bookkeeping (DESIGN §7).

  seeded.py import <srcdir> <id> <property>     copy patch.diff/demo.py/notes.md into seeded/<id>/
  seeded.py verify <id>                         clean tree: demo passes; patched: demo fails, baseline 79/79
  seeded.py detect <id> [--checks C01,C04] [--tier quick] [--seed 0]
                                                run the checks against a scratch worktree with the patch

All work happens in a scratch git worktree of /repo under /tmp which is removed afterwards;
/repo itself is never modified.  (Equivalent to `git -C /repo apply`, run, `git checkout -- .`,
but safe to run while other work uses /repo; the checks get the tree via VERIF_REPO.)
"""
import sys, os, json, subprocess, shutil, argparse, time

VERIF = os.path.dirname(os.path.dirname(os.path.abspath(__file__)))
PY = "/venv/bin/python"


def sh(cmd, cwd=None, env=None, timeout=3600):
    e = dict(os.environ)
    if env:
        e.update(env)
    p = subprocess.run(cmd, cwd=cwd, env=e, capture_output=True, text=True, timeout=timeout, shell=isinstance(cmd, str))
    out = "\n".join(l for l in (p.stdout + p.stderr).splitlines() if "conda" not in l)
    return p.returncode, out


class Scratch:
    def __init__(self, tag):
        self.path = f"/tmp/seeded_{tag}_{os.getpid()}"

    def __enter__(self):
        rc, out = sh(["git", "-C", "/repo", "worktree", "add", "--detach", "-f", self.path, "HEAD"])
        if rc != 0:
            raise RuntimeError(out)
        return self.path

    def __exit__(self, *a):
        sh(["git", "-C", "/repo", "worktree", "remove", "--force", self.path])
        shutil.rmtree(self.path, ignore_errors=True)
        sh(["git", "-C", "/repo", "worktree", "prune"])


def apply_patch(wt, patch):
    """git apply; when the tree has moved on since the patch was written, fall back to a three-way merge of it"""
    rc, out = sh(["git", "apply", patch], cwd=wt)
    if rc != 0:
        sh(["git", "checkout", "--", "."], cwd=wt)
        rc, out = sh(["git", "apply", "-3", patch], cwd=wt)
        if rc == 0 and "<<<<<<<" in sh("git diff", cwd=wt)[1]:
            rc = 1
    return rc, out


def meta_path(i):
    return os.path.join(VERIF, "seeded", i, "meta.json")


def load_meta(i):
    return json.load(open(meta_path(i)))


def save_meta(i, m):
    json.dump(m, open(meta_path(i), "w"), indent=1)


def cmd_import(a):
    d = os.path.join(VERIF, "seeded", a.id)
    os.makedirs(d, exist_ok=True)
    for f in ("patch.diff", "demo.py", "notes.md"):
        src = os.path.join(a.srcdir, f)
        if os.path.exists(src):
            shutil.copy(src, os.path.join(d, f))
    m = {"id": a.id, "property": a.property, "needs": "", "verified": None, "detection": {}}
    notes = os.path.join(d, "notes.md")
    if os.path.exists(notes):
        m["needs"] = open(notes).read()[:1500]
    if not os.path.exists(meta_path(a.id)):
        save_meta(a.id, m)
    print("imported", d)


def baseline(repo):
    rc, out = sh([os.path.join(VERIF, "run_baseline.sh")], env={"VERIF_REPO": repo})
    return rc == 0, out.strip().splitlines()[-1] if out.strip() else ""


def cmd_verify(a):
    d = os.path.join(VERIF, "seeded", a.id)
    m = load_meta(a.id)
    with Scratch(a.id) as wt:
        env = {"GT_ROOT": wt, "PYTHONDONTWRITEBYTECODE": "1", "MPLBACKEND": "Agg"}
        rc_clean, out_clean = sh([PY, os.path.join(d, "demo.py")], cwd=wt, env=env, timeout=900)
        rc_ap, out_ap = apply_patch(wt, os.path.join(d, "patch.diff"))
        rc_mut, out_mut = sh([PY, os.path.join(d, "demo.py")], cwd=wt, env=env, timeout=900)
        ok_base, base_line = baseline(wt)
    m["verified"] = {"demo_passes_on_clean_tree": rc_clean == 0, "patch_applies": rc_ap == 0,
                     "demo_fails_with_patch": rc_mut != 0, "baseline_79_pass_with_patch": ok_base,
                     "baseline_line": base_line, "demo_tail_with_patch": out_mut[-400:],
                     "at_repo_commit": sh(["git", "-C", "/repo", "rev-parse", "--short", "HEAD"])[1].strip(),
                     "ran": "tools/seeded.py verify " + a.id}
    m["verified"]["ok"] = all([rc_clean == 0, rc_ap == 0, rc_mut != 0, ok_base])
    save_meta(a.id, m)
    print(a.id, json.dumps({k: v for k, v in m["verified"].items() if k not in ("demo_tail_with_patch",)}))
    if rc_clean != 0:
        print("  demo on clean tree:", out_clean[-600:])
    return 0 if m["verified"]["ok"] else 1


def cmd_detect(a):
    d = os.path.join(VERIF, "seeded", a.id)
    m = load_meta(a.id)
    checks = a.checks.split(",") if a.checks else [m["property"]]
    res = {}
    with Scratch(a.id) as wt:
        rc_ap, out_ap = apply_patch(wt, os.path.join(d, "patch.diff"))
        if rc_ap != 0:
            print("patch does not apply:", out_ap)
            return 2
        for c in checks:
            t = time.time()
            rc, out = sh([os.path.join(VERIF, "check"), c, "--tier", a.tier], cwd=VERIF,
                         env={"VERIF_REPO": wt, "VERIF_SEED": str(a.seed), "VERIF_EVIDENCE_DIR": "/tmp/seeded_evidence"}, timeout=7200)
            viol = [l for l in out.splitlines() if l.startswith("VIOLATION")]
            fi = [l.strip() for l in out.splitlines() if "failing input" in l or "correspondence broken" in l]
            res[c] = {"exit": rc, "violation_lines": viol[:3], "what": fi[:3], "wall_s": round(time.time() - t, 1),
                      "tier": a.tier, "seed": a.seed}
            # keep the first failing input as a corpus entry (replayed first on every later run)
            for v in viol[:1]:
                rp = v.split("replay=")[1].split()[0]
                try:
                    r = json.load(open(rp))
                    if r.get("kind") in ("failing-input", "broken-correspondence") and "input" in r:
                        cd = os.path.join(VERIF, "corpus", c)
                        os.makedirs(cd, exist_ok=True)
                        json.dump({"clause": r["clause"], "input": r["input"], "from": "seeded/" + a.id},
                                  open(os.path.join(cd, a.id + ".json"), "w"), indent=1)
                except Exception as e:
                    print("  (corpus entry not written:", e, ")")
            print(a.id, c, "exit", rc, viol[:1], fi[:1])
    m.setdefault("detection", {}).update(res)
    m["detected"] = any(r["exit"] == 1 for r in m["detection"].values())
    m["detected_with_failing_input"] = any(r["exit"] == 1 and not any("no-failing-input-found" in v for v in r["violation_lines"]) for r in m["detection"].values())
    save_meta(a.id, m)
    # restore evidence of the affected checks from the real tree is the caller's job (re-run ./check <id>)
    return 0


def cmd_table(a):
    rows = []
    for i in sorted(os.listdir(os.path.join(VERIF, "seeded"))):
        try:
            m = load_meta(i)
        except Exception:
            continue
        det = m.get("detection", {})
        caught = [c for c, r in det.items() if r["exit"] == 1]
        how = []
        for c in caught:
            r = det[c]
            nf = any("no-failing-input-found" in v for v in r["violation_lines"])
            w = (r["what"][0] if r["what"] else "")
            cl = w.split("[")[1].split(" ")[0] if "[" in w else "?"
            how.append(f"{c}:{cl}" + (" (tie only)" if nf else ""))
        ver = (m.get("verified") or {}).get("ok")
        first = (m.get("needs") or "").strip().splitlines()
        rows.append((i, m["property"], "yes" if ver else "NO", ", ".join(how) if how else ("MISSED" if det else "not run"),
                     (m.get("summary") or (first[0] if first else ""))[:110]))
    print("| seeded change | property | verified | caught by (check:clause) | what it is |")
    print("|---|---|---|---|---|")
    for r in rows:
        print("| " + " | ".join(r) + " |")


if __name__ == "__main__":
    ap = argparse.ArgumentParser()
    sub = ap.add_subparsers(dest="cmd")
    s = sub.add_parser("import"); s.add_argument("srcdir"); s.add_argument("id"); s.add_argument("property")
    s = sub.add_parser("verify"); s.add_argument("id")
    s = sub.add_parser("detect"); s.add_argument("id"); s.add_argument("--checks"); s.add_argument("--tier", default="quick"); s.add_argument("--seed", type=int, default=0)
    s = sub.add_parser("table")
    a = ap.parse_args()
    sys.exit({"import": cmd_import, "verify": cmd_verify, "detect": cmd_detect, "table": cmd_table}[a.cmd](a) or 0)
