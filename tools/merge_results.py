#!/usr/bin/env python3
"""resolve a merge conflict in lean/model_mutants/RESULTS.json by union (merged-in side wins per (property, mutant)); RESULTS.md is regenerated"""
import json, subprocess
f = "lean/model_mutants/RESULTS.json"
def side(n):
    try:
        return json.loads(subprocess.check_output(["git", "show", f":{n}:{f}"]))
    except Exception:
        return None
o, t = side(2), side(3)
def key(e):
    return (e.get("property"), e.get("id") or e.get("mutant"))
if isinstance(o, dict) and isinstance(t, dict):
    m = dict(o); m.update(t)
elif isinstance(o, list) and isinstance(t, list):
    d = {key(e): e for e in o}; d.update({key(e): e for e in t}); m = list(d.values())
else:
    m = t if t is not None else o
if m is None:
    raise SystemExit("RESULTS.json is not in conflict; nothing to do")
json.dump(m, open(f, "w"), indent=1)
subprocess.call(["python3", "tools/model_mutants.py", "table"])
subprocess.check_call(["git", "add", f, "lean/model_mutants/RESULTS.md"])
print("RESULTS merged")
