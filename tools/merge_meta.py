#!/usr/bin/env python3
"""resolve merge conflicts in benign/*/meta.json and seeded/*/meta.json: recursive dict union, the merged-in side wins on leaves"""
import json, subprocess, sys
def side(n, f):
    return json.loads(subprocess.check_output(["git", "show", f":{n}:{f}"]))
def merge(o, t):
    if isinstance(o, dict) and isinstance(t, dict):
        r = dict(o)
        for k, v in t.items():
            r[k] = merge(o[k], v) if k in o else v
        return r
    return t
files = [l[3:] for l in subprocess.check_output(["git", "status", "--short"], text=True).splitlines() if l[:2] in ("UU", "AA") and l.endswith("meta.json")]
for f in files:
    m = merge(side(2, f), side(3, f))
    if "runs" in m:
        m["quiet"] = all(r["exit"] == 0 for r in m["runs"].values())
    json.dump(m, open(f, "w"), indent=1)
    subprocess.check_call(["git", "add", f])
print(len(files), "meta files merged")
