#!/usr/bin/env python3
"""rewrite the `fixed` list of known_findings.json from /repo's `fix:` commits (property map below)"""
import json, subprocess, os
VERIF = os.path.dirname(os.path.dirname(os.path.abspath(__file__)))
PROP = [  # (substring of the commit subject, property ids)
    ("Point.distance", "C01"), ("dtype probes in utils.types", "C12 (also C08, C13, C02)"),
    ("affine_coords chart test", "C16 (also C20)"), ("gln_adjoint/sln_adjoint default like", "C17 (also C12, C05)"),
    ("affine_translation keeps complex", "C16"), ("composite Transformation.eigenvector", "C16"),
    ("svd_kernel conjugates", "C16 (also C18)"), ("svd_kernel returns an empty basis", "C16 (also C18)"),
    ("o_to_pgl recovers", "C17"), ("linear_matrix_action / sln_linear_action accept arrays", "C17"),
    ("unit_tangent_towards lost accuracy", "C13 (also C12)"), ("unit_tangent_towards", "C12 (also C13)"), ("Subspace.sphere_parameters", "C14"),
    ("Hyperplane built from an array", "C15"), ("TangentVector.angle", "C13"), ("arc_include", "C14 (also C18)"),
    ("__setitem__ recomputes", "C11"), ("combine concatenates", "C11"),
    ("diagonalize_form(reverse=True)", "C18"), ("spacelike_to completes", "C02 (also C15, C18)"),
    ("Hyperplane passes its normal vectors", "C15"),
    ("sl2_irrep accumulates", "C17 (also C12)"), ("take the result dtype from mat @ inv", "C17 (also C12)"),
    ("Hyperplane(normal) in H^1", "C02 (also C15)"),
    ("fixed points of isometries whose fixed vectors", "C15"), ("normals_only=True", "C15"),
    ("Polygon.circle_parameters raised", "C14 (also C04)"), ("fixed_point(max_eigval=False) / fixed_point_pair", "C15"),
    ("regular_surface_polygon raised", "C13"), ("HorosphereArc.circle_parameters paired", "C14"),
    ("eigenvectors of non-real eigenvalues", "C15"),
    ("IdealPoint.from_angle no longer truncates", "C12"), ("standard_rotation/elliptic no longer truncate", "C12 (also C02)"),
    ("utils.normalize accepts integer-typed", "C12 (also C02, C01)"), ("Transformation(nested list, column_vectors=True)", "C12"),
    ("origin_to(force_oriented=True) no longer depends", "C12 (also C13)"), ("CP1Disk(center, rad) is centered", "C20"),
    ("CP1Disk.intersects uses the right mask", "C20"), ("sphere_parameters(model=HALFSPACE) reports nan", "C19 (also C14)"),
    ("Fox calculus (differential, cocycle_matrix) worked character", "C05"), ("subgroup(compute_inverse=False) reversed", "C05"),
    ("Transformation.apply transforms dual data", "C03"),
    ("cartan_representation(diagonalize=True) on a degenerate", "C08"), ("degenerate", "C08"),
    ("hyp_to_affine_dist", "C12 (also C13)"),
    ("start_vertices", "C10 (also C09)"), ("remove_long_paths", "C10"), ("initial_rejected_subword", "C10"),
    ("symmetric_square called", "C05"), ("parse_simple", "C05"), ("parse_word(simple=False)", "C05"),
    ("integer-dtype representation", "C05 (also C12)"), ("_build_in_dict", "C09"), ("add_edges", "C09"), ("add_vertices creates a plain dict", "C09 (also C10)"), ("end_state", "C06"),
    ("half-space/Poincare conversions allocate", "C01 (also C12)"), ("indefinite_orthogonalize works on a float copy", "C18 (also C02, C11)"), ("o_to_pgl works on arrays", "C17"), ("lie.hom wrappers forward", "C17"), ("Coxeter representations with multi-character generator names", "C06 (also C08)"), ("glued multi-character generator names", "C06"), ("precomputed=d) reused values", "C06"), ("from_coxeter_matrix stores integer labels", "C07 (also C12)"), ("degenerate-form guard", "C08"), ("cartan_matrix accepts free parameters at every infinite label", "C08"), ("the degenerate-form guard takes its tolerance", "C08"), ("fixed vectors of the other projective representative", "C15"), ("point_along on a tangent vector stored with integer", "C13 (also C12)"), ("TangentVector.angle treats", "C13 (also C12)"), ("reflection across a subspace through the origin", "C15"), ("from_reflection accepts a bare array", "C15"), ("no longer insert an empty entry", "C09 (also C10)"), ("refuses an edge that contradicts", "C09"), ("incoming view has a row for every vertex", "C09"), ("free_automaton accepts a one-shot", "C10 (also C09)"), ("return a prefix of the word they were given", "C10"), ("svd_kernel detects mismatched ranks", "C18"), ("_data_with_dual rescales the ideal basis", "C02 (also C15)"), ("timelike_to refuses lightlike", "C02"), ("rank-2 composite DualPoint / Point of normals", "C15"), ("projective_to_spherical(column_vectors=True)", "C20"), ("from_reflection rejected reflections across walls", "C15"), ("edge_labels returns a copy", "C09"), ("draw_point draws on", "C19"),
    ("from_angle", "C12"), ("standard_rotation", "C12"), ("integer", "C12"), ("CP1Disk", "C20"), ("intersects", "C20"),
]
out = subprocess.check_output(["git", "-C", "/repo", "log", "--reverse", "--format=%h|%s", "5fa3ad4..HEAD"], text=True)
fixed = []
for line in out.splitlines():
    h, s = line.split("|", 1)
    if not s.startswith("fix:"):
        continue
    pid = next((p for k, p in PROP if k in s), "C??")
    fixed.append(f"fixed: property={pid} {h} {s[4:].strip()}")
p = os.path.join(VERIF, "known_findings.json")
k = json.load(open(p))
k["fixed"] = fixed
json.dump(k, open(p, "w"), indent=1, ensure_ascii=False)
for f in fixed:
    print(f[:150])
