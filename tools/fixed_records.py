#!/usr/bin/env python3
"""rewrite the `fixed` list of known_findings.json from /repo's `fix:` commits (property map below)"""
import json, subprocess, os
VERIF = os.path.dirname(os.path.dirname(os.path.abspath(__file__)))
PROP = [  # (substring of the commit subject, property ids)
    ("Point.distance", "C01"), ("dtype probes in utils.types", "C12 (also C08, C13, C02)"),
    ("affine_coords chart test", "C16 (also C20)"), ("gln_adjoint/sln_adjoint default like", "C17 (also C12, C05)"),
    ("affine_translation keeps complex", "C16"), ("composite Transformation.eigenvector", "C16"),
    ("svd_kernel conjugates", "C16 (also C18)"), ("svd_kernel returns an empty basis", "C16 (also C18)"),
    ("o_to_pgl recovers", "C17"), ("linear_matrix_action / sln_linear_action accept arrays", "C17"),
    ("unit_tangent_towards", "C12 (also C13)"), ("Subspace.sphere_parameters", "C14"),
    ("Hyperplane built from an array", "C15"), ("TangentVector.angle", "C13"), ("arc_include", "C14 (also C18)"),
    ("__setitem__ recomputes", "C11"), ("combine concatenates", "C11"),
    ("diagonalize_form(reverse=True)", "C18"), ("spacelike_to completes", "C02 (also C15, C18)"),
    ("Hyperplane passes its normal vectors", "C15"),
    ("sl2_irrep accumulates", "C17 (also C12)"), ("take the result dtype from mat @ inv", "C17 (also C12)"),
    ("symmetric_square called", "C05"), ("parse_simple", "C05"), ("parse_word(simple=False)", "C05"),
    ("integer-dtype representation", "C05 (also C12)"), ("_build_in_dict", "C09"), ("add_edges", "C09"), ("add_vertices creates a plain dict", "C09 (also C10)"), ("end_state", "C06"),
    ("from_angle", "C12"), ("standard_rotation", "C12"), ("integer", "C12"), ("CP1Disk", "C20"), ("intersects", "C20"),
]
out = subprocess.check_output(["git", "-C", "/repo", "log", "--reverse", "--format=%h|%s", "5fa3ad4..HEAD"], text=True)
fixed = []
for line in out.splitlines():
    h, s = line.split("|", 1)
    if not s.startswith("fix:"):
        continue
    pid = next((p for k, p in PROP if k in s), "C??")
    fixed.append(f"fixed: property={pid} {h} {s[4:].strip()}")
p = os.path.join(VERIF, "known_findings.json")
k = json.load(open(p))
k["fixed"] = fixed
json.dump(k, open(p, "w"), indent=1, ensure_ascii=False)
for f in fixed:
    print(f[:150])
