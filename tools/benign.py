#!/usr/bin/env python3
"""Harmless-change bookkeeping: property-preserving rewrites of /repo written by independent sub-agents
(given only the property text), used to measure false alarms (DESIGN §8).

  benign.py import <srcdir> <id> <property>   copy patch.diff/holds.py/notes.md into benign/<id>/
  benign.py run <id> [--checks C01,C04] [--tier quick] [--seeds 0,1]
       scratch worktree of /repo + patch: holds.py must pass, baseline 79/79, then run the checks (VERIF_REPO)
  benign.py table
"""
import sys, os, json, shutil, argparse, time
sys.path.insert(0, os.path.dirname(os.path.abspath(__file__)))
from seeded import sh, Scratch, VERIF, PY, baseline


def mp(i):
    return os.path.join(VERIF, "benign", i, "meta.json")


def cmd_import(a):
    d = os.path.join(VERIF, "benign", a.id)
    os.makedirs(d, exist_ok=True)
    for f in ("patch.diff", "holds.py", "notes.md"):
        s = os.path.join(a.srcdir, f)
        if os.path.exists(s):
            shutil.copy(s, os.path.join(d, f))
    n = os.path.join(d, "notes.md")
    m = {"id": a.id, "property": a.property, "what": open(n).read()[:1500] if os.path.exists(n) else "", "runs": {}}
    if not os.path.exists(mp(a.id)):
        json.dump(m, open(mp(a.id), "w"), indent=1)
    print("imported", d)


def cmd_run(a):
    d = os.path.join(VERIF, "benign", a.id)
    m = json.load(open(mp(a.id)))
    checks = a.checks.split(",") if a.checks else [m["property"]]
    with Scratch("b" + a.id) as wt:
        rc_ap, out = sh(["git", "apply", os.path.join(d, "patch.diff")], cwd=wt)
        if rc_ap != 0:      # the tree moved on since the change was written: try a three-way merge of the patch
            sh(["git", "checkout", "--", "."], cwd=wt)
            rc_ap, out = sh(["git", "apply", "-3", os.path.join(d, "patch.diff")], cwd=wt)
            if rc_ap == 0 and "<<<<<<<" in sh("git diff", cwd=wt)[1]:
                rc_ap = 1
        if rc_ap != 0:
            m["applies"] = False
            json.dump(m, open(mp(a.id), "w"), indent=1)
            print(a.id, "patch does not apply:", out[-300:]); return 2
        env = {"GT_ROOT": wt, "PYTHONDONTWRITEBYTECODE": "1", "MPLBACKEND": "Agg"}
        rc_h, out_h = sh([PY, os.path.join(d, "holds.py")], cwd=wt, env=env, timeout=1800)
        ok_base, base_line = baseline(wt)
        m.update({"applies": True, "holds_py_passes_with_patch": rc_h == 0, "baseline_79_pass_with_patch": ok_base,
                  "at_repo_commit": sh(["git", "-C", "/repo", "rev-parse", "--short", "HEAD"])[1].strip()})
        if rc_h != 0:
            m["holds_tail"] = out_h[-400:]
        for c in checks:
            for seed in a.seeds.split(","):
                t = time.time()
                rc, out = sh([os.path.join(VERIF, "check"), c, "--tier", a.tier], cwd=VERIF,
                             env={"VERIF_REPO": wt, "VERIF_SEED": seed, "VERIF_EVIDENCE_DIR": "/tmp/benign_evidence"}, timeout=7200)
                viol = [l for l in out.splitlines() if l.startswith("VIOLATION")]
                fi = [l.strip()[:600] for l in out.splitlines() if "failing input" in l or "correspondence broken" in l]
                m["runs"][f"{c}@{seed}"] = {"exit": rc, "violation_lines": viol[:3], "what": fi[:3], "wall_s": round(time.time() - t, 1), "tier": a.tier}
                print(a.id, c, "seed", seed, "exit", rc, viol[:1], [w[:200] for w in fi[:1]])
    m["quiet"] = all(r["exit"] == 0 for r in m["runs"].values())
    json.dump(m, open(mp(a.id), "w"), indent=1)
    return 0


def cmd_table(a):
    print("| harmless change | property | holds.py / baseline with patch | checks | what changes |")
    print("|---|---|---|---|---|")
    for i in sorted(os.listdir(os.path.join(VERIF, "benign"))):
        try:
            m = json.load(open(mp(i)))
        except Exception:
            continue
        runs = m.get("runs", {})
        alarms = []
        for k, r in runs.items():
            if r["exit"] != 0:
                tie = any("no-failing-input-found" in v for v in r["violation_lines"])
                w = r["what"][0] if r["what"] else ""
                cl = w.split("[")[1].split(" ")[0] if "[" in w else "?"
                alarms.append(f"{k}:{cl}" + (" (tie only)" if tie else " (FAILING INPUT)"))
        st = "quiet" if runs and not alarms else (", ".join(alarms) if alarms else "not run")
        if m.get("verdict"):
            st += " — " + m["verdict"]
        first = (m.get("what") or "").strip().splitlines()
        print(f"| {i} | {m['property']} | {'ok' if m.get('holds_py_passes_with_patch') else 'NO'} / {'ok' if m.get('baseline_79_pass_with_patch') else 'NO'} | {st} | {(first[0] if first else '')[:110]} |")


if __name__ == "__main__":
    ap = argparse.ArgumentParser()
    sub = ap.add_subparsers(dest="cmd")
    s = sub.add_parser("import"); s.add_argument("srcdir"); s.add_argument("id"); s.add_argument("property")
    s = sub.add_parser("run"); s.add_argument("id"); s.add_argument("--checks"); s.add_argument("--tier", default="quick"); s.add_argument("--seeds", default="0")
    s = sub.add_parser("table")
    a = ap.parse_args()
    sys.exit({"import": cmd_import, "run": cmd_run, "table": cmd_table}[a.cmd](a) or 0)
