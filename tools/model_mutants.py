#!/usr/bin/env python3
"""Model-side mutants (DESIGN §7): textual edits to the Lean MODEL that must break a property theorem.

A theorem that still compiles after the model was changed does not depend on the changed detail: either it is too weak
(vacuous hypotheses, a conclusion that ignores the detail) or the detail is irrelevant to the property.  This is the
model-side analogue of the seeded code defects; it is a development tool, not a registered check: it always exits 0.

  model_mutants.py run [ID ...] [--only <mutant-id>] [--timeout 900] [--keep]
  model_mutants.py table
  model_mutants.py merge        (fold the RESULTS.<tag>.json of parallel `run --tag <tag>` invocations into RESULTS.json/md)

lean/model_mutants/<ID>.json = [ {"id": ..., "file": "GT/Model/X.lean" (relative to lean/), "old": ..., "new": ...,
                                  "expect_broken": ["GT.Properties.<ID>", ...], "why": ...}, ... ]

For each run one scratch copy of lean/ (including .lake, so compiled dependencies are reused) is made under /tmp and removed
afterwards; every mutant is applied to a pristine copy of its file (the edit must match exactly once), the targets in
"expect_broken" (default GT.Properties.<ID>) are built with `lake build` (timeout per mutant), the file is restored, and the
outcome is recorded:
  broken            the build fails; the first errors are mapped to their enclosing declarations
  survived          the build passes: no theorem of the target depends on that detail (listed with the entry's "why")
  edit-did-not-apply / timeout / infra
Results go to lean/model_mutants/RESULTS.json and RESULTS.md.
"""
import sys, os, json, re, shutil, subprocess, argparse, time, glob

VERIF = os.path.dirname(os.path.dirname(os.path.abspath(__file__)))
LEAN = os.path.join(VERIF, "lean")
MM = os.path.join(LEAN, "model_mutants")


def enclosing_decl(path, lineno):
    try:
        lines = open(path).read().splitlines()
    except Exception:
        return None
    for i in range(min(lineno, len(lines)) - 1, -1, -1):
        m = re.match(r"\s*(?:private\s+|protected\s+|noncomputable\s+)*(?:theorem|lemma|def|example|instance|abbrev|structure)\s+([^\s:({\[]+)?", lines[i])
        if m:
            return m.group(1) or "example"
    return None


def build(scratch, targets, timeout):
    env = dict(os.environ)
    env.pop("LEAN_PATH", None)
    t = time.time()
    try:
        p = subprocess.run(["lake", "build"] + targets, cwd=scratch, capture_output=True, text=True, timeout=timeout, env=env)
    except subprocess.TimeoutExpired:
        return None, "", round(time.time() - t, 1)
    out = "\n".join(l for l in (p.stdout + "\n" + p.stderr).splitlines() if "conda" not in l)
    return p.returncode, out, round(time.time() - t, 1)


def run_entry(scratch, pid, e, timeout):
    res = {"id": e["id"], "property": pid, "file": e["file"], "why": e.get("why", ""), "expect_broken": e.get("expect_broken") or [f"GT.Properties.{pid}"]}
    path = os.path.join(scratch, e["file"])
    if not os.path.exists(path):
        res.update(outcome="edit-did-not-apply", detail="no such file")
        return res
    src = open(path).read()
    n = src.count(e["old"])
    if n != 1:
        res.update(outcome="edit-did-not-apply", detail=f"'old' matches {n} times")
        return res
    try:
        open(path, "w").write(src.replace(e["old"], e["new"], 1))
        rc, out, wall = build(scratch, res["expect_broken"], timeout)
        res["wall_s"] = wall
        if rc is None:
            res.update(outcome="timeout")
        elif rc == 0:
            res.update(outcome="survived", detail="all of " + ", ".join(res["expect_broken"]) + " still compile")
        else:
            errs = re.findall(r"error: ([^\s:]+\.lean):(\d+):(\d+): (.*)", out)
            if not errs:
                res.update(outcome="infra", detail=out[-400:])
            else:
                broken = []
                for f, l, c, msg in errs:
                    d = enclosing_decl(os.path.join(scratch, f), int(l))
                    item = f"{f.replace('GT/', '').replace('.lean', '')}:{d}"
                    if item not in broken:
                        broken.append(item)
                first_f, first_l, _, first_msg = errs[0]
                res.update(outcome="broken", broken_decls=broken[:8], first_error=f"{first_f}:{first_l}: {first_msg[:160]}",
                           reaches_property_file=any(f.startswith("GT/Properties/") for f, *_ in errs),
                           failed_modules=sorted(set(re.findall(r"✖ \[\d+/\d+\] Building (GT\.[\w.]+)", out))))
    finally:
        open(path, "w").write(src)
    return res


def write_results(all_res):
    # the "why" of an entry may have been edited since its last run: refresh it from the json files
    whys = {}
    for f in glob.glob(os.path.join(MM, "C*.json")):
        for e in json.load(open(f)):
            whys[(os.path.basename(f)[:-5], e["id"])] = e.get("why", "")
    _write_results(all_res, whys)


TAG = ""


def _write_results(all_res, whys):
    os.makedirs(MM, exist_ok=True)
    old = {}
    rp = os.path.join(MM, f"RESULTS{TAG}.json")
    if os.path.exists(rp):
        old = {(r["property"], r["id"]): r for r in json.load(open(rp))}
    for r in all_res:
        old[(r["property"], r["id"])] = r
    for k, r in old.items():
        if k in whys:
            r["why"] = whys[k]
    rows = sorted(old.values(), key=lambda r: (r["property"], r["id"]))
    json.dump(rows, open(rp, "w"), indent=1, ensure_ascii=False)
    with open(os.path.join(MM, f"RESULTS{TAG}.md"), "w") as fh:
        fh.write("# Model-side mutants\n\nGenerated by `tools/model_mutants.py run`. An edit to the Lean *model* must break a property theorem; "
                 "a survivor means no theorem of the property depends on that detail.\n\n")
        fh.write("`lake build` stops at the first module that fails, so a mutant that breaks in `Lemmas/*` never reaches the property file: it "
                 "shows that the property proofs route through a lemma that characterises the detail, not by itself that a property STATEMENT "
                 "depends on it — read the note column.\n\n")
        fh.write("| property | mutant | file | outcome | where it breaks | note (from the entry's \"why\") | s |\n|---|---|---|---|---|---|---|\n")
        for r in rows:
            if r["outcome"] == "broken":
                where = "; ".join(r.get("broken_decls", [])[:4]) + (" (property file)" if r.get("reaches_property_file") else " (lemmas)")
            else:
                where = r.get("detail", "")
            fh.write(f"| {r['property']} | {r['id']} | {r['file'].replace('GT/', '')} | **{r['outcome']}** | {where.replace('|', '/')} | "
                     f"{r.get('why', '').replace('|', '/')} | {r.get('wall_s', '')} |\n")
        surv = [r for r in rows if r["outcome"] == "survived"]
        fh.write(f"\n{len(rows)} mutants: {sum(r['outcome'] == 'broken' for r in rows)} broken, {len(surv)} survived, "
                 f"{sum(r['outcome'] not in ('broken', 'survived') for r in rows)} other.\n")
        if surv:
            fh.write("\n## Survivors\n\n")
            for r in surv:
                fh.write(f"* **{r['property']} / {r['id']}** ({r['file']}): {r.get('why', '')}\n")


def cmd_run(a):
    ids = a.ids or sorted(os.path.basename(f)[:-5] for f in glob.glob(os.path.join(MM, "C*.json")))
    scratch = f"/tmp/model_mutants_{os.getpid()}"      # one per invocation: parallel invocations do not interfere
    shutil.rmtree(scratch, ignore_errors=True)
    t = time.time()
    shutil.copytree(LEAN, scratch, symlinks=True, ignore=shutil.ignore_patterns(".audit", "model_mutants"))
    print(f"scratch copy {scratch} ({time.time() - t:.1f}s)")
    all_res = []
    try:
        for pid in ids:
            entries = json.load(open(os.path.join(MM, pid + ".json")))
            # make sure the pristine target is built, so that a failure is due to the mutant
            rc, out, wall = build(scratch, [f"GT.Properties.{pid}"], a.timeout)
            if rc != 0:
                print(f"{pid}: pristine build failed or timed out ({rc}); skipping")
                all_res += [{"id": e["id"], "property": pid, "file": e["file"], "outcome": "infra", "detail": "pristine build failed", "why": e.get("why", "")} for e in entries]
                continue
            for e in entries:
                if a.only and e["id"] != a.only:
                    continue
                r = run_entry(scratch, pid, e, a.timeout)
                all_res.append(r)
                print(f"{pid} {r['id']}: {r['outcome']} {r.get('wall_s', '')}s  {'; '.join(r.get('broken_decls', [])[:3]) or r.get('detail', '')}", flush=True)
    finally:
        if not a.keep:
            shutil.rmtree(scratch, ignore_errors=True)
    write_results(all_res)
    return 0


def cmd_merge(a):
    """fold RESULTS.<tag>.json files (written by parallel runs with --tag) into RESULTS.json / RESULTS.md"""
    rows = []
    for f in sorted(glob.glob(os.path.join(MM, "RESULTS.*.json"))):
        rows += json.load(open(f))
    write_results(rows)
    for f in glob.glob(os.path.join(MM, "RESULTS.*.json")) + glob.glob(os.path.join(MM, "RESULTS.*.md")):
        os.remove(f)
    print(f"merged {len(rows)} rows")
    return 0


def cmd_table(a):
    p = os.path.join(MM, "RESULTS.md")
    print(open(p).read() if os.path.exists(p) else "no results yet")
    return 0


if __name__ == "__main__":
    ap = argparse.ArgumentParser()
    sub = ap.add_subparsers(dest="cmd")
    r = sub.add_parser("run")
    r.add_argument("ids", nargs="*")
    r.add_argument("--only")
    r.add_argument("--timeout", type=int, default=900)
    r.add_argument("--keep", action="store_true")
    r.add_argument("--tag", default="", help="write RESULTS.<tag>.json/md (for parallel runs; fold with `merge`)")
    sub.add_parser("table")
    sub.add_parser("merge")
    a = ap.parse_args()
    if getattr(a, "tag", ""):
        TAG = "." + a.tag
    try:
        {"run": cmd_run, "table": cmd_table, "merge": cmd_merge}.get(a.cmd, cmd_table)(a)
    except Exception as e:      # a development tool: never fail a pipeline
        print("model_mutants:", type(e).__name__, e)
    sys.exit(0)
