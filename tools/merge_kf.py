#!/usr/bin/env python3
"""resolve a merge conflict in known_findings.json by taking the union of both sides"""
import json, subprocess, sys
def side(n):
    return json.loads(subprocess.check_output(["git", "show", f":{n}:known_findings.json"]))
o, t = side(2), side(3)
seen, findings = set(), []
for f in o.get("findings", []) + t.get("findings", []):
    k = json.dumps(f, sort_keys=True)
    if k not in seen:
        seen.add(k); findings.append(f)
fixed = list(dict.fromkeys(o.get("fixed", []) + t.get("fixed", [])))
json.dump({"findings": findings, "fixed": fixed}, open("known_findings.json", "w"), indent=1)
subprocess.check_call(["git", "add", "known_findings.json"])
print(len(findings), "findings,", len(fixed), "fixed")
