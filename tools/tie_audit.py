#!/usr/bin/env python3
"""tools/tie_audit.py [--write]: run lean/TieAudit.lean (needs `lake build` done) and print, per property, which model
definitions mentioned in property-theorem statements are executed by the correspondence driver (tied), related to an
executed definition by a proved equation (bridged), classified by hand in lean/tie_spec/<ID>.json as specification /
contract-level (classified), or none of these (untied = work to do).  --write stores lean/tie_audit.json, which the
runner copies into every evidence file."""
import subprocess, json, sys, os
L = os.path.join(os.path.dirname(os.path.dirname(os.path.abspath(__file__))), "lean")
p = subprocess.run(["lake", "env", "lean", "TieAudit.lean"], cwd=L, capture_output=True, text=True, timeout=1800)
res = {}
for ln in p.stdout.splitlines():
    try:
        j = json.loads(ln)
        res[j["property"]] = j
    except Exception:
        if "conda" not in ln and ln.strip():
            print("  lean:", ln[:300])
only = [a for a in sys.argv[1:] if a.startswith("C")]
for pid, j in sorted(res.items()):
    if only and pid not in only:
        continue
    print(f"{pid}: theorems {j['theorems']}  model defs in statements {j['model_defs_in_statements']}  executed {j['executed_by_driver']}"
          f"  bridged {len(j['bridged'])}  classified {len(j['classified'])}  UNTIED {len(j['untied'])}")
    if j["missing_theorems"]:
        print("   MISSING THEOREMS:", j["missing_theorems"])
    for u in j["untied"]:
        print("   untied:", u)
if "--write" in sys.argv and len(res) == 20:
    json.dump(res, open(os.path.join(L, "tie_audit.json"), "w"), indent=0, sort_keys=True)
    print("written lean/tie_audit.json")
sys.exit(0 if len(res) == 20 else 2)
