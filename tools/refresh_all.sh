#!/bin/bash
# tools/refresh_all.sh [-j N] — wipe and re-record, on the current /repo main and the current checks:
#   * the detection record of every seeded change (its own property's check, quick tier, seed 0)
#   * the runs of every harmless rewrite (its own property + every check anchored in the files it touches)
# The tables in DESIGN.md ("Generated tables") are generated from these records by tools/design_tables.py.
J=${2:-5}
cd "$(dirname "$0")/.."
python3 - <<'PY'
import json, glob
for f in glob.glob('seeded/*/meta.json'):
    m = json.load(open(f)); m['detection'] = {}; m.pop('detected', None); m.pop('detected_with_failing_input', None)
    json.dump(m, open(f, 'w'), indent=1)
for f in glob.glob('benign/*/meta.json'):
    m = json.load(open(f)); m['runs'] = {}; m.pop('quiet', None)
    json.dump(m, open(f, 'w'), indent=1)
PY
ls seeded | xargs -P $J -I{} sh -c 'tools/seeded.py detect {} 2>&1 | grep -v conda | cut -c1-160' > /tmp/refresh_seeded.log 2>&1
( for d in benign/*/; do id=$(basename $d); echo "$id $(python3 -c "import json;print(json.load(open('$d/meta.json'))['property'])")"; done; tools/benign_cross_list.sh ) | sort | awk '{a[$1]=a[$1] (a[$1]?",":"") $2} END {for (k in a) print k, a[k]}' | sort > /tmp/refresh_benign_list.txt
cat /tmp/refresh_benign_list.txt | xargs -P $J -L 1 sh -c 'tools/benign.py run $0 --checks $1 --seeds 0 2>&1 | grep -v conda | cut -c1-200' > /tmp/refresh_benign.log 2>&1
echo REFRESHDONE
