#!/bin/bash
# tools/integrate.sh aN   — merge builder branch aN of /verif and list its repo fix commits
set -e
a=$1
cd /verif
echo "== verif branch $a:"; git log --oneline main..$a | cat
git merge --no-edit $a 2>&1 | tail -3
echo "== repo fix commits on $a (cherry-pick manually):"
git -C /repo log --oneline --reverse main..$a | cat
