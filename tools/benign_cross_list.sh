#!/bin/bash
# cross-run every imported benign change against the checks anchored in the files it touches
cd "$(dirname "$0")/.."
for d in benign/*/; do
  id=$(basename $d); own=$(python3 -c "import json;print(json.load(open('$d/meta.json'))['property'])")
  files=$(grep '^+++ b/' $d/patch.diff | sed 's#+++ b/##')
  checks=""
  for f in $files; do
    case $f in
      geometry_tools/hyperbolic.py) checks="$checks C01 C02 C03 C04 C11 C12 C13 C14 C15 C19";;
      geometry_tools/projective.py) checks="$checks C03 C04 C11 C12 C16 C19 C20";;
      geometry_tools/utils/core.py) checks="$checks C02 C03 C04 C13 C15 C16 C18";;
      geometry_tools/utils/*) checks="$checks C05 C18 C12";;
      geometry_tools/representation.py) checks="$checks C03 C05 C06 C08";;
      geometry_tools/coxeter.py) checks="$checks C02 C06 C07 C08";;
      geometry_tools/automata/*) checks="$checks C06 C07 C09 C10";;
      geometry_tools/lie/*) checks="$checks C02 C05 C17";;
      geometry_tools/complex_projective.py) checks="$checks C20";;
      geometry_tools/drawtools.py) checks="$checks C19";;
    esac
  done
  checks=$(echo $checks | tr ' ' '\n' | sort -u | grep -v "^$own\$" | tr '\n' ',' | sed 's/,$//')
  [ -n "$checks" ] && echo "$id $checks"
done
