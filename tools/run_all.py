#!/usr/bin/env python3
"""run every claimed check (quick or thorough) in parallel on the current tree; print one line per check.
   tools/run_all.py [--tier quick] [--seeds 0,1,2] [-j 6] [--ids C01,C02] [--scratch-evidence]"""
import json, os, subprocess, sys, argparse, time
from concurrent.futures import ThreadPoolExecutor
VERIF = os.path.dirname(os.path.dirname(os.path.abspath(__file__)))
ap = argparse.ArgumentParser()
ap.add_argument("--tier", default="quick"); ap.add_argument("--seeds", default="0"); ap.add_argument("-j", type=int, default=6)
ap.add_argument("--ids"); ap.add_argument("--scratch-evidence", action="store_true")
a = ap.parse_args()
man = json.load(open(os.path.join(VERIF, "MANIFEST.json")))
ids = a.ids.split(",") if a.ids else [c["property_id"] for c in man["checks"]]
jobs = [(i, int(s)) for s in a.seeds.split(",") for i in ids]
def run(job):
    pid, seed = job
    env = dict(os.environ, VERIF_SEED=str(seed))
    if a.scratch_evidence:
        env["VERIF_EVIDENCE_DIR"] = "/tmp/run_all_evidence"
    t = time.time()
    try:
        p = subprocess.run([os.path.join(VERIF, "check"), pid, "--tier", a.tier], cwd=VERIF, env=env, capture_output=True, text=True, timeout=7200)
        out = [l for l in (p.stdout + p.stderr).splitlines() if "conda" not in l]
        tail = out[-1] if out else ""
        bad = [l for l in out if l.startswith(("VIOLATION", "KNOWN-FINDING", "INFRA", "TIMEOUT")) or "failing input" in l or "broken" in l]
        return pid, seed, p.returncode, time.time() - t, tail, bad
    except subprocess.TimeoutExpired:
        return pid, seed, 2, time.time() - t, "TIMEOUT", []
with ThreadPoolExecutor(a.j) as ex:
    res = list(ex.map(run, jobs))
worst = 0
for pid, seed, rc, dt, tail, bad in res:
    print(f"{pid} seed={seed} exit={rc} {dt:6.1f}s  {tail}")
    for b in bad[:6]:
        print("      ", b[:300])
    worst = max(worst, rc)
sys.exit(worst)
