#!/bin/bash
# tools/wave6.sh <PID>: import /tmp/m6/<PID>_out/{1,2} as seeded/<PID>-16, -17; verify; detect with the property's own check
P=$1; cd /verif
for k in 1 2; do
  src=/tmp/m6/${P}_out/$k; id=$P-$((15+k))
  [ -f $src/patch.diff ] || continue
  python3 tools/seeded.py import $src $id $P
  python3 tools/seeded.py verify $id
  python3 tools/seeded.py detect $id --tier quick --seed 0
done
git -C /repo worktree remove --force /tmp/m6/$P 2>/dev/null
