#!/bin/bash
# tools/quick_detect.sh <seed-id> <PID> [clause]: apply seeded/<id>/patch.diff in a scratch worktree and run one clause (debug aid)
id=$1; P=$2; cl=$3; wt=/tmp/qd_$$_$id
git -C /repo worktree add --detach -f $wt HEAD >/dev/null 2>&1
(cd $wt && git apply /verif/seeded/$id/patch.diff) || { echo "patch failed"; }
if [ -n "$cl" ]; then VERIF_REPO=$wt /verif/check $P --skip-lean --only $cl 2>&1 | grep -v conda | tail -6
else VERIF_REPO=$wt VERIF_EVIDENCE_DIR=/tmp/qd_evidence /verif/check $P --skip-lean 2>&1 | grep -v conda | tail -6; fi
git -C /repo worktree remove --force $wt; git -C /repo worktree prune
