import GT
import GT.Driver
/-!
Tie audit (DESIGN §8.9): which model definitions do the property theorems *talk about*, and which of
them does the correspondence driver actually *execute*?

For every theorem listed in `lean/obligations/<ID>.txt` the constants occurring in its **statement** are
collected and followed through the bodies of `GT.*` definitions (so a wrapper at ℝ such as
`GT.C01.distR` is traced to the polymorphic model function it instantiates).  What is kept are the
*computational* definitions of the model (declared in a `GT.*` module, not a theorem, not `Prop`-valued,
not a structure projection / constructor / recursor / instance / auto-generated helper).  The same closure
is computed from `GT.Driver.allOps`.  A model definition mentioned by a theorem but not reachable from any
driver operation is **untied**: the theorem about it is checked by the kernel, but nothing on a check run
compares that definition with the Python.  The list is printed as JSON (one line per property).

Run:  `lake env lean TieAudit.lean`  (reads `obligations/*.txt` relative to the working directory).
-/
open Lean Elab Command Meta

namespace GT.TieAudit

def isGT (env : Environment) (n : Name) : Bool :=
  match env.getModuleIdxFor? n with
  | some idx => (`GT).isPrefixOf (env.header.moduleNames[idx.toNat]!)
  | none => false

def moduleOf (env : Environment) (n : Name) : Name :=
  match env.getModuleIdxFor? n with
  | some idx => env.header.moduleNames[idx.toNat]!
  | none => .anonymous

/-- constants of `GT.*` modules reachable from `roots` through statements (types) of the roots and then through
types and values of definitions (never through proofs of theorems) -/
partial def closure (env : Environment) (roots : Array Name) (rootsTypeOnly : Bool) : NameSet := Id.run do
  let mut seen : NameSet := {}
  let mut todo : Array Name := #[]
  for r in roots do
    match env.find? r with
    | some ci =>
      let cs := if rootsTypeOnly then ci.type.getUsedConstants
                else ci.type.getUsedConstants ++ (ci.value?.map (·.getUsedConstants)).getD #[]
      for c in cs do
        if isGT env c && !seen.contains c then
          seen := seen.insert c; todo := todo.push c
    | none => pure ()
  while !todo.isEmpty do
    let n := todo.back!
    todo := todo.pop
    match env.find? n with
    | some ci =>
      let vals : Array Name := match ci with
        | .thmInfo _ => #[]
        | _ => (ci.value?.map (·.getUsedConstants)).getD #[]
      for c in ci.type.getUsedConstants ++ vals do
        if isGT env c && !seen.contains c then
          seen := seen.insert c; todo := todo.push c
    | none => pure ()
  return seen

def isInternalName : Name → Bool
  | .str p s => s.startsWith "_" || s.startsWith "match_" || s.startsWith "proof_" || s == "rec" || s == "casesOn"
      || s == "recOn" || s == "noConfusion" || s == "noConfusionType" || s == "brecOn" || s == "below"
      || s == "binductionOn" || s == "ibelow" || s == "sizeOf_spec" || s == "injEq" || s == "inj" || s == "ext"
      || s == "ext_iff" || s.startsWith "eq_" || s == "induct" || s == "induct_unfolding" || s == "fun_cases"
      || s == "fun_cases_unfolding" || s == "mutual_induct" || s.startsWith "inst" || s == "ctorIdx" || s == "toCtorIdx"
      || s == "congr_simp" || s == "ofNat" || s == "ctorElim" || s == "ctorElimType" || s == "elim" || s == "mk" || isInternalName p
  | .num _ _ => true
  | .anonymous => false

/-- a computational model definition: a `def` (or opaque/partial) that is not Prop-valued and not generated -/
def isModelDef (env : Environment) (n : Name) : MetaM Bool := do
  if isInternalName n then return false
  if (`GT.Driver).isPrefixOf (moduleOf env n) || (`GT.Base.JsonQ) == moduleOf env n then return false
  if isStructure env n then return false
  if (env.getProjectionFnInfo? n).isSome then return false
  if isInstanceCore env n then return false
  match env.find? n with
  | some (.defnInfo d) =>
    -- Prop-valued definitions are specification predicates, not code
    let isProp ← forallTelescopeReducing d.type fun _ b => do
      return b.isProp || (← isProp b)
    return !isProp
  | some (.opaqueInfo _) => return true
  | _ => return false

def readObligations (pid : String) : IO (Array Name) := do
  let txt ← IO.FS.readFile s!"obligations/{pid}.txt"
  let mut out := #[]
  for ln in txt.splitOn "\n" do
    let ws := (ln.trimAscii.toString.splitOn " ").filter (· ≠ "")
    match ws with
    | [k, nm] => if k == "full" || k == "partial" then out := out.push nm.toName
    | _ => pure ()
  return out

/-- head symbol of a statement after stripping binders -/
partial def concl : Expr → Expr
  | .forallE _ _ b _ => concl b
  | .mdata _ e => concl e
  | e => e

/-- bridge theorems: `GT.*` theorems whose conclusion is an equation (or iff) — candidates for "the executed
definition equals the one the property theorems are about" (e.g. `gsD_toFn : (gsD F rows).map toFn = gs F …`) -/
def bridgeTheorems (env : Environment) : Array (Name × Array Name) := Id.run do
  let mut out := #[]
  -- only the modules of this project are scanned (the environment also holds the imported part of Mathlib)
  for i in [0:env.header.moduleNames.size] do
    if (`GT).isPrefixOf env.header.moduleNames[i]! then
      for n in env.header.moduleData[i]!.constNames do
        match env.find? n with
        | some (.thmInfo t) =>
          if !isInternalName n then
            let c := concl t.type
            if c.isAppOf ``Eq || c.isAppOf ``Iff || c.isAppOf ``HEq then
              out := out.push (n, c.getUsedConstants.filter (isGT env))
        | _ => pure ()
  return out

def audit : CommandElabM Unit := do
  let env ← getEnv
  let drv := closure env #[`GT.Driver.allOps] false
  let bridges := bridgeTheorems env
  let all := (List.range 20).map fun i => let k := i + 1; if k < 10 then s!"C0{k}" else s!"C{k}"
  let only := ((← IO.getEnv "TIE_ONLY").getD "").splitOn "," |>.filter (· ≠ "")
  let pids := if only.isEmpty then all else all.filter (only.contains ·)
  for pid in pids do
    let obs ← readObligations pid
    let missing := obs.filter fun n => (env.find? n).isNone
    let cl := closure env obs true
    let mut stated : Array Name := #[]
    for n in cl.toList do
      if ← liftTermElabM (isModelDef env n) then stated := stated.push n
    let sorted := stated.qsort (fun a b => a.toString < b.toString)
    let comp := sorted.filter fun n => !(Lean.isNoncomputable env n)
    let tied := comp.filter fun n => drv.contains n
    let untied := comp.filter fun n => !drv.contains n
    let nonc := sorted.filter fun n => Lean.isNoncomputable env n
    -- an untied definition is *bridged* when a proved equation relates it to a definition the driver executes
    let mut bridged : Array (Name × Name) := #[]
    let mut open_ : Array Name := #[]
    let mut spec : Array (Name × String) := #[]
    -- hand-maintained classification (lean/tie_spec/<ID>.json: name -> reason): definitions that are *specifications*
    -- (abstract reference semantics the theorems compare the model with) or that are tied at contract level only
    let specJ : Json := match (← (IO.FS.readFile s!"tie_spec/{pid}.json").toBaseIO) with
      | .ok t => (Json.parse t).toOption.getD Json.null
      | .error _ => Json.null
    for x in untied do
      if let .ok (r : String) := specJ.getObjValAs? String x.toString then
        spec := spec.push (x, r); continue
      let hit := bridges.find? fun (_, cs) => cs.contains x && cs.any fun c => c != x && drv.contains c && !isInternalName c
      match hit with
      | some (t, _) => bridged := bridged.push (x, t)
      | none => open_ := open_.push x
    let js := Json.mkObj [
      ("property", pid), ("theorems", obs.size), ("missing_theorems", toJson (missing.map toString)),
      ("model_defs_in_statements", comp.size), ("executed_by_driver", tied.size),
      ("bridged", Json.mkObj (bridged.toList.map fun (x, t) => (x.toString, Json.str t.toString))),
      ("classified", Json.mkObj (spec.toList.map fun (x, r) => (x.toString, Json.str r))),
      ("untied", toJson (open_.map toString)),
      ("noncomputable_wrappers", toJson (nonc.map toString))]
    IO.println js.compress

end GT.TieAudit

open GT.TieAudit in
run_cmd audit
