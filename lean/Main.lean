import GT.Driver
def main : IO Unit := GT.Driver.main
