import GT.Lemmas.Coxeter
import Mathlib.Analysis.SpecialFunctions.Trigonometric.Basic
import Mathlib.Tactic.FieldSimp
import Mathlib.Tactic.Linarith
namespace GT.Cox
open Matrix Finset

section field
variable {K : Type*} [Field K]

/-- if the sequence returns to its initial values after `m` steps and `t ≠ 2`, both period sums vanish -/
theorem cheb_sums_zero (t : K) (m : ℕ) (ht : t ≠ 2) (hm : cheb t m = -1) (hm1 : cheb t (m + 1) = 0) :
    ∑ k ∈ range m, cheb t (k + 1) = 0 ∧ ∑ k ∈ range m, cheb t k = 0 := by
  have e0 : ∑ k ∈ range m, cheb t (k + 1) - ∑ k ∈ range m, cheb t k = 0 := by
    rw [← Finset.sum_sub_distrib, Finset.sum_range_sub (cheb t) m, hm]; simp [cheb]
  have e1 : ∑ k ∈ range m, cheb t (k + 2) - ∑ k ∈ range m, cheb t (k + 1) = 0 := by
    rw [← Finset.sum_sub_distrib, Finset.sum_range_sub (fun k => cheb t (k + 1)) m, hm1]; simp [cheb]
  have e2 : ∑ k ∈ range m, cheb t (k + 2)
      = t * ∑ k ∈ range m, cheb t (k + 1) - ∑ k ∈ range m, cheb t k := by
    rw [Finset.mul_sum, ← Finset.sum_sub_distrib]
    exact Finset.sum_congr rfl (fun k _ => by simp [cheb])
  have h2 : (2 - t) * ∑ k ∈ range m, cheb t (k + 1) = 0 := by
    linear_combination e0 - e1 + e2
  have h3 : ∑ k ∈ range m, cheb t (k + 1) = 0 := by
    rcases mul_eq_zero.1 h2 with h | h
    · exact absurd (by linear_combination -h) ht
    · exact h
  exact ⟨h3, by linear_combination h3 - e0⟩
end field

/-- `cheb (2cos θ) k · sin θ = sin((k-1)θ)` -/
theorem cheb_sin (θ : ℝ) : ∀ k : ℕ, cheb (2 * Real.cos θ) k * Real.sin θ = Real.sin (((k : ℝ) - 1) * θ)
  | 0 => by simp [cheb]
  | 1 => by simp [cheb]
  | (k + 2) => by
    have a := cheb_sin θ (k + 1)
    have b := cheb_sin θ k
    simp only [cheb]
    have e1 : (((k + 2 : ℕ) : ℝ) - 1) * θ = ((k : ℝ) * θ) + θ := by push_cast; ring
    have e2 : (((k + 1 : ℕ) : ℝ) - 1) * θ = (k : ℝ) * θ := by push_cast; ring
    have e3 : ((k : ℝ) - 1) * θ = (k : ℝ) * θ - θ := by ring
    rw [e2] at a
    rw [e3] at b
    rw [e1, Real.sin_add, sub_mul, mul_assoc, a, b, Real.sin_sub]
    ring

theorem cheb_period (m : ℕ) (hm : 3 ≤ m) :
    cheb (2 * Real.cos (2 * Real.pi / m)) m = -1 ∧ cheb (2 * Real.cos (2 * Real.pi / m)) (m + 1) = 0
      ∧ 2 * Real.cos (2 * Real.pi / m) ≠ 2 := by
  have hm0 : (0 : ℝ) < m := by exact_mod_cast (by omega : 0 < m)
  have hm3 : (3 : ℝ) ≤ m := by exact_mod_cast hm
  set θ := 2 * Real.pi / m with hθ
  have hpos : 0 < θ := by positivity
  have hlt : θ < Real.pi := by
    rw [hθ, div_lt_iff₀ hm0]; nlinarith [Real.pi_pos]
  have hs : Real.sin θ ≠ 0 := (Real.sin_pos_of_pos_of_lt_pi hpos hlt).ne'
  have hmθ : (m : ℝ) * θ = 2 * Real.pi := by rw [hθ]; field_simp
  refine ⟨?_, ?_, ?_⟩
  · have := cheb_sin θ m
    have e : ((m : ℝ) - 1) * θ = 2 * Real.pi - θ := by rw [sub_mul, hmθ]; ring
    rw [e, Real.sin_two_pi_sub] at this
    have : (cheb (2 * Real.cos θ) m + 1) * Real.sin θ = 0 := by linarith
    rcases mul_eq_zero.1 this with h | h
    · linarith
    · exact absurd h hs
  · have := cheb_sin θ (m + 1)
    have e : (((m + 1 : ℕ) : ℝ) - 1) * θ = 2 * Real.pi := by push_cast; rw [← hmθ]; ring
    rw [e, Real.sin_two_pi] at this
    rcases mul_eq_zero.1 this with h | h
    · exact h
    · exact absurd h hs
  · have : Real.cos θ < Real.cos 0 :=
      Real.cos_lt_cos_of_nonneg_of_le_pi (le_refl 0) hlt.le hpos
    rw [Real.cos_zero] at this
    intro h; linarith
end GT.Cox
