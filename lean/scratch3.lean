import GT.Lemmas.Coxeter
import Mathlib.LinearAlgebra.Matrix.SchurComplement
namespace GT.Cox
open Matrix Finset
variable {R : Type*} [CommRing R] {n : ℕ}

theorem E_mul_mul_E (B : Matrix (Fin n) (Fin n) R) (i : Fin n) :
    diagonal (Pi.single i 1) * B * diagonal (Pi.single i (1 : R)) = B i i • diagonal (Pi.single i 1) := by
  rw [diagonal_single, single_mul_mul_single, one_mul, mul_one, smul_single, smul_eq_mul, mul_one]

theorem geom_preserves' (B : Matrix (Fin n) (Fin n) R) (i : Fin n) (hs : Bᵀ = B) (hd : B i i = 1) :
    (geomRep B i)ᵀ * B * geomRep B i = B := by
  unfold geomRep refl
  have key : ∀ Y : Matrix (Fin n) (Fin n) R,
      diagonal (Pi.single i 1) * (B * (diagonal (Pi.single i (1 : R)) * Y)) = diagonal (Pi.single i 1) * Y := by
    intro Y
    rw [← mul_assoc, ← mul_assoc, E_mul_mul_E, hd, one_smul]
  set E : Matrix (Fin n) (Fin n) R := diagonal (Pi.single i 1) with hE
  have hEt : Eᵀ = E := diagonal_transpose _
  rw [transpose_sub, transpose_one, transpose_mul, transpose_smul, hs, hEt, two_smul]
  simp only [mul_sub, sub_mul, mul_add, add_mul, mul_one, one_mul, mul_assoc, key]
  abel

theorem det_refl (C : Matrix (Fin n) (Fin n) R) (i : Fin n) : (refl C i).det = 1 - C i i := by
  have : refl C i = 1 + replicateCol Unit (-(Pi.single i (1 : R))) * replicateRow Unit (C i) := by
    unfold refl
    ext a b
    by_cases h : a = i
    · subst h; simp [Matrix.mul_apply, diagonal_apply, sub_eq_add_neg]
    · simp [Matrix.mul_apply, diagonal_apply, h]
  rw [this, det_one_add_replicateCol_mul_replicateRow, dotProduct_neg, row_dot_single]
  ring

theorem dualMat_mul (A B : Matrix (Fin n) (Fin n) R) : dualMat (A * B) = dualMat A * dualMat B := by
  unfold dualMat
  rw [transpose_mul, Matrix.mul_inv_rev]

theorem dualMat_one : dualMat (1 : Matrix (Fin n) (Fin n) R) = 1 := by
  unfold dualMat; simp

theorem wordProd_map_hom (f : Matrix (Fin n) (Fin n) R → Matrix (Fin n) (Fin n) R)
    (h1 : f 1 = 1) (hm : ∀ A B, f (A * B) = f A * f B) (ρ : Fin n → Matrix (Fin n) (Fin n) R)
    (w : List (Fin n)) : wordProd (fun g => f (ρ g)) w = f (wordProd ρ w) := by
  unfold wordProd
  suffices ∀ (acc : Matrix (Fin n) (Fin n) R),
      w.foldl (fun acc g => acc * f (ρ g)) (f acc) = f (w.foldl (fun acc g => acc * ρ g) acc) by
    simpa [h1] using this 1
  induction w with
  | nil => intro acc; rfl
  | cons g w ih => intro acc; simp only [List.foldl_cons, ← hm, ih]

theorem conjMat_mul (W Winv A B : Matrix (Fin n) (Fin n) R) (h : Winv * W = 1) :
    conjMat W Winv (A * B) = conjMat W Winv A * conjMat W Winv B := by
  have h' : W * Winv = 1 := mul_eq_one_comm.1 h
  unfold conjMat
  calc Winv * (A * B) * W = Winv * A * (W * Winv) * B * W := by rw [h']; simp [mul_assoc]
    _ = Winv * A * W * (Winv * B * W) := by simp only [mul_assoc]

theorem conjMat_one (W Winv : Matrix (Fin n) (Fin n) R) (h : Winv * W = 1) :
    conjMat W Winv 1 = 1 := by unfold conjMat; rw [mul_one, h]

theorem conjMat_iso (W Winv B J g : Matrix (Fin n) (Fin n) R) (h : Winv * W = 1) (hJ : Wᵀ * B * W = J)
    (hg : gᵀ * B * g = B) : (conjMat W Winv g)ᵀ * J * conjMat W Winv g = J := by
  have h' : W * Winv = 1 := mul_eq_one_comm.1 h
  have h't : Winvᵀ * Wᵀ = 1 := by rw [← transpose_mul, h', transpose_one]
  unfold conjMat
  rw [transpose_mul, transpose_mul, ← hJ]
  calc Wᵀ * (gᵀ * Winvᵀ) * (Wᵀ * B * W) * (Winv * g * W)
      = Wᵀ * gᵀ * (Winvᵀ * Wᵀ) * B * (W * Winv) * g * W := by simp only [mul_assoc]
    _ = Wᵀ * (gᵀ * B * g) * W := by rw [h', h't]; simp only [mul_one, mul_assoc]
    _ = Wᵀ * B * W := by rw [hg]
end GT.Cox
