import GT.Lemmas.Coxeter
namespace GT.Cox
open Matrix Finset
variable {R : Type*} [CommRing R] {n : ℕ}

def quad (P : Matrix (Fin n) (Fin n) R) (t : R) : Matrix (Fin n) (Fin n) R := P * P - t • P + 1

/-- from the cubic relation: `P^k (P-1) = v_{k+1}·P(P-1) - v_k·(P-1)` -/
theorem pow_mul_Q (P : Matrix (Fin n) (Fin n) R) (t : R) (h : quad P t * (P - 1) = 0) :
    ∀ k : ℕ, P ^ k * (P - 1) = cheb t (k + 1) • (P * (P - 1)) - cheb t k • (P - 1)
  | 0 => by simp [cheb]
  | 1 => by simp [cheb]
  | (k + 2) => by
    have h2 : P * P * (P - 1) = t • (P * (P - 1)) - (P - 1) := by
      unfold quad at h
      rw [add_mul, sub_mul, one_mul, smul_mul_assoc] at h
      have := eq_neg_of_add_eq_zero_left h
      rw [sub_eq_iff_eq_add] at this
      rw [this]; abel
    have e : P ^ (k + 2) * (P - 1) = t • (P ^ (k + 1) * (P - 1)) - P ^ k * (P - 1) := by
      rw [pow_add, mul_assoc, pow_two, h2, mul_sub, mul_smul_comm, ← mul_assoc, ← pow_succ]
    rw [e, pow_mul_Q P t h (k + 1), pow_mul_Q P t h k]
    simp only [cheb]
    module

theorem pow_eq_one_of_cheb (P : Matrix (Fin n) (Fin n) R) (t : R) (h : quad P t * (P - 1) = 0)
    (m : ℕ) (h1 : ∑ k ∈ range m, cheb t (k + 1) = 0) (h0 : ∑ k ∈ range m, cheb t k = 0) :
    P ^ m = 1 := by
  have := geom_sum_mul P m
  rw [Finset.sum_mul] at this
  simp_rw [pow_mul_Q P t h] at this
  rw [Finset.sum_sub_distrib, ← Finset.sum_smul, ← Finset.sum_smul, h1, h0] at this
  simp only [zero_smul, sub_zero] at this
  exact (sub_eq_zero.1 this.symm)
end GT.Cox
