/- exact rational square roots for executing the field-generic model over ℚ -/
import Mathlib.Algebra.Field.Rat
namespace GT

/-- is the non-negative rational `q` the square of a rational? -/
def isSq (q : ℚ) : Bool :=
  q ≥ 0 && (Nat.sqrt q.num.toNat) ^ 2 == q.num.toNat && (Nat.sqrt q.den) ^ 2 == q.den

/-- the exact root when `isSq q`; the driver checks `isSq` on every argument the model
passes to its root function and reports `irrational-root` instead of answering otherwise -/
def rsqrt (q : ℚ) : ℚ := (Nat.sqrt q.num.toNat : ℚ) / (Nat.sqrt q.den : ℚ)

end GT
