/-
Array-backed dense matrices and vectors for *execution*.

Mathlib's `Matrix` / `Fin n → K` are functions: every entry access re-evaluates the
whole expression tree, so a product of k matrices costs n^k.  A structure field is
evaluated strictly, so `DMat.ofMatrix` is a materialisation point; `toMatrix` is a cheap
closure over the stored arrays.  All algebra is *defined* through Mathlib's operations on
`toMatrix`, so the bridge lemmas are one-liners and every theorem about `Matrix`
transfers to what the driver executes.
-/
import Mathlib.Data.Matrix.Mul

structure DMat (m n : ℕ) (K : Type) where
  a : Array (Array K)

structure DVec (n : ℕ) (K : Type) where
  a : Array K

namespace DVec
variable {K : Type} {n : ℕ}

def ofFn (v : Fin n → K) : DVec n K := ⟨Array.ofFn v⟩

def toFn [Inhabited K] (v : DVec n K) : Fin n → K := fun i => v.a[i.1]!

@[simp] theorem toFn_ofFn [Inhabited K] (v : Fin n → K) : (ofFn v).toFn = v := by
  funext i
  simp [ofFn, toFn]

end DVec

namespace DMat
variable {K : Type} {m n p : ℕ}

def ofMatrix (M : Matrix (Fin m) (Fin n) K) : DMat m n K :=
  ⟨Array.ofFn fun i => Array.ofFn fun j => M i j⟩

def toMatrix [Inhabited K] (A : DMat m n K) : Matrix (Fin m) (Fin n) K :=
  fun i j => (A.a[i.1]!)[j.1]!

@[simp] theorem toMatrix_ofMatrix [Inhabited K] (M : Matrix (Fin m) (Fin n) K) :
    (ofMatrix M).toMatrix = M := by
  funext i j
  simp [ofMatrix, toMatrix]

def mul [Inhabited K] [Mul K] [AddCommMonoid K] (A : DMat m n K) (B : DMat n p K) : DMat m p K :=
  ofMatrix (A.toMatrix * B.toMatrix)

@[simp] theorem toMatrix_mul [Inhabited K] [Mul K] [AddCommMonoid K]
    (A : DMat m n K) (B : DMat n p K) : (A.mul B).toMatrix = A.toMatrix * B.toMatrix := by
  simp [mul]

def one [Inhabited K] [Zero K] [One K] : DMat n n K := ofMatrix 1

@[simp] theorem toMatrix_one [Inhabited K] [Zero K] [One K] :
    (one : DMat n n K).toMatrix = 1 := by simp [one]

def transpose [Inhabited K] (A : DMat m n K) : DMat n m K := ofMatrix A.toMatrix.transpose

@[simp] theorem toMatrix_transpose [Inhabited K] (A : DMat m n K) :
    A.transpose.toMatrix = A.toMatrix.transpose := by simp [transpose]

/-- materialise (identity on the denoted matrix) -/
def force [Inhabited K] (M : Matrix (Fin m) (Fin n) K) : DMat m n K := ofMatrix M

end DMat
