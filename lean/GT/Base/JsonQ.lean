/-
JSON helpers for the line protocol.  Rationals travel as strings "p/q" (or "p"), or as
JSON integers.  No floats ever cross the boundary: an IEEE double is a dyadic rational
and is sent exactly by the Python side.
-/
import Lean.Data.Json
import Mathlib.Algebra.Field.Rat
import Mathlib.Data.Matrix.Mul
import GT.Base.DMat

open Lean

namespace GT.J

abbrev R := Except String

def parseInt (s : String) : R Int :=
  match s.trimAscii.toString.toInt? with
  | some i => pure i
  | none => throw s!"bad integer '{s}'"

def parseQStr (s : String) : R ℚ := do
  match s.splitOn "/" with
  | [p] => return ((← parseInt p) : ℚ)
  | [p, q] =>
    let p ← parseInt p
    let q ← parseInt q
    if q = 0 then throw "zero denominator" else return (p : ℚ) / (q : ℚ)
  | _ => throw s!"bad rational '{s}'"

def toQ (j : Json) : R ℚ :=
  match j with
  | .str s => parseQStr s
  | .num n => if n.exponent = 0 then pure (n.mantissa : ℚ) else
      pure ((n.mantissa : ℚ) / ((10 : ℚ) ^ n.exponent))
  | _ => throw s!"expected rational, got {j.compress}"

def ofQ (q : ℚ) : Json :=
  if q.den = 1 then .str (toString q.num) else .str s!"{q.num}/{q.den}"

def arr (j : Json) : R (Array Json) :=
  match j with
  | .arr a => pure a
  | _ => throw s!"expected array, got {j.compress}"

def field (j : Json) (k : String) : R Json :=
  match j.getObjVal? k with
  | .ok v => pure v
  | .error _ => throw s!"missing field '{k}'"

def fieldD (j : Json) (k : String) (d : Json) : Json :=
  match j.getObjVal? k with
  | .ok v => v
  | .error _ => d

def str (j : Json) : R String :=
  match j with
  | .str s => pure s
  | _ => throw s!"expected string, got {j.compress}"

def nat (j : Json) : R Nat :=
  match j with
  | .num n => if n.exponent = 0 ∧ n.mantissa ≥ 0 then pure n.mantissa.toNat else throw "expected nat"
  | .str s => match s.toNat? with | some n => pure n | none => throw "expected nat"
  | _ => throw s!"expected nat, got {j.compress}"

def int (j : Json) : R Int :=
  match j with
  | .num n => if n.exponent = 0 then pure n.mantissa else throw "expected int"
  | .str s => parseInt s
  | _ => throw s!"expected int, got {j.compress}"

def bool (j : Json) : R Bool :=
  match j with
  | .bool b => pure b
  | _ => throw s!"expected bool, got {j.compress}"

def qArr (j : Json) : R (Array ℚ) := do (← arr j).mapM toQ

def qArr2 (j : Json) : R (Array (Array ℚ)) := do (← arr j).mapM qArr

def ofQArr (a : Array ℚ) : Json := .arr (a.map ofQ)
def ofQArr2 (a : Array (Array ℚ)) : Json := .arr (a.map ofQArr)

/-- vector of a given length as a function (closure over a forced array) -/
def vec (n : Nat) (j : Json) : R (Fin n → ℚ) := do
  let a ← qArr j
  if a.size ≠ n then throw s!"expected vector of length {n}, got {a.size}"
  return fun i => a[i.1]!

def mat (m n : Nat) (j : Json) : R (Matrix (Fin m) (Fin n) ℚ) := do
  let a ← qArr2 j
  if a.size ≠ m then throw s!"expected {m} rows, got {a.size}"
  if a.any (fun r => r.size ≠ n) then throw s!"expected rows of length {n}"
  return fun i j => (a[i.1]!)[j.1]!

def ofVec {n : Nat} (v : Fin n → ℚ) : Json := ofQArr (Array.ofFn v)
def ofMat {m n : Nat} (M : Matrix (Fin m) (Fin n) ℚ) : Json :=
  ofQArr2 (Array.ofFn fun i => Array.ofFn fun j => M i j)

def qf (j : Json) (k : String) : R ℚ := do toQ (← field j k)
def natf (j : Json) (k : String) : R Nat := do nat (← field j k)
def strf (j : Json) (k : String) : R String := do str (← field j k)
def boolf (j : Json) (k : String) : R Bool := do bool (← field j k)
def vecf (n : Nat) (j : Json) (k : String) : R (Fin n → ℚ) := do vec n (← field j k)
def matf (m n : Nat) (j : Json) (k : String) : R (Matrix (Fin m) (Fin n) ℚ) := do mat m n (← field j k)

/-- handler table entry -/
abbrev Handler := Json → R Json

end GT.J
