import GT.Base.JsonQ
import GT.Base.QSqrt
import GT.Model.ObjState
import GT.Driver.C03
import GT.Driver.C04
open Lean GT.J GT GT.Act
namespace GT.Driver.C11
open GT.Driver.C04 (ndf ndOf ofND natsf)
open GT.Driver.C03 (kindOf ofObj ofOpt)

/-- exact rational root where there is one; `-1` marks an irrational root (detected afterwards:
every value the model takes a root of is recomputed by `rootsOk`) -/
def rq (x : ℚ) : ℚ := if isSq x then rsqrt x else -1

def objsOf (kind : Kind) (j : Json) : R (List (Obj ℚ)) := do
  let a ← arr j
  let l ← a.mapM fun o => do
    let p ← ndf o "proj"
    return Obj.construct rq kind p
  return l.toList

def opOf (kind : Kind) (j : Json) : R (ObjOp ℚ) := do
  match (← strf j "op") with
  | "copy" => return .copy
  | "astype" => return .astype
  | "flatten" => return .flatten
  | "apply" =>
    let A ← ndf j "A"
    return .apply A A            -- (no class of the histories carries dual data: the second matrix is never read)
  | "reshape" => return .reshape (← natsf j "s")
  | "index" => return .index (← natf j "k")
  | "setitem" => return .setItem (← natf j "k") (← ndf j "v")
  | "stack" => return .stack (← objsOf kind (← field j "others"))
  | "combine" => return .combine (← objsOf kind (← field j "others"))
  | _ => throw "unknown op"

def queryOf (s : String) : R Query := match s with
  | "coords" => pure .coords
  | "hyperboloid" => pure .hyperboloidCoords
  | "distance" => pure .distance
  | "origin_to" => pure .originTo
  | "normalized" => pure .tangentNormalized
  | "tangent_origin_to" => pure .tangentOriginTo
  | "circle_parameters" => pure .circleParameters
  | "fixed_points" => pure .fixedPoints
  | _ => throw "unknown query"

/-- Minkowski square norm of a row -/
def mnorm (row : List ℚ) : ℚ :=
  ((row.zipIdx.map fun (xi : ℚ × Nat) => if xi.2 = 0 then -(xi.1 * xi.1) else xi.1 * xi.1).sum : ℚ)

def isNormalizedQ : Query → Bool
  | .tangentNormalized => true
  | _ => false

/-- every entry produced with an irrational root is tainted by the marker `-1`; instead of
tracking it we re-derive: a segment's ideal endpoints must be null vectors -/
def segmentAuxOk (X : Obj ℚ) : Bool :=
  match X.kind, X.aux with
  | .segment, some a =>
    let n := a.shape.getLastD 0
    let rows := sz (a.shape.take (a.shape.length - 1))
    (List.range rows).all fun k =>
      let row := (List.range n).map fun c => a.data.getD (k * n + c) 0
      mnorm row == 0
  | _, _ => true

/-- a one-element history is one step -/
theorem run_single {K : Type} [Field K] [Inhabited K] (r : K → K) (X : Obj K) (op : ObjOp K) :
    X.run r [op] = X.step r op := by
  unfold Obj.run
  cases X.step r op <;> simp [Obj.run]

/-- a history is run step by step: the driver loop below, which reports the object after every step, threads
exactly this recursion -/
theorem run_cons {K : Type} [Field K] [Inhabited K] (r : K → K) (X : Obj K) (op : ObjOp K) (ops : List (ObjOp K)) :
    X.run r (op :: ops) = (X.step r op).bind fun Y => Y.run r ops := by
  conv_lhs => unfold Obj.run
  cases X.step r op <;> rfl

/-- the unit-level edges of a polygon (`polygonEdges`, the statement vocabulary of `polygonEdges_equivariant` /
`polygonEdges_chain`) are the polygon case of the executed `auxEntry` (through `computeAux`): entry `(e, a, c)` is
entry `((e + a) mod t, c)` of the vertex array -/
theorem polygonEdges_eq_auxEntry {K : Type} [Field K] [Inhabited K] {k n : ℕ} (r : K → K)
    (X : Matrix (Fin (k + 1)) (Fin n) K) (acc : List ℕ → K)
    (hacc : ∀ (v : Fin (k + 1)) (c : Fin n), acc [v.1, c.1] = X v c) (e : Fin (k + 1)) (a : Fin 2) (c : Fin n) :
    polygonEdges X e a c = auxEntry r .polygon [k + 1, n] acc [e.1, a.1, c.1] := by
  have h0 : e.1 % (k + 1) = e.1 := Nat.mod_eq_of_lt e.2
  have h1 : (e.1 + 1) % (k + 1) = (e + 1).1 := by simp [Fin.val_add]
  fin_cases a
  · simp [polygonEdges, auxEntry, ← hacc, h0]
  · simp [polygonEdges, auxEntry, ← hacc, h1]

/-- run a history (operations and queries interleaved) and report the object after every step -/
def opRun (j : Json) : R Json := do
  let kind ← kindOf (← strf j "kind")
  let p ← ndf j "proj"
  let steps ← arr (← field j "ops")
  let mut X : Obj ℚ := Obj.construct rq kind p
  if !segmentAuxOk X then throw "irrational-root"
  let mut out : Array Json := #[ofObj X]
  for s in steps do
    match (← strf s "op") with
    | "q" =>
      let q ← queryOf (← strf s "name")
      -- queries that normalise need exact roots of |<x,x>| for every row they touch
      let arrs : List (ND ℚ) := match q with
        | .hyperboloidCoords | .distance | .originTo => [X.proj]
        | .tangentNormalized | .tangentOriginTo => X.aux.toList
        | _ => []
      for a in arrs do
        let n := a.shape.getLastD 0
        let rows := sz (a.shape.take (a.shape.length - 1))
        for k in List.range rows do
          let row := (List.range n).map fun c => a.data.getD (k * n + c) 0
          let nn := mnorm row
          if !(isNormalizedQ q) || (k % 2 == 1) then
            if !isSq |nn| then throw "irrational-root"
      X := X.afterQuery rq q
      out := out.push (ofObj X)
    | _ =>
      let op ← opOf kind s
      -- one operation of the history (`run_single` / `run_cons`: `Obj.run` threads exactly these steps)
      match X.step rq op with
      | .error e => throw e
      | .ok Y =>
        if !segmentAuxOk Y then throw "irrational-root"
        X := Y
        out := out.push (ofObj X)
  return .arr out

/-- `Cls(proj_data).aux_data` -/
def opAux (j : Json) : R Json := do
  let kind ← kindOf (← strf j "kind")
  let X : Obj ℚ := Obj.construct rq kind (← ndf j "proj")
  if !segmentAuxOk X then throw "irrational-root"
  return ofOpt X.aux

/-- the literal numpy form of a polygon's edges -/
def opPolyLit (j : Json) : R Json := do
  match computeAuxPolygonLit (← ndf j "proj") with
  | .ok a => return ofND a
  | .error e => throw e

def ops : List (String × Handler) :=
  [("c11.run", opRun), ("c11.aux", opAux), ("c11.polygon_edges_literal", opPolyLit)]
end GT.Driver.C11
