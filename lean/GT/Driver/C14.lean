import GT.Base.JsonQ
import GT.Base.QSqrt
import GT.Model.Circle
import GT.Lemmas.Circle
import GT.Driver.C13
open Lean GT.J GT GT.Circle
namespace GT.Driver.C14
open GT.Driver.C13 (needSq V S S_toFn withVec)

def ofPair (u : ℚ × ℚ) : Json := Json.arr #[ofQ u.1, ofQ u.2]

/-- rows of a rational matrix as materialised vectors -/
def rowsOf (k n : ℕ) (j : Json) (key : String) : R (Fin k → Fin n → ℚ) := do
  let M ← matf k n j key
  let d := DMat.ofMatrix M
  return fun a b => d.toMatrix a b

/-- staged `segmentIdeal` -/
def segmentIdealS {n : ℕ} (r : ℚ → ℚ) (x₁ x₂ : Fin (n + 1) → ℚ) : V (n + 1) × V (n + 1) :=
  (S (segmentIdeal r x₁ x₂).1, S (segmentIdeal r x₁ x₂).2)

/-- `Segment._compute_aux_data` -/
def segIdealOp (j : Json) : R Json := withVec j "x1" fun n x₁ => do
  let x₂ ← vecf (n + 1) j "x2"
  if segA x₁ x₂ == 0 then throw "DivZero"
  if segDisc x₁ x₂ < 0 then throw "negative-discriminant"
  needSq (segDisc x₁ x₂)
  let s := segmentIdealS rsqrt x₁ x₂
  return Json.arr #[ofQArr s.1.a, ofQArr s.2.a]

/-- staged `poincareSphere` from a materialised Klein point -/
def poincareSphereS {n : ℕ} (r : ℚ → ℚ) (m : Fin n → ℚ) : V n × ℚ :=
  let p := S (k2p r m)
  let e := S (sphereInv p.toFn)
  (S (fun i => (p.toFn i + e.toFn i) / 2), r (nsq (fun i => p.toFn i - e.toFn i)) / 2)

theorem poincareSphereS_eq {n : ℕ} (r : ℚ → ℚ) (m : Fin n → ℚ) :
    ((poincareSphereS r m).1.toFn, (poincareSphereS r m).2) = poincareSphere r m := by
  simp [poincareSphereS, poincareSphere]

/-- staged `poincareSphereFoot`: the Klein point `Σ λ_j k_j` materialised, then `poincareSphereS` — what
`spherePoincareOp` executes -/
def poincareSphereFootS {k n : ℕ} (r : ℚ → ℚ) (lam : Fin k → ℚ) (ks : Fin k → Fin n → ℚ) : V n × ℚ :=
  poincareSphereS r (S (affComb lam ks)).toFn

theorem poincareSphereFootS_eq {k n : ℕ} (r : ℚ → ℚ) (lam : Fin k → ℚ) (ks : Fin k → Fin n → ℚ) :
    ((poincareSphereFootS r lam ks).1.toFn, (poincareSphereFootS r lam ks).2) = poincareSphereFoot r lam ks := by
  simp [poincareSphereFootS, poincareSphereFoot, poincareSphereS_eq, S_toFn]

/-! The pinned tree's centroid construction (`poincareSphereCentroid`, `halfspaceSphereCentroid`, `centroid`) models
code that the repaired /repo no longer contains; it occurs in the proved negations (`sphere_k3_counterexample`,
`halfspace_k3_counterexample`) and in `sphere_parameters_partial`.  For an ideal basis of two points — the only case in
which it agrees with the library — it is the executed construction with `lamMid` (`segCircleOp`): -/

theorem centroid_two_eq_affComb {K : Type*} [Field K] [CharZero K] {n : ℕ} (ks : Fin 2 → Fin n → K) :
    centroid ks = affComb lamMid ks := by
  rw [centroid_two, affComb_lamMid]

theorem poincareSphereCentroid_two {K : Type*} [Field K] [LinearOrder K] [CharZero K] {n : ℕ} (r : K → K)
    (ks : Fin 2 → Fin n → K) :
    poincareSphereCentroid r ks = poincareSphere r (affComb lamMid ks) := by
  rw [poincareSphereCentroid, centroid_two_eq_affComb]

theorem halfspaceSphereCentroid_two {K : Type*} [Field K] [CharZero K] {n : ℕ} (r : K → K)
    (hs : Fin 2 → Fin n → K) :
    halfspaceSphereCentroid r hs = halfspaceSphere r lamMid hs := by
  simp only [halfspaceSphereCentroid, halfspaceSphere, centroid_two_eq_affComb]

def sphereChecks {n : ℕ} (m : Fin n → ℚ) : R Unit := do
  needSq |1 - nsq m|
  let p := S (k2p rsqrt m)
  if nsq p.toFn == 0 then throw "DivZero"
  let e := S (sphereInv p.toFn)
  needSq (nsq (fun i => p.toFn i - e.toFn i))

/-- `Subspace.sphere_parameters(POINCARE)` (repaired): `ks` Klein coordinates of the ideal basis,
`lam` the affine coordinates of the foot (the `pinv` contract, checked exactly here) -/
def spherePoincareOp (j : Json) : R Json := do
  let k ← natf j "k"
  let n ← natf j "n"
  match k with
  | 0 => throw "empty basis"
  | k' + 1 =>
    let ks ← rowsOf (k' + 1) n j "ks"
    let lam ← vecf (k' + 1) j "lam"
    let m := S (affComb lam ks)
    let sumOk := (∑ a, lam a) == 1
    let orthOk := (List.finRange (k' + 1)).all fun a =>
      dot (fun i => ks a i - ks 0 i) m.toFn == 0
    sphereChecks m.toFn
    let s := poincareSphereFootS rsqrt lam ks
    return Json.mkObj [("center", ofQArr s.1.a), ("radius", ofQ s.2), ("m", ofQArr m.a),
      ("contract", Json.bool (sumOk && orthOk))]

/-- `Subspace.sphere_parameters(HALFSPACE)` (repaired): `hs` half-space coordinates of the ideal
basis, `lam` affine coordinates of the centre (contract, checked exactly) -/
def sphereHalfspaceOp (j : Json) : R Json := do
  let k ← natf j "k"
  let n ← natf j "n"
  match k with
  | 0 => throw "empty basis"
  | k' + 1 =>
    let hs ← rowsOf (k' + 1) n j "hs"
    let lam ← vecf (k' + 1) j "lam"
    let c := S (affComb lam hs)
    let sumOk := (∑ a, lam a) == 1
    let circOk := (List.finRange (k' + 1)).all fun a =>
      2 * dot (fun i => hs a i - hs 0 i) (fun i => c.toFn i - hs 0 i)
        == nsq (fun i => hs a i - hs 0 i)
    let radSq := nsq (fun i => hs 0 i - c.toFn i)
    let rad : Json := if isSq radSq then ofQ (rsqrt radSq) else Json.null
    return Json.mkObj [("center", ofQArr c.a), ("rad_sq", ofQ radSq), ("radius", rad),
      ("contract", Json.bool (sumOk && circOk))]

/-- `Horosphere.sphere_parameters`: `ideal`, `ref` are Poincaré coordinates; the half-space
answer is computed from their images under `poincare_to_halfspace` -/
def horoOp (j : Json) : R Json := do
  let ia ← qArr (← field j "ideal")
  match ia.size with
  | 0 => throw "empty vector"
  | n + 1 =>
    let ideal ← vec (n + 1) (.arr (ia.map ofQ))
    let ref ← vecf (n + 1) j "ref"
    if 1 - dot ideal ref == 0 then throw "DivZero"
    let hp := horoPoincare ideal ref
    let dI := nsq (Fin.tail ideal) + (ideal 0 - 1) * (ideal 0 - 1)
    let dR := nsq (Fin.tail ref) + (ref 0 - 1) * (ref 0 - 1)
    if dI == 0 || dR == 0 then
      return Json.mkObj [("p_center", ofVec hp.1), ("p_radius", ofQ hp.2), ("h_center", Json.null)]
    let hi := S (p2h ideal)
    let hr := S (p2h ref)
    if hr.toFn (Fin.last n) == 0 then throw "DivZero"
    let hh := horoHalfspace hi.toFn hr.toFn
    return Json.mkObj [("p_center", ofVec hp.1), ("p_radius", ofQ hp.2),
      ("h_center", ofVec hh.1), ("h_radius", ofQ hh.2), ("h_ideal", ofQArr hi.a), ("h_ref", ofQArr hr.a)]

def pairf (j : Json) (key : String) : R (ℚ × ℚ) := do
  let a ← qArr (← field j key)
  if a.size ≠ 2 then throw "expected pair"
  return (a[0]!, a[1]!)

/-- arc selection on direction vectors -/
def arcOp (j : Json) : R Json := do
  let kind ← strf j "kind"
  let u ← pairf j "u"
  let v ← pairf j "v"
  match kind with
  | "short" => let s := shortArc u v; return Json.arr #[ofPair s.1, ofPair s.2]
  | "r2l" => let s := rightToLeft u v; return Json.arr #[ofPair s.1, ofPair s.2]
  | "horo" =>
    let ref ← pairf j "ref"
    let s := horoArc u v ref
    return Json.arr #[ofPair s.1, ofPair s.2]
  | _ => throw "unknown kind"

/-- the whole of `Segment.circle_parameters(model)` in dimension 2 from the stored endpoint
data: ideal endpoints (quadratic), their Klein coordinates, sphere through them (repaired code,
`lamMid`), endpoint coordinates in the model, directions, arc selection -/
def segCircleOp (j : Json) : R Json := do
  let x₁ ← vecf 3 j "x1"
  let x₂ ← vecf 3 j "x2"
  let model ← strf j "model"
  if segA x₁ x₂ == 0 then throw "DivZero"
  if segDisc x₁ x₂ < 0 then throw "negative-discriminant"
  needSq (segDisc x₁ x₂)
  let ib := segmentIdealS rsqrt x₁ x₂
  if ib.1.toFn 0 == 0 || ib.2.toFn 0 == 0 || x₁ 0 == 0 || x₂ 0 == 0 then throw "GeometryError"
  needSq |1 - nsq (klein x₁)|
  needSq |1 - nsq (klein x₂)|
  if model == "poincare" then
    let k₁ := S (klein ib.1.toFn)
    let k₂ := S (klein ib.2.toFn)
    let ks : Fin 2 → Fin 2 → ℚ := ![k₁.toFn, k₂.toFn]
    let m := S (affComb lamMid ks)
    sphereChecks m.toFn
    let s := poincareSphereS rsqrt m.toFn
    let e₁ := S (getPoincare rsqrt x₁)
    let e₂ := S (getPoincare rsqrt x₂)
    let arc := shortArc (dirOf s.1.toFn e₁.toFn) (dirOf s.1.toFn e₂.toFn)
    return Json.mkObj [("center", ofQArr s.1.a), ("radius", ofQ s.2),
      ("dirs", Json.arr #[ofPair arc.1, ofPair arc.2])]
  else if model == "halfspace" then
    needSq |1 - nsq (klein ib.1.toFn)|
    needSq |1 - nsq (klein ib.2.toFn)|
    let bad (x : Fin 3 → ℚ) : Bool :=
      let p := getPoincare rsqrt x
      nsq (Fin.tail p) + (p 0 - 1) * (p 0 - 1) == 0
    if bad ib.1.toFn || bad ib.2.toFn || bad x₁ || bad x₂ then throw "DivZero"
    let h₁ := S (getHalfspace (n := 1) rsqrt ib.1.toFn)
    let h₂ := S (getHalfspace (n := 1) rsqrt ib.2.toFn)
    let hs : Fin 2 → Fin 2 → ℚ := ![h₁.toFn, h₂.toFn]
    let sp := halfspaceSphere rsqrt lamMid hs
    let c := S sp.1
    let radSq := nsq (fun i => hs 0 i - c.toFn i)
    needSq radSq
    let e₁ := S (getHalfspace (n := 1) rsqrt x₁)
    let e₂ := S (getHalfspace (n := 1) rsqrt x₂)
    let arc := rightToLeft (dirOf c.toFn e₁.toFn) (dirOf c.toFn e₂.toFn)
    return Json.mkObj [("center", ofQArr c.a), ("radius", ofQ sp.2),
      ("dirs", Json.arr #[ofPair arc.1, ofPair arc.2])]
  else throw "GeometryError"

def ops : List (String × Handler) :=
  [("c14.segment_ideal", segIdealOp), ("c14.sphere_poincare", spherePoincareOp),
   ("c14.sphere_halfspace", sphereHalfspaceOp), ("c14.horo", horoOp), ("c14.arc", arcOp),
   ("c14.segment_circle", segCircleOp)]
end GT.Driver.C14
