import GT.Base.JsonQ
import GT.Model.DrawPath
open Lean GT.J GT GT.DrawPath
namespace GT.Driver.C19

def ptOf (j : Json) : R (ℚ × ℚ) := do
  let a ← qArr j
  if a.size ≠ 2 then throw "expected [x, y]"
  return (a[0]!, a[1]!)

def ofPt (p : ℚ × ℚ) : Json := .arr #[ofQ p.1, ofQ p.2]

/-- matplotlib's numeric path codes -/
def codeOf (j : Json) : R Code := do
  match (← nat j) with
  | 1 => pure .moveto | 2 => pure .lineto | 4 => pure .curve4
  | n => throw s!"unsupported path code {n}"

def ofCode : Code → Json
  | .moveto => (1 : Nat) | .lineto => (2 : Nat) | .curve4 => (4 : Nat)

def pieceOf (j : Json) : R (Piece ℚ) := do
  let vs ← (← arr (← field j "verts")).mapM ptOf
  let cs ← (← arr (← field j "codes")).mapM codeOf
  return ⟨vs.toList, cs.toList, ← ptOf (← field j "p1"), ← ptOf (← field j "p2")⟩

/-- `get_polygon_arcpath` on the pieces of a polygon's edges -/
def assembleOp (j : Json) : R Json := do
  let pcs ← (← arr (← field j "pieces")).mapM pieceOf
  let τ2 ← qf j "tau2"
  match assemble τ2 pcs.toList with
  | none => throw "IndexError"
  | some (vs, cs) =>
    return Json.mkObj [("verts", .arr (vs.map ofPt).toArray), ("codes", .arr (cs.map ofCode).toArray)]

/-- the radius-threshold switch: which kind of piece is used -/
def edgeOp (j : Json) : R Json := do
  let thr ← qf j "thr"
  let radius : Option ℚ ← match j.getObjVal? "radius" with
    | .ok .null => pure none
    | .ok v => do pure (some (← toQ v))
    | .error _ => pure none
  let p1 ← ptOf (← field j "p1")
  let p2 ← ptOf (← field j "p2")
  let pc := edgePiece thr radius ([], []) (p1, p2) p1 p2
  return .str (if pc.verts.isEmpty then "arc" else "straight")

def optX (j : Json) : R (Option ℚ × ℚ) := do
  let a ← arr j
  if a.size ≠ 2 then throw "expected [x|null, y]"
  let x : Option ℚ ← match a[0]! with
    | .null => pure none
    | v => do pure (some (← toQ v))
  return (x, ← toQ a[1]!)

def ofOptPt (p : Option ℚ × ℚ) : Json :=
  .arr #[match p.1 with | some x => ofQ x | none => .null, ofQ p.2]

/-- `get_vertical_segment` -/
def verticalOp (j : Json) : R Json := do
  let r := verticalSegment (← qf j "left") (← qf j "right") (← qf j "up")
    (← optX (← field j "e0")) (← optX (← field j "e1"))
  return .arr #[ofOptPt r.1, ofOptPt r.2]

def guardOp (j : Json) : R Json := do
  match preprocess (← natf j "dimension") with
  | .ok _ => return .str "ok"
  | .error e => throw e

def ops : List (String × Handler) :=
  [("c19.assemble", assembleOp), ("c19.edge_kind", edgeOp), ("c19.vertical", verticalOp),
   ("c19.guard", guardOp)]
end GT.Driver.C19
