/-
Driver ops for C17: the definitions of `GT.Model.Lie` executed over ℚ (`"field":"Q"`) and over
ℚ(i) (`"field":"QI"`, numbers as `[re, im]`; the ring-generic maps run at `GT.QI`, the maps
that split real and imaginary parts at `Cx ℚ`).
-/
import GT.Base.JsonQ
import GT.Base.QSqrt
import GT.Model.Lie
import GT.Driver.C16
import GT.Driver.C04
import GT.Model.LieND
import Mathlib.Algebra.Order.Field.Rat
import Mathlib.Algebra.Order.Ring.Abs
open Lean GT.J GT GT.Lie
namespace GT.Driver.C17
open GT.Driver.C16 (JField kArr kArr2 vecOfArr matOfArr outVec outMat)

instance : JField (Cx ℚ) where
  parse j := do
    let a ← arr j
    if a.size ≠ 2 then throw "expected [re, im]"
    return ⟨← toQ a[0]!, ← toQ a[1]!⟩
  out z := .arr #[ofQ z.re, ofQ z.im]

section generic
variable {K : Type} [JField K] [Inhabited K] [CommRing K]

/-- `sl2_irrep(A, n)` -/
def irrepOp (j : Json) : R Json := do
  let n ← natf j "n"
  let A : Matrix (Fin 2) (Fin 2) K ← matOfArr 2 2 (← kArr2 (← field j "A"))
  return outMat (sl2Irrep n A)

/-- flatten a matrix indexed by pairs (row-major `k*n+l`) -/
def outPairMat {n : ℕ} (M : Matrix (Fin n × Fin n) (Fin n × Fin n) K) : Json :=
  outMat (fun (a b : Fin (n * n)) => M (finProdFinEquiv.symm a) (finProdFinEquiv.symm b))

/-- all pairs but the last diagonal one, in row-major order -/
def slIdxList (n : ℕ) : List (SlIdx n) :=
  (List.finRange (n + 1)).flatMap fun i => (List.finRange (n + 1)).filterMap fun j =>
    if h : (i, j) ≠ (Fin.last n, Fin.last n) then some ⟨(i, j), h⟩ else none

def outSlMat {n : ℕ} (M : Matrix (SlIdx n) (SlIdx n) K) : Json :=
  .arr ((slIdxList n).map fun p => Json.arr ((slIdxList n).map fun q => JField.out (M p q)).toArray).toArray

/-- `gln_adjoint(A, inv=Ai)` -/
def glnAdjOp (j : Json) : R Json := do
  let n ← natf j "n"
  let A : Matrix (Fin n) (Fin n) K ← matOfArr n n (← kArr2 (← field j "A"))
  let Ai : Matrix (Fin n) (Fin n) K ← matOfArr n n (← kArr2 (← field j "Ai"))
  return outPairMat (glnAdjoint A Ai)

/-- `sln_adjoint(A, inv=Ai)` -/
def slnAdjOp (j : Json) : R Json := do
  let n ← natf j "n"
  match n with
  | 0 => throw "n ≥ 1 expected"
  | m + 1 =>
    let A : Matrix (Fin (m + 1)) (Fin (m + 1)) K ← matOfArr (m + 1) (m + 1) (← kArr2 (← field j "A"))
    let Ai : Matrix (Fin (m + 1)) (Fin (m + 1)) K ← matOfArr (m + 1) (m + 1) (← kArr2 (← field j "Ai"))
    return outSlMat (slnAdjoint A Ai)

/-- `sln_killing_form(n)` -/
def killingOp (j : Json) : R Json := do
  let n ← natf j "n"
  match n with
  | 0 => throw "n ≥ 1 expected"
  | m + 1 => return outSlMat (slnKilling (R := K) (n := m))

/-- `block_include(A, dim)` -/
def blockOp (j : Json) : R Json := do
  let n ← natf j "n"
  let dim ← natf j "dim"
  if dim < n then throw "ValueError"
  let A : Matrix (Fin n) (Fin n) K ← matOfArr n n (← kArr2 (← field j "A"))
  let B := blockInclude (k := dim - n) A
  let idx : List (Fin n ⊕ Fin (dim - n)) := (List.finRange n).map Sum.inl ++ (List.finRange (dim - n)).map Sum.inr
  return .arr (idx.map fun p => Json.arr (idx.map fun q => JField.out (B p q)).toArray).toArray

end generic

/-- `slc_to_slr(Z)` -/
def realifyOp (j : Json) : R Json := do
  let n ← natf j "n"
  let Z : Matrix (Fin n) (Fin n) (Cx ℚ) ← matOfArr n n (← kArr2 (← field j "Z"))
  let B := realifyCx Z
  let idx : List (Fin n ⊕ Fin n) := (List.finRange n).map Sum.inl ++ (List.finRange n).map Sum.inr
  return .arr (idx.map fun p => Json.arr (idx.map fun q => ofQ (B p q)).toArray).toArray

/-- `sl2_to_so21(A)` -/
def so21Op (j : Json) : R Json := do
  let A ← matf 2 2 j "A"
  return ofMat (sl2ToSo21 A)

/-- `sl2c_to_so31` with the Hermitian action materialised once (pure re-association of the
evaluation; `so31Fast_eq` shows it is the model function) -/
def so31Fast (M : Matrix (Fin 2) (Fin 2) (Cx ℚ)) : Matrix (Fin 4) (Fin 4) ℚ :=
  so31BasisInv * (DMat.ofMatrix (sl2cHermAction M)).toMatrix * so31Basis

theorem so31Fast_eq (M : Matrix (Fin 2) (Fin 2) (Cx ℚ)) : so31Fast M = sl2cToSo31 M := by
  simp [so31Fast, sl2cToSo31]

/-- `sl2c_to_so31(M)`; also reports the largest imaginary part that `utils.real` drops -/
def so31Op (j : Json) : R Json := do
  let M : Matrix (Fin 2) (Fin 2) (Cx ℚ) ← matOfArr 2 2 (← kArr2 (← field j "M"))
  let Hc := (DMat.ofMatrix (sl2cHermActionCx M)).toMatrix
  let im := (List.finRange 4).foldl (fun acc i => (List.finRange 4).foldl (fun acc j => max acc |(Hc i j).im|) acc) (0 : ℚ)
  return Json.mkObj [("S", ofMat (so31Fast M)), ("dropped_imag", ofQ im)]

def needSq (q : ℚ) : R Unit := if isSq q then pure () else throw "irrational-root"

/-- `o_to_pgl(S)` (default form): repaired extraction, and the pinned one for reference -/
def pglOp (j : Json) : R Json := do
  let S ← matf 3 3 j "S"
  let Ad := (DMat.ofMatrix (oToPglAd S)).toMatrix
  needSq |Ad 0 0|
  needSq |Ad 0 2|
  needSq |Ad 2 0|
  needSq |Ad 2 2|
  return Json.mkObj [("A", ofMat (oToPgl rsqrt S)), ("pinned", ofMat (oToPglPinned rsqrt S)), ("Ad", ofMat Ad)]

/-- the default form is the instance `W = Winv = perm210` of the general `A_d` -/
theorem oToPglAd_eq_form {K : Type*} [Field K] (S : Matrix (Fin 3) (Fin 3) K) :
    GT.Lie.oToPglAd S = GT.Lie.oToPglAdForm GT.Lie.perm210 GT.Lie.perm210 S := rfl

/-- `o_to_pgl(S, bilinear_form=B)`: `W`, `Winv` are the pair `utils.diagonalize_form(B, "minkowski", reverse=True,
with_inverse=True)` returns (contract outputs; `W * Winv = 1` is reported) -/
def pglFormOp (j : Json) : R Json := do
  let S ← matf 3 3 j "S"
  let W ← matf 3 3 j "W"
  let Winv ← matf 3 3 j "Winv"
  let Ad := (DMat.ofMatrix (GT.Lie.oToPglAdForm W Winv S)).toMatrix
  needSq |Ad 0 0|
  needSq |Ad 0 2|
  needSq |Ad 2 0|
  needSq |Ad 2 2|
  let P := (DMat.ofMatrix (W * Winv)).toMatrix
  let inv := (List.finRange 3).all fun i => (List.finRange 3).all fun k => P i k == if i = k then 1 else 0
  return Json.mkObj [("A", ofMat (GT.Lie.oToPglForm rsqrt W Winv S)), ("Ad", ofMat Ad), ("inverse", .bool inv)]

/-- the array-level (`ND`) models of the vectorised code paths: `{"shape":[...], "data":[...]}` in and out -/
def irrepNdOp (j : Json) : R Json := do
  let A ← GT.Driver.C04.ndf j "A"
  return GT.Driver.C04.ofND (GT.Lie.Arr.sl2IrrepND (← natf j "n") A)

def so21NdOp (j : Json) : R Json := do
  GT.Driver.C04.liftE (GT.Lie.Arr.sl2ToSo21ND (← GT.Driver.C04.ndf j "A"))

def glnNdOp (j : Json) : R Json := do
  GT.Driver.C04.liftE (GT.Lie.Arr.glnAdjointND (← natf j "n") (← GT.Driver.C04.ndf j "A") (← GT.Driver.C04.ndf j "Ai"))

def byField (hq : Handler) (hqi : Handler) : Handler := fun j => do
  match (← strf j "field") with
  | "Q" => hq j
  | "QI" => hqi j
  | _ => throw "unknown field"

def ops : List (String × Handler) :=
  [("c17.irrep", byField (irrepOp (K := ℚ)) (irrepOp (K := QI))),
   ("c17.gln_adj", byField (glnAdjOp (K := ℚ)) (glnAdjOp (K := QI))),
   ("c17.sln_adj", byField (slnAdjOp (K := ℚ)) (slnAdjOp (K := QI))),
   ("c17.killing", killingOp (K := ℚ)),
   ("c17.block", byField (blockOp (K := ℚ)) (blockOp (K := QI))),
   ("c17.realify", realifyOp),
   ("c17.so21", so21Op),
   ("c17.so31", so31Op),
   ("c17.o_to_pgl", pglOp),
   ("c17.o_to_pgl_form", pglFormOp),
   ("c17.irrep_nd", irrepNdOp), ("c17.so21_nd", so21NdOp), ("c17.gln_nd", glnNdOp)]
end GT.Driver.C17
