/-
Driver operations for C06: `automaton_accepted` (with memo threading across a sequence of
calls), `enumerate_words`, `free_automaton`, `freely_reduced_elements`, `free_words_*`,
executed over ℚ.  States are natural numbers on the wire (the harness numbers the Python
states), `null` is `None`.
-/
import GT.Base.JsonQ
import GT.Model.RepAut
import GT.Lemmas.RepAutGuard
import GT.Lemmas.RepAutLangStar
import GT.Driver.C05
open Lean GT.J GT GT.RepW
namespace GT.Driver.C06
open GT.Driver.C05

def optNat (j : Json) (k : String) : J.R (Option Nat) :=
  match j.getObjVal? k with
  | .ok .null => pure none
  | .ok v => do pure (some (← nat v))
  | .error _ => pure none

/-- `{"graph": [[v, [[label, w], …]], …], "starts": [v, …]}` -/
def autOf (j : Json) : J.R (Aut Nat) := do
  let g ← (← arr (← field j "graph")).mapM fun row => do
    let r ← arr row
    if r.size ≠ 2 then throw "bad graph row"
    let es ← (← arr r[1]!).mapM fun e => do
      let p ← arr e
      if p.size ≠ 2 then throw "bad edge"
      pure ((← str p[0]!), (← nat p[1]!))
    pure ((← nat r[0]!), es.toList)
  let st ← (← arr (← field j "starts")).mapM nat
  return { graph := g.toList, starts := st.toList }

def outAcc {n : ℕ} (r : AccRes n ℚ) : Json :=
  Json.mkObj [("mats", .arr (r.mats.map (outMat qIO)).toArray),
              ("words", .arr (r.words.map Json.str).toArray)]

/-- running the calls `cs` and then `cs'` on the dict left behind is running `cs ++ cs'`: the loop of `runOp`
(one `runCalls a [c] d` per call, the dict threaded) computes `runCalls` of the whole kept sequence -/
theorem runCalls_append {V : Type} [DecidableEq V] {n : ℕ} {R : Type} [Inhabited R] [CommRing R]
    (ρ : Rep n R) (a : Aut V) (cs cs' : List (Rep.Call V)) (d : Rep.PreDict V n R) :
    ρ.runCalls a (cs ++ cs') d =
      ((ρ.runCalls a cs d).1 ++ (ρ.runCalls a cs' (ρ.runCalls a cs d).2).1,
       (ρ.runCalls a cs' (ρ.runCalls a cs d).2).2) := by
  induction cs generalizing d with
  | nil => rfl
  | cons c cs ih => simp only [List.cons_append, Rep.runCalls, ih]

/-- a single call through `runCalls` is `automatonAcceptedD` -/
theorem runCalls_single {V : Type} [DecidableEq V] {n : ℕ} {R : Type} [Inhabited R] [CommRing R]
    (ρ : Rep n R) (a : Aut V) (c : Rep.Call V) (d : Rep.PreDict V n R) :
    ρ.runCalls a [c] d =
      ([(ρ.automatonAcceptedD a c.length c.maxlen c.withWords c.startState c.endState d c.edgeWords).1],
       (ρ.automatonAcceptedD a c.length c.maxlen c.withWords c.startState c.endState d c.edgeWords).2) := rfl

/-- a sequence of `automaton_accepted` calls sharing (or not) the `precomputed` dict -/
def runOp (j : Json) : J.R Json := do
  let n ← natf j "n"
  let ρ ← build qIO n j
  let a ← autOf (← field j "aut")
  let calls ← arr (← field j "calls")
  let mut dict : Rep.PreDict Nat n ℚ := {}
  let mut outs : Array Json := #[]
  for c in calls do
    let keep := (optBool c "keep").getD false
    let d0 : Rep.PreDict Nat n ℚ := if keep then dict else {}
    -- one public call on the dict `d0`, through `Rep.runCalls` (the definition `precomputed_guard_calls` is
    -- about); `runCalls_append` below: call after call on the running dict is `runCalls` of the whole list
    let call : Rep.Call Nat := ⟨← natf c "L", (optBool c "maxlen").getD true,
      (optBool c "with_words").getD false, ← optNat c "start", ← optNat c "end",
      (optBool c "edge_words").getD true⟩
    let (rs, d1) := ρ.runCalls a [call] d0
    dict := d1
    match rs.headD (.error "no-result") with
    | .ok res =>
      outs := outs.push (Json.mkObj [("ok", outAcc res),
        ("memo_keys", .arr (d1.memo.map fun kv => Json.arr #[toJson kv.1.1,
            match kv.1.2 with | none => .null | some v => toJson v]).toArray)])
    | .error e =>
      outs := outs.push (Json.mkObj [("err", .str e)])
  return .arr outs

/-- the memo-free specification `Rep.topSpec` of every call of a `c06.run` scenario (the dict plays no role):
what `automatonAccepted_agrees` / `precomputed_guard_calls` say each returned value is -/
def specOp (j : Json) : J.R Json := do
  let n ← natf j "n"
  let ρ ← build qIO n j
  let a ← autOf (← field j "aut")
  let calls ← arr (← field j "calls")
  let mut outs : Array Json := #[]
  for c in calls do
    let maxlen := (optBool c "maxlen").getD true
    let ww := (optBool c "with_words").getD false
    let ew := (optBool c "edge_words").getD true
    let en ← optNat c "end"
    let L ← natf c "L"
    let st ← optNat c "start"
    -- the reference path language of the call (`accepted_words_*_any`, `automatonAccepted_words_*_any`): joined label
    -- words of the paths from the start state resp. from a start vertex to the end state (there under `Aut.WF`)
    let strs (l : List String) : Json := .arr (l.map Json.str).toArray
    let wf : Bool := decide (a.graph.map Prod.fst).Nodup && decide a.starts.Nodup
    let lang : Json := match en with
      | some e => if wf then strs (Rep.endLangJ ρ.joinW a maxlen L e) else .null
      | none => match (st <|> a.starts.head?) with
        | some s => strs (Rep.startLangJ ρ.joinW a maxlen L s)
        | none => .null
    -- the same language by plain concatenation (`startLang` / `endLang`), what a `parse_simple` representation returns
    let lang0 : Json := if !ρ.parseSimple then .null else match en with
      | some e => if wf then strs (Rep.endLang a maxlen L e) else .null
      | none => match (st <|> a.starts.head?) with
        | some s => strs (Rep.startLang a maxlen L s)
        | none => .null
    match ρ.topSpec a L maxlen ww st en ew with
    | .ok pairs => outs := outs.push (Json.mkObj [("ok", outAcc (Rep.toRes (Rep.topOpts maxlen ww en ew) pairs)),
        ("lang", lang), ("lang0", lang0)])
    | .error e => outs := outs.push (Json.mkObj [("err", .str e)])
  return .arr outs

def outWS (l : List (String × Nat)) : Json :=
  .arr (l.map fun wv => Json.arr #[.str wv.1, toJson wv.2]).toArray

def enumOp (j : Json) : J.R Json := do
  let a ← autOf (← field j "aut")
  let s ← match ← optNat j "start" with
    | some s => pure s
    | none => match a.starts with
      | s :: _ => pure s
      | [] => throw "IndexError"
  let L ← natf j "L"
  if (optBool j "fixed").getD false then
    return outWS (← lift (a.enumFixed s L))
  return outWS (← lift (a.enumWords s L))

def viewsOp (j : Json) : J.R Json := do
  let a ← autOf (← field j "aut")
  let view (d : List (Nat × List String)) : Json :=
    .arr (d.map fun vl => Json.arr #[toJson vl.1, .arr (vl.2.map Json.str).toArray]).toArray
  return Json.mkObj [
    ("vertices", toJson a.vertices),
    ("out", .arr (a.vertices.map fun v => Json.arr #[toJson v, view ((a.outDict? v).getD [])]).toArray),
    ("in", .arr (a.vertices.map fun v => Json.arr #[toJson v, view (a.inDict v)]).toArray)]

def freeOp (j : Json) : J.R Json := do
  let gs ← (← arr (← field j "gens")).mapM str
  let a := freeAutomaton gs.toList
  return Json.mkObj [
    ("graph", .arr (a.graph.map fun vn => Json.arr #[.str vn.1,
        .arr (vn.2.map fun ln => Json.arr #[.str ln.1, .str ln.2]).toArray]).toArray),
    ("starts", .arr (a.starts.map Json.str).toArray)]

def freeRedOp (j : Json) : J.R Json := do
  let n ← natf j "n"
  let ρ ← build qIO n j
  let r ← lift (ρ.freelyReducedElements (← natf j "L") ((optBool j "maxlen").getD true)
    ((optBool j "with_words").getD false))
  return outAcc r

def freeWordsOp (j : Json) : J.R Json := do
  let n ← natf j "n"
  let ρ ← build qIO n j
  let L ← natf j "L"
  let ws := if (optBool j "less_than").getD false then ρ.freeWordsLessThan L else ρ.freeWordsOfLength L
  return .arr (ws.map Json.str).toArray

def ops : List (String × Handler) :=
  [("c06.run", runOp), ("c06.spec", specOp), ("c06.enum", enumOp), ("c06.views", viewsOp), ("c06.free", freeOp),
   ("c06.freered", freeRedOp), ("c06.freewords", freeWordsOp)]
end GT.Driver.C06
