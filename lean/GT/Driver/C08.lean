import GT.Base.JsonQ
import GT.Model.Coxeter
open Lean GT.J GT.Cox
namespace GT.Driver.C08

/-- integer matrix (entries sent as JSON integers or strings) -/
def intMat (n : Nat) (j : Json) : R (Matrix (Fin n) (Fin n) ℤ) := do
  let rows ← arr j
  if rows.size ≠ n then throw "bad shape"
  let a ← rows.mapM fun r => do (← arr r).mapM int
  if a.any (fun r => r.size ≠ n) then throw "bad shape"
  return fun i j => (a[i.1]!)[j.1]!

/-- the supplied cosine table `x ↦ cos(π/x)` as a list of `[x, value]` pairs -/
def cosTable (j : Json) : R (ℚ → Option ℚ) := do
  let ps ← (← arr j).mapM fun p => do
    let a ← qArr p
    if a.size ≠ 2 then throw "bad cos table"
    return (a[0]!, a[1]!)
  return fun x => (ps.toList.lookup x)

def matsf (n : Nat) (j : Json) (k : String) : R (Array (DMat n n ℚ)) := do
  let a ← arr (← field j k)
  a.mapM fun m => do return DMat.ofMatrix (← mat n n m)

instance {n : Nat} : Inhabited (DMat n n ℚ) := ⟨⟨#[]⟩⟩

def ofD {n : Nat} (A : DMat n n ℚ) : Json := ofQArr2 A.a

def maxAbs {n : Nat} (A : DMat n n ℚ) : ℚ :=
  A.a.foldl (fun acc r => r.foldl (fun acc x => max acc |x|) acc) 0

def fins (n : Nat) : List (Fin n) := List.finRange n

/-- the cosine form from the Coxeter matrix `M` and the supplied cosine table `cos` -/
def formOf (n : Nat) (j : Json) : R (DMat n n ℚ) := do
  let M ← intMat n (← field j "M")
  let tab ← cosTable (← field j "cos")
  -- every key the model will ask for must be supplied
  for i in fins n do
    for k in fins n do
      let x : ℚ := if M i k ≤ 0 then 1 / 2 else (M i k : ℚ)
      if (tab x).isNone then throw "missing-cosine"
  return DMat.ofMatrix (cosineForm (fun x => (tab x).getD 0) M)

/-- `CoxeterGroup.bilinear_form()` from the Coxeter matrix and supplied cosines -/
def formOp (j : Json) : R Json := do
  let n ← natf j "n"
  return ofD (← formOf n j)

/-- the form: either given (`B`) or built from `M` and `cos` -/
def getB (n : Nat) (j : Json) : R (Matrix (Fin n) (Fin n) ℚ) := do
  match j.getObjVal? "B" with
  | .ok b => mat n n b
  | .error _ => return (← formOf n j).toMatrix

/-- generators of `cartan_representation(C)` / `geometric_representation()` /
`canonical_representation()` / `geometric_representation(diagonalize=True)` -/
def gensOp (j : Json) : R Json := do
  let n ← natf j "n"
  let kind ← strf j "kind"
  match kind with
  | "cartan" =>
    let C ← matf n n j "C"
    return .arr ((fins n).map fun i => ofD (DMat.ofMatrix (refl C i))).toArray
  | "cartanhyp" =>
    -- `cartan_representation(C, diagonalize=True)`: the reflections of `C` itself, conjugated by the supplied pair
    let C ← matf n n j "C"
    let W := DMat.ofMatrix (← matf n n j "W")
    let Wi := DMat.ofMatrix (← matf n n j "Winv")
    if !(diagGuard W.toMatrix) then throw "GeometryError"
    return .arr ((fins n).map fun i =>
      ofD (DMat.ofMatrix (conjMat W.toMatrix Wi.toMatrix (DMat.ofMatrix (refl C i)).toMatrix))).toArray
  | "vinberg" =>
    -- `tits_vinberg_rep(parameters)`
    let B ← getB n j
    let M ← intMat n (← field j "M")
    let P ← matf n n j "P"
    let C := DMat.ofMatrix (cartanMatrix B M P)
    return .arr ((fins n).map fun i => ofD (DMat.ofMatrix (refl C.toMatrix i))).toArray
  | "geom" =>
    let B ← getB n j
    return .arr ((fins n).map fun i => ofD (DMat.ofMatrix (geomRep B i))).toArray
  | "canon" =>
    -- `canonRep B i = (geomRep B i)ᵀ` by `GT.C08.canonRep_eq_transpose` (needs `B_ii = 1`)
    let B ← getB n j
    if (fins n).any (fun i => B i i ≠ 1) then throw "diag-not-one"
    return .arr ((fins n).map fun i => ofD (DMat.ofMatrix (geomRep B i).transpose)).toArray
  | "hyp" =>
    let B ← getB n j
    let W := DMat.ofMatrix (← matf n n j "W")
    let Wi := DMat.ofMatrix (← matf n n j "Winv")
    if !(diagGuard W.toMatrix) then throw "GeometryError"
    return .arr ((fins n).map fun i =>
      ofD (DMat.ofMatrix (hypRep B W.toMatrix Wi.toMatrix i))).toArray
  | "canonhyp" =>
    -- `canonical_representation(diagonalize=True)`: dual of the diagonalised generator; a generator is an
    -- involution (`GT.C08.relations_transfer`), so its inverse transpose is its transpose
    let B ← getB n j
    if (fins n).any (fun i => B i i ≠ 1) then throw "diag-not-one"
    let W := DMat.ofMatrix (← matf n n j "W")
    let Wi := DMat.ofMatrix (← matf n n j "Winv")
    if !(diagGuard W.toMatrix) then throw "GeometryError"
    return .arr ((fins n).map fun i =>
      ofD (DMat.ofMatrix (hypRep B W.toMatrix Wi.toMatrix i).transpose)).toArray
  | _ => throw "unknown kind"

/-- `Representation._word_value` on supplied generator matrices -/
def wordOp (j : Json) : R Json := do
  let n ← natf j "n"
  let gs ← matsf n j "gens"
  if gs.size ≠ n then throw "need n generators"
  let w ← (← arr (← field j "word")).mapM nat
  if w.any (fun k => k ≥ n) then throw "KeyError"
  let word : List (Fin n) := w.toList.filterMap fun k => if h : k < n then some ⟨k, h⟩ else none
  return ofD (wordProdD (fun i => gs[i.1]!) word)

def subOne {n : Nat} (A : DMat n n ℚ) : DMat n n ℚ := DMat.ofMatrix (A.toMatrix - 1)

/-- relation residuals, evaluated exactly on supplied generator matrices (the implementation's
output): `max|gᵢ² − 1|`, `max|(gᵢgⱼ)^m − 1|` over finite labels, `min_{0<k<m} max|(gᵢgⱼ)^k − 1|`
(order exactly `m`), `max|gᵢᵀ F gᵢ − F|` for a supplied form `F`, `max|Winv·W − 1|`,
`max|Wᵀ B W − J|` -/
def residOp (j : Json) : R Json := do
  let n ← natf j "n"
  let gs ← matsf n j "gens"
  if gs.size ≠ n then throw "need n generators"
  let M ← intMat n (← field j "M")
  let g : Fin n → DMat n n ℚ := fun i => gs[i.1]!
  let mut invol : ℚ := 0
  let mut braid : ℚ := 0
  let mut order : Option ℚ := none
  for i in fins n do
    invol := max invol (maxAbs (subOne ((g i).mul (g i))))
    for k in fins n do
      if i < k ∧ M i k ≥ 2 then
        let m := (M i k).toNat
        let P := (g i).mul (g k)
        -- acc runs through P^1, …, P^m  (= `powD P e`, computed incrementally)
        let mut acc := P
        for e in List.range m do
          let r := maxAbs (subOne acc)
          if e + 1 < m then
            order := some (match order with | none => r | some o => min o r)
            acc := acc.mul P
          else
            braid := max braid r
  let mut out : List (String × Json) := [("invol", ofQ invol), ("braid", ofQ braid),
    ("order", match order with | none => Json.null | some o => ofQ o)]
  match j.getObjVal? "F" with
  | .ok f =>
    let F ← mat n n f
    let mut fr : ℚ := 0
    for i in fins n do
      fr := max fr (maxAbs (DMat.ofMatrix (formResidual F (g i).toMatrix)))
    out := out ++ [("form", ofQ fr)]
  | .error _ => pure ()
  match j.getObjVal? "W" with
  | .ok w =>
    let W := DMat.ofMatrix (← mat n n w)
    let Wi := DMat.ofMatrix (← matf n n j "Winv")
    let B ← getB n j
    let J ← matf n n j "J"
    let WtBW := ((W.transpose.mul (DMat.ofMatrix B)).mul W)
    out := out ++ [("winv", ofQ (maxAbs (subOne (Wi.mul W)))),
      ("diag", ofQ (maxAbs (DMat.ofMatrix (WtBW.toMatrix - J))))]
  | .error _ => pure ()
  return Json.mkObj out

/-- the fundamental triangle of the rank-3 form `form3 a b c` (the objects of `GT.C08.triangle_angles`), evaluated
exactly: the form itself, and for every vertex `k` (fixed by `sᵢ, sⱼ`, `{i,j,k} = {0,1,2}`, `i = k+1`, `j = k+2`
mod 3) `B(ω_k,ω_k)`, `B(u,w)`, `B(u,u)`, `B(w,w)` for the directions `u, w = tangent B ω_k ω_j`, `tangent B ω_k ω_i`;
optionally `bil B x y` (`utils.apply_bilinear`) for supplied vectors -/
def triangleOp (j : Json) : R Json := do
  let a ← qf j "a"
  let b ← qf j "b"
  let c ← qf j "c"
  let B := (DMat.ofMatrix (form3 a b c)).toMatrix
  let V : Array (Array ℚ) := ((fins 3).map fun k => (DVec.ofFn (vertex B k)).a).toArray
  let vs : Fin 3 → Fin 3 → ℚ := fun k a => (V[k.1]!)[a.1]!
  let mut out : Array Json := #[]
  for k in fins 3 do
    let i : Fin 3 := k + 1
    let jj : Fin 3 := k + 2
    let u := (DVec.ofFn (tangent B (vs k) (vs jj))).toFn
    let w := (DVec.ofFn (tangent B (vs k) (vs i))).toFn
    out := out.push (Json.mkObj [("vertex", ofVec (vs k)), ("norm", ofQ (bil B (vs k) (vs k))),
      ("uw", ofQ (bil B u w)), ("uu", ofQ (bil B u u)), ("ww", ofQ (bil B w w))])
  let mut res : List (String × Json) := [("form", ofMat B), ("verts", .arr out)]
  match j.getObjVal? "x" with
  | .ok _ =>
    let x ← vecf 3 j "x"
    let y ← vecf 3 j "y"
    res := res ++ [("bil", ofQ (bil B x y))]
  | .error _ => pure ()
  return Json.mkObj res

def ops : List (String × Handler) :=
  [("c08.form", formOp), ("c08.gens", gensOp), ("c08.word", wordOp), ("c08.resid", residOp),
   ("c08.triangle", triangleOp)]
end GT.Driver.C08
