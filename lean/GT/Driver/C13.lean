import GT.Base.JsonQ
import GT.Base.QSqrt
import GT.Model.Targets
open Lean GT.J GT GT.Targets
namespace GT.Driver.C13

def needSq (q : ℚ) : R Unit := if isSq q then pure () else throw "irrational-root"

/-! Staged (materialised) versions of the model functions: a `DVec` value is evaluated once,
whereas a function-typed vector re-evaluates its whole expression tree on every access.  Each
staged function is proved equal to the model definition the theorems are about. -/

abbrev V (n : ℕ) := DVec n ℚ
def S {n : ℕ} (v : Fin n → ℚ) : V n := DVec.ofFn v

@[simp] theorem S_toFn {n : ℕ} (v : Fin n → ℚ) : (S v).toFn = v := DVec.toFn_ofFn v

/-- run `k` on the vector stored under `key`, whatever its length `n+1 ≥ 1` -/
def withVec (j : Json) (key : String) (k : (n : ℕ) → (Fin (n + 1) → ℚ) → R Json) : R Json := do
  let xa ← qArr (← field j key)
  match xa.size with
  | 0 => throw "empty vector"
  | n + 1 => k n (← vec (n + 1) (.arr (xa.map ofQ)))

def originRow0S {n : ℕ} (r : ℚ → ℚ) (x : Fin (n + 1) → ℚ) : V (n + 1) :=
  let xh := S (normalize r x)
  let xu := S (upperSheet xh.toFn)
  S (normalize r xu.toFn)

theorem originRow0S_eq {n : ℕ} (r : ℚ → ℚ) (x : Fin (n + 1) → ℚ) :
    (originRow0S r x).toFn = originToRow0 r x := by
  simp [originRow0S, originToRow0, gsRow0]

/-- the executed row 0 is row 0 of Gram–Schmidt (`gsRow0`) on the upper-sheet representative -/
theorem originRow0S_gs {n : ℕ} (r : ℚ → ℚ) (x : Fin (n + 1) → ℚ) :
    (originRow0S r x).toFn = gsRow0 r (upperSheet (normalize r x)) := by
  simp [originRow0S, gsRow0]

/-- `c13.tv_rows` answers row 0 of `TangentVector.origin_to` with the same staged function -/
theorem tvRow0S_eq {n : ℕ} (r : ℚ → ℚ) (p v : Fin (n + 1) → ℚ) :
    (originRow0S r p).toFn = tvOriginToRow0 r p v := by
  simp [originRow0S, tvOriginToRow0, gsRow0]

def tvRow1S {n : ℕ} (r : ℚ → ℚ) (p v : Fin (n + 1) → ℚ) : V (n + 1) :=
  let w := S (projHyp p v)
  let ph0 := S (normalize r p)
  let σ := sheetSign ph0.toFn
  let wh := S (fun i => σ * normalize r w.toFn i)
  let ph := S (upperSheet ph0.toFn)
  let y := S (fun i => wh.toFn i - mproj wh.toFn ph.toFn i)
  S (normalize r y.toFn)

theorem tvRow1S_eq {n : ℕ} (r : ℚ → ℚ) (p v : Fin (n + 1) → ℚ) :
    (tvRow1S r p v).toFn = tvOriginToRow1 r p v := by
  simp [tvRow1S, tvOriginToRow1, gsRow1]

/-- the executed row 1 is row 1 of Gram–Schmidt (`gsRow1`) on the sheet-normalised pair -/
theorem tvRow1S_gs {n : ℕ} (r : ℚ → ℚ) (p v : Fin (n + 1) → ℚ) :
    (tvRow1S r p v).toFn = gsRow1 r (upperSheet (normalize r p))
      (fun i => sheetSign (normalize r p) * normalize r (projHyp p v) i) := by
  simp [tvRow1S, gsRow1]

def tvNormalizedS {n : ℕ} (r : ℚ → ℚ) (p v : Fin (n + 1) → ℚ) : V (n + 1) :=
  let w := S (projHyp p v)
  let wh := S (normalize r w.toFn)
  S (projHyp p wh.toFn)

theorem tvNormalizedS_eq {n : ℕ} (r : ℚ → ℚ) (p v : Fin (n + 1) → ℚ) :
    (tvNormalizedS r p v).toFn = tvNormalizedVec r p v := by
  simp [tvNormalizedS, tvNormalizedVec]

def towardsS {n : ℕ} (r : ℚ → ℚ) (p q : Fin (n + 1) → ℚ) : V (n + 1) :=
  let s : ℚ := if mink p q > 0 then -1 else 1
  let d := S (fun i => s * q i - p i)
  tvNormalizedS r p d.toFn

theorem towardsS_eq {n : ℕ} (r : ℚ → ℚ) (p q : Fin (n + 1) → ℚ) :
    (towardsS r p q).toFn = unitTangentTowards r p q := by
  simp [towardsS, unitTangentTowards, tvNormalizedS_eq]

def angleCosS {n : ℕ} (r : ℚ → ℚ) (p v₁ v₂ : Fin (n + 1) → ℚ) : ℚ :=
  let a₁ := tvNormalizedS r p v₁
  let a₂ := tvNormalizedS r p v₂
  let b₁ := S (projHyp p a₁.toFn)
  let b₂ := S (projHyp p a₂.toFn)
  mink b₁.toFn b₂.toFn

theorem angleCosS_eq {n : ℕ} (r : ℚ → ℚ) (p v₁ v₂ : Fin (n + 1) → ℚ) :
    angleCosS r p v₁ v₂ = angleCos r p v₁ v₂ := by
  simp [angleCosS, angleCos, tvNormalizedS_eq]

theorem angleCosS_clamped_eq {n : ℕ} (r : ℚ → ℚ) (p v₁ v₂ : Fin (n + 1) → ℚ) :
    max (-1) (min 1 (angleCosS r p v₁ v₂)) = angleCosClamped r p v₁ v₂ := by
  rw [angleCosS_eq]; rfl

/-- `angleCosPair` staged: `other` stores its own base point `q` -/
def angleCosPairS {n : ℕ} (r : ℚ → ℚ) (p v₁ q v₂ : Fin (n + 1) → ℚ) : ℚ :=
  let a₁ := tvNormalizedS r p v₁
  let a₂ := tvNormalizedS r q v₂
  let b₁ := S (projHyp p a₁.toFn)
  let b₂ := S (projHyp p a₂.toFn)
  (if mink p q > 0 then -1 else 1) * mink b₁.toFn b₂.toFn

theorem angleCosPairS_eq {n : ℕ} (r : ℚ → ℚ) (p v₁ q v₂ : Fin (n + 1) → ℚ) :
    angleCosPairS r p v₁ q v₂ = angleCosPair r p v₁ q v₂ := by
  simp [angleCosPairS, angleCosPair, tvNormalizedS_eq]

/-- row 0 of `Point.origin_to()` -/
def originRow0 (j : Json) : R Json := withVec j "x" fun _ x => do
  needSq |mink x x|
  let xh := S (normalize rsqrt x)
  needSq |mink xh.toFn xh.toFn|
  return ofQArr (originRow0S rsqrt x).a

/-- rows 0, 1 of `TangentVector(p, v).origin_to()` -/
def tvRows (j : Json) : R Json := withVec j "p" fun n p => do
  let v ← vecf (n + 1) j "v"
  if mink p p == 0 then throw "DivZero"
  needSq |mink p p|
  let w := S (projHyp p v)
  needSq |mink w.toFn w.toFn|
  return Json.arr #[ofQArr (originRow0S rsqrt p).a, ofQArr (tvRow1S rsqrt p v).a]

/-- `.vector` of `p.unit_tangent_towards(q)` -/
def towards (j : Json) : R Json := withVec j "p" fun n p => do
  let q ← vecf (n + 1) j "q"
  if mink p p == 0 then throw "DivZero"
  let s : ℚ := if mink p q > 0 then -1 else 1
  let w := S (projHyp p (fun i => s * q i - p i))
  needSq |mink w.toFn w.toFn|
  return ofQArr (towardsS rsqrt p q).a

/-- `TangentVector(p, v).point_along(t)` with `(ch, sh) = (cosh t, sinh t)`: the projective
vector `p̂ + (sh/ch)·v̂` and its `cosh`-distance from `p` -/
def pointAlongOp (j : Json) : R Json := withVec j "p" fun n p => do
  let v ← vecf (n + 1) j "v"
  let ch ← qf j "ch"
  let sh ← qf j "sh"
  if mink p p == 0 then throw "DivZero"
  if ch == 0 then throw "DivZero"
  needSq |mink p p|
  let w := S (projHyp p v)
  needSq |mink w.toFn w.toFn|
  let r0 := originRow0S rsqrt p
  let r1 := tvRow1S rsqrt p v
  let y := S (pointAlong r0.toFn r1.toFn (sh / ch))
  needSq |mink y.toFn y.toFn|
  return Json.mkObj [("pt", ofQArr y.a), ("cosh", ofQ (coshDist rsqrt p y.toFn)),
    ("th", ofQ (hypToAffine ((ch + sh) ^ 2)))]

/-- the argument of `arccos` in `TangentVector(p,v1).angle(TangentVector(p,v2))`, or, with `"q"` present,
in `TangentVector(p,v1).angle(TangentVector(q,v2))` -/
def angleOp (j : Json) : R Json := withVec j "p" fun n p => do
  let v₁ ← vecf (n + 1) j "v1"
  let v₂ ← vecf (n + 1) j "v2"
  if mink p p == 0 then throw "DivZero"
  let w₁ := S (projHyp p v₁)
  let w₂ := S (projHyp p v₂)
  needSq |mink w₁.toFn w₁.toFn|
  match j.getObjVal? "q" with
  | .error _ =>
    needSq |mink w₂.toFn w₂.toFn|
    return ofQ (max (-1) (min 1 (angleCosS rsqrt p v₁ v₂)))
  | .ok _ =>
    -- `other` stores its own base point `q` (`TangentVector.angle` multiplies by the sheet sign before clipping)
    let q ← vecf (n + 1) j "q"
    if mink q q == 0 then throw "DivZero"
    let u₂ := S (projHyp q v₂)
    needSq |mink u₂.toFn u₂.toFn|
    return ofQ (max (-1) (min 1 (angleCosPairS rsqrt p v₁ q v₂)))

/-- `polyVertex` with every iterate materialised -/
def polyVertexS {n : ℕ} (c s th : ℚ) : ℕ → V (n + 3)
  | 0 => S (polyStart th)
  | i + 1 => S (rotApply c s (polyVertexS c s th i).toFn)

theorem polyVertexS_eq {n : ℕ} (c s th : ℚ) (i : ℕ) :
    (polyVertexS (n := n) c s th i).toFn = polyVertex c s th i := by
  induction i with
  | zero => simp [polyVertexS, polyVertex]
  | succ i ih => simp [polyVertexS, polyVertex, ih]

/-- vertices `0..cnt-1` of `Polygon.regular_polygon` in dimension `dim ≥ 2` -/
def polyOp (j : Json) : R Json := do
  let dim ← natf j "dim"
  let cnt ← natf j "cnt"
  let c ← qf j "c"
  let s ← qf j "s"
  let th ← qf j "th"
  match dim with
  | 0 | 1 => throw "GeometryError"
  | m + 2 =>
    return Json.arr ((Array.range cnt).map fun i => ofQArr (polyVertexS (n := m) c s th i).a)

/-- the closed forms of `regular_polygon_radius` / `polygon_interior_angle` -/
def polyFormulaOp (j : Json) : R Json := do
  let A ← qf j "A"
  let g ← qf j "g"
  let S ← qf j "S"
  if (1 - A) * g == 0 then throw "DivZero"
  if 1 + g * S == 0 then throw "DivZero"
  return Json.mkObj [("radius_sinh_sq", ofQ (polyRadiusSinhSq A g)),
    ("angle_sin_sq", ofQ (polyAngleSinSq g S)), ("angle_cos", ofQ (polyAngleCos g S))]

def ops : List (String × Handler) :=
  [("c13.origin_row0", originRow0), ("c13.tv_rows", tvRows), ("c13.towards", towards),
   ("c13.point_along", pointAlongOp), ("c13.angle_cos", angleOp), ("c13.poly", polyOp),
   ("c13.poly_formula", polyFormulaOp)]
end GT.Driver.C13
