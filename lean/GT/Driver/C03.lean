import GT.Base.JsonQ
import GT.Base.DMat
import GT.Model.Obj
import GT.Model.Action
import GT.Lemmas.Action
import GT.Driver.C04
open Lean GT.J GT GT.Act
namespace GT.Driver.C03
open GT.Driver.C04 (ndf ndOf ofND modeOf liftE)

def kindOf (s : String) : R Kind := match s with
  | "point" => pure .point | "pair" => pure .pair | "segment" => pure .segment
  | "geodesic" => pure .geodesic | "polygon" => pure .polygon | "simplex" => pure .simplex
  | "tangent" => pure .tangent | "horosphere" => pure .horosphere | "hyperplane" => pure .hyperplane
  | "subspace" => pure .subspace | "transformation" => pure .transformation
  | _ => throw "unknown kind"

def optNd (j : Json) (k : String) : R (Option (ND ℚ)) :=
  match j.getObjVal? k with
  | .ok .null => pure none
  | .ok v => do return some (← ndOf v)
  | .error _ => pure none

def objOf (j : Json) : R (Obj ℚ) := do
  return ⟨← kindOf (← strf j "kind"), ← ndf j "proj", ← optNd j "aux", ← optNd j "dual"⟩

def ofOpt (a : Option (ND ℚ)) : Json := match a with
  | none => .null
  | some x => ofND x

def ofObj (X : Obj ℚ) : Json :=
  Json.mkObj [("proj", ofND X.proj), ("aux", ofOpt X.aux), ("dual", ofOpt X.dual),
    ("shape", .arr (X.shape.toArray.map fun n => .num (JsonNumber.fromNat n)))]

/-- `Transformation(A).apply(X, broadcast=mode)` -/
def opApply (j : Json) : R Json := do
  let X ← objOf j
  let A ← ndf j "A"
  let AinvT ← match j.getObjVal? "AinvT" with
    | .ok v => ndOf v
    | .error _ => pure A          -- only read when the object carries dual data
  match X.apply A AinvT (← modeOf (← strf j "mode")) with
  | .ok Y => return ofObj Y
  | .error e => throw e

/-- `(A @ B).matrix` -/
def opCompose (j : Json) : R Json := do
  liftE (matrixProduct (← ndf j "B") (← ndf j "A") 2 2 .elementwise)

def dmatOf (n : Nat) (j : Json) : R (DMat n n ℚ) := do
  return DMat.ofMatrix (← mat n n j)

/-- `rep[word] @ p`: the column action `ρ(w)·p` with `ρ(w)` the product of the generators'
column matrices in word order (executed through `DMat`, proved equal to `wordMat`) -/
def opWordAct (j : Json) : R Json := do
  let n ← natf j "n"
  let gs ← arr (← field j "gens")
  let gens ← gs.mapM fun g => do
    let nm ← strf g "name"
    let m ← dmatOf n (← field g "m")
    return (nm, m)
  let w ← arr (← field j "word")
  let letters ← w.mapM str
  for l in letters do
    if (gens.toList.lookup l).isNone then throw "KeyError"
  let look : String → DMat n n ℚ := fun l => (gens.toList.lookup l).getD DMat.one
  let M := wordD look letters.toList
  let p ← vecf n j "p"
  return Json.mkObj [("mat", ofMat M.toMatrix), ("col", ofVec (M.toMatrix.mulVec p)),
    ("row", ofVec (actRow (wrap M.toMatrix) p))]

/-- contract check for `utils.invert`: is `Ainv` the exact inverse of `A`? -/
def opInvCheck (j : Json) : R Json := do
  let n ← natf j "n"
  let A ← matf n n j "A"
  let B ← matf n n j "Ainv"
  let P := (DMat.ofMatrix (A * B)).toMatrix
  return .bool ((List.finRange n).all fun i => (List.finRange n).all fun k =>
    P i k == if i = k then 1 else 0)

def ops : List (String × Handler) :=
  [("c03.apply", opApply), ("c03.compose", opCompose), ("c03.word_act", opWordAct),
   ("c03.inv_check", opInvCheck)]
end GT.Driver.C03
