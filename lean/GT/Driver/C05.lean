/-
Driver operations for C05: the model of `Representation` executed over ℚ and over ℤ.
One operation = one whole scenario (history of generator assignments, then queries), because
the line protocol is stateless.
-/
import GT.Base.JsonQ
import GT.Model.Rep
import GT.Lemmas.Rep
import GT.Model.QI
open Lean GT.J GT GT.RepW
namespace GT.Driver.C05

/-- ring-specific I/O and the instantiation of the `utils.invert` contract -/
structure RingIO (K : Type) [CommRing K] [Inhabited K] where
  parse : Json → J.R K
  out : K → Json
  invert : {n : ℕ} → DMat n n K → Option (DMat n n K)
  half : Option K
  /-- `rep.astype(float)`: the entrywise embedding into ℚ -/
  toQ : K → ℚ

def qIO : RingIO ℚ := ⟨J.toQ, ofQ, fun A => Rep.invertG A, some (1 / 2), id⟩
def zIO : RingIO ℤ := ⟨int, fun z => .str (toString z), fun A => Rep.invertZG A, none, Int.cast⟩

/-- a Gaussian rational travels as the string `"re|im"` (or as a plain rational) -/
def parseQI (j : Json) : J.R QI :=
  match j with
  | .str s =>
    match s.splitOn "|" with
    | [re, im] => do pure ⟨← parseQStr re, ← parseQStr im⟩
    | _ => do pure ⟨← parseQStr s, 0⟩
  | _ => do pure ⟨← J.toQ j, 0⟩

def outQI (z : QI) : Json :=
  match ofQ z.re, ofQ z.im with
  | .str a, .str b => .str (a ++ "|" ++ b)
  | a, _ => a

/-- ℚ(i): the exact execution domain for complex generator matrices -/
def cIO : RingIO QI :=
  ⟨parseQI, outQI, fun A => Rep.invertG A, some ⟨1 / 2, 0⟩, QI.re⟩

section
variable {K : Type} [CommRing K] [Inhabited K] (io : RingIO K)

def dmat (n : ℕ) (j : Json) : J.R (DMat n n K) := do
  let rows ← arr j
  if rows.size ≠ n then throw "ValueError"
  let a ← rows.mapM fun r => do
    let es ← arr r
    if es.size ≠ n then throw "ValueError"
    es.mapM io.parse
  return ⟨a⟩

def outMat {m n : ℕ} (A : DMat m n K) : Json :=
  .arr (Array.ofFn fun (i : Fin m) => .arr (Array.ofFn fun (j : Fin n) => io.out (A.toMatrix i j)))

def outRes (r : M? Json) : Json :=
  match r with
  | .ok v => Json.mkObj [("ok", v)]
  | .error e => Json.mkObj [("err", .str e)]

def lift {α : Type} (x : M? α) : J.R α := x

def optBool (j : Json) (k : String) : Option Bool :=
  match j.getObjVal? k with
  | .ok (.bool b) => some b
  | _ => none

/-- replay a history of `rep[g] = M` / `rep.set_generator(g, M, compute_inverse=…)` -/
def build (n : ℕ) (j : Json) : J.R (Rep n K) := do
  let simple := (optBool j "simple").getD true
  let rels ← (← arr (fieldD j "relations" (.arr #[]))).mapM str
  let hist ← arr (← field j "hist")
  let mut ρ : Rep n K := { parseSimple := simple, relations := rels.toList.map (parseWord simple) }
  for h in hist do
    let g ← strf h "g"
    let A ← dmat io n (← field h "m")
    let ci := (optBool h "inv").getD true
    ρ ← lift (ρ.setGenerator io.invert g A ci)
  return ρ

/-- the list form executed by `evalWords` / the `"elements"` query is the string-level loop
`[rep.element(w) for w in words]` -/
theorem elementsS_eq {p : ℕ} (σ : Rep p K) (ws : List String) (simple : Option Bool) :
    σ.elements (ws.map (parseWord (simple.getD σ.parseSimple))) = ws.mapM fun w => σ.wordValueS w simple := by
  unfold Rep.elements Rep.wordValueS
  rw [List.mapM_map]
  rfl

def evalWords {p : ℕ} (σ : Rep p K) (q : Json) : M? Json := do
  let ws ← (do (← arr (fieldD q "ws" (.arr #[]))).mapM str : J.R _)
  let simple := optBool q "evsimple"
  -- `elements(words)` on the parsed words (`wordValueS w simple = wordValue (parseWord … w)`, see `elementsS_eq`)
  let vals ← σ.elements (ws.toList.map (parseWord (simple.getD σ.parseSimple)))
  pure (Json.mkObj [("gens", .arr (σ.gens.map (fun kv => Json.str kv.1)).toArray),
                    ("rels", .arr (σ.relations.map fun r => Json.arr (r.map Json.str).toArray).toArray),
                    ("vals", .arr (vals.map (outMat io)).toArray)])

def derived (n : ℕ) (ρ : Rep n K) (q : Json) : M? Json := do
  let kind ← strf q "kind"
  match kind with
  | "copy" => evalWords io (← ρ.copy) q
  | "conjugate" =>
    let C ← dmat io n (← field q "C")
    match q.getObjVal? "Ci" with
    | .ok ci => evalWords io (← ρ.conjugate C (← dmat io n ci)) q
    | .error _ => evalWords io (← ρ.conjugate' io.invert C) q
  | "dual" => evalWords io (← ρ.dual io.invert) q
  | "astype" => evalWords qIO (← ρ.astype io.toQ) q
  | "subgroup" =>
    let ps ← (do (← arr (← field q "pairs")).mapM fun p => do
      let a ← arr p
      if a.size ≠ 2 then throw "bad pair"
      pure ((← str a[0]!), parseWord ρ.parseSimple (← str a[1]!)) : J.R _)
    let ci := (optBool q "inv").getD true
    evalWords io (← ρ.subgroup io.invert ps.toList ci) q
  | "tensor" =>
    let oj ← field q "other"
    let p ← natf oj "n"
    let σ ← build io p oj
    evalWords io (← ρ.tensorProduct io.invert σ) q
  | "sym2" =>
    match io.half with
    | none => throw "no-half"
    | some h => evalWords io (← ρ.symmetricSquare h io.invert io.invert) q
  | "gln_adjoint" => evalWords io (← ρ.glnAdjoint) q
  | "sln_adjoint" =>
    match n, ρ with
    | 0, _ => throw "ValueError"
    | _ + 1, ρ => evalWords io (← Rep.slnAdjoint ρ) q
  | _ => throw s!"unknown derived kind {kind}"

def query (n : ℕ) (ρ : Rep n K) (q : Json) : M? Json := do
  let kind ← strf q "q"
  match kind with
  | "word" => pure (outMat io (← ρ.wordValueS (← strf q "w") (optBool q "simple")))
  | "gens" => pure (.arr (ρ.gens.map fun kv => Json.arr #[.str kv.1, outMat io kv.2]).toArray)
  | "elements" =>
    -- `rep.elements(words)`: the whole list or the first exception
    let ws ← (do (← arr (fieldD q "ws" (.arr #[]))).mapM str : J.R _)
    let ms ← ρ.elements (ws.toList.map (parseWord ((optBool q "simple").getD ρ.parseSimple)))
    pure (.arr (ms.map (outMat io)).toArray)
  | "asym" => pure (.arr (ρ.asymGens.map Json.str).toArray)
  | "derived" => derived io n ρ q
  | "diff" =>
    let bl ← ρ.differential (parseWord ρ.parseSimple (← strf q "w"))
    pure (.arr (bl.map (outMat io)).toArray)
  | "diffat" =>
    pure (outMat io (← ρ.differentialAt (parseWord ρ.parseSimple (← strf q "w")) (← strf q "g")))
  | "cocycle" =>
    let rows ← ρ.cocycleMatrix
    pure (.arr (rows.map fun bl => Json.arr (bl.map (outMat io)).toArray).toArray)
  | "coboundary" => pure (.arr ((← ρ.coboundaryMatrix).map (outMat io)).toArray)
  | "cocob" =>
    let rows ← ρ.cocycleMatrix
    let cb ← ρ.coboundaryMatrix
    pure (.arr (rows.map fun bl => outMat io (Rep.blockDot bl cb)).toArray)
  | _ => throw s!"unknown query {kind}"

def run (j : Json) : J.R Json := do
  let n ← natf j "n"
  let ρ ← build io n j
  let qs ← arr (fieldD j "q" (.arr #[]))
  return .arr (qs.map fun q => outRes (query io n ρ q))

end

def runOp (j : Json) : J.R Json := do
  match (fieldD j "ring" (.str "Q")) with
  | .str "Z" => run zIO j
  | .str "C" => run cIO j
  | _ => run qIO j

/-! ### `utils/words.py` -/

def outWord (w : Word) : Json := .str (String.join w)

def invgenOp (j : Json) : J.R Json := do return .str (invertGen (← strf j "g"))
def finvOp (j : Json) : J.R Json := do
  return outWord (formalInverse invertGen (parseWord true (← strf j "w")))
def simplifyOp (j : Json) : J.R Json := do
  return outWord (simplifyWord invertGen (parseWord true (← strf j "w")))
def parseOp (j : Json) : J.R Json := do
  return .arr ((parseWord (← boolf j "simple") (← strf j "w")).map Json.str).toArray
def validOp (j : Json) : J.R Json := do return .bool (validName (← strf j "g"))
def foxOp (j : Json) : J.R Json := do
  -- "wl": a tuple of generator names (words of a parse_simple=False representation); "w": a string
  let w ← match j.getObjVal? "wl" with
    | .ok l => do pure ((← (← arr l).mapM str).toList)
    | .error _ => do pure (parseWord true (← strf j "w"))
  match foxDeriv invertGen (← strf j "g") w with
  | none => throw "IndexError"
  | some d => return .arr (d.map fun kc => Json.arr #[.arr (kc.1.map Json.str).toArray, .str (toString kc.2)]).toArray
def commOp (j : Json) : J.R Json := do
  return outWord (commutator invertGen (parseWord true (← strf j "u")) (parseWord true (← strf j "v")))

def ops : List (String × Handler) :=
  [("c05.run", runOp), ("c05.invgen", invgenOp), ("c05.finv", finvOp), ("c05.simplify", simplifyOp),
   ("c05.parse", parseOp), ("c05.valid", validOp), ("c05.fox", foxOp), ("c05.comm", commOp)]
end GT.Driver.C05
