import GT.Base.JsonQ
import GT.Model.GapParse
open Lean GT.J GT.Gap
namespace GT.Driver.C09Parse

partial def enc : GVal → Json
  | .str s => Json.mkObj [("s", .str (String.ofList s))]
  | .int n => Json.mkObj [("i", .str (toString n))]
  | .flt s => Json.mkObj [("f", .str (String.ofList s))]
  | .list l => Json.mkObj [("l", .arr (l.map enc).toArray)]
  | .range a b => Json.mkObj [("r", .arr #[.str (toString a), .str (toString b)])]
  | .record fs => Json.mkObj [("rec", .arr (fs.map fun (k, v) => Json.arr #[.str (String.ofList k), enc v]).toArray)]

def errName : Err → String
  | .unclosedList => "GAPInputException"
  | .unclosedQuote => "GAPInputException"
  | .indexError => "IndexError"
  | .valueError => "ValueError"
  | .fuel => "fuel"

/-- `gap_parse.parse_record(text)` -/
def parseOp (j : Json) : J.R Json := do
  let t ← strf j "text"
  match parseRecord t.toList with
  | .ok (fs, off) => return Json.mkObj [("record", enc (.record fs)), ("offset", .num off)]
  | .error e => throw (errName e)

/-- `fsa._from_gap_record(gap_parse.parse_record(text)[0])`: label view + start vertices -/
def fsaOp (j : Json) : J.R Json := do
  let t ← strf j "text"
  match parseRecord t.toList with
  | .error e => throw (errName e)
  | .ok (fs, _) =>
    match fromGapRecord fs with
    | none => throw "KeyError"
    | some (g, init) =>
      return Json.mkObj [
        ("graph", .arr (g.map fun (v, es) => Json.arr #[.num v,
            .arr (es.map fun (l, w) => Json.arr #[.str (String.ofList l), .num w]).toArray]).toArray),
        ("start", .arr (init.map fun n => Json.num n).toArray)]

def ops : List (String × Handler) := [("c09.gap_parse", parseOp), ("c09.gap_fsa", fsaOp)]
end GT.Driver.C09Parse
