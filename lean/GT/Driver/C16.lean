/-
Driver ops for C16: the definitions of `GT.Model.Affine` executed over ℚ (`"field":"Q"`) and
over the Gaussian rationals ℚ(i) (`"field":"QI"`, numbers as `[re, im]`).
-/
import GT.Base.JsonQ
import GT.Model.Affine
import GT.Model.QI
import Mathlib.Algebra.Order.Field.Rat
import Mathlib.Algebra.Order.Ring.Abs
open Lean GT.J GT GT.Affine
namespace GT.Driver.C16

/-- numbers of a field that travel over the line protocol -/
class JField (K : Type) where
  parse : Json → R K
  out : K → Json

instance : JField ℚ := ⟨toQ, ofQ⟩

instance : JField QI where
  parse j := do
    let a ← arr j
    if a.size ≠ 2 then throw "expected [re, im]"
    return ⟨← toQ a[0]!, ← toQ a[1]!⟩
  out z := .arr #[ofQ z.re, ofQ z.im]

section generic
variable {K : Type} [JField K] [Inhabited K]

def kArr (j : Json) : R (Array K) := do (← arr j).mapM JField.parse
def kArr2 (j : Json) : R (Array (Array K)) := do (← arr j).mapM kArr

def vecOfArr (n : ℕ) (a : Array K) : R (Fin n → K) := do
  if a.size ≠ n then throw s!"expected vector of length {n}, got {a.size}"
  return fun i => a[i.1]!

def matOfArr (m n : ℕ) (a : Array (Array K)) : R (Matrix (Fin m) (Fin n) K) := do
  if a.size ≠ m then throw s!"expected {m} rows, got {a.size}"
  if a.any (fun r => r.size ≠ n) then throw s!"expected rows of length {n}"
  return fun i j => (a[i.1]!)[j.1]!

def outVec {n : ℕ} (v : Fin n → K) : Json := .arr (Array.ofFn fun i => JField.out (v i))
def outMat {m n : ℕ} (M : Matrix (Fin m) (Fin n) K) : Json :=
  .arr (Array.ofFn fun i => outVec (M i))

def finOf (n c : ℕ) : R (Fin n) :=
  if h : c < n then pure ⟨c, h⟩ else throw "IndexError"

variable [Field K] [DecidableEq K]

/-- `affine_coords(xs, chart_index=c)` on a list of points (all-or-nothing guard) and
`in_affine_chart` per point -/
def affineOp (j : Json) : R Json := do
  let xs : Array (Array K) ← kArr2 (← field j "xs")
  let c ← natf j "c"
  if xs.size = 0 then throw "empty"
  match xs[0]!.size with
  | 0 => throw "empty vector"
  | n + 1 =>
    let ci ← finOf (n + 1) c
    let pts ← xs.toList.mapM (vecOfArr (n + 1))
    let inch := Json.arr (pts.map fun x => Json.bool (inChart ci x)).toArray
    match affineCoordsAll? ci pts with
    | none => return Json.mkObj [("err", "GeometryError"), ("in_chart", inch)]
    | some as => return Json.mkObj [("affine", .arr (as.map outVec).toArray), ("in_chart", inch)]

/-- `affine_coords(xs, chart_index=None)`: chosen chart and affine coordinates -/
def autoOp {L : Type} [LinearOrder L] (absf : K → L) (j : Json) : R Json := do
  let xs : Array (Array K) ← kArr2 (← field j "xs")
  if xs.size = 0 then throw "empty"
  match xs[0]!.size with
  | 0 => throw "empty vector"
  | n + 1 =>
    let pts ← xs.toList.mapM (vecOfArr (n + 1))
    match pts with
    | [] => throw "empty"
    | p₀ :: rest =>
      match affineCoordsAuto? absf p₀ rest with
      | none => return Json.mkObj [("err", "GeometryError"), ("chart", .num (JsonNumber.fromNat (autoChart absf p₀ rest).1))]
      | some (as, c) => return Json.mkObj [("affine", .arr (as.map outVec).toArray), ("chart", .num (JsonNumber.fromNat c.1))]

/-- `projective_coords(as, chart_index=c)` per point -/
def projOp (j : Json) : R Json := do
  let as : Array (Array K) ← kArr2 (← field j "as")
  let c ← natf j "c"
  let n ← natf j "n"
  let ci ← finOf (n + 1) c
  let pts ← as.toList.mapM (vecOfArr n)
  return .arr (pts.map fun a => outVec (projCoords ci a)).toArray

/-- column layouts: `X` is (n+1)×m, `A` is n×m -/
def colsOp (j : Json) : R Json := do
  let c ← natf j "c"
  let n ← natf j "n"
  let m ← natf j "m"
  let ci ← finOf (n + 1) c
  let A : Matrix (Fin n) (Fin m) K ← matOfArr n m (← kArr2 (← field j "A"))
  let X := projCoordsCols ci A
  return Json.mkObj [("proj", outMat X), ("affine", outMat (affineCoordsCols ci X))]

/-- `affine_linear_map(L, c, cv).proj_data`, applied to the points `ps` -/
def linmapOp (j : Json) : R Json := do
  let c ← natf j "c"
  let n ← natf j "n"
  let cv ← boolf j "cv"
  let ci ← finOf (n + 1) c
  let L : Matrix (Fin n) (Fin n) K ← matOfArr n n (← kArr2 (← field j "L"))
  let T := affineLinearMap ci L cv
  let ps ← (← kArr2 (← field j "ps")).toList.mapM (vecOfArr (n + 1))
  return Json.mkObj [("T", outMat T), ("images", .arr (ps.map fun p => outVec (applyT T p)).toArray)]

/-- `affine_translation(t, c).proj_data`, applied to the points `ps` -/
def translationOp (j : Json) : R Json := do
  let c ← natf j "c"
  let n ← natf j "n"
  let ci ← finOf (n + 1) c
  let t : Fin n → K ← vecOfArr n (← kArr (← field j "t"))
  let T := affineTranslation ci t
  let ps ← (← kArr2 (← field j "ps")).toList.mapM (vecOfArr (n + 1))
  return Json.mkObj [("T", outMat T), ("images", .arr (ps.map fun p => outVec (applyT T p)).toArray)]

/-- `Subspace.intersect` on one pair: the model's answer from the observed kernel, and the
kernel-contract residual `spansᵀ * ker` evaluated exactly -/
def intersectOp (j : Json) : R Json := do
  let n ← natf j "n"
  let k1 ← natf j "k1"
  let k2 ← natf j "k2"
  let d ← natf j "d"
  let p1 : Matrix (Fin k1) (Fin n) K ← matOfArr k1 n (← kArr2 (← field j "p1"))
  let p2 : Matrix (Fin k2) (Fin n) K ← matOfArr k2 n (← kArr2 (← field j "p2"))
  let kt : Matrix (Fin k1) (Fin d) K ← matOfArr k1 d (← kArr2 (← field j "ker_top"))
  let kb : Matrix (Fin k2) (Fin d) K ← matOfArr k2 d (← kArr2 (← field j "ker_bot"))
  let ker : Matrix (Fin k1 ⊕ Fin k2) (Fin d) K := Matrix.fromRows kt kb
  return Json.mkObj [("result", outMat (intersect p1 ker)),
    ("resid", outMat ((spans p1 p2).transpose * ker)),
    ("via_p2", outMat ((-(ker.toRows₂).transpose) * p2))]

/-- `diagonalize`: stored matrix and the conjugated transformation `M.inv() @ T @ M` -/
def diagOp (j : Json) : R Json := do
  let m ← natf j "m"
  let V : Matrix (Fin m) (Fin m) K ← matOfArr m m (← kArr2 (← field j "V"))
  let W : Matrix (Fin m) (Fin m) K ← matOfArr m m (← kArr2 (← field j "W"))
  let P : Matrix (Fin m) (Fin m) K ← matOfArr m m (← kArr2 (← field j "P"))
  return Json.mkObj [("M", outMat (diagonalize V)), ("conj", outMat (conjugated (diagonalize V) W P)),
    ("eig_resid", outMat (P.transpose * V - V * Matrix.diagonal (fun i => (conjugated (diagonalize V) W P) i i)))]

/-- `eigenvector` with a mask supplied by the caller (`eigenvalue=None`: all true) -/
def eigvecMaskOp (ic : K → Bool) (j : Json) : R Json := do
  let m ← natf j "m"
  let units ← arr (← field j "units")
  let us ← units.toList.mapM fun u => do
    let vals : Fin m → K ← vecOfArr m (← kArr (← field u "vals"))
    let V : Matrix (Fin m) (Fin m) K ← matOfArr m m (← kArr2 (← field u "V"))
    pure (vals, V)
  if (← boolf j "composite") then
    return .arr ((eigenvectorComposite us ic).map outVec).toArray
  match us with
  | [(vals, V)] =>
    match eigenvector vals V ic with
    | none => throw "GeometryError"
    | some v => return outVec v
  | _ => throw "single matrix expected"

end generic

/-- `np.isclose(z, e)` for complex `z` and real `e`: `|z - e| ≤ atol + rtol |e|`, compared
through squares -/
def iscloseQI (e : ℚ) (z : QI) : Bool :=
  let t : ℚ := 1 / 100000000 + 1 / 100000 * |e|
  decide (QI.normSq (z - QI.ofQ e) ≤ t * t)

def eigvecOp (j : Json) : R Json := do
  let fld ← strf j "field"
  let ev := fieldD j "eigenvalue" Json.null
  match fld, ev with
  | "Q", .null => eigvecMaskOp (K := ℚ) (fun _ => true) j
  | "Q", e => do let e ← toQ e; eigvecMaskOp (K := ℚ) (isclose e) j
  | "QI", .null => eigvecMaskOp (K := QI) (fun _ => true) j
  | "QI", e => do let e ← toQ e; eigvecMaskOp (K := QI) (iscloseQI e) j
  | _, _ => throw "unknown field"

/-- `find_definite_isometry(normal)` from the observed QR factors, and the exact residuals of
the QR / inverse contracts and of the conclusion of `hyperplaneTransform_spec` for the
observed transformation `T` -/
def hypOp (j : Json) : R Json := do
  let m ← natf j "m"
  match m with
  | 0 => throw "empty"
  | n + 1 =>
    let Q : Matrix (Fin (n + 1)) (Fin (n + 1)) ℚ ← matf (n + 1) (n + 1) j "Q"
    let T : Matrix (Fin (n + 1)) (Fin (n + 1)) ℚ ← matf (n + 1) (n + 1) j "T"
    let normal ← vecf (n + 1) j "normal"
    let r00 ← qf j "r00"
    let sgn := npSign r00
    let iso := definiteIsometry Q sgn
    let Tm := hyperplaneTransform (fun _ => T) Q sgn
    return Json.mkObj [("iso", ofMat iso), ("T", ofMat Tm), ("sgn", ofQ sgn),
      ("qr_orth", ofMat (Q.transpose * Q - 1)),
      ("qr_col", ofVec fun i => normal i - Q i 0 * r00),
      ("inv_resid", ofMat (T * iso.transpose - 1)),
      ("T_minus_iso", ofMat (Tm - iso)),
      ("orth", ofMat (Tm.transpose * Tm - 1))]

/-- `utils.broadcast_match(a1, a2, k)` on flat composites: the units travel as opaque JSON values -/
def broadcastMatchOp (j : Json) : R Json := do
  let a1 ← arr (← field j "a1")
  let a2 ← arr (← field j "a2")
  let r := broadcastMatch a1.toList a2.toList
  return Json.arr #[.arr r.1.toArray, .arr r.2.toArray]

def byField (hq : Handler) (hqi : Handler) : Handler := fun j => do
  match (← strf j "field") with
  | "Q" => hq j
  | "QI" => hqi j
  | _ => throw "unknown field"

def ops : List (String × Handler) :=
  [("c16.affine", byField (affineOp (K := ℚ)) (affineOp (K := QI))),
   ("c16.auto", byField (autoOp (K := ℚ) (fun x => |x|)) (autoOp (K := QI) QI.normSq)),
   ("c16.proj", byField (projOp (K := ℚ)) (projOp (K := QI))),
   ("c16.cols", byField (colsOp (K := ℚ)) (colsOp (K := QI))),
   ("c16.linmap", byField (linmapOp (K := ℚ)) (linmapOp (K := QI))),
   ("c16.translation", byField (translationOp (K := ℚ)) (translationOp (K := QI))),
   ("c16.intersect", byField (intersectOp (K := ℚ)) (intersectOp (K := QI))),
   ("c16.diag", byField (diagOp (K := ℚ)) (diagOp (K := QI))),
   ("c16.eigvec", eigvecOp),
   ("c16.hyp", hypOp),
   ("c16.broadcast_match", broadcastMatchOp)]
end GT.Driver.C16
