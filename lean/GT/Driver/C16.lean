import GT.Base.JsonQ
open Lean GT.J
namespace GT.Driver.C16
def ops : List (String × Handler) := []
end GT.Driver.C16
