/-
Driver operations for C10: evaluate the language queries and derived automata of the FSA model.
-/
import GT.Base.JsonQ
import GT.Model.FSA
import GT.Driver.C09
open Lean GT.J GT GT.Driver.C09
namespace GT.Driver.C10

def optVx (j : Json) (k : String) : R (Option Vx) :=
  match j.getObjVal? k with
  | .ok .null => pure none
  | .ok v => do return some (← vxOf v)
  | .error _ => pure none

def startOf (s : A) (j : Json) : R Vx := do
  match ← optVx j "v" with
  | some v => pure v
  | none => lift s.start0

def pathsTo (lab : L → Json) (ps : List (List L × Vx)) : Json :=
  ofList (ofPair (ofList lab) vxTo) ps

def joinWord (w : List String) : Json := .str (String.join w)

/-- one query against a fixed automaton -/
def queryOf (s : A) (j : Json) : R Json := do
  let q ← strf j "q"
  match q with
  | "follow" =>
    let w ← listOf str (← field j "w")
    let v ← startOf s j
    match s.follow v w with
    | some r => return vxTo r
    | none => throw "FSAException"
  | "accepts" =>
    let w ← listOf str (← field j "w")
    return .bool (s.accepts w (← optVx j "v"))
  | "prefix" => return ofList Json.str (← lift (s.initialAccepted (← listOf str (← field j "w"))))
  | "rejprefix" =>
    match ← lift (s.initialRejected (← listOf str (← field j "w"))) with
    | some p => return ofList Json.str p
    | none => return .null
  | "enum_fixed" =>
    let v ← startOf s j
    return pathsTo Json.str (← lift (s.enumFixed v (← natf j "n")))
  | "enum_words" =>
    let v ← startOf s j
    return pathsTo Json.str (← lift (s.enumUpTo v (← natf j "n")))
  | "multiple" =>
    let m ← lift (s.multiple (← natf j "k") (← natf j "fuel"))
    return viewsTo joinWord m
  | "multiple_enum" =>
    let m ← lift (s.multiple (← natf j "k") (← natf j "fuel"))
    let v ← lift m.start0
    return pathsTo joinWord (← lift (m.enumUpTo v (← natf j "n")))
  | "rename" => return viewsTo Json.str (← lift (s.rename (← dictOf str str (← field j "m"))))
  | "recurrent" => return viewsTo Json.str (← lift s.recurrent)
  | "rlp" =>
    let (h, dist) ← lift (s.removeLongPaths (← optVx j "root") (← boolf j "ties"))
    return Json.mkObj [("aut", viewsTo Json.str h), ("dist", ofDict vxTo (fun (n : Nat) => Json.num ⟨n, 0⟩) dist)]
  | "views" => return viewsTo Json.str s
  | _ => throw "unknown query"

def answer (s : A) (j : Json) : Json :=
  match queryOf s j with
  | .ok v => Json.mkObj [("ok", v)]
  | .error e => Json.mkObj [("err", .str e)]

/-- `{"op":"c10.eval","init":{…},"ops":[…],"qs":[…]}`: build, apply the history, answer every
query against the resulting automaton (queries are pure in the model) -/
def evalOp (j : Json) : R Json := do
  let s ← initOf (← field j "init")
  let hist ← arr (fieldD j "ops" (.arr #[]))
  let s ← runQuiet s hist.toList
  let qs ← arr (← field j "qs")
  return .arr (qs.map (answer s))

def ops : List (String × Handler) := [("c10.eval", evalOp)]
end GT.Driver.C10
