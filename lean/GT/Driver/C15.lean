import GT.Base.JsonQ
import GT.Base.QSqrt
import GT.Model.Reflect
import GT.Driver.C13
open Lean GT.J GT GT.Reflect Matrix
namespace GT.Driver.C15
open GT.Driver.C13 (V S S_toFn withVec)

def maxAbs {m n : ℕ} (M : Matrix (Fin m) (Fin n) ℚ) : ℚ :=
  (List.finRange m).foldl (fun acc i => (List.finRange n).foldl (fun a j => max a |M i j|) acc) 0

/-- materialise a matrix -/
def SM {m n : ℕ} (M : Matrix (Fin m) (Fin n) ℚ) : Matrix (Fin m) (Fin n) ℚ :=
  (DMat.ofMatrix M).toMatrix

/-- `reflection_across` in closed form from the normal -/
def reflectOp (j : Json) : R Json := withVec j "d" fun _ d => do
  if mink d d == 0 then throw "DivZero"
  return ofMat (reflMat d)

/-- the literal `inv(D) J D` on the implementation's own `D` (sent exactly) and an exact inverse;
returns how far it is from the closed form built on row 0, the orthogonality residual of the
other rows and whether `Dinv` really is the inverse -/
def reflectLiteralOp (j : Json) : R Json := do
  let n ← natf j "n"
  match n with
  | 0 => throw "empty"
  | m + 1 =>
    let D ← matf (m + 1) (m + 1) j "D"
    let Dinv ← matf (m + 1) (m + 1) j "Dinv"
    let d : Fin (m + 1) → ℚ := D 0
    if mink d d == 0 then throw "DivZero"
    let lit := DMat.ofMatrix (reflLiteral Dinv D)
    let cl := DMat.ofMatrix (reflMat d)
    let prod := DMat.ofMatrix (Dinv * D)
    let invOk := maxAbs (prod.toMatrix - 1) == 0
    let orth := (List.finRange (m + 1)).foldl
      (fun acc i => if i = 0 then acc else max acc |mink (D i) d|) (0 : ℚ)
    return Json.mkObj [("diff", ofQ (maxAbs (lit.toMatrix - cl.toMatrix))), ("orth", ofQ orth),
      ("inv_ok", Json.bool invOk), ("literal", ofQArr2 lit.a)]

/-- `Hyperplane._compute_ideal_basis` from the implementation's `spacelike_to` matrix -/
def hyperplaneOp (j : Json) : R Json := do
  let n ← natf j "n"
  match n with
  | 0 | 1 => throw "GeometryError"
  | m + 2 =>
    let T ← matf (m + 2) (m + 2) j "T"
    let normal ← vecf (m + 2) j "normal"
    let Td := SM T
    let rows := hyperplaneData Td normal
    return ofMat (fun a b => rows a b)

@[simp] theorem SM_eq {m n : ℕ} (M : Matrix (Fin m) (Fin n) ℚ) : SM M = M := by simp [SM]

/-- `fromReflectionAccepts` with every intermediate value materialised once -/
def acceptStaged {n : ℕ} (eps : ℚ) (M : Matrix (Fin (n + 1)) (Fin (n + 1)) ℚ) : Bool :=
  let M' := SM (traceRep M)
  let d := S (reflNormal M)
  let R := SM (reflMat d.toFn)
  let bound := eps * max 1 (matMax M')
  decide (∀ i j, |M' i j - R i j| ≤ bound) && decide (0 < mink d.toFn d.toFn)

theorem acceptStaged_eq {n : ℕ} (eps : ℚ) (M : Matrix (Fin (n + 1)) (Fin (n + 1)) ℚ) :
    acceptStaged eps M = fromReflectionAccepts eps M := by
  simp [acceptStaged, fromReflectionAccepts]

/-- the acceptance decision of `from_reflection` on the exact matrix, and the normal it reads off -/
def refAcceptOp (j : Json) : R Json := do
  let n ← natf j "n"
  let M ← matf (n + 1) (n + 1) j "M"
  let eps ← qf j "eps"
  let Md := SM M
  let d := S (reflNormal Md)
  return Json.mkObj [("accept", Json.bool (acceptStaged eps Md)), ("normal", ofQArr d.a)]

def fixOrderOp (j : Json) : R Json := do
  let es ← qArr2 (← field j "es")
  let eps ← qf j "eps"
  let infos ← es.toList.mapM fun a =>
    if a.size = 3 then pure (⟨a[0]!, a[1]!, a[2]!⟩ : EigInfo ℚ) else throw "expected triples"
  let plain := (fieldD j "plain" (Json.bool false)) == Json.bool true
  let o := if plain then fixOrderPlain eps infos else fixOrder eps infos
  return Json.arr (o.toArray.map fun (i : ℕ) => Json.num (JsonNumber.fromNat i))

/-- fixedness of a reported point under the isometry, evaluated exactly on the implementation's
output: `max |(vM)_i v_j - (vM)_j v_i| / |v|²|M|` and the normalised Minkowski norm `⟨v,v⟩/|v|²` -/
def fixedResidualOp (j : Json) : R Json := withVec j "v" fun n v => do
  let M ← matf (n + 1) (n + 1) j "M"
  let w := S (v ᵥ* M)
  let vv := nsq v
  if vv == 0 then throw "DivZero"
  let cr := (List.finRange (n + 1)).foldl (fun acc a => (List.finRange (n + 1)).foldl
    (fun b c => max b |w.toFn a * v c - w.toFn c * v a|) acc) (0 : ℚ)
  let ww := nsq w.toFn
  return Json.mkObj [("cross", ofQ (cr / vv)), ("norm", ofQ (mink v v / vv)),
    ("ratio_sq", ofQ (ww / vv)), ("pairing", ofQ (dot w.toFn v / vv))]

def ops : List (String × Handler) :=
  [("c15.reflect", reflectOp), ("c15.reflect_literal", reflectLiteralOp),
   ("c15.hyperplane", hyperplaneOp), ("c15.refl_accept", refAcceptOp),
   ("c15.fix_order", fixOrderOp), ("c15.fixed_residual", fixedResidualOp)]
end GT.Driver.C15
