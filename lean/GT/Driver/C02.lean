import GT.Base.JsonQ
open Lean GT.J
namespace GT.Driver.C02
def ops : List (String × Handler) := []
end GT.Driver.C02
