import GT.Base.JsonQ
import GT.Base.QSqrt
import GT.Model.Isometry
import GT.Model.GramSchmidt
import GT.Lemmas.GramSchmidt
import GT.Model.LinAlgQ
open Lean GT.J GT Matrix GT.Iso GT.LinAlgQ GT.GS
namespace GT.Driver.C02

/-- square rational matrix of any size with its dimension -/
def sqMat (j : Json) (k : String) : R ((p : ℕ) × Matrix (Fin p) (Fin p) ℚ) := do
  let a ← qArr2 (← field j k)
  let p := a.size
  let M ← mat p p (.arr (a.map ofQArr))
  return ⟨p, M⟩

/-- answer with a materialised matrix (`DMat` is a structure: evaluated once, strictly) -/
def ofD {p q : ℕ} (M : DMat p q ℚ) : Json := ofQArr2 M.a

/-- `Isometry.standard_rotation(angle, dimension)` with `(c,s)=(cos,sin)` supplied -/
def rotationOp (j : Json) : R Json := do
  let dim ← natf j "dim"
  let c ← qf j "c"
  let s ← qf j "s"
  match dim with
  | 0 | 1 => throw "ValueError"
  | m + 2 => return ofMat (rotation (m := m) c s)

/-- `Isometry.elliptic(n, O, column_vectors)` -/
def ellipticOp (j : Json) : R Json := do
  let ⟨_, O⟩ ← sqMat j "O"
  let cv ← boolf j "column_vectors"
  return ofMat (if cv then elliptic O else ellipticRow O)

/-- `Iso.loxodromic u` with the two products materialised (what `c02.loxodromic` answers) -/
def loxodromicD {m : ℕ} (u : ℚ) : DMat (m + 2) (m + 2) ℚ :=
  let T := DMat.ofMatrix (loxB (m := m) * loxDiag u)
  DMat.ofMatrix (T.toMatrix * loxBinv)ᵀ

theorem loxodromicD_eq {m : ℕ} (u : ℚ) : (loxodromicD (m := m) u).toMatrix = loxodromic u := by
  simp [loxodromicD, loxodromic, loxodromicMat]

/-- `Iso.sl2ToSo21 A` with every product materialised -/
def sl2ToSo21D (A : Matrix (Fin 2) (Fin 2) ℚ) : DMat 3 3 ℚ :=
  let A3 := DMat.ofMatrix (sl2Irrep3 A)
  let L := DMat.ofMatrix (perm210 * killingConj * A3.toMatrix)
  DMat.ofMatrix (L.toMatrix * killingConjInv * perm210)

theorem sl2ToSo21D_eq (A : Matrix (Fin 2) (Fin 2) ℚ) : (sl2ToSo21D A).toMatrix = sl2ToSo21 A := by
  simp [sl2ToSo21D, sl2ToSo21]

/-- `Iso.sl2Iso A` (what `c02.sl2` answers) -/
def sl2IsoD (A : Matrix (Fin 2) (Fin 2) ℚ) : DMat 3 3 ℚ := DMat.ofMatrix (sl2ToSo21D A).toMatrixᵀ

theorem sl2IsoD_eq (A : Matrix (Fin 2) (Fin 2) ℚ) : (sl2IsoD A).toMatrix = sl2Iso A := by
  simp [sl2IsoD, sl2Iso, sl2ToSo21D_eq]

/-- `Isometry.standard_loxodromic(dim, u)` -/
def loxodromicOp (j : Json) : R Json := do
  let dim ← natf j "dim"
  let u ← qf j "u"
  if u = 0 then throw "DivZero"
  match dim with
  | 0 => throw "ValueError"
  | m + 1 => return ofD (loxodromicD (m := m) u)

/-- `hyperbolic.sl2_iso(A)` -/
def sl2Op (j : Json) : R Json := do
  let A ← matf 2 2 j "A"
  return ofD (sl2IsoD A)

/-- `Subspace.reflection_across` from hyperplane data `D` (inverse certified: `certInv_spec`) -/
def reflectOp (j : Json) : R Json := do
  match (← sqMat j "D") with
  | ⟨0, _⟩ => throw "empty"
  | ⟨n + 1, D⟩ =>
    match certInv D with
    | none => throw "Singular"
    | some Di =>
      let T := DMat.ofMatrix (Di * minkJ n)
      return ofD (DMat.ofMatrix (T.toMatrix * D))

/-- closed-form reflection in the normal `d` -/
def reflClosedOp (j : Json) : R Json := do
  let a ← qArr (← field j "d")
  match a.size with
  | 0 => throw "empty"
  | n + 1 =>
    let d ← vec (n + 1) (.arr (a.map ofQ))
    if mink d d = 0 then throw "DivZero"
    return ofMat (reflClosed d)

/-- `l₁ @ l₂ @ … @ l_k`; letters `{"m": matrix, "inv": bool}`; `.inv()` certified -/
def wordOp (j : Json) : R Json := do
  let p ← natf j "size"
  let ls ← arr (← field j "letters")
  let mut ms : List (DMat p p ℚ) := []
  for l in ls do
    let M ← matf p p l "m"
    let iv ← boolf l "inv"
    if iv then
      match certInv M with
      | none => throw "Singular"
      | some B => ms := DMat.ofMatrix B :: ms
    else ms := DMat.ofMatrix M :: ms
  return ofD (evalWordD ms.reverse)

/-- `‖M J Mᵀ − J‖∞` exactly -/
def residualOp (j : Json) : R Json := do
  match (← sqMat j "M") with
  | ⟨0, _⟩ => throw "empty"
  | ⟨_ + 1, M⟩ => return ofQ (isoResidual M)

/-- `x ↦ xM` and the three Minkowski products needed for distance / type preservation -/
def applyOp (j : Json) : R Json := do
  match (← sqMat j "M") with
  | ⟨0, _⟩ => throw "empty"
  | ⟨n + 1, M⟩ =>
    let x ← vecf (n + 1) j "x"
    let y ← vecf (n + 1) j "y"
    let xm := (DVec.ofFn (applyRow M x)).toFn
    let ym := (DVec.ofFn (applyRow M y)).toFn
    return Json.mkObj [("xM", ofVec xm), ("yM", ofVec ym),
      ("before", ofQArr #[mink x x, mink y y, mink x y]),
      ("after", ofQArr #[mink xm xm, mink ym ym, mink xm ym])]

instance {n : ℕ} : Inhabited (DVec n ℚ) := ⟨⟨#[]⟩⟩

/-! Staged (array-backed) versions of the SVD-based constructors: every partial-frame row and every Gram–Schmidt
row is materialised once; each is proved to denote the model definition the theorems are about. -/

/-- `GS.findIsometry rsqrt (minkJ n) part ker` with Gram–Schmidt on array-backed rows -/
def frameD {n : ℕ} (part ker : List (DVec (n + 1) ℚ)) : List (DVec (n + 1) ℚ) :=
  (normalizeRows rsqrt (minkJ n) ((gsD (minkJ n) part).map DVec.toFn)
    ++ normalizeRows rsqrt (minkJ n) ((gsD (minkJ n) ker).map DVec.toFn)).map DVec.ofFn

theorem frameD_eq {n : ℕ} (part ker : List (DVec (n + 1) ℚ)) :
    (frameD part ker).map DVec.toFn = findIsometry rsqrt (minkJ n) (part.map DVec.toFn) (ker.map DVec.toFn) := by
  simp [frameD, findIsometry, indefiniteOrthogonalize, gsD_toFn, Function.comp_def]

/-- the partial frame `Point.origin_to` hands to `find_isometry` -/
def originPartD {n : ℕ} (x : Fin (n + 1) → ℚ) : List (DVec (n + 1) ℚ) :=
  let xn := DVec.ofFn (normalizeVec rsqrt (minkJ n) x)
  [DVec.ofFn (sheetSign xn.toFn • xn.toFn)]

theorem originToD_eq {n : ℕ} (x : Fin (n + 1) → ℚ) (ker : List (DVec (n + 1) ℚ)) :
    (frameD (originPartD x) ker).map DVec.toFn = originTo rsqrt x (ker.map DVec.toFn) := by
  simp [frameD_eq, originPartD, originTo]

/-- the partial frame `TangentVector.origin_to` hands to `find_isometry` -/
def tangentPartD {n : ℕ} (x v : Fin (n + 1) → ℚ) : List (DVec (n + 1) ℚ) :=
  let xn := DVec.ofFn (normalizeVec rsqrt (minkJ n) x)
  let vn := DVec.ofFn (normalizeVec rsqrt (minkJ n) v)
  [DVec.ofFn (sheetSign xn.toFn • xn.toFn), DVec.ofFn (sheetSign xn.toFn • vn.toFn)]

theorem tangentOriginToD_eq {n : ℕ} (x v : Fin (n + 1) → ℚ) (ker : List (DVec (n + 1) ℚ)) :
    (frameD (tangentPartD x v) ker).map DVec.toFn = tangentOriginTo rsqrt x v (ker.map DVec.toFn) := by
  simp [frameD_eq, tangentPartD, tangentOriginTo]

/-- `GS.spacelikeFrame rsqrt v`, materialised -/
def spacelikePartD {n : ℕ} (v : Fin (n + 1) → ℚ) : List (DVec (n + 1) ℚ) :=
  let vn := DVec.ofFn (normalizeVec rsqrt (minkJ n) v)
  [DVec.ofFn (Pi.single 0 1 - gproj (minkJ n) (Pi.single 0 1) vn.toFn), vn]

theorem spacelikePartD_eq {n : ℕ} (v : Fin (n + 1) → ℚ) :
    (spacelikePartD v).map DVec.toFn = spacelikeFrame rsqrt v := by
  simp [spacelikePartD, spacelikeFrame]

theorem spacelikeToD_eq {n : ℕ} (v : Fin (n + 1) → ℚ) (ker : List (DVec (n + 1) ℚ)) :
    (frameD (spacelikePartD v) ker).map DVec.toFn = spacelikeTo rsqrt v (ker.map DVec.toFn) := by
  rw [frameD_eq, spacelikePartD_eq]; rfl

/-- optional list of rows of length `n` under `k` (absent: no rows) -/
def rowsOpt (n : ℕ) (j : Json) (k : String) : R (List (DVec n ℚ)) := do
  match j.getObjVal? k with
  | .error _ => pure []
  | .ok v =>
    let a ← qArr2 v
    if a.any (fun r => r.size ≠ n) then throw s!"expected rows of length {n}"
    return a.toList.map fun r => (⟨r⟩ : DVec n ℚ)

/-- the SVD-based constructors of `hyperbolic.py` given a kernel basis `ker` (absent: only the rows the
algorithm determines): `Point.origin_to` (`kind = "origin_to"`, point `x`), `TangentVector.origin_to`
(`"tv_origin_to"`, base point `x`, stored vector `v`), `hyperbolic.spacelike_to` (`"spacelike_to"`, vector `v`).
Answer: the rows (`frameD`, every root exact, else `irrational-root`); with `"unnormalized": true` the
Gram–Schmidt rows before the final `normalize` and their square-norms (no root taken on them) -/
def frameOp (j : Json) : R Json := do
  let kind ← strf j "kind"
  let va ← qArr (← field j (if kind == "spacelike_to" then "v" else "x"))
  match va.size with
  | 0 => throw "empty vector"
  | n + 1 =>
    let x ← vec (n + 1) (.arr (va.map ofQ))
    let ker ← rowsOpt (n + 1) j "ker"
    if !isSq |bil (minkJ n) x x| then throw "irrational-root"
    let part ← (do
      if kind == "spacelike_to" then pure (spacelikePartD x)
      else if kind == "origin_to" then pure (originPartD x)
      else if kind == "tv_origin_to" then
        let v ← vecf (n + 1) j "v"
        if !isSq |bil (minkJ n) v v| then throw "irrational-root"
        pure (tangentPartD x v)
      else throw "unknown kind")
    let g1 := gsD (minkJ n) part
    let g2 := gsD (minkJ n) ker
    let nrm := fun (l : List (DVec (n + 1) ℚ)) => l.map fun v => bil (minkJ n) v.toFn v.toFn
    if ((nrm g1).dropLast).any (· = 0) || ((nrm g2).dropLast).any (· = 0) then throw "DivZero"
    let unn := match j.getObjVal? "unnormalized" with
      | .ok (.bool true) => true
      | _ => false
    if unn then
      return Json.mkObj [("rows", .arr ((g1 ++ g2).toArray.map fun v => ofQArr v.a)), ("norms", ofQArr (nrm (g1 ++ g2)).toArray)]
    for q in nrm (g1 ++ g2) do
      if !isSq |q| then throw "irrational-root"
    return .arr ((frameD part ker).toArray.map fun v => ofQArr v.a)

def ops : List (String × Handler) :=
  [("c02.rotation", rotationOp), ("c02.elliptic", ellipticOp), ("c02.loxodromic", loxodromicOp),
   ("c02.sl2", sl2Op), ("c02.reflect", reflectOp), ("c02.refl_closed", reflClosedOp),
   ("c02.word", wordOp), ("c02.residual", residualOp), ("c02.apply", applyOp), ("c02.frame", frameOp)]
end GT.Driver.C02
