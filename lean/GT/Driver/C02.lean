import GT.Base.JsonQ
import GT.Base.QSqrt
import GT.Model.Isometry
import GT.Model.LinAlgQ
open Lean GT.J GT Matrix GT.Iso GT.LinAlgQ
namespace GT.Driver.C02

/-- square rational matrix of any size with its dimension -/
def sqMat (j : Json) (k : String) : R ((p : ℕ) × Matrix (Fin p) (Fin p) ℚ) := do
  let a ← qArr2 (← field j k)
  let p := a.size
  let M ← mat p p (.arr (a.map ofQArr))
  return ⟨p, M⟩

/-- answer with a materialised matrix (`DMat` is a structure: evaluated once, strictly) -/
def ofD {p q : ℕ} (M : DMat p q ℚ) : Json := ofQArr2 M.a

/-- `Isometry.standard_rotation(angle, dimension)` with `(c,s)=(cos,sin)` supplied -/
def rotationOp (j : Json) : R Json := do
  let dim ← natf j "dim"
  let c ← qf j "c"
  let s ← qf j "s"
  match dim with
  | 0 | 1 => throw "ValueError"
  | m + 2 => return ofMat (rotation (m := m) c s)

/-- `Isometry.elliptic(n, O, column_vectors)` -/
def ellipticOp (j : Json) : R Json := do
  let ⟨_, O⟩ ← sqMat j "O"
  let cv ← boolf j "column_vectors"
  return ofMat (if cv then elliptic O else ellipticRow O)

/-- `Isometry.standard_loxodromic(dim, u)` -/
def loxodromicOp (j : Json) : R Json := do
  let dim ← natf j "dim"
  let u ← qf j "u"
  if u = 0 then throw "DivZero"
  match dim with
  | 0 => throw "ValueError"
  | m + 1 =>
    let T := DMat.ofMatrix (loxB (m := m) * loxDiag u)
    return ofD (DMat.ofMatrix (T.toMatrix * loxBinv)ᵀ)

/-- `hyperbolic.sl2_iso(A)` -/
def sl2Op (j : Json) : R Json := do
  let A ← matf 2 2 j "A"
  let A3 := DMat.ofMatrix (sl2Irrep3 A)
  let L := DMat.ofMatrix (perm210 * killingConj * A3.toMatrix)
  return ofD (DMat.ofMatrix (L.toMatrix * killingConjInv * perm210)ᵀ)

/-- `Subspace.reflection_across` from hyperplane data `D` (inverse certified: `certInv_spec`) -/
def reflectOp (j : Json) : R Json := do
  match (← sqMat j "D") with
  | ⟨0, _⟩ => throw "empty"
  | ⟨n + 1, D⟩ =>
    match certInv D with
    | none => throw "Singular"
    | some Di =>
      let T := DMat.ofMatrix (Di * minkJ n)
      return ofD (DMat.ofMatrix (T.toMatrix * D))

/-- closed-form reflection in the normal `d` -/
def reflClosedOp (j : Json) : R Json := do
  let a ← qArr (← field j "d")
  match a.size with
  | 0 => throw "empty"
  | n + 1 =>
    let d ← vec (n + 1) (.arr (a.map ofQ))
    if mink d d = 0 then throw "DivZero"
    return ofMat (reflClosed d)

/-- `l₁ @ l₂ @ … @ l_k`; letters `{"m": matrix, "inv": bool}`; `.inv()` certified -/
def wordOp (j : Json) : R Json := do
  let p ← natf j "size"
  let ls ← arr (← field j "letters")
  let mut ms : List (DMat p p ℚ) := []
  for l in ls do
    let M ← matf p p l "m"
    let iv ← boolf l "inv"
    if iv then
      match certInv M with
      | none => throw "Singular"
      | some B => ms := DMat.ofMatrix B :: ms
    else ms := DMat.ofMatrix M :: ms
  return ofD (evalWordD ms.reverse)

/-- `‖M J Mᵀ − J‖∞` exactly -/
def residualOp (j : Json) : R Json := do
  match (← sqMat j "M") with
  | ⟨0, _⟩ => throw "empty"
  | ⟨_ + 1, M⟩ => return ofQ (isoResidual M)

/-- `x ↦ xM` and the three Minkowski products needed for distance / type preservation -/
def applyOp (j : Json) : R Json := do
  match (← sqMat j "M") with
  | ⟨0, _⟩ => throw "empty"
  | ⟨n + 1, M⟩ =>
    let x ← vecf (n + 1) j "x"
    let y ← vecf (n + 1) j "y"
    let xm := (DVec.ofFn (applyRow M x)).toFn
    let ym := (DVec.ofFn (applyRow M y)).toFn
    return Json.mkObj [("xM", ofVec xm), ("yM", ofVec ym),
      ("before", ofQArr #[mink x x, mink y y, mink x y]),
      ("after", ofQArr #[mink xm xm, mink ym ym, mink xm ym])]

def ops : List (String × Handler) :=
  [("c02.rotation", rotationOp), ("c02.elliptic", ellipticOp), ("c02.loxodromic", loxodromicOp),
   ("c02.sl2", sl2Op), ("c02.reflect", reflectOp), ("c02.refl_closed", reflClosedOp),
   ("c02.word", wordOp), ("c02.residual", residualOp), ("c02.apply", applyOp)]
end GT.Driver.C02
