import GT.Base.JsonQ
import GT.Model.CoxAut
open Lean GT.J GT.CoxAut
namespace GT.Driver.C07

def formf (n : Nat) (j : Json) (k : String) : R (Vector (Vector ℚ n) n) := do
  let a ← qArr2 (← field j k)
  if a.size ≠ n then throw "bad shape"
  if a.any (fun r => r.size ≠ n) then throw "bad shape"
  return Vector.ofFn fun i => Vector.ofFn fun l => (a[i.1]!)[l.1]!

def optNat : Option Nat → Json
  | none => Json.null
  | some t => toJson t

def ofTable (A : Table) : Json := .arr (A.map fun row => Json.arr (row.map optNat).toArray).toArray

def tablef (j : Json) (k : String) : R Table := do
  let rows ← arr (← field j k)
  rows.toList.mapM fun r => do
    (← arr r).toList.mapM fun x => match x with
      | .null => pure none
      | x => do return some (← nat x)

/-- neighbour table of the small roots as the function the discrete model takes; every index the
Python would use is validated here, so the model's out-of-range defaults are never taken -/
def nbOf {n : Nat} (roots : Array (Root ℚ n)) : R (Nat → Nat → Option Nat) := do
  for r in roots do
    for x in r.nb.toList do
      match x with
      | some t => if t ≥ roots.size then throw "neighbor-out-of-range"
      | none => pure ()
  let tab : Array (Array (Option Nat)) := roots.map fun r => r.nb.toArray
  return fun p k => match tab[p]? with
    | some row => (row[k]?).join
    | none => none

/-- `generate_automaton_coxeter_matrix` given the form matrix: small roots, then the automaton -/
def automatonOp (j : Json) : R Json := do
  let n ← natf j "n"
  let form ← formf n j "form"
  let eps ← qf j "eps"
  let lex ← boolf j "lex"
  let fuel := (← natf j "fuel")
  let outer := (← natf j "outer")
  let bfsFuel := (← natf j "bfs")
  let roots ← findSmallRoots eps form fuel outer
  if roots.size < n then throw "internal"
  let nb ← nbOf roots
  let rj : Json := .arr (roots.map fun r => Json.mkObj
    [("v", ofQArr r.v.toArray), ("nb", .arr (r.nb.toArray.map optNat))])
  match generateAutomaton nb roots.size n lex bfsFuel with
  | none => throw "fuel"
  | some (nodes, A) =>
    return Json.mkObj [("roots", rj), ("table", ofTable A), ("nstates", toJson nodes.length)]

/-- `aut.even_automaton()` on a transition table -/
def evenOp (j : Json) : R Json := do
  let rank ← natf j "rank"
  let A ← tablef j "table"
  match evenAutomaton A rank (← natf j "fuel") with
  | none => throw "fuel"
  | some g =>
    return .arr (g.map fun (v, es) => Json.arr #[toJson v,
      .arr (es.map fun ((a, b), t) => Json.arr #[toJson a, toJson b, toJson t]).toArray]).toArray

/-- run a non-reducedness certificate through `checkCert` (sound by `GT.C07.checkCert_sound`):
`M` is the Coxeter matrix with every infinite label written `0`; steps are `["b", pos]` / `["s", pos]` -/
def certOp (j : Json) : R Json := do
  let rows ← (← arr (← field j "M")).mapM fun r => do (← arr r).mapM nat
  let M : Nat → Nat → Nat := fun a b => match rows[a]? with
    | some r => (r[b]?).getD 0
    | none => 0
  let w ← (← arr (← field j "word")).mapM nat
  if w.any (fun k => k ≥ rows.size) then throw "KeyError"
  let steps ← (← arr (← field j "steps")).mapM fun s => do
    let a ← arr s
    if a.size ≠ 2 then throw "bad step"
    let pos ← nat a[1]!
    match ← str a[0]! with
    | "b" => pure (CertStep.braid pos)
    | "s" => pure (CertStep.square pos)
    | _ => throw "bad step"
  match checkCert M w.toList steps.toList with
  | none => throw "cert-rejected"
  | some w' => return Json.mkObj [("final", toJson w'), ("shorter", toJson (decide (w'.length < w.size)))]

def optNatJ (o : Option Nat) : Json := optNat o

/-- `FSA.follow_word` on a transition table (`Table.follow`, start state 0) for a list of words, and — for a list
of sequences of 2-letter labels — the block word (`unblock`), the run of the original table on the pairs
(`follow2`) and the run of the even automaton (`EvenG.follow` on `evenAutomaton`): the three objects the
theorems `even_step` / `even_variant` relate -/
def followOp (j : Json) : R Json := do
  let rank ← natf j "rank"
  let A ← tablef j "table"
  let words ← (← arr (← field j "words")).mapM fun w => do (← arr w).mapM nat
  let pairs ← (← arr (← field j "pairs")).mapM fun ps => do
    (← arr ps).mapM fun p => do
      let a ← arr p
      if a.size ≠ 2 then throw "bad pair"
      return ((← nat a[0]!), (← nat a[1]!))
  let fw : Json := .arr (words.map fun w => optNatJ (Table.follow A 0 w.toList))
  let ev ← if pairs.isEmpty then pure Json.null else
    match evenAutomaton A rank (← natf j "fuel") with
    | none => throw "fuel"
    | some g =>
      let E : EvenG := g
      pure (.arr (pairs.map fun ps => Json.mkObj
        [("unblock", toJson (unblock ps.toList)), ("follow2", optNatJ (follow2 A 0 ps.toList)),
         ("even", optNatJ (EvenG.follow E 0 ps.toList))]))
  return Json.mkObj [("follow", fw), ("even", ev)]

/-- the rank-2 pipeline of the end-to-end theorems (`coxeterAutomaton_rank2_finite` / `_inf`), with the very
constants they are stated for: `form2 c`, threshold `eps0` or `eps6`, fuels 8/8/16; returns
`summary (findSmallRoots …)` and the table of `coxeterAutomaton` -/
def rank2Op (j : Json) : R Json := do
  let c ← qf j "c"
  let lex ← boolf j "lex"
  let ε ← match (← strf j "eps") with
    | "eps0" => pure eps0
    | "eps6" => pure eps6
    | _ => throw "eps must be eps0 or eps6"
  let sj : Json := match summary (findSmallRoots ε (form2 c) 8 8) with
    | none => Json.null
    | some L => .arr (L.map fun (v, nb) => Json.mkObj
        [("v", ofQArr v.toArray), ("nb", .arr (nb.map optNat).toArray)]).toArray
  match coxeterAutomaton ε (form2 c) 8 8 16 lex with
  | .error e => throw e
  | .ok A => return Json.mkObj [("eps", ofQ ε), ("roots", sj), ("table", ofTable A)]

def ops : List (String × Handler) :=
  [("c07.automaton", automatonOp), ("c07.even", evenOp), ("c07.cert", certOp), ("c07.follow", followOp),
   ("c07.rank2", rank2Op)]
end GT.Driver.C07
