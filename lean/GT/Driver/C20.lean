import GT.Base.JsonQ
import GT.Base.QSqrt
import GT.Model.CP1
open Lean GT.J GT GT.CP1
namespace GT.Driver.C20

abbrev QI := Cx ℚ

instance : Inhabited QI := ⟨⟨0, 0⟩⟩

/-- complex numbers travel as `[re, im]` -/
def cxOf (j : Json) : R QI := do
  let a ← qArr j
  if a.size ≠ 2 then throw "expected [re, im]"
  return ⟨a[0]!, a[1]!⟩

def ofCx (z : QI) : Json := .arr #[ofQ z.re, ofQ z.im]

def ptOf (j : Json) : R (QI × QI) := do
  let a ← arr j
  if a.size ≠ 2 then throw "expected homogeneous pair"
  return (← cxOf a[0]!, ← cxOf a[1]!)

def ofPt (p : QI × QI) : Json := .arr #[ofCx p.1, ofCx p.2]

def r2Of (j : Json) : R (ℚ × ℚ) := do
  let a ← qArr j
  if a.size ≠ 2 then throw "expected [x, y]"
  return (a[0]!, a[1]!)

def ofR2 (p : ℚ × ℚ) : Json := .arr #[ofQ p.1, ofQ p.2]

def p2sOp (j : Json) : R Json := do
  let z0 ← cxOf (← field j "z0")
  let z1 ← cxOf (← field j "z1")
  if z0 == 0 && z1 == 0 then throw "DivZero"
  let s := p2s z0 z1
  return .arr #[ofQ s.1, ofQ s.2.1, ofQ s.2.2]

def s2pOp (j : Json) : R Json := do
  let a ← qArr (← field j "s")
  if a.size ≠ 3 then throw "expected [x, y, z]"
  return ofPt (s2p a[0]! a[1]! a[2]!)

def circleOp (j : Json) : R Json := do
  let p1 ← r2Of (← field j "p1")
  let p2 ← r2Of (← field j "p2")
  let p3 ← r2Of (← field j "p3")
  if (p2.1 - p1.1) * (p3.2 - p1.2) - (p3.1 - p1.1) * (p2.2 - p1.2) == 0 then throw "DivZero"
  let c := circleThrough p1 p2 p3
  return Json.mkObj [("centre", ofR2 c.1), ("radius2", ofQ c.2)]

/-- `CP1Disk(centre, r)` (affine metric): the four points, `circle_parameters()`,
`center_inside()`; `"pinned": true` runs the original in-place logic -/
def diskOp (j : Json) : R Json := do
  let c ← r2Of (← field j "c")
  let r ← qf j "r"
  let pinned := match fieldD j "pinned" (.bool false) with | .bool b => b | _ => false
  let n := c.1 * c.1 + c.2 * c.2
  if !(isSq n) then throw "irrational-root"
  let d := if pinned then diskFromCentrePinned rsqrt c r else diskFromCentre rsqrt c r
  if r == 0 then throw "DivZero"
  let cp := circleParams d
  return Json.mkObj [("pts", .arr #[ofR2 d.1, ofR2 d.2.1, ofR2 d.2.2.1, ofR2 d.2.2.2]),
    ("centre", ofR2 cp.1), ("radius2", ofQ cp.2), ("inside", .bool (centreInside d))]

def m2Of (j : Json) : R (M2 QI) := do
  let a ← arr j
  if a.size ≠ 2 then throw "expected 2x2"
  let r0 ← arr a[0]!
  let r1 ← arr a[1]!
  if r0.size ≠ 2 || r1.size ≠ 2 then throw "expected 2x2"
  return ⟨← cxOf r0[0]!, ← cxOf r0[1]!, ← cxOf r1[0]!, ← cxOf r1[1]!⟩

def mobiusOp (j : Json) : R Json := do
  let M ← m2Of (← field j "m")
  let pts ← (← arr (← field j "pts")).mapM ptOf
  if pts.size = 4 then
    -- the four points of a disk (boundary triple, interior point): the model's `actDisk`
    let d := actDisk M (pts[0]!, pts[1]!, pts[2]!, pts[3]!)
    return .arr #[ofPt d.1, ofPt d.2.1, ofPt d.2.2.1, ofPt d.2.2.2]
  return .arr (pts.map fun p => ofPt (act M p))

def crossOp (j : Json) : R Json := do
  let pts ← (← arr (← field j "pts")).mapM ptOf
  if pts.size ≠ 4 then throw "expected four points"
  if wedge pts[0]! pts[3]! * wedge pts[1]! pts[2]! == 0 then throw "DivZero"
  return ofCx (crossRatio pts[0]! pts[1]! pts[2]! pts[3]!)

/-- `complement()`: the new interior point (the root `ev` cancels: `inversion_indep_root`) -/
def complementOp (j : Json) : R Json := do
  let pts ← (← arr (← field j "pts")).mapM ptOf
  if pts.size ≠ 4 then throw "expected four points"
  if (M2.ofRows pts[0]! pts[1]!).det == 0 then throw "DivZero"
  let d := complement (1 : QI) (pts[0]!, pts[1]!, pts[2]!, pts[3]!)
  return ofPt d.2.2.2

def v3Of (j : Json) : R (V3 ℚ) := do
  let a ← qArr j
  if a.size ≠ 3 then throw "expected [x, y, z]"
  return (a[0]!, a[1]!, a[2]!)

def ofV3 (v : V3 ℚ) : Json := .arr #[ofQ v.1, ofQ v.2.1, ofQ v.2.2]

/-- the three spherical boundary points of `CP1Disk(center, rad, "fs")`, given the QR factors
(columns of `q`, `r[0,0]`) and `cos(2 rad)`, `sin(2 rad)` -/
def fsBoundaryOp (j : Json) : R Json := do
  let b := fsBoundary (← v3Of (← field j "q0")) (← v3Of (← field j "q1")) (← v3Of (← field j "q2"))
    (← qf j "r00") (← qf j "c2") (← qf j "s2")
  return .arr #[ofV3 b.1, ofV3 b.2.1, ofV3 b.2.2]

/-- the public contract of the `"fs"` constructor evaluated on observed boundary points:
`⟨p, p⟩ - 1` and `⟨p, centre⟩ - cos(2 rad)` for each point (conclusion of `fs_disk_boundary`) -/
def fsResidualOp (j : Json) : R Json := do
  let pts ← (← arr (← field j "pts")).mapM v3Of
  let ctr ← v3Of (← field j "ctr")
  let c2 ← qf j "c2"
  return .arr (pts.map fun p => Json.arr #[ofQ (dot3 p p - 1), ofQ (dot3 p ctr - c2)])

def interactionsOp (j : Json) : R Json := do
  let t := interactions (← qf j "d") (← qf j "r1") (← qf j "r2")
  return .arr #[.bool t.1, .bool t.2.1, .bool t.2.2]

def boolsOf (j : Json) (k : String) : R (List Bool) := do
  return ((← (← arr (← field j k)).mapM bool)).toList

def outBools (e : Except Err (List Bool)) : R Json :=
  match e with
  | .ok l => pure (.arr (l.map Json.bool).toArray)
  | .error .valueError => throw "ValueError"

/-- `contains` / `intersects` on arrays: the mask plumbing, given `center_inside()` of both
sides and the three tables of `disk_interactions` (flattened row-major for `"pairwise"`) -/
def relOp (which : String) (j : Json) : R Json := do
  let s ← boolsOf j "s_aff"
  let o ← boolsOf j "o_aff"
  let c ← boolsOf j "contain"
  let cd ← boolsOf j "contained"
  let i ← boolsOf j "intersect"
  let mode ← strf j "mode"
  let pinned := match fieldD j "pinned" (.bool false) with | .bool b => b | _ => false
  match which, mode with
  | "contains", "elementwise" => outBools (containsElem s o c cd i)
  | "contains", "pairwise" => outBools (.ok (containsPair s o c cd i))
  | "intersects", "elementwise" =>
    outBools (if pinned then intersectsElemPinned s o c cd i else intersectsElem s o c cd i)
  | "intersects", "pairwise" => outBools (.ok (intersectsPair s o c cd i))
  | _, _ => throw "unknown mode"

def ops : List (String × Handler) :=
  [("c20.p2s", p2sOp), ("c20.s2p", s2pOp), ("c20.circle", circleOp), ("c20.disk", diskOp),
   ("c20.mobius", mobiusOp), ("c20.cross_ratio", crossOp), ("c20.complement", complementOp),
   ("c20.interactions", interactionsOp), ("c20.fs_boundary", fsBoundaryOp), ("c20.fs_residual", fsResidualOp), ("c20.contains", relOp "contains"),
   ("c20.intersects", relOp "intersects")]
end GT.Driver.C20
