import GT.Base.JsonQ
import GT.Base.QSqrt
import GT.Model.GramSchmidt
import GT.Lemmas.GramSchmidt
import GT.Model.Diag
import GT.Model.Arcs
import GT.Model.LinAlgQ
open Lean GT.J GT Matrix GT.Iso GT.GS GT.Diag GT.Arcs GT.LinAlgQ
namespace GT.Driver.C18

/-- rows of a `k × n` rational array as materialised vectors (n read off the form) -/
def rowsD (n : ℕ) (j : Json) (k : String) : R (List (DVec n ℚ)) := do
  let a ← qArr2 (← field j k)
  if a.any (fun r => r.size ≠ n) then throw s!"expected rows of length {n}"
  return a.toList.map fun r => (⟨r⟩ : DVec n ℚ)

def formOf (j : Json) (k : String) : R ((n : ℕ) × Matrix (Fin n) (Fin n) ℚ) := do
  let a ← qArr2 (← field j k)
  let n := a.size
  let M ← mat n n (.arr (a.map ofQArr))
  return ⟨n, M⟩

instance {n : ℕ} : Inhabited (DVec n ℚ) := ⟨⟨#[]⟩⟩

def ofDVecs {n : ℕ} (l : List (DVec n ℚ)) : Json := .arr (l.toArray.map fun v => ofQArr v.a)

/-- Gram–Schmidt with the guard the theorems assume: a null row that a later row is projected
onto is a division by zero -/
def gsGuard {n : ℕ} (F : Matrix (Fin n) (Fin n) ℚ) (rows : List (DVec n ℚ)) : R (List (DVec n ℚ)) := do
  let out := gsD F rows
  let norms := out.map fun v => bil F v.toFn v.toFn
  if (norms.dropLast).any (· = 0) then throw "DivZero"
  return out

/-- `indefinite_orthogonalize` before `normalize`: unnormalised rows and their square-norms -/
def gsOp (j : Json) : R Json := do
  let ⟨n, F⟩ ← formOf j "form"
  let rows ← rowsD n j "rows"
  let out ← gsGuard F rows
  return Json.mkObj [("rows", ofDVecs out), ("norms", ofQArr (out.map fun v => bil F v.toFn v.toFn).toArray)]

/-- `indefiniteOrthogonalize rsqrt F` with Gram–Schmidt run on array-backed rows (what `c18.ortho` answers) -/
def orthoD {n : ℕ} (F : Matrix (Fin n) (Fin n) ℚ) (out : List (DVec n ℚ)) : List (DVec n ℚ) :=
  (normalizeRows rsqrt F (out.map DVec.toFn)).map DVec.ofFn

/-- the driver normalises the rows `gsD` produced; `gsD_toFn` makes that `indefiniteOrthogonalize` -/
theorem orthoD_gsD_eq {n : ℕ} (F : Matrix (Fin n) (Fin n) ℚ) (rows : List (DVec n ℚ)) :
    (orthoD F (gsD F rows)).map DVec.toFn = indefiniteOrthogonalize rsqrt F (rows.map DVec.toFn) := by
  simp [orthoD, indefiniteOrthogonalize, gsD_toFn, Function.comp_def]

/-- `orthogonal_complement(vectors, F, normalize='form')` is the same computation on the kernel basis `ker` -/
theorem orthoD_gsD_eq_complement {n : ℕ} (F : Matrix (Fin n) (Fin n) ℚ) (ker : List (DVec n ℚ)) :
    (orthoD F (gsD F ker)).map DVec.toFn = orthogonalComplement rsqrt F (ker.map DVec.toFn) :=
  orthoD_gsD_eq F ker

/-- `indefinite_orthogonalize` with exact roots (only when every |square-norm| is a rational square) -/
def orthoOp (j : Json) : R Json := do
  let ⟨n, F⟩ ← formOf j "form"
  let rows ← rowsD n j "rows"
  let out ← gsGuard F rows
  for v in out do
    if !isSq |bil F v.toFn v.toFn| then throw "irrational-root"
  return ofDVecs (orthoD F out)

/-- `find_isometry` given the kernel basis the implementation obtained: `gs partial ++ gs ker`
unnormalised with square-norms -/
def findIsoOp (j : Json) : R Json := do
  let ⟨n, F⟩ ← formOf j "form"
  let p ← rowsD n j "partial"
  let k ← rowsD n j "ker"
  let o1 ← gsGuard F p
  let o2 ← gsGuard F k
  let out := o1 ++ o2
  return Json.mkObj [("rows", ofDVecs out), ("norms", ofQArr (out.map fun v => bil F v.toFn v.toFn).toArray)]

/-- `utils.make_orientation_preserving(M)` on the square matrix whose rows are given (exact determinant) -/
def makeOrientedOp (j : Json) : R Json := do
  let a ← qArr2 (← field j "rows")
  match h : a.size with
  | 0 => throw "empty"
  | m + 1 =>
    if a.any (fun r => r.size ≠ m + 1) then throw "not square"
    let rows : List (Fin (m + 1) → ℚ) := a.toList.map fun r => (⟨r⟩ : DVec (m + 1) ℚ).toFn
    have hl : rows.length = m + 1 := by simp [rows, h]
    let M := DMat.ofMatrix (rowsMatrix rows hl)
    let d := M.toMatrix.det
    let O := DMat.ofMatrix (makeOriented M.toMatrix)
    return Json.mkObj [("M", ofQArr2 O.a), ("det", ofQ d)]

/-- exact Gram data of rows `M` w.r.t. `F`: max |off-diagonal|, max ||diag|−1|, signs, and the
cross products with an optional second family `P` -/
def gramOp (j : Json) : R Json := do
  let ⟨n, F⟩ ← formOf j "form"
  let rows ← rowsD n j "rows"
  let vs := rows.toArray
  let mut off : ℚ := 0
  let mut dg : ℚ := 0
  let mut signs : Array ℚ := #[]
  for a in [0:vs.size] do
    for b in [0:vs.size] do
      let g := bil F vs[a]!.toFn vs[b]!.toFn
      if a = b then
        dg := max dg |(|g| - 1)|
        signs := signs.push (if 0 < g then 1 else -1)
      else off := max off |g|
  let others ← (do
    match j.getObjVal? "against" with
    | .ok _ => rowsD n j "against"
    | .error _ => pure [])
  let mut cross : ℚ := 0
  for p in others do
    for v in rows do
      cross := max cross |bil F p.toFn v.toFn|
  return Json.mkObj [("offdiag", ofQ off), ("diag", ofQ dg), ("signs", ofQArr signs), ("cross", ofQ cross)]

/-- the `order` array of `diagonalize_form` for given eigenvalues -/
def orderOp (j : Json) : R Json := do
  let a ← qArr (← field j "eigs")
  let n := a.size
  let e ← vec n (.arr (a.map ofQ))
  let mink := (← strf j "mode") == "minkowski"
  let rev ← boolf j "reverse"
  let key := if mink then minkowskiKey e else e
  return Json.mkObj [("order", .arr ((formOrder e mink rev).toArray.map fun i => Json.num (i.val : Int))),
    ("key", ofVec key)]

/-- contract and conclusion residuals of `diagonalize_form`, exactly, on float data:
`eigh` contract (`UᵀBU − diag eigs`, `UᵀU − 1`) and conclusion (`WᵀBW`: off-diagonal, ||diag|−1|, signs;
`W Winv − 1`) -/
def diagResidualOp (j : Json) : R Json := do
  let ⟨n, B⟩ ← formOf j "B"
  let W ← matf n n j "W"
  let Wi ← matf n n j "Winv"
  let T := DMat.ofMatrix (Wᵀ * B)
  let G := DMat.ofMatrix (T.toMatrix * W)
  let I := DMat.ofMatrix (W * Wi - 1)
  let mut off : ℚ := 0
  let mut dg : ℚ := 0
  let mut signs : Array ℚ := #[]
  for a in List.finRange n do
    for b in List.finRange n do
      let g := G.toMatrix a b
      if a = b then
        dg := max dg |(|g| - 1)|
        signs := signs.push (if 0 < g then 1 else -1)
      else off := max off |g|
  let mut res := [("offdiag", ofQ off), ("diag", ofQ dg), ("signs", ofQArr signs), ("inv", ofQ (maxAbs I.toMatrix))]
  match j.getObjVal? "U" with
  | .ok _ =>
    let U ← matf n n j "U"
    let e ← vecf n j "eigs"
    let T2 := DMat.ofMatrix (Uᵀ * B)
    let C1 := DMat.ofMatrix (T2.toMatrix * U - Matrix.diagonal e)
    let C2 := DMat.ofMatrix (Uᵀ * U - 1)
    res := res ++ [("eigh_diag", ofQ (maxAbs C1.toMatrix)), ("eigh_orth", ofQ (maxAbs C2.toMatrix))]
  | .error _ => pure ()
  return Json.mkObj res

/-- `diagonalize_form` executed exactly on an exact `eigh` output (`|eigs|` rational squares) -/
def diagonalizeOp (j : Json) : R Json := do
  let a ← qArr (← field j "eigs")
  let n := a.size
  let e ← vec n (.arr (a.map ofQ))
  let U ← matf n n j "U"
  let mink := (← strf j "mode") == "minkowski"
  let rev ← boolf j "reverse"
  for x in a do
    if !isSq |x| then throw "irrational-root"
    if x = 0 then throw "DivZero"
  let o := formOrder e mink rev
  if h : o.length = n then
    let σ := orderFn o h
    let r := diagonalizeForm rsqrt e U σ
    return Json.mkObj [("W", ofMat r.1), ("Winv", ofMat r.2)]
  else throw "order length"

/-- `numerical.svd_kernel` selection on the captured `(s, vh)`; returns the selected rows of `vh` -/
def svdKernelOp (j : Json) : R Json := do
  let ⟨n, Vh⟩ ← formOf j "vh"
  let m ← natf j "m"
  let s ← qArr (← field j "s")
  let tol ← qf j "tol"
  return .arr ((svdKernelRows tol m s.toList Vh).toArray.map fun v => ofVec v)

/-- exact kernel residuals: `max |A N|`, `max |NᵀN − 1|` for the returned columns `N` (sent as rows),
and the SVD contract residuals when `(u, s, vh)` are supplied -/
def kernelResidualOp (j : Json) : R Json := do
  let A2 ← qArr2 (← field j "A")
  let m := A2.size
  let n ← natf j "n"
  let A ← mat m n (.arr (A2.map ofQArr))
  let cols ← rowsD n j "N"
  let mut ann : ℚ := 0
  let mut orth : ℚ := 0
  let vs := cols.toArray
  for a in [0:vs.size] do
    let w := DVec.ofFn (A *ᵥ vs[a]!.toFn)
    for x in w.a do ann := max ann |x|
    for b in [0:vs.size] do
      let g := dot vs[a]!.toFn vs[b]!.toFn
      orth := max orth |g - (if a = b then 1 else 0)|
  let mut res := [("ann", ofQ ann), ("orth", ofQ orth), ("count", Json.num (vs.size : Int))]
  match j.getObjVal? "vh" with
  | .ok _ =>
    let Vh ← matf n n j "vh"
    let U ← matf m m j "u"
    let s ← qArr (← field j "s")
    let Sg : Matrix (Fin m) (Fin n) ℚ := sigmaMat m s.toList
    let T := DMat.ofMatrix (U * Sg)
    let C1 := DMat.ofMatrix (T.toMatrix * Vh - A)
    let C2 := DMat.ofMatrix (Vh * Vhᵀ - 1)
    let C3 := DMat.ofMatrix (U * Uᵀ - 1)
    let sorted := s.toList.Pairwise (fun a b => b ≤ a) && s.all (fun x => 0 ≤ x)
    res := res ++ [("svd_recon", ofQ (maxAbs C1.toMatrix)), ("svd_orth", ofQ (max (maxAbs C2.toMatrix) (maxAbs C3.toMatrix))),
      ("svd_sorted", Json.bool sorted), ("svd_len", Json.num (s.size : Int))]
  | .error _ => pure ()
  return Json.mkObj res

/-- `sphere_through(points)`: centre and squared radius exactly (inverse certified) -/
def sphereOp (j : Json) : R Json := do
  let P ← qArr2 (← field j "pts")
  match P.size with
  | 0 => throw "GeometryError"
  | d + 1 =>
    if P.any (fun r => r.size ≠ d) then throw "GeometryError"
    let pts : Fin (d + 1) → Fin d → ℚ := fun i k => (P[i.val]!)[k.val]!
    let T := sphereT pts
    match certInv Tᵀ with
    | none => throw "Singular"
    | some Ti =>
      let c := DVec.ofFn ((1 / 2 : ℚ) • Matrix.vecMul (fun i => nsq (T i)) Ti)
      let center := DVec.ofFn (c.toFn + pts 0)
      return Json.mkObj [("center", ofQArr center.a), ("r2", ofQ (nsq c.toFn))]

def pairOf (p : ℚ × ℚ) : Json := ofQArr #[p.1, p.2]

def shortArcOp (j : Json) : R Json := do
  return pairOf (shortArc (← qf j "pi") (← qf j "a", ← qf j "b"))

/-- `right_to_left`; the cosine is supplied as the two values the implementation computed -/
def rightToLeftOp (j : Json) : R Json := do
  let a ← qf j "a"
  let b ← qf j "b"
  let ca ← qf j "ca"
  let cb ← qf j "cb"
  return pairOf (rightToLeft (fun x => if x = a then ca else cb) (a, b))

def arcIncludeOp (j : Json) : R Json := do
  return pairOf (arcInclude (← qf j "pi") (← qf j "a", ← qf j "b") (← qf j "ref"))

/-- `circle_angles` as `(cos θ, sin θ)`, exactly (the squared distance must be a rational square) -/
def circleAngleOp (j : Json) : R Json := do
  let c ← vecf 2 j "center"
  let p ← vecf 2 j "p"
  let d2 := (p 0 - c 0) * (p 0 - c 0) + (p 1 - c 1) * (p 1 - c 1)
  if d2 = 0 then throw "DivZero"
  if !isSq d2 then throw "irrational-root"
  return pairOf (circleAngleCS rsqrt c p)

def ops : List (String × Handler) :=
  [("c18.gs", gsOp), ("c18.ortho", orthoOp), ("c18.find_isometry", findIsoOp), ("c18.gram", gramOp),
   ("c18.order", orderOp), ("c18.diag_residual", diagResidualOp), ("c18.diagonalize", diagonalizeOp),
   ("c18.svd_kernel", svdKernelOp), ("c18.kernel_residual", kernelResidualOp), ("c18.sphere", sphereOp),
   ("c18.short_arc", shortArcOp), ("c18.right_to_left", rightToLeftOp), ("c18.arc_include", arcIncludeOp),
   ("c18.circle_angle", circleAngleOp), ("c18.make_oriented", makeOrientedOp)]
end GT.Driver.C18
