/-
Driver operations for C09: run an operation history on the FSA model and return the three views
after every step.  Vertices are JSON integers or strings, labels are strings.
-/
import GT.Base.JsonQ
import GT.Model.FSA
open Lean GT.J GT
namespace GT.Driver.C09

/-- automaton vertices as they travel over the line protocol -/
inductive Vx
  | i (n : Int)
  | s (x : String)
  deriving DecidableEq, Repr

def vxOf (j : Json) : R Vx :=
  match j with
  | .str s => pure (.s s)
  | .num n => if n.exponent = 0 then pure (.i n.mantissa) else throw "bad vertex"
  | _ => throw s!"bad vertex {j.compress}"

def vxTo : Vx → Json
  | .i n => .num ⟨n, 0⟩
  | .s x => .str x

def listOf {α} (f : Json → R α) (j : Json) : R (List α) := do
  let a ← arr j
  a.toList.mapM f

def pairOf {α β} (f : Json → R α) (g : Json → R β) (j : Json) : R (α × β) := do
  let a ← arr j
  if h : a.size = 2 then return (← f a[0], ← g a[1]) else throw "expected pair"

def tripleOf {α β γ} (f : Json → R α) (g : Json → R β) (h : Json → R γ) (j : Json) : R (α × β × γ) := do
  let a ← arr j
  if _h : a.size = 3 then return (← f a[0], ← g a[1], ← h a[2]) else throw "expected triple"

def dictOf {κ ν} (f : Json → R κ) (g : Json → R ν) (j : Json) : R (Dict κ ν) := listOf (pairOf f g) j

def ofList {α} (f : α → Json) (l : List α) : Json := .arr (l.map f).toArray
def ofPair {α β} (f : α → Json) (g : β → Json) (p : α × β) : Json := .arr #[f p.1, g p.2]
def ofDict {κ ν} (f : κ → Json) (g : ν → Json) (d : Dict κ ν) : Json := ofList (ofPair f g) d

def errStr : FSA.Err → String
  | .keyError => "KeyError"
  | .indexError => "IndexError"
  | .fsaException => "FSAException"
  | .fuel => "fuel"

def lift {α} (x : Except FSA.Err α) : R α :=
  match x with
  | .ok a => pure a
  | .error e => throw (errStr e)

abbrev A := FSA Vx String

def viewsTo (lab : L → Json) (s : FSA Vx L) : Json :=
  Json.mkObj [
    ("g", ofDict vxTo (ofDict lab vxTo) s.graph),
    ("o", ofDict vxTo (ofDict vxTo (ofList lab)) s.out),
    ("i", ofDict vxTo (ofDict vxTo (ofList lab)) s.inn),
    ("starts", ofList vxTo s.starts)]

/-- relabel the vertices of a model automaton by an injective map (kbmag: ℕ, free: strings) -/
def mapV {V V' L} (f : V → V') (s : FSA V L) : FSA V' L :=
  { graph := s.graph.map fun r => (f r.1, r.2.map fun e => (e.1, f e.2)),
    out := s.out.map fun r => (f r.1, r.2.map fun e => (f e.1, e.2)),
    inn := s.inn.map fun r => (f r.1, r.2.map fun e => (f e.1, e.2)),
    starts := s.starts.map f }

def invertGen (g : String) : String := if g.toLower == g then g.toUpper else g.toLower

/-- every construction route -/
def initOf (j : Json) : R A := do
  let route ← strf j "route"
  match route with
  | "graph" =>
    let d ← dictOf vxOf (dictOf str vxOf) (← field j "d")
    return FSA.fromGraphDict d (← listOf vxOf (← field j "starts"))
  | "out" =>
    let d ← dictOf vxOf (dictOf vxOf (listOf str)) (← field j "d")
    return FSA.fromOutDict d (← listOf vxOf (← field j "starts"))
  | "empty" => return FSA.empty (← listOf vxOf (← field j "starts"))
  | "free" =>
    let gens ← listOf str (← field j "gens")
    return mapV Vx.s (FSA.free invertGen "" gens)
  | "kbmag" =>
    let t ← listOf (listOf nat) (← field j "transitions")
    let labels ← listOf str (← field j "labels")
    let initial ← listOf nat (← field j "initial")
    return mapV (fun (n : Nat) => Vx.i (Int.ofNat n)) (FSA.fromKbmag t labels initial)
  | _ => throw "unknown route"

/-- one operation of a history -/
def opOf (j : Json) : R (FSA.Op Vx String) := do
  let k ← strf j "k"
  match k with
  | "addv" => return .addVertices (← listOf vxOf (← field j "vs"))
  | "adde" => return .addEdges (← listOf (tripleOf vxOf vxOf str) (← field j "es")) (← boolf j "ir")
  | "addel" => return .addEdgesL (← listOf (tripleOf vxOf vxOf (listOf str)) (← field j "es")) (← boolf j "ir")
  | "delv" => return .deleteVertex (← vxOf (← field j "v"))
  | "delvs" => return .deleteVertices (← listOf vxOf (← field j "vs"))
  | "recurrent" => return .recurrent
  | "rename" => return .rename (← dictOf str str (← field j "m"))
  | "copy" => return .copy
  | "hasedge" => return .hasEdge (← vxOf (← field j "t")) (← vxOf (← field j "h"))
  | _ => throw "unknown op kind"

/-- `run` of a one-operation history is `applyOp` -/
theorem run_single {V L : Type} [DecidableEq V] [DecidableEq L] (s : FSA V L) (op : FSA.Op V L) :
    s.run [op] = s.applyOp op := by
  unfold FSA.run FSA.run
  cases s.applyOp op <;> rfl

/-- running `a` and then `b` on the result is running `a ++ b`: the step-by-step loop of `runSteps` computes
`FSA.run` of the whole history (stopping at the first operation that raises) -/
theorem run_append {V L : Type} [DecidableEq V] [DecidableEq L] (s : FSA V L) (a b : List (FSA.Op V L)) :
    s.run (a ++ b) = (s.run a).bind fun s' => s'.run b := by
  induction a generalizing s with
  | nil => rfl
  | cons op a ih =>
    simp only [List.cons_append, FSA.run]
    cases s.applyOp op with
    | error e => rfl
    | ok s' => exact ih s'

/-- one step of a recorded history: `FSA.run` on the one-operation history (`run_single`, `run_append`) -/
def stepOf (s : A) (j : Json) : R A := do lift (s.run [← opOf j])

def runSteps : A → List Json → List Json → List Json
  | _, [], acc => acc.reverse
  | s, j :: js, acc =>
    match stepOf s j with
    | .ok s' => runSteps s' js (viewsTo Json.str s' :: acc)
    | .error e => (Json.mkObj [("err", .str e)] :: acc).reverse

/-- `{"op":"c09.run","init":{…},"ops":[…]}` → views after construction and after every step;
the list stops at the first step that raises -/
def runOp (j : Json) : R Json := do
  let s ← initOf (← field j "init")
  let ops ← arr (fieldD j "ops" (.arr #[]))
  return .arr (runSteps s ops.toList [viewsTo Json.str s]).toArray

/-- run a history without recording -/
def runQuiet (s : A) (js : List Json) : R A := do lift (s.run (← js.mapM opOf))

/-- `{"op":"c09.edges","init":{…},"ops":[…]}` → the public edge enumerations of the automaton after the history:
`edges(with_labels=True)` (label view), all `edges_out(v)` (outgoing view), all `edges_in(w)` (incoming view), each
edge as `[tail, head, label]` like the Python tuples, and `vertices()` -/
def edgesOp (j : Json) : R Json := do
  let s ← initOf (← field j "init")
  let ops ← arr (fieldD j "ops" (.arr #[]))
  let s ← runQuiet s ops.toList
  let tr (e : Vx × String × Vx) : Json := .arr #[vxTo e.1, vxTo e.2.2, .str e.2.1]
  return Json.mkObj [("vertices", ofList vxTo s.vertices), ("g", ofList tr s.edgesG),
    ("o", ofList tr s.edgesO), ("i", ofList tr s.edgesI)]

def ops : List (String × Handler) := [("c09.run", runOp), ("c09.edges", edgesOp)]
end GT.Driver.C09
