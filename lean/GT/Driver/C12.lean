import GT.Base.JsonQ
import GT.Base.QSqrt
import GT.Model.Dtype
import GT.Model.DtypeVal
import GT.Model.Rescale
open Lean GT.J GT GT.Dtype GT.Rescale
namespace GT.Driver.C12

/-! ### dtype decision model -/

def dtOf (s : String) : R Dt :=
  match s with
  | "int64" => pure .int64 | "float32" => pure .float32 | "float64" => pure .float64
  | "complex128" => pure .complex128 | "object" => pure .object
  | _ => throw s!"unknown dtype {s}"

def dtStr : Dt → String
  | .int64 => "int64" | .float32 => "float32" | .float64 => "float64"
  | .complex128 => "complex128" | .object => "object"

def rankOf (n : Nat) : R Rank :=
  match n with | 0 => pure .r0 | 1 => pure .r1 | 2 => pure .r2 | _ => throw "rank > 2"

def numOf (s : String) : R PyNum :=
  match s with
  | "int" => pure .int | "float" => pure .float | "complex" => pure .complex
  | _ => throw s!"unknown python number class {s}"

/-- packagings travel as `{"k":"py","t":"float"}`, `{"k":"scalar","d":"int64"}`,
`{"k":"arr","rank":1,"d":"float32"}`, `{"k":"list","depth":2,"t":"int"}`, `{"k":"other"}` -/
def packOf (j : Json) : R Pack := do
  match (← strf j "k") with
  | "py" =>
    match (← numOf (← strf j "t")) with
    | .int => pure .pyInt | .float => pure .pyFloat | .complex => pure .pyComplex
  | "scalar" => return .npScalar (← dtOf (← strf j "d"))
  | "arr" => return .arr (← rankOf (← natf j "rank")) (← dtOf (← strf j "d"))
  | "list" =>
    let d ← natf j "depth"
    let e ← numOf (← strf j "t")
    match d with
    | 1 => pure (.list .d1 e) | 2 => pure (.list .d2 e) | _ => throw "depth must be 1 or 2"
  | "other" => pure .other
  | k => throw s!"unknown packaging kind {k}"

def packStr : Pack → String
  | .pyInt => "py:int" | .pyFloat => "py:float" | .pyComplex => "py:complex"
  | .npScalar d => "scalar:" ++ dtStr d
  | .arr _ d => "arr:" ++ dtStr d
  | .list _ _ => "list" | .other => "other"

def optPack (j : Json) (k : String) : R (Option Pack) :=
  match j.getObjVal? k with
  | .ok .null => pure none
  | .ok v => do return some (← packOf v)
  | .error _ => pure none

def optDt (j : Json) (k : String) : R (Option Dt) :=
  match j.getObjVal? k with
  | .ok .null => pure none
  | .ok v => do return some (← dtOf (← str v))
  | .error _ => pure none

def libOf (j : Json) : R Lib := do
  let major ← natf j "major"
  match fieldD j "lib" (.str "repaired") with
  | .str "repaired" => pure (Lib.repaired major)
  | .str "pinned" => pure (Lib.pinned major)
  | _ => throw "lib must be repaired or pinned"

def outDt (e : Except Err Dt) : R Json :=
  match e with
  | .ok d => pure (.str (dtStr d))
  | .error .typeError => throw "TypeError"

def outBool (e : Except Err Bool) : R Json :=
  match e with
  | .ok b => pure (.bool b)
  | .error .typeError => throw "TypeError"

def targetOf (s : String) : R Target :=
  match s with
  | "int" => pure .int | "float" => pure .float | "complex" => pure .complex
  | _ => throw s!"unknown cast target {s}"

def entryOf (s : String) : R Entry :=
  match s with
  | "rotation_matrix" => pure .rotationMatrix | "standard_rotation" => pure .standardRotation
  | "elliptic" => pure .elliptic | "sl2_iso" => pure .sl2Iso | "from_angle" => pure .fromAngle
  | "regular_polygon" => pure .regularPolygon
  | "standard_loxodromic" => pure .standardLoxodromic | "point_along" => pure .pointAlong
  | "regular_polygon_angle" => pure .regularPolygonAngle | "coxeter_rep" => pure .coxeterRep
  | "array_like" => pure .arrayLike | "zeros_float" => pure .zerosFloat
  | "identity_float" => pure .identityFloat | "point_hyperboloid" => pure .pointHyperboloid
  | "point_affine_hyperboloid" => pure .pointFromAffineHyperboloid
  | "transformation_inv" => pure .transformationInv | "zeros" => pure .zeros
  | "identity" => pure .identity | "point_ctor" => pure .pointCtor
  | "point_affine" => pure .pointFromAffine | "transformation_ctor" => pure .transformationCtor
  | _ => throw s!"unknown entry point {s}"

/-- `np.can_cast(from, to)`; `from` is a packaging or `{"dtype": d}` -/
def canCastOp (j : Json) : R Json := do
  let major ← natf j "major"
  let f ← field j "from"
  let t ← targetOf (← strf j "to")
  match f.getObjVal? "dtype" with
  | .ok d => outBool (canCast major (.dtype (← dtOf (← str d))) t)
  | .error _ => outBool (canCast major (.obj (← packOf f)) t)

def promoteOp (j : Json) : R Json := do
  return .str (dtStr (promote (← dtOf (← strf j "d")) (← dtOf (← strf j "e"))))

def probeOp (j : Json) : R Json := do
  let p ← packOf (← field j "pack")
  return Json.mkObj [("asarray", .str (dtStr p.asarrayDtype)),
    ("attr", match p.dtypeAttr with | some d => .str (dtStr d) | none => .null)]

def isLinalgOp (j : Json) : R Json := do
  let L ← libOf j
  let p ← packOf (← field j "pack")
  let inexact := match fieldD j "lib" (.str "repaired") with
    | .str "pinned" => inexactTypePinned L.major p
    | _ => inexactType L.major p
  return Json.mkObj [("is_linalg", .bool (L.isLinalg p)), ("inexact", .bool inexact)]

def checkTypeOp (j : Json) : R Json := do
  outDt (checkType (← libOf j) (← optDt j "dtype") (← optPack j "like") (← boolf j "integer_type"))

def arrayLikeOp (j : Json) : R Json := do
  outDt (arrayLike (← libOf j) (← packOf (← field j "array")) (← optPack j "like")
    (← optDt j "dtype") (← boolf j "integer_type"))

def zerosOp (j : Json) : R Json := do
  outDt (zeros (← libOf j) (← optPack j "like") (← optDt j "dtype") (← boolf j "integer_type"))

def identityOp (j : Json) : R Json := do
  outDt (identity (← libOf j) (← optPack j "like") (← optDt j "dtype") (← boolf j "integer_type"))

def numberOp (j : Json) : R Json := do
  return .str (packStr (number (← packOf (← field j "val")) (← optDt j "dtype")))

/-- `utils.array_like(x, dtype=…)` for a packaging of the number `v`: `[dtype, stored value]`
(float32 rounding is the identity: the correspondence sends values representable in float32) -/
def arrayLikeValOp (j : Json) : R Json := do
  match arrayLikeVal id (← libOf j) (← packOf (← field j "array")) (← qf j "v") (← optPack j "like")
      (← optDt j "dtype") (← boolf j "integer_type") with
  | .ok (d, x) => return .arr #[.str (dtStr d), ofQ x]
  | .error .typeError => throw "TypeError"

def entryOp (j : Json) : R Json := do
  outDt (entryDtype (← libOf j) (← entryOf (← strf j "entry")) (← packOf (← field j "pack")))

/-! ### rescaling formulas over ℚ -/

def needSq (q : ℚ) : R Unit := if isSq q then pure () else throw "irrational-root"

def withVec (j : Json) (k : String) (f : (n : ℕ) → (Fin (n + 1) → ℚ) → R Json) : R Json := do
  let a ← qArr (← field j k)
  match a.size with
  | 0 => throw "empty vector"
  | n + 1 => f n (← vec (n + 1) (.arr (a.map ofQ)))

/-- `affine_coords(x, chart_index=k)` -/
def affineOp (j : Json) : R Json := withVec j "x" fun n x => do
  let k ← natf j "chart"
  if h : k < n + 1 then
    if x ⟨k, h⟩ == 0 then throw "GeometryError"
    return ofVec (affineChart ⟨k, h⟩ x)
  else throw "IndexError"

/-- the two null vectors of `Segment._compute_aux_data` -/
def segOp (j : Json) : R Json := withVec j "x1" fun n x₁ => do
  let x₂ ← vecf (n + 1) j "x2"
  if segA x₁ x₂ == 0 then throw "DivZero"
  if segDisc x₁ x₂ < 0 then throw "negative-discriminant"
  needSq (segDisc x₁ x₂)
  return Json.arr #[ofVec (segNull rsqrt 1 x₁ x₂), ofVec (segNull rsqrt (-1) x₁ x₂)]

/-- centre and radius of the Poincaré circle through two ideal points -/
def circleOp (j : Json) : R Json := withVec j "n1" fun n N₁ => do
  let N₂ ← vecf (n + 1) j "n2"
  if N₁ 0 == 0 || N₂ 0 == 0 then throw "GeometryError"
  let m : Fin n → ℚ := fun i => (klein N₁ i + klein N₂ i) / 2
  needSq |1 - nsq m|
  let pm := poincareMid rsqrt N₁ N₂
  if nsq pm == 0 then throw "DivZero"
  needSq (nsq fun i => pm i - sphereInv pm i)
  return Json.mkObj [("centre", ofVec (circleCentre rsqrt N₁ N₂)),
    ("radius", ofQ (circleRadius rsqrt N₁ N₂))]

/-- repaired (`"pinned": false`) or pinned `unit_tangent_towards`: `[point, unit vector]` -/
def uttOp (j : Json) : R Json := withVec j "x" fun n x => do
  let y ← vecf (n + 1) j "y"
  let pinned := match fieldD j "pinned" (.bool false) with | .bool b => b | _ => false
  if mink x x == 0 then throw "DivZero"
  let v := if pinned then tangentTowardsPinned x y else tangentTowards x y
  needSq |mink v v|
  let u := if pinned then unitTangentTowardsPinned rsqrt x y else unitTangentTowards rsqrt x y
  return Json.arr #[ofVec x, ofVec u]

/-- `point_along`: `x̂ + t v̂` for the unit tangent towards `y`, `t = tanh d` supplied -/
def alongOp (j : Json) : R Json := withVec j "x" fun n x => do
  let y ← vecf (n + 1) j "y"
  let t ← qf j "t"
  if mink x x == 0 then throw "DivZero"
  needSq |mink x x|
  let v := tangentTowards x y
  needSq |mink v v|
  let u := unitTangentTowards rsqrt x y
  needSq |mink u u|
  return ofVec (pointAlong rsqrt x u t)

/-- `normalize(x, minkowski)` -/
def normalizeOp (j : Json) : R Json := withVec j "x" fun _ x => do
  needSq |mink x x|
  return ofVec (normalize rsqrt x)

/-- reflection of `x` in the hyperplane orthogonal to `v` -/
def reflectOp (j : Json) : R Json := withVec j "v" fun n v => do
  let x ← vecf (n + 1) j "x"
  if mink v v == 0 then throw "DivZero"
  return ofVec (reflectIn v x)

/-- `Transformation(M).apply(Point(x))` (row vector times matrix) -/
def applyOp (j : Json) : R Json := withVec j "x" fun n x => do
  let M ← matf (n + 1) (n + 1) j "m"
  return ofVec (applyT M x)

/-- the hypothesis predicates of the C12 theorems on a packaging / an entry point: `Pack.isRealNumeric`,
`Pack.isInteger` (compared with NumPy's own view of the built object) and `Entry.floating` (compared with the
harness table of entry points the property demands floating output for) -/
def classifyOp (j : Json) : R Json := do
  match j.getObjVal? "pack" with
  | .ok pj =>
    let p ← packOf pj
    return Json.mkObj [("real", .bool p.isRealNumeric), ("integer", .bool p.isInteger)]
  | .error _ =>
    let e ← entryOf (← strf j "entry")
    return Json.mkObj [("floating", .bool e.floating)]

/-- `entryVal`: dtype and stored value of an entry point for a packaging of the number `v` -/
def entryValOp (j : Json) : R Json := do
  match entryVal id (← libOf j) (← entryOf (← strf j "entry")) (← packOf (← field j "pack")) (← qf j "v") with
  | .ok (d, x) => return .arr #[.str (dtStr d), ofQ x]
  | .error .typeError => throw "TypeError"

/-- the call sites D16 / D17 as they were (`integer_type` left at its default): `fromAnglePinned`,
`standardRotationPinned` -/
def pinnedSiteOp (j : Json) : R Json := do
  let L ← libOf j
  let p ← packOf (← field j "pack")
  match (← strf j "site") with
  | "from_angle" => outDt (fromAnglePinned L p)
  | "standard_rotation" => outDt (standardRotationPinned L p)
  | s => throw s!"unknown pinned site {s}"

def ops : List (String × Handler) :=
  [("c12.can_cast", canCastOp), ("c12.probe", probeOp), ("c12.promote", promoteOp), ("c12.is_linalg", isLinalgOp),
   ("c12.check_type", checkTypeOp), ("c12.array_like", arrayLikeOp), ("c12.zeros", zerosOp),
   ("c12.identity", identityOp), ("c12.number", numberOp), ("c12.entry_dtype", entryOp), ("c12.array_like_val", arrayLikeValOp),
   ("c12.classify", classifyOp), ("c12.entry_val", entryValOp), ("c12.pinned_site", pinnedSiteOp),
   ("c12.affine", affineOp), ("c12.segment", segOp), ("c12.circle", circleOp),
   ("c12.utt", uttOp), ("c12.point_along", alongOp), ("c12.normalize", normalizeOp),
   ("c12.reflect", reflectOp), ("c12.apply", applyOp)]
end GT.Driver.C12
