import GT.Base.JsonQ
import GT.Base.QSqrt
import GT.Model.Charts
open Lean GT.J GT
namespace GT.Driver.C01

def needSq (q : ℚ) : R Unit := if isSq q then pure () else throw "irrational-root"

/-- `Point(d, model=m).proj_data` -/
def setOp (j : Json) : R Json := do
  let m ← strf j "model"
  let d ← qArr (← field j "d")
  match m with
  | "projective" | "hyperboloid" => return ofQArr d
  | "klein" =>
    let n := d.size
    return ofVec (setKlein (← vec n (.arr (d.map ofQ))))
  | "poincare" =>
    let n := d.size
    return ofVec (setPoincare (← vec n (.arr (d.map ofQ))))
  | "halfspace" =>
    match d.size with
    | 0 => throw "halfspace needs dimension ≥ 1"
    | n + 1 => return ofVec (setHalfspace (n := n) (← vec (n + 1) (.arr (d.map ofQ))))
  | _ => throw "unknown model"

def getBasic {n : ℕ} (m : String) (x : Fin (n + 1) → ℚ) : R Json := do
  if m == "projective" then return ofVec x
  if m == "hyperboloid" then
    needSq |mink x x|
    return ofVec (getHyperboloid rsqrt x)
  if x 0 == 0 then throw "GeometryError"
  if m == "klein" then return ofVec (getKlein x)
  needSq |1 - nsq (klein x)|
  if m == "poincare" then return ofVec (getPoincare rsqrt x)
  throw "unknown model"

/-- `Point.coords(m)` from stored projective data -/
def getOp (j : Json) : R Json := do
  let m ← strf j "model"
  let xa ← qArr (← field j "x")
  match xa.size with
  | 0 => throw "empty vector"
  | 1 => getBasic (n := 0) m (← vec 1 (.arr (xa.map ofQ)))
  | k + 2 =>
    let x ← vec (k + 2) (.arr (xa.map ofQ))
    if m == "halfspace" then
      if x 0 == 0 then throw "GeometryError"
      needSq |1 - nsq (klein x)|
      let p := getPoincare rsqrt x
      if nsq (Fin.tail p) + (p 0 - 1) * (p 0 - 1) == 0 then throw "DivZero"
      return ofVec (getHalfspace (n := k) rsqrt x)
    getBasic m x

/-- the argument of `arccosh` in (repaired) `Point.distance` -/
def coshOp (j : Json) : R Json := do
  let xa ← qArr (← field j "x")
  match xa.size with
  | 0 => throw "empty vector"
  | n + 1 =>
    let x ← vec (n + 1) (.arr (xa.map ofQ))
    let y ← vecf (n + 1) j "y"
    needSq |mink x x|
    needSq |mink y y|
    return ofQ (coshDistClamped rsqrt x y)

def ops : List (String × Handler) :=
  [("c01.set", setOp), ("c01.get", getOp), ("c01.cosh", coshOp)]
end GT.Driver.C01
