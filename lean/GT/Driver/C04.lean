import GT.Base.JsonQ
import GT.Model.ND
import GT.Model.Obj
import GT.Model.Vectorised
import GT.Model.Units
import GT.Lemmas.Vectorised
import GT.Base.QSqrt
open Lean GT.J GT GT.Act
namespace GT.Driver.C04

/-! JSON encoding of arrays: `{"shape":[2,3],"data":["1","1/2",…]}` (C order). -/

def natArr (j : Json) : R (List Nat) := do
  let a ← arr j
  let l ← a.mapM nat
  return l.toList

def ndOf (j : Json) : R (ND ℚ) := do
  let s ← natArr (← field j "shape")
  let d ← qArr (← field j "data")
  if d.size ≠ sz s then throw s!"bad array: {d.size} entries for shape {s}"
  return ⟨s, d⟩

def ndf (j : Json) (k : String) : R (ND ℚ) := do ndOf (← field j k)
def ndsf (j : Json) (k : String) : R (List (ND ℚ)) := do
  let a ← arr (← field j k)
  let l ← a.mapM ndOf
  return l.toList
def natsf (j : Json) (k : String) : R (List Nat) := do natArr (← field j k)

def ofND (a : ND ℚ) : Json :=
  Json.mkObj [("shape", .arr (a.shape.toArray.map fun n => .num (JsonNumber.fromNat n))), ("data", ofQArr a.data)]

def liftE (x : Except String (ND ℚ)) : R Json := match x with
  | .ok a => pure (ofND a)
  | .error e => throw e

def modeOf (s : String) : R Bcast := match s with
  | "elementwise" => pure .elementwise
  | "pairwise" => pure .pairwise
  | "pairwise_reversed" => pure .pairwiseReversed
  | _ => throw "ValueError"

def opT (j : Json) : R Json := do return ofND (← ndf j "a").T

def opExpand (j : Json) : R Json := do
  let a ← ndf j "a"
  let lo ← natf j "lo"
  if lo > a.rank then throw "AxisError"
  return ofND (a.expandRange lo (← natf j "cnt"))

def opSqueeze (j : Json) : R Json := do
  let a ← ndf j "a"
  let axes ← natsf j "axes"
  if axes.any (fun k => a.shape.getD k 0 != 1) then throw "ValueError"
  return ofND (a.squeezeAxes axes)

def opSwap (j : Json) : R Json := do
  let a ← ndf j "a"
  let i ← natf j "i"
  let k ← natf j "j"
  if i ≥ a.rank ∨ k ≥ a.rank then throw "AxisError"
  return ofND (a.swapaxes i k)

def opRoll (j : Json) : R Json := do
  return ofND ((← ndf j "a").rollBack (← natf j "sh") (← natf j "k"))

def opSub (j : Json) : R Json := do
  let a ← ndf j "a"
  let idx ← natsf j "idx"
  if ¬ Valid (a.shape.take idx.length) idx then throw "IndexError"
  return ofND (a.sub idx)

def opSelect (j : Json) : R Json := do
  let a ← ndf j "a"
  let k ← natf j "k"
  let i ← natf j "i"
  if k ≥ a.rank ∨ i ≥ a.shape.getD k 0 then throw "IndexError"
  return ofND (a.selectAxis k i)

def opSlice (j : Json) : R Json := do
  let a ← ndf j "a"
  let k ← natf j "k"
  let lo ← natf j "lo"
  let hi ← natf j "hi"
  if k ≥ a.rank ∨ lo > hi ∨ hi > a.shape.getD k 0 then throw "IndexError"
  return ofND (a.sliceAxis k lo hi)

def opSetSub (j : Json) : R Json := do
  let a ← ndf j "a"
  let idx ← natsf j "idx"
  let v ← ndf j "v"
  if ¬ Valid (a.shape.take idx.length) idx then throw "IndexError"
  if v.shape ≠ a.shape.drop idx.length then throw "ValueError"
  return ofND (a.setSub idx v)

def opReshape (j : Json) : R Json := do liftE ((← ndf j "a").reshape (← natsf j "shape"))

def opFlatten (j : Json) : R Json := do
  let a ← ndf j "a"
  let u ← natf j "u"
  if u > a.rank then throw "ValueError"
  return ofND (a.flattenOuter u)

def opStack (j : Json) : R Json := do liftE (ND.stack (← ndsf j "as") (← natf j "k"))
def opConcat (j : Json) : R Json := do liftE (ND.concat (← ndsf j "as") (← natf j "k"))

def opZip (j : Json) : R Json := do
  let a ← ndf j "a"
  let b ← ndf j "b"
  match (← strf j "f") with
  | "mul" => liftE (ND.zipBcast (· * ·) a b)
  | "add" => liftE (ND.zipBcast (· + ·) a b)
  | "sub" => liftE (ND.zipBcast (· - ·) a b)
  | "div" =>
    if b.data.any (· == 0) then throw "DivZero"
    liftE (ND.zipBcast (· / ·) a b)
  | _ => throw "unknown ufunc"

def opMatmul (j : Json) : R Json := do liftE (ND.matmul (← ndf j "a") (← ndf j "b"))

def opExpandUnit (j : Json) : R Json := do
  return ofND (expandUnitAxes (← ndf j "a") (← natf j "unit") (← natf j "new"))

def opSqueezeExcess (j : Json) : R Json := do
  return ofND (squeezeExcess (← ndf j "a") (← natf j "unit") (← natf j "other"))

/-- `utils.matrix_product` -/
def opMatrixProduct (j : Json) : R Json := do
  let a₁ ← ndf j "a1"
  let a₂ ← ndf j "a2"
  let u₁ ← natf j "u1"
  let u₂ ← natf j "u2"
  if a₁.rank < u₁ ∨ a₂.rank < u₂ then throw "precondition: ndim < unit axes"
  liftE (matrixProduct a₁ a₂ u₁ u₂ (← modeOf (← strf j "mode")))

/-- `utils.apply_bilinear` -/
def opBilinear (j : Json) : R Json := do
  let v₁ ← ndf j "v1"
  let v₂ ← ndf j "v2"
  if v₁.rank < 1 ∨ v₂.rank < 1 then throw "precondition: ndim < 1"
  let form ← match j.getObjVal? "form" with
    | .ok (.null) => pure none
    | .ok f => pure (some (← ndOf f))
    | .error _ => pure none
  liftE (applyBilinear v₁ v₂ form)

/-- `sqrt(abs(x))` over ℚ; `-1` marks an irrational root (checked before answering) -/
def rabsQ (x : ℚ) : ℚ := if isSq |x| then rsqrt |x| else -1

def opScaleLast (j : Json) : R Json := do liftE (scaleLast (← ndf j "x") (← ndf j "f"))

/-- `hyperbolic.poincare_to_kleinian` -/
def opP2k (j : Json) : R Json := do
  let x ← ndf j "x"
  if x.rank < 1 then throw "precondition: ndim < 1"
  liftE (p2kND x)

/-- `hyperbolic.kleinian_to_poincare` -/
def opK2p (j : Json) : R Json := do
  let x ← ndf j "x"
  if x.rank < 1 then throw "precondition: ndim < 1"
  match normsqND x with
  | .error e => throw e
  | .ok nn => if nn.data.any (fun a => !isSq |1 - a|) then throw "irrational-root"
  liftE (k2pND rabsQ x)

/-- `utils.normalize` (new value of the argument) -/
def opNormalize (j : Json) : R Json := do
  let v ← ndf j "v"
  let f ← ndf j "form"
  if v.rank < 1 then throw "precondition: ndim < 1"
  match applyBilinear v v (some f) with
  | .error e => throw e
  | .ok sq => if sq.data.any (fun a => !isSq |a|) then throw "irrational-root"
  liftE (normalizeLit rabsQ v f)

def opSelectLast (j : Json) : R Json := do
  let a ← ndf j "a"
  let k ← natf j "j"
  if a.rank < 1 ∨ k ≥ a.shape.getLastD 0 then throw "IndexError"
  return ofND (a.selectLast k)

def opSliceLast (j : Json) : R Json := do
  let a ← ndf j "a"
  let lo ← natf j "lo"
  let hi ← natf j "hi"
  if a.rank < 1 ∨ lo > hi ∨ hi > a.shape.getLastD 0 then throw "IndexError"
  return ofND (a.sliceLast lo hi)

def opDeleteLast (j : Json) : R Json := do
  let a ← ndf j "a"
  let c ← natf j "c"
  if a.rank < 1 ∨ c ≥ a.shape.getLastD 0 then throw "IndexError"
  return ofND (a.deleteLast c)

def opSetLast (j : Json) : R Json := do
  let out ← ndf j "out"
  if out.rank < 1 then throw "IndexError"
  match (← strf j "how") with
  | "const" => return ofND (out.setLastConst (← natf j "j") (← qf j "x"))
  | "index" => return ofND (out.setLastIndex (← natf j "j") (← ndf j "v"))
  | "slice" => return ofND (out.setLastSlice (← natf j "lo") (← natf j "hi") (← ndf j "v"))
  | "idx" => return ofND (out.setLastIdx (← natsf j "idx") (← ndf j "v"))
  | _ => throw "unknown"

/-- the rows (last axis) of an array -/
def rowsOf (x : ND ℚ) : List (List ℚ) :=
  let n := x.shape.getLastD 0
  if n = 0 then [] else (List.range (x.data.size / n)).map fun k => (List.range n).map fun c => x.data.getD (k * n + c) 0

def needRank1 (x : ND ℚ) : R Unit := if x.rank < 1 then throw "precondition: ndim < 1" else pure ()

/-- `hyperbolic.poincare_to_halfspace` / `halfspace_to_poincare` -/
def opP2h (j : Json) : R Json := do
  let x ← ndf j "x"
  needRank1 x
  if (rowsOf x).any (fun p => ((p.drop 1).map (fun t => t * t)).sum + (p.headD 0 - 1) * (p.headD 0 - 1) == 0) then throw "DivZero"
  liftE (p2hND x)

def opH2p (j : Json) : R Json := do
  let x ← ndf j "x"
  needRank1 x
  if (rowsOf x).any (fun h => (h.dropLast.map (fun t => t * t)).sum + (h.getLastD 0 + 1) * (h.getLastD 0 + 1) == 0) then throw "DivZero"
  liftE (h2pND x)

/-- `projective.affine_coords(x, chart_index=c)` / `projective_coords(a, chart_index=c)` -/
def opAffine (j : Json) : R Json := do
  let x ← ndf j "x"
  let c ← natf j "c"
  needRank1 x
  if c ≥ x.shape.getLastD 0 then throw "IndexError"
  let n := x.shape.getLastD 0
  if (List.range (x.data.size / n)).any (fun k => x.data.getD (k * n + c) 0 == 0) then throw "GeometryError"
  liftE (affineCoordsND x c)

def opProjCoords (j : Json) : R Json := do
  let a ← ndf j "x"
  let c ← natf j "c"
  needRank1 a
  if c > a.shape.getLastD 0 then throw "IndexError"
  return ofND (projCoordsND a c)

/-- `hyperbolic.Segment._compute_aux_data` (vectorised form) -/
def opSegmentAux (j : Json) : R Json := do
  let e ← ndf j "e"
  if e.rank < 2 then throw "precondition: ndim < 2"
  match segmentAuxND rabsQ e with
  | .error err => throw err
  | .ok r =>
    -- exact roots only: the two rows of every unit must be null vectors
    if (rowsOf r).any (fun x => -(x.headD 0 * x.headD 0) + ((x.drop 1).map (fun t => t * t)).sum != 0) then throw "irrational-root"
    return ofND r

/-- iteration over a composite array (`for u in obj`, python's `__getitem__`/`__len__` protocol):
the list of items `obj[0], obj[1], …` -/
def opIterItems (j : Json) : R Json := do
  let a ← ndf j "a"
  if a.rank < 1 then throw "TypeError"
  return .arr ((iterItems a).map ofND).toArray

/-! ### the unit views of the theorem statements (`GT.Model.Units`) are reads through `ND.get`, the accessor every
executed array primitive is written with; and the per-unit formula `normalizeRowF` of `normalize_units` /
`distance_units` is what the executed `normalizeLit` holds at each unit -/

theorem rowAt_eq_get {K : Type} [Inhabited K] (a : ND K) (n : ℕ) (i : List ℕ) (c : Fin n) :
    rowAt a n i c = a.get (i ++ [c.1]) := rfl

theorem stackAt_eq_get {K : Type} [Inhabited K] (a : ND K) (k p n : ℕ) (i : List ℕ) (v : Fin k) (r : Fin p)
    (c : Fin n) : stackAt a k p n i v r c = a.get (i ++ [v.1, r.1, c.1]) := rfl

theorem scalarAt_eq_get {K : Type} [Inhabited K] (a : ND K) (i : List ℕ) : scalarAt a i = a.get i := rfl

theorem normalizeLit_rowAt {K : Type} [Field K] [Inhabited K] [DecidableEq K] (rabs : K → K) (v F : ND K)
    {o : List ℕ} {n : ℕ} (hv : v.shape = o ++ [n]) (hF : F.shape = [n, n]) {i : List ℕ} (hi : Valid o i) :
    (normalizeLit rabs v F).map (fun c => rowAt c n i)
      = .ok (normalizeRowF rabs (matAt F n n []) (rowAt v n i)) := by
  obtain ⟨c, hc, _, hg⟩ := normalizeLit_units rabs v F hv hF
  rw [hc, ← hg i hi]; rfl

def ops : List (String × Handler) :=
  [("c04.iter_items", opIterItems), ("nd.T", opT), ("nd.expand_range", opExpand), ("nd.squeeze", opSqueeze), ("nd.swapaxes", opSwap),
   ("nd.roll", opRoll), ("nd.sub", opSub), ("nd.select", opSelect), ("nd.slice", opSlice),
   ("nd.set_sub", opSetSub), ("nd.reshape", opReshape), ("nd.flatten_outer", opFlatten),
   ("nd.stack", opStack), ("nd.concat", opConcat), ("nd.zip", opZip), ("nd.matmul", opMatmul),
   ("c04.expand_unit_axes", opExpandUnit), ("c04.squeeze_excess", opSqueezeExcess),
   ("c04.matrix_product", opMatrixProduct), ("c04.apply_bilinear", opBilinear),
   ("c04.scale_last", opScaleLast), ("c04.p2k", opP2k), ("c04.k2p", opK2p), ("c04.normalize", opNormalize),
   ("nd.select_last", opSelectLast), ("nd.slice_last", opSliceLast), ("nd.delete_last", opDeleteLast),
   ("nd.set_last", opSetLast), ("c04.p2h", opP2h), ("c04.h2p", opH2p), ("c04.affine_coords", opAffine),
   ("c04.projective_coords", opProjCoords), ("c04.segment_aux", opSegmentAux)]
end GT.Driver.C04
