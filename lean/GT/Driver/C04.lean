import GT.Base.JsonQ
open Lean GT.J
namespace GT.Driver.C04
def ops : List (String × Handler) := []
end GT.Driver.C04
