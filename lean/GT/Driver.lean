import GT.Driver.C01
import GT.Driver.C02
import GT.Driver.C03
import GT.Driver.C04
import GT.Driver.C05
import GT.Driver.C06
import GT.Driver.C07
import GT.Driver.C08
import GT.Driver.C09
import GT.Driver.C10
import GT.Driver.C11
import GT.Driver.C12
import GT.Driver.C13
import GT.Driver.C14
import GT.Driver.C15
import GT.Driver.C16
import GT.Driver.C17
import GT.Driver.C18
import GT.Driver.C19
import GT.Driver.C20
import GT.Driver.C09Parse
import GT.Base.JsonQ

open Lean GT.J

namespace GT.Driver

def allOps : List (String × Handler) :=
  C09Parse.ops ++ C01.ops ++ C02.ops ++ C03.ops ++ C04.ops ++ C05.ops ++ C06.ops ++ C07.ops ++ C08.ops ++ C09.ops ++ C10.ops ++ C11.ops ++ C12.ops ++ C13.ops ++ C14.ops ++ C15.ops ++ C16.ops ++ C17.ops ++ C18.ops ++ C19.ops ++ C20.ops ++ []

def dispatch (line : String) : Json :=
  match Json.parse line with
  | .error e => Json.mkObj [("err", .str s!"parse: {e}")]
  | .ok j =>
    match j.getObjValAs? String "op" with
    | .error _ => Json.mkObj [("err", .str "no op")]
    | .ok op =>
      match allOps.lookup op with
      | none => Json.mkObj [("err", .str s!"unknown op {op}")]
      | some h =>
        match h j with
        | .ok v => Json.mkObj [("ok", v)]
        | .error e => Json.mkObj [("err", .str e)]

partial def loop (hin hout : IO.FS.Stream) : IO Unit := do
  let line ← hin.getLine
  if line.isEmpty then return ()
  let t := line.trimAscii.toString
  if t.isEmpty then loop hin hout else
  hout.putStrLn (dispatch t).compress
  hout.flush
  loop hin hout

def main : IO Unit := do
  loop (← IO.getStdin) (← IO.getStdout)

end GT.Driver
