/-
C20 — CP¹ points, disks and Möbius maps are consistent on the Riemann sphere.
Only property theorems and non-vacuity examples; helpers are in `GT.Lemmas.CP1`.
Model: `GT.Model.CP1` (complex numbers as pairs over an ordered field `K`; executed over ℚ(i)).
-/
import GT.Lemmas.CP1
import GT.Lemmas.CP1Sets
import Mathlib.Tactic.NormNum

set_option linter.unusedSectionVars false
set_option linter.unusedVariables false
set_option linter.unusedSimpArgs false
namespace GT.C20
open GT GT.CP1 GT.CP1.Cx

/-! ## spherical and homogeneous coordinates are inverse to each other -/

section sphere
variable {K : Type*} [Field K] [LinearOrder K] [IsStrictOrderedRing K]

/-- `projective_to_spherical ∘ spherical_to_projective = id` on the unit sphere, both charts,
poles included (`z = 1` is the point at infinity `[0 : 2]`) -/
theorem spherical_projective_inverse (x y z : K) (h : x * x + y * y + z * z = 1) :
    p2s (s2p x y z).1 (s2p x y z).2 = (x, y, z) := by
  unfold s2p
  split_ifs with hz
  · -- chart 2: (x - iy, 1 + z)
    have hn : x * x + y * y + (1 + z) * (1 + z) = 2 * (1 + z) := by linear_combination h
    have h1 : (1 + z) ≠ 0 := by linarith
    have h2 : (2 : K) ≠ 0 := two_ne_zero
    simp only [p2s, normSq, conj_re, conj_im, ofReal_re, ofReal_im, mul_re, mul_im, inv_re, inv_im]
    have e : x * x + -y * -y + ((1 + z) * (1 + z) + 0 * 0) = 2 * (1 + z) := by linear_combination h
    simp only [e]
    refine Prod.ext ?_ (Prod.ext ?_ ?_)
    · simp; field_simp
    · simp; field_simp
    · simp; field_simp; linear_combination (-1 : K) * h
  · have h1 : (1 - z) ≠ 0 := by
      intro h0
      have hz1 : z = 1 := by linarith
      exact hz (by rw [hz1]; exact one_pos)
    have h2 : (2 : K) ≠ 0 := two_ne_zero
    simp only [p2s, normSq, conj_re, conj_im, ofReal_re, ofReal_im, mul_re, mul_im, inv_re, inv_im]
    have e : (1 - z) * (1 - z) + 0 * 0 + (x * x + y * y) = 2 * (1 - z) := by linear_combination h
    simp only [e]
    refine Prod.ext ?_ (Prod.ext ?_ ?_)
    · simp; field_simp
    · simp; field_simp
    · simp; field_simp; linear_combination h


theorem p2s_on_sphere (z0 z1 : Cx K) (h : z0 ≠ 0 ∨ z1 ≠ 0) :
    (p2s z0 z1).1 * (p2s z0 z1).1 + (p2s z0 z1).2.1 * (p2s z0 z1).2.1
      + (p2s z0 z1).2.2 * (p2s z0 z1).2.2 = 1 := by
  have hn := (normSq_pos_of z0 z1 h).ne'
  rw [p2s_eq z0 z1 hn]
  simp only
  have key : (2 * (z0.re * z1.re + z0.im * z1.im)) ^ 2 + (2 * (z0.re * z1.im - z0.im * z1.re)) ^ 2
      + (normSq z1 - normSq z0) ^ 2 = (normSq z0 + normSq z1) ^ 2 := by unfold normSq; ring
  generalize normSq z0 + normSq z1 = N at *
  field_simp
  linear_combination key

theorem projective_spherical_inverse (z0 z1 : Cx K) (h : z0 ≠ 0 ∨ z1 ≠ 0) :
    ∃ c : Cx K, c ≠ 0 ∧
      s2p (p2s z0 z1).1 (p2s z0 z1).2.1 (p2s z0 z1).2.2 = (c * z0, c * z1) := by
  have h0 := normSq_nonneg z0
  have h1 := normSq_nonneg z1
  have hn := normSq_pos_of z0 z1 h
  have hn' := hn.ne'
  rw [p2s_eq z0 z1 hn']
  unfold s2p
  simp only
  split_ifs with hz
  · have hz1 : normSq z1 ≠ 0 := by
      intro hc
      rw [hc] at hz
      have : (0 - normSq z0) / (normSq z0 + 0) ≤ 0 :=
        div_nonpos_of_nonpos_of_nonneg (by linarith) (by linarith)
      rw [hc] at hn
      simp at hz this
      linarith
    refine ⟨ofReal (2 / (normSq z0 + normSq z1)) * conj z1, ?_, ?_⟩
    · rw [cx_ne_zero_iff]
      intro hh
      apply hz1
      have : normSq (ofReal (2 / (normSq z0 + normSq z1)) * conj z1)
          = (2 / (normSq z0 + normSq z1)) ^ 2 * normSq z1 := by
        simp [normSq]; ring
      rw [this] at hh
      rcases mul_eq_zero.1 hh with h | h
      · exfalso; have : (2 : K) / (normSq z0 + normSq z1) ≠ 0 := by positivity
        exact this (by simpa using h)
      · exact h
    · generalize hN : normSq z0 + normSq z1 = N at *
      have hN' : z0.re * z0.re + z0.im * z0.im + (z1.re * z1.re + z1.im * z1.im) = N := hN
      refine Prod.ext (Cx.ext ?_ ?_) (Cx.ext ?_ ?_)
      · simp; field_simp; try ring
      · simp; field_simp; try ring
      · simp [normSq]; field_simp; linear_combination (-1:K) * hN'
      · simp; field_simp; try ring
  · have hz0 : normSq z0 ≠ 0 := by
      intro hc
      apply hz
      rw [hc]; simp
      have : 0 < normSq z1 := by rw [hc] at hn; linarith
      positivity
    refine ⟨ofReal (2 / (normSq z0 + normSq z1)) * conj z0, ?_, ?_⟩
    · rw [cx_ne_zero_iff]
      intro hh
      apply hz0
      have : normSq (ofReal (2 / (normSq z0 + normSq z1)) * conj z0)
          = (2 / (normSq z0 + normSq z1)) ^ 2 * normSq z0 := by
        simp [normSq]; ring
      rw [this] at hh
      rcases mul_eq_zero.1 hh with h | h
      · exfalso; have : (2 : K) / (normSq z0 + normSq z1) ≠ 0 := by positivity
        exact this (by simpa using h)
      · exact h
    · generalize hN : normSq z0 + normSq z1 = N at *
      have hN' : z0.re * z0.re + z0.im * z0.im + (z1.re * z1.re + z1.im * z1.im) = N := hN
      refine Prod.ext (Cx.ext ?_ ?_) (Cx.ext ?_ ?_)
      · simp [normSq]; field_simp; linear_combination (-1:K) * hN'
      · simp; field_simp; try ring
      · simp; field_simp; try ring
      · simp; field_simp; try ring

theorem spherical_stereographic (x y z : K) (h : x * x + y * y + z * z = 1) (hz : z ≠ 1) :
    affine (s2p x y z) = stereo x y z := by
  have h1 : 1 - z ≠ 0 := fun h0 => hz (by linarith)
  unfold s2p affine stereo
  split_ifs with hp
  · have hxy : x * x + y * y ≠ 0 := by
      have : x * x + y * y = (1 - z) * (1 + z) := by linear_combination h
      rw [this]; exact mul_ne_zero h1 (by linarith)
    have hxy2 : x ^ 2 + y ^ 2 ≠ 0 := by rw [sq, sq]; exact hxy
    have hxy3 : y ^ 2 + x ^ 2 ≠ 0 := by rw [add_comm]; exact hxy2
    apply Cx.ext
    · simp [normSq]; field_simp
      first | linear_combination (-x) * h | linear_combination x * h
    · simp [normSq]; field_simp
      first | linear_combination (-y) * h | linear_combination y * h
  · apply Cx.ext
    · simp [normSq]; field_simp
    · simp [normSq]; field_simp

end sphere

/-! ## a disk built from (centre, radius) reports that centre and radius -/

section disk
variable {K : Type*} [Field K] [LinearOrder K] [IsStrictOrderedRing K]

theorem disk_params (c u : K × K) (r : K) (hu : u.1 * u.1 + u.2 * u.2 = 1) (hr : r ≠ 0) :
    circleParams (diskPoints c u r) = (c, r * r) := by
  unfold circleParams diskPoints
  apply circleThrough_eq
  · simp only
    have : (c.1 - r * u.1 - (c.1 + r * u.1)) * (c.2 + r * u.1 - (c.2 + r * u.2))
        - (c.1 + r * -u.2 - (c.1 + r * u.1)) * (c.2 - r * u.2 - (c.2 + r * u.2))
        = -2 * (r * r) * (u.1 * u.1 + u.2 * u.2) := by ring
    rw [this, hu]; simp [hr]
  · unfold dist2; simp only; linear_combination (r * r) * hu
  · unfold dist2; simp only; linear_combination (r * r) * hu
  · unfold dist2; simp only; linear_combination (r * r) * hu

/-- REPAIRED constructor: a disk built from `(centre, r)` reports that centre and radius -/
theorem disk_params_repaired {ρ : K → K} (hρ : IsSqrt ρ) (c : K × K) (r : K) (hr : r ≠ 0) :
    circleParams (diskFromCentre ρ c r) = (c, r * r) :=
  disk_params c _ r (unitDir_unit hρ c) hr

/-- PINNED constructor (D9): the reported centre is the *normalised* centre -/
theorem disk_params_pinned {ρ : K → K} (hρ : IsSqrt ρ) (c : K × K) (r : K) (hr : r ≠ 0) :
    circleParams (diskFromCentrePinned ρ c r) = (unitDir ρ c, r * r) :=
  disk_params _ _ r (unitDir_unit hρ c) hr

/-- … which is the requested centre only when that already has modulus 1 -/
theorem disk_params_pinned_wrong {ρ : K → K} (hρ : IsSqrt ρ) (c : K × K) (r : K) (hr : r ≠ 0)
    (hc : c.1 * c.1 + c.2 * c.2 ≠ 1) :
    (circleParams (diskFromCentrePinned ρ c r)).1 ≠ c := by
  rw [disk_params_pinned hρ c r hr]
  intro h
  have := unitDir_unit hρ c
  simp only at h
  rw [h] at this
  exact hc this

theorem centreInside_repaired {ρ : K → K} (hρ : IsSqrt ρ) (c : K × K) (r : K) (hr : r ≠ 0) :
    centreInside (diskFromCentre ρ c r) = true := by
  unfold centreInside
  rw [disk_params_repaired hρ c r hr]
  simp [diskFromCentre, diskPoints]
  exact hr

end disk

/-! ## a disk built from a spherical centre and a Fubini–Study radius -/

section fs
variable {F : Type*} [Field F]

/-- under the QR contract (`q` orthogonal, `q0 * r00 = centre`, so `r00 = ±1` for a unit centre)
and `c2² + s2² = 1`, each of the three boundary points of the `"fs"` constructor lies on the unit
sphere at spherical angle `2·rad` from the centre (`⟨p, centre⟩ = cos(2 rad)`), i.e. at
Fubini–Study distance `rad`: the disk reports the requested centre and radius -/
theorem fs_disk_boundary (q0 q1 q2 ctr : V3 F) (r00 c2 s2 : F)
    (h00 : dot3 q0 q0 = 1) (h11 : dot3 q1 q1 = 1) (h22 : dot3 q2 q2 = 1)
    (h01 : dot3 q0 q1 = 0) (h02 : dot3 q0 q2 = 0) (h12 : dot3 q1 q2 = 0)
    (hr : r00 * r00 = 1) (hc : ctr = (r00 * q0.1, r00 * q0.2.1, r00 * q0.2.2))
    (hcs : c2 * c2 + s2 * s2 = 1) :
    let b := fsBoundary q0 q1 q2 r00 c2 s2
    (dot3 b.1 b.1 = 1 ∧ dot3 b.1 ctr = c2) ∧ (dot3 b.2.1 b.2.1 = 1 ∧ dot3 b.2.1 ctr = c2) ∧
    (dot3 b.2.2 b.2.2 = 1 ∧ dot3 b.2.2 ctr = c2) := by
  subst hc
  unfold dot3 at *
  simp only [fsBoundary, fsPoint]
  refine ⟨⟨?_, ?_⟩, ⟨?_, ?_⟩, ⟨?_, ?_⟩⟩
  · linear_combination (r00 * r00 * c2 * c2) * h00 + (r00 * r00 * s2 * s2) * h11
      + (2 * r00 * r00 * c2 * s2) * h01 + (c2 * c2 + s2 * s2) * hr + hcs
  · linear_combination (r00 * r00 * c2) * h00 + (r00 * r00 * s2) * h01 + c2 * hr
  · linear_combination (r00 * r00 * c2 * c2) * h00 + (r00 * r00 * s2 * s2) * h11
      - (2 * r00 * r00 * c2 * s2) * h01 + (c2 * c2 + s2 * s2) * hr + hcs
  · linear_combination (r00 * r00 * c2) * h00 - (r00 * r00 * s2) * h01 + c2 * hr
  · linear_combination (r00 * r00 * c2 * c2) * h00 + (r00 * r00 * s2 * s2) * h22
      + (2 * r00 * r00 * c2 * s2) * h02 + (c2 * c2 + s2 * s2) * hr + hcs
  · linear_combination (r00 * r00 * c2) * h00 + (r00 * r00 * s2) * h02 + c2 * hr

end fs

/-! ## Möbius maps, cross-ratio, inversion in the boundary circle -/

section mobius
variable {F : Type*} [Field F]

theorem crossRatio_mobius (M : M2 F) (hM : M.det ≠ 0) (p1 p2 p3 p4 : F × F) :
    crossRatio (act M p1) (act M p2) (act M p3) (act M p4) = crossRatio p1 p2 p3 p4 := by
  unfold crossRatio
  simp only [wedge_act]
  by_cases h : wedge p1 p4 * wedge p2 p3 = 0
  · have : M.det * wedge p1 p4 * (M.det * wedge p2 p3) = 0 := by
      have : M.det * wedge p1 p4 * (M.det * wedge p2 p3) = M.det * M.det * (wedge p1 p4 * wedge p2 p3) := by ring
      rw [this, h, mul_zero]
    rw [h, this, div_zero, div_zero]
  · have h1 : wedge p1 p4 ≠ 0 := left_ne_zero_of_mul h
    have h2 : wedge p2 p3 ≠ 0 := right_ne_zero_of_mul h
    field_simp

theorem crossRatio_smul (c1 c2 c3 c4 : F) (h1 : c1 ≠ 0) (h2 : c2 ≠ 0) (h3 : c3 ≠ 0) (h4 : c4 ≠ 0)
    (p1 p2 p3 p4 : F × F) :
    crossRatio (c1 * p1.1, c1 * p1.2) (c2 * p2.1, c2 * p2.2) (c3 * p3.1, c3 * p3.2) (c4 * p4.1, c4 * p4.2)
      = crossRatio p1 p2 p3 p4 := by
  unfold crossRatio wedge
  simp only
  by_cases h : (p1.1 * p4.2 - p1.2 * p4.1) * (p2.1 * p3.2 - p2.2 * p3.1) = 0
  · have e : (c1 * p1.1 * (c4 * p4.2) - c1 * p1.2 * (c4 * p4.1)) * (c2 * p2.1 * (c3 * p3.2) - c2 * p2.2 * (c3 * p3.1))
        = c1 * c2 * c3 * c4 * ((p1.1 * p4.2 - p1.2 * p4.1) * (p2.1 * p3.2 - p2.2 * p3.1)) := by ring
    rw [e, h]; simp
  · have h1' := left_ne_zero_of_mul h
    have h2' := right_ne_zero_of_mul h
    have e1 : c1 * p1.1 * (c4 * p4.2) - c1 * p1.2 * (c4 * p4.1) = c1 * c4 * (p1.1 * p4.2 - p1.2 * p4.1) := by ring
    have e2 : c2 * p2.1 * (c3 * p3.2) - c2 * p2.2 * (c3 * p3.1) = c2 * c3 * (p2.1 * p3.2 - p2.2 * p3.1) := by ring
    rw [e1, e2]
    field_simp

/-- the inversion in the boundary circle is an involution -/
theorem inversion_involution (B : M2 F) (hB : B.det ≠ 0) :
    (inversionM B).mul (inversionM B) = M2.one := by
  rw [inversionM_eq]
  calc (B.mul (J.mul B.inv)).mul (B.mul (J.mul B.inv))
      = B.mul (J.mul ((B.inv.mul B).mul (J.mul B.inv))) := by simp only [M2.mul_assoc']
    _ = B.mul ((J.mul J).mul B.inv) := by rw [M2.inv_mul_self B hB, M2.one_mul, M2.mul_assoc']
    _ = M2.one := by rw [J_mul_J, M2.one_mul, M2.mul_inv_self B hB]

/-- the square root taken by `to_standard_triple` cancels out of the inversion -/
theorem inversion_indep_root (p1 p2 : F × F) (ev : F) (hev : ev ≠ 0)
    (hdet : (M2.ofRows p1 p2).det ≠ 0) :
    inversionM (stdTriple p1 p2 ev) = (M2.ofRows p1 p2).inv.mul (J.mul (M2.ofRows p1 p2)) := by
  set P := M2.ofRows p1 p2 with hP
  have hPi : P.inv.det ≠ 0 := by
    have h1 := M2.det_mul P P.inv
    rw [M2.mul_inv_self P hdet] at h1
    intro h0; rw [h0, mul_zero] at h1
    simp [M2.one, M2.det] at h1
  have hDd : (⟨ev, 0, 0, 1 / ev⟩ : M2 F).det ≠ 0 := by simp [M2.det, hev]
  have hPii : P.inv.inv = P := by
    have h1 : P.inv.inv = (P.mul P.inv).mul P.inv.inv := by rw [M2.mul_inv_self P hdet, M2.one_mul]
    rw [h1, M2.mul_assoc', M2.mul_inv_self P.inv hPi, M2.mul_one]
  have hDJ : (⟨ev, 0, 0, 1 / ev⟩ : M2 F).mul (J.mul (⟨ev, 0, 0, 1 / ev⟩ : M2 F).inv) = J := by
    ext <;> simp [M2.mul, M2.inv, M2.det, J] <;> field_simp
  rw [inversionM_eq, stdTriple_eq, M2.inv_mul _ _ hPi hDd, hPii]
  calc (P.inv.mul ⟨ev, 0, 0, 1 / ev⟩).mul (J.mul ((⟨ev, 0, 0, 1 / ev⟩ : M2 F).inv.mul P))
      = P.inv.mul (((⟨ev, 0, 0, 1 / ev⟩ : M2 F).mul (J.mul (⟨ev, 0, 0, 1 / ev⟩ : M2 F).inv)).mul P) := by
        simp only [M2.mul_assoc']
    _ = _ := by rw [hDJ]


/-- taking the complement twice returns the original disk (exactly, in exact arithmetic) -/
theorem complement_involution (ev : F) (hev : ev ≠ 0) (d : (F × F) × (F × F) × (F × F) × (F × F))
    (hdet : (M2.ofRows d.1 d.2.1).det ≠ 0) :
    complement ev (complement ev d) = d := by
  obtain ⟨p1, p2, p3, q⟩ := d
  simp only [complement]
  have hS : (stdTriple p1 p2 ev).det ≠ 0 := by
    rw [stdTriple_eq, M2.det_mul]
    have h1 := M2.det_mul (M2.ofRows p1 p2) (M2.ofRows p1 p2).inv
    rw [M2.mul_inv_self _ hdet] at h1
    have hi : (M2.ofRows p1 p2).inv.det ≠ 0 := by
      intro h0; rw [h0, mul_zero] at h1; simp [M2.one, M2.det] at h1
    exact mul_ne_zero hi (by simp [M2.det, hev])
  rw [act_mul, inversion_involution _ hS, act_one]

theorem act_ofRows (p1 p2 v : F × F) :
    act (M2.ofRows p1 p2) v = (v.1 * p1.1 + v.2 * p2.1, v.1 * p1.2 + v.2 * p2.2) := rfl

theorem wedge_comb1 (p1 p2 : F × F) (s t : F) :
    wedge p1 (s * p1.1 + t * p2.1, s * p1.2 + t * p2.2) = t * wedge p1 p2 := by
  unfold wedge; ring

theorem wedge_comb2 (p1 p2 : F × F) (s t : F) :
    wedge p2 (s * p1.1 + t * p2.1, s * p1.2 + t * p2.2) = -s * wedge p1 p2 := by
  unfold wedge; ring

/-- in the coordinates of `to_standard_triple` the boundary circle is the real line and the
inversion is `z ↦ -z`: it negates the cross-ratio with the boundary triple.  Hence it maps the
boundary circle to itself (real stays real) and exchanges its two sides (the imaginary part of
the cross-ratio changes sign) — the complement's interior point lies on the other side. -/
theorem inversion_crossRatio_neg (p1 p2 p3 q : F × F) (ev : F) (hev : ev ≠ 0)
    (hdet : (M2.ofRows p1 p2).det ≠ 0) :
    crossRatio p1 p2 p3 (act (inversionM (stdTriple p1 p2 ev)) q) = -crossRatio p1 p2 p3 q := by
  rw [inversion_indep_root p1 p2 ev hev hdet]
  set P := M2.ofRows p1 p2 with hP
  set q' := act P.inv q with hq'
  have hq : q = act P q' := by rw [hq', act_mul, M2.inv_mul_self P hdet, act_one]
  have hinv : act (P.inv.mul (J.mul P)) q = act P (act J q') := by
    rw [hq', act_mul, act_mul]
  have hJ : act (J : M2 F) q' = (q'.1, -q'.2) := by
    unfold act J; ext <;> simp
  rw [hinv, hJ]
  conv_rhs => rw [hq]
  rw [hP, act_ofRows, act_ofRows]
  unfold crossRatio
  simp only [wedge_comb1, wedge_comb2]
  rw [neg_mul q'.2, neg_mul (q'.2 * wedge p1 p2), div_neg]

end mobius

/-! ## containment / intersection: the case analysis on which disks contain ∞ -/

section logic
variable {K : Type*} [Field K] [LinearOrder K] [IsStrictOrderedRing K]

/-- the boolean `contains` leaves for one pair equals the inequality on `(d, r₁, r₂)` written
out per case in `containsSpec` -/
theorem contains_table (sAff oAff : Bool) (d r1 r2 : K) :
    containsUnit sAff oAff (interactions d r1 r2) = true ↔ containsSpec sAff oAff d r1 r2 := by
  cases sAff <;> cases oAff <;>
    simp only [containsUnit, interactions, containsSpec, Bool.and_self, Bool.not_true, Bool.not_false,
      Bool.and_true, Bool.and_false, Bool.false_eq_true, if_true, if_false, decide_eq_true_eq,
      Bool.not_eq_true', decide_eq_false_iff_not, not_lt, iff_false, not_false_eq_true] <;>
    constructor <;> intro h <;> linarith

/-- as `contains_table`, for `intersects` (repaired masks) and `intersectsSpec` -/
theorem intersects_table (sAff oAff : Bool) (d r1 r2 : K) :
    intersectsUnit sAff oAff (interactions d r1 r2) = true ↔ intersectsSpec sAff oAff d r1 r2 := by
  cases sAff <;> cases oAff <;>
    simp only [intersectsUnit, interactions, intersectsSpec, Bool.and_self, Bool.not_true, Bool.not_false,
      Bool.and_true, Bool.and_false, Bool.false_eq_true, if_true, if_false, decide_eq_true_eq,
      Bool.not_eq_true', decide_eq_false_iff_not, not_lt, iff_true, not_false_eq_true]
  · constructor <;> intro h <;> linarith
  · constructor <;> intro h <;> linarith
  · constructor <;> intro h <;> linarith

/-! ### the case table is the set-theoretic answer -/

section sets
variable {d r1 r2 : K} {c1 c2 : K × K}

/-- `containsSpec` ⇒ (in general position) even the CLOSED disk `o` lies in the OPEN disk `s`,
and `∞ ∈ o ⇒ ∞ ∈ s` -/
theorem contains_sound (hd : IsDist d c1 c2) (h1 : 0 < r1) (h2 : 0 < r2) (hg : GenPos d r1 r2)
    (sAff oAff : Bool) (h : containsSpec sAff oAff d r1 r2) :
    (∀ z, memDisk oAff false c2 r2 z → memDisk sAff true c1 r1 z) ∧ (memInf oAff → memInf sAff) := by
  cases sAff <;> cases oAff <;> simp only [containsSpec] at h
  · -- both unbounded: ext₂ ⊆ ext₁ because disc₁ ⊆ disc₂
    refine ⟨fun z hz => ?_, fun _ => rfl⟩
    simp only [memDisk] at hz ⊢
    by_contra hc
    push_neg at hc
    have := closed_sub_open hd.symm h1.le h z (by unfold dist2; exact hc)
    unfold dist2 at this
    linarith
  · -- s unbounded, o bounded: disc₂ misses disc₁
    refine ⟨fun z hz => ?_, fun hi => by cases hi⟩
    simp only [memDisk] at hz ⊢
    by_contra hc
    push_neg at hc
    have hlt : r1 + r2 < d := lt_of_le_of_ne h hg.2.2
    exact closed_disjoint hd h1.le h2.le hlt z (by unfold dist2; exact hc) (by unfold dist2; exact hz)
  · refine ⟨fun z hz => ?_, fun hi => by cases hi⟩
    simp only [memDisk] at hz ⊢
    exact closed_sub_open hd h2.le h z (by unfold dist2; exact hz)

/-- `¬ containsSpec` ⇒ (in general position) not even the OPEN disk `o` lies in the CLOSED disk `s` -/
theorem contains_complete (hd : IsDist d c1 c2) (h1 : 0 < r1) (h2 : 0 < r2) (hg : GenPos d r1 r2)
    (sAff oAff : Bool) (h : ¬ containsSpec sAff oAff d r1 r2) :
    ¬ ((∀ z, memDisk oAff true c2 r2 z → memDisk sAff false c1 r1 z) ∧ (memInf oAff → memInf sAff)) := by
  rintro ⟨hz, hinf⟩
  cases sAff <;> cases oAff <;> simp only [containsSpec] at h
  · -- both unbounded: some point of disc₁ is outside disc₂
    have hlt : r2 < d + r1 := lt_of_le_of_ne (not_lt.1 h) (Ne.symm hg.2.1)
    obtain ⟨z, za, zb⟩ := open_not_sub hd.symm h2.le h1 hlt
    have := hz z (by simp only [memDisk]; unfold dist2 at zb; exact zb)
    simp only [memDisk] at this
    unfold dist2 at za
    linarith
  · have hlt : d < r1 + r2 := not_le.1 h
    obtain ⟨z, za, zb⟩ := open_meet hd h1 h2 hlt
    have := hz z (by simp only [memDisk]; unfold dist2 at zb; exact zb)
    simp only [memDisk] at this
    unfold dist2 at za
    linarith
  · -- a bounded disk does not contain ∞
    have := hinf rfl
    cases this
  · have hlt : r1 < d + r2 := lt_of_le_of_ne (not_lt.1 h) (Ne.symm hg.1)
    obtain ⟨z, za, zb⟩ := open_not_sub hd h1.le h2 hlt
    have := hz z (by simp only [memDisk]; unfold dist2 at za; exact za)
    simp only [memDisk] at this
    unfold dist2 at zb
    linarith

/-- `intersectsSpec` ⇒ (in general position) the OPEN disks share a point (finite, or `∞`) -/
theorem intersects_sound (hd : IsDist d c1 c2) (h1 : 0 < r1) (h2 : 0 < r2) (hg : GenPos d r1 r2)
    (sAff oAff : Bool) (h : intersectsSpec sAff oAff d r1 r2) :
    (∃ z, memDisk sAff true c1 r1 z ∧ memDisk oAff true c2 r2 z) ∨ (memInf sAff ∧ memInf oAff) := by
  cases sAff <;> cases oAff <;> simp only [intersectsSpec] at h
  · exact Or.inr ⟨rfl, rfl⟩
  · left
    have hlt : r1 < d + r2 := lt_of_le_of_ne (not_lt.1 h) (Ne.symm hg.1)
    obtain ⟨z, za, zb⟩ := open_not_sub hd h1.le h2 hlt
    exact ⟨z, by simp only [memDisk]; unfold dist2 at zb; exact zb,
      by simp only [memDisk]; unfold dist2 at za; exact za⟩
  · left
    have hlt : r2 < d + r1 := lt_of_le_of_ne (not_lt.1 h) (Ne.symm hg.2.1)
    obtain ⟨z, za, zb⟩ := open_not_sub hd.symm h2.le h1 hlt
    exact ⟨z, by simp only [memDisk]; unfold dist2 at za; exact za,
      by simp only [memDisk]; unfold dist2 at zb; exact zb⟩
  · left
    obtain ⟨z, za, zb⟩ := open_meet hd h1 h2 h
    exact ⟨z, by simp only [memDisk]; unfold dist2 at za; exact za,
      by simp only [memDisk]; unfold dist2 at zb; exact zb⟩

/-- `¬ intersectsSpec` ⇒ (in general position) not even the CLOSED disks share a point -/
theorem intersects_complete (hd : IsDist d c1 c2) (h1 : 0 < r1) (h2 : 0 < r2) (hg : GenPos d r1 r2)
    (sAff oAff : Bool) (h : ¬ intersectsSpec sAff oAff d r1 r2) :
    ¬ ((∃ z, memDisk sAff false c1 r1 z ∧ memDisk oAff false c2 r2 z) ∨ (memInf sAff ∧ memInf oAff)) := by
  rintro (⟨z, za, zb⟩ | ⟨ia, ib⟩)
  · cases sAff <;> cases oAff <;> simp only [intersectsSpec, not_not, not_true_eq_false] at h
    · simp only [memDisk] at za zb
      have := closed_sub_open hd h2.le h z (by unfold dist2; exact zb)
      unfold dist2 at this
      linarith
    · simp only [memDisk] at za zb
      have := closed_sub_open hd.symm h1.le h z (by unfold dist2; exact za)
      unfold dist2 at this
      linarith
    · simp only [memDisk] at za zb
      have hlt : r1 + r2 < d := lt_of_le_of_ne (not_lt.1 h) hg.2.2
      exact closed_disjoint hd h1.le h2.le hlt z (by unfold dist2; exact za) (by unfold dist2; exact zb)
  · cases sAff <;> cases oAff <;> simp only [intersectsSpec, not_not, not_true_eq_false] at h
    · cases ib
    · cases ia
    · cases ia

/-- **`contains` agrees with the set-theoretic answer** (one pair of disks in general position,
`d` the distance of the centres of the boundary circles): `True` ⇒ the closed disk `o` lies
inside the open disk `s`; `False` ⇒ the open disk `o` does not even lie in the closed disk `s` -/
theorem contains_logic (hd : IsDist d c1 c2) (h1 : 0 < r1) (h2 : 0 < r2) (hg : GenPos d r1 r2)
    (sAff oAff : Bool) :
    (containsUnit sAff oAff (interactions d r1 r2) = true →
      (∀ z, memDisk oAff false c2 r2 z → memDisk sAff true c1 r1 z) ∧ (memInf oAff → memInf sAff)) ∧
    (containsUnit sAff oAff (interactions d r1 r2) = false →
      ¬ ((∀ z, memDisk oAff true c2 r2 z → memDisk sAff false c1 r1 z) ∧ (memInf oAff → memInf sAff))) := by
  constructor
  · intro h
    exact contains_sound hd h1 h2 hg sAff oAff ((contains_table sAff oAff d r1 r2).1 h)
  · intro h
    apply contains_complete hd h1 h2 hg sAff oAff
    intro hs
    rw [(contains_table sAff oAff d r1 r2).2 hs] at h
    cases h

/-- **`intersects` (repaired) agrees with the set-theoretic answer** -/
theorem intersects_logic (hd : IsDist d c1 c2) (h1 : 0 < r1) (h2 : 0 < r2) (hg : GenPos d r1 r2)
    (sAff oAff : Bool) :
    (intersectsUnit sAff oAff (interactions d r1 r2) = true →
      (∃ z, memDisk sAff true c1 r1 z ∧ memDisk oAff true c2 r2 z) ∨ (memInf sAff ∧ memInf oAff)) ∧
    (intersectsUnit sAff oAff (interactions d r1 r2) = false →
      ¬ ((∃ z, memDisk sAff false c1 r1 z ∧ memDisk oAff false c2 r2 z) ∨ (memInf sAff ∧ memInf oAff))) := by
  constructor
  · intro h
    exact intersects_sound hd h1 h2 hg sAff oAff ((intersects_table sAff oAff d r1 r2).1 h)
  · intro h
    apply intersects_complete hd h1 h2 hg sAff oAff
    intro hs
    rw [(intersects_table sAff oAff d r1 r2).2 hs] at h
    cases h

end sets
end logic

theorem containsElem_eq (l : List Unit5) :
    containsElem (sAffs l) (oAffs l) (contains_ l) (containeds l) (intersects_ l)
      = .ok (l.map fun u => containsUnit u.1 u.2.1 (u.2.2.1, u.2.2.2.1, u.2.2.2.2)) := by
  unfold containsElem
  have hl : ∀ f : Unit5 → Bool, (l.map f).length = l.length := fun f => List.length_map _
  simp only [sAffs, oAffs, contains_, containeds, intersects_]
  rw [maskAssign_maskSelect _ _ _ (by simp [band, bnot]) (by simp [band, bnot])]
  simp only [bind, Except.bind]
  rw [maskAssign_maskSelect _ _ _ (by simp [band, bnot, putmask]) (by simp [band, bnot])]
  simp only [bind, Except.bind]
  rw [maskAssign_maskSelect _ _ _ (by simp [band, bnot, putmask]) (by simp [band, bnot])]
  congr 1
  clear hl
  induction l with
  | nil => rfl
  | cons u us ih =>
    obtain ⟨a, b, c, d, e⟩ := u
    simp only [List.map_cons, List.length_cons, List.replicate_succ, band, bnot, putmask,
      List.zipWith_cons_cons, List.zip_cons_cons] at ih ⊢
    rw [List.cons.injEq]
    refine ⟨?_, ih⟩
    cases a <;> cases b <;> simp [containsUnit]


/-- REPAIRED `intersects(other, "elementwise")` on arrays: every position gets the unit answer -/
theorem intersectsElem_eq (l : List Unit5) :
    intersectsElem (sAffs l) (oAffs l) (contains_ l) (containeds l) (intersects_ l)
      = .ok (l.map fun u => intersectsUnit u.1 u.2.1 (u.2.2.1, u.2.2.2.1, u.2.2.2.2)) := by
  unfold intersectsElem
  simp only [sAffs, oAffs, contains_, containeds, intersects_]
  rw [maskAssign_maskSelect _ _ _ (by simp [band, bnot]) (by simp [band, bnot])]
  simp only [bind, Except.bind]
  rw [maskAssign_maskSelect _ _ _ (by simp [band, bnot, putmask]) (by simp [band, bnot])]
  simp only [bind, Except.bind]
  rw [maskAssign_maskSelect _ _ _ (by simp [band, bnot, putmask]) (by simp [band, bnot])]
  congr 1
  induction l with
  | nil => rfl
  | cons u us ih =>
    obtain ⟨a, b, c, d, e⟩ := u
    simp only [List.map_cons, List.length_cons, List.replicate_succ, band, bnot, putmask,
      List.zipWith_cons_cons, List.zip_cons_cons] at ih ⊢
    rw [List.cons.injEq]
    refine ⟨?_, ih⟩
    cases a <;> cases b <;> simp [intersectsUnit]

/-- PINNED `intersects` (D9): for one bounded disk against one unbounded disk the third
assignment has no value to assign and NumPy raises; with two pairs it silently reads the
answer of the *other* pair -/
theorem intersectsElemPinned_wrong :
    intersectsElemPinned [true] [false] [false] [false] [true] = .error .valueError ∧
    intersectsElemPinned [true, false] [false, false] [false, false] [false, true] [true, true]
      = .ok [false, true] ∧
    intersectsElem [true, false] [false, false] [false, false] [false, true] [true, true]
      = .ok [true, true] := by decide

/-- `putmask` with the outer-product masks gives every pair `(i, j)` its unit answer -/
theorem containsPair_unit (s o : Bool) (t : Bool × Bool × Bool) :
    containsPair [s] [o] [t.1] [t.2.1] [t.2.2] = [containsUnit s o t] ∧
    intersectsPair [s] [o] [t.1] [t.2.1] [t.2.2] = [intersectsUnit s o t] := by
  obtain ⟨a, b, c⟩ := t
  cases s <;> cases o <;> cases a <;> cases b <;> cases c <;> decide

section side
variable {K : Type*} [Field K] [LinearOrder K] [IsStrictOrderedRing K]

/-- `q` lies on the circle through `p1, p2, p3` (cross-ratio real) -/
def OnCircle (p1 p2 p3 q : Cx K × Cx K) : Prop := (crossRatio p1 p2 p3 q).im = 0
/-- `q` and `q'` lie strictly on the same side of the circle through `p1, p2, p3` -/
def SameSide (p1 p2 p3 q q' : Cx K × Cx K) : Prop :=
  0 < (crossRatio p1 p2 p3 q).im * (crossRatio p1 p2 p3 q').im

/-- a Möbius map sends the boundary circle to the circle through the image triple and the
side of the interior point to the side of the image interior point -/
theorem mobius_concyclic (M : M2 (Cx K)) (hM : M.det ≠ 0) (p1 p2 p3 q q' : Cx K × Cx K) :
    (OnCircle (act M p1) (act M p2) (act M p3) (act M q) ↔ OnCircle p1 p2 p3 q) ∧
    (SameSide (act M p1) (act M p2) (act M p3) (act M q) (act M q') ↔ SameSide p1 p2 p3 q q') := by
  unfold OnCircle SameSide
  rw [crossRatio_mobius M hM, crossRatio_mobius M hM]
  exact ⟨Iff.rfl, Iff.rfl⟩

/-- the complement's interior point is on the other side of the same circle -/
theorem complement_other_side (p1 p2 p3 q : Cx K × Cx K) (ev : Cx K) (hev : ev ≠ 0)
    (hdet : (M2.ofRows p1 p2).det ≠ 0) (hq : ¬ OnCircle p1 p2 p3 q) :
    (crossRatio p1 p2 p3 (complement ev (p1, p2, p3, q)).2.2.2).im
      * (crossRatio p1 p2 p3 q).im < 0 := by
  simp only [complement]
  rw [inversion_crossRatio_neg p1 p2 p3 q ev hev hdet]
  unfold OnCircle at hq
  have : (-(crossRatio p1 p2 p3 q)).im = -(crossRatio p1 p2 p3 q).im := rfl
  rw [this]
  nlinarith [mul_self_pos.2 hq]

/-- **cross-ratio and Euclidean circle**: for finite points the imaginary part of the
cross-ratio is `-det · (|z4 - c|² - R)` over a positive quantity, where `(c, R)` is what
`circle_through(z1, z2, z3)` returns and `det` the determinant it divides by.  So the
cross-ratio is real exactly on that circle, and its sign separates inside from outside. -/
theorem crossRatio_im_circle (z1 z2 z3 z4 : Cx K)
    (hdet : (z2.re - z1.re) * (z3.im - z1.im) - (z3.re - z1.re) * (z2.im - z1.im) ≠ 0)
    (hden : normSq ((z4 - z1) * (z3 - z2)) ≠ 0) :
    (crossRatio (1, z1) (1, z2) (1, z3) (1, z4)).im * normSq ((z4 - z1) * (z3 - z2))
      = -((z2.re - z1.re) * (z3.im - z1.im) - (z3.re - z1.re) * (z2.im - z1.im))
        * (dist2 (z4.re, z4.im) (circleThrough (z1.re, z1.im) (z2.re, z2.im) (z3.re, z3.im)).1
           - (circleThrough (z1.re, z1.im) (z2.re, z2.im) (z3.re, z3.im)).2) := by
  have two : (2 : K) ≠ 0 := two_ne_zero
  unfold crossRatio wedge
  simp only [one_mul, mul_one]
  rw [div_eq_mul_inv]
  simp only [mul_im, mul_re, inv_re, inv_im, sub_re, sub_im]
  unfold dist2 circleThrough
  simp only
  generalize hD : (z2.re - z1.re) * (z3.im - z1.im) - (z3.re - z1.re) * (z2.im - z1.im) = D at *
  unfold normSq at hden ⊢
  simp only [mul_re, mul_im, sub_re, sub_im] at hden ⊢
  generalize hN : ((z4.re - z1.re) * (z3.re - z2.re) - (z4.im - z1.im) * (z3.im - z2.im)) * ((z4.re - z1.re) * (z3.re - z2.re) - (z4.im - z1.im) * (z3.im - z2.im)) + ((z4.re - z1.re) * (z3.im - z2.im) + (z4.im - z1.im) * (z3.re - z2.re)) * ((z4.re - z1.re) * (z3.im - z2.im) + (z4.im - z1.im) * (z3.re - z2.re)) = N at *
  field_simp
  rw [← hD]
  ring


/-- a finite point lies on `circle_through(z1, z2, z3)` iff its cross-ratio with the triple is real -/
theorem onCircle_iff (z1 z2 z3 z4 : Cx K)
    (hdet : (z2.re - z1.re) * (z3.im - z1.im) - (z3.re - z1.re) * (z2.im - z1.im) ≠ 0)
    (hden : normSq ((z4 - z1) * (z3 - z2)) ≠ 0) :
    OnCircle (1, z1) (1, z2) (1, z3) (1, z4) ↔
      dist2 (z4.re, z4.im) (circleThrough (z1.re, z1.im) (z2.re, z2.im) (z3.re, z3.im)).1
        = (circleThrough (z1.re, z1.im) (z2.re, z2.im) (z3.re, z3.im)).2 := by
  have h := crossRatio_im_circle z1 z2 z3 z4 hdet hden
  unfold OnCircle
  constructor
  · intro h0
    rw [h0, zero_mul] at h
    have := (mul_eq_zero.1 h.symm).resolve_left (neg_ne_zero.2 hdet)
    linarith
  · intro h0
    rw [h0, sub_self, mul_zero] at h
    exact (mul_eq_zero.1 h).resolve_right hden

/-- two finite points are on the same side of the boundary circle in the cross-ratio sense iff
they are both inside or both outside the Euclidean circle -/
theorem sameSide_iff (z1 z2 z3 q q' : Cx K)
    (hdet : (z2.re - z1.re) * (z3.im - z1.im) - (z3.re - z1.re) * (z2.im - z1.im) ≠ 0)
    (hden : normSq ((q - z1) * (z3 - z2)) ≠ 0) (hden' : normSq ((q' - z1) * (z3 - z2)) ≠ 0) :
    SameSide (1, z1) (1, z2) (1, z3) (1, q) (1, q') ↔
      0 < (dist2 (q.re, q.im) (circleThrough (z1.re, z1.im) (z2.re, z2.im) (z3.re, z3.im)).1
            - (circleThrough (z1.re, z1.im) (z2.re, z2.im) (z3.re, z3.im)).2)
        * (dist2 (q'.re, q'.im) (circleThrough (z1.re, z1.im) (z2.re, z2.im) (z3.re, z3.im)).1
            - (circleThrough (z1.re, z1.im) (z2.re, z2.im) (z3.re, z3.im)).2) := by
  have h := crossRatio_im_circle z1 z2 z3 q hdet hden
  have h' := crossRatio_im_circle z1 z2 z3 q' hdet hden'
  have hN : 0 < normSq ((q - z1) * (z3 - z2)) := lt_of_le_of_ne (normSq_nonneg _) (Ne.symm hden)
  have hN' : 0 < normSq ((q' - z1) * (z3 - z2)) := lt_of_le_of_ne (normSq_nonneg _) (Ne.symm hden')
  unfold SameSide
  generalize (crossRatio (1, z1) (1, z2) (1, z3) (1, q)).im = a at *
  generalize (crossRatio (1, z1) (1, z2) (1, z3) (1, q')).im = a' at *
  generalize normSq ((q - z1) * (z3 - z2)) = N at *
  generalize normSq ((q' - z1) * (z3 - z2)) = N' at *
  generalize (z2.re - z1.re) * (z3.im - z1.im) - (z3.re - z1.re) * (z2.im - z1.im) = D at *
  generalize dist2 (q.re, q.im) (circleThrough (z1.re, z1.im) (z2.re, z2.im) (z3.re, z3.im)).1
    - (circleThrough (z1.re, z1.im) (z2.re, z2.im) (z3.re, z3.im)).2 = S at *
  generalize dist2 (q'.re, q'.im) (circleThrough (z1.re, z1.im) (z2.re, z2.im) (z3.re, z3.im)).1
    - (circleThrough (z1.re, z1.im) (z2.re, z2.im) (z3.re, z3.im)).2 = S' at *
  have key : (a * a') * (N * N') = (D * D) * (S * S') := by
    calc (a * a') * (N * N') = (a * N) * (a' * N') := by ring
      _ = (-D * S) * (-D * S') := by rw [h, h']
      _ = _ := by ring
  have hNN : 0 < N * N' := mul_pos hN hN'
  have hDD : 0 < D * D := mul_self_pos.2 hdet
  constructor
  · intro ha
    have : 0 < (D * D) * (S * S') := by rw [← key]; exact mul_pos ha hNN
    exact (mul_pos_iff_of_pos_left hDD).1 this
  · intro hs
    have : 0 < (a * a') * (N * N') := by rw [key]; exact mul_pos hDD hs
    exact (mul_pos_iff_of_pos_right hNN).1 this

end side

/-! ## non-vacuity -/

/-- a point of the unit sphere in the second chart (`z > 0`) -/
example : ((2 : ℚ) / 3) * (2 / 3) + (1 / 3) * (1 / 3) + (2 / 3) * (2 / 3) = 1 ∧ (0 : ℚ) < 2 / 3 := by
  norm_num

/-- a unit direction and non-zero radius for `disk_params`; three non-collinear points -/
example : ((3 : ℚ) / 5) * (3 / 5) + (4 / 5) * (4 / 5) = 1 := by norm_num

/-- an invertible boundary pair for the inversion theorems -/
example : (M2.ofRows ((1 : ℚ), (2 : ℚ)) (1, -1)).det ≠ 0 := by
  simp [M2.det, M2.ofRows]; norm_num

/-- every bounded/unbounded combination occurs in the mask theorems -/
example : containsElem [true, false, false, true] [true, true, false, false]
    [true, false, false, false] [false, false, true, false] [true, false, true, true]
    = .ok [true, true, true, false] := by decide

/-- hypotheses of `contains_logic` / `intersects_logic`: centres `(0,0)`, `(3,4)` at distance 5,
radii 1 and 2, in general position -/
example : IsDist (5 : ℚ) (0, 0) (3, 4) ∧ GenPos (5 : ℚ) 1 2 := by
  refine ⟨⟨by norm_num, by simp [dist2]; norm_num⟩, ?_⟩
  simp [GenPos]; norm_num

/-! ## statements added after the model-mutant round (each pins a detail that no earlier theorem depended on) -/

/-- the pairwise tables are laid out row-major (`expand_dims(self, 1) & expand_dims(other, 0)`): a 2 × 2 instance whose
masks are not symmetric (the 1 × 1 statement `containsPair_unit` cannot see the layout) -/
theorem containsPair_2x2 :
    containsPair [true, false] [true, true] [true, false, true, true] [false, false, false, false]
      [true, true, false, true] = [true, false, true, false] ∧
    intersectsPair [true, false] [false, true] [false, false, true, false] [true, false, false, false]
      [false, true, false, false] = [false, true, true, true] := by decide

section added
variable {K : Type*} [Field K] [LinearOrder K] [IsStrictOrderedRing K]

/-- `Transformation.apply` on a disk moves all four stored points (three boundary points AND the interior point) by the
same matrix: the image disk is bounded by the image circle and lies on the side of the image interior point -/
theorem mobius_disk (M : M2 (Cx K)) (hM : M.det ≠ 0)
    (d : (Cx K × Cx K) × (Cx K × Cx K) × (Cx K × Cx K) × (Cx K × Cx K)) (q : Cx K × Cx K) :
    (OnCircle (actDisk M d).1 (actDisk M d).2.1 (actDisk M d).2.2.1 (act M q) ↔ OnCircle d.1 d.2.1 d.2.2.1 q) ∧
    (SameSide (actDisk M d).1 (actDisk M d).2.1 (actDisk M d).2.2.1 (actDisk M d).2.2.2 (act M q)
      ↔ SameSide d.1 d.2.1 d.2.2.1 d.2.2.2 q) := by
  obtain ⟨p1, p2, p3, i⟩ := d
  exact ⟨(mobius_concyclic M hM p1 p2 p3 q i).1, (mobius_concyclic M hM p1 p2 p3 i q).2⟩

/-- the chart of `spherical_to_projective` is chosen so that the homogeneous pair is never small:
`|z0|² + |z1|² = 2(1 + |z|) ≥ 2` (a chart test such as `z ≥ 1` would give pairs of norm² `2(1 − z)` near the pole) -/
theorem s2p_well_conditioned (x y z : K) (h : x * x + y * y + z * z = 1) :
    2 ≤ normSq (s2p x y z).1 + normSq (s2p x y z).2 := by
  unfold s2p
  split_ifs with hz
  · simp [normSq, conj, ofReal]; nlinarith
  · simp [normSq, conj, ofReal]; nlinarith

end added

/-- the three boundary points of the `"fs"` constructor are pairwise distinct (so they determine a circle) -/
theorem fs_disk_boundary_distinct {F : Type*} [Field F] (q0 q1 q2 : V3 F) (r00 c2 s2 : F)
    (h11 : dot3 q1 q1 = 1) (h22 : dot3 q2 q2 = 1) (h12 : dot3 q1 q2 = 0)
    (hr : r00 * r00 = 1) (hs : s2 ≠ 0) (h2 : (2 : F) ≠ 0) :
    (fsBoundary q0 q1 q2 r00 c2 s2).1 ≠ (fsBoundary q0 q1 q2 r00 c2 s2).2.1 ∧
    (fsBoundary q0 q1 q2 r00 c2 s2).1 ≠ (fsBoundary q0 q1 q2 r00 c2 s2).2.2 ∧
    (fsBoundary q0 q1 q2 r00 c2 s2).2.1 ≠ (fsBoundary q0 q1 q2 r00 c2 s2).2.2 := by
  have hr0 : r00 ≠ 0 := by intro h; rw [h] at hr; simp at hr
  obtain ⟨a0, a1, a2⟩ := q0
  obtain ⟨b0, b1, b2⟩ := q1
  obtain ⟨c0, c1, c2'⟩ := q2
  simp only [dot3] at h11 h22 h12
  simp only [fsBoundary, fsPoint]
  -- if two boundary points coincide, pairing the difference with q1 (resp. q1 ∓ q2) gives r00·s2·(non-zero) = 0
  refine ⟨?_, ?_, ?_⟩
  · intro h
    simp only [Prod.mk.injEq] at h
    obtain ⟨e0, e1, e2⟩ := h
    have : 2 * r00 * s2 * (b0 * b0 + b1 * b1 + b2 * b2) = 0 := by
      linear_combination b0 * e0 + b1 * e1 + b2 * e2
    rw [h11, mul_one] at this
    exact (mul_ne_zero (mul_ne_zero h2 hr0) hs) this
  · intro h
    simp only [Prod.mk.injEq] at h
    obtain ⟨e0, e1, e2⟩ := h
    have : r00 * s2 * ((b0 * b0 + b1 * b1 + b2 * b2) - (b0 * c0 + b1 * c1 + b2 * c2')) = 0 := by
      linear_combination b0 * e0 + b1 * e1 + b2 * e2
    rw [h11, h12, sub_zero, mul_one] at this
    exact (mul_ne_zero hr0 hs) this
  · intro h
    simp only [Prod.mk.injEq] at h
    obtain ⟨e0, e1, e2⟩ := h
    have : r00 * s2 * (-(b0 * b0 + b1 * b1 + b2 * b2) - (b0 * c0 + b1 * c1 + b2 * c2')) = 0 := by
      linear_combination b0 * e0 + b1 * e1 + b2 * e2
    rw [h11, h12, sub_zero, mul_neg, mul_one, neg_eq_zero] at this
    exact (mul_ne_zero hr0 hs) this

end GT.C20
