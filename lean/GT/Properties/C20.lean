/- property theorems for C20 (filled in below) -/
