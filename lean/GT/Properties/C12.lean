/-
C12 — results are independent of number packaging and of homogeneous rescaling.
Only property theorems and non-vacuity examples; helper lemmas are in `GT.Lemmas.Rescale`.
Models: `GT.Model.Dtype` (finite decision model of the dtype inference),
`GT.Model.Rescale` / `GT.Model.Charts` (field-generic formulas).
-/
import GT.Model.Dtype
import GT.Model.DtypeVal
import GT.Lemmas.Rescale
import GT.Properties.C01

open Finset BigOperators

set_option linter.unusedSectionVars false
set_option linter.unusedVariables false

namespace GT.C12
open GT GT.Dtype GT.Rescale

/-! ## packaging: the dtype decision table -/

/-- the repaired library never hands a caller's value to `np.can_cast`, so the NumPy major
version cannot influence any dtype decision -/
theorem repaired_major_independent (major : Nat) (e : Entry) (p : Pack) :
    entryDtype (Lib.repaired major) e p = entryDtype (Lib.repaired 2) e p := by
  cases e <;> cases p <;> rfl

/-- **real numeric input yields floating-point data**: every NumPy major version, every
real packaging (Python int/float, NumPy scalar, 0-d/1-d/2-d array, list, nested list),
every listed entry point that computes with the numbers.  The quantifier *is* the table. -/
theorem real_input_floating (major : Nat) (e : Entry) (p : Pack) (he : e.floating = true)
    (hp : p.isRealNumeric = true) :
    isOkWith Dt.isFloating (entryDtype (Lib.repaired major) e p) = true := by
  rw [repaired_major_independent]
  have h : ∀ e ∈ Entry.all, ∀ p ∈ Pack.all, e.floating = true → p.isRealNumeric = true →
      isOkWith Dt.isFloating (entryDtype (Lib.repaired 2) e p) = true := by decide +kernel
  exact h e (Entry.mem_all e) p (Pack.mem_all p) he hp

/-- the factories with `integer_type=True` and the constructors that store the caller's
numbers (`zeros`, `identity`, `Point(...)`, `Transformation(...)`) never produce generic
`object` data from real input, and produce floating-point data unless the packaging itself
carries an integer dtype (where the integer dtype is the documented, tested behaviour:
`testing/test_hyperbolic.py::test_get_origin`) -/
theorem real_input_never_object (major : Nat) (e : Entry) (p : Pack)
    (hp : p.isRealNumeric = true) :
    isOkWith Dt.isRealNumeric (entryDtype (Lib.repaired major) e p) = true ∧
    (p.isInteger = false → isOkWith Dt.isFloating (entryDtype (Lib.repaired major) e p) = true) := by
  rw [repaired_major_independent]
  have h : ∀ e ∈ Entry.all, ∀ p ∈ Pack.all, p.isRealNumeric = true →
      (isOkWith Dt.isRealNumeric (entryDtype (Lib.repaired 2) e p) = true ∧
       (p.isInteger = false → isOkWith Dt.isFloating (entryDtype (Lib.repaired 2) e p) = true)) := by
    decide +kernel
  exact h e (Entry.mem_all e) p (Pack.mem_all p) hp

/-- the dtype an entry point produces depends on the packaging only through the dtype NumPy
assigns to it (and, for bare Python objects, on their having no `.dtype`): two packagings
with the same probe get the same dtype -/
theorem dtype_depends_only_on_probe (major : Nat) (e : Entry) (p q : Pack)
    (h1 : p.dtypeAttr.isSome = q.dtypeAttr.isSome) (h2 : p.asarrayDtype = q.asarrayDtype)
    (hp : p.isRealNumeric = true) (hq : q.isRealNumeric = true) :
    entryDtype (Lib.repaired major) e p = entryDtype (Lib.repaired major) e q := by
  rw [repaired_major_independent major e p, repaired_major_independent major e q]
  have h : ∀ e ∈ Entry.all, ∀ p ∈ Pack.all, ∀ q ∈ Pack.all,
      p.dtypeAttr.isSome = q.dtypeAttr.isSome → p.asarrayDtype = q.asarrayDtype →
      p.isRealNumeric = true → q.isRealNumeric = true →
      entryDtype (Lib.repaired 2) e p = entryDtype (Lib.repaired 2) e q := by decide +kernel
  exact h e (Entry.mem_all e) p (Pack.mem_all p) q (Pack.mem_all q) h1 h2 hp hq

/-- defect D2, documented: with the ORIGINAL `utils/types.py` under NumPy ≥ 2 a Python float
is classified "not a linalg type" (`np.can_cast(0.3, …)` raises `TypeError`), so
`rotation_matrix(0.3)`, `standard_rotation(0.3)`, … are `object` arrays -/
theorem pinned_float_not_linalg :
    isLinalgTypePinned 2 .pyFloat = false ∧ isLinalgTypePinned 1 .pyFloat = true ∧
    entryDtype (Lib.pinned 2) .rotationMatrix .pyFloat = .ok .object ∧
    entryDtype (Lib.pinned 2) .standardRotation .pyFloat = .ok .object ∧
    entryDtype (Lib.pinned 2) .sl2Iso (.list .d2 .float) = .ok .object ∧
    entryDtype (Lib.pinned 2) .regularPolygon .pyFloat = .ok .object ∧
    entryDtype (Lib.pinned 2) .coxeterRep (.arr .r2 .int64) = .ok .object := by decide +kernel

/-- … hence the floating-point clause is FALSE of the pinned logic (witness: NumPy 2,
`standard_rotation(0.3)`) -/
theorem real_input_floating_pinned_false :
    ¬ ∀ (major : Nat) (e : Entry) (p : Pack), e.floating = true → p.isRealNumeric = true →
      isOkWith Dt.isFloating (entryDtype (Lib.pinned major) e p) = true := by
  intro h
  exact absurd (h 2 .standardRotation .pyFloat rfl rfl) (by decide +kernel)

/-- the repair restores what the pinned logic did under NumPy 1 for scalars and arrays -/
theorem repaired_eq_pinned_numpy1 (e : Entry) (p : Pack)
    (hp : (match p with | .list _ _ => false | .other => false | _ => true) = true) :
    entryDtype (Lib.repaired 1) e p = entryDtype (Lib.pinned 1) e p := by
  have h : ∀ e ∈ Entry.all, ∀ p ∈ Pack.all,
      (match p with | .list _ _ => false | .other => false | _ => true) = true →
      entryDtype (Lib.repaired 1) e p = entryDtype (Lib.pinned 1) e p := by decide +kernel
  exact h e (Entry.mem_all e) p (Pack.mem_all p) hp

/-- defects D16 / D17, documented: with `integer_type` left at its default the allocation
takes the integer dtype of the angle, and the cosines are truncated on assignment -/
theorem integer_call_sites_pinned (major : Nat) :
    fromAnglePinned (Lib.repaired major) .pyInt = .ok .int64 ∧
    fromAnglePinned (Lib.repaired major) (.list .d1 .int) = .ok .int64 ∧
    standardRotationPinned (Lib.repaired major) (.npScalar .int64) = .ok .int64 ∧
    standardRotationPinned (Lib.repaired major) (.arr .r0 .int64) = .ok .int64 := by
  refine ⟨rfl, rfl, rfl, rfl⟩

/-- **the value does not depend on the packaging**: for every real packaging `p` of the number
`v` (representable in float32 when a float32 dtype is involved: `f32 v = v`) every computing
entry point stores exactly `v` — in particular two packagings of the same number give the same
stored value, whatever their dtypes -/
theorem packaging_value_independent (f32 : ℚ → ℚ) (v : ℚ) (hv : f32 v = v) (major : Nat)
    (e : Entry) (he : e.floating = true) (p q : Pack) (hp : p.isRealNumeric = true)
    (hq : q.isRealNumeric = true) :
    (∃ dp, entryVal f32 (Lib.repaired major) e p v = .ok (dp, v)) ∧
    (∃ dq, entryVal f32 (Lib.repaired major) e q v = .ok (dq, v)) := by
  have key : ∀ p : Pack, p.isRealNumeric = true →
      ∃ d, entryVal f32 (Lib.repaired major) e p v = .ok (d, v) := by
    intro p hp
    have h := real_input_floating major e p he hp
    unfold entryVal
    cases hd : entryDtype (Lib.repaired major) e p with
    | error err => rw [hd] at h; simp [isOkWith] at h
    | ok d =>
      rw [hd] at h
      refine ⟨d, ?_⟩
      cases d <;> simp [isOkWith, Dt.isFloating] at h
      · simp [castVal, hv, bind, Except.bind, pure, Except.pure]
      · simp [castVal, bind, Except.bind, pure, Except.pure]
  exact ⟨key p hp, key q hq⟩

/-- `utils.array_like` in particular: the same number, whatever the packaging -/
theorem arrayLike_value (f32 : ℚ → ℚ) (v : ℚ) (hv : f32 v = v) (major : Nat) (p : Pack)
    (hp : p.isRealNumeric = true) :
    ∃ d, arrayLikeVal f32 (Lib.repaired major) p v = .ok (d, v) := by
  have h := (packaging_value_independent f32 v hv major .arrayLike rfl p p hp hp).1
  simpa [entryVal, arrayLikeVal, entryDtype] using h

/-- what D16 / D17 did to the numbers: written into the integer array the pinned call sites
allocated, a cosine `0 ≤ v < 1` is truncated to `0` -/
theorem integer_call_sites_truncate (f32 : ℚ → ℚ) (v : ℚ) (h0 : 0 ≤ v) (h1 : v < 1) :
    castVal f32 .int64 v = 0 := by
  simp only [castVal, if_pos h0]
  have : ⌊v⌋ = 0 := Int.floor_eq_iff.2 ⟨by simpa using h0, by simpa using h1⟩
  rw [this]; simp

/-! ## rescaling of homogeneous coordinates -/

section generic
variable {K : Type*} [Field K] [LinearOrder K] [IsStrictOrderedRing K] {n : ℕ} {r : K → K}

/-- affine (Klein) coordinates do not see the representative; any chart -/
theorem affineCoords_smul (k : Fin (n + 1)) (x : Fin (n + 1) → K) (c : K) (hc : c ≠ 0) :
    affineChart k (fun i => x i * c) = affineChart k x ∧ klein (fun i => x i * c) = klein x :=
  ⟨affineChart_smul' k x c hc, klein_smul x c hc⟩

/-- `cosh d` is unchanged by independent rescaling of both points, negative factors too -/
theorem coshDist_smul (hr : IsSqrt r) (x y : Fin (n + 1) → K) (a b : K) (ha : a ≠ 0) (hb : b ≠ 0)
    (hx : mink x x ≠ 0) (hy : mink y y ≠ 0) :
    coshDist r (fun i => x i * a) (fun i => y i * b) = coshDist r x y :=
  coshDist_smul_generic hr x y a b ha hb hx hy

/-- the two ideal endpoints of a segment, as an *unordered* pair of projective points, do not
depend on the representatives of the endpoints.  Hypotheses: the points are distinct points of
the closed ball (`0 < disc`) and neither pair of representatives has a lightlike difference
(`a ≠ 0`: the code divides by `2a`) -/
theorem segmentIdeal_smul (hr : IsSqrt r) (x₁ x₂ : Fin (n + 1) → K) (l₁ l₂ : K)
    (h1 : l₁ ≠ 0) (h2 : l₂ ≠ 0) (ha : segA x₁ x₂ ≠ 0)
    (ha' : segA (fun i => x₁ i * l₁) (fun i => x₂ i * l₂) ≠ 0) (hd : 0 < segDisc x₁ x₂) :
    ∃ c d : K, c ≠ 0 ∧ d ≠ 0 ∧
      ((segNull r 1 (fun i => x₁ i * l₁) (fun i => x₂ i * l₂) = (fun i => segNull r 1 x₁ x₂ i * c) ∧
        segNull r (-1) (fun i => x₁ i * l₁) (fun i => x₂ i * l₂) = (fun i => segNull r (-1) x₁ x₂ i * d)) ∨
       (segNull r 1 (fun i => x₁ i * l₁) (fun i => x₂ i * l₂) = (fun i => segNull r (-1) x₁ x₂ i * c) ∧
        segNull r (-1) (fun i => x₁ i * l₁) (fun i => x₂ i * l₂) = (fun i => segNull r 1 x₁ x₂ i * d))) := by
  obtain ⟨t₁, E₁, ht₁, hE₁, hE₁def, hμ₁, hN₁⟩ :=
    segNull_smul_aux hr x₁ x₂ l₁ l₂ h1 h2 ha ha' hd 1 (by ring)
  obtain ⟨t₂, E₂, ht₂, hE₂, hE₂def, hμ₂, hN₂⟩ :=
    segNull_smul_aux hr x₁ x₂ l₁ l₂ h1 h2 ha ha' hd (-1) (by ring)
  have hne : t₁ ≠ t₂ := by
    intro h
    rw [h] at hμ₁
    rw [hE₁def] at hμ₁ hE₁
    rw [hE₂def] at hμ₂ hE₂
    have hpq := param_inj h1 h2 hE₁ hE₂ (hμ₁.trans hμ₂.symm)
    -- the two roots of the rescaled quadratic differ because its discriminant is positive
    have hd' : 0 < segDisc (fun i => x₁ i * l₁) (fun i => x₂ i * l₂) := by
      rw [segDisc_smul]
      exact mul_pos (lt_of_le_of_ne (sq_nonneg _) (pow_ne_zero 2 (mul_ne_zero h1 h2)).symm) hd
    have hρ := hr.pos hd'
    unfold segMu at hpq
    have h2a : (2 : K) * segA (fun i => x₁ i * l₁) (fun i => x₂ i * l₂) ≠ 0 :=
      mul_ne_zero two_ne_zero ha'
    rw [div_left_inj' h2a] at hpq
    linarith
  rcases ht₁ with rfl | rfl <;> rcases ht₂ with rfl | rfl
  · exact absurd rfl hne
  · exact ⟨E₁, E₂, hE₁, hE₂, Or.inl ⟨hN₁, hN₂⟩⟩
  · exact ⟨E₁, E₂, hE₁, hE₂, Or.inr ⟨hN₁, hN₂⟩⟩
  · exact absurd rfl hne

/-- **the hypothesis `a ≠ 0` of `segmentIdeal_smul` cannot be dropped** (known finding
`C12-segment-a-zero`).  For the valid segment from `x₁ = (2,1,0)` to `x₂ = (3,1,1)` (both
timelike, distinct: `0 < disc`) the difference of the representatives is lightlike, `a = 0`;
the code's `(-b ± √disc) / (2a)` divides by zero (NumPy: NaN; in the model `x / 0 = 0`, so both
"null vectors" collapse to `x₂`, which is timelike, not null — whatever the root function).
The same two points with the representative `2·x₁` have `a ≠ 0`: rescaling `x₁` by `1/2` turns a
well-behaved input into this one. -/
theorem segment_a_zero_witness (r : ℚ → ℚ) (s : ℚ) :
    mink (![2, 1, 0] : Fin 3 → ℚ) ![2, 1, 0] < 0 ∧ mink (![3, 1, 1] : Fin 3 → ℚ) ![3, 1, 1] < 0 ∧
    0 < segDisc (![2, 1, 0] : Fin 3 → ℚ) ![3, 1, 1] ∧
    segA (![2, 1, 0] : Fin 3 → ℚ) ![3, 1, 1] = 0 ∧
    segNull r s (![2, 1, 0] : Fin 3 → ℚ) ![3, 1, 1] = ![3, 1, 1] ∧
    mink (segNull r s (![2, 1, 0] : Fin 3 → ℚ) ![3, 1, 1]) (segNull r s ![2, 1, 0] ![3, 1, 1]) ≠ 0 ∧
    segA (fun i => (![4, 2, 0] : Fin 3 → ℚ) i * 1) (fun i => (![3, 1, 1] : Fin 3 → ℚ) i * 1) ≠ 0 ∧
    segA (fun i => (![4, 2, 0] : Fin 3 → ℚ) i * (1 / 2)) (fun i => (![3, 1, 1] : Fin 3 → ℚ) i * 1) = 0 := by
  have hA : segA (![2, 1, 0] : Fin 3 → ℚ) ![3, 1, 1] = 0 := by
    simp [segA, mink, dot, Fin.sum_univ_succ, Fin.tail]; norm_num
  have hN : segNull r s (![2, 1, 0] : Fin 3 → ℚ) ![3, 1, 1] = ![3, 1, 1] := by
    funext i
    simp only [segNull, lineComb, segMu, hA, mul_zero, div_zero, zero_mul, sub_zero, one_mul, zero_add]
  refine ⟨?_, ?_, ?_, hA, hN, ?_, ?_, ?_⟩
  · simp [mink, dot, Fin.sum_univ_succ, Fin.tail]; norm_num
  · simp [mink, dot, Fin.sum_univ_succ, Fin.tail]; norm_num
  · simp [segDisc, segA, segB, segC, mink, dot, Fin.sum_univ_succ, Fin.tail]; norm_num
  · rw [hN]; simp [mink, dot, Fin.sum_univ_succ, Fin.tail]; norm_num
  · simp [segA, mink, dot, Fin.sum_univ_succ, Fin.tail]; norm_num
  · simp [segA, mink, dot, Fin.sum_univ_succ, Fin.tail]; norm_num

/-- centre and radius of the Poincaré circle carrying a geodesic are functions of the
*projective* ideal endpoints, symmetric in the two (so the unordered pair above suffices) -/
theorem circleParams_smul (N₁ N₂ : Fin (n + 1) → K) (c d : K) (hc : c ≠ 0) (hd : d ≠ 0) :
    circleCentre r (fun i => N₁ i * c) (fun i => N₂ i * d) = circleCentre r N₁ N₂ ∧
    circleRadius r (fun i => N₁ i * c) (fun i => N₂ i * d) = circleRadius r N₁ N₂ ∧
    circleCentre r N₂ N₁ = circleCentre r N₁ N₂ ∧ circleRadius r N₂ N₁ = circleRadius r N₁ N₂ := by
  have hm : poincareMid r (fun i => N₁ i * c) (fun i => N₂ i * d) = poincareMid r N₁ N₂ := by
    unfold poincareMid; rw [klein_smul N₁ c hc, klein_smul N₂ d hd]
  have hs : poincareMid r N₂ N₁ = poincareMid r N₁ N₂ := by
    unfold poincareMid; congr 1; funext i; ring
  refine ⟨?_, ?_, ?_, ?_⟩
  · unfold circleCentre; rw [hm]
  · unfold circleRadius; rw [hm]
  · unfold circleCentre; rw [hs]
  · unfold circleRadius; rw [hs]

/-- the reflection in a non-null vector does not depend on its scale -/
theorem reflect_smul (v x : Fin (n + 1) → K) (c : K) (hc : c ≠ 0) :
    reflectIn (fun i => v i * c) x = reflectIn v x := by
  funext i; unfold reflectIn
  rw [mink_smul_left, mink_smul_right, mink_smul_right]
  by_cases h : mink v v = 0
  · simp [h]
  · field_simp

/-- `Subspace.reflection_across`: rescaling the rows of the matrix `D` (dual vector and ideal
basis, each by its own non-zero factor) leaves `D⁻¹ · diag(-1,1,…,1) · D` unchanged -/
theorem reflectionAcross_smul (D : Matrix (Fin (n + 1)) (Fin (n + 1)) K) (l : Fin (n + 1) → K)
    (hl : ∀ i, l i ≠ 0) :
    reflectionAcross (Matrix.diagonal l * D) = reflectionAcross D := by
  unfold reflectionAcross
  have hLinv : (Matrix.diagonal l)⁻¹ = Matrix.diagonal (fun i => (l i)⁻¹) := by
    apply Matrix.inv_eq_right_inv
    rw [Matrix.diagonal_mul_diagonal]
    have : (fun i => l i * (l i)⁻¹) = fun _ => (1 : K) := by
      funext i; exact mul_inv_cancel₀ (hl i)
    rw [this, Matrix.diagonal_one]
  rw [Matrix.mul_inv_rev, hLinv]
  have hcomm : Matrix.diagonal (fun i => (l i)⁻¹)
      * Matrix.diagonal (fun i => if i = 0 then (-1 : K) else 1)
      * Matrix.diagonal l = Matrix.diagonal (fun i => if i = 0 then (-1 : K) else 1) := by
    rw [Matrix.diagonal_mul_diagonal, Matrix.diagonal_mul_diagonal]
    congr 1; funext i
    have := hl i
    field_simp
  calc D⁻¹ * Matrix.diagonal (fun i => (l i)⁻¹)
        * Matrix.diagonal (fun i => if i = 0 then (-1 : K) else 1) * (Matrix.diagonal l * D)
      = D⁻¹ * (Matrix.diagonal (fun i => (l i)⁻¹)
        * Matrix.diagonal (fun i => if i = 0 then (-1 : K) else 1) * Matrix.diagonal l) * D := by
        simp only [Matrix.mul_assoc]
    _ = _ := by rw [hcomm]

/-- row 0 of `origin_to()` is the normalised representative: rescaling multiplies it by the
sign of the factor, so it is the same projective point (and `origin_to` the same projective
map on the origin) -/
theorem originTo_row0_smul (hr : IsSqrt r) (x : Fin (n + 1) → K) (c : K) (hc : c ≠ 0)
    (hx : mink x x ≠ 0) :
    normalize r (fun i => x i * c) = (fun i => normalize r x i * (c / |c|)) ∧
    klein (normalize r (fun i => x i * c)) = klein (normalize r x) := by
  have h := normalize_smul hr x c hc hx
  refine ⟨h, ?_⟩
  rw [h]; exact klein_smul _ _ (div_ne_zero hc (abs_ne_zero.2 hc))

/-- images under transformations: rescaling the point and the matrix rescales the image -/
theorem apply_smul (M : Matrix (Fin (n + 1)) (Fin (n + 1)) K) (x : Fin (n + 1) → K) (c d : K)
    (hc : c ≠ 0) (hd : d ≠ 0) :
    applyT (d • M) (fun i => x i * c) = (fun i => applyT M x i * (c * d)) ∧
    klein (applyT (d • M) (fun i => x i * c)) = klein (applyT M x) := by
  have h : applyT (d • M) (fun i => x i * c) = fun i => applyT M x i * (c * d) := by
    funext i; unfold applyT Matrix.vecMul dotProduct
    simp only [Matrix.smul_apply, smul_eq_mul]
    rw [Finset.sum_mul]; exact Finset.sum_congr rfl fun j _ => by ring
  exact ⟨h, by rw [h]; exact klein_smul _ _ (mul_ne_zero hc hd)⟩

/-- **repaired** `unit_tangent_towards`: rescaling `other` by any non-zero factor changes
nothing; rescaling `self` by `a` multiplies the unit tangent vector by `sign a` — together with
the base point, which is the same tangent vector of hyperbolic space (`(x, v) ~ (-x, -v)`) -/
theorem unitTangentTowards_smul (hr : IsSqrt r) (x y : Fin (n + 1) → K) (a b : K) (ha : a ≠ 0)
    (hb : b ≠ 0) (hx : mink x x ≠ 0) (hxy : mink x y ≠ 0)
    (hv : mink (tangentTowards x y) (tangentTowards x y) ≠ 0) :
    unitTangentTowards r (fun i => x i * a) (fun i => y i * b)
      = fun i => unitTangentTowards r x y i * (a / |a|) := by
  unfold unitTangentTowards
  rw [tangentTowards_smul x y a b ha hb hx hxy]
  have hc : |b| * (a / |a|) ≠ 0 :=
    mul_ne_zero (abs_ne_zero.2 hb) (div_ne_zero ha (abs_ne_zero.2 ha))
  rw [normalize_smul hr _ _ hc hv]
  funext i
  have : |b| * (a / |a|) / abs (|b| * (a / |a|)) = a / |a| := by
    rw [abs_mul, abs_abs, abs_div_abs_self ha]
    have := abs_ne_zero.2 hb
    field_simp
  rw [this]

/-- … hence the point reached along the tangent direction is the same projective point -/
theorem pointAlong_smul (hr : IsSqrt r) (x y : Fin (n + 1) → K) (a b t : K) (ha : a ≠ 0)
    (hb : b ≠ 0) (hx : mink x x ≠ 0) (hxy : mink x y ≠ 0)
    (hv : mink (tangentTowards x y) (tangentTowards x y) ≠ 0)
    (hu : mink (unitTangentTowards r x y) (unitTangentTowards r x y) ≠ 0) :
    klein (pointAlong r (fun i => x i * a)
        (unitTangentTowards r (fun i => x i * a) (fun i => y i * b)) t)
      = klein (pointAlong r x (unitTangentTowards r x y) t) := by
  have hs : a / |a| ≠ 0 := div_ne_zero ha (abs_ne_zero.2 ha)
  have e : pointAlong r (fun i => x i * a)
      (unitTangentTowards r (fun i => x i * a) (fun i => y i * b)) t
      = fun i => pointAlong r x (unitTangentTowards r x y) t i * (a / |a|) := by
    unfold pointAlong
    rw [unitTangentTowards_smul hr x y a b ha hb hx hxy hv, normalize_smul hr x a ha hx,
      normalize_smul hr _ _ hs hu]
    funext i
    have : a / |a| / abs (a / |a|) = a / |a| := by rw [abs_div_abs_self ha, div_one]
    rw [this]; ring
  rw [e]; exact klein_smul _ _ hs

/-- the **pinned** formula (`other.proj_data - self.proj_data`) follows the sign of `other`'s
representative: the unit tangent is multiplied by `sign b` — it reverses for `b < 0` (D7) -/
theorem unitTangentTowardsPinned_smul (hr : IsSqrt r) (x y : Fin (n + 1) → K) (b : K)
    (hb : b ≠ 0) (hx : mink x x ≠ 0)
    (hv : mink (tangentTowardsPinned x y) (tangentTowardsPinned x y) ≠ 0) :
    unitTangentTowardsPinned r x (fun i => y i * b)
      = fun i => unitTangentTowardsPinned r x y i * (b / |b|) := by
  unfold unitTangentTowardsPinned
  have e : tangentTowardsPinned x (fun i => y i * b) = fun i => tangentTowardsPinned x y i * b := by
    rw [tangentTowardsPinned_eq _ _ hx, tangentTowardsPinned_eq _ _ hx]
    have := projHyp_smul x y 1 b one_ne_zero hx
    simpa using this
  rw [e, normalize_smul hr _ b hb hv]

end generic

/-! ## over ℝ -/

/-- distance is projectively well defined (C01, reused) -/
theorem dist_smul {n : ℕ} (x y : Fin (n + 1) → ℝ) (a b : ℝ) (ha : a ≠ 0) (hb : b ≠ 0)
    (hx : mink x x < 0) (hy : mink y y < 0) :
    C01.hdist (fun i => x i * a) (fun i => y i * b) = C01.hdist x y :=
  C01.hdist_smul x y a b ha hb hx hy

/-- the rescaling clause is FALSE of the pinned `unit_tangent_towards`: at `x = (1,0,0)`,
`y = (2,1,0)` the unit tangent towards `-y` is `(0,-1,0)`, towards `y` it is `(0,1,0)` -/
theorem unitTangentTowardsPinned_not_invariant :
    ∃ (x y : Fin 3 → ℝ) (b : ℝ), b ≠ 0 ∧ mink x x < 0 ∧ mink y y < 0 ∧
      unitTangentTowardsPinned Real.sqrt x (fun i => y i * b)
        ≠ unitTangentTowardsPinned Real.sqrt x y := by
  refine ⟨![1, 0, 0], ![2, 1, 0], -1, by norm_num, ?_, ?_, ?_⟩
  · simp [mink, dot, Fin.sum_univ_succ, Fin.tail]
  · simp [mink, dot, Fin.sum_univ_succ, Fin.tail]; norm_num
  · have hx : mink (![1, 0, 0] : Fin 3 → ℝ) ![1, 0, 0] ≠ 0 := by
      simp [mink, dot, Fin.sum_univ_succ, Fin.tail]
    have hP : tangentTowardsPinned (![1, 0, 0] : Fin 3 → ℝ) ![2, 1, 0] = ![0, 1, 0] := by
      rw [tangentTowardsPinned_eq _ _ hx]
      funext i; fin_cases i <;>
        simp [projHyp, mproj, mink, dot, Fin.sum_univ_succ, Fin.tail]
    have hv : mink (tangentTowardsPinned (![1, 0, 0] : Fin 3 → ℝ) ![2, 1, 0])
        (tangentTowardsPinned (![1, 0, 0] : Fin 3 → ℝ) ![2, 1, 0]) ≠ 0 := by
      rw [hP]; simp [mink, dot, Fin.sum_univ_succ, Fin.tail]
    rw [unitTangentTowardsPinned_smul C01.isSqrt_real _ _ (-1) (by norm_num) hx hv]
    intro h
    have h1 := congrFun h 1
    have hn : unitTangentTowardsPinned Real.sqrt (![1, 0, 0] : Fin 3 → ℝ) ![2, 1, 0] 1 = 1 := by
      unfold unitTangentTowardsPinned normalize
      rw [hP]
      simp [mink, dot, Fin.sum_univ_succ, Fin.tail]
    rw [hn] at h1
    norm_num at h1

/-! ## non-vacuity -/

/-- a real packaging and a floating entry point -/
example : Entry.standardRotation.floating = true ∧ (Pack.npScalar .int64).isRealNumeric = true :=
  ⟨rfl, rfl⟩

/-- two distinct interior points with `a ≠ 0`, `0 < disc`, rescaled by factors of opposite sign -/
example : segA (![2, 1, 0] : Fin 3 → ℚ) ![3, 0, 1] ≠ 0 ∧ 0 < segDisc (![2, 1, 0] : Fin 3 → ℚ) ![3, 0, 1]
    ∧ segA (fun i => (![2, 1, 0] : Fin 3 → ℚ) i * (-2)) (fun i => (![3, 0, 1] : Fin 3 → ℚ) i * 3) ≠ 0 := by
  simp [segA, segDisc, segB, segC, mink, dot, Fin.sum_univ_succ, Fin.tail]; norm_num

/-- hypotheses of `unitTangentTowards_smul`: timelike base point, non-orthogonal target,
non-null tangent -/
example : mink (![1, 0, 0] : Fin 3 → ℚ) ![1, 0, 0] ≠ 0 ∧ mink (![1, 0, 0] : Fin 3 → ℚ) ![2, 1, 0] ≠ 0 := by
  simp [mink, dot, Fin.sum_univ_succ, Fin.tail]

/-! ## statements added after the model-mutant round -/

/-- what D16 / D17 did to EVERY cosine or sine of absolute value below one, negative ones included: writing it into an integer
array truncates it towards zero (a floor would store `−1` for `cos 2 ≈ −0.416`) -/
theorem integer_call_sites_truncate' (f32 : ℚ → ℚ) (v : ℚ) (h0 : -1 < v) (h1 : v < 1) :
    castVal f32 .int64 v = 0 := by
  simp only [castVal]
  split_ifs with h
  · have : ⌊v⌋ = 0 := Int.floor_eq_iff.2 ⟨by simpa using h, by simpa using h1⟩
    rw [this]; simp
  · have : ⌈v⌉ = 0 := Int.ceil_eq_iff.2 ⟨by simpa using h0, by push_neg at h; simpa using h.le⟩
    rw [this]; simp

/-- truncation towards zero is odd -/
theorem castVal_int64_neg (f32 : ℚ → ℚ) (v : ℚ) : castVal f32 .int64 (-v) = - castVal f32 .int64 v := by
  simp only [castVal]
  rcases lt_trichotomy v 0 with h | h | h
  · rw [if_pos (by linarith : (0 : ℚ) ≤ -v), if_neg (by linarith : ¬ (0 : ℚ) ≤ v), Int.floor_neg]; push_cast; ring
  · subst h; simp
  · rw [if_neg (by linarith : ¬ (0 : ℚ) ≤ -v), if_pos h.le, Int.ceil_neg]; push_cast; ring

end GT.C12
