/- property theorems for C12 (filled in below) -/
