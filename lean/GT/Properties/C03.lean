/-
C03 — applying transformations is a left group action on every kind of object.
Unit level (`GT.Model.Action`): the laws hold for the primary, auxiliary and dual blocks
alike because all three are multiplied by the same matrix; the composite level is obtained
from C04's `matrixProduct` theorems (`GT.Lemmas.Obj`), for every composite rank.
Only property theorems and non-vacuity examples here.
-/
import GT.Model.Action
import GT.Model.Units
import GT.Lemmas.Action
import GT.Lemmas.Obj
import GT.Lemmas.Units
import Mathlib.LinearAlgebra.Matrix.Determinant.Basic
import Mathlib.Algebra.Field.Rat
import Mathlib.Tactic.FinCases

set_option linter.unusedSectionVars false
set_option linter.unusedSimpArgs false
set_option linter.unusedVariables false

open Matrix

namespace GT.C03
open GT GT.Act GT.Act.ND

variable {K : Type} [Field K] {n k : ℕ}

/-! ## the action laws on one unit (point rows, rank-2 units, each matrix of a rank-3 aux unit) -/

/-- the library's composition convention: `(A @ B).matrix = B.matrix · A.matrix` -/
theorem compose_matrix (A B : Matrix (Fin n) (Fin n) K) : compose A B = B * A := rfl

/-- `(A @ B) @ x = A @ (B @ x)` on a point -/
theorem apply_comp_row (A B : Matrix (Fin n) (Fin n) K) (x : Fin n → K) :
    actRow (compose A B) x = actRow A (actRow B x) := by
  simp [actRow, compose, actMat, Matrix.vecMul_vecMul]

/-- `(A @ B) @ X = A @ (B @ X)` on a unit of rank 2 (primary data of pairs, segments, geodesics,
polygons, simplices, tangent vectors, horospheres, hyperplanes, subspaces, transformations;
auxiliary data of segments and tangent vectors; every edge of a polygon's auxiliary data) -/
theorem apply_comp_mat (A B : Matrix (Fin n) (Fin n) K) (X : Matrix (Fin k) (Fin n) K) :
    actMat (compose A B) X = actMat A (actMat B X) := by
  simp [actMat, compose, Matrix.mul_assoc]

theorem apply_one_row (x : Fin n → K) : actRow 1 x = x := by simp [actRow]
theorem apply_one_mat (X : Matrix (Fin k) (Fin n) K) : actMat 1 X = X := by simp [actMat]

/-- `A.inv() @ (A @ x) = x` for invertible `A` (`utils.invert` = `A⁻¹`) -/
theorem apply_inv_cancel_row (A : Matrix (Fin n) (Fin n) K) (hA : A.det ≠ 0) (x : Fin n → K) :
    actRow A⁻¹ (actRow A x) = x := by
  have : IsUnit A.det := isUnit_iff_ne_zero.2 hA
  simp [actRow, Matrix.vecMul_vecMul, Matrix.mul_nonsing_inv _ this]

theorem apply_inv_cancel_mat (A : Matrix (Fin n) (Fin n) K) (hA : A.det ≠ 0)
    (X : Matrix (Fin k) (Fin n) K) : actMat A⁻¹ (actMat A X) = X := by
  have : IsUnit A.det := isUnit_iff_ne_zero.2 hA
  simp [actMat, Matrix.mul_assoc, Matrix.mul_nonsing_inv _ this]

/-- … and the other way round: `A @ (A.inv() @ X) = X` -/
theorem inv_apply_cancel_mat (A : Matrix (Fin n) (Fin n) K) (hA : A.det ≠ 0)
    (X : Matrix (Fin k) (Fin n) K) : actMat A (actMat A⁻¹ X) = X := by
  have : IsUnit A.det := isUnit_iff_ne_zero.2 hA
  simp [actMat, Matrix.mul_assoc, Matrix.nonsing_inv_mul _ this]

/-- `A.inv()` composed with `A` is the identity transformation, on both sides -/
theorem compose_inv (A : Matrix (Fin n) (Fin n) K) (hA : A.det ≠ 0) :
    compose A⁻¹ A = 1 ∧ compose A A⁻¹ = 1 := by
  have : IsUnit A.det := isUnit_iff_ne_zero.2 hA
  simp [compose, actMat, Matrix.mul_nonsing_inv _ this, Matrix.nonsing_inv_mul _ this]

/-- rows of a rank-2 unit transform as points -/
theorem actMat_row (A : Matrix (Fin n) (Fin n) K) (X : Matrix (Fin k) (Fin n) K) (i : Fin k) :
    actMat A X i = actRow A (X i) := by
  funext j; simp [actMat, actRow, Matrix.mul_apply, Matrix.vecMul, dotProduct]

/-- an invertible, non-diagonal transformation exists: the hypotheses are satisfiable -/
example : (!![1, 2; 0, 1] : Matrix (Fin 2) (Fin 2) ℚ).det ≠ 0 := by
  simp [Matrix.det_fin_two]

/-! ## dual data (a functional `f`, i.e. the hyperplane `{w : f·w = 0}`; `ConvexPolygon.dual_data`)
transforms by the inverse transpose (`_apply_to_data(..., dual=True)`, as repaired): the dual
hyperplane moves with the points, and the action laws hold for this block too -/

/-- the image functional vanishes on the image of a point iff the functional vanished on the point:
`(f A⁻ᵀ)·(w A) = f·w` -/
theorem dual_incidence (A : Matrix (Fin n) (Fin n) K) (hA : A.det ≠ 0) (f w : Fin n → K) :
    actRow (A⁻¹)ᵀ f ⬝ᵥ actRow A w = f ⬝ᵥ w := by
  have hu : IsUnit A.det := isUnit_iff_ne_zero.2 hA
  unfold actRow
  rw [Matrix.vecMul_transpose, dotProduct_comm, ← Matrix.dotProduct_mulVec,
    Matrix.mulVec_mulVec, Matrix.mul_nonsing_inv _ hu, Matrix.one_mulVec, dotProduct_comm]

/-- `(A @ B)` acts on dual data as `A` after `B` (the inverse transpose of `B·A` is `B⁻ᵀ·A⁻ᵀ`) -/
theorem apply_comp_dual (A B : Matrix (Fin n) (Fin n) K) (f : Fin n → K) :
    actRow ((compose A B)⁻¹)ᵀ f = actRow (A⁻¹)ᵀ (actRow (B⁻¹)ᵀ f) := by
  simp [actRow, compose, actMat, Matrix.vecMul_vecMul, Matrix.mul_inv_rev, Matrix.transpose_mul]

/-- the code before the repair multiplied dual data by the matrix itself; then the dual hyperplane
does not follow the points (witness: a shear of the plane) -/
theorem dual_unrepaired_counterexample :
    ∃ (A : Matrix (Fin 2) (Fin 2) ℚ) (f w : Fin 2 → ℚ), A.det ≠ 0 ∧ f ⬝ᵥ w = 0 ∧
      actRow A f ⬝ᵥ actRow A w ≠ 0 := by
  refine ⟨!![1, 1; 0, 1], ![1, 0], ![0, 1], ?_, ?_, ?_⟩
  · simp [Matrix.det_fin_two]
  · simp [dotProduct, Fin.sum_univ_two]
  · simp [actRow, Matrix.vecMul, dotProduct, Fin.sum_univ_two]

/-! ## derived data transforms with the object ("as projective objects including their derived
data"): recomputing it from the transformed primary data gives the transformed derived data -/

/-- polygon edges, any transformation -/
theorem polygonEdges_equivariant (A : Matrix (Fin n) (Fin n) K) (X : Matrix (Fin (k + 1)) (Fin n) K)
    (e : Fin (k + 1)) : polygonEdges (actMat A X) e = actMat A (polygonEdges X e) := by
  ext i j
  fin_cases i <;> simp [polygonEdges, actMat, Matrix.mul_apply]

/-- the Gram entries a form-preserving transformation leaves invariant -/
theorem bil_invariant {J A : Matrix (Fin n) (Fin n) K} (hA : IsIso J A) (x y : Fin n → K) :
    bil J (actRow A x) (actRow A y) = bil J x y := bil_act hA x y

/-- a segment's ideal endpoints, form-preserving transformation (the quadratic's coefficients
are Gram entries) — with the *same* root function, so the order of the two endpoints is kept -/
theorem segmentIdeal_equivariant {J A : Matrix (Fin n) (Fin n) K} (hA : IsIso J A) (r : K → K)
    (X : Matrix (Fin 2) (Fin n) K) :
    segmentIdeal J r (actMat A X) = actMat A (segmentIdeal J r X) := by
  have hq : segQuad J (actMat A X) = segQuad J X := by
    simp only [segQuad, actMat_row, bil_act hA]
  unfold segmentIdeal
  rw [hq, segMix_act]

/-- a tangent vector's projected vector, form-preserving transformation -/
theorem tangentProj_equivariant {J A : Matrix (Fin n) (Fin n) K} (hA : IsIso J A)
    (X : Matrix (Fin 2) (Fin n) K) :
    tangentProj J (actMat A X) = actMat A (tangentProj J X) := by
  unfold tangentProj
  simp only [actMat_row, bil_act hA]
  exact tanMix_act _ A X

/-- the Minkowski form is preserved by a boost — `IsIso` is satisfiable by a non-trivial matrix -/
example : IsIso (!![-1, 0; 0, 1] : Matrix (Fin 2) (Fin 2) ℚ) !![5/4, 3/4; 3/4, 5/4] := by
  unfold IsIso
  ext i j
  fin_cases i <;> fin_cases j <;> simp [Matrix.mul_apply, Fin.sum_univ_two] <;> norm_num

/-! ## representations: `rep[word] @ point` is the word's matrix acting on the column vector -/

/-- a wrapped column matrix acts on a row vector as the matrix acts on the column -/
theorem wrap_act (M : Matrix (Fin n) (Fin n) K) (p : Fin n → K) : actRow (wrap M) p = M *ᵥ p := by
  simp [actRow, wrap, Matrix.vecMul_transpose]

/-- `wrap(ρ(u)) @ wrap(ρ(v)) = wrap(ρ(u)·ρ(v))`: the row convention reverses twice -/
theorem wrap_compose (M N : Matrix (Fin n) (Fin n) K) : compose (wrap M) (wrap N) = wrap (M * N) := by
  simp [compose, actMat, wrap, Matrix.transpose_mul]

theorem unwrap_wrap (M : Matrix (Fin n) (Fin n) K) : unwrap (wrap M) = M ∧ wrap (unwrap M) = M := by
  simp [wrap, unwrap]

/-- `Representation._word_value` is multiplicative in the word -/
theorem wordMat_append {G : Type} (gens : G → Matrix (Fin n) (Fin n) K) (u v : List G) :
    wordMat gens (u ++ v) = wordMat gens u * wordMat gens v := wordMat_append' gens u v

/-- `rep[w] @ p` = (matrix of `w`) · (column `p`), for every word — projective and hyperbolic
representations share `wrap_func` up to the class of the result -/
theorem rep_word_act {G : Type} (gens : G → Matrix (Fin n) (Fin n) K) (w : List G) (p : Fin n → K) :
    actRow (wrap (wordMat gens w)) p = wordMat gens w *ᵥ p := wrap_act _ _

/-- `rep[u] @ rep[v] = rep[uv]` as transformations -/
theorem rep_word_compose {G : Type} (gens : G → Matrix (Fin n) (Fin n) K) (u v : List G) :
    compose (wrap (wordMat gens u)) (wrap (wordMat gens v)) = wrap (wordMat gens (u ++ v)) := by
  rw [wrap_compose, wordMat_append]

/-- `rep[g] = T` after `rep[g] = T` (set stores `unwrap T`, get wraps the product) -/
theorem rep_generator {G : Type} (T : G → Matrix (Fin n) (Fin n) K) (g : G) :
    wrap (wordMat (fun h => unwrap (T h)) [g]) = T g := by
  simp [wordMat, wrap, unwrap]

/-! ## composite level: `Transformation.apply` on a composite object applies the unit law at
every index and keeps kind and composite shape (every rank) -/

variable [Inhabited K]

/-- composite of points × one transformation -/
theorem apply_composite_row (X A : ND K) {o : List ℕ} (hX : X.shape = o ++ [n]) (hA : A.shape = [n, n]) :
    ∃ c, matrixProduct X A 1 2 .elementwise = .ok c ∧ c.shape = X.shape ∧
      ∀ i, Valid o i → rowAt c n i = actRow (matAt A n n []) (rowAt X n i) := by
  obtain ⟨c, hc, hs, hg⟩ := mp12_units .elementwise X A (o2 := []) hX (by simpa using hA)
    (bcastShape_nil_right o)
  refine ⟨c, hc, by rw [hs, hX], fun i hi => ?_⟩
  rw [hg i hi]
  simp [unitIx1, unitIx2, bcIx_self hi, actRow]

/-- composite of rank-2 units × one transformation -/
theorem apply_composite_mat (X A : ND K) {o : List ℕ} {p : ℕ} (hX : X.shape = o ++ [p, n])
    (hA : A.shape = [n, n]) :
    ∃ c, matrixProduct X A 2 2 .elementwise = .ok c ∧ c.shape = X.shape ∧
      ∀ i, Valid o i → matAt c p n i = actMat (matAt A n n []) (matAt X p n i) := by
  obtain ⟨c, hc, hs, hg⟩ := mp22_units .elementwise X A (o2 := []) hX (by simpa using hA)
    (bcastShape_nil_right o)
  refine ⟨c, hc, by rw [hs, hX], fun i hi => ?_⟩
  rw [hg i hi]
  simp [unitIx1, unitIx2, bcIx_self hi, actMat]

/-- composite of rank-3 auxiliary units (polygon edges) × one transformation -/
theorem apply_composite_stack (X A : ND K) {o : List ℕ} {e p : ℕ} (hX : X.shape = o ++ [e, p, n])
    (hA : A.shape = [n, n]) :
    ∃ c, matrixProduct X A 3 2 .elementwise = .ok c ∧ c.shape = X.shape ∧
      ∀ i, Valid o i → ∀ v, stackAt c e p n i v = actMat (matAt A n n []) (stackAt X e p n i v) := by
  obtain ⟨c, hc, hs, hg⟩ := mp32_units .elementwise X A (o2 := []) hX (by simpa using hA)
    (bcastShape_nil_right o)
  refine ⟨c, hc, by rw [hs, hX], fun i hi v => ?_⟩
  rw [hg i hi v]
  simp [unitIx1, unitIx2, bcIx_self hi, actMat]

/-- `(A @ B) @ X = A @ (B @ X)` for a composite of points of any shape, on the arrays themselves:
`(A @ B).matrix` is `matrixProduct B A`, and both sides agree at every unit -/
theorem apply_comp_composite (X A B : ND K) {o : List ℕ} (hX : X.shape = o ++ [n])
    (hA : A.shape = [n, n]) (hB : B.shape = [n, n]) :
    ∃ AB BX l r, matrixProduct B A 2 2 .elementwise = .ok AB ∧
      matrixProduct X B 1 2 .elementwise = .ok BX ∧
      matrixProduct X AB 1 2 .elementwise = .ok l ∧
      matrixProduct BX A 1 2 .elementwise = .ok r ∧ l.shape = r.shape ∧
      ∀ i, Valid o i → rowAt l n i = rowAt r n i := by
  obtain ⟨AB, hAB, sAB, gAB⟩ := apply_composite_mat (n := n) B A (o := []) (p := n) (by simpa using hB) hA
  obtain ⟨BX, hBX, sBX, gBX⟩ := apply_composite_row X B hX hB
  obtain ⟨l, hl, sl, gl⟩ := apply_composite_row X AB hX (by rw [sAB, hB])
  obtain ⟨r, hr, sr, gr⟩ := apply_composite_row BX A (by rw [sBX, hX]) hA
  refine ⟨AB, BX, l, r, hAB, hBX, hl, hr, by rw [sl, sr, sBX], fun i hi => ?_⟩
  rw [gl i hi, gr i hi, gBX i hi, gAB [] (by simp)]
  exact apply_comp_row _ _ _

/-! ## added after the model-mutant round: the dual block of `Transformation.apply` on an OBJECT
(the unit-level theorems above say what the dual data should be multiplied by; this says that the
model of `Transformation.apply` does it) -/

/-- `T @ obj` for an object carrying dual data (`ConvexPolygon`): the dual block of the result is,
row by row, the old functional times the inverse transpose of `T`'s matrix; composite shape kept -/
theorem apply_obj_dual {X Y : Obj K} {A AinvT d : ND K} {o : List ℕ}
    (hAi : AinvT.shape = [n, n])
    (hinv : matAt AinvT n n [] = ((matAt A n n [])⁻¹)ᵀ)
    (h : X.apply A AinvT .elementwise = .ok Y) (hd : X.dual = some d) (hds : d.shape = o ++ [n]) :
    ∃ d', Y.dual = some d' ∧ d'.shape = d.shape ∧
      ∀ i, Valid o i → rowAt d' n i = actRow ((matAt A n n [])⁻¹)ᵀ (rowAt d n i) := by
  obtain ⟨c, hc, hcs, hcg⟩ := apply_composite_row d AinvT hds hAi
  unfold Obj.apply at h
  split at h
  · cases h
  · split at h
    · cases h
    · split at h
      · cases h
      · rename_i d' hd'
        cases h
        rw [hd] at hd'
        simp only [hc, Except.map] at hd'
        cases hd'
        exact ⟨c, rfl, hcs, fun i hi => by rw [hcg i hi, hinv]⟩

/-- hence incidence is kept at every index of a composite: the image functional evaluated on the
image of any point equals the old functional on the old point -/
theorem apply_obj_incidence {X Y : Obj K} {A AinvT d : ND K} {o : List ℕ}
    (hAi : AinvT.shape = [n, n])
    (hinv : matAt AinvT n n [] = ((matAt A n n [])⁻¹)ᵀ) (hdet : (matAt A n n []).det ≠ 0)
    (h : X.apply A AinvT .elementwise = .ok Y) (hd : X.dual = some d) (hds : d.shape = o ++ [n]) :
    ∃ d', Y.dual = some d' ∧
      ∀ i, Valid o i → ∀ w : Fin n → K, rowAt d' n i ⬝ᵥ actRow (matAt A n n []) w = rowAt d n i ⬝ᵥ w := by
  obtain ⟨d', hY, -, hg⟩ := apply_obj_dual hAi hinv h hd hds
  exact ⟨d', hY, fun i hi w => by rw [hg i hi]; exact dual_incidence _ hdet _ _⟩

/-! ## added after the model-mutant round: the formula of `Segment._compute_aux_data` in the model the
C03/C04/C11 theorems speak about (`GT.Act.segmentIdeal`) — the two stored rows ARE the null points of
the line (so the quadratic's coefficients matter), and they are the `+` and the `−` root in this order -/

/-- both derived rows of a segment are null vectors of the form (`r` a square root of the discriminant) -/
theorem segmentIdeal_null {J : Matrix (Fin n) (Fin n) K} (hJ : Jᵀ = J) (r : K → K)
    (X : Matrix (Fin 2) (Fin n) K) (h2 : (2 : K) ≠ 0) (ha : (segQuad J X).1 ≠ 0)
    (hr : r ((segQuad J X).2.1 * (segQuad J X).2.1 - 4 * (segQuad J X).1 * (segQuad J X).2.2) ^ 2 =
      (segQuad J X).2.1 * (segQuad J X).2.1 - 4 * (segQuad J X).1 * (segQuad J X).2.2)
    (i : Fin 2) : bil J (segmentIdeal J r X i) (segmentIdeal J r X i) = 0 := by
  have hsymm : bil J (X 1) (X 0) = bil J (X 0) (X 1) := by
    unfold bil
    rw [Matrix.dotProduct_mulVec, ← Matrix.mulVec_transpose, hJ, dotProduct_comm]
  have key : ∀ μ : K, bil J (fun j => μ * X 0 j + (1 - μ) * X 1 j) (fun j => μ * X 0 j + (1 - μ) * X 1 j) =
      (segQuad J X).1 * μ ^ 2 + (segQuad J X).2.1 * μ + (segQuad J X).2.2 := by
    intro μ
    have hv : (fun j => μ * X 0 j + (1 - μ) * X 1 j) = μ • X 0 + (1 - μ) • X 1 := by
      ext j; simp
    rw [hv]
    have e : bil J (μ • X 0 + (1 - μ) • X 1) (μ • X 0 + (1 - μ) • X 1) =
        μ * μ * bil J (X 0) (X 0) + μ * (1 - μ) * bil J (X 0) (X 1) + (1 - μ) * μ * bil J (X 1) (X 0)
          + (1 - μ) * (1 - μ) * bil J (X 1) (X 1) := by
      simp only [bil, Matrix.mulVec_add, Matrix.mulVec_smul, dotProduct_add, add_dotProduct,
        smul_dotProduct, dotProduct_smul, smul_eq_mul]
      ring
    rw [e, hsymm]
    simp only [segQuad]
    ring
  have alg : ∀ a b c s : K, a ≠ 0 → s ^ 2 = b * b - 4 * a * c →
      a * ((-b + s) / (2 * a)) ^ 2 + b * ((-b + s) / (2 * a)) + c = 0 ∧
      a * ((-b - s) / (2 * a)) ^ 2 + b * ((-b - s) / (2 * a)) + c = 0 := by
    intro a b c s ha hs
    have h4 : (4 : K) ≠ 0 := by
      have : (4 : K) = 2 * 2 := by norm_num
      rw [this]; exact mul_ne_zero h2 h2
    constructor
    · have h : a * ((-b + s) / (2 * a)) ^ 2 + b * ((-b + s) / (2 * a)) + c =
          (s ^ 2 - (b * b - 4 * a * c)) / (4 * a) := by
        field_simp
        ring
      rw [h, hs, sub_self, zero_div]
    · have h : a * ((-b - s) / (2 * a)) ^ 2 + b * ((-b - s) / (2 * a)) + c =
          (s ^ 2 - (b * b - 4 * a * c)) / (4 * a) := by
        field_simp
        ring
      rw [h, hs, sub_self, zero_div]
  fin_cases i
  · exact (key _).trans (alg _ _ _ _ ha hr).1
  · exact (key _).trans (alg _ _ _ _ ha hr).2

/-- row 0 is the `+` root and row 1 the `−` root: they differ by `√disc / a` times the chord -/
theorem segmentIdeal_diff (J : Matrix (Fin n) (Fin n) K) (r : K → K)
    (X : Matrix (Fin 2) (Fin n) K) (h2 : (2 : K) ≠ 0) (ha : (segQuad J X).1 ≠ 0) (j : Fin n) :
    segmentIdeal J r X 0 j - segmentIdeal J r X 1 j =
      r ((segQuad J X).2.1 * (segQuad J X).2.1 - 4 * (segQuad J X).1 * (segQuad J X).2.2) / (segQuad J X).1 *
        (X 0 j - X 1 j) := by
  have alg : ∀ a b s x y : K, a ≠ 0 →
      ((-b + s) / (2 * a) * x + (1 - (-b + s) / (2 * a)) * y) -
        ((-b - s) / (2 * a) * x + (1 - (-b - s) / (2 * a)) * y) = s / a * (x - y) := by
    intro a b s x y ha
    field_simp
    ring
  exact alg _ _ _ _ _ ha
end GT.C03
