/- property theorems for C03 (filled in below) -/
