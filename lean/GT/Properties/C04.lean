/- property theorems for C04 (filled in below) -/
