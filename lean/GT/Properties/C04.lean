/-
C04 — a composite object behaves exactly like an array of its unit objects.
Only property theorems and non-vacuity examples; helper lemmas are in `GT.Lemmas.ND`,
`GT.Lemmas.Obj`.  Models: `GT.Model.ND` (numpy fragment), `GT.Model.Obj`
(`utils.matrix_product` as the literal composition of numpy primitives), `GT.Model.Units`
(unit views).  Every statement holds for ALL outer (composite) ranks and sizes.
-/
import GT.Lemmas.Obj
import GT.Lemmas.Units
import GT.Lemmas.Vectorised
import GT.Model.Units
import Mathlib.Algebra.BigOperators.Fin
import Mathlib.Algebra.Field.Rat
import Mathlib.Data.Matrix.Mul

set_option linter.unusedSectionVars false
set_option linter.unusedSimpArgs false
set_option linter.unusedVariables false

open Finset BigOperators

namespace GT.C04
open GT GT.Act GT.Act.ND

variable {K : Type} [Field K] [Inhabited K]

/-! ## result shapes: elementwise = numpy broadcasting of the composite shapes, pairwise =
object's axes then transformation's axes, pairwise_reversed the other way round -/

theorem outerShape_elementwise (o₁ o₂ : List ℕ) :
    outerShape .elementwise o₁ o₂ = bcastShape o₁ o₂ := rfl
theorem outerShape_pairwise (o₁ o₂ : List ℕ) : outerShape .pairwise o₁ o₂ = some (o₁ ++ o₂) := rfl
theorem outerShape_pairwiseReversed (o₁ o₂ : List ℕ) :
    outerShape .pairwiseReversed o₁ o₂ = some (o₂ ++ o₁) := rfl

/-- shape law, unit ranks (1,2) (points × transformations), every mode, every rank -/
theorem matrixProduct_shape_12 (mode : Bcast) (a₁ a₂ : ND K) {o₁ o₂ O : List ℕ} {n m : ℕ}
    (h₁ : a₁.shape = o₁ ++ [n]) (h₂ : a₂.shape = o₂ ++ [n, m])
    (hO : outerShape mode o₁ o₂ = some O) :
    ∃ c, matrixProduct a₁ a₂ 1 2 mode = .ok c ∧ c.shape = O ++ [m] := by
  obtain ⟨c, hc, hs, _⟩ := mp12 mode a₁ a₂ h₁ h₂ hO
  exact ⟨c, hc, hs⟩

/-- shape law, unit ranks (2,2) (pairs/segments/polygons/transformations × transformations) -/
theorem matrixProduct_shape_22 (mode : Bcast) (a₁ a₂ : ND K) {o₁ o₂ O : List ℕ} {p n m : ℕ}
    (h₁ : a₁.shape = o₁ ++ [p, n]) (h₂ : a₂.shape = o₂ ++ [n, m])
    (hO : outerShape mode o₁ o₂ = some O) :
    ∃ c, matrixProduct a₁ a₂ 2 2 mode = .ok c ∧ c.shape = O ++ [p, m] := by
  obtain ⟨c, hc, hs, _⟩ := mp22 mode a₁ a₂ h₁ h₂ hO
  exact ⟨c, hc, hs⟩

/-- shape law, unit ranks (3,2) (polygon edge data × transformations) -/
theorem matrixProduct_shape_32 (mode : Bcast) (a₁ a₂ : ND K) {o₁ o₂ O : List ℕ} {k p n m : ℕ}
    (h₁ : a₁.shape = o₁ ++ [k, p, n]) (h₂ : a₂.shape = o₂ ++ [n, m])
    (hO : outerShape mode o₁ o₂ = some O) :
    ∃ c, matrixProduct a₁ a₂ 3 2 mode = .ok c ∧ c.shape = O ++ [k, p, m] := by
  obtain ⟨c, hc, hs, _⟩ := mp32 mode a₁ a₂ h₁ h₂ hO
  exact ⟨c, hc, hs⟩

/-- elementwise mode refuses (numpy `ValueError`) exactly when the composite shapes do not
broadcast — here: it succeeds whenever they do (previous theorems) and the model reports
an error when they do not, for unit ranks (2,2) -/
theorem matrixProduct_elementwise_refuses (a₁ a₂ : ND K) {o₁ o₂ : List ℕ} {p n m : ℕ}
    (h₁ : a₁.shape = o₁ ++ [p, n]) (h₂ : a₂.shape = o₂ ++ [n, m])
    (hO : bcastShape o₁ o₂ = none) :
    matrixProduct a₁ a₂ 2 2 .elementwise = .error "ValueError" := by
  unfold matrixProduct
  simp only [expandUnitAxes_of_le _ (le_refl 2), pairExpand, matmul, h₁, h₂, splitLast2_append,
    hO, ne_eq, not_true_eq_false, if_false]

/-! ## values: the result at outer index `bix` is the unit product of the units that
`unitIx1/2` select — in particular entry `[i][j]` of a pairwise product is transformation
`j` applied to unit `i` -/

/-- all modes at once, unit ranks (1,2): row vector × matrix -/
theorem matrixProduct_units_12 (mode : Bcast) (a₁ a₂ : ND K) {o₁ o₂ O : List ℕ} {n m : ℕ}
    (h₁ : a₁.shape = o₁ ++ [n]) (h₂ : a₂.shape = o₂ ++ [n, m])
    (hO : outerShape mode o₁ o₂ = some O) :
    ∃ c, matrixProduct a₁ a₂ 1 2 mode = .ok c ∧ c.shape = O ++ [m] ∧
      ∀ bix, Valid O bix →
        rowAt c m bix =
          Matrix.vecMul (rowAt a₁ n (unitIx1 mode o₁ o₂ bix)) (matAt a₂ n m (unitIx2 mode o₁ o₂ bix)) :=
  mp12_units mode a₁ a₂ h₁ h₂ hO

/-- all modes at once, unit ranks (2,2): matrix × matrix -/
theorem matrixProduct_units_22 (mode : Bcast) (a₁ a₂ : ND K) {o₁ o₂ O : List ℕ} {p n m : ℕ}
    (h₁ : a₁.shape = o₁ ++ [p, n]) (h₂ : a₂.shape = o₂ ++ [n, m])
    (hO : outerShape mode o₁ o₂ = some O) :
    ∃ c, matrixProduct a₁ a₂ 2 2 mode = .ok c ∧ c.shape = O ++ [p, m] ∧
      ∀ bix, Valid O bix →
        matAt c p m bix =
          matAt a₁ p n (unitIx1 mode o₁ o₂ bix) * matAt a₂ n m (unitIx2 mode o₁ o₂ bix) :=
  mp22_units mode a₁ a₂ h₁ h₂ hO

/-- all modes at once, unit ranks (3,2): every matrix of the stack × matrix -/
theorem matrixProduct_units_32 (mode : Bcast) (a₁ a₂ : ND K) {o₁ o₂ O : List ℕ} {k p n m : ℕ}
    (h₁ : a₁.shape = o₁ ++ [k, p, n]) (h₂ : a₂.shape = o₂ ++ [n, m])
    (hO : outerShape mode o₁ o₂ = some O) :
    ∃ c, matrixProduct a₁ a₂ 3 2 mode = .ok c ∧ c.shape = O ++ [k, p, m] ∧
      ∀ bix, Valid O bix → ∀ v,
        stackAt c k p m bix v =
          stackAt a₁ k p n (unitIx1 mode o₁ o₂ bix) v * matAt a₂ n m (unitIx2 mode o₁ o₂ bix) :=
  mp32_units mode a₁ a₂ h₁ h₂ hO

/-- which units feed which result unit, spelled out per mode -/
theorem unitIx_pairwise {o₁ o₂ i j : List ℕ} (hi : Valid o₁ i) :
    unitIx1 .pairwise o₁ o₂ (i ++ j) = i ∧ unitIx2 .pairwise o₁ o₂ (i ++ j) = j := by
  simp [unitIx1, unitIx2, ← hi.length]

theorem unitIx_pairwiseReversed {o₁ o₂ i j : List ℕ} (hj : Valid o₂ j) :
    unitIx1 .pairwiseReversed o₁ o₂ (j ++ i) = i ∧ unitIx2 .pairwiseReversed o₁ o₂ (j ++ i) = j := by
  simp [unitIx1, unitIx2, ← hj.length]

/-- elementwise with equal composite shapes: unit `i` meets unit `i` -/
theorem unitIx_elementwise_same {o i : List ℕ} (hi : Valid o i) :
    unitIx1 .elementwise o o i = i ∧ unitIx2 .elementwise o o i = i := by
  simp [unitIx1, unitIx2, bcIx_self hi]

/-- elementwise against a single unit (`o₂ = []`, one transformation applied to a composite) -/
theorem unitIx_elementwise_single {o i : List ℕ} (hi : Valid o i) :
    unitIx1 .elementwise o [] i = i ∧ unitIx2 .elementwise o [] i = [] := by
  simp [unitIx1, unitIx2, bcIx_self hi]

/-- **pairwise**: the result has the object's axes first, then the transformation's, and
entry `[i][j]` is transformation `j` applied to unit `i` (points) -/
theorem matrixProduct_pairwise_12 (a₁ a₂ : ND K) {o₁ o₂ : List ℕ} {n m : ℕ}
    (h₁ : a₁.shape = o₁ ++ [n]) (h₂ : a₂.shape = o₂ ++ [n, m]) :
    ∃ c, matrixProduct a₁ a₂ 1 2 .pairwise = .ok c ∧ c.shape = o₁ ++ o₂ ++ [m] ∧
      ∀ i j, Valid o₁ i → Valid o₂ j →
        rowAt c m (i ++ j) = Matrix.vecMul (rowAt a₁ n i) (matAt a₂ n m j) := by
  obtain ⟨c, hc, hs, hg⟩ := matrixProduct_units_12 .pairwise a₁ a₂ h₁ h₂ rfl
  refine ⟨c, hc, hs, fun i j hi hj => ?_⟩
  rw [hg _ (hi.append hj), (unitIx_pairwise hi).1, (unitIx_pairwise hi).2]

theorem matrixProduct_pairwise_22 (a₁ a₂ : ND K) {o₁ o₂ : List ℕ} {p n m : ℕ}
    (h₁ : a₁.shape = o₁ ++ [p, n]) (h₂ : a₂.shape = o₂ ++ [n, m]) :
    ∃ c, matrixProduct a₁ a₂ 2 2 .pairwise = .ok c ∧ c.shape = o₁ ++ o₂ ++ [p, m] ∧
      ∀ i j, Valid o₁ i → Valid o₂ j → matAt c p m (i ++ j) = matAt a₁ p n i * matAt a₂ n m j := by
  obtain ⟨c, hc, hs, hg⟩ := matrixProduct_units_22 .pairwise a₁ a₂ h₁ h₂ rfl
  refine ⟨c, hc, hs, fun i j hi hj => ?_⟩
  rw [hg _ (hi.append hj), (unitIx_pairwise hi).1, (unitIx_pairwise hi).2]

theorem matrixProduct_pairwise_32 (a₁ a₂ : ND K) {o₁ o₂ : List ℕ} {k p n m : ℕ}
    (h₁ : a₁.shape = o₁ ++ [k, p, n]) (h₂ : a₂.shape = o₂ ++ [n, m]) :
    ∃ c, matrixProduct a₁ a₂ 3 2 .pairwise = .ok c ∧ c.shape = o₁ ++ o₂ ++ [k, p, m] ∧
      ∀ i j, Valid o₁ i → Valid o₂ j → ∀ v,
        stackAt c k p m (i ++ j) v = stackAt a₁ k p n i v * matAt a₂ n m j := by
  obtain ⟨c, hc, hs, hg⟩ := matrixProduct_units_32 .pairwise a₁ a₂ h₁ h₂ rfl
  refine ⟨c, hc, hs, fun i j hi hj v => ?_⟩
  rw [hg _ (hi.append hj), (unitIx_pairwise hi).1, (unitIx_pairwise hi).2]

/-- **pairwise_reversed**: transformation's axes first; entry `[j][i]` is transformation `j`
applied to unit `i` -/
theorem matrixProduct_pairwise_reversed_12 (a₁ a₂ : ND K) {o₁ o₂ : List ℕ} {n m : ℕ}
    (h₁ : a₁.shape = o₁ ++ [n]) (h₂ : a₂.shape = o₂ ++ [n, m]) :
    ∃ c, matrixProduct a₁ a₂ 1 2 .pairwiseReversed = .ok c ∧ c.shape = o₂ ++ o₁ ++ [m] ∧
      ∀ i j, Valid o₁ i → Valid o₂ j →
        rowAt c m (j ++ i) = Matrix.vecMul (rowAt a₁ n i) (matAt a₂ n m j) := by
  obtain ⟨c, hc, hs, hg⟩ := matrixProduct_units_12 .pairwiseReversed a₁ a₂ h₁ h₂ rfl
  refine ⟨c, hc, hs, fun i j hi hj => ?_⟩
  rw [hg _ (hj.append hi), (unitIx_pairwiseReversed hj).1, (unitIx_pairwiseReversed hj).2]

theorem matrixProduct_pairwise_reversed_22 (a₁ a₂ : ND K) {o₁ o₂ : List ℕ} {p n m : ℕ}
    (h₁ : a₁.shape = o₁ ++ [p, n]) (h₂ : a₂.shape = o₂ ++ [n, m]) :
    ∃ c, matrixProduct a₁ a₂ 2 2 .pairwiseReversed = .ok c ∧ c.shape = o₂ ++ o₁ ++ [p, m] ∧
      ∀ i j, Valid o₁ i → Valid o₂ j → matAt c p m (j ++ i) = matAt a₁ p n i * matAt a₂ n m j := by
  obtain ⟨c, hc, hs, hg⟩ := matrixProduct_units_22 .pairwiseReversed a₁ a₂ h₁ h₂ rfl
  refine ⟨c, hc, hs, fun i j hi hj => ?_⟩
  rw [hg _ (hj.append hi), (unitIx_pairwiseReversed hj).1, (unitIx_pairwiseReversed hj).2]

theorem matrixProduct_pairwise_reversed_32 (a₁ a₂ : ND K) {o₁ o₂ : List ℕ} {k p n m : ℕ}
    (h₁ : a₁.shape = o₁ ++ [k, p, n]) (h₂ : a₂.shape = o₂ ++ [n, m]) :
    ∃ c, matrixProduct a₁ a₂ 3 2 .pairwiseReversed = .ok c ∧ c.shape = o₂ ++ o₁ ++ [k, p, m] ∧
      ∀ i j, Valid o₁ i → Valid o₂ j → ∀ v,
        stackAt c k p m (j ++ i) v = stackAt a₁ k p n i v * matAt a₂ n m j := by
  obtain ⟨c, hc, hs, hg⟩ := matrixProduct_units_32 .pairwiseReversed a₁ a₂ h₁ h₂ rfl
  refine ⟨c, hc, hs, fun i j hi hj v => ?_⟩
  rw [hg _ (hj.append hi), (unitIx_pairwiseReversed hj).1, (unitIx_pairwiseReversed hj).2]

/-- **elementwise**: numpy broadcasting of the composite shapes; result unit `bix` is the
product of the units at the broadcast positions of `bix` (axes of length 1 are read at 0,
missing leading axes are ignored) -/
theorem matrixProduct_elementwise_12 (a₁ a₂ : ND K) {o₁ o₂ O : List ℕ} {n m : ℕ}
    (h₁ : a₁.shape = o₁ ++ [n]) (h₂ : a₂.shape = o₂ ++ [n, m]) (hO : bcastShape o₁ o₂ = some O) :
    ∃ c, matrixProduct a₁ a₂ 1 2 .elementwise = .ok c ∧ c.shape = O ++ [m] ∧
      ∀ bix, Valid O bix → Valid o₁ (bcIx o₁ bix) ∧ Valid o₂ (bcIx o₂ bix) ∧
        rowAt c m bix = Matrix.vecMul (rowAt a₁ n (bcIx o₁ bix)) (matAt a₂ n m (bcIx o₂ bix)) := by
  obtain ⟨c, hc, hs, hg⟩ := matrixProduct_units_12 .elementwise a₁ a₂ h₁ h₂ hO
  exact ⟨c, hc, hs, fun bix hv => ⟨valid_bcIx_left hO hv, valid_bcIx_right hO hv, hg bix hv⟩⟩

theorem matrixProduct_elementwise_22 (a₁ a₂ : ND K) {o₁ o₂ O : List ℕ} {p n m : ℕ}
    (h₁ : a₁.shape = o₁ ++ [p, n]) (h₂ : a₂.shape = o₂ ++ [n, m]) (hO : bcastShape o₁ o₂ = some O) :
    ∃ c, matrixProduct a₁ a₂ 2 2 .elementwise = .ok c ∧ c.shape = O ++ [p, m] ∧
      ∀ bix, Valid O bix → Valid o₁ (bcIx o₁ bix) ∧ Valid o₂ (bcIx o₂ bix) ∧
        matAt c p m bix = matAt a₁ p n (bcIx o₁ bix) * matAt a₂ n m (bcIx o₂ bix) := by
  obtain ⟨c, hc, hs, hg⟩ := matrixProduct_units_22 .elementwise a₁ a₂ h₁ h₂ hO
  exact ⟨c, hc, hs, fun bix hv => ⟨valid_bcIx_left hO hv, valid_bcIx_right hO hv, hg bix hv⟩⟩

theorem matrixProduct_elementwise_32 (a₁ a₂ : ND K) {o₁ o₂ O : List ℕ} {k p n m : ℕ}
    (h₁ : a₁.shape = o₁ ++ [k, p, n]) (h₂ : a₂.shape = o₂ ++ [n, m]) (hO : bcastShape o₁ o₂ = some O) :
    ∃ c, matrixProduct a₁ a₂ 3 2 .elementwise = .ok c ∧ c.shape = O ++ [k, p, m] ∧
      ∀ bix, Valid O bix → Valid o₁ (bcIx o₁ bix) ∧ Valid o₂ (bcIx o₂ bix) ∧ ∀ v,
        stackAt c k p m bix v = stackAt a₁ k p n (bcIx o₁ bix) v * matAt a₂ n m (bcIx o₂ bix) := by
  obtain ⟨c, hc, hs, hg⟩ := matrixProduct_units_32 .elementwise a₁ a₂ h₁ h₂ hO
  exact ⟨c, hc, hs, fun bix hv => ⟨valid_bcIx_left hO hv, valid_bcIx_right hO hv, hg bix hv⟩⟩

/-- non-vacuity: a 2×3 composite of points in dimension 2 against 2 transformations, all
three modes, evaluated by the kernel on the very definitions above -/
example :
    let a₁ : ND ℚ := ofFn [2, 3, 2] (fun ix => (ix.foldl (fun s x => 3 * s + x + 1) 0 : ℕ))
    let a₂ : ND ℚ := ofFn [2, 2, 2] (fun ix => (ix.foldl (fun s x => 2 * s + x + 1) 0 : ℕ))
    (matrixProduct a₁ a₂ 1 2 .pairwise).toOption.map (·.shape) = some [2, 3, 2, 2] ∧
    (matrixProduct a₁ a₂ 1 2 .pairwiseReversed).toOption.map (·.shape) = some [2, 2, 3, 2] ∧
    (matrixProduct (ofFn [3, 2] fun _ => (1 : ℚ)) a₂ 1 2 .elementwise).toOption.map (·.shape) = none ∧
    (matrixProduct (ofFn [1, 2] fun _ => (1 : ℚ)) a₂ 1 2 .elementwise).toOption.map (·.shape)
      = some [2, 2] := by
  decide +kernel

/-! ## structural operations preserve the units and their row-major order -/

/-- `flatten_to_unit`: unit number `flatIx o i` of the flattened array is unit `i` -/
theorem flatten_units (a : ND K) {o u i x : List ℕ} (hs : a.shape = o ++ u)
    (hi : Valid o i) (hx : Valid u x) :
    (a.flattenOuter u.length).shape = sz o :: u ∧
    (a.flattenOuter u.length).get (flatIx o i :: x) = a.get (i ++ x) :=
  ⟨shape_flattenOuter a hs, get_flattenOuter a hs hi hx⟩

/-- … and every unit of the flattened array is one of the original units, in row-major order -/
theorem flatten_units_onto (a : ND K) {o u x : List ℕ} {k : ℕ} (hs : a.shape = o ++ u)
    (hk : k < sz o) (hx : Valid u x) :
    Valid o (unravel o k) ∧ (a.flattenOuter u.length).get (k :: x) = a.get (unravel o k ++ x) := by
  refine ⟨valid_unravel hk, ?_⟩
  have := get_flattenOuter a hs (valid_unravel hk) hx
  rwa [flatIx_unravel hk] at this

/-- `reshape` of the composite shape: succeeds iff the sizes agree, and unit `i'` of the
result is the unit with the same row-major position in the argument -/
theorem reshape_units (a : ND K) {o o' u i' x : List ℕ} (hs : a.shape = o ++ u)
    (hsz : sz o' = sz o) (hi' : Valid o' i') (hx : Valid u x) :
    ∃ r, a.reshape (o' ++ u) = .ok r ∧ r.shape = o' ++ u ∧
      Valid o (unravel o (flatIx o' i')) ∧
      r.get (i' ++ x) = a.get (unravel o (flatIx o' i') ++ x) := by
  have hk : flatIx o' i' < sz o := hsz ▸ flatIx_lt hi'
  refine ⟨⟨o' ++ u, a.data⟩, reshape_ok a (by rw [hs, sz_append, sz_append, hsz]), rfl,
    valid_unravel hk, ?_⟩
  exact get_reshape_outer a hs (valid_unravel hk).length hi'.length hx (flatIx_unravel hk).symm

theorem reshape_refuses (a : ND K) {s : List ℕ} (h : sz s ≠ sz a.shape) :
    a.reshape s = .error "ValueError" := by simp [reshape, h]

/-- row-major order made concrete: in a 2×3 composite, unit `[1,2]` is unit number 5 of the
flattened object and vice versa (hypotheses of the structural theorems are satisfiable) -/
example : Valid [2, 3] [1, 2] ∧ flatIx [2, 3] [1, 2] = 5 ∧ unravel [2, 3] 5 = [1, 2] ∧ sz [2, 3] = sz [6] := by
  decide

/-- `obj[k]` / `obj[k₀, k₁, …]`: the units of the indexed object are the units behind the index -/
theorem getItem_units (a : ND K) {s t idx x : List ℕ} (hs : a.shape = s ++ t)
    (hidx : idx.length = s.length) (hx : Valid t x) :
    (a.sub idx).shape = t ∧ (a.sub idx).get x = a.get (idx ++ x) :=
  ⟨shape_sub a hs hidx, get_sub a hs hidx hx⟩

/-- iteration (`for u in obj`, python's `__getitem__`/`__len__` protocol): the `k`-th item is
`obj[k]`, in order -/
theorem iter_units (a : ND K) {d : ℕ} {t x : List ℕ} (hs : a.shape = d :: t) {k : ℕ} (hk : k < d)
    (hx : Valid t x) :
    (iterItems a).length = d ∧ ((iterItems a)[k]?.map fun b => b.get x) = some (a.get (k :: x)) := by
  have h := get_sub a (s := [d]) (t := t) (i := [k]) (by simpa using hs) rfl hx
  simp [iterItems, hs, hk, h]

/-- `a[idx] = v`: exactly the units behind `idx` change, to `v`'s -/
theorem setItem_units (a v : ND K) {idx ix : List ℕ} (h : Valid a.shape ix) :
    (a.setSub idx v).shape = a.shape ∧
    (a.setSub idx v).get ix =
      if ix.take idx.length = idx then v.get (ix.drop idx.length) else a.get ix :=
  ⟨rfl, get_setSub a v h⟩

/-- stacking objects (`Cls([obj₀, obj₁, …])` → `np.array([objₖ.proj_data …])`): unit `x` of item
`k` becomes unit `k :: x`, in order -/
theorem stack_units (a : ND K) (rest : List (ND K)) (h : ∀ b ∈ rest, b.shape = a.shape) :
    ∃ c, ND.stack (a :: rest) 0 = .ok c ∧ c.shape = (rest.length + 1) :: a.shape ∧
      ∀ k x, k < rest.length + 1 → Valid a.shape x →
        c.get (k :: x) = ((a :: rest).getD k a).get x :=
  stack0_spec a rest h

/-- `combine` (repaired): the flattened items are concatenated along the unit-list axis, item
after item, units in order -/
theorem concat_units (a : ND K) (rest : List (ND K)) {t : List ℕ}
    (h : ∀ b ∈ a :: rest, ∃ d, b.shape = d :: t) :
    ∃ c, ND.concat (a :: rest) 0 = .ok c ∧
      c.shape = (((a :: rest).map fun b => b.shape.headD 0).sum) :: t ∧
      ∀ k i x, k < rest.length + 1 → i < ((a :: rest).getD k a).shape.headD 0 → Valid t x →
        c.get ((offset ((a :: rest).map fun b => b.shape.headD 0) k + i) :: x) =
          ((a :: rest).getD k a).get (i :: x) :=
  concat0_spec a rest h

example : (ND.stack [ofFn [2] (fun ix => (ix.headD 0 : ℚ)), ofFn [2] (fun ix => (ix.headD 0 + 5 : ℚ))] 0).toOption.map
    (fun c => (c.shape, c.data.toList)) = some ([2, 2], [0, 1, 5, 6]) := by decide +kernel

/-! ## lifting of the vectorised last-axis formulas: unit `i` of `f_vec a` is `f_unit` of unit `i`
of `a`, for every composite rank.  The `ND` models (`GT.Model.Obj.applyBilinear`,
`GT.Model.Vectorised`) are written with the source's own numpy idioms and are compared with the
numpy code on every run (`apply_bilinear_corr`, `vectorised_corr`).

Lifted here: `apply_bilinear` / `normsq` (with and without form, broadcasting outer shapes), the
`(x.T * f.T).T` idiom, `poincare_to_kleinian`, `kleinian_to_poincare`, `poincare_to_halfspace`, `halfspace_to_poincare`,
`affine_coords` / `projective_coords` in every chart, `Segment._compute_aux_data`, in-place `normalize`, the
argument of `arccosh` in `Point.distance`.  NOT lifted by a theorem (stretch; covered by the
per-unit oracle `points_per_unit` / `vectorised_per_unit` only): `origin_to` (runs LAPACK's kernel inside `find_isometry`),
circle parameters (`arctan2`, angle sorting), fixed points (`eig`); `sl2_irrep` on arrays is lifted
in C17 with the ND-side lemmas `entry_units` / `entrywise_units` / `stackLast_units` below. -/

/-- `apply_bilinear(v1, v2, F)[bix] = x F yᵀ` for the units paired by numpy broadcasting -/
theorem applyBilinear_units (v₁ v₂ F : ND K) {o₁ o₂ O : List ℕ} {n : ℕ}
    (h₁ : v₁.shape = o₁ ++ [n]) (h₂ : v₂.shape = o₂ ++ [n]) (hF : F.shape = [n, n])
    (hO : bcastShape o₁ o₂ = some O) :
    ∃ c, applyBilinear v₁ v₂ (some F) = .ok c ∧ c.shape = O ∧
      ∀ bix, Valid O bix →
        scalarAt c bix = bil (matAt F n n []) (rowAt v₁ n (bcIx o₁ bix)) (rowAt v₂ n (bcIx o₂ bix)) :=
  applyBilinear_form_units v₁ v₂ F h₁ h₂ hF hO

/-- `apply_bilinear(v1, v2)[bix] = x · y` (Euclidean), in particular `normsq` -/
theorem applyBilinear_none_units (v₁ v₂ : ND K) {o₁ o₂ O : List ℕ} {n : ℕ}
    (h₁ : v₁.shape = o₁ ++ [n]) (h₂ : v₂.shape = o₂ ++ [n]) (hO : bcastShape o₁ o₂ = some O) :
    ∃ c, applyBilinear v₁ v₂ none = .ok c ∧ c.shape = O ∧
      ∀ bix, Valid O bix → scalarAt c bix = dot (rowAt v₁ n (bcIx o₁ bix)) (rowAt v₂ n (bcIx o₂ bix)) := by
  obtain ⟨c, hc, hs, _, hg⟩ := applyBilinear_none_spec v₁ v₂ h₁ h₂ hO
  refine ⟨c, hc, hs, fun bix hv => ?_⟩
  rw [scalarAt, hg bix hv]
  simp [dot, rowAt]

/-- the `(x.T * f.T).T` idiom scales unit `i` by scalar `i` (a single unit: by the one scalar
that `atleast_1d` wrapped) -/
theorem scaleLast_units (x f : ND K) {o : List ℕ} {n : ℕ} (hx : x.shape = o ++ [n])
    (hf : f.shape = if o = [] then [1] else o) :
    ∃ c, scaleLast x f = .ok c ∧ c.shape = x.shape ∧
      ∀ i, Valid o i → rowAt c n i = f.get (if o = [] then [0] else i) • rowAt x n i := by
  obtain ⟨c, hc, hs, hg⟩ := scaleLast_spec x f hx hf
  refine ⟨c, hc, by rw [hs, hx], fun i hi => ?_⟩
  funext cc
  simp only [rowAt, Pi.smul_apply, smul_eq_mul]
  rw [hg i cc.1 hi cc.2, mul_comm]

/-- `poincare_to_kleinian` on a composite = `p2k` on every unit (C01's chart map) -/
theorem p2k_units (x : ND K) {o : List ℕ} {n : ℕ} (hx : x.shape = o ++ [n]) :
    ∃ c, p2kND x = .ok c ∧ c.shape = x.shape ∧ ∀ i, Valid o i → rowAt c n i = p2k (rowAt x n i) :=
  p2kND_units x hx

/-- `kleinian_to_poincare` on a composite = `k2p` on every unit -/
theorem k2p_units [LinearOrder K] (r : K → K) (x : ND K) {o : List ℕ} {n : ℕ} (hx : x.shape = o ++ [n]) :
    ∃ c, k2pND (fun a => r |a|) x = .ok c ∧ c.shape = x.shape ∧
      ∀ i, Valid o i → rowAt c n i = k2p r (rowAt x n i) :=
  k2pND_units r x hx

/-- in-place `utils.normalize` on a composite = `normalize` on every unit (null rows untouched) -/
theorem normalize_units [DecidableEq K] (rabs : K → K) (v F : ND K) {o : List ℕ} {n : ℕ}
    (hv : v.shape = o ++ [n]) (hF : F.shape = [n, n]) :
    ∃ c, normalizeLit rabs v F = .ok c ∧ c.shape = v.shape ∧
      ∀ i, Valid o i → rowAt c n i = normalizeRowF rabs (matAt F n n []) (rowAt v n i) :=
  normalizeLit_units rabs v F hv hF

/-- the argument of `arccosh` in `Point.distance(self, other)` before `abs`/`max(·,1)` (entrywise
ufuncs): `⟨x̂, ŷ⟩` for the units paired by broadcasting -/
theorem distance_units [DecidableEq K] (rabs : K → K) (x y J : ND K) {o₁ o₂ O : List ℕ} {n : ℕ}
    (hx : x.shape = o₁ ++ [n]) (hy : y.shape = o₂ ++ [n]) (hJ : J.shape = [n, n])
    (hO : bcastShape o₁ o₂ = some O) :
    ∃ nx ny c, normalizeLit rabs x J = .ok nx ∧ normalizeLit rabs y J = .ok ny ∧
      applyBilinear nx ny (some J) = .ok c ∧ c.shape = O ∧
      ∀ bix, Valid O bix →
        scalarAt c bix = bil (matAt J n n [])
          (normalizeRowF rabs (matAt J n n []) (rowAt x n (bcIx o₁ bix)))
          (normalizeRowF rabs (matAt J n n []) (rowAt y n (bcIx o₂ bix))) := by
  obtain ⟨nx, hnx, hnxs, hnxg⟩ := normalizeLit_units rabs x J hx hJ
  obtain ⟨ny, hny, hnys, hnyg⟩ := normalizeLit_units rabs y J hy hJ
  obtain ⟨c, hc, hcs, hcg⟩ := applyBilinear_form_units nx ny J (by rw [hnxs, hx]) (by rw [hnys, hy]) hJ hO
  refine ⟨nx, ny, c, hnx, hny, hc, hcs, fun bix hv => ?_⟩
  rw [hcg bix hv, hnxg _ (valid_bcIx_left hO hv), hnyg _ (valid_bcIx_right hO hv)]

/-- `poincare_to_halfspace` on a composite = `p2h` on every unit (C01's chart map) -/
theorem p2h_units (x : ND K) {o : List ℕ} {n : ℕ} (hx : x.shape = o ++ [n + 1]) :
    ∃ c, p2hND x = .ok c ∧ c.shape = x.shape ∧ ∀ i, Valid o i → rowAt c (n + 1) i = p2h (rowAt x (n + 1) i) :=
  p2hND_units x hx

/-- `halfspace_to_poincare` on a composite = `h2p` on every unit -/
theorem h2p_units (x : ND K) {o : List ℕ} {n : ℕ} (hx : x.shape = o ++ [n + 1]) :
    ∃ c, h2pND x = .ok c ∧ c.shape = x.shape ∧ ∀ i, Valid o i → rowAt c (n + 1) i = h2p (rowAt x (n + 1) i) :=
  h2pND_units x hx

/-- `affine_coords(·, chart_index=c)` on a composite = C16's `affineCoords c` on every unit, every chart -/
theorem affineCoords_units (x : ND K) {o : List ℕ} {n : ℕ} (hx : x.shape = o ++ [n + 1]) (c : Fin (n + 1)) :
    ∃ r, affineCoordsND x c.1 = .ok r ∧ r.shape = o ++ [n] ∧
      ∀ i, Valid o i → rowAt r n i = GT.Affine.affineCoords c (rowAt x (n + 1) i) :=
  affineCoordsND_units x hx c

/-- `projective_coords(·, chart_index=c)` on a composite = C16's `projCoords c` on every unit -/
theorem projCoords_units (a : ND K) {o : List ℕ} {n : ℕ} (ha : a.shape = o ++ [n]) (c : Fin (n + 1)) :
    (projCoordsND a c.1).shape = o ++ [n + 1] ∧
      ∀ i, Valid o i → rowAt (projCoordsND a c.1) (n + 1) i = GT.Affine.projCoords c (rowAt a n i) :=
  projCoordsND_units a ha c

/-- the vectorised `Segment._compute_aux_data` (batched `@`, `products[..., i, j]`, entrywise scalar
arithmetic, `mu[..., np.newaxis]` broadcasting, `np.stack(axis=-2)`) on a composite = C03/C11's
`segmentIdeal` on every unit, endpoint order included -/
theorem segmentAux_units (r : K → K) (e : ND K) {o : List ℕ} {n : ℕ} (he : e.shape = o ++ [2, n]) :
    ∃ c, segmentAuxND r e = .ok c ∧ c.shape = o ++ [2, n] ∧
      ∀ i, Valid o i → matAt c 2 n i = segmentIdeal (minkJ n) r (matAt e 2 n i) :=
  segmentAuxND_units r e he

/-! ND-side lemmas for lifting entrywise array formulas (indexing `a[..., i, j]`, entrywise
arithmetic, stacking along a new trailing axis) — used for the Lie-map liftings of C17 -/

theorem entry_units (a : ND K) {o : List ℕ} {p n : ℕ} (hs : a.shape = o ++ [p, n]) {i j : ℕ}
    (hi : i < p) (hj : j < n) :
    ((a.selectLast j).selectLast i).shape = o ∧
    ∀ ix, Valid o ix → ((a.selectLast j).selectLast i).get ix = matAt a p n ix ⟨i, hi⟩ ⟨j, hj⟩ :=
  entryLast2_spec a hs hi hj

theorem entrywise_units (f : K → K → K) (a b : ND K) {o : List ℕ} (ha : a.shape = o) (hb : b.shape = o) :
    ∃ c, zipBcast f a b = .ok c ∧ c.shape = o ∧ c.WF ∧
      ∀ i, Valid o i → scalarAt c i = f (scalarAt a i) (scalarAt b i) :=
  zipSame_scalar f a b ha hb

theorem entrywise_mat_units (f : K → K → K) (a b : ND K) {o : List ℕ} {p n : ℕ} (ha : a.shape = o ++ [p, n])
    (hb : b.shape = o ++ [p, n]) :
    ∃ c, zipBcast f a b = .ok c ∧ c.shape = o ++ [p, n] ∧
      ∀ i, Valid o i → matAt c p n i = fun r cc => f (matAt a p n i r cc) (matAt b p n i r cc) :=
  zipSame_mat f a b ha hb

theorem stackLast_units (a : ND K) (rest : List (ND K)) (h : ∀ b ∈ rest, b.shape = a.shape) :
    ∃ c, ND.stack (a :: rest) a.shape.length = .ok c ∧ c.shape = a.shape ++ [rest.length + 1] ∧
      ∀ i, Valid a.shape i → rowAt c (rest.length + 1) i = fun k => ((a :: rest).getD k.1 a).get i :=
  stackLast_row a rest h

/-- the hypotheses of the lifting theorems are shape equations, met e.g. by a 3×2 composite of
points of the plane -/
example : ∃ c, p2kND (ofFn [3, 2, 2] fun _ => (1 / 2 : ℚ)) = .ok c ∧ c.shape = [3, 2, 2] := by
  obtain ⟨c, hc, hs, _⟩ := p2k_units (ofFn [3, 2, 2] fun _ => (1 / 2 : ℚ)) (o := [3, 2]) (n := 2) rfl
  exact ⟨c, hc, hs⟩

/-! ## added after the model-mutant round: `Transformation.apply` on an OBJECT — which product is
formed for which block (unit rank of the class for the primary data, auxiliary rank for the derived
data, rank 1 and the inverse transpose for the dual data), in every broadcast mode -/

/-- the three products of `Transformation.apply(obj, broadcast=mode)` -/
theorem apply_blocks {X Y : Obj K} {A AinvT : ND K} {mode : Bcast} (h : X.apply A AinvT mode = .ok Y) :
    Y.kind = X.kind ∧ matrixProduct X.proj A X.kind.unitNdims 2 mode = .ok Y.proj ∧
    (X.aux = none → Y.aux = none) ∧
    (∀ a, X.aux = some a → ∃ a', matrixProduct a A X.kind.auxNdims 2 mode = .ok a' ∧ Y.aux = some a') ∧
    (X.dual = none → Y.dual = none) ∧
    (∀ d, X.dual = some d → ∃ d', matrixProduct d AinvT 1 2 mode = .ok d' ∧ Y.dual = some d') := by
  unfold Obj.apply at h
  split at h
  · cases h
  · rename_i p hp
    split at h
    · cases h
    · rename_i a' ha'
      split at h
      · cases h
      · rename_i d' hd'
        cases h
        refine ⟨rfl, hp, ?_, ?_, ?_, ?_⟩
        · intro hn; rw [hn] at ha'; simpa using ha'.symm
        · intro a hsome
          rw [hsome] at ha'
          simp only at ha'
          cases hm : matrixProduct a A X.kind.auxNdims 2 mode with
          | error e => rw [hm] at ha'; simp [Except.map] at ha'
          | ok a'' => rw [hm] at ha'; simp [Except.map] at ha'; exact ⟨a'', rfl, ha'.symm⟩
        · intro hn; rw [hn] at hd'; simpa using hd'.symm
        · intro d hsome
          rw [hsome] at hd'
          simp only at hd'
          cases hm : matrixProduct d AinvT 1 2 mode with
          | error e => rw [hm] at hd'; simp [Except.map] at hd'
          | ok d'' => rw [hm] at hd'; simp [Except.map] at hd'; exact ⟨d'', rfl, hd'.symm⟩

/-- `Transformation.apply(obj, broadcast=mode)` unit by unit: class kept, and at every result index
`bix` every block is the unit product of the units that `unitIx1/2` select — primary data with the
class's unit rank, derived data of segments / tangent vectors as 2×n matrices, polygon edges as a
stack of 2×n matrices (the edge axis is NOT a composite axis), dual data as rows times the supplied
inverse transpose -/
theorem apply_units (mode : Bcast) {X Y : Obj K} {A AinvT : ND K} {o₁ o₂ O : List ℕ} {n : ℕ}
    (hA : A.shape = o₂ ++ [n, n]) (hAi : AinvT.shape = o₂ ++ [n, n])
    (hO : outerShape mode o₁ o₂ = some O) (h : X.apply A AinvT mode = .ok Y) :
    Y.kind = X.kind ∧
    (X.kind = .point → X.proj.shape = o₁ ++ [n] →
      Y.proj.shape = O ++ [n] ∧ ∀ bix, Valid O bix →
        rowAt Y.proj n bix =
          Matrix.vecMul (rowAt X.proj n (unitIx1 mode o₁ o₂ bix)) (matAt A n n (unitIx2 mode o₁ o₂ bix))) ∧
    (X.kind ≠ .point → ∀ p, X.proj.shape = o₁ ++ [p, n] →
      Y.proj.shape = O ++ [p, n] ∧ ∀ bix, Valid O bix →
        matAt Y.proj p n bix =
          matAt X.proj p n (unitIx1 mode o₁ o₂ bix) * matAt A n n (unitIx2 mode o₁ o₂ bix)) ∧
    (X.kind = .segment ∨ X.kind = .tangent → ∀ a, X.aux = some a → a.shape = o₁ ++ [2, n] →
      ∃ a', Y.aux = some a' ∧ a'.shape = O ++ [2, n] ∧ ∀ bix, Valid O bix →
        matAt a' 2 n bix = matAt a 2 n (unitIx1 mode o₁ o₂ bix) * matAt A n n (unitIx2 mode o₁ o₂ bix)) ∧
    (X.kind = .polygon → ∀ a k, X.aux = some a → a.shape = o₁ ++ [k, 2, n] →
      ∃ a', Y.aux = some a' ∧ a'.shape = O ++ [k, 2, n] ∧ ∀ bix, Valid O bix → ∀ v,
        stackAt a' k 2 n bix v =
          stackAt a k 2 n (unitIx1 mode o₁ o₂ bix) v * matAt A n n (unitIx2 mode o₁ o₂ bix)) ∧
    (∀ d, X.dual = some d → d.shape = o₁ ++ [n] →
      ∃ d', Y.dual = some d' ∧ d'.shape = O ++ [n] ∧ ∀ bix, Valid O bix →
        rowAt d' n bix =
          Matrix.vecMul (rowAt d n (unitIx1 mode o₁ o₂ bix)) (matAt AinvT n n (unitIx2 mode o₁ o₂ bix))) := by
  obtain ⟨hk, hp, -, haux, -, hdual⟩ := apply_blocks h
  refine ⟨hk, ?_, ?_, ?_, ?_, ?_⟩
  · intro hpt hs
    rw [hpt] at hp
    obtain ⟨c, hc, hcs, hcg⟩ := matrixProduct_units_12 mode X.proj A hs hA hO
    rw [show Kind.unitNdims .point = 1 from rfl, hc] at hp
    cases hp
    exact ⟨hcs, hcg⟩
  · intro hnp p hs
    have hu : X.kind.unitNdims = 2 := by cases hX : X.kind <;> simp_all [Kind.unitNdims]
    rw [hu] at hp
    obtain ⟨c, hc, hcs, hcg⟩ := matrixProduct_units_22 mode X.proj A hs hA hO
    rw [hc] at hp
    cases hp
    exact ⟨hcs, hcg⟩
  · intro hst a ha hs
    obtain ⟨a', hm, hY⟩ := haux a ha
    have hu : X.kind.auxNdims = 2 := by rcases hst with h | h <;> rw [h] <;> rfl
    rw [hu] at hm
    obtain ⟨c, hc, hcs, hcg⟩ := matrixProduct_units_22 mode a A hs hA hO
    rw [hc] at hm
    cases hm
    exact ⟨_, hY, hcs, hcg⟩
  · intro hpoly a k ha hs
    obtain ⟨a', hm, hY⟩ := haux a ha
    rw [hpoly, show Kind.auxNdims .polygon = 3 from rfl] at hm
    obtain ⟨c, hc, hcs, hcg⟩ := matrixProduct_units_32 mode a A hs hA hO
    rw [hc] at hm
    cases hm
    exact ⟨_, hY, hcs, hcg⟩
  · intro d hd hs
    obtain ⟨d', hm, hY⟩ := hdual d hd
    obtain ⟨c, hc, hcs, hcg⟩ := matrixProduct_units_12 mode d AinvT hs hAi hO
    rw [hc] at hm
    cases hm
    exact ⟨_, hY, hcs, hcg⟩

end GT.C04
