/- property theorems for C14 (filled in below) -/
