/-
C14 — circle and sphere parameters describe the true geodesic, segment and horosphere.
Only property theorems and non-vacuity examples live here; helper lemmas are in
`GT.Lemmas.Circle`.  Model: `GT.Model.Circle`.

`Subspace.sphere_parameters` is modelled as repaired (D10): the Klein point from which the
Poincaré sphere is built is the foot of the perpendicular from the origin to the affine hull of
the ideal basis, the half-space centre is the circumcentre of the ideal basis; both come out
of `np.linalg.pinv`, which enters as a contract (`IsFoot`, `IsCircumcentre`).  The pinned tree
used the centroid in both places: right for two ideal points (`sphere_parameters_partial`),
wrong from three on (`sphere_k3_counterexample`, `halfspace_k3_counterexample`).
-/
import GT.Lemmas.Circle
import GT.Lemmas.ArcCyclic
import GT.Properties.C01
import Mathlib.Tactic.NormNum
import Mathlib.Tactic.FinCases

open Finset BigOperators

set_option linter.unusedSectionVars false

namespace GT.C14
open GT GT.Targets GT.Circle

section generic
variable {K : Type*} [Field K] [LinearOrder K] [IsStrictOrderedRing K] {n : ℕ} {r : K → K}

/-! ## ideal endpoints of a segment -/

/-- both rows of `Segment._compute_aux_data` are lightlike (when the leading coefficient is
non-zero and the supplied root squares to the discriminant) -/
theorem segmentIdeal_null (x₁ x₂ : Fin (n + 1) → K) (ha : segA x₁ x₂ ≠ 0)
    (hd : r (segDisc x₁ x₂) * r (segDisc x₁ x₂) = segDisc x₁ x₂) :
    mink (segmentIdeal r x₁ x₂).1 (segmentIdeal r x₁ x₂).1 = 0 ∧
    mink (segmentIdeal r x₁ x₂).2 (segmentIdeal r x₁ x₂).2 = 0 := by
  have key : ∀ sgn : K, sgn * sgn = 1 →
      mink (segNull (segMu r sgn x₁ x₂) x₁ x₂) (segNull (segMu r sgn x₁ x₂) x₁ x₂) = 0 := by
    intro sgn hs
    rw [mink_segNull]
    have hmu : 2 * segA x₁ x₂ * segMu r sgn x₁ x₂
        = -segB x₁ x₂ + sgn * r (segDisc x₁ x₂) := by
      unfold segMu; field_simp
    have hd' : r (segDisc x₁ x₂) * r (segDisc x₁ x₂)
        = segB x₁ x₂ * segB x₁ x₂ - 4 * segA x₁ x₂ * segC x₁ x₂ := by rw [hd]; rfl
    generalize r (segDisc x₁ x₂) = R at hd' hmu
    generalize segMu r sgn x₁ x₂ = mu at hmu ⊢
    have h4 : 4 * segA x₁ x₂ * (segA x₁ x₂ * mu ^ 2 + segB x₁ x₂ * mu + segC x₁ x₂) = 0 := by
      linear_combination (2 * segA x₁ x₂ * mu + (-segB x₁ x₂ + sgn * R) + 2 * segB x₁ x₂) * hmu
        + sgn * sgn * hd' + (segB x₁ x₂ * segB x₁ x₂ - 4 * segA x₁ x₂ * segC x₁ x₂) * hs
    rcases mul_eq_zero.1 h4 with h | h
    · exfalso; apply ha; linarith
    · exact h
  exact ⟨key 1 (by ring), key (-1) (by ring)⟩

/-- for interior endpoints the discriminant is non-negative (reverse Cauchy–Schwarz), so the
real square root the code takes exists -/
theorem segDisc_nonneg (x₁ x₂ : Fin (n + 1) → K) (h₁ : mink x₁ x₁ < 0) (h₂ : mink x₂ x₂ < 0) :
    0 ≤ segDisc x₁ x₂ := by
  rw [segDisc_eq]; have := reverse_cs x₁ x₂ h₁ h₂; linarith

/-- for representatives with equal time coordinate (both built from Klein/Poincaré/half-space
coordinates) and distinct points the leading coefficient is positive -/
theorem segA_pos (x₁ x₂ : Fin (n + 1) → K) (h0 : x₁ 0 = x₂ 0) (hne : x₁ ≠ x₂) :
    0 < segA x₁ x₂ := by
  rw [segA_eq]
  have : mink (fun i => x₁ i - x₂ i) (fun i => x₁ i - x₂ i)
      = nsq (Fin.tail fun i => x₁ i - x₂ i) := by
    unfold mink nsq; simp [h0]
  rw [this]
  rcases (nsq_nonneg (Fin.tail fun i => x₁ i - x₂ i)).lt_or_eq with h | h
  · exact h
  · exfalso; apply hne
    have hz : ∀ i, Fin.tail (fun i => x₁ i - x₂ i) i = 0 := by
      intro i
      by_contra hi
      have hpos : 0 < nsq (Fin.tail fun i => x₁ i - x₂ i) := by
        unfold nsq dot
        apply Finset.sum_pos'
        · intro j _; exact mul_self_nonneg _
        · exact ⟨i, Finset.mem_univ i, mul_self_pos.2 hi⟩
      linarith
    funext i
    refine Fin.cases ?_ (fun j => ?_) i
    · exact h0
    · have := hz j; simp only [Fin.tail] at this; exact sub_eq_zero.1 this

/-- the ideal endpoints lie on the line through the endpoints: in homogeneous coordinates by
construction, and in the Klein model as an affine combination of the endpoints' coordinates -/
theorem segmentIdeal_in_span (mu : K) (x₁ x₂ : Fin (n + 1) → K)
    (h : mu * x₁ 0 + (1 - mu) * x₂ 0 ≠ 0) (h₁ : x₁ 0 ≠ 0) (h₂ : x₂ 0 ≠ 0) :
    let t := mu * x₁ 0 / (mu * x₁ 0 + (1 - mu) * x₂ 0)
    klein (segNull mu x₁ x₂) = fun i => t * klein x₁ i + (1 - t) * klein x₂ i := by
  intro t
  funext i
  simp only [klein, segNull, t]
  field_simp
  ring

/-! ## Poincaré model: the sphere of a totally geodesic subspace -/

/-- the sphere built from a Klein point `m` of the closed ball (`m ≠ 0`) has centre `m/|m|²`
and meets the unit sphere at right angles: `|c|² = 1 + ρ²` -/
theorem poincareSphere_orth (hr : IsSqrt r) (m : Fin n → K) (h0 : 0 < nsq m) (h1 : nsq m ≤ 1) :
    (poincareSphere r m).1 = (fun i => m i / nsq m) ∧
    nsq (poincareSphere r m).1 = 1 + (poincareSphere r m).2 ^ 2 := by
  obtain ⟨hc, hrad, _⟩ := poincareSphere_closed hr m h0 h1
  refine ⟨hc, ?_⟩
  have hr2 : (poincareSphere r m).2 ^ 2 = (1 - nsq m) / nsq m := by rw [pow_two]; exact hrad
  rw [hr2, hc, nsq_div]
  have hm0 : nsq m ≠ 0 := h0.ne'
  field_simp
  ring

/-- every point `x` of the closed Klein ball on the hyperplane `x·m = |m|²` (the affine hull
of the ideal basis lies in it) goes, under Klein → Poincaré, onto the reported sphere; for
`|x| = 1` the point is an ideal point and is its own image -/
theorem poincareSphere_chord (hr : IsSqrt r) (m x : Fin n → K) (h0 : 0 < nsq m) (h1 : nsq m ≤ 1)
    (hx : nsq x ≤ 1) (hxm : dot x m = nsq m) :
    nsq (fun i => k2p r x i - (poincareSphere r m).1 i) = (poincareSphere r m).2 ^ 2 := by
  obtain ⟨hc, hrad, _⟩ := poincareSphere_closed hr m h0 h1
  have hb : 0 ≤ 1 - nsq x := by linarith
  obtain ⟨hs0, hs1⟩ := hr (1 - nsq x) hb
  have hp : k2p r x = fun i => x i * (1 / (1 + r (1 - nsq x))) := by
    funext j; unfold k2p; rw [abs_of_nonneg hb]
  generalize r (1 - nsq x) = s at hs0 hs1 hp
  have hne : (1 + s) ≠ 0 := by linarith
  have hxx : nsq x = 1 - s * s := by rw [hs1]; ring
  have hr2 : (poincareSphere r m).2 ^ 2 = (1 - nsq m) / nsq m := by rw [pow_two]; exact hrad
  rw [hr2, nsq_sub, hc, nsq_div, dot_div_right, hp, nsq_smul, dot_smul_left, hxm, hxx]
  have hm0 : nsq m ≠ 0 := h0.ne'
  field_simp
  ring

/-- `Subspace.sphere_parameters(POINCARE)` (repaired): for an ideal basis of any size whose
affine hull misses the origin, the reported sphere contains every ideal point of the basis
and is orthogonal to the boundary -/
theorem sphere_parameters_poincare {k : ℕ} (hr : IsSqrt r) (lam : Fin (k + 1) → K)
    (ks : Fin (k + 1) → Fin n → K) (hk : ∀ j, nsq (ks j) = 1) (hf : IsFoot lam ks)
    (h0 : 0 < nsq (affComb lam ks)) :
    (∀ j, nsq (fun i => ks j i - (poincareSphereFoot r lam ks).1 i)
        = (poincareSphereFoot r lam ks).2 ^ 2) ∧
    nsq (poincareSphereFoot r lam ks).1 = 1 + (poincareSphereFoot r lam ks).2 ^ 2 := by
  set m := affComb lam ks with hm
  have hdot := fun j => hf.dot_eq j
  -- |m|² ≤ 1: k₀ = m + (k₀ - m) is an orthogonal decomposition
  have h1 : nsq m ≤ 1 := by
    have h := nsq_sub (ks 0) m
    have hnn := nsq_nonneg (fun i => ks 0 i - m i)
    rw [hk 0, hdot 0] at h
    linarith
  refine ⟨fun j => ?_, (poincareSphere_orth hr m h0 h1).2⟩
  have hself : k2p r (ks j) = ks j := by
    funext i; unfold k2p; rw [hk j]; simp [hr.zero]
  have := poincareSphere_chord hr m (ks j) h0 h1 (by rw [hk j]) (hdot j)
  rw [hself] at this
  exact this

/-- for two ideal points the midpoint is the foot: `lamMid` satisfies the `pinv` contract -/
theorem lamMid_isFoot (ks : Fin 2 → Fin n → K) (hk : nsq (ks 0) = nsq (ks 1)) :
    IsFoot lamMid ks := by
  refine ⟨by simp [lamMid], fun j => ?_⟩
  rw [affComb_lamMid]
  have e : (fun i => (ks 0 i + ks 1 i) / 2) = fun i => (1 / 2) * ks 0 i + (1 / 2) * ks 1 i := by
    funext i; ring
  rw [e, dot_sub_left, dot_lin_right, dot_lin_right]
  unfold nsq at hk
  fin_cases j
  · simp
  · simp only [Fin.mk_one, Fin.isValue]
    rw [dot_comm (ks 1) (ks 0)]; linear_combination (-(1 : K) / 2) * hk

/-- **partial** (pinned-tree construction): the centroid construction of
`Subspace.sphere_parameters(POINCARE)` is correct for an ideal basis of two points (a geodesic)
— the sphere passes through both and is orthogonal to the boundary.  What is missing: the
same statement for three or more ideal points, which is false for the centroid construction
(`sphere_k3_counterexample`) and is what the repair (`sphere_parameters_poincare`) provides. -/
theorem sphere_parameters_partial (hr : IsSqrt r) (ks : Fin 2 → Fin n → K)
    (hk : ∀ j, nsq (ks j) = 1) (h0 : 0 < nsq (centroid ks)) :
    (∀ j, nsq (fun i => ks j i - (poincareSphereCentroid r ks).1 i)
        = (poincareSphereCentroid r ks).2 ^ 2) ∧
    nsq (poincareSphereCentroid r ks).1 = 1 + (poincareSphereCentroid r ks).2 ^ 2 := by
  have e : centroid ks = affComb lamMid ks := by rw [centroid_two, affComb_lamMid]
  have := sphere_parameters_poincare hr lamMid ks hk
    (lamMid_isFoot ks (by rw [hk 0, hk 1])) (by rw [← e]; exact h0)
  unfold poincareSphereCentroid
  unfold poincareSphereFoot at this
  rw [e]; exact this

/-! ## half-space model -/

/-- `Subspace.sphere_parameters(HALFSPACE)` (repaired): the reported sphere contains every
element of the ideal basis, and its centre lies on the boundary (so it meets the boundary at
right angles) -/
theorem sphere_parameters_halfspace {k : ℕ} (hr : IsSqrt r) (lam : Fin (k + 1) → K)
    (hs : Fin (k + 1) → Fin (n + 1) → K) (hc : IsCircumcentre lam hs)
    (hb : ∀ j, hs j (Fin.last n) = 0) :
    (∀ j, nsq (fun i => hs j i - (halfspaceSphere r lam hs).1 i)
        = (halfspaceSphere r lam hs).2 ^ 2) ∧
    (halfspaceSphere r lam hs).1 (Fin.last n) = 0 := by
  obtain ⟨h1, h2⟩ := hc
  set c := affComb lam hs with hcdef
  have hrad : (halfspaceSphere r lam hs).2 ^ 2 = nsq (fun i => hs 0 i - c i) := by
    show (r (nsq (fun i => hs 0 i - c i))) ^ 2 = _
    rw [pow_two]; exact (hr _ (nsq_nonneg _)).2
  refine ⟨fun j => ?_, ?_⟩
  · rw [hrad]
    show nsq (fun i => hs j i - c i) = _
    have e : (fun i => hs j i - c i)
        = fun i => (fun i => hs j i - hs 0 i) i - (fun i => c i - hs 0 i) i := by
      funext i; ring
    have e0 : (fun i => hs 0 i - c i) = fun i => (c i - hs 0 i) * (-1) := by funext i; ring
    rw [e, nsq_sub, e0, nsq_smul]
    have := h2 j
    linarith
  · show c (Fin.last n) = 0
    simp [hcdef, affComb, hb]

/-- for two ideal points the midpoint is the circumcentre: `lamMid` satisfies the contract -/
theorem lamMid_isCircumcentre (hs : Fin 2 → Fin n → K) : IsCircumcentre lamMid hs := by
  refine ⟨by simp [lamMid], fun j => ?_⟩
  rw [affComb_lamMid]
  have e : (fun i => (hs 0 i + hs 1 i) / 2 - hs 0 i) = fun i => (hs 1 i - hs 0 i) * (1 / 2) := by
    funext i; ring
  rw [e, dot_smul_right]
  fin_cases j
  · simp [nsq, dot]
  · simp only [Fin.mk_one, Fin.isValue]; unfold nsq; ring

/-- vector identity: squared distance to a midpoint -/
theorem nsq_sub_mid (h a b : Fin n → K) :
    nsq (fun i => h i - (a i + b i) / 2)
      = (nsq (fun i => h i - a i) + nsq (fun i => h i - b i)) / 2 - nsq (fun i => a i - b i) / 4 := by
  have e : (fun i => (a i + b i) / 2) = fun i => (1 / 2) * a i + (1 / 2) * b i := by
    funext i; ring
  rw [nsq_sub, nsq_sub, nsq_sub, nsq_sub, e, nsq_lin, dot_lin_right]; ring

/-- **half-space model, through the endpoints**: for two ideal points `k₁`, `k₂` (Klein =
Poincaré coordinates) the sphere reported by `sphere_parameters(HALFSPACE)` — centre the midpoint
of their half-space images, radius the distance to the first — passes through the half-space
image of *every* point `x = t k₁ + (1-t) k₂` of the Klein chord, in particular through both
endpoints of a segment on that geodesic (Thales: the images see `h₁h₂` under a right angle) -/
theorem halfspace_chord (hr : IsSqrt r) (k₁ k₂ : Fin (n + 1) → K) (h₁ : nsq k₁ = 1)
    (h₂ : nsq k₂ = 1) (hp₁ : poleDist k₁ ≠ 0) (hp₂ : poleDist k₂ ≠ 0) (t : K)
    (hx : nsq (fun i => t * k₁ i + (1 - t) * k₂ i) ≤ 1)
    (hpx : poleDist (k2p r fun i => t * k₁ i + (1 - t) * k₂ i) ≠ 0) :
    let hs : Fin 2 → Fin (n + 1) → K := ![p2h k₁, p2h k₂]
    nsq (fun i => p2h (k2p r fun i => t * k₁ i + (1 - t) * k₂ i) i
        - (halfspaceSphere r lamMid hs).1 i) = (halfspaceSphere r lamMid hs).2 ^ 2 := by
  intro hs
  set x : Fin (n + 1) → K := fun i => t * k₁ i + (1 - t) * k₂ i with hxdef
  have hb : 0 ≤ 1 - nsq x := by linarith
  obtain ⟨hs0, hs1⟩ := hr (1 - nsq x) hb
  have hpdef : k2p r x = fun i => x i * (1 / (1 + r (1 - nsq x))) := by
    funext j; unfold k2p; rw [abs_of_nonneg hb]
  generalize r (1 - nsq x) = s at hs0 hs1 hpdef
  have hne : (1 + s) ≠ 0 := by linarith
  have hxx : nsq x = 1 - s * s := by rw [hs1]; ring
  -- centre and radius
  have hc : (halfspaceSphere r lamMid hs).1 = fun i => (p2h k₁ i + p2h k₂ i) / 2 := by
    show affComb lamMid hs = _
    rw [affComb_lamMid]; rfl
  have hrad : (halfspaceSphere r lamMid hs).2 ^ 2
      = nsq (fun i => p2h k₁ i - p2h k₂ i) / 4 := by
    show (r (nsq (fun i => hs 0 i - affComb lamMid hs i))) ^ 2 = _
    rw [pow_two, (hr _ (nsq_nonneg _)).2, affComb_lamMid]
    have : (fun i => hs 0 i - (hs 0 i + hs 1 i) / 2)
        = fun i => (p2h k₁ i - p2h k₂ i) * (1 / 2) := by
      funext i; show p2h k₁ i - (p2h k₁ i + p2h k₂ i) / 2 = _; ring
    rw [this, nsq_smul]; ring
  rw [hc, hrad, nsq_sub_mid, nsq_p2h_sub (k2p r x) k₁ hpx hp₁, nsq_p2h_sub (k2p r x) k₂ hpx hp₂,
    nsq_p2h_sub k₁ k₂ hp₁ hp₂]
  -- the three chordal distances and the three pole distances
  have hxk₁ : dot x k₁ = t + (1 - t) * dot k₁ k₂ := by
    rw [hxdef, dot_lin_left]; unfold nsq at h₁; rw [h₁, dot_comm k₂ k₁]; ring
  have hxk₂ : dot x k₂ = t * dot k₁ k₂ + (1 - t) := by
    rw [hxdef, dot_lin_left]; unfold nsq at h₂; rw [h₂]; ring
  have hN₁ : nsq (fun i => k2p r x i - k₁ i) * (1 + s) = 2 * (1 - t) * (1 - dot k₁ k₂) := by
    rw [nsq_sub, hpdef, nsq_smul, dot_smul_left, hxk₁, h₁, hxx]; field_simp; ring
  have hN₂ : nsq (fun i => k2p r x i - k₂ i) * (1 + s) = 2 * t * (1 - dot k₁ k₂) := by
    rw [nsq_sub, hpdef, nsq_smul, dot_smul_left, hxk₂, h₂, hxx]; field_simp; ring
  have hN₁₂ : nsq (fun i => k₁ i - k₂ i) = 2 - 2 * dot k₁ k₂ := by
    rw [nsq_sub, h₁, h₂]; ring
  have hD₁ : poleDist k₁ = 2 * (1 - k₁ 0) := by rw [poleDist_eq, h₁]; ring
  have hD₂ : poleDist k₂ = 2 * (1 - k₂ 0) := by rw [poleDist_eq, h₂]; ring
  have hDp : poleDist (k2p r x) * (1 + s) = 2 * (1 - t * k₁ 0 - (1 - t) * k₂ 0) := by
    rw [poleDist_eq, hpdef, nsq_smul, hxx]; simp only [hxdef]; field_simp; ring
  -- express everything through the products with (1+s)
  have e₁ : nsq (fun i => k2p r x i - k₁ i) = 2 * (1 - t) * (1 - dot k₁ k₂) / (1 + s) := by
    rw [← hN₁]; field_simp
  have e₂ : nsq (fun i => k2p r x i - k₂ i) = 2 * t * (1 - dot k₁ k₂) / (1 + s) := by
    rw [← hN₂]; field_simp
  have e₃ : poleDist (k2p r x) = 2 * (1 - t * k₁ 0 - (1 - t) * k₂ 0) / (1 + s) := by
    rw [← hDp]; field_simp
  have hq₃ : (1 - t * k₁ 0 - (1 - t) * k₂ 0) ≠ 0 := by
    intro h0; apply hpx; rw [e₃, h0]; simp
  have hq₁ : (1 - k₁ 0) ≠ 0 := by
    intro h0; apply hp₁; rw [hD₁, h0]; ring
  have hq₂ : (1 - k₂ 0) ≠ 0 := by
    intro h0; apply hp₂; rw [hD₂, h0]; ring
  rw [e₁, e₂, e₃, hN₁₂, hD₁, hD₂]
  field_simp
  ring

/-! ## horospheres -/

/-- `Horosphere.sphere_parameters(POINCARE)`: the sphere passes through the reference point,
passes through the ideal centre point and has its centre on the radius to it at distance
`1 - ρ` from the origin — it is internally tangent to the unit sphere there -/
theorem horosphere_poincare (ideal ref : Fin n → K) (hi : nsq ideal = 1)
    (hne : 1 - dot ideal ref ≠ 0) :
    let c := (horoPoincare ideal ref).1
    let ρ := (horoPoincare ideal ref).2
    nsq (fun i => ref i - c i) = ρ ^ 2 ∧ nsq (fun i => ideal i - c i) = ρ ^ 2 ∧
      c = (fun i => ideal i * (1 - ρ)) ∧ nsq c = (1 - ρ) ^ 2 := by
  intro c ρ
  have hc : c = fun i => ideal i * (1 - ρ) := rfl
  have hρ : ρ = nsq (fun i => ideal i - ref i) / (2 * (1 - dot ideal ref)) := rfl
  have hsub := nsq_sub ideal ref
  refine ⟨?_, ?_, hc, ?_⟩
  · rw [nsq_sub, hc, nsq_smul, dot_smul_right, hi, dot_comm ref ideal]
    have : nsq ref = 2 * (1 - dot ideal ref) * ρ - 1 + 2 * dot ideal ref := by
      rw [hρ, hsub, hi]; field_simp; ring
    rw [this]; ring
  · rw [nsq_sub, hc, nsq_smul, dot_smul_right]
    show nsq ideal - 2 * ((1 - ρ) * nsq ideal) + (1 - ρ) ^ 2 * nsq ideal = ρ ^ 2
    rw [hi]; ring
  · rw [hc, nsq_smul, hi]; ring

/-- the horosphere's Euclidean radius lies in `(0, 1)` for an interior reference point -/
theorem horosphere_poincare_radius (ideal ref : Fin n → K) (hi : nsq ideal = 1)
    (hr : nsq ref < 1) :
    0 < (horoPoincare ideal ref).2 ∧ (horoPoincare ideal ref).2 < 1 := by
  have hsub := nsq_sub ideal ref
  have hnn := nsq_nonneg (fun i => ideal i - ref i)
  have hr0 := nsq_nonneg ref
  -- |ideal·ref| < 1 by Cauchy–Schwarz in the form |ideal - ref|² > 0 and |ideal + ref|² ≥ 0
  have hpos : 0 < 1 - dot ideal ref := by
    have h2 : 0 ≤ nsq (fun i => ideal i - ref i) := hnn
    rw [hsub, hi] at h2
    nlinarith
  have hcs : dot ideal ref ^ 2 ≤ nsq ref := by
    have h := nsq_nonneg (fun i => ref i - ideal i * dot ideal ref)
    have e := nsq_sub ref (fun i => ideal i * dot ideal ref)
    rw [nsq_smul, dot_smul_right, hi, dot_comm ref ideal] at e
    rw [e] at h; nlinarith
  have hd : 0 < nsq (fun i => ideal i - ref i) := by
    rw [hsub, hi]
    have h3 : (1 - dot ideal ref) ^ 2 ≤ 1 - 2 * dot ideal ref + nsq ref := by nlinarith
    have h4 : 0 < (1 - dot ideal ref) ^ 2 := by positivity
    linarith
  show 0 < nsq (fun i => ideal i - ref i) / (2 * (1 - dot ideal ref)) ∧
    nsq (fun i => ideal i - ref i) / (2 * (1 - dot ideal ref)) < 1
  refine ⟨by positivity, ?_⟩
  rw [div_lt_one (by positivity), hsub, hi]; linarith

/-- `Horosphere.sphere_parameters(HALFSPACE)`: the sphere passes through the reference point
and touches the boundary at the ideal centre point (centre straight above it at height `ρ`) -/
theorem horosphere_halfspace (ideal ref : Fin (n + 1) → K) (hz : ref (Fin.last n) ≠ 0)
    (hi : ideal (Fin.last n) = 0) :
    let c := (horoHalfspace ideal ref).1
    let ρ := (horoHalfspace ideal ref).2
    nsq (fun i => ref i - c i) = ρ ^ 2 ∧ nsq (fun i => ideal i - c i) = ρ ^ 2 ∧
      Fin.init c = Fin.init ideal ∧ c (Fin.last n) = ρ := by
  intro c ρ
  have split : ∀ v : Fin (n + 1) → K, nsq v = nsq (Fin.init v) + v (Fin.last n) ^ 2 := by
    intro v; unfold nsq dot; rw [Fin.sum_univ_castSucc]; simp [Fin.init, pow_two]
  have hcl : c (Fin.last n) = ρ := by
    show (Fin.snoc (Fin.init ideal) ρ : Fin (n + 1) → K) (Fin.last n) = ρ
    simp
  have hci : Fin.init c = Fin.init ideal := by
    show Fin.init (Fin.snoc (Fin.init ideal) ρ : Fin (n + 1) → K) = _
    simp
  have hρ : ρ = (1 / 2) * (nsq (fun i => Fin.init ideal i - Fin.init ref i)
      / ref (Fin.last n) + ref (Fin.last n)) := rfl
  have hci' : ∀ i : Fin n, c i.castSucc = ideal i.castSucc := fun i => congrFun hci i
  refine ⟨?_, ?_, hci, hcl⟩
  · rw [split]
    have e1 : Fin.init (fun i => ref i - c i) = fun i => Fin.init ref i - Fin.init ideal i := by
      funext i; simp only [Fin.init]; rw [hci' i]
    have e2 : (fun i => Fin.init ref i - Fin.init ideal i)
        = fun i => (Fin.init ideal i - Fin.init ref i) * (-1) := by funext i; ring
    rw [e1, e2, nsq_smul, hcl, hρ]
    field_simp; ring
  · rw [split]
    have e1 : Fin.init (fun i => ideal i - c i) = fun _ => 0 := by
      funext i; simp only [Fin.init]
      rw [hci' i]; ring
    rw [e1, hcl, hi]; simp [nsq, dot]

/-! ## arc selection (dimension 2)

`circle_angles` takes `arctan2` of the direction from the centre to a point; `short_arc`,
`right_to_left` and `arc_include` are modelled as sign tests on those directions
(`GT.Model.Circle`).  "The counter-clockwise arc from `a` to `b`" is, for `cross2 a b > 0`
(extent `< π`), the set of directions `w` with `cross2 a w ≥ 0` and `cross2 w b ≥ 0`. -/

/-- `short_arc` returns the two directions in an order whose counter-clockwise arc is the
minor one: the pair is a permutation of the input and `sin(θ₁ - θ₀) ≥ 0` -/
theorem shortArc_spec (u v : K × K) :
    (shortArc u v = (u, v) ∨ shortArc u v = (v, u)) ∧
      0 ≤ cross2 (shortArc u v).1 (shortArc u v).2 := by
  have hanti : ∀ a b : K × K, cross2 b a = -cross2 a b := by intro a b; unfold cross2; ring
  unfold shortArc
  dsimp only
  split_ifs with h1 h2 h2
  · exact ⟨Or.inl rfl, by show 0 ≤ cross2 u v; rw [hanti]; linarith⟩
  · exact ⟨Or.inr rfl, not_lt.1 h2⟩
  · exact ⟨Or.inr rfl, by show 0 ≤ cross2 v u; rw [hanti]; linarith⟩
  · exact ⟨Or.inl rfl, not_lt.1 h2⟩

/-- `right_to_left` returns the pair ordered by decreasing cosine -/
theorem rightToLeft_spec (u v : K × K) :
    (rightToLeft u v = (u, v) ∨ rightToLeft u v = (v, u)) ∧
      (rightToLeft u v).2.1 ≤ (rightToLeft u v).1.1 := by
  unfold rightToLeft
  split_ifs with h
  · exact ⟨Or.inr rfl, h.le⟩
  · exact ⟨Or.inl rfl, not_lt.1 h⟩

/-- a point `c + w` of the circle of radius `ρ` about `c`, `|c|² = 1 + ρ²`, lies in the closed
unit disk iff `w·c ≤ -ρ²` -/
theorem inside_iff (c w : K × K) (ρ : K) (hc : dot2 c c = 1 + ρ ^ 2) (hw : dot2 w w = ρ ^ 2) :
    dot2 (c.1 + w.1, c.2 + w.2) (c.1 + w.1, c.2 + w.2) ≤ 1 ↔ dot2 w c ≤ -ρ ^ 2 := by
  unfold dot2 at *
  constructor <;> intro h <;> nlinarith

/-- **the arc inside the disk**: on a circle orthogonal to the unit circle, if the two ends
`a`, `b` of a counter-clockwise arc of extent `< π` (`cross2 a b > 0`, which is what
`short_arc` arranges) are inside the closed disk, every point of the arc is inside.  In
particular the inside part of the circle is the minor arc between its two ideal points. -/
theorem arc_between_inside (c a b w : K × K) (ρ : K) (hρ : 0 < ρ)
    (ha : dot2 a a = ρ ^ 2) (hb : dot2 b b = ρ ^ 2) (hw : dot2 w w = ρ ^ 2)
    (hab : 0 < cross2 a b) (haw : 0 ≤ cross2 a w) (hwb : 0 ≤ cross2 w b)
    (hain : dot2 a c ≤ -ρ ^ 2) (hbin : dot2 b c ≤ -ρ ^ 2) : dot2 w c ≤ -ρ ^ 2 := by
  -- w = λ a + μ b with λ = cross(w,b)/cross(a,b), μ = cross(a,w)/cross(a,b)
  have hdec1 : cross2 a b * w.1 = cross2 w b * a.1 + cross2 a w * b.1 := by unfold cross2; ring
  have hdec2 : cross2 a b * w.2 = cross2 w b * a.2 + cross2 a w * b.2 := by unfold cross2; ring
  have hwc : cross2 a b * dot2 w c = cross2 w b * dot2 a c + cross2 a w * dot2 b c := by
    unfold dot2; linear_combination c.1 * hdec1 + c.2 * hdec2
  -- |w|² cross(a,b)² = |λ' a + μ' b|², and a·b ≤ ρ²
  have hab_le : dot2 a b ≤ ρ ^ 2 := by
    have : 0 ≤ (a.1 - b.1) ^ 2 + (a.2 - b.2) ^ 2 := by positivity
    unfold dot2 at *; nlinarith
  have hnorm : cross2 a b ^ 2 * ρ ^ 2
      = cross2 w b ^ 2 * ρ ^ 2 + cross2 a w ^ 2 * ρ ^ 2
        + 2 * cross2 w b * cross2 a w * dot2 a b := by
    have : cross2 a b ^ 2 * dot2 w w
        = (cross2 w b * a.1 + cross2 a w * b.1) ^ 2 + (cross2 w b * a.2 + cross2 a w * b.2) ^ 2 := by
      rw [← hdec1, ← hdec2]; unfold dot2; ring
    rw [hw] at this
    rw [this]; unfold dot2 at ha hb ⊢
    linear_combination (cross2 w b ^ 2) * ha + (cross2 a w ^ 2) * hb
  have hsum : cross2 a b ≤ cross2 w b + cross2 a w := by
    have hρ2 : 0 < ρ ^ 2 := by positivity
    have h1 : cross2 a b ^ 2 * ρ ^ 2 ≤ (cross2 w b + cross2 a w) ^ 2 * ρ ^ 2 := by
      rw [hnorm]
      have : 0 ≤ cross2 w b * cross2 a w := mul_nonneg hwb haw
      nlinarith
    have h2 : cross2 a b ^ 2 ≤ (cross2 w b + cross2 a w) ^ 2 := le_of_mul_le_mul_right h1 hρ2
    exact abs_le_of_sq_le_sq' h2 (by linarith) |>.2
  have : cross2 a b * dot2 w c ≤ cross2 a b * (-ρ ^ 2) := by
    rw [hwc]
    have h1 : cross2 w b * dot2 a c ≤ cross2 w b * (-ρ ^ 2) := mul_le_mul_of_nonneg_left hain hwb
    have h2 : cross2 a w * dot2 b c ≤ cross2 a w * (-ρ ^ 2) := mul_le_mul_of_nonneg_left hbin haw
    have hρ2 : 0 < ρ ^ 2 := by positivity
    nlinarith
  exact le_of_mul_le_mul_left this hab

/-- scalar core of the monotonicity of the arc: in the frame `(c, c⊥)` write a direction `u` of
the circle as `(−x, β)` (`x = −u·c`, `β = c × u`); for two inside directions (`x ≥ ρ²`) of the
same length, `a × w ≥ 0` forces the Klein line coordinate `β/(C − x)` of `w` below that of `a` -/
theorem arc_mono_core (C ρ xa ba xw bw : K) (hC : C = 1 + ρ ^ 2) (hρ : 0 < ρ)
    (ha : xa ^ 2 + ba ^ 2 = ρ ^ 2 * C) (hw : xw ^ 2 + bw ^ 2 = ρ ^ 2 * C)
    (hxa : ρ ^ 2 ≤ xa) (hxw : ρ ^ 2 ≤ xw) (H : 0 ≤ ba * xw - xa * bw) :
    bw * (C - xa) - ba * (C - xw) ≤ 0 := by
  have hρ2 : 0 < ρ ^ 2 := by positivity
  have hC0 : 0 < C := by rw [hC]; positivity
  have hsum : 0 < xa + xw := by linarith
  -- S (R + P) = H (xa + xw), with S = ba − bw, R = ρ² C, P = xa xw + ba bw
  have hid : (ba - bw) * (ρ ^ 2 * C + (xa * xw + ba * bw))
      = (ba * xw - xa * bw) * (xa + xw) := by
    linear_combination bw * ha - ba * hw
  have hRP : 0 < ρ ^ 2 * C + (xa * xw + ba * bw) := by
    have : 2 * (ρ ^ 2 * C + (xa * xw + ba * bw)) = (xa + xw) ^ 2 + (ba + bw) ^ 2 := by
      linear_combination (-1 : K) * ha + (-1 : K) * hw
    have h2 : 0 < (xa + xw) ^ 2 := by positivity
    nlinarith [sq_nonneg (ba + bw)]
  have hS0 : 0 ≤ ba - bw := by
    have : 0 ≤ (ba - bw) * (ρ ^ 2 * C + (xa * xw + ba * bw)) := by
      rw [hid]; exact mul_nonneg H hsum.le
    exact nonneg_of_mul_nonneg_left this hRP
  -- the bracket C (xa + xw) − R − P is non-negative
  have hbr : 0 ≤ C * (xa + xw) - ρ ^ 2 * C - (xa * xw + ba * bw) := by
    have hbb : ba * bw ≤ ρ ^ 2 * C - (xa ^ 2 + xw ^ 2) / 2 := by nlinarith [sq_nonneg (ba - bw)]
    have e : C * (xa + xw) - ρ ^ 2 * C - xa * xw - (ρ ^ 2 * C - (xa ^ 2 + xw ^ 2) / 2)
        = C * ((xa - ρ ^ 2) + (xw - ρ ^ 2)) + (xa - xw) ^ 2 / 2 := by
      rw [hC]; ring
    have h1 : 0 ≤ C * ((xa - ρ ^ 2) + (xw - ρ ^ 2)) := mul_nonneg hC0.le (by linarith)
    have h2 : 0 ≤ (xa - xw) ^ 2 / 2 := by positivity
    linarith
  -- (C S − H)(xa + xw) = S (C (xa + xw) − R − P) ≥ 0
  have hkey : (C * (ba - bw) - (ba * xw - xa * bw)) * (xa + xw)
      = (ba - bw) * (C * (xa + xw) - ρ ^ 2 * C - (xa * xw + ba * bw)) := by
    linear_combination hid
  have hpos : 0 ≤ (C * (ba - bw) - (ba * xw - xa * bw)) * (xa + xw) := by
    rw [hkey]; exact mul_nonneg hS0 hbr
  have hfin : 0 ≤ C * (ba - bw) - (ba * xw - xa * bw) := nonneg_of_mul_nonneg_left hpos hsum
  linarith

/-- Klein point of a point `U = c + u` of the circle: `U/(U·c)`; on the circle (`|U − c|² = ρ²`,
`|c|² = 1 + ρ²`) this is `poincare_to_kleinian(U) = 2U/(1 + |U|²)` -/
def kleinOfArc (c u : K × K) : K × K :=
  ((c.1 + u.1) / (dot2 c c + dot2 u c), (c.2 + u.2) / (dot2 c c + dot2 u c))

theorem kleinOfArc_eq_p2k (c u : K × K) (ρ : K) (hc : dot2 c c = 1 + ρ ^ 2) (hu : dot2 u u = ρ ^ 2) :
    dot2 c c + dot2 u c
      = (1 + dot2 (c.1 + u.1, c.2 + u.2) (c.1 + u.1, c.2 + u.2)) / 2 := by
  unfold dot2 at *; linarith

/-- on the circle, the pair `kleinOfArc c u` is `hyperbolic.poincare_to_kleinian` (the chart map `p2k` of the
model) of the point `U = c + u` -/
theorem kleinOfArc_eq_p2k_point (c u : K × K) (ρ : K) (hc : dot2 c c = 1 + ρ ^ 2) (hu : dot2 u u = ρ ^ 2) :
    (![(kleinOfArc c u).1, (kleinOfArc c u).2] : Fin 2 → K) = p2k ![c.1 + u.1, c.2 + u.2] := by
  have h := kleinOfArc_eq_p2k c u ρ hc hu
  have hn : nsq ![c.1 + u.1, c.2 + u.2] = dot2 (c.1 + u.1, c.2 + u.2) (c.1 + u.1, c.2 + u.2) := by
    simp [nsq, dot, Fin.sum_univ_two, dot2]
  have key : ∀ x N : K, x / ((1 + N) / 2) = x * (2 / (1 + N)) := fun x N => by
    rw [div_div_eq_mul_div, mul_div_assoc]
  funext i
  unfold kleinOfArc p2k
  rw [h, hn]
  simp only [key]
  fin_cases i <;> simp

/-- **every point of the reported arc is on the hyperbolic segment**: on a circle orthogonal to
the unit circle, with ends `A = c + a`, `B = c + b` inside the closed disk and `a × b > 0` (the
order `short_arc` returns), every point `W = c + w` of the counter-clockwise arc from `a` to `b`
has its Klein point on the Klein *segment* between the Klein points of `A` and `B` — a convex
combination — i.e. `W` lies on the hyperbolic segment `AB`, not merely on its geodesic -/
theorem arc_point_on_segment (c a b w : K × K) (ρ : K) (hρ : 0 < ρ) (hc : dot2 c c = 1 + ρ ^ 2)
    (ha : dot2 a a = ρ ^ 2) (hb : dot2 b b = ρ ^ 2) (hw : dot2 w w = ρ ^ 2)
    (hab : 0 < cross2 a b) (haw : 0 ≤ cross2 a w) (hwb : 0 ≤ cross2 w b)
    (hain : dot2 a c ≤ -ρ ^ 2) (hbin : dot2 b c ≤ -ρ ^ 2) :
    ∃ s : K, 0 ≤ s ∧ s ≤ 1 ∧
      kleinOfArc c w = (s * (kleinOfArc c a).1 + (1 - s) * (kleinOfArc c b).1,
                         s * (kleinOfArc c a).2 + (1 - s) * (kleinOfArc c b).2) := by
  have hwin : dot2 w c ≤ -ρ ^ 2 :=
    arc_between_inside c a b w ρ hρ ha hb hw hab haw hwb hain hbin
  set C := dot2 c c with hCdef
  have hC0 : 0 < C := by rw [hc]; positivity
  -- frame coordinates: x = −u·c, β = c × u, with x² + β² = ρ² C
  have frame : ∀ u : K × K, dot2 u u = ρ ^ 2 → (-(dot2 u c)) ^ 2 + (cross2 c u) ^ 2 = ρ ^ 2 * C := by
    intro u hu; rw [hCdef]; unfold dot2 cross2 at *; linear_combination (c.1 ^ 2 + c.2 ^ 2) * hu
  have crossid : ∀ u v : K × K, cross2 c u * (-(dot2 v c)) - (-(dot2 u c)) * cross2 c v
      = C * cross2 u v := by
    intro u v; rw [hCdef]; unfold dot2 cross2; ring
  have hCeq : C = 1 + ρ ^ 2 := hc
  -- denominators D(u) = C + u·c = (1 + |U|²)/2 > 0
  have hD : ∀ u : K × K, dot2 u u = ρ ^ 2 → 0 < C + dot2 u c := by
    intro u hu
    have h := kleinOfArc_eq_p2k c u ρ hc hu
    rw [← hCdef] at h
    rw [h]
    have : 0 ≤ dot2 (c.1 + u.1, c.2 + u.2) (c.1 + u.1, c.2 + u.2) :=
      add_nonneg (mul_self_nonneg _) (mul_self_nonneg _)
    linarith
  -- the line coordinate g(u) = (c × u)/D(u) decreases along the counter-clockwise arc
  have mono : ∀ u v : K × K, dot2 u u = ρ ^ 2 → dot2 v v = ρ ^ 2 → dot2 u c ≤ -ρ ^ 2 →
      dot2 v c ≤ -ρ ^ 2 → 0 ≤ cross2 u v →
      cross2 c v / (C + dot2 v c) ≤ cross2 c u / (C + dot2 u c) := by
    intro u v hu hv hui hvi huv
    have H : 0 ≤ cross2 c u * (-(dot2 v c)) - (-(dot2 u c)) * cross2 c v := by
      rw [crossid u v]; exact mul_nonneg hC0.le huv
    have h := arc_mono_core C ρ (-(dot2 u c)) (cross2 c u) (-(dot2 v c)) (cross2 c v) hCeq hρ
      (frame u hu) (frame v hv) (by linarith) (by linarith) H
    rw [div_le_div_iff₀ (hD v hv) (hD u hu)]
    simp only [sub_neg_eq_add] at h
    linarith
  -- Klein points in the frame (c, c⊥): X(u) = (c + g(u) c⊥)/C
  have hX : ∀ u : K × K, dot2 u u = ρ ^ 2 →
      kleinOfArc c u = ((c.1 - cross2 c u / (C + dot2 u c) * c.2) / C,
                        (c.2 + cross2 c u / (C + dot2 u c) * c.1) / C) := by
    intro u hu
    have hd := (hD u hu).ne'
    have hC' := hC0.ne'
    unfold kleinOfArc
    rw [← hCdef]
    have e1 : (c.1 + u.1) / (C + dot2 u c) = (c.1 - cross2 c u / (C + dot2 u c) * c.2) / C := by
      field_simp
      rw [hCdef]; unfold dot2 cross2; ring
    have e2 : (c.2 + u.2) / (C + dot2 u c) = (c.2 + cross2 c u / (C + dot2 u c) * c.1) / C := by
      field_simp
      rw [hCdef]; unfold dot2 cross2; ring
    rw [e1, e2]
  have h1 := mono a w ha hw hain hwin haw
  have h2 := mono w b hw hb hwin hbin hwb
  rw [hX w hw, hX a ha, hX b hb]
  generalize cross2 c a / (C + dot2 a c) = ga at h1 h2 ⊢
  generalize cross2 c b / (C + dot2 b c) = gb at h1 h2 ⊢
  generalize cross2 c w / (C + dot2 w c) = gw at h1 h2 ⊢
  have hC' := hC0.ne'
  by_cases hne : ga = gb
  · refine ⟨0, le_refl _, zero_le_one, ?_⟩
    have : gw = gb := le_antisymm (by rw [← hne]; exact h1) h2
    rw [this]; simp
  · have hlt : gb < ga := lt_of_le_of_ne (le_trans h2 h1) (Ne.symm hne)
    have hpos : 0 < ga - gb := by linarith
    refine ⟨(gw - gb) / (ga - gb), div_nonneg (by linarith) hpos.le,
      (div_le_one hpos).2 (by linarith), ?_⟩
    have hne' : ga - gb ≠ 0 := hpos.ne'
    refine Prod.ext ?_ ?_
    · simp only; field_simp; ring
    · simp only; field_simp; ring

/-- the half-plane analogue: between two directions of the closed upper half-plane (centre on
the boundary) every direction of the counter-clockwise arc points into the closed upper
half-plane -/
theorem arc_between_upper (a b w : K × K) (hab : 0 < cross2 a b) (haw : 0 ≤ cross2 a w)
    (hwb : 0 ≤ cross2 w b) (ha : 0 ≤ a.2) (hb : 0 ≤ b.2) : 0 ≤ w.2 := by
  have hdec2 : cross2 a b * w.2 = cross2 w b * a.2 + cross2 a w * b.2 := by unfold cross2; ring
  have : 0 ≤ cross2 a b * w.2 := by
    rw [hdec2]; exact add_nonneg (mul_nonneg hwb ha) (mul_nonneg haw hb)
  exact nonneg_of_mul_nonneg_right this hab

/-- `right_to_left` on two directions of equal length in the closed upper half-plane orders
them counter-clockwise (`cross ≥ 0`): right to left along the upper semicircle -/
theorem rightToLeft_ccw (u v : K × K) (hl : dot2 u u = dot2 v v) (hu : 0 ≤ u.2) (hv : 0 ≤ v.2) :
    0 ≤ cross2 (rightToLeft u v).1 (rightToLeft u v).2 := by
  have key : ∀ a b : K × K, dot2 a a = dot2 b b → 0 ≤ a.2 → 0 ≤ b.2 → b.1 ≤ a.1 →
      0 ≤ cross2 a b := by
    intro a b hl ha hb h
    unfold cross2; unfold dot2 at hl
    rcases le_total 0 b.1 with hb1 | hb1
    · -- 0 ≤ b₁ ≤ a₁: a₂ ≤ b₂
      have : a.2 ≤ b.2 := by
        by_contra hc; rw [not_le] at hc; nlinarith
      nlinarith
    · rcases le_total 0 a.1 with ha1 | ha1
      · nlinarith [mul_nonneg ha1 hb, mul_nonneg ha (neg_nonneg.2 hb1)]
      · -- b₁ ≤ a₁ ≤ 0: b₂ ≤ a₂
        have : b.2 ≤ a.2 := by
          by_contra hc; rw [not_le] at hc; nlinarith
        nlinarith
  unfold rightToLeft
  split_ifs with h
  · exact key v u hl.symm hv hu h.le
  · exact key u v hl hu hv (not_lt.1 h)

/-- the flipped `arc_include` of `HorosphereArc.circle_parameters` returns a permutation of
the two directions -/
theorem horoArc_perm (u v ref : K × K) :
    horoArc u v ref = (u, v) ∨ horoArc u v ref = (v, u) := by
  unfold horoArc arcInclude
  dsimp only
  split_ifs with h
  · exact Or.inl rfl
  · exact Or.inr rfl

/-- **`utils.arc_include` at full strength**: whichever order it returns, the reference direction lies on the
counter-clockwise arc from the first returned direction to the second (it does not come strictly after the second one,
counter-clockwise from the first).  Directions are the non-zero vectors whose `arctan2` the code takes; `u ≠ 0`, and `v`
is not a positive multiple of `u` (the arc would be degenerate).  This supersedes the permutation-only statement
`horoArc_perm` for the un-flipped routine. -/
theorem arcInclude_contains (u v ref : K × K) (hu : 0 < dot2 u u) (huv : cross2 u v ≠ 0 ∨ dot2 u v < 0) :
    angLt (relDir (arcInclude u v ref).1 (arcInclude u v ref).2) (relDir (arcInclude u v ref).1 ref) = false := by
  unfold arcInclude
  split_ifs with h
  · exact angLt_swap u v ref hu huv h
  · simpa using h

/-- **`HorosphereArc.circle_parameters`** flips the result of `arc_include` taken with the direction of the ideal centre as
reference: counter-clockwise from the *second* reported direction to the *first*, one passes the centre's direction — so the
arc that is drawn (counter-clockwise from the first to the second) is the one that avoids the ideal centre of the horosphere -/
theorem horoArc_excludes (u v ref : K × K) (hu : 0 < dot2 u u) (huv : cross2 u v ≠ 0 ∨ dot2 u v < 0) :
    angLt (relDir (horoArc u v ref).2 (horoArc u v ref).1) (relDir (horoArc u v ref).2 ref) = false := by
  unfold horoArc
  exact arcInclude_contains u v ref hu huv

/-- non-vacuity: a quarter-turn configuration over ℚ in which the swap branch is taken -/
example : arcInclude ((1 : ℚ), 0) (0, 1) (-1, -1) = ((0, 1), (1, 0)) ∧ (0 : ℚ) < dot2 ((1 : ℚ), 0) (1, 0) ∧
    cross2 ((1 : ℚ), 0) (0, 1) ≠ 0 := by
  refine ⟨?_, ?_, ?_⟩
  · simp [arcInclude, angLt, upperHalf, relDir, dot2, cross2]
  · norm_num [dot2]
  · norm_num [cross2]

/-- every point of the reported circle is the Poincaré image of a point of the Klein
hyperplane `x·m = |m|²` that contains the geodesic: a point `u` with `|u - c|² = ρ²`, where
`c = m/|m|²` and `ρ² = |c|² - 1`, satisfies `p2k(u)·m = |m|²` — together with
`arc_between_inside` the arc the angles bound lies on the hyperbolic geodesic -/
theorem circle_point_on_geodesic (m u : Fin n → K) (h0 : 0 < nsq m)
    (hu : nsq (fun i => u i - m i / nsq m) = nsq (fun i => m i / nsq m) - 1) :
    dot (p2k u) m = nsq m := by
  have hm0 : nsq m ≠ 0 := h0.ne'
  have hu0 := nsq_nonneg u
  have h1 : (1 + nsq u) ≠ 0 := by linarith
  rw [nsq_sub, dot_div_right] at hu
  have huc : dot u m = nsq m * (1 + nsq u) / 2 := by
    field_simp at hu ⊢; linarith
  unfold p2k
  rw [dot_smul_left, huc]; field_simp

end generic

/-! ## the pinned tree's centroid construction is wrong from three ideal points on -/

section negative

/-- **negative**: for the three ideal points `(1,0,0)`, `(0,1,0)`, `(0,3/5,4/5)` of `∂H³` the
centroid construction of the pinned `Subspace.sphere_parameters(POINCARE)` gives a sphere
that does not pass through the first of them (with the true real square root).  This is the
witness of defect D10; the repaired construction is `sphere_parameters_poincare`. -/
theorem sphere_k3_counterexample :
    ∃ ks : Fin 3 → Fin 3 → ℝ, (∀ j, nsq (ks j) = 1) ∧
      nsq (fun i => ks 0 i - (poincareSphereCentroid Real.sqrt ks).1 i)
        ≠ (poincareSphereCentroid Real.sqrt ks).2 ^ 2 := by
  refine ⟨![![1, 0, 0], ![0, 1, 0], ![0, 3 / 5, 4 / 5]], ?_, ?_⟩
  · intro j; fin_cases j <;> simp [nsq, dot, Fin.sum_univ_succ] <;> norm_num
  · set ks : Fin 3 → Fin 3 → ℝ := ![![1, 0, 0], ![0, 1, 0], ![0, 3 / 5, 4 / 5]] with hks
    have hm : centroid ks = ![1 / 3, 8 / 15, 4 / 15] := by
      funext i; fin_cases i <;> simp [Circle.centroid, hks, Fin.sum_univ_succ] <;> norm_num
    have hn : nsq (centroid ks) = 7 / 15 := by
      rw [hm]; simp [nsq, dot, Fin.sum_univ_succ]; norm_num
    obtain ⟨hc, hrad, _⟩ := poincareSphere_closed C01.isSqrt_real (centroid ks)
      (by rw [hn]; norm_num) (by rw [hn]; norm_num)
    unfold poincareSphereCentroid
    rw [pow_two, hrad, hc, hn, hm]
    simp [nsq, dot, Fin.sum_univ_succ, hks]
    norm_num

/-- **negative**: in the half-space model the pinned tree took the centroid of the ideal
basis as centre and the distance to the *first* basis element as radius; for the boundary
points `(0,0)`, `(1,0)`, `(0,2)` of `∂H³` the sphere misses the second one -/
theorem halfspace_k3_counterexample :
    ∃ hs : Fin 3 → Fin 3 → ℝ, (∀ j, hs j 2 = 0) ∧
      nsq (fun i => hs 1 i - (halfspaceSphereCentroid Real.sqrt hs).1 i)
        ≠ (halfspaceSphereCentroid Real.sqrt hs).2 ^ 2 := by
  refine ⟨![![0, 0, 0], ![1, 0, 0], ![0, 2, 0]], ?_, ?_⟩
  · intro j; fin_cases j <;> simp
  · set hs : Fin 3 → Fin 3 → ℝ := ![![0, 0, 0], ![1, 0, 0], ![0, 2, 0]] with hhs
    have hm : centroid hs = ![1 / 3, 2 / 3, 0] := by
      funext i; fin_cases i <;> simp [Circle.centroid, hhs, Fin.sum_univ_succ] <;> norm_num
    show nsq (fun i => hs 1 i - centroid hs i)
      ≠ (Real.sqrt (nsq (fun i => hs 0 i - centroid hs i))) ^ 2
    rw [Real.sq_sqrt (nsq_nonneg _), hm]
    simp [nsq, dot, Fin.sum_univ_succ, hhs]
    norm_num

end negative

/-! ## non-vacuity -/

/-- the foot contract is satisfiable by a non-trivial basis of three ideal points of `∂H³`
(the symmetric one, where the foot is the centroid) -/
example : IsFoot (fun _ => (1 : ℚ) / 3) (![![1, 0, 0], ![0, 1, 0], ![0, 0, 1]] : Fin 3 → Fin 3 → ℚ) := by
  refine ⟨by norm_num [Fin.sum_univ_succ], fun j => ?_⟩
  fin_cases j <;> simp [dot, affComb, Fin.sum_univ_succ]

/-- an instance of the hypotheses of `segmentIdeal_null`: endpoints `(1,0,0)`, `(5/4,3/4,0)`
with `a = 1/2 ≠ 0` and discriminant `9/4 = (3/2)²` -/
example : segA (![1, 0, 0] : Fin 3 → ℚ) ![5 / 4, 3 / 4, 0] ≠ 0 ∧
    segDisc (![1, 0, 0] : Fin 3 → ℚ) ![5 / 4, 3 / 4, 0] = (3 / 2) * (3 / 2) := by
  constructor <;> simp [segA, segDisc, segB, segC, mink, dot, Fin.sum_univ_succ, Fin.tail] <;> norm_num

end GT.C14
