/-
C09, kbmag clause — "loading a kbmag record reproduces exactly the transition table and
start state written in the text".  Property theorems about the character-level parser model
`GT.Model.GapParse` (validated against `gap_parse.py` on every run by the correspondence
clauses `gap_parse_corr` / `kbmag_table_corr`).  Helper lemmas: `GT.Lemmas.GapParse*`.

`Syn` is the grammar of syntactically valid record texts: bare tokens, quoted strings,
`[a..b]` intervals, nested lists and records, with arbitrary whitespace (blanks, tabs,
newlines) before every token and before every `,`, `]`, `)`, `:=`.
-/
import GT.Lemmas.GapParseRecMain

namespace GT.C09
open GT.Gap

/-- `parse_list` returns the denoted list and the exact number of characters consumed, for
every well-formed list body of any nesting depth, whatever follows the closing bracket -/
theorem parse_list_correct (items : SynItems) (hwf : items.WF) (post more : List Char) (hp : AllWs post)
    (fuel : Nat) (hf : 2 * (items.render ++ (post ++ ']' :: more)).length + 3 ≤ fuel) :
    parseList fuel (items.render ++ (post ++ ']' :: more))
      = .ok (.list items.denote, (items.render ++ post).length + 1) :=
  parseList_render items hwf post more hp fuel hf

/-- `parse_contents` returns the denoted value of every well-formed field value (bare token,
quoted string, interval, nested list, nested record) followed by whitespace and `,` or `)` -/
theorem parse_contents_correct (v : Syn) (hv : v.WF false) (W rest' : List Char) (term : Char)
    (hW : AllWs W) (ht : term = ',' ∨ term = ')') (fuel : Nat)
    (hf : 2 * (v.render ++ (W ++ term :: rest')).length + 2 ≤ fuel) :
    parseContents fuel (v.render ++ (W ++ term :: rest')) = .ok (v.denote, consumed v W.length) :=
  parseContents_render v hv W rest' term hW ht fuel hf

/-- `parse_record` on a whole file `name := rec( … )` followed by harmless trailing characters
(`;`, newlines): the result is the one-entry dictionary `{name: denoted record}` and the whole
text is consumed.  No fuel hypothesis: the model's own fuel `2·|text|+4` is shown sufficient. -/
theorem parse_record_file (wsName name wsAssign pre post trailer : List Char) (fields : SynFields)
    (h1 : AllWs wsName) (h2 : AllWs wsAssign) (hn : ∀ c ∈ name, isNameChar c = true)
    (hv : (Syn.record pre fields post).WF false) (htr : Harmless trailer) :
    parseRecord (wsName ++ (name ++ (wsAssign ++ ':' :: '=' :: ((Syn.record pre fields post).render ++ trailer))))
      = .ok ([(name, (Syn.record pre fields post).denote)],
          (wsName ++ (name ++ (wsAssign ++ ':' :: '=' :: ((Syn.record pre fields post).render ++ trailer)))).length + 1) :=
  parseRecord_file wsName name wsAssign pre post trailer fields h1 h2 hn hv htr

/-! ### table → label view (`kbmag_utils.build_dict(transitions, labels, [0])`) -/

theorem zip_fst_sublist : ∀ (l1 : List (List Char)) (l2 : List Nat),
    ((l1.zip l2).map Prod.fst).Sublist l1
  | [], _ => by simp
  | _ :: _, [] => by simp
  | a :: l1, b :: l2 => by simpa using zip_fst_sublist l1 l2

/-- for distinct labels a row of the table becomes exactly its non-zero entries, in order -/
theorem rowDict_spec (labels : List (List Char)) (row : List Nat) (hnd : labels.Nodup) :
    rowDict labels row = (labels.zip row).filter (fun p => p.2 != 0) := by
  unfold rowDict
  have := rowDict_fold (labels.zip row) [] (hnd.sublist (zip_fst_sublist labels row)) (by simp)
  simpa using this

/-- edge `(i+1) --l--> w` is in the dictionary iff the table's row `i` has `w ≠ 0` in the
column of label `l` -/
theorem buildDict_edge (transitions : List (List Nat)) (labels : List (List Char)) (hnd : labels.Nodup)
    (i : Nat) (l : List Char) (w : Nat) :
    (∃ es, (buildDict transitions labels)[i]? = some (i + 1, es) ∧ (l, w) ∈ es)
      ↔ ∃ (row : List Nat) (j : Nat),
          transitions[i]? = some row ∧ labels[j]? = some l ∧ row[j]? = some w ∧ w ≠ 0 := by
  unfold buildDict
  constructor
  · rintro ⟨es, hes, hmem⟩
    simp only [List.getElem?_map, List.getElem?_zipIdx, Option.map_eq_some_iff] at hes
    obtain ⟨⟨row, k⟩, hrow, heq⟩ := hes
    obtain ⟨row', hr', hk⟩ := hrow
    simp only [Prod.mk.injEq] at hk heq
    obtain ⟨rfl, rfl⟩ := hk
    obtain ⟨-, rfl⟩ := heq
    rw [rowDict_spec labels row' hnd, List.mem_filter] at hmem
    obtain ⟨hz, hw⟩ := hmem
    obtain ⟨j, hj⟩ := List.mem_iff_getElem?.1 hz
    rw [List.getElem?_zip_eq_some] at hj
    exact ⟨row', j, hr', hj.1, hj.2, by simpa using hw⟩
  · rintro ⟨row, j, hrow, hl, hw, hne⟩
    refine ⟨rowDict labels row, ?_, ?_⟩
    · simp [List.getElem?_map, List.getElem?_zipIdx, hrow]
    · rw [rowDict_spec labels row hnd, List.mem_filter]
      refine ⟨List.mem_iff_getElem?.2 ⟨j, ?_⟩, by simpa using hne⟩
      rw [List.getElem?_zip_eq_some]; exact ⟨hl, hw⟩

/-! ### record → automaton (`fsa._from_gap_record`) -/

theorem mapM_str (labels : List (List Char)) :
    (labels.map GVal.str).mapM (fun | .str s => some s | _ => none) = some labels := by
  induction labels with
  | nil => rfl
  | cons a l ih => simp [List.mapM_cons, ih]

theorem mapM_int (row : List Nat) :
    (row.map GVal.int).mapM (fun | .int n => some n | _ => none) = some row := by
  induction row with
  | nil => rfl
  | cons a l ih => simp [List.mapM_cons, ih]

theorem asStrList_strs (labels : List (List Char)) : asStrList (.list (labels.map .str)) = some labels :=
  mapM_str labels

theorem asNatList_ints (row : List Nat) : asNatList (.list (row.map .int)) = some row :=
  mapM_int row

theorem mapM_rows (rows : List (List Nat)) :
    (rows.map fun r => GVal.list (r.map GVal.int)).mapM asNatList = some rows := by
  induction rows with
  | nil => rfl
  | cons a l ih =>
    rw [List.map_cons, List.mapM_cons, asNatList_ints, ih]; rfl

/-- a parsed file whose record says `isFSA := true`, lists the alphabet names, the dense
transition table and the initial states yields exactly `build_dict(table, names, [0])` and
those initial states -/
theorem from_gap_record_spec (name : List Char) (d alpha table : List (List Char × GVal))
    (labels : List (List Char)) (rows : List (List Nat)) (init : List Nat)
    (h1 : lookupField d "isFSA" = some (.str "true".toList))
    (h2 : lookupField d "alphabet" = some (.record alpha))
    (h3 : lookupField alpha "names" = some (.list (labels.map .str)))
    (h4 : lookupField d "table" = some (.record table))
    (h5 : lookupField table "transitions" = some (.list (rows.map fun r => .list (r.map .int))))
    (h6 : lookupField d "initial" = some (.list (init.map .int))) :
    fromGapRecord [(name, .record d)] = some (buildDict rows labels, init) := by
  unfold fromGapRecord
  simp only [List.findSome?_cons, h1, h2, h3, h4, h5, h6, asStrList_strs, asNatList_ints, mapM_rows,
    Option.bind_some, beq_self_eq_true, if_true, bind]

/-! ### non-vacuity: a concrete kbmag-style text in the grammar -/

/-- `rec(\n isFSA := true, names := [a,A] , acc := [1..2],t:=[[2,0], [0 ,1]])` as a syntax tree -/
def exampleSyn : Syn :=
  .record [' '] (
    .cons ['\n', ' '] "isFSA".toList [' '] (.bare [' '] "true".toList) [] (
    .cons [' '] "names".toList [' '] (.list [' '] (
        .cons (.bare [] ['a']) [] (.cons (.bare [] ['A']) [] .nil)) []) [' '] (
    .cons [' '] "acc".toList [' '] (.interval [' '] false ['1'] false ['2']) [] (
    .cons [] ['t'] [] (.list [] (
        .cons (.list [] (.cons (.bare [] ['2']) [] (.cons (.bare [] ['0']) [] .nil)) []) [] (
        .cons (.list [' '] (.cons (.bare [] ['0']) [' '] (.cons (.bare [] ['1']) [] .nil)) []) [] .nil)) []) []
    .nil)))) []

theorem exampleSyn_wf : exampleSyn.WF false := by
  simp only [exampleSyn, Syn.WF, SynFields.WF, SynItems.WF]
  repeat' apply And.intro
  all_goals first | decide | exact ⟨_, rfl⟩

/-- the rendered text really is the intended string, and the model parses it as predicted -/
example : String.ofList exampleSyn.render
    = " rec(\n isFSA := true, names := [a,A] , acc := [1..2],t:=[[2,0], [0 ,1]])" := by decide

/-- instance of `parse_record_file` for that text (so its hypotheses are jointly satisfiable) -/
example : ∃ r off, parseRecord ("_RWS.wa :=".toList ++ exampleSyn.render ++ ";\n".toList) = .ok (r, off) := by
  have := parse_record_file [] "_RWS.wa".toList [' '] [' '] []  ";\n".toList _ (by decide) (by decide) (by decide)
    exampleSyn_wf (by unfold Harmless; decide)
  exact ⟨_, _, by simpa [exampleSyn] using this⟩

/-! ### the two helper functions the denotation shares with the parser are pinned independently

`Syn.denote` is defined with the parser's own `digitsToNat` and `setField`, so `parse_*_correct` alone cannot see a change
in either (model-side mutants `digits_base`, `setField_appends_duplicate` survived).  These two theorems state what
the helpers mean. -/

/-- digit strings are read in base ten: appending a digit multiplies by ten and adds its value -/
theorem digitsToNat_base_ten (ds : List Char) (c : Char) :
    digitsToNat [] = 0 ∧ digitsToNat (ds ++ [c]) = 10 * digitsToNat ds + (c.toNat - '0'.toNat) := by
  constructor
  · rfl
  · simp [digitsToNat, List.foldl_append]

example : digitsToNat "1204".toList = 1204 ∧ digitsToNat "007".toList = 7 := by decide

/-- assigning a field behaves like assignment to a Python dict: the field then has the new value, every other
field keeps its value, and an existing name is overwritten in place (no second entry) -/
theorem setField_assign (fs : List (List Char × GVal)) (k k' : List Char) (v : GVal) :
    (setField fs k v).lookup k' = (if k' = k then some v else fs.lookup k') ∧
    ((setField fs k v).map Prod.fst = if k ∈ fs.map Prod.fst then fs.map Prod.fst else fs.map Prod.fst ++ [k]) := by
  induction fs with
  | nil =>
    constructor
    · by_cases h : k' = k
      · simp [setField, List.lookup, h]
      · have hb : (k' == k) = false := by simpa using h
        simp [setField, List.lookup, h, hb]
    · simp [setField]
  | cons p r ih =>
    obtain ⟨p1, p2⟩ := p
    obtain ⟨ih1, ih2⟩ := ih
    by_cases hp : p1 = k
    · subst hp
      constructor
      · by_cases h : k' = p1
        · simp [setField, List.lookup_cons, h]
        · have hb : (k' == p1) = false := by simpa using h
          simp [setField, List.lookup_cons, h, hb]
      · simp [setField]
    · constructor
      · simp only [setField, hp, if_false, List.lookup_cons]
        by_cases h1 : k' = p1
        · subst h1
          have : ¬ k' = k := hp
          simp [this]
        · have : (k' == p1) = false := by simpa using h1
          simp only [this]
          exact ih1
      · simp only [setField, hp, if_false, List.map_cons, List.mem_cons, ih2]
        have hk : ¬ k = p1 := fun e => hp e.symm
        simp only [hk, false_or]
        split <;> simp

end GT.C09
