/- property theorems for C19 (filled in below) -/
