/-
C19 — what is drawn is the object (LEVEL "other": matplotlib's runtime is outside any theorem).
Theorems about the path assembly of `HyperbolicDrawing.get_polygon_arcpath` as modelled in
`GT.Model.DrawPath`; that matplotlib's Bézier arcs stay on their circle, that `Arc` /
`PathPatch` / collections render their data and the axes transform pipeline are NOT theorems.
-/
import GT.Model.DrawPath
import Mathlib.Tactic.Ring
import Mathlib.Tactic.Linarith
import Mathlib.Tactic.NormNum

set_option linter.unusedSectionVars false
set_option linter.unusedVariables false

namespace GT.C19
open GT.DrawPath

variable {K : Type*} [Field K] [LinearOrder K] [IsStrictOrderedRing K]

/-- what the theorem assumes of one piece: it is non-empty, its first and last vertices are the
edge's two endpoints in some order, the endpoints are at least the threshold apart, and its
codes start with the only `MOVETO` (true of `Path.arc` and of the two-vertex straight path) -/
structure Good (τ2 : K) (pc : Piece K) : Prop where
  ends : (pc.verts.head? = some pc.p1 ∧ pc.verts.getLast? = some pc.p2) ∨
         (pc.verts.head? = some pc.p2 ∧ pc.verts.getLast? = some pc.p1)
  far : near τ2 pc.p1 pc.p2 = false
  code0 : pc.codes.head? = some .moveto
  nomove : pc.codes.tail.count .moveto = 0

/-- consecutive pieces share endpoints: `start → … → stop` -/
def Linked : (K × K) → List (Piece K) → (K × K) → Prop
  | start, [], stop => start = stop
  | start, pc :: rest, stop => pc.p1 = start ∧ Linked pc.p2 rest stop

theorem near_comm (τ2 : K) (a b : K × K) : near τ2 a b = near τ2 b a := by
  unfold near; congr 1; apply propext
  have : (a.1 - b.1) * (a.1 - b.1) + (a.2 - b.2) * (a.2 - b.2)
      = (b.1 - a.1) * (b.1 - a.1) + (b.2 - a.2) * (b.2 - a.2) := by ring
  rw [this]

theorem near_self (τ2 : K) (h : 0 < τ2) (a : K × K) : near τ2 a a = true := by
  unfold near; simp [h]

/-- after the reversal heuristic every good piece runs from `p1` to `p2` -/
theorem orient_good (τ2 : K) (hτ : 0 < τ2) (pc : Piece K) (h : Good τ2 pc) :
    ∃ l, orient τ2 pc = some l ∧ l.head? = some pc.p1 ∧ l.getLast? = some pc.p2 := by
  rcases h.ends with ⟨h1, h2⟩ | ⟨h1, h2⟩
  · refine ⟨pc.verts, ?_, h1, h2⟩
    unfold orient
    rw [h1, h2]
    have : near τ2 pc.p2 pc.p1 = false := by rw [near_comm]; exact h.far
    simp [h.far, this]
  · refine ⟨pc.verts.reverse, ?_, ?_, ?_⟩
    · unfold orient
      rw [h1, h2]
      simp [near_self τ2 hτ]
    · rw [List.head?_reverse]; exact h2
    · rw [List.getLast?_reverse]; exact h1

theorem count_recode (first : Bool) (pc : Piece K) (τ2 : K) (h : Good τ2 pc) :
    (recode first pc.codes).count .moveto = if first then 1 else 0 := by
  have h0 := h.code0
  have h1 := h.nomove
  cases hc : pc.codes with
  | nil => rw [hc] at h0; simp at h0
  | cons c cs =>
    rw [hc] at h0 h1
    simp only [List.head?_cons, Option.some.injEq] at h0
    simp only [List.tail_cons] at h1
    subst h0
    cases first
    · simp [recode, h1]
    · simp [recode, h1]

theorem head?_append_of_head? {α : Type*} {l m : List α} {a : α} (h : l.head? = some a) :
    (l ++ m).head? = some a := by
  cases l with
  | nil => simp at h
  | cons x xs => simpa using h

theorem getLast?_append_of_ne {α : Type*} {l m : List α} (hm : m ≠ []) :
    (l ++ m).getLast? = m.getLast? := by
  rw [List.getLast?_append]
  cases hml : m.getLast? with
  | none => exact absurd (List.getLast?_eq_none_iff.1 hml) hm
  | some b => simp

/-- main induction: the assembled vertex list is the concatenation of segments, one per edge,
segment `i` running from `p1 i` to `p2 i`; it starts at `start`, ends at `stop`; `MOVETO` occurs
once (in the first piece) and nowhere else -/
theorem assembleAux_spec (τ2 : K) (hτ : 0 < τ2) :
    ∀ (pcs : List (Piece K)) (first : Bool) (start stop : K × K),
      (∀ pc ∈ pcs, Good τ2 pc) → Linked start pcs stop →
      ∃ vs cs segs, assembleAux τ2 first pcs = some (vs, cs) ∧
        vs = segs.flatten ∧
        List.Forall₂ (fun (seg : List (K × K)) (pc : Piece K) =>
          seg.head? = some pc.p1 ∧ seg.getLast? = some pc.p2) segs pcs ∧
        (pcs ≠ [] → vs.head? = some start ∧ vs.getLast? = some stop) ∧
        cs.count .moveto = (if first && !pcs.isEmpty then 1 else 0) := by
  intro pcs
  induction pcs with
  | nil =>
    intro first start stop _ _
    exact ⟨[], [], [], rfl, rfl, List.Forall₂.nil, fun h => absurd rfl h, by simp⟩
  | cons pc rest ih =>
    intro first start stop hg hl
    obtain ⟨hp1, hl'⟩ := hl
    have hgpc := hg pc (List.mem_cons_self)
    obtain ⟨l, hor, hlh, hll⟩ := orient_good τ2 hτ pc hgpc
    obtain ⟨vs, cs, segs, has, hflat, hf2, hends, hcount⟩ :=
      ih false pc.p2 stop (fun q hq => hg q (List.mem_cons_of_mem _ hq)) hl'
    refine ⟨l ++ vs, recode first pc.codes ++ cs, l :: segs, ?_, ?_, ?_, ?_, ?_⟩
    · simp only [assembleAux, hor, has]
    · simp [hflat]
    · exact List.Forall₂.cons ⟨hlh, hll⟩ hf2
    · intro _
      refine ⟨by rw [← hp1]; exact head?_append_of_head? hlh, ?_⟩
      cases rest with
      | nil =>
        simp only [assembleAux] at has
        have hv : vs = [] := by
          have := Option.some.inj has
          exact (Prod.mk.inj this).1.symm
        have : pc.p2 = stop := hl'
        rw [hv, List.append_nil, hll, this]
      | cons r rs =>
        obtain ⟨_, hlast⟩ := hends (by simp)
        have hne : vs ≠ [] := by
          intro h0; rw [h0] at hlast; simp at hlast
        rw [getLast?_append_of_ne hne]; exact hlast
    · rw [List.count_append, count_recode first pc τ2 hgpc, hcount]
      cases first <;> simp

/-- **`assemble_continuous_closed`**: for a polygon with vertices `v₀, …` whose edge pieces are
good, the assembled path exists, has exactly one `MOVETO`, starts at `v₀`, is the concatenation
of one segment per edge running from that edge's first to its second endpoint (so it passes
`v₁, …, v_{k-1}` in order at the piece boundaries, continuously), and returns to `v₀` -/
theorem assemble_continuous_closed (τ2 : K) (hτ : 0 < τ2) (pcs : List (Piece K)) (v0 : K × K)
    (hne : pcs ≠ []) (hg : ∀ pc ∈ pcs, Good τ2 pc) (hl : Linked v0 pcs v0) :
    ∃ vs cs segs, assemble τ2 pcs = some (vs, cs) ∧
      cs.count .moveto = 1 ∧ vs.head? = some v0 ∧ vs.getLast? = some v0 ∧
      vs = segs.flatten ∧
      List.Forall₂ (fun (seg : List (K × K)) (pc : Piece K) =>
        seg.head? = some pc.p1 ∧ seg.getLast? = some pc.p2) segs pcs := by
  obtain ⟨vs, cs, segs, has, hflat, hf2, hends, hcount⟩ :=
    assembleAux_spec τ2 hτ pcs true v0 v0 hg hl
  obtain ⟨hh, hlast⟩ := hends hne
  refine ⟨vs, cs, segs, has, ?_, hh, hlast, hflat, hf2⟩
  rw [hcount]
  cases pcs with
  | nil => exact absurd rfl hne
  | cons _ _ => simp

/-- the first code of the assembled path is the `MOVETO` -/
theorem assemble_starts_with_moveto (τ2 : K) (hτ : 0 < τ2) (pc : Piece K) (rest : List (Piece K))
    (hg : ∀ q ∈ pc :: rest, Good τ2 q) (v0 : K × K) (hl : Linked v0 (pc :: rest) v0) :
    ∃ vs cs, assemble τ2 (pc :: rest) = some (vs, cs) ∧ cs.head? = some .moveto := by
  obtain ⟨vs, cs, segs, has, _, _, _, _⟩ := assembleAux_spec τ2 hτ (pc :: rest) true v0 v0 hg hl
  refine ⟨vs, cs, has, ?_⟩
  simp only [assembleAux] at has
  obtain ⟨l, hor, _, _⟩ := orient_good τ2 hτ pc (hg pc List.mem_cons_self)
  rw [hor] at has
  cases hr : assembleAux τ2 false rest with
  | none => rw [hr] at has; simp at has
  | some p =>
    rw [hr] at has
    obtain ⟨vs', cs'⟩ := p
    simp only [Option.some.injEq, Prod.mk.injEq] at has
    rw [← has.2]
    have h0 := (hg pc List.mem_cons_self).code0
    simp only [recode, if_true]
    exact head?_append_of_head? h0

/-- the straight piece substituted above the radius threshold (or for a NaN radius) is good as
soon as its two vertices are the edge's endpoints — Poincaré disk; in the half-plane see
`vertical_segment_finite` -/
theorem straight_piece_good (τ2 thr : K) (r : Option K) (arc : List (K × K) × List Code)
    (p1 p2 : K × K) (hfar : near τ2 p1 p2 = false)
    (hr : ∀ x, r = some x → ¬ x < thr) :
    Good τ2 (edgePiece thr r arc (p1, p2) p1 p2) := by
  have : edgePiece thr r arc (p1, p2) p1 p2 = ⟨[p1, p2], [.moveto, .lineto], p1, p2⟩ := by
    unfold edgePiece
    cases r with
    | none => rfl
    | some x => simp [hr x rfl]
  rw [this]
  exact ⟨Or.inl ⟨rfl, rfl⟩, hfar, rfl, by simp⟩

/-- half-plane: for two finite on-screen endpoints `get_vertical_segment` keeps the first
endpoint and moves the second one horizontally above it (the deliberate straight-segment
approximation: the piece ends at `(x₀, y₁)`, not at `(x₁, y₁)`) -/
theorem vertical_segment_finite (left right up x0 y0 x1 y1 : K)
    (h0 : left ≤ x0 ∧ x0 ≤ right) (h1 : left ≤ x1 ∧ x1 ≤ right) :
    verticalSegment left right up (some x0, y0) (some x1, y1) = ((some x0, y0), (some x0, y1)) := by
  unfold verticalSegment
  simp [not_lt.2 h0.1, not_lt.2 h0.2, not_lt.2 h1.1, not_lt.2 h1.2]

/-- … and with the second endpoint at infinity (NaN) the segment goes straight up off-screen -/
theorem vertical_segment_infinite (left right up x0 y0 y1 : K) (h0 : left ≤ x0 ∧ x0 ≤ right) :
    verticalSegment left right up (some x0, y0) (none, y1) = ((some x0, y0), (some x0, up)) ∧
    verticalSegment left right up (none, y1) (some x0, y0) = ((some x0, y0), (some x0, up)) := by
  unfold verticalSegment
  simp [not_lt.2 h0.1, not_lt.2 h0.2]

/-- objects of the wrong dimension are rejected -/
theorem dimension_guard (d : Nat) : (preprocess d = .ok ()) ↔ d = 2 := by
  unfold preprocess
  by_cases h : d = 2
  · simp only [h, ne_eq, not_true_eq_false, if_false, iff_true]; rfl
  · simp only [ne_eq, h, not_false_eq_true, if_true, iff_false]
    intro h'; cases h'

/-! ## non-vacuity: a triangle whose second piece comes out reversed -/

example : ∃ vs cs, assemble (1 / 100000000 : ℚ)
    [⟨[(0, 0), (1, 1), (2, 0)], [.moveto, .curve4, .curve4], (0, 0), (2, 0)⟩,
     ⟨[(1, 3), (2, 2), (2, 0)], [.moveto, .curve4, .curve4], (2, 0), (1, 3)⟩,
     ⟨[(1, 3), (0, 0)], [.moveto, .lineto], (1, 3), (0, 0)⟩] = some (vs, cs) ∧
    vs = [(0, 0), (1, 1), (2, 0), (2, 0), (2, 2), (1, 3), (1, 3), (0, 0)] ∧
    cs = [.moveto, .curve4, .curve4, .lineto, .curve4, .curve4, .lineto, .lineto] := by
  refine ⟨_, _, ?_, rfl, rfl⟩
  decide +kernel

/-! ## statements added after the model-mutant round (each pins a detail that no earlier theorem depended on) -/

/-- `p1` within the threshold of the LAST vertex alone reverses the piece, whatever `p2` is (the other endpoint may be the
ideal point at infinity, whose NaN coordinates never pass a `<` test): the two tests are joined by `or` -/
theorem orient_reverses_of_p1_last (τ2 : K) (pc : Piece K) (f l : K × K)
    (hf : pc.verts.head? = some f) (hl : pc.verts.getLast? = some l)
    (h : near τ2 pc.p1 l = true) : orient τ2 pc = some pc.verts.reverse := by
  unfold orient; rw [hf, hl]; simp [h]

/-- `p2` within the threshold of the FIRST vertex alone reverses the piece, whatever `p1` is -/
theorem orient_reverses_of_p2_first (τ2 : K) (pc : Piece K) (f l : K × K)
    (hf : pc.verts.head? = some f) (hl : pc.verts.getLast? = some l)
    (h : near τ2 pc.p2 f = true) : orient τ2 pc = some pc.verts.reverse := by
  unfold orient; rw [hf, hl]; simp [h]

/-- a FINITE endpoint left of `left` or right of `right` is treated as the point at infinity: the segment starts at the
other (on-screen) endpoint and goes straight up off-screen — for either position of the off-screen endpoint -/
theorem vertical_segment_offscreen (left right up x0 y0 x1 y1 : K) (h1 : left ≤ x1 ∧ x1 ≤ right)
    (h0 : x0 < left ∨ right < x0) :
    verticalSegment left right up (some x0, y0) (some x1, y1) = ((some x1, y1), (some x1, up)) ∧
    verticalSegment left right up (some x1, y1) (some x0, y0) = ((some x1, y1), (some x1, up)) := by
  unfold verticalSegment
  rcases h0 with h0 | h0 <;> simp [h0, not_lt.2 h1.1, not_lt.2 h1.2]

/-- the assembled path has exactly one code per vertex (matplotlib's `Path` requires it), as soon as every piece does -/
theorem assembleAux_lengths (τ2 : K) : ∀ (first : Bool) (pcs : List (Piece K)) (vs : List (K × K)) (cs : List Code),
    assembleAux τ2 first pcs = some (vs, cs) → (∀ pc ∈ pcs, pc.codes.length = pc.verts.length) →
    cs.length = vs.length := by
  intro first pcs
  induction pcs generalizing first with
  | nil => intro vs cs h _; simp [assembleAux] at h; rw [h.1, h.2]; rfl
  | cons pc rest ih =>
    intro vs cs h hlen
    unfold assembleAux at h
    cases ho : orient τ2 pc with
    | none => rw [ho] at h; simp at h
    | some v =>
      cases hr : assembleAux τ2 false rest with
      | none => rw [ho, hr] at h; simp at h
      | some r =>
        obtain ⟨vs', cs'⟩ := r
        rw [ho, hr] at h
        simp only [Option.some.injEq, Prod.mk.injEq] at h
        have ih' := ih false vs' cs' hr (fun q hq => hlen q (List.mem_cons_of_mem _ hq))
        have hv : v.length = pc.verts.length := by
          unfold orient at ho
          split at ho
          · simp only [Option.some.injEq] at ho
            rw [← ho]; split_ifs <;> simp
          · cases ho
        have hc : (recode first pc.codes).length = pc.codes.length := by
          unfold recode
          split_ifs
          · rfl
          · cases pc.codes <;> simp
        rw [← h.1, ← h.2, List.length_append, List.length_append, hc, hv, ih', hlen pc (List.mem_cons_self ..)]

theorem assemble_lengths (τ2 : K) (pcs : List (Piece K)) (vs : List (K × K)) (cs : List Code)
    (h : assemble τ2 pcs = some (vs, cs)) (hlen : ∀ pc ∈ pcs, pc.codes.length = pc.verts.length) :
    cs.length = vs.length := assembleAux_lengths τ2 true pcs vs cs h hlen

end GT.C19
