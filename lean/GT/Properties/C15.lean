/-
C15 — reflections, their walls and isometry fixed points correspond to each other.
Only property theorems and non-vacuity examples live here; helper lemmas are in
`GT.Lemmas.Reflect`.  Model: `GT.Model.Reflect`.

Contracts (assumed, written as hypotheses): `np.linalg.inv` (`Dinv * D = 1`), the frame
completion inside `spacelike_to` (`T J Tᵀ = J`, row 1 the normalised normal), `np.linalg.eig`
(each returned vector is an eigenvector; the selection logic is about the order in which they
are handed back).
-/
import GT.Lemmas.Reflect
import GT.Model.Isometry
import Mathlib.Tactic.NormNum
import Mathlib.Tactic.FinCases

open Finset BigOperators Matrix

set_option linter.unusedSectionVars false

namespace GT.C15
open GT GT.Targets GT.Reflect

section field
variable {K : Type*} [Field K] {n : ℕ}

/-! ## the reflection across a hyperplane -/

/-- `H.reflection_across()` (closed form `R = 1 − 2 J dᵀ d/⟨d,d⟩`) is an involution -/
theorem reflect_involutive (d : Fin (n + 1) → K) (hd : mink d d ≠ 0) :
    reflMat d * reflMat d = 1 := by
  ext i j
  have h := congrFun (reflApply_invol d (Pi.single i 1) hd) j
  rw [← vecMul_reflMat, ← vecMul_reflMat, vecMul_vecMul, single_one_vecMul] at h
  rw [Matrix.one_apply]
  simpa [Pi.single_apply, eq_comm] using h

/-- … an isometry: `R J Rᵀ = J` -/
theorem reflect_isometry (d : Fin (n + 1) → K) (hd : mink d d ≠ 0) :
    reflMat d * Jm * (reflMat d)ᵀ = Jm := by
  ext i j
  have h := mink_reflApply d (Pi.single i 1) (Pi.single j 1) hd
  rw [← vecMul_reflMat, ← vecMul_reflMat, mink_eq_dotProduct, mink_eq_dotProduct,
    single_one_vecMul, single_one_vecMul] at h
  have e1 : (reflMat d).row i ⬝ᵥ Jm *ᵥ (reflMat d).row j
      = (reflMat d * (Jm : Matrix (Fin (n + 1)) (Fin (n + 1)) K) * (reflMat d)ᵀ) i j := by
    rw [Matrix.mul_assoc, Matrix.mul_apply']
    rfl
  have e2 : (Pi.single i (1 : K)) ⬝ᵥ Jm *ᵥ Pi.single j 1 = (Jm : Matrix _ _ K) i j := by
    rw [mulVec_single_one, single_dotProduct]; simp
  rw [← e1, ← e2]; exact h

/-- … orientation reversing: `det R = -1` -/
theorem reflect_det (d : Fin (n + 1) → K) (hd : mink d d ≠ 0) : (reflMat d).det = -1 := by
  have e : reflMat d = 1 + replicateCol (Fin 1) (fun i => -2 * Jvec d i / mink d d)
      * replicateRow (Fin 1) d := by
    ext i j
    simp only [reflMat, Matrix.add_apply, Matrix.one_apply, Matrix.mul_apply, replicateCol_apply,
      replicateRow_apply, Finset.univ_unique, Finset.sum_singleton]
    ring
  have : d ⬝ᵥ (fun i => -2 * Jvec d i / mink d d) = -2 := by
    unfold dotProduct
    have h : ∀ i, d i * (-2 * Jvec d i / mink d d) = (d i * Jvec d i) * (-2 / mink d d) := by
      intro i; ring
    simp only [h]
    rw [← Finset.sum_mul, Jvec_dot]
    field_simp
  rw [e]
  refine (det_one_add_replicateCol_mul_replicateRow _ _).trans ?_
  rw [this]; ring

/-- … fixing every vector of the hyperplane `d^⊥` (in particular every point and every ideal
point of the wall) and negating the normal -/
theorem reflect_fixes_wall (d v : Fin (n + 1) → K) (h : mink v d = 0) :
    v ᵥ* reflMat d = v := by rw [vecMul_reflMat]; exact reflApply_fix d v h

theorem reflect_negates_normal (d : Fin (n + 1) → K) (hd : mink d d ≠ 0) :
    d ᵥ* reflMat d = fun i => -d i := by rw [vecMul_reflMat]; exact reflApply_normal d hd

/-- the reflection does not depend on the scale of the normal -/
theorem reflMat_smul (d : Fin (n + 1) → K) (c : K) (hc : c ≠ 0) (hd : mink d d ≠ 0) :
    reflMat (fun i => c * d i) = reflMat d := by
  ext i j
  unfold reflMat Jvec
  rw [mink_mul_left, mink_mul_right]
  split_ifs <;> field_simp

/-- the matrix the code actually computes, `inv(D) · J · D` with `D = [normal; ideal basis]`,
is the closed-form reflection: for every `D` whose first row is `d`, whose other rows are
orthogonal to `d`, and every left inverse `Dinv` of `D` -/
theorem reflLiteral_eq (d : Fin (n + 1) → K) (hd : mink d d ≠ 0)
    (D Dinv : Matrix (Fin (n + 1)) (Fin (n + 1)) K) (hinv : Dinv * D = 1)
    (h0 : D 0 = d) (horth : ∀ i, i ≠ 0 → mink (D i) d = 0) :
    reflLiteral Dinv D = reflMat d := by
  have key : D * reflMat d = Jm * D := by
    ext i j
    have e1 : (D * reflMat d) i j = (D i ᵥ* reflMat d) j := by
      rw [Matrix.mul_apply]; rfl
    have e2 : ((Jm : Matrix (Fin (n + 1)) (Fin (n + 1)) K) * D) i j
        = (if i = 0 then (-1 : K) else 1) * D i j := by
      unfold Jm; rw [Matrix.diagonal_mul]
    rw [e1, e2]
    by_cases hi : i = 0
    · subst hi
      rw [h0, reflect_negates_normal d hd]; simp [← h0]
    · rw [reflect_fixes_wall d (D i) (horth i hi)]; simp [hi]
  unfold reflLiteral
  rw [Matrix.mul_assoc, ← key, ← Matrix.mul_assoc, hinv, Matrix.one_mul]

/-! ## recovering the hyperplane from the reflection -/

/-- the `(-1)`-eigenspace of the reflection is the line of the normal: whatever eigenvector
`np.linalg.eig` returns for the eigenvalue `-1`, it is a multiple of `d`, so
`from_reflection(reflection_across(H))` has the normal of `H` -/
theorem neg_eigvec_unique [NeZero (2 : K)] (d v : Fin (n + 1) → K) (hd : mink d d ≠ 0)
    (hv : v ᵥ* reflMat d = fun i => -v i) :
    v = fun i => (mink v d / mink d d) * d i := by
  rw [vecMul_reflMat] at hv
  funext i
  have := congrFun hv i
  unfold reflApply at this
  have h2 : (2 : K) ≠ 0 := NeZero.ne 2
  have h3 : 2 * (v i * mink d d - mink v d * d i) = 0 := by
    field_simp at this
    linear_combination this
  have h4 : v i * mink d d - mink v d * d i = 0 := by
    rcases mul_eq_zero.1 h3 with h | h
    · exact absurd h h2
    · exact h
  field_simp
  linear_combination h4

/-- … and therefore defines the same reflection, i.e. the same hyperplane -/
theorem fromReflection_roundtrip [NeZero (2 : K)] (d v : Fin (n + 1) → K) (hd : mink d d ≠ 0)
    (hv0 : v ≠ 0) (hv : v ᵥ* reflMat d = fun i => -v i) : reflMat v = reflMat d := by
  have h := neg_eigvec_unique d v hd hv
  have hc : mink v d / mink d d ≠ 0 := by
    intro h0; apply hv0; rw [h, h0]; funext i; simp
  rw [h]; exact reflMat_smul d _ hc hd

/-- `Hyperplane._compute_ideal_basis`: for any form-preserving `T` whose row 1 is the
(normalised) normal — the contract of `spacelike_to` — the rows after the first of the
hyperplane data are lightlike and orthogonal to the normal: they are ideal points of the wall.
In dimension 2 (`n = 1`) these two rows are the endpoints of `Geodesic.from_reflection`. -/
theorem hyperplaneData_spec (T : Matrix (Fin (n + 2)) (Fin (n + 2)) K) (hT : T * Jm * Tᵀ = Jm)
    (hn : 0 < n) (normal : Fin (n + 2) → K) (h1 : T 1 = normal) (j : Fin (n + 1)) :
    hyperplaneData T normal 0 = normal ∧
    mink (hyperplaneData T normal j.succ) (hyperplaneData T normal j.succ) = 0 ∧
    mink (hyperplaneData T normal j.succ) normal = 0 := by
  have hrow : hyperplaneData T normal j.succ = stdIdeal j ᵥ* T := by
    simp [hyperplaneData]
  have hnorm : normal = Pi.single 1 1 ᵥ* T := by rw [single_one_vecMul, ← h1]; rfl
  -- the standard vectors are lightlike and orthogonal to e₁
  have hs1 : mink (stdIdeal (K := K) j) (stdIdeal j) = 0 := by
    rw [mink_eq_sum]
    have hsplit : ∀ i : Fin (n + 2), stdIdeal (K := K) j i * ((if i = 0 then (-1 : K) else 1) * stdIdeal j i)
        = (if i = 0 then (-1 : K) else 0)
          + (if i.val = j.val + 2 ∨ (j.val = n ∧ i.val = n + 1) then (1 : K) else 0) := by
      intro i
      unfold stdIdeal
      by_cases h0 : i = 0
      · subst h0; simp
      · have h0' : i.val ≠ 0 := fun h => h0 (Fin.ext h)
        simp only [h0, h0', if_false]
        by_cases ha : i.val = j.val + 2
        · simp [ha]
        · by_cases hb : j.val = n ∧ i.val = n + 1
          · simp [ha, hb]
          · simp [ha, hb]
    simp only [hsplit]
    rw [Finset.sum_add_distrib]
    have s1 : ∑ i : Fin (n + 2), (if i = 0 then (-1 : K) else 0) = -1 := by simp
    -- exactly one index satisfies the second condition
    have s2 : ∑ i : Fin (n + 2),
        (if i.val = j.val + 2 ∨ (j.val = n ∧ i.val = n + 1) then (1 : K) else 0) = 1 := by
      by_cases hj : j.val = n
      · rw [Finset.sum_eq_single (Fin.last (n + 1))]
        · simp [hj]
        · intro b _ hb
          have : b.val ≠ n + 1 := fun h => hb (Fin.ext h)
          have hb2 : b.val < n + 2 := b.isLt
          rw [if_neg]; rintro (h | ⟨_, h⟩) <;> omega
        · simp
      · have hjlt : j.val + 2 < n + 2 := by have := j.isLt; omega
        rw [Finset.sum_eq_single (⟨j.val + 2, hjlt⟩ : Fin (n + 2))]
        · simp
        · intro b _ hb
          have : b.val ≠ j.val + 2 := fun h => hb (Fin.ext h)
          rw [if_neg]; rintro (h | ⟨h, _⟩) <;> omega
        · simp
    rw [s1, s2]; ring
  have hs2 : mink (stdIdeal (K := K) j) (Pi.single 1 1) = 0 := by
    rw [mink_eq_sum]
    apply Finset.sum_eq_zero
    intro i _
    by_cases hi : i = 1
    · subst hi
      have : stdIdeal (K := K) j 1 = 0 := by
        unfold stdIdeal
        have h1v : ((1 : Fin (n + 2)).val) = 1 := by simp
        rw [h1v]
        simp
        omega
      rw [this]; ring
    · simp [Pi.single_apply, hi]
  refine ⟨by simp [hyperplaneData], ?_, ?_⟩
  · rw [hrow, mink_vecMul T hT, hs1]
  · rw [hrow, hnorm, mink_vecMul T hT, hs2]

/-- the form matrix of this file is the one of the isometry model (`GT.Iso.minkJ`, C02) -/
theorem Jm_eq_minkJ : (Jm : Matrix (Fin (n + 1)) (Fin (n + 1)) K) = GT.Iso.minkJ n := by
  unfold Jm GT.Iso.minkJ GT.Iso.minkDiag
  congr 1
  funext i
  refine Fin.cases ?_ (fun j => ?_) i
  · simp
  · simp [Fin.succ_ne_zero]

/-- `hyperplaneData_spec` with the contract stated in the vocabulary of C02: for the repaired
`spacelike_to` (frame `(t, v̂)` completed by `find_isometry`, model `GT.GS.spacelikeTo`),
`GT.C02.spacelikeTo_isIso` provides `GT.Iso.IsIso T`; its row 1 is the normalised normal because
Gram–Schmidt leaves `v̂ ⟂ t` alone.  No row permutation is involved any more. -/
theorem hyperplaneData_spec_isIso (T : Matrix (Fin (n + 2)) (Fin (n + 2)) K)
    (hT : GT.Iso.IsIso T) (hn : 0 < n) (normal : Fin (n + 2) → K) (h1 : T 1 = normal)
    (j : Fin (n + 1)) :
    hyperplaneData T normal 0 = normal ∧
    mink (hyperplaneData T normal j.succ) (hyperplaneData T normal j.succ) = 0 ∧
    mink (hyperplaneData T normal j.succ) normal = 0 := by
  apply hyperplaneData_spec T _ hn normal h1 j
  rw [Jm_eq_minkJ]; exact hT

/-- the `n + 1` standard ideal vectors are linearly independent (`2 ≠ 0`): together with
`hyperplaneData_spec` (each is lightlike and orthogonal to the normal) they are a *basis* of ideal
points of the wall `e₁^⊥`, which has dimension `n + 1` -/
theorem stdIdeal_linearIndependent (h2 : (2 : K) ≠ 0) :
    LinearIndependent K (fun j : Fin (n + 1) => (stdIdeal j : Fin (n + 2) → K)) := by
  rw [Fintype.linearIndependent_iff]
  intro g hg
  have hc : ∀ i : Fin (n + 2), ∑ k, g k * stdIdeal (K := K) k i = 0 := fun i => by
    have := congrFun hg i
    simpa [Finset.sum_apply, smul_eq_mul] using this
  have hsmall : ∀ k : Fin (n + 1), k.val + 1 < n → g k = 0 := by
    intro k hk
    have := hc ⟨k.val + 2, by omega⟩
    rw [Finset.sum_eq_single k] at this
    · simpa [stdIdeal] using this
    · intro b _ hb
      have hbk : ¬ k.val = b.val := fun h => hb (Fin.ext h.symm)
      simp only [stdIdeal]
      rw [if_neg (by simp), if_neg (by simpa using hbk), if_neg (by simp; omega)]
      simp
    · simp
  rcases Nat.eq_zero_or_pos n with hn | hn
  · subst hn
    intro j
    have := hc 0
    have hj : j = 0 := Fin.ext (by omega)
    subst hj
    simpa [stdIdeal] using this
  · -- the last two indices
    obtain ⟨m, rfl⟩ : ∃ m, n = m + 1 := ⟨n - 1, by omega⟩
    let a : Fin (m + 2) := ⟨m, by omega⟩
    let b : Fin (m + 2) := ⟨m + 1, by omega⟩
    have hab : a ≠ b := by simp [a, b, Fin.ext_iff]
    have hrest : ∀ k : Fin (m + 2), k ≠ a → k ≠ b → g k = 0 := fun k ha hb =>
      hsmall k (by
        have h1 : k.val ≠ m := fun h => ha (Fin.ext h)
        have h2' : k.val ≠ m + 1 := fun h => hb (Fin.ext h)
        omega)
    have e0 : g a + g b = 0 := by
      have := hc 0
      rw [Finset.sum_eq_add_of_mem a b (Finset.mem_univ _) (Finset.mem_univ _) hab] at this
      · simpa [stdIdeal] using this
      · intro k _ hk
        rw [hrest k hk.1 hk.2]; simp
    have e1 : g a - g b = 0 := by
      have := hc ⟨m + 2, by omega⟩
      rw [Finset.sum_eq_add_of_mem a b (Finset.mem_univ _) (Finset.mem_univ _) hab] at this
      · simpa [stdIdeal, a, b, sub_eq_add_neg] using this
      · intro k _ hk
        rw [hrest k hk.1 hk.2]; simp
    have ha : g a = 0 := by
      have : (2 : K) * g a = 0 := by linear_combination e0 + e1
      exact (mul_eq_zero.1 this).resolve_left h2
    have hb : g b = 0 := by linear_combination e0 - ha
    intro j
    by_cases hja : j = a
    · rw [hja]; exact ha
    by_cases hjb : j = b
    · rw [hjb]; exact hb
    exact hrest j hja hjb

/-- … hence so are the ideal rows of the hyperplane data, for an invertible `T` (every isometry):
the hyperplane data is the normal followed by a basis of ideal points of the wall -/
theorem hyperplaneData_ideal_independent (h2 : (2 : K) ≠ 0)
    (T : Matrix (Fin (n + 2)) (Fin (n + 2)) K) (hT : IsUnit T) (normal : Fin (n + 2) → K) :
    LinearIndependent K (fun j : Fin (n + 1) => hyperplaneData T normal j.succ) := by
  have hrow : (fun j : Fin (n + 1) => hyperplaneData T normal j.succ)
      = (Matrix.vecMulLinear T) ∘ (fun j : Fin (n + 1) => (stdIdeal j : Fin (n + 2) → K)) := by
    funext j; simp [hyperplaneData]
  rw [hrow]
  apply (stdIdeal_linearIndependent h2).map'
  rw [LinearMap.ker_eq_bot]
  exact Matrix.vecMul_injective_iff_isUnit.2 hT

end field

/-! ## the acceptance test of `from_reflection` -/

section ordered
variable {K : Type*} [Field K] [LinearOrder K] [IsStrictOrderedRing K]

/-- the trace of a reflection of `H^n` is `n - 1` -/
theorem trace_reflMat (d : Fin (n + 1) → K) (hd : mink d d ≠ 0) :
    Matrix.trace (reflMat d) = (n : K) - 1 := by
  unfold Matrix.trace
  simp only [Matrix.diag, reflMat, if_true]
  rw [Finset.sum_sub_distrib]
  have h : ∑ i, 2 * Jvec d i * d i / mink d d = 2 := by
    simp only [div_eq_mul_inv]
    rw [← Finset.sum_mul, ← div_eq_mul_inv, div_eq_iff hd]
    have : ∑ i, 2 * Jvec d i * d i = 2 * mink d d := by
      rw [mink_eq_sum, Finset.mul_sum]
      refine Finset.sum_congr rfl fun i _ => ?_
      unfold Jvec; split_ifs with h
      · subst h; ring
      · ring
    rw [this]
  rw [h]; simp; ring

/-- every row of `reflMat d − 1` is a multiple of `d` -/
theorem offsetRow_reflMat (d : Fin (n + 1) → K) (k : Fin (n + 1)) :
    offsetRow (reflMat d) k = fun j => (-2 * Jvec d k / mink d d) * d j := by
  funext j; unfold offsetRow reflMat; ring

theorem largestRow_max (M : Matrix (Fin (n + 1)) (Fin (n + 1)) K) (k : Fin (n + 1)) :
    nsq (offsetRow M k) ≤ nsq (offsetRow M (largestRow M)) := by
  unfold largestRow
  cases h : (List.finRange (n + 1)).argmax fun k => nsq (offsetRow M k) with
  | none =>
    have := List.argmax_eq_none.1 h
    simp at this
  | some m =>
    simp only [Option.getD_some]
    exact List.le_of_mem_argmax (f := fun k => nsq (offsetRow M k)) (List.mem_finRange k) h


theorem traceRep_reflection (d : Fin (n + 1) → K) (hd : mink d d ≠ 0) (hn : 1 ≤ n) :
    traceRep (reflMat d) = reflMat d := by
  unfold traceRep
  rw [trace_reflMat d hd, if_neg]
  rw [not_lt, sub_nonneg]; exact_mod_cast hn

/-- the normal read off a reflection is a non-zero multiple of its normal -/
theorem reflNormal_reflMat (d : Fin (n + 1) → K) (hd : mink d d ≠ 0) (hn : 1 ≤ n) :
    ∃ c : K, c ≠ 0 ∧ reflNormal (reflMat d) = fun j => c * d j := by
  unfold reflNormal
  rw [traceRep_reflection d hd hn]
  set k := largestRow (reflMat d) with hk
  refine ⟨-2 * Jvec d k / mink d d, ?_, offsetRow_reflMat d k⟩
  -- some row is non-zero, so the largest one is
  have hd0 : d ≠ 0 := by
    intro h; apply hd; rw [h]; simp [mink, dot, Fin.tail]
  obtain ⟨k₀, hk₀⟩ : ∃ k₀, d k₀ ≠ 0 := by
    by_contra h; push Not at h; exact hd0 (funext h)
  have hJ : Jvec d k₀ ≠ 0 := by
    unfold Jvec; split_ifs with h
    · subst h; simpa using hk₀
    · exact hk₀
  have hpos : 0 < nsq d := by
    unfold nsq dot
    calc 0 < d k₀ * d k₀ := mul_self_pos.2 hk₀
      _ ≤ ∑ i, d i * d i :=
        Finset.single_le_sum (f := fun i => d i * d i) (fun i _ => mul_self_nonneg (d i)) (Finset.mem_univ k₀)
  have hnsq : ∀ k', nsq (offsetRow (reflMat d) k') = (-2 * Jvec d k' / mink d d) ^ 2 * nsq d := by
    intro k'
    rw [offsetRow_reflMat]
    unfold nsq dot
    rw [Finset.mul_sum]
    exact Finset.sum_congr rfl fun i _ => by ring
  have hmax := largestRow_max (reflMat d) k₀
  rw [hnsq, hnsq] at hmax
  have hc0 : (-2 * Jvec d k₀ / mink d d) ≠ 0 := div_ne_zero (mul_ne_zero (by norm_num) hJ) hd
  have h0 : 0 < (-2 * Jvec d k₀ / mink d d) ^ 2 * nsq d :=
    mul_pos (lt_of_le_of_ne (sq_nonneg _) (Ne.symm (pow_ne_zero 2 hc0))) hpos
  intro hc
  rw [hc] at hmax
  have : (0 : K) ^ 2 * nsq d = 0 := by ring
  linarith

/-- **a reflection is accepted**: for a spacelike normal `d` (`n ≥ 1`), `from_reflection` accepts
`reflMat d` for every tolerance `ε ≥ 0`, and the normal it reads off is a non-zero multiple of `d` -/
theorem fromReflection_accepts (ε : K) (hε : 0 ≤ ε) (d : Fin (n + 1) → K) (hd : 0 < mink d d)
    (hn : 1 ≤ n) : fromReflectionAccepts ε (reflMat d) = true := by
  obtain ⟨c, hc, hN⟩ := reflNormal_reflMat d hd.ne' hn
  unfold fromReflectionAccepts
  rw [hN, traceRep_reflection d hd.ne' hn, reflMat_smul d c hc hd.ne']
  simp only [sub_self, abs_zero, Bool.and_eq_true, decide_eq_true_eq]
  refine ⟨fun _ _ => mul_nonneg hε (le_trans zero_le_one (le_max_left _ _)), ?_⟩
  rw [mink_mul_left, mink_mul_right]
  have : 0 < c * c := mul_self_pos.2 hc
  nlinarith

/-- **the other representative `-R`** of a reflection of `H^n`, `n ≥ 2`, is accepted as well -/
theorem fromReflection_accepts_neg (ε : K) (hε : 0 ≤ ε) (d : Fin (n + 1) → K) (hd : 0 < mink d d)
    (hn : 2 ≤ n) : fromReflectionAccepts ε (-reflMat d) = true := by
  have htr : traceRep (-reflMat d) = reflMat d := by
    unfold traceRep
    rw [Matrix.trace_neg, trace_reflMat d hd.ne', if_pos, neg_neg]
    rw [neg_lt_zero, sub_pos]; exact_mod_cast hn
  have := fromReflection_accepts ε hε d hd (by omega)
  unfold fromReflectionAccepts reflNormal at this ⊢
  rw [htr]
  rwa [traceRep_reflection d hd.ne' (by omega)] at this

/-- **a non-reflection is rejected** (soundness of the test): whatever is accepted agrees, up to
`ε · max(1, |M|)` entrywise, with the closed-form reflection in a spacelike vector; for `ε = 0` it
*is* that reflection -/
theorem fromReflection_rejects (ε : K) (M : Matrix (Fin (n + 1)) (Fin (n + 1)) K)
    (h : fromReflectionAccepts ε M = true) :
    0 < mink (reflNormal M) (reflNormal M) ∧
    (∀ i j, |traceRep M i j - reflMat (reflNormal M) i j| ≤ ε * max 1 (matMax (traceRep M))) ∧
    (ε = 0 → traceRep M = reflMat (reflNormal M)) := by
  unfold fromReflectionAccepts at h
  simp only [Bool.and_eq_true, decide_eq_true_eq] at h
  refine ⟨h.2, h.1, fun h0 => ?_⟩
  ext i j
  have := h.1 i j
  rw [h0, zero_mul] at this
  exact sub_eq_zero.1 (abs_nonpos_iff.1 this)

/-- the identity is rejected -/
theorem fromReflection_rejects_identity (ε : K) :
    fromReflectionAccepts ε (1 : Matrix (Fin (n + 1)) (Fin (n + 1)) K) = false := by
  have htr : traceRep (1 : Matrix (Fin (n + 1)) (Fin (n + 1)) K) = 1 := by
    unfold traceRep
    rw [Matrix.trace_one, if_neg]
    simp; positivity
  have hN : reflNormal (1 : Matrix (Fin (n + 1)) (Fin (n + 1)) K) = 0 := by
    unfold reflNormal; rw [htr]
    funext j; unfold offsetRow; simp [Matrix.one_apply]
  unfold fromReflectionAccepts
  rw [hN]
  simp [mink, dot, Fin.tail]

/-- the second stage of the decision: the point reflection `x ↦ x − 2⟨x,p⟩/⟨p,p⟩ p` about a
*timelike* `p` (an involutive isometry with the spectrum `(-1, 1, …, 1)` of a reflection, the
negatively scaled half-turn) passes the comparison but is refused, because the vector read off
it is timelike -/
theorem fromReflection_rejects_nonspacelike (ε : K) (p : Fin (n + 1) → K) (hp : mink p p < 0)
    (hn : 1 ≤ n) : fromReflectionAccepts ε (reflMat p) = false := by
  obtain ⟨c, hc, hN⟩ := reflNormal_reflMat p hp.ne hn
  unfold fromReflectionAccepts
  rw [hN, mink_mul_left, mink_mul_right]
  have : 0 < c * c := mul_self_pos.2 hc
  have : ¬ 0 < c * (c * mink p p) := by nlinarith
  simp [this]

/-- … in eigenvector terms: what separates a reflection from the point reflection `x ↦ x − 2⟨x,p⟩/⟨p,p⟩ p`
about a *timelike* `p` (the negatively scaled half-turn), which is also an involutive isometry with
spectrum `(-1, 1, …, 1)`: every `(-1)`-eigenvector of `reflMat d` has Minkowski norm
`(⟨v,d⟩/⟨d,d⟩)²·⟨d,d⟩`, of the sign of `⟨d,d⟩` — spacelike for a reflection across a wall,
timelike for the point reflection, which is therefore rejected -/
theorem neg_eigvec_sign (d v : Fin (n + 1) → K) (hd : mink d d ≠ 0)
    (hv : v ᵥ* reflMat d = fun i => -v i) :
    mink v v = (mink v d / mink d d) ^ 2 * mink d d := by
  have h2 : NeZero (2 : K) := ⟨two_ne_zero⟩
  have h := neg_eigvec_unique d v hd hv
  have e : mink (fun i => (mink v d / mink d d) * d i) (fun i => (mink v d / mink d d) * d i)
      = (mink v d / mink d d) ^ 2 * mink d d := by
    rw [mink_mul_left, mink_mul_right]; ring
  rw [← e, ← h]

/-! ## fixed points: selection of the eigenvectors -/

theorem keyLe_trans (ε : K) (a b c : EigInfo K) (h1 : keyLe ε a b = true)
    (h2 : keyLe ε b c = true) : keyLe ε a c = true := by
  unfold keyLe at *; simp at *; exact le_trans h1 h2

theorem keyLe_total (ε : K) (a b : EigInfo K) : (keyLe ε a b || keyLe ε b a) = true := by
  unfold keyLe; simp; exact le_total _ _

/-- the eigenvectors are handed back in an order that is a permutation of what `eig`
returned: every reported point is one of the eigenvectors (hence, by the `eig` contract, fixed
by the isometry as a projective point) -/
theorem fixOrder_perm (ε : K) (es : List (EigInfo K)) :
    (fixOrder ε es).Perm (List.range es.length) := by
  unfold fixOrder
  have h1 := (List.mergeSort_perm ((List.range es.length).zip es)
    (fun a b => keyLe ε a.2 b.2))
  have h2 := (List.reverse_perm _).trans h1
  have h3 := h2.map Prod.fst
  refine h3.trans ?_
  rw [← List.unzip_fst, List.unzip_zip (by simp)]

/-- the first reported eigenvector has the largest key `(in ball, -|Im λ|, |λ|)`: every other
reported one compares `≤` to it -/
theorem fixOrder_head_max (ε : K) (es : List (EigInfo K)) (i₀ : ℕ) (rest : List ℕ)
    (h : fixOrder ε es = i₀ :: rest) (hi₀ : i₀ < es.length) :
    ∀ i, (hi : i < es.length) → keyLe ε es[i] es[i₀] = true := by
  unfold fixOrder at h
  set srt := ((List.range es.length).zip es).mergeSort (fun a b => keyLe ε a.2 b.2) with hsrt
  have hsorted : srt.Pairwise (fun a b => keyLe ε a.2 b.2 = true) :=
    List.pairwise_mergeSort (le := fun (a b : ℕ × EigInfo K) => keyLe ε a.2 b.2)
      (fun a b c => keyLe_trans ε a.2 b.2 c.2) (fun a b => keyLe_total ε a.2 b.2) _
  have hperm : srt.Perm ((List.range es.length).zip es) := List.mergeSort_perm _ _
  have hrev : srt.reverse.Pairwise (fun a b => keyLe ε b.2 a.2 = true) :=
    List.pairwise_reverse.2 hsorted
  -- every element of the zipped list is (i, es[i])
  have hmem : ∀ p ∈ srt, ∃ (hp : p.1 < es.length), p.2 = es[p.1] := by
    intro p hp
    have := (hperm.mem_iff).1 hp
    rw [List.mem_iff_getElem] at this
    obtain ⟨k, hk, rfl⟩ := this
    simp at hk
    simp [hk]
  cases hr : srt.reverse with
  | nil => rw [hr] at h; simp at h
  | cons p ps =>
    rw [hr] at h hrev
    simp only [List.map_cons, List.cons.injEq] at h
    obtain ⟨hp1, _⟩ := h
    have hpmem : p ∈ srt := by
      have : p ∈ srt.reverse := by rw [hr]; simp
      simpa using this
    obtain ⟨hplt, hp2⟩ := hmem p hpmem
    intro i hi
    -- (i, es[i]) is in srt, hence in srt.reverse = p :: ps
    have him : (i, es[i]) ∈ srt := by
      apply (hperm.mem_iff).2
      rw [List.mem_iff_getElem]
      exact ⟨i, by simp [hi], by simp⟩
    have him' : (i, es[i]) ∈ p :: ps := by rw [← hr]; simpa using him
    have hkey : keyLe ε es[i] p.2 = true := by
      rcases List.mem_cons.1 him' with heq | hin
      · rw [← heq]
        have := keyLe_total ε es[i] es[i]; simpa using this
      · exact (List.pairwise_cons.1 hrev).1 _ hin
    have : p.2 = es[i₀] := by
      rw [hp2]; congr 1
    rw [← this]; exact hkey

/-- `sort_eigvals=False`: the first reported eigenvector has the largest `in_plane` flag; original: the first reported eigenvector has the largest key `(in ball, -|Im λ|, |λ|)`: (unsorted option) -/
theorem fixOrderPlain_head_max (ε : K) (es : List (EigInfo K)) (i₀ : ℕ) (rest : List ℕ)
    (h : fixOrderPlain ε es = i₀ :: rest) (hi₀ : i₀ < es.length) :
    ∀ i, (hi : i < es.length) → (es[i]).inPlane ε ≤ (es[i₀]).inPlane ε := by
  unfold fixOrderPlain at h
  set srt := ((List.range es.length).zip es).mergeSort (fun a b => decide (a.2.inPlane ε ≤ b.2.inPlane ε)) with hsrt
  have hsorted : srt.Pairwise (fun a b => decide (a.2.inPlane ε ≤ b.2.inPlane ε) = true) :=
    List.pairwise_mergeSort (le := fun (a b : ℕ × EigInfo K) => decide (a.2.inPlane ε ≤ b.2.inPlane ε))
      (fun a b c hab hbc => by simp at *; exact le_trans hab hbc) (fun a b => by simp; exact le_total _ _) _
  have hperm : srt.Perm ((List.range es.length).zip es) := List.mergeSort_perm _ _
  have hrev : srt.reverse.Pairwise (fun a b => decide (b.2.inPlane ε ≤ a.2.inPlane ε) = true) :=
    List.pairwise_reverse.2 hsorted
  -- every element of the zipped list is (i, es[i])
  have hmem : ∀ p ∈ srt, ∃ (hp : p.1 < es.length), p.2 = es[p.1] := by
    intro p hp
    have := (hperm.mem_iff).1 hp
    rw [List.mem_iff_getElem] at this
    obtain ⟨k, hk, rfl⟩ := this
    simp at hk
    simp [hk]
  cases hr : srt.reverse with
  | nil => rw [hr] at h; simp at h
  | cons p ps =>
    rw [hr] at h hrev
    simp only [List.map_cons, List.cons.injEq] at h
    obtain ⟨hp1, _⟩ := h
    have hpmem : p ∈ srt := by
      have : p ∈ srt.reverse := by rw [hr]; simp
      simpa using this
    obtain ⟨hplt, hp2⟩ := hmem p hpmem
    intro i hi
    -- (i, es[i]) is in srt, hence in srt.reverse = p :: ps
    have him : (i, es[i]) ∈ srt := by
      apply (hperm.mem_iff).2
      rw [List.mem_iff_getElem]
      exact ⟨i, by simp [hi], by simp⟩
    have him' : (i, es[i]) ∈ p :: ps := by rw [← hr]; simpa using him
    have hkey : (es[i]).inPlane ε ≤ p.2.inPlane ε := by
      rcases List.mem_cons.1 him' with heq | hin
      · rw [← heq]
      · simpa using (List.pairwise_cons.1 hrev).1 _ hin
    have : p.2 = es[i₀] := by
      rw [hp2]; congr 1
    rw [← this]; exact hkey

/-- **fixed point in the closed ball**: if `eig` (after the refinement) returned at least one
real eigenvector in the closed ball (Minkowski norm `≤ ε`, eigenvalue with `|Im λ| ≤ ε`), the first
reported point is a real eigenvector in the closed ball — with sorting by modulus or without -/
theorem fixedPoint_in_ball (ε : K) (es : List (EigInfo K)) (i₀ : ℕ) (rest : List ℕ)
    (h : fixOrder ε es = i₀ :: rest) (hi₀ : i₀ < es.length)
    (i : ℕ) (hi : i < es.length) (hball : es[i].norm ≤ ε) (him : es[i].absIm ≤ ε) :
    es[i₀].norm ≤ ε ∧ es[i₀].absIm ≤ ε := by
  have := fixOrder_head_max ε es i₀ rest h hi₀ i hi
  unfold keyLe EigInfo.key at this
  simp only [decide_eq_true_eq] at this
  have h1 : (es[i]).inPlane ε ≤ (es[i₀]).inPlane ε := by
    rcases Prod.Lex.toLex_le_toLex.1 this with hlt | ⟨heq, _⟩
    · exact le_of_lt hlt
    · exact le_of_eq heq
  unfold EigInfo.inPlane at h1
  rw [if_neg (by rintro (h | h) <;> [exact absurd hball (not_le.2 h); exact absurd him (not_le.2 h)])] at h1
  by_contra hcon
  rw [if_pos (by
    by_contra hn
    push_neg at hn
    exact hcon ⟨hn.1, hn.2⟩)] at h1
  omega

/-- **attracting first**: among eigenvectors in the closed ball with real eigenvalue the first
reported one has the largest `|λ|`; for a loxodromic isometry (`λ₁ > 1 > λ₂ > 0` with lightlike
eigenvectors, all other eigenvectors spacelike) this is the attracting endpoint -/
theorem attracting_first (ε : K) (es : List (EigInfo K)) (i₀ : ℕ) (rest : List ℕ)
    (h : fixOrder ε es = i₀ :: rest) (hi₀ : i₀ < es.length)
    (i : ℕ) (hi : i < es.length) (hball : es[i].norm ≤ ε) (hreal : es[i].absIm = 0)
    (hnn : ∀ j, (hj : j < es.length) → 0 ≤ es[j].absIm) (hε : 0 ≤ ε) :
    es[i₀].norm ≤ ε ∧ es[i₀].absIm = 0 ∧ es[i].absVal ≤ es[i₀].absVal := by
  obtain ⟨hb, hbi⟩ := fixedPoint_in_ball ε es i₀ rest h hi₀ i hi hball (by rw [hreal]; exact hε)
  have := fixOrder_head_max ε es i₀ rest h hi₀ i hi
  unfold keyLe EigInfo.key at this
  simp only [decide_eq_true_eq] at this
  have hin : (es[i]).inPlane ε = (es[i₀]).inPlane ε := by
    unfold EigInfo.inPlane
    rw [if_neg (by rintro (h | h) <;> [exact absurd hball (not_le.2 h); (rw [hreal] at h; exact absurd hε (not_le.2 h))]),
      if_neg (by rintro (h | h) <;> [exact absurd hb (not_le.2 h); exact absurd hbi (not_le.2 h)])]
  rcases Prod.Lex.toLex_le_toLex.1 this with hlt | ⟨_, h2⟩
  · simp only at hlt; omega
  · simp only at h2
    rcases Prod.Lex.toLex_le_toLex.1 h2 with hlt | ⟨heq, h3⟩
    · simp only at hlt
      rw [hreal] at hlt
      have := hnn i₀ hi₀
      linarith
    · simp only at heq h3
      rw [hreal] at heq
      refine ⟨hb, ?_, h3⟩
      have : es[i₀].absIm = -(-es[i₀].absIm) := by ring
      rw [this, ← heq]; ring

end ordered

/-! ## the refinement of the fixed vectors (repaired `_fixpoint_data`) -/

section refine
variable {K : Type*} [Field K] [LinearOrder K] [IsStrictOrderedRing K] {n : ℕ}

theorem mink_sum_left {k : ℕ} (c : Fin k → K) (b : Fin k → Fin (n + 1) → K) (y : Fin (n + 1) → K) :
    mink (fun l => ∑ i, c i * b i l) y = ∑ i, c i * mink (b i) y := by
  simp only [mink_eq_sum, Finset.sum_mul, Finset.mul_sum]
  rw [Finset.sum_comm]
  exact Finset.sum_congr rfl fun i _ => Finset.sum_congr rfl fun l _ => by ring

/-- `_refine_fixed_vectors` replaces `eig`'s basis of the fixed vectors by `b = fixed @ coeffs`:
a basis of `ker(M − I)` (`utils.kernel`, contract) that is orthogonal for the Minkowski form
(`eigh` of the restricted form, contract).  If the isometry fixes *any* non-zero vector of the
closed light cone — every elliptic and parabolic isometry does — one of the basis vectors lies
in the closed light cone; by `fixedPoint_in_ball` the first reported point is then in the
closed ball, and it is fixed because every `b i` is.  This is the clause "every point reported
as a fixed point is fixed by it and lies in the closed ball" for isometries whose fixed vectors
form a space of any dimension. -/
theorem refined_basis_in_ball {k : ℕ} (b : Fin k → Fin (n + 1) → K)
    (horth : ∀ i j, i ≠ j → mink (b i) (b j) = 0) (c : Fin k → K)
    (hx : mink (fun l => ∑ i, c i * b i l) (fun l => ∑ i, c i * b i l) ≤ 0)
    (hc : ∃ i, c i ≠ 0) :
    ∃ i, mink (b i) (b i) ≤ 0 := by
  by_contra hpos
  rw [not_exists] at hpos
  have hpos : ∀ i, 0 < mink (b i) (b i) := fun i => not_le.1 (hpos i)
  have hexp : mink (fun l => ∑ i, c i * b i l) (fun l => ∑ i, c i * b i l)
      = ∑ i, c i ^ 2 * mink (b i) (b i) := by
    rw [mink_sum_left]
    apply Finset.sum_congr rfl
    intro i _
    rw [mink_comm, mink_sum_left, Finset.mul_sum]
    rw [Finset.sum_eq_single i]
    · rw [mink_comm]; ring
    · intro j _ hji; rw [horth j i hji]; ring
    · intro h; exact absurd (Finset.mem_univ i) h
  rw [hexp] at hx
  obtain ⟨i, hi0⟩ := hc
  have hterm : 0 < c i ^ 2 * mink (b i) (b i) := mul_pos (by positivity) (hpos i)
  have hsum : 0 < ∑ j, c j ^ 2 * mink (b j) (b j) :=
    Finset.sum_pos' (fun j _ => mul_nonneg (sq_nonneg _) (hpos j).le) ⟨i, Finset.mem_univ i, hterm⟩
  linarith

end refine

/-! ## non-vacuity -/

/-- a spacelike normal in `R^{2,1}` -/
example : mink (![1/5, 1, 3/10] : Fin 3 → ℚ) ![1/5, 1, 3/10] ≠ 0 := by
  simp [mink, dot, Fin.sum_univ_succ, Fin.tail]; norm_num

/-- a single candidate is returned as it is -/
example (e : EigInfo ℚ) : fixOrder (1 / 100000000 : ℚ) [e] = [0] := by
  simp [fixOrder]

end GT.C15
