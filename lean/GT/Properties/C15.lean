/- property theorems for C15 (filled in below) -/
