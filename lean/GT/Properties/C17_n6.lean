/-
C17, irreducible representation of dimension 6: homomorphism law, identity, determinant.
The heavy polynomial identities live in the generated row modules `GT.Lemmas.Irrep.N6R*`
(one module per matrix row so that `lake` checks them in parallel).
-/
import GT.Lemmas.Irrep.N6Det
open Matrix
namespace GT.C17
open GT.Lie
variable {R : Type*} [CommRing R]

/-- `sl2_irrep(A @ B, 6) = sl2_irrep(A, 6) @ sl2_irrep(B, 6)` for all 2×2 matrices over any commutative ring -/
theorem sl2Irrep_mul_6 (A B : Matrix (Fin 2) (Fin 2) R) :
    sl2Irrep 6 (A * B) = sl2Irrep 6 A * sl2Irrep 6 B := GT.Lie.sl2Irrep_mul_6 A B

theorem sl2Irrep_one_6 : sl2Irrep 6 (1 : Matrix (Fin 2) (Fin 2) R) = 1 := GT.Lie.sl2Irrep_one_6

/-- `det sl2_irrep(A, 6) = (det A)^15`; in particular determinant one on `SL(2)` -/
theorem sl2Irrep_det_6 (A : Matrix (Fin 2) (Fin 2) R) : (sl2Irrep 6 A).det = A.det ^ 15 :=
  GT.Lie.sl2Irrep_det_6 A

theorem sl2Irrep_det_one_6 (A : Matrix (Fin 2) (Fin 2) R) (h : A.det = 1) : (sl2Irrep 6 A).det = 1 := by
  rw [sl2Irrep_det_6, h, one_pow]

example : (sl2Irrep 6 (!![2, 3; 1, 2] : Matrix (Fin 2) (Fin 2) ℤ)).det = 1 :=
  sl2Irrep_det_one_6 _ (by simp [Matrix.det_fin_two])

end GT.C17
