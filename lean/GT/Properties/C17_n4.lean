/-
C17, irreducible representation of dimension 4: homomorphism law, identity, determinant.
The heavy polynomial identities live in the generated row modules `GT.Lemmas.Irrep.N4R*`
(one module per matrix row so that `lake` checks them in parallel).
-/
import GT.Lemmas.Irrep.N4Det
open Matrix
namespace GT.C17
open GT.Lie
variable {R : Type*} [CommRing R]

/-- `sl2_irrep(A @ B, 4) = sl2_irrep(A, 4) @ sl2_irrep(B, 4)` for all 2×2 matrices over any commutative ring -/
theorem sl2Irrep_mul_4 (A B : Matrix (Fin 2) (Fin 2) R) :
    sl2Irrep 4 (A * B) = sl2Irrep 4 A * sl2Irrep 4 B := GT.Lie.sl2Irrep_mul_4 A B

theorem sl2Irrep_one_4 : sl2Irrep 4 (1 : Matrix (Fin 2) (Fin 2) R) = 1 := GT.Lie.sl2Irrep_one_4

/-- `det sl2_irrep(A, 4) = (det A)^6`; in particular determinant one on `SL(2)` -/
theorem sl2Irrep_det_4 (A : Matrix (Fin 2) (Fin 2) R) : (sl2Irrep 4 A).det = A.det ^ 6 :=
  GT.Lie.sl2Irrep_det_4 A

theorem sl2Irrep_det_one_4 (A : Matrix (Fin 2) (Fin 2) R) (h : A.det = 1) : (sl2Irrep 4 A).det = 1 := by
  rw [sl2Irrep_det_4, h, one_pow]

example : (sl2Irrep 4 (!![2, 3; 1, 2] : Matrix (Fin 2) (Fin 2) ℤ)).det = 1 :=
  sl2Irrep_det_one_4 _ (by simp [Matrix.det_fin_two])

end GT.C17
