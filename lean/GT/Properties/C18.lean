/-
C18 — the indefinite linear-algebra helpers meet their stated contracts.
Only property theorems and non-vacuity examples live here; helper lemmas are in
`GT.Lemmas.GramSchmidt`, `GT.Lemmas.FrameCompletion`, `GT.Lemmas.Diag`, `GT.Lemmas.Arcs`.
Models: `GT.Model.GramSchmidt`, `GT.Model.Diag`, `GT.Model.Arcs`.

LAPACK routines are contracts: `utils.kernel` is the parameter `ker` (assumed: its rows are
orthogonal to the given rows), `eigh` the pair `(eigs, U)` (assumed `Uᵀ B U = diag eigs`,
`Uᵀ U = 1`), `svd` the triple `(u, Σ, vh)`.  Square roots are a supplied `r` with `IsSqrt r`.
-/
import GT.Lemmas.FrameCompletion
import GT.Lemmas.FrameSvd
import GT.Lemmas.Diag
import GT.Lemmas.Arcs
import Mathlib.Analysis.SpecialFunctions.Sqrt
import Mathlib.Tactic.NormNum

open Finset BigOperators Matrix

set_option linter.unusedSectionVars false

namespace GT.C18
open GT GT.Iso GT.GS GT.Diag GT.Arcs

section gs
variable {K : Type*} [Field K] [LinearOrder K] [IsStrictOrderedRing K] {n : ℕ} {r : K → K}

/-- `indefinite_orthogonalize(F, rows)` for any symmetric `F`: if no intermediate row is null,
the result has the same number of rows, its rows are pairwise `F`-orthogonal with square-norm
`±1`, and for every `j` its first `j` rows span the same subspace as the first `j` input rows -/
theorem gramSchmidt_orthogonal (hr : IsSqrt r) {F : Matrix (Fin n) (Fin n) K} (hF : Fᵀ = F)
    (rows : List (Fin n → K)) (hnull : ∀ x ∈ gs F rows, bil F x x ≠ 0) :
    (indefiniteOrthogonalize r F rows).length = rows.length ∧
    (indefiniteOrthogonalize r F rows).Pairwise (fun a b => bil F a b = 0) ∧
    (∀ y ∈ indefiniteOrthogonalize r F rows, bil F y y = 1 ∨ bil F y y = -1) ∧
    ∀ j, Submodule.span K {u | u ∈ (indefiniteOrthogonalize r F rows).take j}
        = Submodule.span K {u | u ∈ rows.take j} :=
  indefiniteOrthogonalize_spec' hr hF rows hnull

/-- `normalize`: a non-null vector gets square-norm `+1` or `−1` according to the sign of its
square-norm (and is only rescaled) -/
theorem normalizeRows_spec (hr : IsSqrt r) (F : Matrix (Fin n) (Fin n) K) (x : Fin n → K) (hx : bil F x x ≠ 0) :
    bil F (normalizeVec r F x) (normalizeVec r F x) = (if 0 < bil F x x then 1 else -1) ∧
    ∃ c : K, c ≠ 0 ∧ normalizeVec r F x = c • x :=
  ⟨bil_normalizeVec_self hr F x hx, nfac r F x, nfac_ne_zero hr F x, normalizeVec_eq r F x⟩

/-- `find_isometry(F, partial)` for any symmetric `F`, under the kernel contract (`ker` is
`F`-orthogonal to `partial`) and with no null intermediate row: `k + |ker|` rows, pairwise
`F`-orthogonal with square-norm `±1` — i.e. `M F Mᵀ` is diagonal with entries `±1` —, and the
first `j ≤ k` rows span the first `j` rows of `partial` -/
theorem findIsometry_spec (hr : IsSqrt r) {F : Matrix (Fin n) (Fin n) K} (hF : Fᵀ = F)
    (partialMap ker : List (Fin n → K))
    (hker : ∀ p ∈ partialMap, ∀ k ∈ ker, bil F p k = 0)
    (hnull : ∀ x ∈ gs F partialMap ++ gs F ker, bil F x x ≠ 0) :
    (findIsometry r F partialMap ker).length = partialMap.length + ker.length ∧
    (findIsometry r F partialMap ker).Pairwise (fun a b => bil F a b = 0) ∧
    (∀ y ∈ findIsometry r F partialMap ker, bil F y y = 1 ∨ bil F y y = -1) ∧
    ∀ j ≤ partialMap.length, Submodule.span K {u | u ∈ (findIsometry r F partialMap ker).take j}
        = Submodule.span K {u | u ∈ partialMap.take j} :=
  findIsometry_spec' hr hF partialMap ker hker hnull

/-- `find_isometry(minkowski, x :: rest)` with `x` timelike, under the kernel contract and with
rows in general position (Gram–Schmidt never produces the zero vector): the stacked matrix is an
isometry — `M J Mᵀ = J` including the sign pattern `(−,+,…,+)`.  No non-nullity hypothesis is
needed: the form is positive definite on `x^⊥` (`pos_of_orth_timelike`) -/
theorem findIsometry_isIso (hr : IsSqrt r) (x : Fin (n + 1) → K) (rest ker : List (Fin (n + 1) → K))
    (hx : mink x x < 0)
    (hker : ∀ p ∈ x :: rest, ∀ k ∈ ker, mink p k = 0)
    (hnz : ∀ u ∈ gs (minkJ n) (x :: rest) ++ gs (minkJ n) ker, u ≠ 0)
    (hlen : (findIsometry r (minkJ n) (x :: rest) ker).length = n + 1) :
    IsIso (rowsMatrix (findIsometry r (minkJ n) (x :: rest) ker) hlen) :=
  findIsometry_isIso' hr x rest ker hx hker hnz hlen

/-- the same assuming only the LAPACK contract of the SVD that `utils.kernel(orth_partial @ minkowski)`
runs (`SvdContract`): orthogonality of the kernel basis to the frame, its general position and the
row count are derived; of the input only "`x` timelike, rows linearly independent" is assumed -/
theorem findIsometry_isIso_svd (hr : IsSqrt r) (x : Fin (n + 1) → K) (rest : List (Fin (n + 1) → K))
    (hx : mink x x < 0) (hpartial : ∀ u ∈ gs (minkJ n) (x :: rest), u ≠ 0)
    {k : ℕ} (hk : (indefiniteOrthogonalize r (minkJ n) (x :: rest)).length = k)
    (tol : K) (s : List K) (U : Matrix (Fin k) (Fin k) K) (Vh : Matrix (Fin (n + 1)) (Fin (n + 1)) K)
    (hsvd : SvdContract tol (rowsMatrix (indefiniteOrthogonalize r (minkJ n) (x :: rest)) hk * minkJ n) s U Vh) :
    ∃ h : (findIsometry r (minkJ n) (x :: rest) (svdKernelRows tol k s Vh)).length = n + 1,
      IsIso (rowsMatrix (findIsometry r (minkJ n) (x :: rest) (svdKernelRows tol k s Vh)) h) :=
  findIsometry_isIso_of_svd hr x rest hx hpartial hk tol s U Vh hsvd

/-- `make_orientation_preserving`: a diagonal Gram matrix `M F Mᵀ` (in particular `= J`) is
unchanged and the determinant becomes positive -/
theorem makeOriented_spec {m : ℕ} (F M : Matrix (Fin (m + 1)) (Fin (m + 1)) K) (d : Fin (m + 1) → K)
    (h : M * F * Mᵀ = Matrix.diagonal d) (hdet : M.det ≠ 0) :
    makeOriented M * F * (makeOriented M)ᵀ = Matrix.diagonal d ∧ 0 < (makeOriented M).det :=
  makeOriented_spec' F M d h hdet

/-- `make_orientation_preserving` touches only the last row ("the corresponding matrix in `result` has its last row
negated"): every other row is returned unchanged, the last row is kept or negated -/
theorem makeOriented_rows {m : ℕ} (M : Matrix (Fin (m + 1)) (Fin (m + 1)) K) :
    (∀ i, i ≠ Fin.last m → makeOriented M i = M i) ∧
    (makeOriented M (Fin.last m) = M (Fin.last m) ∨ makeOriented M (Fin.last m) = -M (Fin.last m)) := by
  unfold makeOriented negLastRow
  split_ifs with h
  · refine ⟨fun i hi => ?_, Or.inr ?_⟩
    · show (if i = Fin.last m then -M i else M i) = M i
      rw [if_neg hi]
    · show (if Fin.last m = Fin.last m then -M (Fin.last m) else M (Fin.last m)) = -M (Fin.last m)
      rw [if_pos rfl]
  · exact ⟨fun _ _ => rfl, Or.inl rfl⟩

/-- `make_orientation_preserving` of an isometry is an isometry of positive determinant -/
theorem makeOriented_isIso {M : Matrix (Fin (n + 1)) (Fin (n + 1)) K} (h : IsIso M) :
    IsIso (makeOriented M) ∧ 0 < (makeOriented M).det := by
  have hdet : M.det ≠ 0 := fun h0 => by have := isIso_det_sq h; rw [h0] at this; simp at this
  exact makeOriented_spec' (minkJ n) M (minkDiag n) h hdet

/-- `orthogonal_complement(vectors, F)` under the kernel contract: the returned rows are
`F`-orthogonal to every given vector, pairwise `F`-orthogonal, of square-norm `±1` -/
theorem orthogonalComplement_spec (hr : IsSqrt r) {F : Matrix (Fin n) (Fin n) K} (hF : Fᵀ = F)
    (vectors ker : List (Fin n → K)) (hker : ∀ v ∈ vectors, ∀ k ∈ ker, bil F v k = 0)
    (hnull : ∀ x ∈ gs F ker, bil F x x ≠ 0) :
    (∀ v ∈ vectors, ∀ y ∈ orthogonalComplement r F ker, bil F v y = 0) ∧
    (orthogonalComplement r F ker).Pairwise (fun a b => bil F a b = 0) ∧
    (∀ y ∈ orthogonalComplement r F ker, bil F y y = 1 ∨ bil F y y = -1) ∧
    (orthogonalComplement r F ker).length = ker.length := by
  obtain ⟨l, p, nn, _⟩ := indefiniteOrthogonalize_spec' hr hF ker hnull
  refine ⟨?_, p, nn, l⟩
  intro v hv y hy
  unfold orthogonalComplement indefiniteOrthogonalize normalizeRows at hy
  obtain ⟨g, hg, rfl⟩ := List.mem_map.1 hy
  rw [normalizeVec_eq, bil_smul_right]
  have := gs_mem F (orthSub F {v}) ker (fun k hk => by
    rw [mem_orthSub]; intro p hp
    have : p = v := by simpa using hp
    subst this; exact hker p hv k hk) g hg
  rw [this v (by simp), mul_zero]

end gs

/-- the array-backed Gram–Schmidt the driver executes denotes the model's -/
theorem gsD_eq_gs {K : Type} [Field K] [Inhabited K] {n : ℕ} (F : Matrix (Fin n) (Fin n) K)
    (rows : List (DVec n K)) : (gsD F rows).map DVec.toFn = gs F (rows.map DVec.toFn) := gsD_toFn F rows

section diag
variable {K : Type*} [Field K] [LinearOrder K] [IsStrictOrderedRing K] {n : ℕ} {r : K → K}

/-- `diagonalize_form(B, order_eigenvalues, reverse)` under the `eigh` contract
(`Uᵀ B U = diag eigs`, `Uᵀ U = 1`, no zero eigenvalue): with `σ` the permutation computed by the
code (`argsort` of the eigenvalues or of the Minkowski keys, reversed on request),
`Wᵀ B W = diag(±1)` with entry `i` the sign of `eigs (σ i)`, `Winv` is the two-sided inverse of `W`,
and the signs come in the requested order: for `"signed"` non-decreasing eigenvalue (negatives
first), for `"minkowski"` the rarer sign first (negatives on ties); `reverse` reverses -/
theorem diagonalizeForm_spec (hr : IsSqrt r) (B U : Matrix (Fin n) (Fin n) K) (eigs : Fin n → K)
    (h1 : Uᵀ * B * U = Matrix.diagonal eigs) (h2 : Uᵀ * U = 1) (hnz : ∀ i, eigs i ≠ 0) (mink reverse : Bool) :
    let σ := orderFn (formOrder eigs mink reverse) (formOrder_length eigs mink reverse)
    let W := (diagonalizeForm r eigs U σ).1
    let Winv := (diagonalizeForm r eigs U σ).2
    Wᵀ * B * W = Matrix.diagonal (fun i => if 0 < eigs (σ i) then 1 else -1) ∧
    W * Winv = 1 ∧ Winv * W = 1 ∧
    ∀ i j : Fin n, i < j →
      (mink = false → reverse = false → eigs (σ i) ≤ eigs (σ j)) ∧
      (mink = false → reverse = true → eigs (σ j) ≤ eigs (σ i)) ∧
      (mink = true →
        if (Finset.univ.filter fun i => 0 < eigs i).card < (Finset.univ.filter fun i => eigs i < 0).card
        then (if reverse then (0 < eigs (σ i) → 0 < eigs (σ j)) else (0 < eigs (σ j) → 0 < eigs (σ i)))
        else (if reverse then (eigs (σ i) < 0 → eigs (σ j) < 0) else (eigs (σ j) < 0 → eigs (σ i) < 0))) := by
  intro σ W Winv
  have hσ : Function.Bijective σ := orderFn_bijective _ _ (formOrder_perm eigs mink reverse)
  obtain ⟨a1, a2, a3⟩ := diagonalizeForm_algebra hr B U eigs h1 h2 hnz σ hσ
  refine ⟨a1, a2, a3, ?_⟩
  intro i j hij
  have hs := formOrder_sorted eigs mink reverse i j hij
  simp only at hs
  refine ⟨?_, ?_, ?_⟩
  · intro hm hrv; subst hm; subst hrv; simpa using hs
  · intro hm hrv; subst hm; subst hrv; simpa using hs
  · intro hm; subst hm
    cases reverse with
    | false =>
      simp only [if_true, Bool.false_eq_true, if_false] at hs ⊢
      exact (minkowskiKey_le_iff eigs hnz _ _).1 hs
    | true =>
      simp only [if_true] at hs ⊢
      exact (minkowskiKey_le_iff eigs hnz _ _).1 hs

/-- `svd_kernel` / `utils.kernel` under the SVD contract (`A = u Σ vh`, `u uᵀ = 1`, `vh vhᵀ = 1`,
`s` non-negative and descending with `len(s) = min(m,n)`; exact arithmetic: a singular value is
below the tolerance iff it is 0): the returned columns are annihilated by the matrix,
orthonormal, and there are exactly `kernel_dim = n − rank A` of them -/
theorem svdKernel_spec {m : ℕ} (tol : K) (s : List K) (A : Matrix (Fin m) (Fin n) K) (U : Matrix (Fin m) (Fin m) K)
    (Vh : Matrix (Fin n) (Fin n) K)
    (hA : A = U * sigmaMat m s * Vh) (hU : U * Uᵀ = 1) (hV : Vh * Vhᵀ = 1)
    (hlen : s.length = min m n) (hs : s.Pairwise (fun a b => b ≤ a)) (hn : ∀ x ∈ s, 0 ≤ x)
    (hex : ∀ x ∈ s, x < tol ↔ x = 0) :
    svdKernelDim tol m n s = n - A.rank ∧
    (∀ v ∈ svdKernelRows tol m s Vh, A *ᵥ v = 0) ∧
    (∀ v ∈ svdKernelRows tol m s Vh, dot v v = 1) ∧
    (svdKernelRows tol m s Vh).Pairwise (fun v w => dot v w = 0) ∧
    (svdKernelRows tol m s Vh).length = n - A.rank :=
  svdKernel_full tol s A U Vh hA hU hV hlen hs hn hex

/-- `sphere_through` for `d+1` points of `K^d` in general position (`t_pts` invertible): every
point is at distance `radius` from `center` (`radius ≥ 0`, `radius² = ‖p_i − center‖²`) -/
theorem sphereThrough_spec {d : ℕ} (hr : IsSqrt r) (pts : Fin (d + 1) → Fin d → K) (hT : IsUnit (sphereT pts).det)
    (i : Fin (d + 1)) :
    0 ≤ (sphereThrough r pts).2 ∧
    (sphereThrough r pts).2 * (sphereThrough r pts).2 = nsq (fun k => pts i k - (sphereThrough r pts).1 k) := by
  rw [sphereThrough_equidistant r pts hT i]
  exact hr _ (nsq_nonneg _)

end diag

section arcs
variable {K : Type*} [Field K] [LinearOrder K] [IsStrictOrderedRing K]

/-- `short_arc` on angles in `(−2π, 2π)`: same two angles modulo `2π` (possibly swapped) and the
counter-clockwise arc from the first to the second has length `≤ π` -/
theorem shortArc_spec {pi : K} (hpi : 0 < pi) (a b : K) (ha : -(2 * pi) < a ∧ a < 2 * pi)
    (hb : -(2 * pi) < b ∧ b < 2 * pi) :
    ((CongPi pi (shortArc pi (a, b)).1 a ∧ CongPi pi (shortArc pi (a, b)).2 b) ∨
     (CongPi pi (shortArc pi (a, b)).1 b ∧ CongPi pi (shortArc pi (a, b)).2 a)) ∧
    ∃ t, 0 ≤ t ∧ t ≤ pi ∧ CongPi pi ((shortArc pi (a, b)).2 - (shortArc pi (a, b)).1) t :=
  shortArc_spec' hpi a b ha hb

/-- `right_to_left`: same pair (possibly swapped), and `cos` of the second is at most `cos` of the first -/
theorem rightToLeft_spec (cs : K → K) (a b : K) :
    (rightToLeft cs (a, b) = (a, b) ∨ rightToLeft cs (a, b) = (b, a)) ∧
    cs (rightToLeft cs (a, b)).2 ≤ cs (rightToLeft cs (a, b)).1 :=
  rightToLeft_spec' cs a b

/-- `arc_include` on angles in `[−π, π]`: same pair (possibly swapped) and the reference angle
lies on the counter-clockwise arc from the first to the second -/
theorem arcInclude_spec {pi : K} (hpi : 0 < pi) (a b ref : K) (ha : -pi ≤ a ∧ a ≤ pi) (hb : -pi ≤ b ∧ b ≤ pi)
    (href : -pi ≤ ref ∧ ref ≤ pi) :
    (arcInclude pi (a, b) ref = (a, b) ∨ arcInclude pi (a, b) ref = (b, a)) ∧
    ∃ s t, 0 ≤ s ∧ s ≤ t ∧ t ≤ 2 * pi ∧
      CongPi pi (ref - (arcInclude pi (a, b) ref).1) s ∧
      CongPi pi ((arcInclude pi (a, b) ref).2 - (arcInclude pi (a, b) ref).1) t :=
  arcInclude_spec' hpi a b ref ha hb href

/-- `circle_angles` (as a `(cos, sin)` pair): for `p ≠ center` the pair lies on the unit circle and
`p = center + ρ·(cos θ, sin θ)` with `ρ = |p − center| > 0` -/
theorem circleAngles_spec {r : K → K} (hr : IsSqrt r) (center p : Fin 2 → K)
    (hne : 0 < (p 0 - center 0) * (p 0 - center 0) + (p 1 - center 1) * (p 1 - center 1)) :
    let cs := circleAngleCS r center p
    let rho := r ((p 0 - center 0) * (p 0 - center 0) + (p 1 - center 1) * (p 1 - center 1))
    cs.1 ^ 2 + cs.2 ^ 2 = 1 ∧ 0 < rho ∧ p 0 = center 0 + rho * cs.1 ∧ p 1 = center 1 + rho * cs.2 :=
  circleAngles_spec' hr center p hne

end arcs

/-! ## non-vacuity -/

/-- `Real.sqrt` is a root function -/
example : IsSqrt Real.sqrt := fun x hx => ⟨Real.sqrt_nonneg x, Real.mul_self_sqrt hx⟩

/-- a symmetric indefinite form and rows whose Gram–Schmidt rows are non-null:
`F = diag(−1,1,1)`, rows `(2,1,0)`, `(0,1,1)` give `(2,1,0)` (norm −3), `(2/3,4/3,1)` (norm 7/3) -/
example : (minkJ 2 : Matrix (Fin 3) (Fin 3) ℚ)ᵀ = minkJ 2 ∧
    ∀ x ∈ gs (minkJ 2) [(![2, 1, 0] : Fin 3 → ℚ), ![0, 1, 1]], bil (minkJ 2) x x ≠ 0 := by
  refine ⟨minkJ_transpose, ?_⟩
  intro x hx
  simp only [gs, gsStep, gproj, List.foldl_cons, List.foldl_nil, List.nil_append, List.cons_append,
    List.mem_cons, List.not_mem_nil, or_false] at hx
  rcases hx with rfl | rfl <;>
    simp [bil_minkJ, mink, dot, Fin.sum_univ_succ, Fin.tail] <;> norm_num

/-- an `eigh` output with no zero eigenvalue: `B = diag(2,−3)`, `U = 1` -/
example : (1 : Matrix (Fin 2) (Fin 2) ℚ)ᵀ * Matrix.diagonal ![2, -3] * 1 = Matrix.diagonal ![2, -3] ∧
    ∀ i, (![2, -3] : Fin 2 → ℚ) i ≠ 0 := by
  refine ⟨by simp, fun i => ?_⟩
  fin_cases i <;> simp

/-- an SVD satisfying the contract with a non-trivial kernel: `A = diag(3, 0)`, `u = vh = 1`, `s = [3, 0]` -/
example : ([3, 0] : List ℚ).Pairwise (fun a b => b ≤ a) ∧ (∀ x ∈ ([3, 0] : List ℚ), 0 ≤ x) ∧
    (∀ x ∈ ([3, 0] : List ℚ), x < 1 / 100000000 ↔ x = 0) := by
  refine ⟨by simp, ?_, ?_⟩ <;> intro x hx <;> simp at hx <;> rcases hx with rfl | rfl <;> norm_num

/-- three points of the plane in general position -/
example : IsUnit (sphereT (fun i => (![![0, 0], ![1, 0], ![0, 1]] : Fin 3 → Fin 2 → ℚ) i)).det := by
  have : sphereT (fun i => (![![0, 0], ![1, 0], ![0, 1]] : Fin 3 → Fin 2 → ℚ) i) = 1 := by
    ext i j; fin_cases i <;> fin_cases j <;> simp [sphereT]
  rw [this]; simp

/-- angles in the stated ranges exist for an abstract `π` (here `π = 3` in ℚ) -/
example : (0 : ℚ) < 3 ∧ (-(2 * 3) < (5 : ℚ) ∧ (5 : ℚ) < 2 * 3) ∧ (-3 ≤ (-2 : ℚ) ∧ (-2 : ℚ) ≤ 3) := by norm_num

end GT.C18
