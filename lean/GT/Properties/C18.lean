/- property theorems for C18 (filled in below) -/
