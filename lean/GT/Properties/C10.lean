/-
C10 — automaton operations transform the accepted language as documented.
Property theorems about the model `GT.FSA` (lean/GT/Model/FSA.lean); helper lemmas live in
`GT/Lemmas/FSA*.lean`.  Each theorem family is followed by an `example` on a concrete automaton.
-/
import GT.Lemmas.FSALang
import GT.Lemmas.FSAMultTotal
import GT.Lemmas.FSARename
import GT.Lemmas.FSARec
import GT.Lemmas.FSARecLang
import GT.Lemmas.FSARlpTotal
import GT.Lemmas.FSARlpLang

set_option linter.unusedSectionVars false

namespace GT.C10
open GT GT.FSA
variable {V L : Type} [DecidableEq V] [DecidableEq L]

/-! ## the acceptance test, the walk, the prefix queries and the enumerators agree -/

/-- `follow_word` is a monoid action: walking `u ++ w` is walking `u`, then `w` -/
theorem follow_append (s : FSA V L) (v : V) (u w : List L) :
    s.follow v (u ++ w) = (s.follow v u).bind (fun v' => s.follow v' w) :=
  FSA.follow_append s v u w

/-- `accepts(word, start_vertex)` is true exactly when `follow_word` succeeds from the given start
vertex, or (for `start_vertex=None`) from one of the start vertices -/
theorem accepts_iff_follow (s : FSA V L) (w : List L) (start : Option V) :
    s.accepts w start = true ↔
      ∃ v, v ∈ (match start with | some v => [v] | none => s.starts) ∧ ∃ q, s.follow v w = some q := by
  unfold FSA.accepts
  rw [List.any_eq_true]
  constructor
  · rintro ⟨v, hv, h⟩
    exact ⟨v, hv, Option.isSome_iff_exists.1 h⟩
  · rintro ⟨v, hv, q, h⟩
    exact ⟨v, hv, by simp [h]⟩

/-- `initial_accepted_subword(word)` is the longest prefix of `word` accepted from the first start
vertex (and raises `IndexError` exactly when there is no start vertex) -/
theorem initialAccepted_spec (s : FSA V L) (w : List L) :
    (s.starts = [] ∧ s.initialAccepted w = .error .indexError) ∨
    ∃ v0 rest p, s.starts = v0 :: rest ∧ s.initialAccepted w = .ok p ∧ p <+: w ∧
      (s.follow v0 p).isSome ∧ ∀ p', p' <+: w → (s.follow v0 p').isSome → p'.length ≤ p.length := by
  unfold FSA.initialAccepted
  cases hs : s.starts with
  | nil => exact Or.inl ⟨rfl, rfl⟩
  | cons v0 rest =>
    exact Or.inr ⟨v0, rest, _, rfl, rfl, acceptedPrefixFrom_prefix s v0 w,
      acceptedPrefixFrom_accepted s v0 w, fun p' hp h => acceptedPrefixFrom_longest s v0 w p' hp h⟩

/-- the longest-accepted-prefix query agrees with the acceptance test: the answer is the whole
word exactly when the word is accepted from the first start vertex -/
theorem initialAccepted_eq_self_iff (s : FSA V L) (v0 : V) (rest : List V) (hs : s.starts = v0 :: rest)
    (w : List L) : s.initialAccepted w = .ok w ↔ s.accepts w (some v0) = true := by
  unfold FSA.initialAccepted FSA.accepts
  simp only [hs, Except.ok.injEq, List.any_cons, List.any_nil, Bool.or_false]
  constructor
  · intro h
    have := acceptedPrefixFrom_accepted s v0 w
    rwa [h] at this
  · exact acceptedPrefixFrom_eq_self

/-- `initial_rejected_subword(word)` (as documented, and as repaired): `None` exactly when the word
is accepted from the first start vertex — so it agrees with `accepts` — and otherwise the shortest
rejected prefix (= longest accepted prefix plus the next letter) -/
theorem initialRejected_spec (s : FSA V L) (v0 : V) (rest : List V) (hs : s.starts = v0 :: rest)
    (w : List L) :
    ∃ r, s.initialRejected w = .ok r ∧
      (r = none ↔ s.accepts w (some v0) = true) ∧
      (∀ p, r = some p → p <+: w ∧ s.follow v0 p = none ∧
        ∃ l, p = s.acceptedPrefixFrom v0 w ++ [l]) := by
  refine ⟨s.rejectedPrefixFrom v0 w, by simp [FSA.initialRejected, hs], ?_, ?_⟩
  · rw [rejectedPrefixFrom_eq_none_iff]
    simp [FSA.accepts]
  · intro p hp
    obtain ⟨e, hpre, hr⟩ := rejectedPrefixFrom_of_rejected hp
    exact ⟨hpre, hr, e⟩

/-- `enumerate_fixed_length_paths(n, start, with_states=True)` yields exactly the pairs
`(w, q)` with `|w| = n` and `follow_word(w, start) = q` -/
theorem mem_enumFixed {s : FSA V L} (hd : s.RowsNodup) {start : V} {n : Nat}
    {xs : List (List L × V)} (h : s.enumFixed start n = .ok xs) (w : List L) (q : V) :
    (w, q) ∈ xs ↔ w.length = n ∧ s.follow start w = some q :=
  FSA.mem_enumFixed hd h w q

/-- … and lists each accepted word exactly once -/
theorem enumFixed_nodup {s : FSA V L} (hd : s.RowsNodup) {start : V} {n : Nat}
    {xs : List (List L × V)} (h : s.enumFixed start n = .ok xs) : (xs.map Prod.fst).Nodup :=
  words_nodup_enumFixed hd h

/-- the enumerator does not raise when every target of the label view is a vertex -/
theorem enumFixed_ok {s : FSA V L} (hd : s.RowsNodup) (hc : s.Closed) {start : V}
    (hs : ∃ row, s.graph.get? start = some row) (n : Nat) : ∃ xs, s.enumFixed start n = .ok xs :=
  FSA.enumFixed_ok hd hc hs n

/-- `enumerate_words(n, start, with_states=True)` yields exactly the pairs `(w, q)` with
`|w| ≤ n` and `follow_word(w, start) = q` -/
theorem mem_enumWords {s : FSA V L} (hd : s.RowsNodup) {start : V} {n : Nat}
    {xs : List (List L × V)} (h : s.enumUpTo start n = .ok xs) (w : List L) (q : V) :
    (w, q) ∈ xs ↔ w.length ≤ n ∧ s.follow start w = some q :=
  mem_enumUpTo hd h w q

/-- … each accepted word exactly once -/
theorem enumWords_nodup {s : FSA V L} (hd : s.RowsNodup) {start : V} {n : Nat}
    {xs : List (List L × V)} (h : s.enumUpTo start n = .ok xs) : (xs.map Prod.fst).Nodup :=
  words_nodup_enumUpTo hd h

/-- the enumerators and the acceptance test agree: a word of length `≤ n` is enumerated iff it is
accepted from `start` -/
theorem enumWords_iff_accepts {s : FSA V L} (hd : s.RowsNodup) {start : V} {n : Nat}
    {xs : List (List L × V)} (h : s.enumUpTo start n = .ok xs) (w : List L) (hw : w.length ≤ n) :
    w ∈ xs.map Prod.fst ↔ s.accepts w (some start) = true := by
  rw [accepts_iff_follow]
  simp only [List.mem_map, Prod.exists, exists_and_right, exists_eq_right, List.mem_singleton,
    exists_eq_left]
  constructor
  · rintro ⟨q, hq⟩; exact ⟨q, ((mem_enumUpTo hd h w q).1 hq).2⟩
  · rintro ⟨q, hq⟩; exact ⟨q, (mem_enumUpTo hd h w q).2 ⟨hw, hq⟩⟩

section Example
/-- the word acceptor of the free group on one generator: `fsa.free_automaton("a")` -/
def exFree : FSA String String := FSA.free (fun g => if g = "a" then "A" else "a") "" ["a"]

example : exFree.RowsNodup ∧ exFree.accepts ["a", "a"] = true ∧ exFree.accepts ["a", "A"] = false ∧
    (exFree.initialAccepted ["a", "A", "a"]).toOption = some ["a"] ∧
    (exFree.initialRejected ["a", "A", "a"]).toOption = some (some ["a", "A"]) ∧
    (exFree.initialRejected ["a", "a"]).toOption = some none ∧
    (exFree.enumUpTo "" 2).toOption.map (·.map Prod.fst) =
      some [[], ["a"], ["A"], ["a", "a"], ["A", "A"]] := by
  refine ⟨?_, by decide, by decide, by decide, by decide, by decide, by decide⟩
  intro v row h
  have : row ∈ [[("a", "a"), ("A", "A")], [("a", "a")], [("A", "A")]] := by
    have hm := Dict.mem_of_get? h
    revert hm; unfold exFree; simp [FSA.free, FSA.fromGraphDict, FSA.hiddenVertices, Dict.set, Dict.keys]
    intro hm; rcases hm with ⟨_, rfl⟩ | ⟨_, rfl⟩ | ⟨_, rfl⟩ <;> simp
  simp only [List.mem_cons, List.not_mem_nil, or_false] at this
  rcases this with rfl | rfl | rfl <;> decide
end Example


/-! ## the k-multiple (and even) automaton -/

/-- walking in the k-multiple automaton block by block is walking in the original automaton -/
theorem follow_blocks {s : FSA V L} {k : Nat} {A : FSA V (List L)}
    (hA : ∀ v w nb, A.step v w = some nb ↔ KReach s k v ∧ w.length = k ∧ s.follow v w = some nb)
    (blocks : List (List L)) (v q : V) (hv : KReach s k v) :
    A.follow v blocks = some q ↔ (∀ b ∈ blocks, b.length = k) ∧ s.follow v blocks.flatten = some q := by
  induction blocks generalizing v with
  | nil => simp
  | cons b rest ih =>
    rw [FSA.follow_cons, List.flatten_cons, FSA.follow_append]
    constructor
    · intro h
      cases hst : A.step v b with
      | none => simp [hst] at h
      | some p =>
        simp only [hst, Option.bind_some] at h
        obtain ⟨-, hb, hf⟩ := (hA v b p).1 hst
        obtain ⟨h1, h2⟩ := (ih p (KReach.step hv hb hf)).1 h
        refine ⟨?_, by simp [hf, h2]⟩
        intro b' hb'
        rcases List.mem_cons.1 hb' with rfl | hb'
        · exact hb
        · exact h1 b' hb'
    · rintro ⟨h1, h2⟩
      cases hf : s.follow v b with
      | none => simp [hf] at h2
      | some p =>
        simp only [hf, Option.bind_some] at h2
        have hb : b.length = k := h1 b (by simp)
        have hst : A.step v b = some p := (hA v b p).2 ⟨hv, hb, hf⟩
        simp only [hst, Option.bind_some]
        exact (ih p (KReach.step hv hb hf)).2 ⟨fun b' hb' => h1 b' (by simp [hb']), h2⟩

/-- **The k-multiple automaton accepts exactly the accepted words whose length is a multiple of
`k`** (`k ≥ 1`; `even_automaton` is `k = 2`).  Partial correctness of the literal queue loop:
whenever `automaton_multiple(k)` returns `A`, then for every start vertex a word `w` with
`k ∣ |w|` is accepted by the original automaton (ending in `q`) iff it is the concatenation of a
block word accepted by `A` (ending in `q`), and that block word is unique. -/
theorem multiple_language {s : FSA V L} (hs : s.RowsNodup) (k fuel : Nat) (hk : 1 ≤ k)
    {A : FSA V (List L)} (h : s.multiple k fuel = .ok A) (start : V) (hst : start ∈ s.starts)
    (w : List L) (q : V) :
    ((s.follow start w = some q ∧ k ∣ w.length) ↔
      ∃ blocks, A.follow start blocks = some q ∧ blocks.flatten = w) ∧
    (∀ b₁ b₂ q₁ q₂, A.follow start b₁ = some q₁ → A.follow start b₂ = some q₂ →
      b₁.flatten = b₂.flatten → b₁ = b₂) := by
  obtain ⟨-, -, -, hA⟩ := multiple_spec hs k fuel h
  have hr : KReach s k start := KReach.start hst
  constructor
  · constructor
    · rintro ⟨hf, n, hn⟩
      obtain ⟨bs, h1, h2⟩ := exists_blocks k n w (by rw [hn, Nat.mul_comm])
      exact ⟨bs, (follow_blocks hA bs start q hr).2 ⟨h1, by rw [h2]; exact hf⟩, h2⟩
    · rintro ⟨bs, h1, rfl⟩
      obtain ⟨h2, h3⟩ := (follow_blocks hA bs start q hr).1 h1
      refine ⟨h3, ?_⟩
      clear h1 h3
      induction bs with
      | nil => simp
      | cons b r ih =>
        rw [List.flatten_cons, List.length_append, h2 b (by simp)]
        exact Nat.dvd_add (Nat.dvd_refl k) (ih (fun x hx => h2 x (by simp [hx])))
  · intro b₁ b₂ q₁ q₂ f₁ f₂ he
    exact blocks_unique k hk b₁ b₂ ((follow_blocks hA b₁ start q₁ hr).1 f₁).1
      ((follow_blocks hA b₂ start q₂ hr).1 f₂).1 he

/-- the result of `automaton_multiple` is well-formed (its three views are coherent), has the same
start list, and its vertices are the vertices reachable by walks of length a multiple of `k` -/
theorem multiple_wf {s : FSA V L} (hs : s.RowsNodup) (k fuel : Nat) {A : FSA V (List L)}
    (h : s.multiple k fuel = .ok A) :
    A.WF ∧ A.starts = s.starts ∧ ∀ v, v ∈ A.vertices ↔ KReach s k v := by
  obtain ⟨h1, h2, h3, -⟩ := multiple_spec hs k fuel h
  exact ⟨h1, h2, h3⟩

/-- **`automaton_multiple(k)` terminates, with an explicit bound on the number of pops.**  On a
well-formed automaton whose start vertices are vertices and in which every vertex has at most `m`
outgoing labels, the literal queue loop (which marks a vertex when it is popped and never checks the
mark at pop time) returns within `multFuel s (m ^ k) = #starts · multA (m ^ k) #vertices` pops, where
`multA D 0 = 0`, `multA D (u+1) = 1 + D·(1 + D·multA D u)`.  With `multiple_language` this turns the
partial-correctness statement into a total one.  The bound is exponential in the number of
vertices — and so is the loop: see the example below. -/
theorem multiple_terminates {s : FSA V L} (hs : s.WF) (hst : ∀ v ∈ s.starts, v ∈ s.vertices) (k m : Nat)
    (hm : ∀ v row, s.graph.get? v = some row → row.length ≤ m)
    (fuel : Nat) (hf : multFuel s (m ^ k) ≤ fuel) : ∃ A, s.multiple k fuel = .ok A :=
  multiple_total hs hst k (m ^ k) (fun v _ paths h => enumFixed_length_le m hm v k paths h) fuel hf

section Exponential
/-- `d + 1` vertices in a row, two parallel labels from each to the next -/
def chain (d : Nat) : FSA Nat String :=
  fromGraphDict ((List.range d).map fun i => (i, [("a", i + 1), ("b", i + 1)])) [0]

/-- the literal loop of `automaton_multiple(1)` pops exactly `2^(d+1) - 1` times on `chain d`
(a vertex queued `j` times is processed `j` times): 3, 7, 15, 31, 63 pops for 2, …, 6 vertices —
one pop fewer is not enough — while the proved bound `multFuel` gives 15, 63, 255, 1023, 4095 -/
example : ([1, 2, 3, 4, 5].map fun d =>
      (((chain d).multiple 1 (2 ^ (d + 1) - 2)).toOption.isSome,
       ((chain d).multiple 1 (2 ^ (d + 1) - 1)).toOption.isSome, multFuel (chain d) (2 ^ 1))) =
    [(false, true, 15), (false, true, 63), (false, true, 255), (false, true, 1023), (false, true, 4095)] := by
  rfl
end Exponential

/-! ## relabelling -/

/-- **Relabelling maps the language letter by letter.**  For a dictionary `m` that is injective
and defined on every label in use, `rename_generators(m)` returns an automaton `s'` such that a
word and its letterwise image are followed to the same state, and every word accepted by `s'` is
the image of an accepted word. -/
theorem rename_language {s : FSA V L} (hs : s.WF) (m : Dict L L)
    (hdom : ∀ v l w, s.step v l = some w → ∃ l', m.get? l = some l')
    (hinj : ∀ l₁ l₂ x, m.get? l₁ = some x → m.get? l₂ = some x → l₁ = l₂) :
    ∃ s', s.rename m = .ok s' ∧ s'.WF ∧ s'.starts = s.starts ∧
      (∀ v w w', Renames m w w' → s'.follow v w' = s.follow v w) ∧
      (∀ v w' q, s'.follow v w' = some q → ∃ w, Renames m w w' ∧ s.follow v w = some q) := by
  obtain ⟨s', e, hw, hst, -, hstep⟩ := rename_spec hs m hdom
    (fun v l₁ w₁ l₂ w₂ l' _ _ h₁ h₂ => hinj l₁ l₂ l' h₁ h₂)
  exact ⟨s', e, hw, hst, fun v w w' hr => follow_rename_of m hstep hinj v w w' hr,
    fun v w' q hf => follow_rename_preimage m hstep v w' q hf⟩

/-! ## the recurrent version -/

/-- **`recurrent()` is the largest sub-automaton without dead ends.**  On a well-formed automaton
the call never raises; the vertex set `S'` of the result has no dead ends (every vertex of `S'` has
an edge into `S'` and an edge from `S'`), contains every vertex set without dead ends, and the edges
of the result are the edges of the original automaton between vertices of `S'`. -/
theorem recurrent_greatest {s : FSA V L} (hs : s.WF) :
    ∃ s', s.recurrent = .ok s' ∧ s'.WF ∧ s'.starts = s.starts ∧
      s.abs.NoDeadEnds (fun v => v ∈ s'.vertices) ∧
      (∀ S, s.abs.NoDeadEnds S → ∀ v, S v → v ∈ s'.vertices) ∧
      (∀ v l w, s'.step v l = some w ↔ s.step v l = some w ∧ v ∈ s'.vertices ∧ w ∈ s'.vertices) := by
  obtain ⟨s', e, hw, hst, ha⟩ := recurrent_spec hs
  have hv : ∀ v, v ∈ s'.vertices ↔ s.abs.core v := by
    intro v
    have : s'.abs.verts v ↔ (s.abs.recurrent).verts v := by rw [ha]
    simp only [SetFSA.recurrent, SetFSA.induced] at this
    constructor
    · intro h; exact (this.1 h).2
    · intro h; exact this.2 ⟨(SetFSA.noDeadEnds_core s.abs v h).1, h⟩
  refine ⟨s', e, hw, hst, ?_, ?_, ?_⟩
  · intro v hv'
    obtain ⟨h1, ⟨l, w, h2, h3⟩, ⟨l', u, h4, h5⟩⟩ := SetFSA.noDeadEnds_core s.abs v ((hv v).1 hv')
    exact ⟨h1, ⟨l, w, h2, (hv w).2 h3⟩, ⟨l', u, h4, (hv u).2 h5⟩⟩
  · intro S hS v hSv; exact (hv v).2 (SetFSA.le_core s.abs hS v hSv)
  · intro v l w
    have : s'.abs.edges v l w ↔ (s.abs.recurrent).edges v l w := by rw [ha]
    simp only [SetFSA.recurrent, SetFSA.induced] at this
    rw [hv v, hv w]; exact this

/-- **The language of `recurrent()`.**  With `C` the vertex set of the pruned automaton (by
`recurrent_greatest` the greatest set without dead ends): from a vertex of `C`, a word is followed in
the pruned automaton exactly when it is followed in the original one and the walk never leaves `C`
(`StaysIn`: every visited vertex, both end points included, lies in `C`); the end state is the
same.  Consequently (third clause) a word is accepted by the pruned automaton iff it is accepted by
the original from a start vertex in `C` along a walk inside `C` — or it is the empty word, which
`accepts` admits from any start vertex, pruned or not (see the note on dangling start vertices). -/
theorem recurrent_language {s : FSA V L} (hs : s.WF) :
    ∃ s', s.recurrent = .ok s' ∧
      (∀ v, v ∈ s'.vertices → ∀ w q,
        s'.follow v w = some q ↔ s.follow v w = some q ∧ StaysIn s (fun x => x ∈ s'.vertices) v w) ∧
      (∀ v, v ∉ s'.vertices → ∀ w q, s'.follow v w = some q ↔ w = [] ∧ q = v) ∧
      (∀ w, s'.accepts w = true ↔
        (w = [] ∧ s.starts ≠ []) ∨
        ∃ v, v ∈ s.starts ∧ v ∈ s'.vertices ∧ (∃ q, s.follow v w = some q) ∧
          StaysIn s (fun x => x ∈ s'.vertices) v w) := by
  obtain ⟨s', e, hw, hst, -, -, hstep⟩ := recurrent_greatest hs
  have h1 : ∀ v, v ∈ s'.vertices → ∀ w q,
      s'.follow v w = some q ↔ s.follow v w = some q ∧ StaysIn s (fun x => x ∈ s'.vertices) v w :=
    fun v hv w q => follow_induced (S := fun x => x ∈ s'.vertices) hstep v hv w q
  have h2 : ∀ v, v ∉ s'.vertices → ∀ w q, s'.follow v w = some q ↔ w = [] ∧ q = v := by
    intro v hv w q
    cases w with
    | nil => simp [eq_comm]
    | cons l w =>
      rw [follow_cons]
      have : s'.step v l = none := by
        cases h : s'.step v l with
        | none => rfl
        | some u => exact absurd ((hstep v l u).1 h).2.1 hv
      simp [this]
  refine ⟨s', e, h1, h2, ?_⟩
  intro w
  rw [accepts_iff_follow]
  simp only [hst]
  constructor
  · rintro ⟨v, hv, q, hq⟩
    by_cases hin : v ∈ s'.vertices
    · exact Or.inr ⟨v, hv, hin, ⟨q, ((h1 v hin w q).1 hq).1⟩, ((h1 v hin w q).1 hq).2⟩
    · exact Or.inl ⟨((h2 v hin w q).1 hq).1, List.ne_nil_of_mem hv⟩
  · rintro (⟨rfl, hne⟩ | ⟨v, hv, hin, ⟨q, hq⟩, hstay⟩)
    · obtain ⟨v, hv⟩ := List.exists_mem_of_ne_nil _ hne
      exact ⟨v, hv, v, by simp⟩
    · exact ⟨v, hv, q, (h1 v hin w q).2 ⟨hq, hstay⟩⟩

/-! ## the shortest-path version -/

/-- **`remove_long_paths(root, edge_ties)` keeps exactly the edges lying on shortest paths from the
root.**  Whenever the call returns `(H, dist)` (`dist` is the loop's `distance` dictionary) for the
root `r` — the given one or, for `root=None`, the first start vertex — then: `H` is a well-formed
automaton on the same vertex set whose start vertex is `r`; `dist[x] = n` iff `n` is the
graph distance from `r` to `x`; every edge of `H` is an edge of the original automaton from a vertex
at distance `d` to a vertex at distance `d + 1`; with `edge_ties=True` `H` has *every* such edge; with
`edge_ties=False` every vertex reachable from `r`, other than `r`, has in `H` incoming edges from
exactly one vertex (so `H` is a spanning tree of the shortest-path edges), and a kept tree edge
keeps all its parallel labels. -/
theorem removeLongPaths_shortest {s : FSA V L} (hs : s.WF) (root : Option V) (ties : Bool)
    {H : FSA V L} {dist : Dict V Nat} (h : s.removeLongPaths root ties = .ok (H, dist)) :
    H.WF ∧ (∀ v, v ∈ H.vertices ↔ v ∈ s.vertices) ∧
    ∃ r, (root = some r ∨ (root = none ∧ s.starts.head? = some r)) ∧ H.starts = [r] ∧
      (∀ x n, dist.get? x = some n ↔ IsDist s r x n) ∧
      (∀ v l w, H.step v l = some w →
        s.step v l = some w ∧ ∃ d, IsDist s r v d ∧ IsDist s r w (d + 1)) ∧
      (ties = true → ∀ v l w, H.step v l = some w ↔
        s.step v l = some w ∧ ∃ d, IsDist s r v d ∧ IsDist s r w (d + 1)) ∧
      (ties = false →
        (∀ w n, IsDist s r w n → w ≠ r →
          ∃ v, (∃ l, H.step v l = some w) ∧ ∀ v' l', H.step v' l' = some w → v' = v) ∧
        (∀ v l w, H.step v l = some w → ∀ l', s.step v l' = some w → H.step v l' = some w)) :=
  removeLongPaths_spec hs root ties h

/-- **`remove_long_paths` never raises on a well-formed automaton whose root is a vertex**, so
`removeLongPaths_shortest` describes every such call: no dictionary read of the loop fails and the
breadth-first loop ends within `#vertices + 2` iterations. -/
theorem removeLongPaths_total {s : FSA V L} (hs : s.WF) (root : Option V) (ties : Bool) (r : V)
    (hr : root = some r ∨ (root = none ∧ s.starts.head? = some r)) (hv : r ∈ s.vertices) :
    ∃ H dist, s.removeLongPaths root ties = .ok (H, dist) :=
  FSA.removeLongPaths_total hs root ties r hr hv

/-- **The language of `remove_long_paths`.**  Whenever the call returns `(H, dist)` for the root `r`:
every word followed in `H` from the root is followed in the original automaton to the same state and
is *geodesic* (its length is the graph distance from the root to its end state); with
`edge_ties=True` the words followed in `H` from the root are exactly the geodesic words of the
original; with `edge_ties=False` every vertex reachable from the root is still reached in `H` by
some word, of geodesic length — `H` is "a" shortest-path version, whichever tree the loop picked. -/
theorem removeLongPaths_language {s : FSA V L} (hs : s.WF) (root : Option V) (ties : Bool)
    {H : FSA V L} {dist : Dict V Nat} (h : s.removeLongPaths root ties = .ok (H, dist)) :
    ∃ r, (root = some r ∨ (root = none ∧ s.starts.head? = some r)) ∧ H.starts = [r] ∧
      (∀ w q, H.follow r w = some q → s.follow r w = some q ∧ IsDist s r q w.length) ∧
      (ties = true → ∀ w q, H.follow r w = some q ↔
        s.follow r w = some q ∧ IsDist s r q w.length) ∧
      (ties = false → ∀ x n, IsDist s r x n →
        ∃ w : List L, w.length = n ∧ H.follow r w = some x) := by
  obtain ⟨-, -, r, hr, hst, -, hedge, htrue, hfalse⟩ := removeLongPaths_shortest hs root ties h
  have h1 : ∀ w q, H.follow r w = some q → s.follow r w = some q ∧ IsDist s r q w.length := by
    intro w q hq
    simpa using follow_geodesic hedge w r 0 q (isDist_root s r) hq
  refine ⟨r, hr, hst, h1, ?_, ?_⟩
  · intro ht w q
    refine ⟨h1 w q, fun ⟨a, b⟩ => ?_⟩
    exact follow_of_geodesic (htrue ht) w r 0 q (isDist_root s r) a (by simpa using b)
  · intro hf x n hx
    refine exists_follow_of_tree hedge ?_ n x hx
    intro w m hw hne
    obtain ⟨v, ⟨l, hl⟩, -⟩ := (hfalse hf).1 w m hw hne
    exact ⟨v, l, hl⟩

/-! ## non-in-place operations

`recurrent(inplace=False)`, `rename_generators(inplace=False)`, `automaton_multiple`,
`remove_long_paths` are pure functions of the model: the argument cannot change.  For the Python
(deepcopy, shared lists) this is observed by the correspondence / oracle clauses, not proved. -/

section Example2
/-- `FSA({0: {'a': 1, 'b': 0}, 1: {'a': 0}, 2: {'a': 0}}, [0])` -/
def exA : FSA Nat String := fromGraphDict [(0, [("a", 1), ("b", 0)]), (1, [("a", 0)]), (2, [("a", 0)])] [0]

example : ((exA.multiple 2 100).toOption.map fun A => A.edgesG) =
    some [(0, ["a", "a"], 0), (0, ["b", "a"], 1), (0, ["b", "b"], 0), (1, ["a", "a"], 1), (1, ["a", "b"], 0)] := by
  rfl

example : ((exA.recurrent).toOption.map fun A => A.vertices) = some [0, 1] := by rfl

example : ((exA.rename [("a", "x"), ("b", "y")]).toOption.map fun A => A.follow 0 ["y", "x", "x"]) =
    some (exA.follow 0 ["b", "a", "a"]) := by rfl

example : ((exA.removeLongPaths none true).toOption.map fun r => (r.1.edgesG, r.2)) =
    some ([(0, "a", 1)], [(0, 0), (1, 1)]) := by rfl
end Example2

end GT.C10
