/-
C10 — automaton operations transform the accepted language as documented.
Property theorems about the model `GT.FSA` (lean/GT/Model/FSA.lean); helper lemmas live in
`GT/Lemmas/FSA*.lean`.  Each theorem family is followed by an `example` on a concrete automaton.
-/
import GT.Lemmas.FSALang

namespace GT.C10
open GT GT.FSA
variable {V L : Type} [DecidableEq V] [DecidableEq L]

/-! ## the acceptance test, the walk, the prefix queries and the enumerators agree -/

/-- `follow_word` is a monoid action: walking `u ++ w` is walking `u`, then `w` -/
theorem follow_append (s : FSA V L) (v : V) (u w : List L) :
    s.follow v (u ++ w) = (s.follow v u).bind (fun v' => s.follow v' w) :=
  FSA.follow_append s v u w

/-- `accepts(word, start_vertex)` is true exactly when `follow_word` succeeds from the given start
vertex, or (for `start_vertex=None`) from one of the start vertices -/
theorem accepts_iff_follow (s : FSA V L) (w : List L) (start : Option V) :
    s.accepts w start = true ↔
      ∃ v, v ∈ (match start with | some v => [v] | none => s.starts) ∧ ∃ q, s.follow v w = some q := by
  unfold FSA.accepts
  rw [List.any_eq_true]
  constructor
  · rintro ⟨v, hv, h⟩
    exact ⟨v, hv, Option.isSome_iff_exists.1 h⟩
  · rintro ⟨v, hv, q, h⟩
    exact ⟨v, hv, by simp [h]⟩

/-- `initial_accepted_subword(word)` is the longest prefix of `word` accepted from the first start
vertex (and raises `IndexError` exactly when there is no start vertex) -/
theorem initialAccepted_spec (s : FSA V L) (w : List L) :
    (s.starts = [] ∧ s.initialAccepted w = .error .indexError) ∨
    ∃ v0 rest p, s.starts = v0 :: rest ∧ s.initialAccepted w = .ok p ∧ p <+: w ∧
      (s.follow v0 p).isSome ∧ ∀ p', p' <+: w → (s.follow v0 p').isSome → p'.length ≤ p.length := by
  unfold FSA.initialAccepted
  cases hs : s.starts with
  | nil => exact Or.inl ⟨rfl, rfl⟩
  | cons v0 rest =>
    exact Or.inr ⟨v0, rest, _, rfl, rfl, acceptedPrefixFrom_prefix s v0 w,
      acceptedPrefixFrom_accepted s v0 w, fun p' hp h => acceptedPrefixFrom_longest s v0 w p' hp h⟩

/-- the longest-accepted-prefix query agrees with the acceptance test: the answer is the whole
word exactly when the word is accepted from the first start vertex -/
theorem initialAccepted_eq_self_iff (s : FSA V L) (v0 : V) (rest : List V) (hs : s.starts = v0 :: rest)
    (w : List L) : s.initialAccepted w = .ok w ↔ s.accepts w (some v0) = true := by
  unfold FSA.initialAccepted FSA.accepts
  simp only [hs, Except.ok.injEq, List.any_cons, List.any_nil, Bool.or_false]
  constructor
  · intro h
    have := acceptedPrefixFrom_accepted s v0 w
    rwa [h] at this
  · exact acceptedPrefixFrom_eq_self

/-- `initial_rejected_subword(word)` as coded: the word itself when it is accepted, otherwise the
shortest rejected prefix (= longest accepted prefix plus the next letter) -/
theorem initialRejected_spec (s : FSA V L) (v0 : V) (rest : List V) (hs : s.starts = v0 :: rest)
    (w : List L) :
    ∃ r, s.initialRejected w = .ok r ∧
      ((s.follow v0 w).isSome → r = w) ∧
      (s.follow v0 w = none → r <+: w ∧ s.follow v0 r = none ∧
        ∃ l, r = s.acceptedPrefixFrom v0 w ++ [l]) := by
  refine ⟨s.rejectedPrefixFrom v0 w, by simp [FSA.initialRejected, hs], ?_, ?_⟩
  · exact rejectedPrefixFrom_of_accepted
  · intro h
    obtain ⟨l, e, hp, hr⟩ := rejectedPrefixFrom_of_rejected h
    exact ⟨hp, hr, l, e⟩

/-- `enumerate_fixed_length_paths(n, start, with_states=True)` yields exactly the pairs
`(w, q)` with `|w| = n` and `follow_word(w, start) = q` -/
theorem mem_enumFixed {s : FSA V L} (hd : s.RowsNodup) {start : V} {n : Nat}
    {xs : List (List L × V)} (h : s.enumFixed start n = .ok xs) (w : List L) (q : V) :
    (w, q) ∈ xs ↔ w.length = n ∧ s.follow start w = some q :=
  FSA.mem_enumFixed hd h w q

/-- … and lists each accepted word exactly once -/
theorem enumFixed_nodup {s : FSA V L} (hd : s.RowsNodup) {start : V} {n : Nat}
    {xs : List (List L × V)} (h : s.enumFixed start n = .ok xs) : (xs.map Prod.fst).Nodup :=
  words_nodup_enumFixed hd h

/-- the enumerator does not raise when every target of the label view is a vertex -/
theorem enumFixed_ok {s : FSA V L} (hd : s.RowsNodup) (hc : s.Closed) {start : V}
    (hs : ∃ row, s.graph.get? start = some row) (n : Nat) : ∃ xs, s.enumFixed start n = .ok xs :=
  FSA.enumFixed_ok hd hc hs n

/-- `enumerate_words(n, start, with_states=True)` yields exactly the pairs `(w, q)` with
`|w| ≤ n` and `follow_word(w, start) = q` -/
theorem mem_enumWords {s : FSA V L} (hd : s.RowsNodup) {start : V} {n : Nat}
    {xs : List (List L × V)} (h : s.enumUpTo start n = .ok xs) (w : List L) (q : V) :
    (w, q) ∈ xs ↔ w.length ≤ n ∧ s.follow start w = some q :=
  mem_enumUpTo hd h w q

/-- … each accepted word exactly once -/
theorem enumWords_nodup {s : FSA V L} (hd : s.RowsNodup) {start : V} {n : Nat}
    {xs : List (List L × V)} (h : s.enumUpTo start n = .ok xs) : (xs.map Prod.fst).Nodup :=
  words_nodup_enumUpTo hd h

/-- the enumerators and the acceptance test agree: a word of length `≤ n` is enumerated iff it is
accepted from `start` -/
theorem enumWords_iff_accepts {s : FSA V L} (hd : s.RowsNodup) {start : V} {n : Nat}
    {xs : List (List L × V)} (h : s.enumUpTo start n = .ok xs) (w : List L) (hw : w.length ≤ n) :
    w ∈ xs.map Prod.fst ↔ s.accepts w (some start) = true := by
  rw [accepts_iff_follow]
  simp only [List.mem_map, Prod.exists, exists_and_right, exists_eq_right, List.mem_singleton,
    exists_eq_left]
  constructor
  · rintro ⟨q, hq⟩; exact ⟨q, ((mem_enumUpTo hd h w q).1 hq).2⟩
  · rintro ⟨q, hq⟩; exact ⟨q, (mem_enumUpTo hd h w q).2 ⟨hw, hq⟩⟩

section Example
/-- the word acceptor of the free group on one generator: `fsa.free_automaton("a")` -/
def exFree : FSA String String := FSA.free (fun g => if g = "a" then "A" else "a") "" ["a"]

example : exFree.RowsNodup ∧ exFree.accepts ["a", "a"] = true ∧ exFree.accepts ["a", "A"] = false ∧
    (exFree.initialAccepted ["a", "A", "a"]).toOption = some ["a"] ∧
    (exFree.initialRejected ["a", "A", "a"]).toOption = some ["a", "A"] ∧
    (exFree.enumUpTo "" 2).toOption.map (·.map Prod.fst) =
      some [[], ["a"], ["A"], ["a", "a"], ["A", "A"]] := by
  refine ⟨?_, by decide, by decide, by decide, by decide, by decide⟩
  intro v row h
  have : row ∈ [[("a", "a"), ("A", "A")], [("a", "a")], [("A", "A")]] := by
    have hm := Dict.mem_of_get? h
    revert hm; unfold exFree; simp [FSA.free, FSA.fromGraphDict, FSA.hiddenVertices, Dict.set, Dict.keys]
    intro hm; rcases hm with ⟨_, rfl⟩ | ⟨_, rfl⟩ | ⟨_, rfl⟩ <;> simp
  simp only [List.mem_cons, List.not_mem_nil, or_false] at this
  rcases this with rfl | rfl | rfl <;> decide
end Example

end GT.C10
