/- property theorems for C10 (filled in below) -/
