/-
C11 — derived data stays coherent with primary data; queries do not move objects.
Model: `GT.Model.ObjState` (state machine over `ND` arrays; `__setitem__` and `combine` as
repaired, D6).  Helper lemmas: `GT.Lemmas.ObjState`, `GT.Lemmas.Query`.  Only property
theorems and non-vacuity examples here.  Everything holds for all composite ranks/shapes.
-/
import GT.Lemmas.ObjState
import GT.Lemmas.Query
import Mathlib.Algebra.Field.Rat
import Mathlib.Algebra.Order.Ring.Rat

set_option linter.unusedSectionVars false
set_option linter.unusedSimpArgs false
set_option linter.unusedVariables false

open Matrix

namespace GT.C11
open GT GT.Act GT.Act.ND

section inv
variable {K : Type} [Field K] [Inhabited K] (r : K → K)

/-! ## `Inv o`: stored `aux ~ computeAux kind proj`, row by row up to a non-zero scalar -/

/-- construction from primary data establishes the invariant (every class) -/
theorem inv_construct (kind : Kind) (p : ND K) {o : List ℕ} {t n : ℕ} (hp : p.shape = o ++ [t, n]) :
    Inv r (Obj.construct r kind p) := inv_of_construct r kind p hp

/-- … also for points (unit rank 1, no derived data), whatever the shape -/
theorem inv_construct_noaux {kind : Kind} (hk : kind.auxNdims = 0) (p : ND K) :
    Inv r (Obj.construct r kind p) := Or.inl ⟨hk, computeAux_none r hk p⟩

/-- the vectorised numpy form of a polygon's edges (`np.stack([v, np.roll(v,-1,-2)], -2)`) is the
unit-wise `computeAux` -/
theorem computeAux_polygon_literal (p : ND K) {o : List ℕ} {t n : ℕ} (hp : p.shape = o ++ [t, n]) :
    ∃ a c, computeAuxPolygonLit p = .ok a ∧ computeAux r .polygon p = some c ∧ a.shape = c.shape ∧
      ∀ ix, Valid a.shape ix → a.get ix = c.get ix := computeAuxPolygonLit_spec r p hp

theorem inv_step_copy {X Y : Obj K} (hX : Inv r X) (h : X.step r .copy = .ok Y) : Inv r Y :=
  GT.Act.inv_step_copy r hX h

theorem inv_step_astype {X Y : Obj K} (hX : Inv r X) (h : X.step r .astype = .ok Y) : Inv r Y :=
  GT.Act.inv_step_astype r hX h

/-- `apply`: C03's equivariance; for segments and tangent vectors the matrix must preserve the
Minkowski form (`OpOk`), for polygons any square matrix will do -/
theorem inv_step_apply {X Y : Obj K} {A AinvT : ND K} (hX : Inv r X) (hA : OpOk r X.kind (.apply A AinvT))
    (h : X.step r (.apply A AinvT) = .ok Y) : Inv r Y := GT.Act.inv_step_apply r hX hA h

theorem inv_step_reshape {X Y : Obj K} {s : List ℕ} (hX : Inv r X)
    (h : X.step r (.reshape s) = .ok Y) : Inv r Y := GT.Act.inv_step_reshape r hX h

theorem inv_step_flatten {X Y : Obj K} (hX : Inv r X) (h : X.step r .flatten = .ok Y) : Inv r Y :=
  GT.Act.inv_step_flatten r hX h

theorem inv_step_index {X Y : Obj K} {k : ℕ} (hX : Inv r X) (h : X.step r (.index k) = .ok Y) :
    Inv r Y := GT.Act.inv_step_index r hX h

/-- item assignment — of the REPAIRED code (derived data recomputed) -/
theorem inv_step_setItem {X Y : Obj K} {k : ℕ} {v : ND K} (hX : Inv r X)
    (h : X.step r (.setItem k v) = .ok Y) : Inv r Y := GT.Act.inv_step_setItem r hX h

theorem inv_step_stack {X Y : Obj K} {others : List (Obj K)} (hX : Inv r X)
    (hO : OpOk r X.kind (.stack others)) (h : X.step r (.stack others) = .ok Y) : Inv r Y :=
  GT.Act.inv_step_stack r hX hO h

/-- `combine` — of the REPAIRED code (blocks concatenated separately) -/
theorem inv_step_combine {X Y : Obj K} {others : List (Obj K)} (hX : Inv r X)
    (hO : OpOk r X.kind (.combine others)) (h : X.step r (.combine others) = .ok Y) : Inv r Y :=
  GT.Act.inv_step_combine r hX hO h

/-- every operation preserves the invariant and the class -/
theorem inv_step {X Y : Obj K} {op : ObjOp K} (hX : Inv r X) (hop : OpOk r X.kind op)
    (h : X.step r op = .ok Y) : Inv r Y ∧ Y.kind = X.kind :=
  ⟨inv_step_all r hX hop h, step_kind r h⟩

/-- **histories**: after any sequence of construction, copying, transformation, reshaping,
flattening, indexing, item assignment, stacking, combining and dtype conversion the stored
derived data is projectively what is recomputed from the primary data -/
theorem inv_history {X Z : Obj K} {ops : List (ObjOp K)} (hX : Inv r X)
    (hops : ∀ op ∈ ops, OpOk r X.kind op) (h : X.run r ops = .ok Z) : Inv r Z ∧ Z.kind = X.kind :=
  inv_run r hX hops h

end inv

/-- non-vacuity: a history on a 2×1 composite of triangles over ℚ runs through the very
definitions above (flatten, reshape, index, set item, stack, combine, copy), and its hypotheses
(`OpOk`) are met by `inv_construct` -/
example :
    let tri : ND ℚ := ofFn [2, 1, 3, 2] (fun ix => ((ix.foldl (fun s x => 3 * s + x + 1) 0 : ℕ) : ℚ))
    let X : Obj ℚ := Obj.construct id .polygon tri
    let Y : Obj ℚ := Obj.construct id .polygon (ofFn [3, 2] (fun ix => ((ix.foldl (fun s x => 2 * s + x) 1 : ℕ) : ℚ)))
    ((X.run id [.flatten, .reshape [1, 2], .index 0, .setItem 1 (ofFn [3, 2] fun _ => (1 : ℚ)), .copy,
        .stack [X.step id .flatten |>.toOption.getD X], .astype, .combine [Y]]).toOption.map
      fun Z => (Z.proj.shape, Z.aux.map (·.shape))) = some ([5, 3, 2], some [5, 3, 2, 2]) := by
  decide +kernel

section query
variable {K : Type} [Field K] [LinearOrder K] [IsStrictOrderedRing K] [Inhabited K] {r : K → K}

/-! ## queries: every stored row changes at most by a POSITIVE scalar -/

/-- coordinates in the Klein / projective / Poincaré / half-space models, circle parameters, fixed
points: nothing is written -/
theorem query_nowrite (X : Obj K) :
    X.afterQuery r .coords = X ∧ X.afterQuery r .circleParameters = X ∧ X.afterQuery r .fixedPoints = X :=
  ⟨rfl, rfl, rfl⟩

/-- `utils.normalize` on one row: divides by `√|⟨x,x⟩| > 0` or leaves a null row alone -/
theorem normalize_row_posScale (hr : RootNonneg r) {n : ℕ} (x : Fin n → K) :
    PosProjEq (normalizeRow r x) x := normalizeRow_pos hr x

/-- the unit-level write is C01's `normalize` (same Minkowski form, same formula) -/
theorem normalizeRow_is_normalize (r : K → K) {m : ℕ} (x : Fin (m + 1) → K) :
    normalizeRow r x = GT.normalize r x := normalizeRow_eq_normalize r x

/-- hyperboloid coordinates, distance, `origin_to` on points: the stored rows are rescaled
positively, derived data is untouched -/
theorem query_point_projEq (hr : RootNonneg r) (X : Obj K) {s : List ℕ} {m : ℕ}
    (hp : X.proj.shape = s ++ [m]) (q : Query)
    (hq : q = .hyperboloidCoords ∨ q = .distance ∨ q = .originTo) :
    RowsPosEq (X.afterQuery r q).proj X.proj ∧ (X.afterQuery r q).aux = X.aux ∧
      (X.afterQuery r q).kind = X.kind := by
  rcases hq with rfl | rfl | rfl <;> exact ⟨normalizeRows_pos hr X.proj hp, rfl, rfl⟩

/-- `TangentVector.normalized` / `angle`: the primary data is untouched, the derived rows are
rescaled positively -/
theorem query_tangent_normalized_projEq (hr : RootNonneg r) (X : Obj K) {a : ND K} {s : List ℕ} {m : ℕ}
    (ha : X.aux = some a) (hs : a.shape = s ++ [2, m]) :
    (X.afterQuery r .tangentNormalized).proj = X.proj ∧
    ∃ a', (X.afterQuery r .tangentNormalized).aux = some a' ∧ RowsPosEq a' a :=
  ⟨rfl, normalizeSecondRows r a, by simp [Obj.afterQuery, ha], normalizeSecondRows_pos hr a hs⟩

/-- `TangentVector.origin_to` / `isometry_to` / `point_along`: `normalize` and then Gram–Schmidt run
in place on the derived data; under `Inv` (and a non-null base point) the Gram–Schmidt
subtraction vanishes and every derived row is only rescaled positively -/
theorem query_tangent_originTo_projEq (hr : RootNonneg r) {X : Obj K} (hk : X.kind = .tangent)
    (hInv : Inv r X) {o : List ℕ} {n : ℕ} (hp : X.proj.shape = o ++ [2, n])
    (htl : ∀ i, Valid o i →
      bil (minkJ n) (fun c : Fin n => X.proj.get (i ++ [0, c.1])) (fun c : Fin n => X.proj.get (i ++ [0, c.1])) ≠ 0) :
    (X.afterQuery r .tangentOriginTo).proj = X.proj ∧
    ∃ a a', X.aux = some a ∧ (X.afterQuery r .tangentOriginTo).aux = some a' ∧ RowsPosEq a' a := by
  refine ⟨rfl, ?_⟩
  rcases hInv with ⟨h0, _⟩ | ⟨_, a, o2, t2, n2, ha, hp2, hs, hg⟩
  · rw [hk] at h0; simp [Kind.auxNdims] at h0
  · obtain ⟨rfl, rfl, rfl⟩ := shape_decomp_unique (hp.symm.trans hp2)
    have hs' : a.shape = o ++ [2, n] := by rw [hs, hk]; simp [auxRows]
    refine ⟨a, tangentOriginWriteND r a, ha, by simp [Obj.afterQuery, ha], ?_⟩
    refine tangentOriginWriteND_pos hr a hs' ?_
    intro i hi
    rw [hk] at hg
    obtain ⟨c0, _, g0⟩ := hg i [0] hi (by simp [auxRows])
    obtain ⟨c1, _, g1⟩ := hg i [1] hi (by simp [auxRows])
    set P : Matrix (Fin 2) (Fin n) K := Matrix.of fun a b => X.proj.get (i ++ [a.1, b.1]) with hP
    refine tangent_aux_orth (P 0) (P 1) _ _ c0 c1 (htl i hi) minkJ_symm ?_ ?_
    · funext c
      have := g0 c.1 c.2
      simp only [List.append_assoc, List.singleton_append, List.cons_append, List.nil_append, auxEntry,
        c.2, and_true, Nat.ofNat_pos, dite_true] at this
      rw [this]
      simp [tangentProj, tanMix, hP]
    · funext c
      have := g1 c.1 c.2
      simp only [List.append_assoc, List.singleton_append, List.cons_append, List.nil_append, auxEntry,
        c.2, and_true, Nat.one_lt_ofNat, dite_true] at this
      rw [this]
      simp [tangentProj, tanMix, hP, mul_div_assoc]

/-- the hypotheses of the query theorems are satisfiable: `Real.sqrt`-like roots exist on ℚ for
the squares the generator supplies, e.g. the identity on non-negatives is `RootNonneg` -/
example : RootNonneg (fun x : ℚ => x) := fun _ h => h

example : PosProjEq (normalizeRow (fun x : ℚ => x) ![(2 : ℚ), 0, 0]) ![2, 0, 0] :=
  normalize_row_posScale (fun _ h => h) _

end query

/-! ## added after the model-mutant round: the direction of `np.roll(v, -1, -2)` as geometry -/

/-- the edges of a polygon form the closed vertex cycle in order: edge `e` starts at vertex `e`
and ends where edge `e + 1` starts (with `np.roll(v, +1)` the end of edge `e` would be vertex `e - 1`) -/
theorem polygonEdges_chain {K : Type} {n k : ℕ} (X : Matrix (Fin (k + 1)) (Fin n) K) (e : Fin (k + 1)) :
    polygonEdges X e 0 = X e ∧ polygonEdges X e 1 = polygonEdges X (e + 1) 0 := by
  constructor <;> (ext j; simp [polygonEdges])

/-- not vacuous: a triangle with distinct vertices, where the two roll directions differ -/
example : polygonEdges !![(1 : ℚ), 0; 0, 1; 1, 1] 0 1 = ![0, 1] ∧
    polygonEdges !![(1 : ℚ), 0; 0, 1; 1, 1] 0 1 ≠ ![1, 1] := by
  constructor
  · ext j; fin_cases j <;> simp [polygonEdges]
  · intro h; have := congrFun h 0; simp [polygonEdges] at this

end GT.C11
