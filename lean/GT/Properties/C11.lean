/- property theorems for C11 (filled in below) -/
