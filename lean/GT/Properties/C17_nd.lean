/-
C17, "for single matrices and for arrays of matrices alike": the *vectorised* code paths of
`sl2_irrep`, `sl2_to_so21` and `gln_adjoint` (array arithmetic inside Python loops over matrix
entries, numpy's broadcasting `@`, the tiling `linear_matrix_action`), modelled literally on the
`ND` array model of C04 (`GT.Model.LieND`), act **unit by unit**: every unit of the result is the
single-matrix model of the corresponding unit.  Hence every unit-level theorem of
`GT.Properties.C17` (homomorphism, identity, determinant, preserved form) holds for each unit of
an array of any composite shape.
-/
import GT.Lemmas.LieND
import GT.Lemmas.Irrep.N1
import GT.Lemmas.Irrep.N2
import GT.Lemmas.Irrep.N3
import GT.Lemmas.Irrep.N4
import GT.Lemmas.Irrep.N5
import GT.Lemmas.Irrep.N6
import GT.Lemmas.Lie

set_option linter.unusedSectionVars false

namespace GT.C17
open GT.Lie GT.Lie.Arr GT.Act GT.Act.ND

variable {K : Type} [Field K] [Inhabited K]

/-- `sl2_irrep(A, n)` on an array `A` of shape `o + (2,2)`, every composite shape `o`, every `n`:
shape `o + (n,n)`, and unit `i` is `sl2Irrep n` of unit `i` of `A` -/
theorem sl2IrrepND_lifts (n : ℕ) (A : ND K) {o : List ℕ} (hA : A.shape = o ++ [2, 2]) :
    (sl2IrrepND n A).shape = o ++ [n, n] ∧
    ∀ i, Valid o i → matAt (sl2IrrepND n A) n n i = sl2Irrep n (matAt A 2 2 i) :=
  ⟨(sl2IrrepND_units n A hA).1, (sl2IrrepND_units n A hA).2.2⟩

/-- `sl2_to_so21(A)` on an array: never fails, shape `o + (3,3)`, unit `i` is `sl2ToSo21` of unit `i` -/
theorem sl2ToSo21ND_lifts (A : ND K) {o : List ℕ} (hA : A.shape = o ++ [2, 2]) :
    ∃ S, sl2ToSo21ND A = .ok S ∧ S.shape = o ++ [3, 3] ∧
      ∀ i, Valid o i → matAt S 3 3 i = sl2ToSo21 (matAt A 2 2 i) :=
  sl2ToSo21ND_units A hA

/-- `gln_adjoint(mat, inv=inv)` on arrays (array-aware `linear_matrix_action`): never fails, shape
`o + (n², n²)`, and entry `(k·n+l, i·n+j)` of unit `ix` is the `((k,l),(i,j))` entry of `glnAdjoint`
of the units -/
theorem glnAdjointND_lifts (n : ℕ) (hn : 0 < n) (mat inv : ND K) {o : List ℕ}
    (hm : mat.shape = o ++ [n, n]) (hi : inv.shape = o ++ [n, n]) :
    ∃ G, glnAdjointND n mat inv = .ok G ∧ G.shape = o ++ [n * n, n * n] ∧
      ∀ ix, Valid o ix → ∀ a b : Fin n × Fin n,
        G.get (ix ++ [a.1.1 * n + a.2.1, b.1.1 * n + b.2.1]) =
          glnAdjoint (matAt mat n n ix) (matAt inv n n ix) a b :=
  glnAdjointND_units n hn mat inv hm hi

/-- the homomorphism law on arrays: for arrays `A`, `B` of matrices of the same composite shape,
`sl2_irrep(A @ B, n) = sl2_irrep(A, n) @ sl2_irrep(B, n)` (numpy `@`), unit by unit, for every `n`
for which the unit-level law holds (`n = 1..6`: `sl2IrrepND_mul_upto6`) -/
theorem sl2IrrepND_mul (n : ℕ)
    (hmul : ∀ X Y : Matrix (Fin 2) (Fin 2) K, sl2Irrep n (X * Y) = sl2Irrep n X * sl2Irrep n Y)
    (A B : ND K) {o : List ℕ} (hA : A.shape = o ++ [2, 2]) (hB : B.shape = o ++ [2, 2]) :
    ∃ AB P, ND.matmul A B = .ok AB ∧ ND.matmul (sl2IrrepND n A) (sl2IrrepND n B) = .ok P ∧
      (sl2IrrepND n AB).shape = P.shape ∧
      ∀ i, Valid o i → matAt (sl2IrrepND n AB) n n i = matAt P n n i := by
  obtain ⟨AB, hAB, hABs, hABu⟩ := matmul_units A B hA hB (bcastShape_same o)
  obtain ⟨hsA, _, huA⟩ := sl2IrrepND_units n A hA
  obtain ⟨hsB, _, huB⟩ := sl2IrrepND_units n B hB
  obtain ⟨hsAB, _, huAB⟩ := sl2IrrepND_units n AB hABs
  obtain ⟨P, hP, hPs, hPu⟩ := matmul_units (sl2IrrepND n A) (sl2IrrepND n B) hsA hsB (bcastShape_same o)
  refine ⟨AB, P, hAB, hP, by rw [hsAB, hPs], fun i hi => ?_⟩
  rw [huAB i hi, hABu i hi, bcIx_self hi, hmul, hPu i hi, bcIx_self hi, huA i hi, huB i hi]

theorem sl2IrrepND_mul_upto6 (n : ℕ) (hn : n = 1 ∨ n = 2 ∨ n = 3 ∨ n = 4 ∨ n = 5 ∨ n = 6)
    (A B : ND K) {o : List ℕ} (hA : A.shape = o ++ [2, 2]) (hB : B.shape = o ++ [2, 2]) :
    ∃ AB P, ND.matmul A B = .ok AB ∧ ND.matmul (sl2IrrepND n A) (sl2IrrepND n B) = .ok P ∧
      (sl2IrrepND n AB).shape = P.shape ∧
      ∀ i, Valid o i → matAt (sl2IrrepND n AB) n n i = matAt P n n i := by
  rcases hn with rfl | rfl | rfl | rfl | rfl | rfl
  · exact sl2IrrepND_mul 1 GT.Lie.sl2Irrep_mul_1 A B hA hB
  · exact sl2IrrepND_mul 2 GT.Lie.sl2Irrep_mul_2 A B hA hB
  · exact sl2IrrepND_mul 3 GT.Lie.sl2Irrep_mul_3 A B hA hB
  · exact sl2IrrepND_mul 4 GT.Lie.sl2Irrep_mul_4 A B hA hB
  · exact sl2IrrepND_mul 5 GT.Lie.sl2Irrep_mul_5 A B hA hB
  · exact sl2IrrepND_mul 6 GT.Lie.sl2Irrep_mul_6 A B hA hB

/-- non-vacuity: a stack of two matrices, shape `[2] ++ [2,2]` -/
example : (sl2IrrepND 3 (⟨[2, 2, 2], #[2, 3, 1, 2, 1, 1, 0, 1]⟩ : ND ℚ)).shape = [2] ++ [3, 3] :=
  (sl2IrrepND_lifts 3 _ (o := [2]) rfl).1

end GT.C17
