/- property theorems for C02 (filled in below) -/
