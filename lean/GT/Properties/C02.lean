/-
C02 — every isometry the library builds preserves the Minkowski form and distances.
Only property theorems and non-vacuity examples live here; helper lemmas are in
`GT.Lemmas.Isometry`, `GT.Lemmas.GramSchmidt`.  Models: `GT.Model.Isometry`,
`GT.Model.GramSchmidt`.

`IsIso M` (`M J Mᵀ = J` for the stored row matrix `M`) is equivalent to "`x ↦ xM` preserves
the Minkowski form" (`isIso_iff_preserves`).  Angles enter as `(c,s)` with `c²+s²=1`,
translation lengths as `u ≠ 0`; `CharZero K` is needed only where the code divides by 2.
-/
import GT.Lemmas.Isometry
import GT.Lemmas.FrameCompletion
import GT.Lemmas.FrameSvd
import GT.Model.LinAlgQ
import GT.Properties.C01

open Finset BigOperators Matrix

set_option linter.unusedSectionVars false

namespace GT.C02
open GT GT.Iso GT.GS GT.Diag GT.LinAlgQ

variable {K : Type*} [Field K] {n m : ℕ}

/-! ## the isometries form a group under the library's `@` and `.inv()` -/

/-- `hyperbolic.identity` -/
theorem one_isIso : IsIso (1 : Matrix (Fin (n + 1)) (Fin (n + 1)) K) := isIso_one

/-- `A @ B` -/
theorem compose_isIso {A B : Matrix (Fin (n + 1)) (Fin (n + 1)) K} (hA : IsIso A) (hB : IsIso B) :
    IsIso (compose A B) := isIso_mul hB hA

/-- `A.inv()`; moreover the inverse is `J Aᵀ J` -/
theorem inv_isIso {A : Matrix (Fin (n + 1)) (Fin (n + 1)) K} (hA : IsIso A) :
    IsIso (tinv A) ∧ tinv A = minkJ n * Aᵀ * minkJ n ∧ A * tinv A = 1 := by
  refine ⟨isIso_inv hA, isIso_inv_eq hA, ?_⟩
  unfold tinv; rw [isIso_inv_eq hA]; exact isIso_mul_inv hA

/-- `M J Mᵀ = J ⇒ Mᵀ J M = J`: the row-matrix and column-matrix conventions agree, so
constructors called with `column_vectors=True` need no separate treatment -/
theorem transpose_isIso {A : Matrix (Fin (n + 1)) (Fin (n + 1)) K} (hA : IsIso A) : IsIso Aᵀ :=
  isIso_transpose hA

/-- closure under words: every finite `l₁ @ l₂ @ … @ l_k` whose letters are isometries or
`.inv()` of isometries is an isometry (induction on the word, any length) -/
theorem word_isIso (w : List (Matrix (Fin (n + 1)) (Fin (n + 1)) K × Bool))
    (h : ∀ l ∈ w, IsIso l.1) : IsIso (evalWord (w.map letterMat)) := by
  unfold evalWord
  suffices H : ∀ (acc : Matrix (Fin (n + 1)) (Fin (n + 1)) K), IsIso acc →
      IsIso ((w.map letterMat).foldl (fun acc l => compose acc l) acc) from H 1 isIso_one
  induction w with
  | nil => intro acc ha; simpa using ha
  | cons l w ih =>
    intro acc ha
    simp only [List.map_cons, List.foldl_cons]
    apply ih (fun l' hl' => h l' (List.mem_cons_of_mem _ hl'))
    apply compose_isIso ha
    have hl := h l (List.mem_cons_self ..)
    unfold letterMat
    split_ifs
    · exact isIso_inv hl
    · exact hl

/-- the materialising evaluator run by the driver denotes the same matrix -/
theorem evalWordD_eq_evalWord {p : ℕ} {K : Type} [Field K] [Inhabited K] (w : List (DMat p p K)) :
    (evalWordD w).toMatrix = evalWord (w.map DMat.toMatrix) := evalWordD_toMatrix w

/-- the driver's `.inv()` / `utils.invert`: a Gauss–Jordan candidate is returned only with the
exact certificate `M * B = 1`, which makes it Mathlib's inverse -/
theorem certInv_sound {p : ℕ} {M B : Matrix (Fin p) (Fin p) ℚ} (h : certInv M = some B) : B = tinv M :=
  certInv_spec h

/-! ## every constructor returns an isometry -/

/-- `Isometry.elliptic(n, O)` for orthogonal `O` (either value of `column_vectors`) -/
theorem elliptic_isIso {O : Matrix (Fin n) (Fin n) K} (h : O * Oᵀ = 1) :
    IsIso (elliptic O) ∧ IsIso (ellipticRow O) :=
  ⟨isIso_transpose (ellipticMat_isIso h), ellipticMat_isIso h⟩

/-- `Isometry.elliptic` "stabilizes the origin": the origin `e₀ = (1,0,…,0)` of the Klein / Poincaré ball is fixed as a
vector (not only projectively), for either value of `column_vectors`, and for any block `O` — this pins the corner entry
`mat[0,0] = 1` of the model (a model with `−1` there is still form-preserving; found by a model-side mutant) -/
theorem elliptic_fixes_origin (O : Matrix (Fin n) (Fin n) K) :
    applyRow (elliptic O) (Pi.single 0 1) = Pi.single 0 1 ∧ applyRow (ellipticRow O) (Pi.single 0 1) = Pi.single 0 1 := by
  unfold applyRow elliptic ellipticRow
  rw [Matrix.single_one_vecMul, Matrix.single_one_vecMul]
  constructor
  · funext j
    refine Fin.cases ?_ (fun j' => ?_) j <;> simp [ellipticMat, Matrix.row]
  · funext j
    refine Fin.cases ?_ (fun j' => ?_) j <;> simp [ellipticMat, Matrix.row]

/-- `Isometry.standard_rotation(θ, dimension = m+2)` with `(c,s) = (cos θ, sin θ)` -/
theorem rotation_isIso {c s : K} (h : c ^ 2 + s ^ 2 = 1) :
    IsIso (rotation c s : Matrix (Fin (m + 3)) (Fin (m + 3)) K) := by
  apply (elliptic_isIso _).1
  rw [block2_transpose, block2_mul, rotation2_orth h, block2_one]

/-- `Isometry.standard_loxodromic(m+1, u)`, `u ≠ 0` -/
theorem loxodromic_isIso [CharZero K] {u : K} (hu : u ≠ 0) :
    IsIso (loxodromic u : Matrix (Fin (m + 2)) (Fin (m + 2)) K) :=
  isIso_transpose (loxodromicMat_isIso hu)

/-- the explicit matrices standing for `utils.invert` of the two constant matrices are the
inverses -/
theorem const_inverses [CharZero K] :
    (loxBinv : Matrix (Fin (m + 2)) _ K) = loxB⁻¹ ∧ (killingConjInv : Matrix _ _ K) = killingConj⁻¹ :=
  ⟨loxBinv_eq_inv, killingConjInv_eq_inv⟩

/-- `lie.sl2_to_so21(A)` and `hyperbolic.sl2_iso(A)` for `det A = ±1` -/
theorem sl2ToSo21_isIso [CharZero K] (A : Matrix (Fin 2) (Fin 2) K)
    (hd : A.det = 1 ∨ A.det = -1) : IsIso (sl2ToSo21 A) ∧ IsIso (sl2Iso A) := by
  have h2 : (A 0 0 * A 1 1 - A 0 1 * A 1 0) ^ 2 = 1 := by
    rw [Matrix.det_fin_two] at hd
    rcases hd with h | h <;> rw [h] <;> norm_num
  have key : IsIso (sl2ToSo21 A) := by
    rw [isIso_iff_rows, sl2ToSo21_eq]
    intro i k
    have e2 : (Fin.cons (-1) (fun _ => 1) : Fin 3 → K) 2 = 1 := rfl
    fin_cases i <;> fin_cases k <;>
      simp [mink, dot, Fin.sum_univ_succ, Fin.tail, minkJ, minkDiag, e2] <;>
      first | ring1 | linear_combination h2 | linear_combination (-1 : K) * h2
  exact ⟨key, isIso_transpose key⟩

/-- `Subspace.reflection_across` for hyperplane data `D` (row 0 = normal `d₀`, non-null; the
other rows a basis of its Minkowski-orthogonal complement; `D` invertible): the result is the
closed-form reflection in `d₀` — so it does not depend on the basis the SVD chose —, it is an
involutive isometry, it negates `d₀` and fixes the other rows -/
theorem reflectAcross_spec (D : Matrix (Fin (n + 1)) (Fin (n + 1)) K) (hD : IsUnit D.det)
    (hq : mink (D 0) (D 0) ≠ 0) (horth : ∀ i : Fin n, mink (D i.succ) (D 0) = 0) :
    reflectAcross D = reflClosed (D 0) ∧ IsIso (reflectAcross D) ∧
      reflectAcross D * reflectAcross D = 1 ∧
      applyRow (reflectAcross D) (D 0) = -D 0 ∧
      ∀ i : Fin n, applyRow (reflectAcross D) (D i.succ) = D i.succ := by
  have hcl := reflectAcross_eq_closed D hD hq horth
  refine ⟨hcl, ?_, ?_, ?_, ?_⟩
  · rw [hcl]; exact reflClosed_isIso _ hq
  · rw [hcl]; exact reflClosed_sq _ hq
  · rw [hcl]; exact reflClosed_apply_self _ hq
  · intro i; rw [hcl]; exact reflClosed_apply_orth _ _ (horth i)

/-! ## the SVD-based constructors, under the kernel contract

`utils.kernel` (SVD) is a contract parameter `ker`: what is assumed of it is that its rows are
Minkowski-orthogonal to the partial frame (`hker`) and in general position with it (`hnz`:
Gram–Schmidt never produces the zero vector, i.e. all rows are linearly independent) and that
there are enough of them to fill the matrix (`hlen`).  The exact residual of each of these
assumptions is evaluated by the correspondence on every captured LAPACK call. -/

section frames
variable [LinearOrder K] [IsStrictOrderedRing K] {r : K → K}

/-- `utils.find_isometry(minkowski, x :: rest)` with `x` timelike: `M J Mᵀ = J` -/
theorem findIsometry_isIso (hr : IsSqrt r) (x : Fin (n + 1) → K) (rest ker : List (Fin (n + 1) → K))
    (hx : mink x x < 0)
    (hker : ∀ p ∈ x :: rest, ∀ k ∈ ker, mink p k = 0)
    (hnz : ∀ u ∈ gs (minkJ n) (x :: rest) ++ gs (minkJ n) ker, u ≠ 0)
    (hlen : (findIsometry r (minkJ n) (x :: rest) ker).length = n + 1) :
    IsIso (rowsMatrix (findIsometry r (minkJ n) (x :: rest) ker) hlen) :=
  findIsometry_isIso' hr x rest ker hx hker hnz hlen

/-- the sheet normalisation of (repaired) `origin_to`: the first row has non-negative time coordinate,
whichever representative of the point was stored -/
theorem originTo_upper_sheet (y : Fin (n + 1) → K) : 0 ≤ (sheetSign y • y) 0 := by
  unfold sheetSign
  split_ifs with h
  · simp only [Pi.smul_apply, smul_eq_mul]; linarith
  · simp only [Pi.smul_apply, smul_eq_mul, one_mul]; exact not_lt.1 h

/-- `Point.origin_to` for an interior point `x` (any representative) -/
theorem originTo_isIso (hr : IsSqrt r) (x : Fin (n + 1) → K) (ker : List (Fin (n + 1) → K)) (hx : mink x x < 0)
    (hker : ∀ p ∈ [sheetSign (normalizeVec r (minkJ n) x) • normalizeVec r (minkJ n) x], ∀ k ∈ ker, mink p k = 0)
    (hnz : ∀ u ∈ gs (minkJ n) [sheetSign (normalizeVec r (minkJ n) x) • normalizeVec r (minkJ n) x] ++ gs (minkJ n) ker, u ≠ 0)
    (hlen : (originTo r x ker).length = n + 1) : IsIso (rowsMatrix (originTo r x ker) hlen) :=
  findIsometry_isIso' hr _ [] ker (sheet_normalizeVec_timelike hr x hx) hker hnz hlen

/-- `TangentVector.origin_to` for a tangent vector `v` at an interior point `x` -/
theorem tangentOriginTo_isIso (hr : IsSqrt r) (x v : Fin (n + 1) → K) (ker : List (Fin (n + 1) → K))
    (hx : mink x x < 0)
    (hker : ∀ p ∈ [sheetSign (normalizeVec r (minkJ n) x) • normalizeVec r (minkJ n) x,
      sheetSign (normalizeVec r (minkJ n) x) • normalizeVec r (minkJ n) v], ∀ k ∈ ker, mink p k = 0)
    (hnz : ∀ u ∈ gs (minkJ n) [sheetSign (normalizeVec r (minkJ n) x) • normalizeVec r (minkJ n) x,
      sheetSign (normalizeVec r (minkJ n) x) • normalizeVec r (minkJ n) v] ++ gs (minkJ n) ker, u ≠ 0)
    (hlen : (tangentOriginTo r x v ker).length = n + 1) : IsIso (rowsMatrix (tangentOriginTo r x v ker) hlen) :=
  findIsometry_isIso' hr _ _ ker (sheet_normalizeVec_timelike hr x hx) hker hnz hlen

/-- (repaired) `hyperbolic.spacelike_to(v)` for spacelike `v`: the first row of the completed
frame is timelike, so the result is an isometry -/
theorem spacelikeTo_isIso (hr : IsSqrt r) (v : Fin (n + 1) → K) (ker : List (Fin (n + 1) → K)) (hv : 0 < mink v v)
    (hker : ∀ p ∈ spacelikeFrame r v, ∀ k ∈ ker, mink p k = 0)
    (hnz : ∀ u ∈ gs (minkJ n) (spacelikeFrame r v) ++ gs (minkJ n) ker, u ≠ 0)
    (hlen : (spacelikeTo r v ker).length = n + 1) : IsIso (rowsMatrix (spacelikeTo r v ker) hlen) := by
  obtain ⟨t, rest, hfr, ht⟩ := spacelikeFrame_timelike hr v hv
  unfold spacelikeTo at hlen ⊢
  revert hlen hker hnz
  rw [hfr]
  intro hker hnz hlen
  exact findIsometry_isIso' hr t rest ker ht hker hnz hlen

/-! ### the same constructors assuming only the LAPACK contract

The kernel basis is what `svd_kernel` selects from an SVD `(u, s, vh)` of `orth_partial @ minkowski`
satisfying `SvdContract` (`A = u Σ vh`, `u`, `vh` orthogonal, `s ≥ 0` descending, exact zero
test).  Orthogonality of the kernel to the frame, general position of the kernel rows and the
row count are *derived*; the general position of the partial frame is proved for each constructor. -/

/-- `utils.find_isometry(minkowski, x :: rest)`: `x` timelike, rows linearly independent -/
theorem findIsometry_isIso_svd (hr : IsSqrt r) (x : Fin (n + 1) → K) (rest : List (Fin (n + 1) → K))
    (hx : mink x x < 0) (hpartial : ∀ u ∈ gs (minkJ n) (x :: rest), u ≠ 0)
    {k : ℕ} (hk : (indefiniteOrthogonalize r (minkJ n) (x :: rest)).length = k)
    (tol : K) (s : List K) (U : Matrix (Fin k) (Fin k) K) (Vh : Matrix (Fin (n + 1)) (Fin (n + 1)) K)
    (hsvd : SvdContract tol (rowsMatrix (indefiniteOrthogonalize r (minkJ n) (x :: rest)) hk * minkJ n) s U Vh) :
    ∃ h : (findIsometry r (minkJ n) (x :: rest) (svdKernelRows tol k s Vh)).length = n + 1,
      IsIso (rowsMatrix (findIsometry r (minkJ n) (x :: rest) (svdKernelRows tol k s Vh)) h) :=
  findIsometry_isIso_of_svd hr x rest hx hpartial hk tol s U Vh hsvd

/-- `Point.origin_to` of any interior point -/
theorem originTo_isIso_svd (hr : IsSqrt r) (x : Fin (n + 1) → K) (hx : mink x x < 0)
    {k : ℕ} (hk : (indefiniteOrthogonalize r (minkJ n)
      [sheetSign (normalizeVec r (minkJ n) x) • normalizeVec r (minkJ n) x]).length = k)
    (tol : K) (s : List K) (U : Matrix (Fin k) (Fin k) K) (Vh : Matrix (Fin (n + 1)) (Fin (n + 1)) K)
    (hsvd : SvdContract tol (rowsMatrix (indefiniteOrthogonalize r (minkJ n)
      [sheetSign (normalizeVec r (minkJ n) x) • normalizeVec r (minkJ n) x]) hk * minkJ n) s U Vh) :
    ∃ h : (originTo r x (svdKernelRows tol k s Vh)).length = n + 1,
      IsIso (rowsMatrix (originTo r x (svdKernelRows tol k s Vh)) h) :=
  findIsometry_isIso_of_svd hr _ [] (sheet_normalizeVec_timelike hr x hx) (originTo_partial hr x hx) hk tol s U Vh hsvd

/-- `TangentVector.origin_to` of a non-zero tangent vector `v ⟂ x` at an interior point `x` -/
theorem tangentOriginTo_isIso_svd (hr : IsSqrt r) (x v : Fin (n + 1) → K) (hx : mink x x < 0) (hv : v ≠ 0)
    (hxv : mink v x = 0)
    {k : ℕ} (hk : (indefiniteOrthogonalize r (minkJ n)
      [sheetSign (normalizeVec r (minkJ n) x) • normalizeVec r (minkJ n) x,
       sheetSign (normalizeVec r (minkJ n) x) • normalizeVec r (minkJ n) v]).length = k)
    (tol : K) (s : List K) (U : Matrix (Fin k) (Fin k) K) (Vh : Matrix (Fin (n + 1)) (Fin (n + 1)) K)
    (hsvd : SvdContract tol (rowsMatrix (indefiniteOrthogonalize r (minkJ n)
      [sheetSign (normalizeVec r (minkJ n) x) • normalizeVec r (minkJ n) x,
       sheetSign (normalizeVec r (minkJ n) x) • normalizeVec r (minkJ n) v]) hk * minkJ n) s U Vh) :
    ∃ h : (tangentOriginTo r x v (svdKernelRows tol k s Vh)).length = n + 1,
      IsIso (rowsMatrix (tangentOriginTo r x v (svdKernelRows tol k s Vh)) h) :=
  findIsometry_isIso_of_svd hr _ _ (sheet_normalizeVec_timelike hr x hx) (tangentOriginTo_partial hr x v hx hv hxv)
    hk tol s U Vh hsvd

/-- (repaired) `hyperbolic.spacelike_to` of any spacelike vector -/
theorem spacelikeTo_isIso_svd (hr : IsSqrt r) (v : Fin (n + 1) → K) (hv : 0 < mink v v)
    {k : ℕ} (hk : (indefiniteOrthogonalize r (minkJ n) (spacelikeFrame r v)).length = k)
    (tol : K) (s : List K) (U : Matrix (Fin k) (Fin k) K) (Vh : Matrix (Fin (n + 1)) (Fin (n + 1)) K)
    (hsvd : SvdContract tol (rowsMatrix (indefiniteOrthogonalize r (minkJ n) (spacelikeFrame r v)) hk * minkJ n) s U Vh) :
    ∃ h : (spacelikeTo r v (svdKernelRows tol k s Vh)).length = n + 1,
      IsIso (rowsMatrix (spacelikeTo r v (svdKernelRows tol k s Vh)) h) := by
  obtain ⟨t, rest, hfr, ht⟩ := spacelikeFrame_timelike hr v hv
  have hp := spacelikeFrame_partial hr v hv
  unfold spacelikeTo
  revert hk hsvd hp
  rw [hfr]
  intro hk hsvd hp
  exact findIsometry_isIso_of_svd hr t rest ht hp hk tol s U Vh hsvd

/-- `TangentVector.isometry_to(other)` = `other.origin_to() @ self.origin_to().inv()`
(tangent-vector transport): an isometry as soon as the two `origin_to` results are -/
theorem isometryTo_isIso {A B : Matrix (Fin (n + 1)) (Fin (n + 1)) K} (hA : IsIso A) (hB : IsIso B) :
    IsIso (compose B (tinv A)) := compose_isIso hB (isIso_inv hA)

/-- `force_oriented=True` (`make_orientation_preserving`): still an isometry, now with `det > 0` -/
theorem makeOriented_isIso {M : Matrix (Fin (n + 1)) (Fin (n + 1)) K} (h : IsIso M) :
    IsIso (makeOriented M) ∧ 0 < (makeOriented M).det := by
  have hdet : M.det ≠ 0 := fun h0 => by have := isIso_det_sq h; rw [h0] at this; simp at this
  exact makeOriented_spec' (minkJ n) M (minkDiag n) h hdet

/-- `CoxeterGroup.hyperbolic_rep`: if `ρ(g)` preserves the cosine form `B` (C08) and
`diagonalize_form(B)` returned `(W, Winv)` with `Wᵀ B W = J`, `W Winv = 1` (C18), the stored
matrix `(Winv ρ(g) W)ᵀ` is an isometry -/
theorem hyperbolicRep_isIso (B W Winv rho : Matrix (Fin (n + 1)) (Fin (n + 1)) K)
    (hB : rhoᵀ * B * rho = B) (hW : Wᵀ * B * W = minkJ n) (hinv : W * Winv = 1) :
    IsIso (hyperbolicRepMat W Winv rho) := hyperbolicRepMat_isIso B W Winv rho hB hW hinv

end frames

/-! ## what preserving the form gives -/

/-- `IsIso M` says exactly that `x ↦ xM` preserves the Minkowski form -/
theorem isIso_iff_preserves (M : Matrix (Fin (n + 1)) (Fin (n + 1)) K) :
    IsIso M ↔ ∀ x y, mink (applyRow M x) (applyRow M y) = mink x y := isIso_iff_preserves' M

/-- interior / ideal / exterior points stay interior / ideal / exterior -/
theorem type_preserved [LinearOrder K] [IsStrictOrderedRing K]
    {M : Matrix (Fin (n + 1)) (Fin (n + 1)) K} (h : IsIso M) (x : Fin (n + 1) → K) :
    (mink (applyRow M x) (applyRow M x) < 0 ↔ mink x x < 0) ∧
    (mink (applyRow M x) (applyRow M x) = 0 ↔ mink x x = 0) ∧
    (0 < mink (applyRow M x) (applyRow M x) ↔ 0 < mink x x) := by
  rw [(isIso_iff_preserves M).1 h]; simp

/-- the argument of `arccosh` in `Point.distance` is unchanged, for *all* pairs of vectors and
any supplied root function (no hypothesis on `r` is needed) -/
theorem coshDist_invariant [LinearOrder K] [IsStrictOrderedRing K] (r : K → K)
    {M : Matrix (Fin (n + 1)) (Fin (n + 1)) K} (h : IsIso M) (x y : Fin (n + 1) → K) :
    coshDistClamped r (applyRow M x) (applyRow M y) = coshDistClamped r x y := by
  have hp := (isIso_iff_preserves M).1 h
  unfold coshDistClamped
  rw [coshDist_eq_scaled, coshDist_eq_scaled, hp, hp, hp]

/-- hyperbolic distance is invariant (ℝ, `Real.sqrt`, `Real.arcosh`) -/
theorem dist_invariant {M : Matrix (Fin (n + 1)) (Fin (n + 1)) ℝ} (h : IsIso M)
    (x y : Fin (n + 1) → ℝ) : C01.hdist (applyRow M x) (applyRow M y) = C01.hdist x y := by
  unfold C01.hdist; rw [coshDist_invariant Real.sqrt h]

/-! ## non-vacuity: concrete instances of the hypotheses -/

/-- a rational rotation `(c,s) = (3/5, 4/5)` -/
example : ((3 : ℚ) / 5) ^ 2 + (4 / 5) ^ 2 = 1 := by norm_num

/-- an `SL(2,ℚ)` element and one of determinant `−1` -/
example : (!![2, 3; 1, 2] : Matrix (Fin 2) (Fin 2) ℚ).det = 1 ∨ (!![2, 3; 1, 2] : Matrix (Fin 2) (Fin 2) ℚ).det = -1 := by
  left; rw [Matrix.det_fin_two]; norm_num
example : (!![2, 3; 1, 1] : Matrix (Fin 2) (Fin 2) ℚ).det = 1 ∨ (!![2, 3; 1, 1] : Matrix (Fin 2) (Fin 2) ℚ).det = -1 := by
  right; rw [Matrix.det_fin_two]; norm_num

/-- a non-trivial isometry exists: the loxodromic with `u = 2` is not the identity -/
example : IsIso (loxodromic (2 : ℚ) : Matrix (Fin 3) (Fin 3) ℚ) ∧
    (loxodromic (2 : ℚ) : Matrix (Fin 3) (Fin 3) ℚ) ≠ 1 := by
  refine ⟨loxodromic_isIso (by norm_num), fun h => ?_⟩
  have := congrFun (congrFun h 0) 1
  revert this
  simp [loxodromic, loxodromicMat_eq, block2, split2_zero, split2_one]
  norm_num

/-- hyperplane data in `H²` satisfying the hypotheses of `reflectAcross_spec`:
normal `e₁`, ideal points `(1,0,1)`, `(1,0,−1)` -/
example : IsUnit (!![0, 1, 0; 1, 0, 1; 1, 0, -1] : Matrix (Fin 3) (Fin 3) ℚ).det ∧
    mink (![0, 1, 0] : Fin 3 → ℚ) ![0, 1, 0] ≠ 0 ∧ mink (![1, 0, 1] : Fin 3 → ℚ) ![0, 1, 0] = 0 := by
  refine ⟨?_, ?_, ?_⟩
  · rw [Matrix.det_fin_three]; simp
  · simp [mink, dot, Fin.sum_univ_succ, Fin.tail]
  · simp [mink, dot, Fin.sum_univ_succ, Fin.tail]

/-- the hypotheses of `findIsometry_isIso` hold for the frame `x = (5/3, 4/3, 0)` with kernel
basis `(4/5, 1, 0), (0, 0, 1)` -/
example : mink (![5/3, 4/3, 0] : Fin 3 → ℚ) ![5/3, 4/3, 0] < 0 ∧
    mink (![5/3, 4/3, 0] : Fin 3 → ℚ) ![4/5, 1, 0] = 0 ∧ mink (![5/3, 4/3, 0] : Fin 3 → ℚ) ![0, 0, 1] = 0 := by
  refine ⟨?_, ?_, ?_⟩ <;> simp [mink, dot, Fin.sum_univ_succ, Fin.tail] <;> norm_num

end GT.C02
