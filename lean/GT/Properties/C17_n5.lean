/-
C17, irreducible representation of dimension 5: homomorphism law, identity, determinant.
The heavy polynomial identities live in the generated row modules `GT.Lemmas.Irrep.N5R*`
(one module per matrix row so that `lake` checks them in parallel).
-/
import GT.Lemmas.Irrep.N5Det
open Matrix
namespace GT.C17
open GT.Lie
variable {R : Type*} [CommRing R]

/-- `sl2_irrep(A @ B, 5) = sl2_irrep(A, 5) @ sl2_irrep(B, 5)` for all 2×2 matrices over any commutative ring -/
theorem sl2Irrep_mul_5 (A B : Matrix (Fin 2) (Fin 2) R) :
    sl2Irrep 5 (A * B) = sl2Irrep 5 A * sl2Irrep 5 B := GT.Lie.sl2Irrep_mul_5 A B

theorem sl2Irrep_one_5 : sl2Irrep 5 (1 : Matrix (Fin 2) (Fin 2) R) = 1 := GT.Lie.sl2Irrep_one_5

/-- `det sl2_irrep(A, 5) = (det A)^10`; in particular determinant one on `SL(2)` -/
theorem sl2Irrep_det_5 (A : Matrix (Fin 2) (Fin 2) R) : (sl2Irrep 5 A).det = A.det ^ 10 :=
  GT.Lie.sl2Irrep_det_5 A

theorem sl2Irrep_det_one_5 (A : Matrix (Fin 2) (Fin 2) R) (h : A.det = 1) : (sl2Irrep 5 A).det = 1 := by
  rw [sl2Irrep_det_5, h, one_pow]

example : (sl2Irrep 5 (!![2, 3; 1, 2] : Matrix (Fin 2) (Fin 2) ℤ)).det = 1 :=
  sl2Irrep_det_one_5 _ (by simp [Matrix.det_fin_two])

end GT.C17
