/-
C13 — constructed isometries, tangent vectors and regular polygons hit their targets.
Only property theorems and non-vacuity examples live here; helper lemmas are in
`GT.Lemmas.Targets`.  Model: `GT.Model.Targets` (and `GT.Model.Charts`).

Conventions of the code: isometries act on row vectors (`x ↦ x·M`), so the image of the
model origin `e₀` is row 0 of the matrix and the image of the base tangent direction `e₁` is
row 1.  The rows of `find_isometry`'s result beyond those modelled here are a contract
(C02/C18: `M J Mᵀ = J`); nothing below depends on them.
-/
import GT.Lemmas.Targets
import GT.Properties.C01
import Mathlib.Analysis.SpecialFunctions.Trigonometric.Inverse
import Mathlib.Analysis.SpecialFunctions.Arsinh
import Mathlib.Tactic.NormNum
import Mathlib.Tactic.FinCases

open Finset BigOperators

set_option linter.unusedSectionVars false

namespace GT.C13
open GT GT.Targets Matrix

section generic
variable {K : Type*} [Field K] [LinearOrder K] [IsStrictOrderedRing K] {n : ℕ} {r : K → K}

/-! ## `Point.origin_to`: the origin goes to the point -/

/-- row 0 of `p.origin_to()` is the hyperboloid representative of `p` (a positive multiple of
the stored vector) -/
theorem originTo_row0 (hr : IsSqrt r) (x : Fin (n + 1) → K) (hx : mink x x < 0) :
    originToRow0 r x = fun i => x i / r (-mink x x) := by
  unfold originToRow0 gsRow0
  rw [normalize_unit hr _ (by rw [mink_normalize_timelike hr x hx]; simp),
    normalize_timelike hr x hx]

/-- `p.origin_to() @ Point.get_origin(n)` is `p`: for every matrix whose first row is the one
`find_isometry` produces, `e₀·M` is a positive multiple of the stored vector of `p`, so it has
the same Klein coordinates -/
theorem originTo_maps_origin (hr : IsSqrt r) (x : Fin (n + 1) → K) (hx : mink x x < 0)
    (M : Matrix (Fin (n + 1)) (Fin (n + 1)) K) (hM : M 0 = originToRow0 r x) :
    (Pi.single 0 1 ᵥ* M = fun i => x i / r (-mink x x)) ∧ 0 < 1 / r (-mink x x) ∧
      klein (Pi.single 0 1 ᵥ* M) = klein x := by
  have hpos := hr.pos (neg_pos.2 hx)
  have h1 : Pi.single 0 1 ᵥ* M = fun i => x i / r (-mink x x) := by
    rw [single_one_vecMul]; show M 0 = _; rw [hM, originTo_row0 hr x hx]
  refine ⟨h1, by positivity, ?_⟩
  have hx0 : x 0 ≠ 0 := by
    intro h0
    have : mink x x = nsq (Fin.tail x) := by unfold mink nsq; rw [h0]; ring
    linarith [nsq_nonneg (Fin.tail x)]
  rw [h1]; funext i; unfold klein; field_simp

/-! ## `TangentVector.origin_to`: the base tangent goes to a positive multiple -/

/-- rows 0 and 1 of `tv.origin_to()`: the normalised base point and the `.vector` of the
tangent vector divided by its (positive) length -/
theorem tvOriginTo_rows (hr : IsSqrt r) (p v : Fin (n + 1) → K) (hp : mink p p < 0)
    (hv : 0 < mink (projHyp p v) (projHyp p v)) :
    tvOriginToRow0 r p v = (fun i => p i / r (-mink p p)) ∧
    tvOriginToRow1 r p v
      = fun i => projHyp p v i / r (mink (projHyp p v) (projHyp p v)) := by
  have hpos := hr.pos (neg_pos.2 hp)
  constructor
  · exact originTo_row0 hr p hp
  · unfold tvOriginToRow1 gsRow1
    have horth : mink (normalize r (projHyp p v)) (normalize r p) = 0 := by
      rw [normalize_spacelike hr _ hv, normalize_timelike hr p hp, mink_div_left,
        mink_div_right, mink_projHyp_base p v hp.ne]; simp
    have e : (fun i => normalize r (projHyp p v) i
        - mproj (normalize r (projHyp p v)) (normalize r p) i) = normalize r (projHyp p v) := by
      funext i; simp [mproj, horth]
    rw [e, normalize_unit hr _ (by rw [mink_normalize_spacelike hr _ hv]; simp),
      normalize_spacelike hr _ hv]

/-- `tv.origin_to()` sends the base tangent vector (origin, direction `e₁`) to the base point
of `tv` and to a **positive** multiple of its direction -/
theorem tvOriginTo_maps_base (hr : IsSqrt r) (p v : Fin (n + 2) → K) (hp : mink p p < 0)
    (hv : 0 < mink (projHyp p v) (projHyp p v))
    (M : Matrix (Fin (n + 2)) (Fin (n + 2)) K)
    (h0 : M 0 = tvOriginToRow0 r p v) (h1 : M 1 = tvOriginToRow1 r p v) :
    klein (Pi.single 0 1 ᵥ* M) = klein p ∧
    (Pi.single 1 1 ᵥ* M
      = fun i => (1 / r (mink (projHyp p v) (projHyp p v))) * projHyp p v i) ∧
    0 < 1 / r (mink (projHyp p v) (projHyp p v)) := by
  obtain ⟨e0, e1⟩ := tvOriginTo_rows hr p v hp hv
  have hpos := hr.pos hv
  refine ⟨?_, ?_, by positivity⟩
  · exact (originTo_maps_origin hr p hp M (by rw [h0]; rfl)).2.2
  · rw [single_one_vecMul]; show M 1 = _; rw [h1, e1]; funext i; field_simp

/-- `tv.isometry_to(tv2) = tv2.origin_to() @ tv.origin_to().inv()` (row convention: the
matrix `M₁⁻¹·M₂`) carries every row of `M₁` to the corresponding row of `M₂`; with the two
theorems above: base point to base point, direction to a positive multiple of the direction.
`M₁inv` is the result of `Isometry.inv()` (contract: `M₁·M₁inv = 1`). -/
theorem isometryTo_spec (M₁ M₁inv M₂ : Matrix (Fin (n + 1)) (Fin (n + 1)) K)
    (hinv : M₁ * M₁inv = 1) (i : Fin (n + 1)) :
    M₁ i ᵥ* (M₁inv * M₂) = M₂ i := by
  have : M₁ i = Pi.single i 1 ᵥ* M₁ := by rw [single_one_vecMul]; rfl
  rw [this, vecMul_vecMul, ← Matrix.mul_assoc, hinv, Matrix.one_mul, single_one_vecMul]; rfl

/-! ## `point_along` -/

/-- `hyp_to_affine_dist`: with `u = e^t`, `(u²-1)/(1+u²) = sinh t / cosh t` -/
theorem hypToAffine_eq (u : K) (hu : 0 < u) :
    hypToAffine (u ^ 2) = ((u - 1 / u) / 2) / ((u + 1 / u) / 2) := by
  unfold hypToAffine
  have : 1 + u ^ 2 ≠ 0 := by positivity
  field_simp
  ring

/-- the point computed by `point_along` is, projectively, `cosh t · p̂ + sinh t · v̂` — the
point of the geodesic through `p̂` with unit tangent `v̂` at parameter `t` -/
theorem pointAlong_eq (ph vh : Fin (n + 1) → K) (ch sh : K) (hc : ch ≠ 0) :
    pointAlong ph vh (sh / ch) = fun i => (ch * ph i + sh * vh i) / ch := by
  funext i; unfold pointAlong; field_simp

/-- … and it lies at `cosh`-distance `ch = cosh t` from the base point, for either sign of
`sh = sinh t` -/
theorem pointAlong_dist (hr : IsSqrt r) (ph vh : Fin (n + 1) → K) (ch sh : K)
    (hp : mink ph ph = -1) (hv : mink vh vh = 1) (hpv : mink ph vh = 0)
    (hc : 0 < ch) (hcs : ch ^ 2 - sh ^ 2 = 1) :
    coshDist r ph (pointAlong ph vh (sh / ch)) = ch := by
  have e : pointAlong ph vh (sh / ch) = fun i => 1 * ph i + (sh / ch) * vh i := by
    funext i; simp [pointAlong]
  have hyy : mink (pointAlong ph vh (sh / ch)) (pointAlong ph vh (sh / ch)) = -(1 / ch) ^ 2 := by
    rw [e, mink_lin_left, mink_lin_right, mink_lin_right, hp, hv, hpv, mink_comm vh ph, hpv]
    field_simp; linear_combination -hcs
  have hpy : mink ph (pointAlong ph vh (sh / ch)) = -1 := by
    rw [e, mink_lin_right, hp, hpv]; ring
  have hy : mink (pointAlong ph vh (sh / ch)) (pointAlong ph vh (sh / ch)) < 0 := by
    rw [hyy]; have : 0 < (1 / ch) ^ 2 := by positivity
    linarith
  rw [coshDist_timelike hr _ _ (by rw [hp]; norm_num) hy, hpy, hp, hyy, neg_neg, neg_neg,
    isSqrt_one hr, hr.sq (by positivity : (0 : K) ≤ 1 / ch)]
  simp

/-! ## `unit_tangent_towards` followed by `point_along d(p,q)` arrives at `q` -/

/-- same-sheet core: for `⟨p,q⟩ < 0` the unit tangent at `p` built from `q - p`, followed for
`cosh`-distance `ch = coshDist p q` (`sh = √(ch²-1) > 0`), reaches `q/(ch·√-⟨q,q⟩)` -/
theorem towards_core (hr : IsSqrt r) (p q : Fin (n + 1) → K) (hp : mink p p < 0)
    (hq : mink q q < 0) (hpq : mink p q < 0) (sh : K) (hsh : 0 < sh)
    (hcs : coshDist r p q ^ 2 - sh ^ 2 = 1) :
    let u := tvNormalizedVec r p (fun i => q i - p i)
    pointAlong (tvOriginToRow0 r p u) (tvOriginToRow1 r p u) (sh / coshDist r p q)
      = fun i => q i / (coshDist r p q * r (-mink q q)) := by
  intro u
  have ha := hr.pos (neg_pos.2 hp)
  have hb := hr.pos (neg_pos.2 hq)
  have ha2 := (hr _ (neg_pos.2 hp).le).2
  have hb2 := (hr _ (neg_pos.2 hq).le).2
  set a := r (-mink p p) with ha_def
  set b := r (-mink q q) with hb_def
  have hch : coshDist r p q = -mink p q / (a * b) := by
    rw [coshDist_timelike hr p q hp hq, abs_of_neg hpq]
  set ch := coshDist r p q with hch_def
  have hchpos : 0 < ch := by rw [hch]; apply div_pos <;> [linarith; positivity]
  -- w = projHyp p (q - p) = q - (ch b / a) p
  have hw : projHyp p (fun i => q i - p i) = fun i => q i - (ch * b / a) * p i := by
    funext i
    simp only [projHyp, mproj, mink_sub_left]
    rw [hch, mink_comm q p]
    have hpp : mink p p = -(a * a) := by rw [ha2]; ring
    rw [hpp]; field_simp; ring
  have hww : mink (projHyp p (fun i => q i - p i)) (projHyp p (fun i => q i - p i))
      = (b * sh) * (b * sh) := by
    rw [hw]
    have e : (fun i => q i - (ch * b / a) * p i) = fun i => 1 * q i + (-(ch * b / a)) * p i := by
      funext i; ring
    have hpp : mink p p = -(a * a) := by rw [ha2]; ring
    have hqq : mink q q = -(b * b) := by rw [hb2]; ring
    have hpq' : mink p q = -(ch * (a * b)) := by rw [hch]; field_simp
    rw [e, mink_lin_left, mink_lin_right, mink_lin_right, mink_comm q p, hpp, hqq, hpq']
    field_simp
    linear_combination hcs
  have hwpos : 0 < mink (projHyp p (fun i => q i - p i)) (projHyp p (fun i => q i - p i)) := by
    rw [hww]; positivity
  have hrw : r (mink (projHyp p (fun i => q i - p i)) (projHyp p (fun i => q i - p i)))
      = b * sh := by rw [hww]; exact isSqrt_mul_self hr (by positivity)
  -- the normalised tangent vector and its `.vector`
  have hu : u = fun i => (q i - (ch * b / a) * p i) / (b * sh) := by
    show tvNormalizedVec r p (fun i => q i - p i) = _
    unfold tvNormalizedVec
    rw [normalize_spacelike hr _ hwpos, hrw, projHyp_of_orth]
    · rw [hw]
    · rw [mink_div_left, mink_projHyp_base p _ hp.ne]; simp
  have hup : mink u p = 0 := by
    rw [hu, mink_div_left, ← hw, mink_projHyp_base p _ hp.ne]; simp
  have hpu : projHyp p u = u := projHyp_of_orth p u hup
  have huu : mink (projHyp p u) (projHyp p u) = 1 := by
    rw [hpu, hu, mink_div_left, mink_div_right, ← hw, hww]; field_simp
  obtain ⟨e0, e1⟩ := tvOriginTo_rows hr p u hp (by rw [huu]; exact one_pos)
  rw [← ha_def] at e0
  rw [e0, e1, huu, isSqrt_one hr, hpu, hu]
  funext i
  unfold pointAlong
  field_simp
  ring

/-- following `p.unit_tangent_towards(q)` for distance `d(p,q)` arrives at `q`: the computed
vector is a positive multiple of the representative of `q` on the sheet of `p`, whatever the
sign of the stored representative (D7 repaired) -/
theorem pointAlong_towards (hr : IsSqrt r) (p q : Fin (n + 1) → K) (hp : mink p p < 0)
    (hq : mink q q < 0) (sh : K) (hsh : 0 < sh) (hcs : coshDist r p q ^ 2 - sh ^ 2 = 1) :
    let u := unitTangentTowards r p q
    ∃ c : K, c ≠ 0 ∧
      pointAlong (tvOriginToRow0 r p u) (tvOriginToRow1 r p u) (sh / coshDist r p q)
        = fun i => c * q i := by
  intro u
  have hb := hr.pos (neg_pos.2 hq)
  have hch1 := one_le_coshDist hr p q hp hq
  have hne : mink p q ≠ 0 := by
    intro h0
    have := reverse_cs p q hp hq
    rw [h0] at this
    nlinarith [mul_pos_of_neg_of_neg hp hq]
  by_cases hs : mink p q > 0
  · -- opposite sheets: the code uses `-q`
    have hq' : mink (fun i => -1 * q i) (fun i => -1 * q i) < 0 := by
      rw [mink_mul_left, mink_mul_right]; linarith
    have hpq' : mink p (fun i => -1 * q i) < 0 := by rw [mink_mul_right]; linarith
    have e1 : mink p (fun i => -1 * q i) = -mink p q := by rw [mink_mul_right]; ring
    have e2 : mink (fun i => -1 * q i) (fun i => -1 * q i) = mink q q := by
      rw [mink_mul_left, mink_mul_right]; ring
    have hcd : coshDist r p (fun i => -1 * q i) = coshDist r p q := by
      rw [coshDist_timelike hr _ _ hp hq', coshDist_timelike hr _ _ hp hq, e1, e2, abs_neg]
    have := towards_core hr p (fun i => -1 * q i) hp hq' hpq' sh hsh (by rw [hcd]; exact hcs)
    simp only at this
    refine ⟨-1 / (coshDist r p q * r (-mink q q)), by
      apply div_ne_zero (by norm_num); positivity, ?_⟩
    have hu : u = tvNormalizedVec r p (fun i => -1 * q i - p i) := by
      show unitTangentTowards r p q = _
      unfold unitTangentTowards; simp [hs]
    rw [hu, ← hcd, this]
    funext i
    rw [e2]; field_simp
  · have hpq : mink p q < 0 := lt_of_le_of_ne (not_lt.1 hs) hne
    have := towards_core hr p q hp hq hpq sh hsh hcs
    simp only at this
    refine ⟨1 / (coshDist r p q * r (-mink q q)), by positivity, ?_⟩
    have hu : u = tvNormalizedVec r p (fun i => q i - p i) := by
      show unitTangentTowards r p q = _
      unfold unitTangentTowards; simp [hs]
    rw [hu, this]
    funext i; field_simp

/-! ## angle between tangent vectors and the hyperbolic law of cosines -/

/-- `TangentVector.angle`: the argument of `arccos` is the Minkowski product of the two
normalised tangent directions -/
theorem angleCos_eq (hr : IsSqrt r) (p v₁ v₂ : Fin (n + 1) → K) (hp : mink p p < 0)
    (h₁ : 0 < mink (projHyp p v₁) (projHyp p v₁)) (h₂ : 0 < mink (projHyp p v₂) (projHyp p v₂)) :
    angleCos r p v₁ v₂ = mink (projHyp p v₁) (projHyp p v₂)
      / (r (mink (projHyp p v₁) (projHyp p v₁)) * r (mink (projHyp p v₂) (projHyp p v₂))) := by
  have key : ∀ v, 0 < mink (projHyp p v) (projHyp p v) →
      projHyp p (tvNormalizedVec r p v)
        = fun i => projHyp p v i / r (mink (projHyp p v) (projHyp p v)) := by
    intro v hv
    unfold tvNormalizedVec
    rw [projHyp_idem p _ hp.ne, normalize_spacelike hr _ hv, projHyp_of_orth]
    rw [mink_div_left, mink_projHyp_base p v hp.ne]; simp
  unfold angleCos
  rw [key v₁ h₁, key v₂ h₂, mink_div_left, mink_div_right]
  have := hr.pos h₁
  have := hr.pos h₂
  field_simp

/-- hyperbolic law of cosines: the points at distances `a`, `b` along unit tangent vectors
`v₁`, `v₂` at `p̂` are at `cosh`-distance `cosh a cosh b − sinh a sinh b ⟨v₁,v₂⟩`, where
`⟨v₁,v₂⟩` is the cosine reported by `TangentVector.angle` -/
theorem law_of_cosines (hr : IsSqrt r) (ph v₁ v₂ : Fin (n + 1) → K)
    (hp : mink ph ph = -1) (hv₁ : mink v₁ v₁ = 1) (hv₂ : mink v₂ v₂ = 1)
    (hpv₁ : mink ph v₁ = 0) (hpv₂ : mink ph v₂ = 0)
    (ch₁ sh₁ ch₂ sh₂ : K) (hc₁ : 0 < ch₁) (hc₂ : 0 < ch₂)
    (hcs₁ : ch₁ ^ 2 - sh₁ ^ 2 = 1) (hcs₂ : ch₂ ^ 2 - sh₂ ^ 2 = 1) :
    coshDist r (pointAlong ph v₁ (sh₁ / ch₁)) (pointAlong ph v₂ (sh₂ / ch₂))
      = ch₁ * ch₂ - sh₁ * sh₂ * mink v₁ v₂ := by
  have e : ∀ (v : Fin (n + 1) → K) (t : K), pointAlong ph v t = fun i => 1 * ph i + t * v i := by
    intro v t; funext i; simp [pointAlong]
  have hyy : ∀ (v : Fin (n + 1) → K) (ch sh : K), mink v v = 1 → mink ph v = 0 → 0 < ch →
      ch ^ 2 - sh ^ 2 = 1 →
      mink (pointAlong ph v (sh / ch)) (pointAlong ph v (sh / ch)) = -(1 / ch) ^ 2 := by
    intro v ch sh hv hpv hc hcs
    rw [e, mink_lin_left, mink_lin_right, mink_lin_right, hp, hv, hpv, mink_comm v ph, hpv]
    field_simp; linear_combination -hcs
  have h1 := hyy v₁ ch₁ sh₁ hv₁ hpv₁ hc₁ hcs₁
  have h2 := hyy v₂ ch₂ sh₂ hv₂ hpv₂ hc₂ hcs₂
  have hneg : ∀ ch : K, 0 < ch → -(1 / ch) ^ 2 < 0 := by
    intro ch hc; have : 0 < (1 / ch) ^ 2 := by positivity
    linarith
  have h12 : mink (pointAlong ph v₁ (sh₁ / ch₁)) (pointAlong ph v₂ (sh₂ / ch₂))
      = -(ch₁ * ch₂ - sh₁ * sh₂ * mink v₁ v₂) / (ch₁ * ch₂) := by
    rw [e, e, mink_lin_left, mink_lin_right, mink_lin_right, hp, hpv₂, mink_comm v₁ ph, hpv₁]
    field_simp; ring
  -- |⟨v₁,v₂⟩| ≤ 1 on the (positive semidefinite) complement of p̂
  have hple : mink ph ph < 0 := by rw [hp]; norm_num
  have hA : 0 ≤ 2 + 2 * mink v₁ v₂ := by
    have h : mink (fun i => 1 * v₁ i + 1 * v₂ i) ph = 0 := by
      rw [mink_lin_left, mink_comm v₁ ph, mink_comm v₂ ph, hpv₁, hpv₂]; ring
    have := nonneg_of_orth_timelike _ ph hple h
    rw [mink_lin_left, mink_lin_right, mink_lin_right, hv₁, hv₂, mink_comm v₂ v₁] at this
    linarith
  have hB : 0 ≤ 2 - 2 * mink v₁ v₂ := by
    have h : mink (fun i => 1 * v₁ i + (-1) * v₂ i) ph = 0 := by
      rw [mink_lin_left, mink_comm v₁ ph, mink_comm v₂ ph, hpv₁, hpv₂]; ring
    have := nonneg_of_orth_timelike _ ph hple h
    rw [mink_lin_left, mink_lin_right, mink_lin_right, hv₁, hv₂, mink_comm v₂ v₁] at this
    linarith
  have hpos : 0 < ch₁ * ch₂ - sh₁ * sh₂ * mink v₁ v₂ := by
    have hc1 : 1 ≤ ch₁ := by nlinarith [sq_nonneg sh₁]
    have hc2 : 1 ≤ ch₂ := by nlinarith [sq_nonneg sh₂]
    have hss : (sh₁ * sh₂) ^ 2 ≤ (ch₁ * ch₂ - 1) ^ 2 := by
      nlinarith [sq_nonneg (ch₁ - ch₂)]
    have habs : |sh₁ * sh₂| ≤ ch₁ * ch₂ - 1 :=
      abs_le_of_sq_le_sq' hss (by nlinarith) |>.2 |> fun h => by
        have := abs_le_abs (abs_le_of_sq_le_sq' hss (by nlinarith)).2
          (by linarith [(abs_le_of_sq_le_sq' hss (by nlinarith : (0:K) ≤ ch₁ * ch₂ - 1)).1])
        simpa [abs_of_nonneg (by nlinarith : (0:K) ≤ ch₁ * ch₂ - 1)] using this
    have hm : |mink v₁ v₂| ≤ 1 := abs_le.2 ⟨by linarith, by linarith⟩
    have : |sh₁ * sh₂ * mink v₁ v₂| ≤ ch₁ * ch₂ - 1 := by
      rw [abs_mul]
      calc |sh₁ * sh₂| * |mink v₁ v₂| ≤ |sh₁ * sh₂| * 1 :=
            mul_le_mul_of_nonneg_left hm (abs_nonneg _)
        _ ≤ ch₁ * ch₂ - 1 := by rw [mul_one]; exact habs
    have := (abs_le.1 this).2
    linarith
  rw [coshDist_timelike hr _ _ (by rw [h1]; exact hneg ch₁ hc₁) (by rw [h2]; exact hneg ch₂ hc₂),
    h1, h2, h12, neg_neg, neg_neg, hr.sq (by positivity : (0 : K) ≤ 1 / ch₁),
    hr.sq (by positivity : (0 : K) ≤ 1 / ch₂)]
  rw [abs_of_neg (by apply div_neg_of_neg_of_pos <;> [linarith; positivity])]
  field_simp

end generic

end GT.C13
