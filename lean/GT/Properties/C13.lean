/- property theorems for C13 (filled in below) -/
