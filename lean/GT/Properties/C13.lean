/-
C13 — constructed isometries, tangent vectors and regular polygons hit their targets.
Only property theorems and non-vacuity examples live here; helper lemmas are in
`GT.Lemmas.Targets`.  Model: `GT.Model.Targets` (and `GT.Model.Charts`).

Conventions of the code: isometries act on row vectors (`x ↦ x·M`), so the image of the
model origin `e₀` is row 0 of the matrix and the image of the base tangent direction `e₁` is
row 1.  The rows of `find_isometry`'s result beyond those modelled here are a contract
(C02/C18: `M J Mᵀ = J`); nothing below depends on them.
-/
import GT.Lemmas.Targets
import GT.Properties.C01
import Mathlib.Analysis.SpecialFunctions.Trigonometric.Inverse
import Mathlib.Analysis.SpecialFunctions.Arsinh
import Mathlib.Tactic.NormNum
import Mathlib.Tactic.FinCases

open Finset BigOperators

set_option linter.unusedSectionVars false

namespace GT.C13
open GT GT.Targets Matrix

section generic
variable {K : Type*} [Field K] [LinearOrder K] [IsStrictOrderedRing K] {n : ℕ} {r : K → K}

/-! ## `Point.origin_to`: the origin goes to the point -/

/-- row 0 of `p.origin_to()` is the hyperboloid representative of `p` on the upper sheet:
`σ·x/√-⟨x,x⟩` with `σ = -1` iff the stored representative has negative time coordinate
(repaired, C12: the isometry no longer depends on the sign of the representative) -/
theorem originTo_row0 (hr : IsSqrt r) (x : Fin (n + 1) → K) (hx : mink x x < 0) :
    originToRow0 r x = fun i => sheetSign x * (x i / r (-mink x x)) := by
  have hpos := hr.pos (neg_pos.2 hx)
  unfold originToRow0 gsRow0
  have hn := normalize_timelike hr x hx
  have hs : sheetSign (normalize r x) = sheetSign x := by rw [hn]; exact sheetSign_div x _ hpos
  have hu : upperSheet (normalize r x) = fun i => sheetSign x * (x i / r (-mink x x)) := by
    unfold upperSheet; rw [hs, hn]
  rw [normalize_unit hr _ (by
    unfold upperSheet
    rw [mink_upperSheet _ _ _ (sheetSign_mul_self _), mink_normalize_timelike hr x hx]; simp), hu]

/-- `p.origin_to() @ Point.get_origin(n)` is `p`: for every matrix whose first row is the one
`find_isometry` produces, `e₀·M` is a non-zero multiple `σ/√-⟨x,x⟩` of the stored vector of `p`
(the representative of `p` with non-negative time coordinate), so it has the same Klein
coordinates -/
theorem originTo_maps_origin (hr : IsSqrt r) (x : Fin (n + 1) → K) (hx : mink x x < 0)
    (M : Matrix (Fin (n + 1)) (Fin (n + 1)) K) (hM : M 0 = originToRow0 r x) :
    (Pi.single 0 1 ᵥ* M = fun i => sheetSign x * (x i / r (-mink x x))) ∧
      0 < 1 / r (-mink x x) ∧ 0 ≤ (Pi.single 0 1 ᵥ* M) 0 ∧
      klein (Pi.single 0 1 ᵥ* M) = klein x := by
  have hpos := hr.pos (neg_pos.2 hx)
  have h1 : Pi.single 0 1 ᵥ* M = fun i => sheetSign x * (x i / r (-mink x x)) := by
    rw [single_one_vecMul]; show M 0 = _; rw [hM, originTo_row0 hr x hx]
  have hσ := sheetSign_ne_zero x
  refine ⟨h1, by positivity, ?_, ?_⟩
  · rw [h1]
    show 0 ≤ sheetSign x * (x 0 / r (-mink x x))
    have h0 := upperSheet_zero_nonneg x
    unfold upperSheet at h0
    have : sheetSign x * (x 0 / r (-mink x x)) = (sheetSign x * x 0) / r (-mink x x) := by ring
    rw [this]; exact div_nonneg h0 hpos.le
  · have hx0 : x 0 ≠ 0 := by
      intro h0
      have : mink x x = nsq (Fin.tail x) := by unfold mink nsq; rw [h0]; ring
      linarith [nsq_nonneg (Fin.tail x)]
    rw [h1]; funext i; unfold klein; field_simp

/-! ## `TangentVector.origin_to`: the base tangent goes to the tangent vector

A tangent vector is the class of a pair `(x, v)` under the simultaneous sign change
`(x, v) ~ (-x, -v)`; "a positive multiple of it" means: the pair `(a·σx, b·σv)` with `a, b > 0`
and one common sign `σ`. -/

/-- rows 0 and 1 of `tv.origin_to()`: the normalised base point and the `.vector` of the
tangent vector divided by its (positive) length, both multiplied by the one sign
`σ = sheetSign p` that puts the base point on the upper sheet -/
theorem tvOriginTo_rows (hr : IsSqrt r) (p v : Fin (n + 1) → K) (hp : mink p p < 0)
    (hv : 0 < mink (projHyp p v) (projHyp p v)) :
    tvOriginToRow0 r p v = (fun i => sheetSign p * (p i / r (-mink p p))) ∧
    tvOriginToRow1 r p v
      = fun i => sheetSign p * (projHyp p v i / r (mink (projHyp p v) (projHyp p v))) := by
  have hpos := hr.pos (neg_pos.2 hp)
  have hn := normalize_timelike hr p hp
  have hs : sheetSign (normalize r p) = sheetSign p := by rw [hn]; exact sheetSign_div p _ hpos
  have hσ := sheetSign_mul_self p
  constructor
  · exact originTo_row0 hr p hp
  · unfold tvOriginToRow1 gsRow1
    rw [hs]
    have hu : upperSheet (normalize r p) = fun i => sheetSign p * normalize r p i := by
      unfold upperSheet; rw [hs]
    have horth : mink (fun i => sheetSign p * normalize r (projHyp p v) i)
        (upperSheet (normalize r p)) = 0 := by
      rw [hu, mink_upperSheet _ _ _ hσ, normalize_spacelike hr _ hv, hn, mink_div_left,
        mink_div_right, mink_projHyp_base p v hp.ne]; simp
    have e : (fun i => sheetSign p * normalize r (projHyp p v) i
        - mproj (fun i => sheetSign p * normalize r (projHyp p v) i)
            (upperSheet (normalize r p)) i)
        = fun i => sheetSign p * normalize r (projHyp p v) i := by
      funext i; simp [mproj, horth]
    rw [e, normalize_unit hr _ (by
      rw [mink_upperSheet _ _ _ hσ, mink_normalize_spacelike hr _ hv]; simp),
      normalize_spacelike hr _ hv]

/-- `tv.origin_to()` sends the base tangent vector (origin, direction `e₁`) to the tangent
vector `tv`: the image pair is `(σ·a·p, σ·b·w)` with `a, b > 0` and one common sign `σ`
(`σ² = 1`), `w` the `.vector` of `tv` — the same class as `(p, w)`, base point to base point and
direction to a positive multiple of the direction -/
theorem tvOriginTo_maps_base (hr : IsSqrt r) (p v : Fin (n + 2) → K) (hp : mink p p < 0)
    (hv : 0 < mink (projHyp p v) (projHyp p v))
    (M : Matrix (Fin (n + 2)) (Fin (n + 2)) K)
    (h0 : M 0 = tvOriginToRow0 r p v) (h1 : M 1 = tvOriginToRow1 r p v) :
    klein (Pi.single 0 1 ᵥ* M) = klein p ∧
    (Pi.single 0 1 ᵥ* M = fun i => sheetSign p * ((1 / r (-mink p p)) * p i)) ∧
    (Pi.single 1 1 ᵥ* M
      = fun i => sheetSign p * ((1 / r (mink (projHyp p v) (projHyp p v))) * projHyp p v i)) ∧
    0 < 1 / r (-mink p p) ∧ 0 < 1 / r (mink (projHyp p v) (projHyp p v)) ∧
    sheetSign p * sheetSign p = 1 := by
  obtain ⟨e0, e1⟩ := tvOriginTo_rows hr p v hp hv
  have hpos := hr.pos hv
  have hpos' := hr.pos (neg_pos.2 hp)
  refine ⟨?_, ?_, ?_, by positivity, by positivity, sheetSign_mul_self p⟩
  · exact (originTo_maps_origin hr p hp M (by rw [h0]; rfl)).2.2.2
  · rw [single_one_vecMul]; show M 0 = _; rw [h0, e0]; funext i; field_simp
  · rw [single_one_vecMul]; show M 1 = _; rw [h1, e1]; funext i; field_simp

/-- `tv.isometry_to(tv2) = tv2.origin_to() @ tv.origin_to().inv()` (row convention: the
matrix `M₁⁻¹·M₂`) carries every row of `M₁` to the corresponding row of `M₂`; with the two
theorems above: base point to base point, direction to a positive multiple of the direction.
`M₁inv` is the result of `Isometry.inv()` (contract: `M₁·M₁inv = 1`). -/
theorem isometryTo_spec (M₁ M₁inv M₂ : Matrix (Fin (n + 1)) (Fin (n + 1)) K)
    (hinv : M₁ * M₁inv = 1) (i : Fin (n + 1)) :
    M₁ i ᵥ* (M₁inv * M₂) = M₂ i := by
  have : M₁ i = Pi.single i 1 ᵥ* M₁ := by rw [single_one_vecMul]; rfl
  rw [this, vecMul_vecMul, ← Matrix.mul_assoc, hinv, Matrix.one_mul, single_one_vecMul]; rfl

/-! ## `point_along` -/

/-- `hyp_to_affine_dist`: with `u = e^t`, `(u²-1)/(1+u²) = sinh t / cosh t` -/
theorem hypToAffine_eq (u : K) (hu : 0 < u) :
    hypToAffine (u ^ 2) = ((u - 1 / u) / 2) / ((u + 1 / u) / 2) := by
  unfold hypToAffine
  have : 1 + u ^ 2 ≠ 0 := by positivity
  field_simp
  ring

/-- the point computed by `point_along` is, projectively, `cosh t · p̂ + sinh t · v̂` — the
point of the geodesic through `p̂` with unit tangent `v̂` at parameter `t` -/
theorem pointAlong_eq (ph vh : Fin (n + 1) → K) (ch sh : K) (hc : ch ≠ 0) :
    pointAlong ph vh (sh / ch) = fun i => (ch * ph i + sh * vh i) / ch := by
  funext i; unfold pointAlong; field_simp

/-- … and it lies at `cosh`-distance `ch = cosh t` from the base point, for either sign of
`sh = sinh t` -/
theorem pointAlong_dist (hr : IsSqrt r) (ph vh : Fin (n + 1) → K) (ch sh : K)
    (hp : mink ph ph = -1) (hv : mink vh vh = 1) (hpv : mink ph vh = 0)
    (hc : 0 < ch) (hcs : ch ^ 2 - sh ^ 2 = 1) :
    coshDist r ph (pointAlong ph vh (sh / ch)) = ch := by
  have e : pointAlong ph vh (sh / ch) = fun i => 1 * ph i + (sh / ch) * vh i := by
    funext i; simp [pointAlong]
  have hyy : mink (pointAlong ph vh (sh / ch)) (pointAlong ph vh (sh / ch)) = -(1 / ch) ^ 2 := by
    rw [e, mink_lin_left, mink_lin_right, mink_lin_right, hp, hv, hpv, mink_comm vh ph, hpv]
    field_simp; linear_combination -hcs
  have hpy : mink ph (pointAlong ph vh (sh / ch)) = -1 := by
    rw [e, mink_lin_right, hp, hpv]; ring
  have hy : mink (pointAlong ph vh (sh / ch)) (pointAlong ph vh (sh / ch)) < 0 := by
    rw [hyy]; have : 0 < (1 / ch) ^ 2 := by positivity
    linarith
  rw [coshDist_timelike hr _ _ (by rw [hp]; norm_num) hy, hpy, hp, hyy, neg_neg, neg_neg,
    isSqrt_one hr, hr.sq (by positivity : (0 : K) ≤ 1 / ch)]
  simp

/-! ## `unit_tangent_towards` followed by `point_along d(p,q)` arrives at `q` -/

/-- same-sheet core: for `⟨p,q⟩ < 0` the unit tangent at `p` built from `q - p`, followed for
`cosh`-distance `ch = coshDist p q` (`sh = √(ch²-1) > 0`), reaches `σ·q/(ch·√-⟨q,q⟩)`, `σ` the sheet sign of `p` -/
theorem towards_core (hr : IsSqrt r) (p q : Fin (n + 1) → K) (hp : mink p p < 0)
    (hq : mink q q < 0) (hpq : mink p q < 0) (sh : K) (hsh : 0 < sh)
    (hcs : coshDist r p q ^ 2 - sh ^ 2 = 1) :
    let u := tvNormalizedVec r p (fun i => q i - p i)
    pointAlong (tvOriginToRow0 r p u) (tvOriginToRow1 r p u) (sh / coshDist r p q)
      = fun i => sheetSign p * (q i / (coshDist r p q * r (-mink q q))) := by
  intro u
  have ha := hr.pos (neg_pos.2 hp)
  have hb := hr.pos (neg_pos.2 hq)
  have ha2 := (hr _ (neg_pos.2 hp).le).2
  have hb2 := (hr _ (neg_pos.2 hq).le).2
  set a := r (-mink p p) with ha_def
  set b := r (-mink q q) with hb_def
  have hch : coshDist r p q = -mink p q / (a * b) := by
    rw [coshDist_timelike hr p q hp hq, abs_of_neg hpq]
  set ch := coshDist r p q with hch_def
  have hchpos : 0 < ch := by rw [hch]; apply div_pos <;> [linarith; positivity]
  -- w = projHyp p (q - p) = q - (ch b / a) p
  have hw : projHyp p (fun i => q i - p i) = fun i => q i - (ch * b / a) * p i := by
    funext i
    simp only [projHyp, mproj, mink_sub_left]
    rw [hch, mink_comm q p]
    have hpp : mink p p = -(a * a) := by rw [ha2]; ring
    rw [hpp]; field_simp; ring
  have hww : mink (projHyp p (fun i => q i - p i)) (projHyp p (fun i => q i - p i))
      = (b * sh) * (b * sh) := by
    rw [hw]
    have e : (fun i => q i - (ch * b / a) * p i) = fun i => 1 * q i + (-(ch * b / a)) * p i := by
      funext i; ring
    have hpp : mink p p = -(a * a) := by rw [ha2]; ring
    have hqq : mink q q = -(b * b) := by rw [hb2]; ring
    have hpq' : mink p q = -(ch * (a * b)) := by rw [hch]; field_simp
    rw [e, mink_lin_left, mink_lin_right, mink_lin_right, mink_comm q p, hpp, hqq, hpq']
    field_simp
    linear_combination hcs
  have hwpos : 0 < mink (projHyp p (fun i => q i - p i)) (projHyp p (fun i => q i - p i)) := by
    rw [hww]; positivity
  have hrw : r (mink (projHyp p (fun i => q i - p i)) (projHyp p (fun i => q i - p i)))
      = b * sh := by rw [hww]; exact isSqrt_mul_self hr (by positivity)
  -- the normalised tangent vector and its `.vector`
  have hu : u = fun i => (q i - (ch * b / a) * p i) / (b * sh) := by
    show tvNormalizedVec r p (fun i => q i - p i) = _
    unfold tvNormalizedVec
    rw [normalize_spacelike hr _ hwpos, hrw, projHyp_of_orth]
    · rw [hw]
    · rw [mink_div_left, mink_projHyp_base p _ hp.ne]; simp
  have hup : mink u p = 0 := by
    rw [hu, mink_div_left, ← hw, mink_projHyp_base p _ hp.ne]; simp
  have hpu : projHyp p u = u := projHyp_of_orth p u hup
  have huu : mink (projHyp p u) (projHyp p u) = 1 := by
    rw [hpu, hu, mink_div_left, mink_div_right, ← hw, hww]; field_simp
  obtain ⟨e0, e1⟩ := tvOriginTo_rows hr p u hp (by rw [huu]; exact one_pos)
  rw [← ha_def] at e0
  rw [e0, e1, huu, isSqrt_one hr, hpu, hu]
  funext i
  unfold pointAlong
  field_simp
  ring

/-- following `p.unit_tangent_towards(q)` for distance `d(p,q)` arrives at `q`: the computed
vector is a positive multiple of the representative of `q` on the sheet of `p`, whatever the
sign of the stored representative (D7 repaired) -/
theorem pointAlong_towards (hr : IsSqrt r) (p q : Fin (n + 1) → K) (hp : mink p p < 0)
    (hq : mink q q < 0) (sh : K) (hsh : 0 < sh) (hcs : coshDist r p q ^ 2 - sh ^ 2 = 1) :
    let u := unitTangentTowards r p q
    ∃ c : K, c ≠ 0 ∧
      pointAlong (tvOriginToRow0 r p u) (tvOriginToRow1 r p u) (sh / coshDist r p q)
        = fun i => c * q i := by
  intro u
  have hb := hr.pos (neg_pos.2 hq)
  have hch1 := one_le_coshDist hr p q hp hq
  have hne : mink p q ≠ 0 := by
    intro h0
    have := reverse_cs p q hp hq
    rw [h0] at this
    nlinarith [mul_pos_of_neg_of_neg hp hq]
  by_cases hs : mink p q > 0
  · -- opposite sheets: the code uses `-q`
    have hq' : mink (fun i => -1 * q i) (fun i => -1 * q i) < 0 := by
      rw [mink_mul_left, mink_mul_right]; linarith
    have hpq' : mink p (fun i => -1 * q i) < 0 := by rw [mink_mul_right]; linarith
    have e1 : mink p (fun i => -1 * q i) = -mink p q := by rw [mink_mul_right]; ring
    have e2 : mink (fun i => -1 * q i) (fun i => -1 * q i) = mink q q := by
      rw [mink_mul_left, mink_mul_right]; ring
    have hcd : coshDist r p (fun i => -1 * q i) = coshDist r p q := by
      rw [coshDist_timelike hr _ _ hp hq', coshDist_timelike hr _ _ hp hq, e1, e2, abs_neg]
    have := towards_core hr p (fun i => -1 * q i) hp hq' hpq' sh hsh (by rw [hcd]; exact hcs)
    simp only at this
    refine ⟨sheetSign p * (-1 / (coshDist r p q * r (-mink q q))), by
      apply mul_ne_zero (sheetSign_ne_zero p)
      apply div_ne_zero (by norm_num); positivity, ?_⟩
    have hu : u = tvNormalizedVec r p (fun i => -1 * q i - p i) := by
      show unitTangentTowards r p q = _
      unfold unitTangentTowards; simp [hs]
    rw [hu, ← hcd, this]
    funext i
    rw [e2]; field_simp
  · have hpq : mink p q < 0 := lt_of_le_of_ne (not_lt.1 hs) hne
    have := towards_core hr p q hp hq hpq sh hsh hcs
    simp only at this
    refine ⟨sheetSign p * (1 / (coshDist r p q * r (-mink q q))), by
      apply mul_ne_zero (sheetSign_ne_zero p); positivity, ?_⟩
    have hu : u = tvNormalizedVec r p (fun i => q i - p i) := by
      show unitTangentTowards r p q = _
      unfold unitTangentTowards; simp [hs]
    rw [hu, this]
    funext i; field_simp

/-! ## angle between tangent vectors and the hyperbolic law of cosines -/

/-- `TangentVector.angle`: the argument of `arccos` is the Minkowski product of the two
normalised tangent directions -/
theorem angleCos_eq (hr : IsSqrt r) (p v₁ v₂ : Fin (n + 1) → K) (hp : mink p p < 0)
    (h₁ : 0 < mink (projHyp p v₁) (projHyp p v₁)) (h₂ : 0 < mink (projHyp p v₂) (projHyp p v₂)) :
    angleCos r p v₁ v₂ = mink (projHyp p v₁) (projHyp p v₂)
      / (r (mink (projHyp p v₁) (projHyp p v₁)) * r (mink (projHyp p v₂) (projHyp p v₂))) := by
  have key : ∀ v, 0 < mink (projHyp p v) (projHyp p v) →
      projHyp p (tvNormalizedVec r p v)
        = fun i => projHyp p v i / r (mink (projHyp p v) (projHyp p v)) := by
    intro v hv
    unfold tvNormalizedVec
    rw [projHyp_idem p _ hp.ne, normalize_spacelike hr _ hv, projHyp_of_orth]
    rw [mink_div_left, mink_projHyp_base p v hp.ne]; simp
  unfold angleCos
  rw [key v₁ h₁, key v₂ h₂, mink_div_left, mink_div_right]
  have := hr.pos h₁
  have := hr.pos h₂
  field_simp

/-- **one convention for tangent vectors**: `(x, v)` and `(-x, -v)` are the same tangent vector, and
`TangentVector.angle` respects it — replacing the second tangent vector by its other
representative `(-p, -v₂)` does not change the reported cosine; for the same stored basepoint the
pair version is the single-basepoint `angleCos` -/
theorem angleCosPair_class (p v₁ v₂ : Fin (n + 1) → K) (hp : mink p p < 0) :
    angleCosPair r p v₁ (fun i => -p i) (fun i => -v₂ i) = angleCosPair r p v₁ p v₂ ∧
    angleCosPair r p v₁ p v₂ = angleCos r p v₁ v₂ := by
  have hneg : ∀ x y : Fin (n + 1) → K, mink x (fun i => -y i) = -mink x y := by
    intro x y
    have : (fun i => -y i) = fun i => (-1 : K) * y i := by funext i; ring
    rw [this, mink_mul_right]; ring
  have hneg' : ∀ x y : Fin (n + 1) → K, mink (fun i => -x i) y = -mink x y := by
    intro x y; rw [mink_comm, hneg, mink_comm]
  have hproj : ∀ (b w : Fin (n + 1) → K), projHyp b (fun i => -w i) = fun i => -projHyp b w i := by
    intro b w; funext i; simp only [projHyp, mproj, hneg']; ring
  have hbase : ∀ w : Fin (n + 1) → K, projHyp (fun i => -p i) w = projHyp p w := by
    intro w; funext i; simp only [projHyp, mproj, hneg, hneg']; field_simp
  have hnorm : ∀ w : Fin (n + 1) → K, normalize r (fun i => -w i) = fun i => -normalize r w i := by
    intro w
    unfold normalize
    rw [hneg, hneg', neg_neg]
    split_ifs
    · rfl
    · funext i; ring
  have htv : tvNormalizedVec r (fun i => -p i) (fun i => -v₂ i) = fun i => -tvNormalizedVec r p v₂ i := by
    unfold tvNormalizedVec
    rw [hbase, hproj, hnorm, hbase, hproj]
  constructor
  · unfold angleCosPair
    have h1 : mink p (fun i => -p i) > 0 := by rw [hneg]; linarith
    have h2 : ¬ mink p p > 0 := by linarith
    rw [if_pos h1, if_neg h2, htv, hproj, hneg]; ring
  · unfold angleCosPair angleCos
    have h2 : ¬ mink p p > 0 := by linarith
    rw [if_neg h2, one_mul]

/-- hyperbolic law of cosines: the points at distances `a`, `b` along unit tangent vectors
`v₁`, `v₂` at `p̂` are at `cosh`-distance `cosh a cosh b − sinh a sinh b ⟨v₁,v₂⟩`, where
`⟨v₁,v₂⟩` is the cosine reported by `TangentVector.angle` -/
theorem law_of_cosines (hr : IsSqrt r) (ph v₁ v₂ : Fin (n + 1) → K)
    (hp : mink ph ph = -1) (hv₁ : mink v₁ v₁ = 1) (hv₂ : mink v₂ v₂ = 1)
    (hpv₁ : mink ph v₁ = 0) (hpv₂ : mink ph v₂ = 0)
    (ch₁ sh₁ ch₂ sh₂ : K) (hc₁ : 0 < ch₁) (hc₂ : 0 < ch₂)
    (hcs₁ : ch₁ ^ 2 - sh₁ ^ 2 = 1) (hcs₂ : ch₂ ^ 2 - sh₂ ^ 2 = 1) :
    coshDist r (pointAlong ph v₁ (sh₁ / ch₁)) (pointAlong ph v₂ (sh₂ / ch₂))
      = ch₁ * ch₂ - sh₁ * sh₂ * mink v₁ v₂ := by
  have e : ∀ (v : Fin (n + 1) → K) (t : K), pointAlong ph v t = fun i => 1 * ph i + t * v i := by
    intro v t; funext i; simp [pointAlong]
  have hyy : ∀ (v : Fin (n + 1) → K) (ch sh : K), mink v v = 1 → mink ph v = 0 → 0 < ch →
      ch ^ 2 - sh ^ 2 = 1 →
      mink (pointAlong ph v (sh / ch)) (pointAlong ph v (sh / ch)) = -(1 / ch) ^ 2 := by
    intro v ch sh hv hpv hc hcs
    rw [e, mink_lin_left, mink_lin_right, mink_lin_right, hp, hv, hpv, mink_comm v ph, hpv]
    field_simp; linear_combination -hcs
  have h1 := hyy v₁ ch₁ sh₁ hv₁ hpv₁ hc₁ hcs₁
  have h2 := hyy v₂ ch₂ sh₂ hv₂ hpv₂ hc₂ hcs₂
  have hneg : ∀ ch : K, 0 < ch → -(1 / ch) ^ 2 < 0 := by
    intro ch hc; have : 0 < (1 / ch) ^ 2 := by positivity
    linarith
  have h12 : mink (pointAlong ph v₁ (sh₁ / ch₁)) (pointAlong ph v₂ (sh₂ / ch₂))
      = -(ch₁ * ch₂ - sh₁ * sh₂ * mink v₁ v₂) / (ch₁ * ch₂) := by
    rw [e, e, mink_lin_left, mink_lin_right, mink_lin_right, hp, hpv₂, mink_comm v₁ ph, hpv₁]
    field_simp; ring
  -- |⟨v₁,v₂⟩| ≤ 1 on the (positive semidefinite) complement of p̂
  have hple : mink ph ph < 0 := by rw [hp]; norm_num
  have hA : 0 ≤ 2 + 2 * mink v₁ v₂ := by
    have h : mink (fun i => 1 * v₁ i + 1 * v₂ i) ph = 0 := by
      rw [mink_lin_left, mink_comm v₁ ph, mink_comm v₂ ph, hpv₁, hpv₂]; ring
    have := nonneg_of_orth_timelike _ ph hple h
    rw [mink_lin_left, mink_lin_right, mink_lin_right, hv₁, hv₂, mink_comm v₂ v₁] at this
    linarith
  have hB : 0 ≤ 2 - 2 * mink v₁ v₂ := by
    have h : mink (fun i => 1 * v₁ i + (-1) * v₂ i) ph = 0 := by
      rw [mink_lin_left, mink_comm v₁ ph, mink_comm v₂ ph, hpv₁, hpv₂]; ring
    have := nonneg_of_orth_timelike _ ph hple h
    rw [mink_lin_left, mink_lin_right, mink_lin_right, hv₁, hv₂, mink_comm v₂ v₁] at this
    linarith
  have hpos : 0 < ch₁ * ch₂ - sh₁ * sh₂ * mink v₁ v₂ := by
    have hc1 : 1 ≤ ch₁ := by nlinarith [sq_nonneg sh₁]
    have hc2 : 1 ≤ ch₂ := by nlinarith [sq_nonneg sh₂]
    have hss : (sh₁ * sh₂) ^ 2 ≤ (ch₁ * ch₂ - 1) ^ 2 := by
      nlinarith [sq_nonneg (ch₁ - ch₂)]
    have habs : |sh₁ * sh₂| ≤ ch₁ * ch₂ - 1 :=
      abs_le_of_sq_le_sq' hss (by nlinarith) |>.2 |> fun h => by
        have := abs_le_abs (abs_le_of_sq_le_sq' hss (by nlinarith)).2
          (by linarith [(abs_le_of_sq_le_sq' hss (by nlinarith : (0:K) ≤ ch₁ * ch₂ - 1)).1])
        simpa [abs_of_nonneg (by nlinarith : (0:K) ≤ ch₁ * ch₂ - 1)] using this
    have hm : |mink v₁ v₂| ≤ 1 := abs_le.2 ⟨by linarith, by linarith⟩
    have : |sh₁ * sh₂ * mink v₁ v₂| ≤ ch₁ * ch₂ - 1 := by
      rw [abs_mul]
      calc |sh₁ * sh₂| * |mink v₁ v₂| ≤ |sh₁ * sh₂| * 1 :=
            mul_le_mul_of_nonneg_left hm (abs_nonneg _)
        _ ≤ ch₁ * ch₂ - 1 := by rw [mul_one]; exact habs
    have := (abs_le.1 this).2
    linarith
  rw [coshDist_timelike hr _ _ (by rw [h1]; exact hneg ch₁ hc₁) (by rw [h2]; exact hneg ch₂ hc₂),
    h1, h2, h12, neg_neg, neg_neg, hr.sq (by positivity : (0 : K) ≤ 1 / ch₁),
    hr.sq (by positivity : (0 : K) ≤ 1 / ch₂)]
  rw [abs_of_neg (by apply div_neg_of_neg_of_pos <;> [linarith; positivity])]
  field_simp

/-- the clamp added to `TangentVector.angle` is a no-op in exact arithmetic: the product of
the two normalised tangent directions lies in `[-1, 1]` (Cauchy–Schwarz on `p^⊥`) -/
theorem angle_clamp_noop (hr : IsSqrt r) (p v₁ v₂ : Fin (n + 1) → K) (hp : mink p p < 0)
    (h₁ : 0 < mink (projHyp p v₁) (projHyp p v₁)) (h₂ : 0 < mink (projHyp p v₂) (projHyp p v₂)) :
    angleCosClamped r p v₁ v₂ = angleCos r p v₁ v₂ := by
  have hcs := cs_on_complement (projHyp p v₁) (projHyp p v₂) p hp
    (mink_projHyp_base p v₁ hp.ne) (mink_projHyp_base p v₂ hp.ne)
  have e := angleCos_eq hr p v₁ v₂ hp h₁ h₂
  have r1 := hr.pos h₁
  have r2 := hr.pos h₂
  have s1 := (hr _ h₁.le).2
  have s2 := (hr _ h₂.le).2
  have hsq : angleCos r p v₁ v₂ ^ 2 ≤ 1 := by
    rw [e, div_pow, div_le_one (by positivity)]
    calc mink (projHyp p v₁) (projHyp p v₂) ^ 2
        ≤ mink (projHyp p v₁) (projHyp p v₁) * mink (projHyp p v₂) (projHyp p v₂) := hcs
      _ = (r (mink (projHyp p v₁) (projHyp p v₁)) * r (mink (projHyp p v₂) (projHyp p v₂))) ^ 2 := by
          rw [mul_pow, pow_two, pow_two, s1, s2]
  have hlo : -1 ≤ angleCos r p v₁ v₂ := by
    by_contra h; rw [not_le] at h; nlinarith
  have hhi : angleCos r p v₁ v₂ ≤ 1 := by
    by_contra h; rw [not_le] at h; nlinarith
  unfold angleCosClamped
  rw [min_eq_right hhi, max_eq_right hlo]

/-! ## regular polygons -/

/-- `Polygon.regular_polygon`: every vertex is `(1, th·a, th·b, 0, …)` with `a² + b² = 1`
(Klein coordinates `th·(a, b, 0, …)`, `th = tanh r`), so all vertices are at the same distance
from the origin as the start vertex -/
theorem polygon_equal_radii (c s th : K) (hcs : c ^ 2 + s ^ 2 = 1) (i : ℕ) :
    mink (polyStart (n := n) 0) (polyVertex c s th i) = -1 ∧
    mink (polyVertex (n := n) c s th i) (polyVertex c s th i) = -1 + th ^ 2 ∧
    coshDist r (polyStart (n := n) 0) (polyVertex c s th i)
      = coshDist r (polyStart (n := n) 0) (polyVertex c s th 0) := by
  have hrad : ∀ i, mink (polyStart (n := n) 0) (polyVertex c s th i) = -1 := by
    intro i
    obtain ⟨a, b, _, hv⟩ := polyVertex_form (n := n) c s th hcs i
    rw [hv]; unfold polyStart
    have : (fun _ => (0 : K)) = (Fin.cons 0 (fun _ => 0) : Fin (n + 1) → K) := by
      funext i; refine Fin.cases ?_ (fun j => ?_) i <;> simp
    rw [this, mink_cons3, dot_zero_left]; ring
  have hself : ∀ i, mink (polyVertex (n := n) c s th i) (polyVertex c s th i) = -1 + th ^ 2 :=
    fun i => (gram_polyVertex c s th hcs i).1
  refine ⟨hrad i, hself i, ?_⟩
  unfold coshDist normalize
  rw [hself i, hself 0]
  by_cases h0 : r |-1 + th ^ 2| = 0
  · simp only [h0, if_true]
    split_ifs <;> simp [mink_div_left, hrad i, hrad 0]
  · simp only [h0, if_false]
    split_ifs <;> simp [mink_div_left, mink_div_right, hrad i, hrad 0]

/-- consecutive vertices are at the same distance: the sides are equal -/
theorem polygon_equal_sides (c s th : K) (hcs : c ^ 2 + s ^ 2 = 1) (i : ℕ) :
    mink (polyVertex (n := n) c s th i) (polyVertex c s th (i + 1)) = -1 + th ^ 2 * c ∧
    coshDist r (polyVertex (n := n) c s th i) (polyVertex c s th (i + 1))
      = coshDist r (polyVertex (n := n) c s th 0) (polyVertex c s th 1) := by
  have hside : ∀ i, mink (polyVertex (n := n) c s th i) (polyVertex c s th (i + 1))
      = -1 + th ^ 2 * c := fun i => (gram_polyVertex c s th hcs i).2.1
  have hself : ∀ i, mink (polyVertex (n := n) c s th i) (polyVertex c s th i) = -1 + th ^ 2 :=
    fun i => (gram_polyVertex c s th hcs i).1
  refine ⟨hside i, ?_⟩
  unfold coshDist normalize
  rw [hself i, hself (i + 1), hself 0, hself 1]
  by_cases h0 : r |-1 + th ^ 2| = 0
  · simp only [h0, if_true]; rw [hside i, hside 0]
  · simp only [h0, if_false]
    rw [mink_div_left, mink_div_right, mink_div_left, mink_div_right, hside i]
    have := hside 0; simp only [Nat.zero_add] at this; rw [this]

/-- the interior angle at every vertex: with `S = sinh² r` (so `th² = S/(1+S)`) and
`g = sin²(π/n)` (so `c = cos(2π/n) = 1 - 2g`) the cosine that `TangentVector.angle` computes
between the directions to the two neighbours is `(gS - 1 + 2g)/(1 + gS)`, independent of the
vertex -/
theorem polygon_vertex_angle (hr : IsSqrt r) (c s th g S : K) (hcs : c ^ 2 + s ^ 2 = 1)
    (hc : c = 1 - 2 * g) (hS : 0 < S) (hth : th ^ 2 = S / (1 + S)) (hg0 : 0 < g) (hg1 : g < 1)
    (i : ℕ) :
    let x := polyVertex (n := n) c s th (i + 1)
    angleCos r x (fun j => polyVertex c s th i j - x j) (fun j => polyVertex c s th (i + 2) j - x j)
      = polyAngleCos g S := by
  intro x
  obtain ⟨g00, g01, g02⟩ := gram_polyVertex (n := n) c s th hcs i
  obtain ⟨g11, g12, _⟩ := gram_polyVertex (n := n) c s th hcs (i + 1)
  obtain ⟨g22, _, _⟩ := gram_polyVertex (n := n) c s th hcs (i + 2)
  have i2 : i + 1 + 1 = i + 2 := by ring
  rw [i2] at g12
  have hS1 : (1 + S) ≠ 0 := by linarith
  have hxx : mink x x = -1 / (1 + S) := by
    show mink (polyVertex c s th (i + 1)) (polyVertex c s th (i + 1)) = _
    rw [g11, hth]; field_simp; ring
  have hx : mink x x < 0 := by rw [hxx]; apply div_neg_of_neg_of_pos <;> linarith
  -- Gram data of the two difference vectors
  set y : Fin (n + 3) → K := fun j => polyVertex c s th i j - x j with hy
  set z : Fin (n + 3) → K := fun j => polyVertex c s th (i + 2) j - x j with hz
  have hyx : mink y x = th ^ 2 * (c - 1) := by
    rw [hy, mink_sub_left]
    show mink (polyVertex c s th i) (polyVertex c s th (i + 1))
      - mink (polyVertex c s th (i + 1)) (polyVertex c s th (i + 1)) = _
    rw [g01, g11]; ring
  have hzx : mink z x = th ^ 2 * (c - 1) := by
    rw [hz, mink_sub_left]
    show mink (polyVertex c s th (i + 2)) (polyVertex c s th (i + 1))
      - mink (polyVertex c s th (i + 1)) (polyVertex c s th (i + 1)) = _
    rw [mink_comm, g12, g11]; ring
  have hyy : mink y y = 2 * th ^ 2 * (1 - c) := by
    rw [hy, mink_sub_left, mink_sub_right, mink_sub_right]
    show mink (polyVertex c s th i) (polyVertex c s th i)
      - mink (polyVertex c s th i) (polyVertex c s th (i + 1))
      - (mink (polyVertex c s th (i + 1)) (polyVertex c s th i)
        - mink (polyVertex c s th (i + 1)) (polyVertex c s th (i + 1))) = _
    rw [g00, g01, mink_comm (polyVertex c s th (i + 1)), g01, g11]; ring
  have hzz : mink z z = 2 * th ^ 2 * (1 - c) := by
    rw [hz, mink_sub_left, mink_sub_right, mink_sub_right]
    show mink (polyVertex c s th (i + 2)) (polyVertex c s th (i + 2))
      - mink (polyVertex c s th (i + 2)) (polyVertex c s th (i + 1))
      - (mink (polyVertex c s th (i + 1)) (polyVertex c s th (i + 2))
        - mink (polyVertex c s th (i + 1)) (polyVertex c s th (i + 1))) = _
    rw [g22, mink_comm (polyVertex c s th (i + 2)), g12, g11]; ring
  have hyz : mink y z = 2 * th ^ 2 * c * (c - 1) := by
    rw [hy, hz, mink_sub_left, mink_sub_right, mink_sub_right]
    show mink (polyVertex c s th i) (polyVertex c s th (i + 2))
      - mink (polyVertex c s th i) (polyVertex c s th (i + 1))
      - (mink (polyVertex c s th (i + 1)) (polyVertex c s th (i + 2))
        - mink (polyVertex c s th (i + 1)) (polyVertex c s th (i + 1))) = _
    rw [g02, g01, g12, g11]; ring
  -- norms of the projected vectors: N = 4 g S (1 + g S) / (1 + S)
  have hN : ∀ w : Fin (n + 3) → K, mink w x = th ^ 2 * (c - 1) → mink w w = 2 * th ^ 2 * (1 - c) →
      mink (projHyp x w) (projHyp x w) = 4 * g * S * (1 + g * S) / (1 + S) := by
    intro w h1 h2
    rw [mink_projHyp x w w hx.ne, h1, h2, hxx, hth, hc]; field_simp; ring
  have hNpos : 0 < 4 * g * S * (1 + g * S) / (1 + S) := by positivity
  have hNy := hN y hyx hyy
  have hNz := hN z hzx hzz
  rw [angleCos_eq hr x y z hx (by rw [hNy]; exact hNpos) (by rw [hNz]; exact hNpos), hNy, hNz,
    (hr _ hNpos.le).2, mink_projHyp x y z hx.ne, hyz, hyx, hzx, hxx, hth, hc]
  unfold polyAngleCos
  have : (1 + g * S) ≠ 0 := by positivity
  field_simp
  ring

/-- `regular_polygon_radius` and `polygon_interior_angle` are mutually inverse at the level of
their algebraic cores: with `A = cos²(a/2)`, `g = sin²(π/n)`, the radius formula's
`S = sinh² r = (A - g)/((1 - A) g)` turns the vertex-angle cosine into `2A - 1 = cos a` and
the angle formula's `sin²(a/2) = (1 - g)/(1 + gS)` into `1 - A`; conversely the angle
formula's `A = 1 - (1-g)/(1+gS)` gives back `S` -/
theorem polygon_radius_angle_core (A g S : K) (hA : A ≠ 1) (hg0 : g ≠ 0) (hg1 : g ≠ 1) :
    polyAngleCos g (polyRadiusSinhSq A g) = 2 * A - 1 ∧
    polyAngleSinSq g (polyRadiusSinhSq A g) = 1 - A ∧
    (1 + g * S ≠ 0 → polyAngleCos g S = 1 - 2 * polyAngleSinSq g S) ∧
    (1 + g * S ≠ 0 → polyRadiusSinhSq (1 - polyAngleSinSq g S) g = S) := by
  have h1 : (1 - A) ≠ 0 := sub_ne_zero.2 (Ne.symm hA)
  have h2 : (1 - g) ≠ 0 := sub_ne_zero.2 (Ne.symm hg1)
  have hden : 1 + g * polyRadiusSinhSq A g = (1 - g) / (1 - A) := by
    unfold polyRadiusSinhSq; field_simp; ring
  refine ⟨?_, ?_, ?_, ?_⟩
  · unfold polyAngleCos; rw [hden]; unfold polyRadiusSinhSq; field_simp; ring
  · unfold polyAngleSinSq; rw [hden]; field_simp
  · intro h
    unfold polyAngleCos polyAngleSinSq
    field_simp; ring
  · intro h
    have e1 : 1 - polyAngleSinSq g S - g = g * S * (1 - g) / (1 + g * S) := by
      unfold polyAngleSinSq; field_simp; ring
    have e2 : (1 - (1 - polyAngleSinSq g S)) * g = (1 - g) * g / (1 + g * S) := by
      unfold polyAngleSinSq; field_simp; ring
    unfold polyRadiusSinhSq
    rw [e1, e2]
    field_simp

end generic

/-! ## instantiation at ℝ -/

section real
variable {n : ℕ}
open Real

/-- `hyp_to_affine_dist(t) = (e^{2t} - 1)/(1 + e^{2t}) = tanh t` -/
theorem hyp_to_affine_dist_eq_tanh (t : ℝ) : hypToAffine (Real.exp (2 * t)) = Real.tanh t := by
  have h := hypToAffine_eq (Real.exp t) (Real.exp_pos t)
  have e2 : Real.exp t ^ 2 = Real.exp (2 * t) := by rw [← Real.exp_nat_mul]; norm_num
  rw [e2] at h
  rw [h, Real.tanh_eq_sinh_div_cosh, Real.sinh_eq, Real.cosh_eq, Real.exp_neg]
  congr 1 <;> ring

/-- **the point at distance `t` along a unit tangent vector lies at hyperbolic distance `|t|`**
from the base point, for either sign of `t` -/
theorem pointAlong_hdist (ph vh : Fin (n + 1) → ℝ) (hp : mink ph ph = -1) (hv : mink vh vh = 1)
    (hpv : mink ph vh = 0) (t : ℝ) :
    C01.hdist ph (pointAlong ph vh (hypToAffine (Real.exp (2 * t)))) = |t| := by
  rw [hyp_to_affine_dist_eq_tanh, Real.tanh_eq_sinh_div_cosh]
  have hc := Real.cosh_pos t
  have hcs : Real.cosh t ^ 2 - Real.sinh t ^ 2 = 1 := by rw [Real.cosh_sq t]; ring
  have hd := pointAlong_dist C01.isSqrt_real ph vh (Real.cosh t) (Real.sinh t) hp hv hpv hc hcs
  unfold C01.hdist coshDistClamped
  rw [hd, max_eq_right (Real.one_le_cosh t), ← Real.cosh_abs, Real.arcosh_cosh (abs_nonneg t)]

/-- **following the unit tangent towards `q` for distance `d(p,q)` arrives at `q`** (over ℝ, with
the library's own distance and `hyp_to_affine_dist`): the computed vector is a non-zero
multiple of the stored representative of `q` -/
theorem towards_reaches (p q : Fin (n + 1) → ℝ) (hp : mink p p < 0) (hq : mink q q < 0)
    (hne : 1 < coshDist Real.sqrt p q) :
    let u := unitTangentTowards Real.sqrt p q
    ∃ c : ℝ, c ≠ 0 ∧
      pointAlong (tvOriginToRow0 Real.sqrt p u) (tvOriginToRow1 Real.sqrt p u)
        (hypToAffine (Real.exp (2 * C01.hdist p q))) = fun i => c * q i := by
  intro u
  have hch : Real.cosh (C01.hdist p q) = coshDist Real.sqrt p q := C01.cosh_hdist p q hp hq
  have hpos : 0 < C01.hdist p q := by
    unfold C01.hdist; rw [C01.clamp_noop p q hp hq]; exact Real.arcosh_pos hne
  have hsh : 0 < Real.sinh (C01.hdist p q) := Real.sinh_pos_iff.2 hpos
  have := pointAlong_towards C01.isSqrt_real p q hp hq (Real.sinh (C01.hdist p q)) hsh
    (by rw [← hch, Real.cosh_sq]; ring)
  rw [hyp_to_affine_dist_eq_tanh, Real.tanh_eq_sinh_div_cosh, hch]; exact this

/-- `regular_polygon_radius(n, a)` over ℝ -/
noncomputable def polyRadius (k : ℕ) (a : ℝ) : ℝ :=
  Real.arsinh (Real.sqrt ((Real.cos (a / 2) ^ 2 - Real.sin (π / k) ^ 2)
    / ((Real.sin (a / 2) * Real.sin (π / k)) ^ 2)))

/-- `polygon_interior_angle(n, r)` over ℝ -/
noncomputable def polyAngle (k : ℕ) (ρ : ℝ) : ℝ :=
  2 * Real.arcsin (Real.cos (π / k) / Real.sqrt (1 + (Real.sin (π / k) * Real.sinh ρ) ^ 2))

/-- **the radius and angle formulas are mutual inverses** (angle side): for `n ≥ 3` and an
admissible interior angle `a ∈ (0, (n-2)π/n)`, `polygon_interior_angle(n,
regular_polygon_radius(n, a)) = a` -/
theorem radius_angle_inverse (k : ℕ) (hk : 3 ≤ k) (a : ℝ) (ha0 : 0 < a)
    (ha1 : a < (k - 2) * π / k) : polyAngle k (polyRadius k a) = a := by
  have hk0 : (0 : ℝ) < k := by exact_mod_cast (by omega : 0 < k)
  have hk3 : (3 : ℝ) ≤ k := by exact_mod_cast hk
  have hγ0 : 0 < π / k := div_pos Real.pi_pos hk0
  have hγ1 : π / k ≤ π / 3 := by
    apply div_le_div_of_nonneg_left Real.pi_pos.le (by norm_num) hk3
  have hαγ : a / 2 + π / k < π / 2 := by
    have : (k - 2) * π / k = π - 2 * (π / k) := by field_simp
    rw [this] at ha1; linarith
  have hα0 : 0 < a / 2 := by linarith
  have hα1 : a / 2 < π / 2 := by linarith
  have hsα : 0 < Real.sin (a / 2) := Real.sin_pos_of_pos_of_lt_pi hα0 (by linarith [Real.pi_pos])
  have hsγ : 0 < Real.sin (π / k) := Real.sin_pos_of_pos_of_lt_pi hγ0 (by linarith [Real.pi_pos])
  have hcγ : 0 < Real.cos (π / k) :=
    Real.cos_pos_of_mem_Ioo ⟨by linarith [Real.pi_pos], by linarith [Real.pi_pos]⟩
  -- cos(a/2) > sin(π/k) = cos(π/2 - π/k)
  have hcs : Real.sin (π / k) < Real.cos (a / 2) := by
    rw [← Real.cos_pi_div_two_sub]
    apply Real.cos_lt_cos_of_nonneg_of_le_pi_div_two hα0.le (by linarith) (by linarith)
  have hterm : 0 ≤ (Real.cos (a / 2) ^ 2 - Real.sin (π / k) ^ 2)
      / ((Real.sin (a / 2) * Real.sin (π / k)) ^ 2) := by
    apply div_nonneg _ (by positivity)
    nlinarith
  unfold polyAngle polyRadius
  rw [Real.sinh_arsinh, mul_pow (Real.sin (π / k)), Real.sq_sqrt hterm]
  have hkey : 1 + Real.sin (π / k) ^ 2 * ((Real.cos (a / 2) ^ 2 - Real.sin (π / k) ^ 2)
      / ((Real.sin (a / 2) * Real.sin (π / k)) ^ 2))
      = (Real.cos (π / k) / Real.sin (a / 2)) ^ 2 := by
    have h1 := Real.sin_sq_add_cos_sq (a / 2)
    have h2 := Real.sin_sq_add_cos_sq (π / k)
    field_simp
    nlinarith
  rw [hkey, Real.sqrt_sq (by positivity)]
  have : Real.cos (π / k) / (Real.cos (π / k) / Real.sin (a / 2)) = Real.sin (a / 2) := by
    field_simp
  rw [this, Real.arcsin_sin (by linarith) hα1.le]; ring

/-- **the radius and angle formulas are mutual inverses** (radius side): for `n ≥ 3` and a radius
`ρ > 0`, `regular_polygon_radius(n, polygon_interior_angle(n, ρ)) = ρ` -/
theorem angle_radius_inverse (k : ℕ) (hk : 3 ≤ k) (ρ : ℝ) (hρ : 0 < ρ) :
    polyRadius k (polyAngle k ρ) = ρ := by
  have hk0 : (0 : ℝ) < k := by exact_mod_cast (by omega : 0 < k)
  have hk3 : (3 : ℝ) ≤ k := by exact_mod_cast hk
  have hγ0 : 0 < π / k := div_pos Real.pi_pos hk0
  have hγ1 : π / k ≤ π / 3 := div_le_div_of_nonneg_left Real.pi_pos.le (by norm_num) hk3
  have hsγ : 0 < Real.sin (π / k) := Real.sin_pos_of_pos_of_lt_pi hγ0 (by linarith [Real.pi_pos])
  have hcγ : 0 < Real.cos (π / k) :=
    Real.cos_pos_of_mem_Ioo ⟨by linarith [Real.pi_pos], by linarith [Real.pi_pos]⟩
  have hs : 0 < Real.sinh ρ := Real.sinh_pos_iff.2 hρ
  set g := Real.sin (π / k) ^ 2 with hg
  set S := Real.sinh ρ ^ 2 with hS
  have hg0 : 0 < g := by positivity
  have hS0 : 0 < S := by positivity
  have hden : 0 < 1 + g * S := by positivity
  have hcos2 : Real.cos (π / k) ^ 2 = 1 - g := by
    have := Real.sin_sq_add_cos_sq (π / k); rw [hg]; linarith
  have hg1 : g < 1 := by nlinarith [sq_pos_of_pos hcγ]
  set q := Real.cos (π / k) / Real.sqrt (1 + (Real.sin (π / k) * Real.sinh ρ) ^ 2) with hq
  have hinner : 1 + (Real.sin (π / k) * Real.sinh ρ) ^ 2 = 1 + g * S := by rw [hg, hS]; ring
  have hsq : 0 < Real.sqrt (1 + g * S) := Real.sqrt_pos.2 hden
  have hq0 : 0 < q := by rw [hq, hinner]; positivity
  have hq2 : q ^ 2 = (1 - g) / (1 + g * S) := by
    rw [hq, hinner, div_pow, Real.sq_sqrt hden.le, hcos2]
  have hq1 : q ≤ 1 := by
    have : q ^ 2 ≤ 1 := by
      rw [hq2, div_le_one hden]; nlinarith [mul_pos hg0 hS0]
    nlinarith
  unfold polyRadius polyAngle
  rw [← hq]
  have hhalf : 2 * Real.arcsin q / 2 = Real.arcsin q := by ring
  rw [hhalf, Real.sin_arcsin (by linarith) hq1, Real.cos_arcsin,
    Real.sq_sqrt (by nlinarith : (0 : ℝ) ≤ 1 - q ^ 2)]
  have hterm : (1 - q ^ 2 - Real.sin (π / k) ^ 2) / (q * Real.sin (π / k)) ^ 2 = S := by
    rw [mul_pow, ← hg, hq2]
    have h1g : (1 - g) ≠ 0 := by linarith
    field_simp
    ring
  rw [hterm, hS, Real.sqrt_sq hs.le, Real.arsinh_sinh]

end real

/-! ## non-vacuity -/

/-- a unit timelike base point with a unit tangent vector orthogonal to it, in `R^{2,1}` -/
example : mink (![5/3, 4/3, 0] : Fin 3 → ℚ) ![5/3, 4/3, 0] = -1 ∧
    mink (![4/3, 5/3, 0] : Fin 3 → ℚ) ![4/3, 5/3, 0] = 1 ∧
    mink (![5/3, 4/3, 0] : Fin 3 → ℚ) ![4/3, 5/3, 0] = 0 := by
  refine ⟨?_, ?_, ?_⟩ <;> simp [mink, dot, Fin.sum_univ_succ, Fin.tail] <;> norm_num

/-- rational `(cosh, sinh)` and `(cos, sin)` data -/
example : (5 / 4 : ℚ) ^ 2 - (3 / 4) ^ 2 = 1 ∧ (3 / 5 : ℚ) ^ 2 + (4 / 5) ^ 2 = 1 := by norm_num

/-- admissible polygon data: a square (`g = sin²(π/4) = 1/2`) with `S = sinh² r = 2` -/
example : (0 : ℚ) < 2 ∧ (1 / 2 : ℚ) < 1 ∧ ((2 / 3 : ℚ) = 2 / (1 + 2)) := by norm_num

end GT.C13
