/- property theorems for C05 (filled in below) -/
