/-
C05 — representations are word homomorphisms; derived representations commute with evaluation;
Fox calculus fundamental formula.

Only property theorems and non-vacuity examples live here.  Models: `GT.Model.Words`,
`GT.Model.Rep`; helper lemmas: `GT.Lemmas.Rep`, `GT.Lemmas.RepHom`, `GT.Lemmas.RepDerived`,
`GT.Lemmas.Fox`, `GT.Lemmas.Names`, `GT.Lemmas.Sym2`, `GT.Lemmas.Sym2Rep`.

Conventions.  `ρ.value w : Except String (Matrix (Fin n) (Fin n) R)` is the denotation (a Mathlib
matrix) of what the executable `ρ.wordValue w` (the model of `Representation._word_value`, an
array-backed `DMat`) returns; `.error "KeyError"` when a letter has no matrix.  `R` is an
arbitrary commutative ring, `n` an arbitrary dimension, words are arbitrary lists of generator
names.  `Rep.Coherent` / `Rep.WF` is the invariant of the `generators` dict (inverse letters
hold inverse matrices); `setGenerator_wf` shows every history of assignments establishes it,
under the contract `InvertOK` for `numpy.linalg.inv`.
-/
import GT.Lemmas.RepHom
import GT.Lemmas.RepDerived
import GT.Lemmas.Fox
import GT.Lemmas.Names
import GT.Lemmas.Sym2Rep
import GT.Lemmas.RepHomUnits
import GT.Lemmas.SlnAdjoint
import GT.Lemmas.RepSubNoInv
import Mathlib.Data.ZMod.Basic
import Mathlib.Tactic.FinCases

set_option linter.unusedSectionVars false

namespace GT.C05
open GT GT.RepW GT.RepW.Rep Matrix

variable {n m : ℕ} {R S : Type} [Inhabited R] [CommRing R] [Inhabited S] [CommRing S]

/-! ## word homomorphism -/

/-- bridge: the materialising fold over `DMat` that the driver executes denotes the Mathlib
product of the letters' matrices -/
theorem wordValue_bridge (ρ : Rep n R) (w : Word) :
    (ρ.wordValue w).map DMat.toMatrix = Rep.evalM ρ.genM w := Rep.value_eq_evalM ρ w

/-- the empty word maps to the identity -/
theorem wordValue_nil (ρ : Rep n R) : ρ.value [] = .ok 1 := Rep.value_nil ρ

/-- the image of a concatenation is the product of the images (and is defined exactly when
both images are) -/
theorem wordValue_append (ρ : Rep n R) (u v : Word) :
    ρ.value (u ++ v) = (do let a ← ρ.value u; let b ← ρ.value v; pure (a * b)) :=
  Rep.value_append ρ u v

/-- `rep.element(s, parse_simple=b)` parses with the explicit flag, `rep[s]` / `parse_simple=None`
with the representation's own setting -/
theorem element_parse_simple (ρ : Rep n R) (s : String) :
    (∀ b, ρ.wordValueS s (some b) = ρ.wordValue (parseWord b s)) ∧
    ρ.wordValueS s none = ρ.wordValue (parseWord ρ.parseSimple s) := ⟨fun _ => rfl, rfl⟩

/-- `rep.elements(words)`: one image per word, in the order of the words, and defined exactly
when every word has an image -/
theorem elements_pointwise (ρ : Rep n R) (ws : List Word) :
    (∀ ms, ρ.elements ws = .ok ms → List.Forall₂ (fun w M => ρ.value w = .ok (DMat.toMatrix M)) ws ms) ∧
    ((∀ w ∈ ws, ∃ M, ρ.wordValue w = .ok M) → ∃ ms, ρ.elements ws = .ok ms) := by
  constructor
  · unfold Rep.elements
    induction ws with
    | nil =>
      intro ms h
      simp only [List.mapM_nil, pure, Except.pure, Except.ok.injEq] at h
      subst h; exact List.Forall₂.nil
    | cons w ws ih =>
      intro ms h
      rw [List.mapM_cons] at h
      cases hw : ρ.wordValue w with
      | error e => rw [hw] at h; cases h
      | ok M =>
        cases hr : ws.mapM ρ.wordValue with
        | error e => rw [hw, hr] at h; cases h
        | ok rest =>
          rw [hw, hr] at h
          cases h
          exact List.Forall₂.cons (Rep.wordValue_value hw) (ih rest hr)
  · intro h
    obtain ⟨bs, hb, _⟩ := Fox.mapM_forall₂ ρ.wordValue (fun _ _ => True) ws
      (fun w hw => by obtain ⟨M, hM⟩ := h w hw; exact ⟨M, hM, trivial⟩)
    exact ⟨bs, hb⟩

/-- every history of assignments `rep[g] = A` (to lower- or upper-case names, re-assignments
included) keeps the dict invariant — given that `utils.invert` returns an inverse, that the
name is not its own inverse and that the inverse map is an involution on it (true of
`invert_gen` on every name `_set_generator` accepts) -/
theorem setGenerator_coherent {invert : DMat n n R → Option (DMat n n R)} (hinv : InvertOK invert)
    {ρ σ : Rep n R} (hρ : ρ.WF) {g : Gen} {A : DMat n n R}
    (hg2 : ρ.inv (ρ.inv g) = g) (hg1 : ρ.inv g ≠ g)
    (h : ρ.setGenerator invert g A true = .ok σ) : σ.WF :=
  Rep.setGenerator_wf hinv hρ hg2 hg1 h

/-- **all orders of assigning and re-assigning generators**: any sequence of assignments
`rep[g₁] = A₁; rep[g₂] = A₂; …` that the code accepts (names pass the guards of `_set_generator`,
lower- or upper-case, repeated or not) on a fresh `Representation()` produces a dict in which
every letter's inverse letter holds the inverse matrix — the only assumption is the contract
of `numpy.linalg.inv`. -/
theorem history_coherent {invert : DMat n n R → Option (DMat n n R)} (hinv : InvertOK invert)
    (hist : List (Gen × DMat n n R)) (ps : Bool) (rels : List Word) {ρ : Rep n R}
    (h : hist.foldlM (fun ρ h => ρ.setGenerator invert h.1 h.2 true)
      ({ gens := [], inv := invertGen, parseSimple := ps, relations := rels } : Rep n R) = .ok ρ) :
    ρ.WF ∧ ρ.inv = invertGen :=
  Rep.history_wf hinv hist _ ρ (Rep.wf_empty invertGen ps rels) rfl h

/-- on every name `_set_generator` accepts, `invert_gen` is an involution without fixed point -/
theorem invertGen_involutive_on_valid {g : Gen} (hv : validName g = true) :
    invertGen (invertGen g) = g ∧ invertGen g ≠ g := Rep.invertGen_of_valid hv

/-- an inverse letter maps to the inverse matrix -/
theorem wordValue_inv_letter {ρ : Rep n R} (hc : ρ.Coherent) {g : Gen} {A : Matrix (Fin n) (Fin n) R}
    (h : ρ.value [g] = .ok A) : ρ.value [ρ.inv g] = .ok A⁻¹ ∧ A * A⁻¹ = 1 ∧ A⁻¹ * A = 1 :=
  Rep.value_inv_letter hc h

/-- freely reducing a word (the literal stack machine of `simplify_word`) does not change its image -/
theorem wordValue_simplify {ρ : Rep n R} (hc : ρ.Coherent) {w : Word} {A : Matrix (Fin n) (Fin n) R}
    (h : ρ.value w = .ok A) : ρ.value (simplifyWord ρ.inv w) = .ok A :=
  Rep.value_simplify hc h

/-- the formal inverse of a word maps to the inverse matrix -/
theorem wordValue_formalInverse {ρ : Rep n R} (hc : ρ.Coherent) {w : Word} {A : Matrix (Fin n) (Fin n) R}
    (h : ρ.value w = .ok A) : ρ.value (formalInverse ρ.inv w) = .ok A⁻¹ :=
  Rep.value_formalInverse hc h

/-! ## derived representations -/

/-- functoriality of `_compose` (generator-by-generator application of `hom`): if `hom` denotes a
multiplicative unit-preserving matrix function `H`, then `ρ_hom(w) = H(ρ(w))` for every word -/
theorem compose_hom {h : DMat n n R → DMat n n R → M? (DMat m m S)} {ρ : Rep n R} {σ : Rep m S}
    (H : Matrix (Fin n) (Fin n) R → Matrix (Fin m) (Fin m) S)
    (hone : H 1 = 1) (hmul : ∀ A B, H (A * B) = H A * H B)
    (hh : ∀ A Ai B, h A Ai = .ok B → A.toMatrix * Ai.toMatrix = 1 → B.toMatrix = H A.toMatrix)
    (hc : ρ.Coherent) (hσ : ρ.compose h = .ok σ) {w : Word} {A : Matrix (Fin n) (Fin n) R}
    (hw : ρ.value w = .ok A) : σ.value w = .ok (H A) :=
  Rep.compose_value H hone hmul hh hc hσ hw

/-- a derived representation keeps the non-matrix data of its source: `invert_gen`,
`parse_simple` and the relations -/
theorem compose_keeps_metadata {h : DMat n n R → DMat n n R → M? (DMat m m S)} {ρ : Rep n R} {σ : Rep m S}
    (hσ : ρ.compose h = .ok σ) :
    σ.inv = ρ.inv ∧ σ.parseSimple = ρ.parseSimple ∧ σ.relations = ρ.relations := by
  obtain ⟨h1, h2, h3, _⟩ := Rep.compose_gen hσ
  exact ⟨h1, h2, h3⟩

/-- … and the composed representation satisfies the dict invariant again -/
theorem compose_wf {h : DMat n n R → DMat n n R → M? (DMat m m S)} {ρ : Rep n R} {σ : Rep m S}
    (H : Matrix (Fin n) (Fin n) R → Matrix (Fin m) (Fin m) S)
    (hone : H 1 = 1) (hmul : ∀ A B, H (A * B) = H A * H B)
    (hh : ∀ A Ai B, h A Ai = .ok B → A.toMatrix * Ai.toMatrix = 1 → B.toMatrix = H A.toMatrix)
    (hwf : ρ.WF) (hσ : ρ.compose h = .ok σ) : σ.WF :=
  Rep.compose_coherent H hone hmul hh hwf hσ

/-- `Representation(rep)` (copy): the same dict, hence the same image of every word -/
theorem copy_hom {ρ σ : Rep n R} (hnd : (ρ.gens.map Prod.fst).Nodup) (h : ρ.copy = .ok σ) (w : Word) :
    σ.value w = ρ.value w := by rw [Rep.copy_eq hnd h]

/-- `rep.conjugate(C, Ci)`: `w ↦ Ci · ρ(w) · C` -/
theorem conjugate_hom {ρ σ : Rep n R} {C Ci : DMat n n R} (hC : C.toMatrix * Ci.toMatrix = 1)
    (hc : ρ.Coherent) (hσ : ρ.conjugate C Ci = .ok σ) {w : Word} {A : Matrix (Fin n) (Fin n) R}
    (hw : ρ.value w = .ok A) : σ.value w = .ok (Ci.toMatrix * A * C.toMatrix) := by
  have hC' : Ci.toMatrix * C.toMatrix = 1 := Rep.mul_eq_one_swap hC
  refine Rep.compose_value (fun X => Ci.toMatrix * X * C.toMatrix) ?_ ?_ ?_ hc hσ hw
  · simp [hC']
  · intro X Y
    calc Ci.toMatrix * (X * Y) * C.toMatrix
        = Ci.toMatrix * X * (1 : Matrix _ _ R) * Y * C.toMatrix := by simp [Matrix.mul_assoc]
      _ = Ci.toMatrix * X * C.toMatrix * (Ci.toMatrix * Y * C.toMatrix) := by
        rw [← hC]; simp only [Matrix.mul_assoc]
  · intro X Xi B hB _
    simp only [Except.ok.injEq] at hB
    subst hB
    simp

/-- `rep.conjugate(C)` with the inverse computed by `utils.invert` -/
theorem conjugate_hom' {invert : DMat n n R → Option (DMat n n R)} (hinv : InvertOK invert)
    {ρ σ : Rep n R} {C : DMat n n R} (hc : ρ.Coherent) (hσ : ρ.conjugate' invert C = .ok σ)
    {w : Word} {A : Matrix (Fin n) (Fin n) R} (hw : ρ.value w = .ok A) :
    σ.value w = .ok (C.toMatrix⁻¹ * A * C.toMatrix) := by
  unfold Rep.conjugate' at hσ
  cases hi : invert C with
  | none => rw [hi] at hσ; cases hσ
  | some Ci =>
    rw [hi] at hσ
    have h1 := hinv C Ci hi
    rw [Matrix.inv_eq_right_inv h1]
    exact conjugate_hom h1 hc hσ hw

/-- `rep.dual()`: `w ↦ (ρ(w)⁻¹)ᵀ` -/
theorem dual_hom {invert : DMat n n R → Option (DMat n n R)} (hinv : InvertOK invert)
    {ρ σ : Rep n R} (hc : ρ.Coherent) (hσ : ρ.dual invert = .ok σ) {w : Word}
    {A : Matrix (Fin n) (Fin n) R} (hw : ρ.value w = .ok A) : σ.value w = .ok (A⁻¹)ᵀ := by
  refine Rep.compose_value (fun X => (X⁻¹)ᵀ) ?_ ?_ ?_ hc hσ hw
  · simp
  · intro X Y; simp [Matrix.mul_inv_rev, Matrix.transpose_mul]
  · intro X Xi B hB _
    cases hi : invert X with
    | none => simp [hi] at hB
    | some Xi' =>
      simp only [hi, Except.ok.injEq] at hB
      subst hB
      rw [DMat.toMatrix_transpose, Matrix.inv_eq_right_inv (hinv X Xi' hi)]

/-- `rep.astype(dtype)` for an exact conversion (a ring homomorphism `f`): `w ↦ f(ρ(w))` entrywise -/
theorem astype_hom (f : R →+* S) {ρ : Rep n R} {σ : Rep n S} (hc : ρ.Coherent)
    (hσ : ρ.astype f = .ok σ) {w : Word} {A : Matrix (Fin n) (Fin n) R} (hw : ρ.value w = .ok A) :
    σ.value w = .ok (A.map f) := by
  refine Rep.compose_value (fun X => X.map f) ?_ ?_ ?_ hc hσ hw
  · simp
  · intro X Y; exact Matrix.map_mul
  · intro X Xi B hB _
    simp only [Except.ok.injEq] at hB
    subst hB
    simp


/-- `rep.gln_adjoint()`: `w ↦ Ad(ρ(w)) = ρ(w) ⊗ (ρ(w)⁻¹)ᵀ` in the basis `E_ij` (row-major) -/
theorem gln_adjoint_hom {ρ : Rep n R} {σ : Rep (n * n) R} (hc : ρ.Coherent)
    (hσ : ρ.glnAdjoint = .ok σ) {w : Word} {A : Matrix (Fin n) (Fin n) R} (hw : ρ.value w = .ok A) :
    σ.value w = .ok (Rep.kron A (A⁻¹)ᵀ) := by
  refine Rep.compose_value (fun X => Rep.kron X (X⁻¹)ᵀ) ?_ ?_ ?_ hc hσ hw
  · simp [Rep.kron_one]
  · intro X Y
    rw [Matrix.mul_inv_rev, Matrix.transpose_mul, Rep.kron_mul]
  · intro X Xi B hB hX
    simp only [Except.ok.injEq] at hB
    subst hB
    rw [Rep.glnAdjointMat_toMatrix, Matrix.inv_eq_right_inv hX]

/-- `rep.sln_adjoint()`: `w ↦` the matrix of `M ↦ ρ(w)·M·ρ(w)⁻¹` on traceless matrices in the
basis `E_ij (i ≠ j), E_ii − E_nn` (`Rep.slnAd`, the literal `sln_linear_action`); it is
multiplicative because conjugation by an invertible matrix preserves the trace
(`Rep.slnAd_mul`, `Rep.slnAd_one`) -/
theorem sln_adjoint_hom {k : ℕ} {ρ : Rep (k + 1) R} {σ : Rep ((k + 1) * (k + 1) - 1) R}
    (hc : ρ.Coherent) (hσ : ρ.slnAdjoint = .ok σ) {w : Word}
    {A : Matrix (Fin (k + 1)) (Fin (k + 1)) R} (hw : ρ.value w = .ok A) :
    σ.value w = .ok (Rep.slnAd A A⁻¹) := by
  refine Rep.compose_value_units (fun X => Rep.slnAd X X⁻¹) ?_ ?_ ?_ hc hσ hw
  · simp [Rep.slnAd_one]
  · intro X Y _ _ hY _
    simp only [Matrix.mul_inv_rev]
    exact Rep.slnAd_mul hY
  · intro X Xi B hB hX
    simp only [Except.ok.injEq] at hB
    subst hB
    rw [Rep.slnAdjointMat_toMatrix, Matrix.inv_eq_right_inv hX]

/-- the double `np.concatenate` of `np.tensordot(A, B, axes=0)` is Mathlib's Kronecker product -/
theorem tensorMat_eq_kronecker {p : ℕ} (A : DMat n n R) (B : DMat p p R) :
    (Rep.tensorMat A B).toMatrix =
      Matrix.reindex finProdFinEquiv finProdFinEquiv (Matrix.kroneckerMap (· * ·) A.toMatrix B.toMatrix) :=
  Rep.tensorMat_toMatrix A B

/-- `rep.tensor_product(other)`: `w ↦ ρ(w) ⊗ σ(w)` for every word over the generators and their
inverses (`NamesOK`: distinct names, none the inverse of another — true of every dict of valid
generator names, see `names_ok_of_valid`) -/
theorem tensor_hom {p : ℕ} {invert : DMat (n * p) (n * p) R → Option (DMat (n * p) (n * p) R)}
    (hinv : InvertOK invert) {ρ : Rep n R} {σ : Rep p R} {τ : Rep (n * p) R}
    (hτ : ρ.tensorProduct invert σ = .ok τ) (hcρ : ρ.Coherent) (hcσ : σ.Coherent)
    (hn : Rep.NamesOK invertGen ρ.asymGens)
    (hpρ : ∀ g ∈ ρ.asymGens, parseWord ρ.parseSimple g = [g])
    (hpσ : ∀ g ∈ ρ.asymGens, parseWord σ.parseSimple g = [g])
    (hiρ : ∀ g ∈ ρ.asymGens, ρ.inv g = invertGen g) (hiσ : ∀ g ∈ ρ.asymGens, σ.inv g = invertGen g)
    (w : Word) (hw : ∀ x ∈ w, x ∈ ρ.asymGens ∨ ∃ g ∈ ρ.asymGens, x = invertGen g)
    {A : Matrix (Fin n) (Fin n) R} {B : Matrix (Fin p) (Fin p) R}
    (hA : ρ.value w = .ok A) (hB : σ.value w = .ok B) :
    τ.value w = .ok (Rep.kron A B) ∧ τ.WF :=
  Rep.tensor_value hinv hτ hcρ hcσ hn hpρ hpσ hiρ hiσ w hw hA hB

/-- `sym_index` is a bijection from unordered pairs of `0..n-1` onto `0..n(n+1)/2 - 1` (the
float formula `int((n-i)(n-i-1)/2 + (j-i))` is exact because the product is even) -/
theorem symIndex_bijective {n : ℕ} :
    (∀ i j, i < n → j < n → Rep.symIndex i j n < Rep.symDim n) ∧
    (∀ i j u v, i < n → j < n → u < n → v < n → Rep.symIndex i j n = Rep.symIndex u v n →
      (i = u ∧ j = v) ∨ (i = v ∧ j = u)) ∧
    (∀ s, s < Rep.symDim n → ∃ i j, i ≤ j ∧ j < n ∧ Rep.symIndex i j n = s) :=
  ⟨fun _ _ hi hj => Rep.symIndex_lt hi hj, fun _ _ _ _ hi hj hu hv h => Rep.symIndex_inj hi hj hu hv h,
   fun _ h => Rep.symIndex_surj h⟩

/-- `A ↦ P·(A ⊗ A)·I` (`symmetric_projection`, Kronecker square, `symmetric_inclusion`) is a
monoid homomorphism when `2·half = 1` -/
theorem symH_hom {half : R} (hh : 2 * half = 1) :
    Rep.symH half (1 : Matrix (Fin n) (Fin n) R) = 1 ∧
    ∀ X Y : Matrix (Fin n) (Fin n) R, Rep.symH half (X * Y) = Rep.symH half X * Rep.symH half Y :=
  ⟨Rep.symH_one hh, Rep.symH_mul hh⟩

/-- `rep.symmetric_square()` (repaired code): `w ↦ P·(ρ(w) ⊗ ρ(w))·I` -/
theorem symmetric_square_hom {half : R} (hh : 2 * half = 1)
    {invertT : DMat (n * n) (n * n) R → Option (DMat (n * n) (n * n) R)}
    {invertS : DMat (Rep.symDim n) (Rep.symDim n) R → Option (DMat (Rep.symDim n) (Rep.symDim n) R)}
    (hiT : InvertOK invertT) (hiS : InvertOK invertS)
    {ρ : Rep n R} {σ : Rep (Rep.symDim n) R} (hσ : ρ.symmetricSquare half invertT invertS = .ok σ)
    (hc : ρ.Coherent) (hn : Rep.NamesOK invertGen ρ.asymGens)
    (hp : ∀ g ∈ ρ.asymGens, parseWord ρ.parseSimple g = [g])
    (hi : ∀ g ∈ ρ.asymGens, ρ.inv g = invertGen g)
    (w : Word) (hw : ∀ x ∈ w, x ∈ ρ.asymGens ∨ ∃ g ∈ ρ.asymGens, x = invertGen g)
    {A : Matrix (Fin n) (Fin n) R} (hA : ρ.value w = .ok A) :
    σ.value w = .ok (Rep.symH half A) ∧ σ.WF :=
  Rep.sym2_value hh hiT hiS hσ hc hn hp hi w hw hA

/-- `rep.subgroup({g: word})` (default `compute_inverse=True`): a word in the new generators is
sent to the image of the word obtained by substitution (`g ↦ word(g)`,
`invert_gen(g) ↦ formal_inverse(word(g))`) -/
theorem subgroup_hom {invert : DMat n n R → Option (DMat n n R)} (hinv : InvertOK invert)
    {ρ σ : Rep n R} {pairs : List (Gen × Word)} {rels : List Word}
    (hσ : ρ.subgroup invert pairs true rels = .ok σ) (hc : ρ.Coherent)
    (hn : Rep.NamesOK invertGen (pairs.map Prod.fst))
    (u : Word) (hu : ∀ x ∈ u, x ∈ pairs.map Prod.fst ∨ ∃ g ∈ pairs.map Prod.fst, x = invertGen g)
    {A : Matrix (Fin n) (Fin n) R} (hA : ρ.value (Rep.substWord ρ.inv pairs u) = .ok A) :
    σ.value u = .ok A ∧ σ.WF :=
  Rep.subgroup_value hinv hσ hc hn u hu hA

/-- `rep.subgroup(..., compute_inverse=False)` (the inverse letter gets the image of the formal
inverse word — repaired code: the formal inverse of the *parsed* word): same substitution law -/
theorem subgroup_noinv_hom {invert : DMat n n R → Option (DMat n n R)} (hinv : InvertOK invert)
    {ρ σ : Rep n R} {pairs : List (Gen × Word)} {rels : List Word}
    (hσ : ρ.subgroup invert pairs false rels = .ok σ) (hc : ρ.Coherent)
    (hn : Rep.NamesOK invertGen (pairs.map Prod.fst))
    (hi : ∀ g ∈ pairs.map Prod.fst, ρ.inv g = invertGen g)
    (u : Word) (hu : ∀ x ∈ u, x ∈ pairs.map Prod.fst ∨ ∃ g ∈ pairs.map Prod.fst, x = invertGen g)
    {A : Matrix (Fin n) (Fin n) R} (hA : ρ.value (Rep.substWord ρ.inv pairs u) = .ok A) :
    σ.value u = .ok A ∧ σ.WF :=
  Rep.subgroup_noinv_value hinv hσ hc hn hi u hu hA

/-- the side conditions on names used above hold for every dict of names that `_set_generator`
accepts -/
theorem names_ok_of_valid (ρ : Rep n R) (hnd : (ρ.gens.map Prod.fst).Nodup)
    (hv : ∀ g ∈ ρ.gens.map Prod.fst, validName g = true) : Rep.NamesOK invertGen ρ.asymGens := by
  obtain ⟨h1, h2, h3⟩ := Fox.side_conditions_of_valid ρ hnd hv
  exact ⟨h1, h3, h2⟩

/-! ## Fox calculus -/

/-- all keys of a Fox derivative are distinct and freely reduced, so the dict comprehension in
`words.simplify` never merges two keys (it would overwrite, not add, coefficients) -/
theorem simplify_keys_reduced (inv : Gen → Gen) (g : Gen) (w : Word) {d : ZWord}
    (h : foxDeriv inv g w = some d) :
    (d.map Prod.fst).Nodup ∧ ∀ k ∈ d.map Prod.fst, simplifyWord inv k = k :=
  Fox.foxDeriv_keys_simplify inv g w h

/-- … hence `act_left` acts key by key -/
theorem actLeft_no_merge {inv : Gen → Gen} {x : Gen} (hx : inv (inv x) = x) (g : Gen) (w : Word)
    {d : ZWord} (h : foxDeriv inv g w = some d) :
    actLeft inv [x] d = d.map (fun kv => (simplifyWord inv (x :: kv.1), kv.2)) :=
  Fox.actLeft_foxDeriv_eq_map hx g w h

/-- **fundamental formula of Fox calculus** for the executable `differential`:
`ρ(w) − 1 = Σ_g D_g(w)·(ρ(g) − 1)`, equivalently `differential(w) @ coboundary_matrix = 1 − ρ(w)`,
for every non-empty word over the generators and their inverses -/
theorem fox_fundamental {ρ : Rep n R} (hinv : ρ.inv = invertGen) (hcoh : ρ.Coherent)
    (H1 : ρ.asymGens.Nodup)
    (H2 : ∀ g ∈ ρ.asymGens, ∀ h ∈ ρ.asymGens, invertGen g ≠ h)
    (H5 : ∀ g ∈ ρ.asymGens, invertGen (invertGen g) = g)
    (hgen : ∀ g ∈ ρ.asymGens, ∃ A, ρ.genM g = .ok A)
    {w : Word} (hw : w ≠ [])
    (hl : ∀ x ∈ w, x ∈ ρ.asymGens ∨ ∃ g ∈ ρ.asymGens, x = invertGen g) :
    ∃ blocks cb A, ρ.differential w = .ok blocks ∧ blocks.length = ρ.asymGens.length ∧
      ρ.coboundaryMatrix = .ok cb ∧ ρ.value w = .ok A ∧
      (Rep.blockDot blocks cb).toMatrix = 1 - A ∧
      (List.zipWith (fun (B : DMat n n R) g => B.toMatrix * (Fox.gmat ρ g - 1)) blocks ρ.asymGens).sum = A - 1 :=
  Fox.fox_fundamental hinv hcoh H1 H2 H5 hgen hw hl

/-- the empty word has no Fox derivative in the code (`word[0]` raises `IndexError`) -/
theorem differential_nil (ρ : Rep n R) (g : Gen) : ρ.differentialAt [] g = .error "IndexError" :=
  Fox.differentialAt_nil ρ g

/-- `cocycle_matrix @ coboundary_matrix`: the block row of a relation `r` gives `1 − ρ(r)` -/
theorem cocycle_mul_coboundary {ρ : Rep n R} (hinv : ρ.inv = invertGen) (hcoh : ρ.Coherent)
    (H1 : ρ.asymGens.Nodup)
    (H2 : ∀ g ∈ ρ.asymGens, ∀ h ∈ ρ.asymGens, invertGen g ≠ h)
    (H5 : ∀ g ∈ ρ.asymGens, invertGen (invertGen g) = g)
    (hgen : ∀ g ∈ ρ.asymGens, ∃ A, ρ.genM g = .ok A)
    (hrel : ∀ r ∈ ρ.relations, r ≠ [] ∧ ∀ x ∈ r, x ∈ ρ.asymGens ∨ ∃ g ∈ ρ.asymGens, x = invertGen g) :
    ∃ rows cb, ρ.cocycleMatrix = .ok rows ∧ ρ.coboundaryMatrix = .ok cb ∧
      List.Forall₂ (fun r row => ∃ A, ρ.value r = .ok A ∧ (Rep.blockDot row cb).toMatrix = 1 - A)
        ρ.relations rows :=
  Fox.cocycle_mul_coboundary hinv hcoh H1 H2 H5 hgen hrel

/-- … so the cocycle matrix of satisfied relations annihilates the coboundary matrix -/
theorem cocycle_mul_coboundary_eq_zero {ρ : Rep n R} (hinv : ρ.inv = invertGen) (hcoh : ρ.Coherent)
    (H1 : ρ.asymGens.Nodup)
    (H2 : ∀ g ∈ ρ.asymGens, ∀ h ∈ ρ.asymGens, invertGen g ≠ h)
    (H5 : ∀ g ∈ ρ.asymGens, invertGen (invertGen g) = g)
    (hgen : ∀ g ∈ ρ.asymGens, ∃ A, ρ.genM g = .ok A)
    (hrel : ∀ r ∈ ρ.relations, r ≠ [] ∧ ∀ x ∈ r, x ∈ ρ.asymGens ∨ ∃ g ∈ ρ.asymGens, x = invertGen g)
    (hsat : ∀ r ∈ ρ.relations, ρ.value r = .ok 1) :
    ∃ rows cb, ρ.cocycleMatrix = .ok rows ∧ ρ.coboundaryMatrix = .ok cb ∧
      rows.length = ρ.relations.length ∧ ∀ row ∈ rows, (Rep.blockDot row cb).toMatrix = 0 :=
  Fox.cocycle_mul_coboundary_eq_zero hinv hcoh H1 H2 H5 hgen hrel hsat


/-! ## non-vacuity: the hypotheses above are met by a concrete representation

`Fox.exRep : Rep 2 ℤ` has `a, b ↦` the elementary matrices of `SL(2,ℤ)` and `A, B ↦` their
inverses (what two assignments `rep["a"] = …; rep["b"] = …` store). -/

section examples
open Fox

private def C₀ : DMat 2 2 ℤ := DMat.ofMatrix !![1, 1; 0, 1]
private def Ci₀ : DMat 2 2 ℤ := DMat.ofMatrix !![1, -1; 0, 1]

/-- word homomorphism / inverse letter / free reduction / formal inverse on `abAB` -/
example : ∃ A, exRep.value ["a", "b", "A", "B"] = .ok A ∧
    exRep.value (simplifyWord exRep.inv (["a", "b", "A", "B"] ++ ["b", "B"])) = .ok A ∧
    exRep.value (formalInverse exRep.inv ["a", "b", "A", "B"]) = .ok A⁻¹ := by
  obtain ⟨A, hA⟩ : ∃ A, exRep.value ["a", "b", "A", "B"] = .ok A := ⟨_, rfl⟩
  obtain ⟨B, hB⟩ : ∃ B, exRep.value ["b"] = .ok B := ⟨_, rfl⟩
  obtain ⟨hBi, hB1, _⟩ := wordValue_inv_letter exRep_coherent hB
  have h2 : exRep.value (["a", "b", "A", "B"] ++ (["b"] ++ [exRep.inv "b"])) = .ok (A * (B * B⁻¹)) :=
    Rep.value_append_ok _ hA (Rep.value_append_ok _ hB hBi)
  rw [hB1, Matrix.mul_one] at h2
  exact ⟨A, hA, wordValue_simplify exRep_coherent h2, wordValue_formalInverse exRep_coherent hA⟩

/-- the assignment `rep["c"] = M` on top of `exRep` keeps the dict invariant -/
example : ∃ σ, exRep.setGenerator Rep.invertZ "c" C₀ true = .ok σ ∧ σ.WF := by
  obtain ⟨σ, hσ⟩ : ∃ σ, exRep.setGenerator Rep.invertZ "c" C₀ true = .ok σ := ⟨_, rfl⟩
  refine ⟨σ, hσ, setGenerator_coherent Rep.invertZ_ok ⟨exRep_coherent, ?_⟩ (by decide) (by decide) hσ⟩
  intro g X hX
  rw [exRep_genM] at hX
  split_ifs at hX with h1 h2 h3 h4 <;> (subst_vars; decide)

/-- conjugate, dual, astype, gln_adjoint -/
example : ∃ σ A, exRep.conjugate C₀ Ci₀ = .ok σ ∧ exRep.value ["a", "b"] = .ok A ∧
    σ.value ["a", "b"] = .ok (Ci₀.toMatrix * A * C₀.toMatrix) := by
  obtain ⟨σ, hσ⟩ : ∃ σ, exRep.conjugate C₀ Ci₀ = .ok σ := ⟨_, rfl⟩
  obtain ⟨A, hA⟩ : ∃ A, exRep.value ["a", "b"] = .ok A := ⟨_, rfl⟩
  exact ⟨σ, A, hσ, hA, conjugate_hom (by decide) exRep_coherent hσ hA⟩

example : ∃ σ A, exRep.dual Rep.invertZ = .ok σ ∧ exRep.value ["a", "B"] = .ok A ∧
    σ.value ["a", "B"] = .ok (A⁻¹)ᵀ := by
  obtain ⟨σ, hσ⟩ : ∃ σ, exRep.dual Rep.invertZ = .ok σ := ⟨_, rfl⟩
  obtain ⟨A, hA⟩ : ∃ A, exRep.value ["a", "B"] = .ok A := ⟨_, rfl⟩
  exact ⟨σ, A, hσ, hA, dual_hom Rep.invertZ_ok exRep_coherent hσ hA⟩

example : ∃ (σ : Rep 2 ℚ) (A : Matrix (Fin 2) (Fin 2) ℤ), exRep.astype (Int.castRingHom ℚ) = .ok σ ∧ exRep.value ["a", "b"] = .ok A ∧
    σ.value ["a", "b"] = .ok (A.map (Int.castRingHom ℚ)) := by
  obtain ⟨σ, hσ⟩ : ∃ σ : Rep 2 ℚ, exRep.astype (Int.castRingHom ℚ) = .ok σ := ⟨_, rfl⟩
  obtain ⟨A, hA⟩ : ∃ A, exRep.value ["a", "b"] = .ok A := ⟨_, rfl⟩
  exact ⟨σ, A, hσ, hA, astype_hom _ exRep_coherent hσ hA⟩

example : ∃ σ A, exRep.glnAdjoint = .ok σ ∧ exRep.value ["a", "b"] = .ok A ∧
    σ.value ["a", "b"] = .ok (Rep.kron A (A⁻¹)ᵀ) := by
  obtain ⟨σ, hσ⟩ : ∃ σ, exRep.glnAdjoint = .ok σ := ⟨_, rfl⟩
  obtain ⟨A, hA⟩ : ∃ A, exRep.value ["a", "b"] = .ok A := ⟨_, rfl⟩
  exact ⟨σ, A, hσ, hA, gln_adjoint_hom exRep_coherent hσ hA⟩

example : ∃ σ A, Rep.slnAdjoint exRep = .ok σ ∧ exRep.value ["a", "b"] = .ok A ∧
    σ.value ["a", "b"] = .ok (Rep.slnAd A A⁻¹) := by
  obtain ⟨σ, hσ⟩ : ∃ σ, Rep.slnAdjoint exRep = .ok σ := ⟨_, rfl⟩
  obtain ⟨A, hA⟩ : ∃ A, exRep.value ["a", "b"] = .ok A := ⟨_, rfl⟩
  exact ⟨σ, A, hσ, hA, sln_adjoint_hom exRep_coherent hσ hA⟩

private theorem exNames : Rep.NamesOK invertGen exRep.asymGens := by
  rw [exRep_asymGens]
  exact ⟨by decide, by decide, by decide⟩

/-- tensor product with itself -/
example : ∃ τ A, exRep.tensorProduct Rep.invertZ exRep = .ok τ ∧ exRep.value ["a", "B"] = .ok A ∧
    τ.value ["a", "B"] = .ok (Rep.kron A A) := by
  obtain ⟨τ, hτ⟩ : ∃ τ, exRep.tensorProduct Rep.invertZ exRep = .ok τ := ⟨_, rfl⟩
  obtain ⟨A, hA⟩ : ∃ A, exRep.value ["a", "B"] = .ok A := ⟨_, rfl⟩
  refine ⟨τ, A, hτ, hA, (tensor_hom Rep.invertZ_ok hτ exRep_coherent exRep_coherent exNames
    ?_ ?_ ?_ ?_ ["a", "B"] ?_ hA hA).1⟩
  all_goals (rw [exRep_asymGens]; decide)

/-! symmetric square over `ZMod 3`, where `2·2 = 1` (and everything reduces by `rfl`) -/

private def inv3 {k : ℕ} (A : DMat k k (ZMod 3)) : Option (DMat k k (ZMod 3)) :=
  let d := A.toMatrix.det
  if d * d = 1 then some (DMat.ofMatrix (d • A.toMatrix.adjugate)) else none

private theorem inv3_ok {k : ℕ} : InvertOK (inv3 (k := k)) := by
  intro A X h
  unfold inv3 at h
  simp only at h
  split_ifs at h with hd
  cases h
  rw [DMat.toMatrix_ofMatrix, Matrix.mul_smul, Matrix.mul_adjugate, smul_smul, hd, one_smul]

private def ex3 : Rep 2 (ZMod 3) :=
  { gens := [("a", DMat.ofMatrix !![1, 1; 0, 1]), ("A", DMat.ofMatrix !![1, 2; 0, 1])] }

private theorem ex3_genM (g : Gen) :
    ex3.genM g = if "a" = g then .ok !![1, 1; 0, 1] else if "A" = g then .ok !![1, 2; 0, 1]
      else .error "KeyError" := by
  unfold Rep.genM Rep.gen ex3
  simp only [dget]
  split_ifs <;> simp [Except.map]

private theorem ex3_coherent : ex3.Coherent := by
  intro g A h
  have hinv : ex3.inv = invertGen := rfl
  have e1 : invertGen "a" = "A" := by decide
  have e2 : invertGen "A" = "a" := by decide
  rw [ex3_genM] at h
  rw [hinv]
  split_ifs at h with h1 h2
  · subst h1; cases h
    refine ⟨!![1, 2; 0, 1], by rw [ex3_genM, e1]; rfl, ?_, ?_⟩ <;>
      (ext i j; fin_cases i <;> fin_cases j <;> rfl)
  · subst h2; cases h
    refine ⟨!![1, 1; 0, 1], by rw [ex3_genM, e2]; rfl, ?_, ?_⟩ <;>
      (ext i j; fin_cases i <;> fin_cases j <;> rfl)

example : ∃ σ A, ex3.symmetricSquare 2 inv3 inv3 = .ok σ ∧ ex3.value ["a", "a", "A"] = .ok A ∧
    σ.value ["a", "a", "A"] = .ok (Rep.symH 2 A) := by
  obtain ⟨σ, hσ⟩ : ∃ σ, ex3.symmetricSquare 2 inv3 inv3 = .ok σ := ⟨_, rfl⟩
  obtain ⟨A, hA⟩ : ∃ A, ex3.value ["a", "a", "A"] = .ok A := ⟨_, rfl⟩
  have hasym : ex3.asymGens = ["a"] := by decide
  refine ⟨σ, A, hσ, hA, (symmetric_square_hom (by decide) inv3_ok inv3_ok hσ ex3_coherent
    (by rw [hasym]; exact ⟨by decide, by decide, by decide⟩) ?_ ?_ _ ?_ hA).1⟩
  all_goals (rw [hasym]; decide)

/-- subgroup generated by `x = ab`, `y = bA` -/
example : ∃ σ A, exRep.subgroup Rep.invertZ [("x", ["a", "b"]), ("y", ["b", "A"])] true [] = .ok σ ∧
    exRep.value (["a", "b"] ++ ["a", "B"]) = .ok A ∧ σ.value ["x", "Y"] = .ok A := by
  obtain ⟨σ, hσ⟩ : ∃ σ, exRep.subgroup Rep.invertZ [("x", ["a", "b"]), ("y", ["b", "A"])] true [] = .ok σ :=
    ⟨_, rfl⟩
  obtain ⟨A, hA⟩ : ∃ A, exRep.value (["a", "b"] ++ ["a", "B"]) = .ok A := ⟨_, rfl⟩
  refine ⟨σ, A, hσ, hA, (subgroup_hom Rep.invertZ_ok hσ exRep_coherent ⟨by decide, by decide, by decide⟩
    ["x", "Y"] (by decide) ?_).1⟩
  have : Rep.substWord exRep.inv [("x", ["a", "b"]), ("y", ["b", "A"])] ["x", "Y"] = ["a", "b"] ++ ["a", "B"] := by
    decide
  rw [this]; exact hA

end examples

end GT.C05
