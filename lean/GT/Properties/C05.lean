/-
C05 — representations are word homomorphisms; derived representations commute with evaluation;
Fox calculus fundamental formula.

Only property theorems and non-vacuity examples live here.  Models: `GT.Model.Words`,
`GT.Model.Rep`; helper lemmas: `GT.Lemmas.Rep`, `GT.Lemmas.RepHom`, `GT.Lemmas.RepDerived`,
`GT.Lemmas.Fox`.

Conventions.  `ρ.value w : Except String (Matrix (Fin n) (Fin n) R)` is the denotation (a Mathlib
matrix) of what the executable `ρ.wordValue w` (the model of `Representation._word_value`, an
array-backed `DMat`) returns; `.error "KeyError"` when a letter has no matrix.  `R` is an
arbitrary commutative ring, `n` an arbitrary dimension, words are arbitrary lists of generator
names.  `Rep.Coherent` / `Rep.WF` is the invariant of the `generators` dict (inverse letters
hold inverse matrices); `setGenerator_wf` shows every history of assignments establishes it,
under the contract `InvertOK` for `numpy.linalg.inv`.
-/
import GT.Lemmas.RepHom

set_option linter.unusedSectionVars false

namespace GT.C05
open GT GT.Rep Matrix

variable {n m : ℕ} {R S : Type} [Inhabited R] [CommRing R] [Inhabited S] [CommRing S]

/-! ## word homomorphism -/

/-- bridge: the materialising fold over `DMat` that the driver executes denotes the Mathlib
product of the letters' matrices -/
theorem wordValue_bridge (ρ : Rep n R) (w : Word) :
    (ρ.wordValue w).map DMat.toMatrix = Rep.evalM ρ.genM w := Rep.value_eq_evalM ρ w

/-- the empty word maps to the identity -/
theorem wordValue_nil (ρ : Rep n R) : ρ.value [] = .ok 1 := Rep.value_nil ρ

/-- the image of a concatenation is the product of the images (and is defined exactly when
both images are) -/
theorem wordValue_append (ρ : Rep n R) (u v : Word) :
    ρ.value (u ++ v) = (do let a ← ρ.value u; let b ← ρ.value v; pure (a * b)) :=
  Rep.value_append ρ u v

/-- every history of assignments `rep[g] = A` (to lower- or upper-case names, re-assignments
included) keeps the dict invariant — given that `utils.invert` returns an inverse, that the
name is not its own inverse and that the inverse map is an involution on it (true of
`invert_gen` on every name `_set_generator` accepts) -/
theorem setGenerator_coherent {invert : DMat n n R → Option (DMat n n R)} (hinv : InvertOK invert)
    {ρ σ : Rep n R} (hρ : ρ.WF) {g : Gen} {A : DMat n n R}
    (hg2 : ρ.inv (ρ.inv g) = g) (hg1 : ρ.inv g ≠ g)
    (h : ρ.setGenerator invert g A true = .ok σ) : σ.WF :=
  Rep.setGenerator_wf hinv hρ hg2 hg1 h

/-- an inverse letter maps to the inverse matrix -/
theorem wordValue_inv_letter {ρ : Rep n R} (hc : ρ.Coherent) {g : Gen} {A : Matrix (Fin n) (Fin n) R}
    (h : ρ.value [g] = .ok A) : ρ.value [ρ.inv g] = .ok A⁻¹ ∧ A * A⁻¹ = 1 ∧ A⁻¹ * A = 1 :=
  Rep.value_inv_letter hc h

/-- freely reducing a word (the literal stack machine of `simplify_word`) does not change its image -/
theorem wordValue_simplify {ρ : Rep n R} (hc : ρ.Coherent) {w : Word} {A : Matrix (Fin n) (Fin n) R}
    (h : ρ.value w = .ok A) : ρ.value (simplifyWord ρ.inv w) = .ok A :=
  Rep.value_simplify hc h

/-- the formal inverse of a word maps to the inverse matrix -/
theorem wordValue_formalInverse {ρ : Rep n R} (hc : ρ.Coherent) {w : Word} {A : Matrix (Fin n) (Fin n) R}
    (h : ρ.value w = .ok A) : ρ.value (formalInverse ρ.inv w) = .ok A⁻¹ :=
  Rep.value_formalInverse hc h

/-! ## derived representations -/

/-- functoriality of `_compose` (generator-by-generator application of `hom`): if `hom` denotes a
multiplicative unit-preserving matrix function `H`, then `ρ_hom(w) = H(ρ(w))` for every word -/
theorem compose_hom {h : DMat n n R → DMat n n R → M? (DMat m m S)} {ρ : Rep n R} {σ : Rep m S}
    (H : Matrix (Fin n) (Fin n) R → Matrix (Fin m) (Fin m) S)
    (hone : H 1 = 1) (hmul : ∀ A B, H (A * B) = H A * H B)
    (hh : ∀ A Ai B, h A Ai = .ok B → A.toMatrix * Ai.toMatrix = 1 → B.toMatrix = H A.toMatrix)
    (hc : ρ.Coherent) (hσ : ρ.compose h = .ok σ) {w : Word} {A : Matrix (Fin n) (Fin n) R}
    (hw : ρ.value w = .ok A) : σ.value w = .ok (H A) :=
  Rep.compose_value H hone hmul hh hc hσ hw

/-- … and the composed representation satisfies the dict invariant again -/
theorem compose_wf {h : DMat n n R → DMat n n R → M? (DMat m m S)} {ρ : Rep n R} {σ : Rep m S}
    (H : Matrix (Fin n) (Fin n) R → Matrix (Fin m) (Fin m) S)
    (hone : H 1 = 1) (hmul : ∀ A B, H (A * B) = H A * H B)
    (hh : ∀ A Ai B, h A Ai = .ok B → A.toMatrix * Ai.toMatrix = 1 → B.toMatrix = H A.toMatrix)
    (hwf : ρ.WF) (hσ : ρ.compose h = .ok σ) : σ.WF :=
  Rep.compose_coherent H hone hmul hh hwf hσ

/-- `rep.conjugate(C, Ci)`: `w ↦ Ci · ρ(w) · C` -/
theorem conjugate_hom {ρ σ : Rep n R} {C Ci : DMat n n R} (hC : C.toMatrix * Ci.toMatrix = 1)
    (hc : ρ.Coherent) (hσ : ρ.conjugate C Ci = .ok σ) {w : Word} {A : Matrix (Fin n) (Fin n) R}
    (hw : ρ.value w = .ok A) : σ.value w = .ok (Ci.toMatrix * A * C.toMatrix) := by
  have hC' : Ci.toMatrix * C.toMatrix = 1 := Rep.mul_eq_one_swap hC
  refine Rep.compose_value (fun X => Ci.toMatrix * X * C.toMatrix) ?_ ?_ ?_ hc hσ hw
  · simp [hC']
  · intro X Y
    calc Ci.toMatrix * (X * Y) * C.toMatrix
        = Ci.toMatrix * X * (1 : Matrix _ _ R) * Y * C.toMatrix := by simp [Matrix.mul_assoc]
      _ = Ci.toMatrix * X * C.toMatrix * (Ci.toMatrix * Y * C.toMatrix) := by
        rw [← hC]; simp only [Matrix.mul_assoc]
  · intro X Xi B hB _
    simp only [Except.ok.injEq] at hB
    subst hB
    simp

/-- `rep.conjugate(C)` with the inverse computed by `utils.invert` -/
theorem conjugate_hom' {invert : DMat n n R → Option (DMat n n R)} (hinv : InvertOK invert)
    {ρ σ : Rep n R} {C : DMat n n R} (hc : ρ.Coherent) (hσ : ρ.conjugate' invert C = .ok σ)
    {w : Word} {A : Matrix (Fin n) (Fin n) R} (hw : ρ.value w = .ok A) :
    σ.value w = .ok (C.toMatrix⁻¹ * A * C.toMatrix) := by
  unfold Rep.conjugate' at hσ
  cases hi : invert C with
  | none => rw [hi] at hσ; cases hσ
  | some Ci =>
    rw [hi] at hσ
    have h1 := hinv C Ci hi
    rw [Matrix.inv_eq_right_inv h1]
    exact conjugate_hom h1 hc hσ hw

/-- `rep.dual()`: `w ↦ (ρ(w)⁻¹)ᵀ` -/
theorem dual_hom {invert : DMat n n R → Option (DMat n n R)} (hinv : InvertOK invert)
    {ρ σ : Rep n R} (hc : ρ.Coherent) (hσ : ρ.dual invert = .ok σ) {w : Word}
    {A : Matrix (Fin n) (Fin n) R} (hw : ρ.value w = .ok A) : σ.value w = .ok (A⁻¹)ᵀ := by
  refine Rep.compose_value (fun X => (X⁻¹)ᵀ) ?_ ?_ ?_ hc hσ hw
  · simp
  · intro X Y; simp [Matrix.mul_inv_rev, Matrix.transpose_mul]
  · intro X Xi B hB _
    cases hi : invert X with
    | none => simp [hi] at hB
    | some Xi' =>
      simp only [hi, Except.ok.injEq] at hB
      subst hB
      rw [DMat.toMatrix_transpose, Matrix.inv_eq_right_inv (hinv X Xi' hi)]

/-- `rep.astype(dtype)` for an exact conversion (a ring homomorphism `f`): `w ↦ f(ρ(w))` entrywise -/
theorem astype_hom (f : R →+* S) {ρ : Rep n R} {σ : Rep n S} (hc : ρ.Coherent)
    (hσ : ρ.astype f = .ok σ) {w : Word} {A : Matrix (Fin n) (Fin n) R} (hw : ρ.value w = .ok A) :
    σ.value w = .ok (A.map f) := by
  refine Rep.compose_value (fun X => X.map f) ?_ ?_ ?_ hc hσ hw
  · simp
  · intro X Y; exact Matrix.map_mul
  · intro X Xi B hB _
    simp only [Except.ok.injEq] at hB
    subst hB
    simp

end GT.C05
