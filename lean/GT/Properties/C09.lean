/-
C09 — an automaton's three views stay coherent however it was built or edited.
Property theorems about the model `GT.FSA` (lean/GT/Model/FSA.lean, a literal transcription of
geometry_tools/automata/fsa.py as repaired) and its specification (lean/GT/Model/FSASpec.lean).
Helper lemmas live in `GT/Lemmas/FSA*.lean`.
-/
import GT.Lemmas.FSAViews
import GT.Lemmas.FSARec
import GT.Lemmas.FSARename
import GT.Lemmas.FSABuild2
import GT.Lemmas.FSAQuery
import GT.Properties.C09Parse

set_option linter.unusedSectionVars false

namespace GT.C09
open GT GT.FSA
variable {V L : Type} [DecidableEq V] [DecidableEq L]

/-! ## what coherence says about the three views -/

/-- On a coherent automaton the label view (`edges(with_labels=True)`), the outgoing view (all
`edges_out`) and the incoming view (all `edges_in`) list the same labelled edges, none of them
lists an edge twice, and the three views have the same vertex set. -/
theorem coherent_views {s : FSA V L} (hs : s.Coherent) :
    (∀ e, e ∈ s.edgesG ↔ e ∈ s.edgesO) ∧ (∀ e, e ∈ s.edgesG ↔ e ∈ s.edgesI) ∧
    s.edgesG.Nodup ∧ s.edgesO.Nodup ∧ s.edgesI.Nodup ∧
    (∀ v, v ∈ s.graph.keys ↔ v ∈ s.vertices) ∧ (∀ v, v ∈ s.inn.keys ↔ v ∈ s.vertices) ∧
    s.vertices.Nodup ∧
    (∀ v l w, (v, l, w) ∈ s.edgesG → v ∈ s.vertices ∧ w ∈ s.vertices) := by
  refine ⟨?_, ?_, nodup_edgesG hs, nodup_edgesO hs, nodup_edgesI hs, hs.verts, hs.innVerts,
    hs.keys.out, ?_⟩
  · rintro ⟨v, l, w⟩; rw [mem_edgesG hs, mem_edgesO hs]; exact hs.label v l w
  · rintro ⟨v, l, w⟩; rw [mem_edgesG hs, mem_edgesI hs, ← hs.io]; exact hs.label v l w
  · intro v l w h
    rw [mem_edgesG hs] at h
    obtain ⟨ls, hls, -⟩ := (hs.label v l w).1 h
    refine ⟨?_, hs.closed v w ls hls⟩
    obtain ⟨row, hr, -⟩ := (og_some_iff s v w).1 ⟨ls, hls⟩
    exact (Dict.mem_keys_iff _ _).2 ⟨row, hr⟩

/-- the edge set read off any view is the edge set of the abstraction -/
theorem mem_edges_iff_abs {s : FSA V L} (hs : s.Coherent) (v : V) (l : L) (w : V) :
    (v, l, w) ∈ s.edgesG ↔ s.abs.edges v l w := mem_edgesG hs v l w

/-! ## every construction route gives a well-formed automaton with the predicted edge set -/

/-- `FSA(graph_dict)` — any dictionary of dictionaries; targets that are not keys become vertices -/
theorem wf_fromGraphDict (gd : Dict V (Dict L V)) (st : List V) (hgd : Nodup2 gd) :
    (fromGraphDict gd st).WF ∧ (fromGraphDict gd st).starts = st ∧
    (fromGraphDict gd st).abs =
      ⟨fun v => v ∈ gd.keys ∨ v ∈ targets gd, fun v l w => (gd.get? v).bind (·.get? l) = some w⟩ :=
  ⟨FSA.wf_fromGraphDict gd st hgd, rfl, abs_fromGraphDict gd st⟩

/-- `FSA(out_dict, graph_dict=False)` — for a deterministic dictionary whose targets are keys and
whose label lists are duplicate-free (and non-empty, for `NoEmpty`) -/
theorem wf_fromOutDict (od : Dict V (Dict V (List L))) (st : List V) (h : OutDictOK od)
    (hne : ∀ v row w ls, od.get? v = some row → row.get? w = some ls → ls ≠ []) :
    (fromOutDict od st).WF ∧ (fromOutDict od st).starts = st ∧
    (fromOutDict od st).abs =
      ⟨fun v => v ∈ od.keys, fun v l w => ∃ ls, (od.get? v).bind (·.get? w) = some ls ∧ l ∈ ls⟩ := by
  refine ⟨⟨coherent_fromOutDict od st h, ?_⟩, rfl, abs_fromOutDict od st h⟩
  intro v w ls hls
  rw [og_def] at hls
  cases hv : od.get? v with
  | none => simp [fromOutDict, hv] at hls
  | some row => exact hne v row w ls hv (by simpa [fromOutDict, hv] using hls)

/-- `FSA()` -/
theorem wf_empty (st : List V) : (FSA.empty st : FSA V L).WF ∧
    (∀ v, ¬ (FSA.empty st : FSA V L).abs.verts v) :=
  ⟨FSA.wf_fromGraphDict [] st ⟨by simp, by simp⟩, by intro v h; cases h⟩

/-- `free_automaton(gens)`, for every list of generator names -/
theorem wf_free (inv : L → L) (eps : L) (gens : List L) :
    (free inv eps gens).WF ∧ (free inv eps gens).starts = [eps] ∧
    ∀ g h q, (free inv eps gens).abs.edges g h q ↔
      q = h ∧ g ∈ eps :: (gens ++ gens.map inv) ∧ h ∈ gens ++ gens.map inv ∧ inv h ≠ g :=
  ⟨FSA.wf_free inv eps gens, rfl, step_free inv eps gens⟩

/-- **Loading a kbmag table reproduces the table and the start state.**  `_from_gap_record` on the
parsed fields `transitions`, `alphabet.names` (distinct), `initial`: the automaton is well-formed,
its start list is `initial`, and `i+1 —names[j]→ t` is an edge iff `transitions[i][j] = t ≠ 0`. -/
theorem buildDict_spec (transitions : List (List Nat)) (labels : List L) (hl : labels.Nodup)
    (initial : List Nat) :
    (fromKbmag transitions labels initial).WF ∧ (fromKbmag transitions labels initial).starts = initial ∧
    ∀ v l t, (fromKbmag transitions labels initial).abs.edges v l t ↔
      ∃ (i j : Nat) (row : List Nat), v = i + 1 ∧ transitions[i]? = some row ∧ labels[j]? = some l ∧
        row[j]? = some t ∧ t ≠ 0 :=
  ⟨wf_fromKbmag transitions labels initial, rfl, step_fromKbmag transitions labels hl initial⟩

/-- `copy.deepcopy` -/
theorem wf_copy {s : FSA V L} (hs : s.WF) : s.copy.WF ∧ s.copy.abs = s.abs := ⟨hs, rfl⟩

/-! ## every operation preserves well-formedness and refines the plain set model -/

/-- One operation, applied under its documented precondition to a well-formed automaton, does not
raise, returns a well-formed automaton with the same start list, and changes the vertex and edge
sets exactly as the plain set model predicts. -/
theorem applyOp_refines {s : FSA V L} (hs : s.WF) (op : Op V L) (hp : s.abs.Pre op) :
    ∃ s', s.applyOp op = .ok s' ∧ s'.WF ∧ s'.starts = s.starts ∧ s'.abs = s.abs.applyOp op := by
  cases op with
  | addVertices vs =>
    exact ⟨_, rfl, wf_addVertices hs vs, starts_addVertices s vs, abs_addVertices hs vs⟩
  | addEdges es ir => exact addEdges_spec hs ir es hp
  | addEdgesL es ir => exact addEdgesL_spec hs ir es hp
  | deleteVertex v =>
    obtain ⟨s', e, w, st, a, -⟩ := deleteVertex_wf hs hp
    exact ⟨s', e, w, st, a⟩
  | deleteVertices vs => exact deleteVertices_spec hs vs hp
  | recurrent => exact recurrent_spec hs
  | rename m =>
    obtain ⟨s', e, w, st, a, -⟩ := rename_spec hs m hp.1 hp.2
    exact ⟨s', e, w, st, a⟩
  | copy => exact ⟨s, rfl, hs, rfl, rfl⟩
  | hasEdge t h =>
    obtain ⟨b, e, -⟩ := hasEdge_spec hs hp h
    exact ⟨s, by simp [FSA.applyOp, e, Except.map], hs, rfl, rfl⟩

/-- **Coherence over any history.**  Starting from a well-formed automaton, any sequence of
operations each meeting its precondition in the state it is applied to runs without raising, ends
in a well-formed automaton, and the final vertex and edge sets are those the plain set model
predicts for that history. -/
theorem run_refines {s : FSA V L} (hs : s.WF) (ops : List (Op V L)) (hp : s.abs.HistOK ops) :
    ∃ s', s.run ops = .ok s' ∧ s'.WF ∧ s'.starts = s.starts ∧ s'.abs = s.abs.run ops := by
  induction ops generalizing s with
  | nil => exact ⟨s, rfl, hs, rfl, rfl⟩
  | cons op ops ih =>
    obtain ⟨h1, h2⟩ := hp
    obtain ⟨s1, e1, w1, st1, a1⟩ := applyOp_refines hs op h1
    rw [← a1] at h2
    obtain ⟨s', e2, w2, st2, a2⟩ := ih w1 h2
    refine ⟨s', ?_, w2, by rw [st2, st1], ?_⟩
    · simp only [FSA.run, e1, bind, Except.bind]; exact e2
    · rw [a2, a1]; rfl

/-- the views of every automaton reachable by a history are coherent (the statement of the
property, as a corollary) -/
theorem reachable_coherent {s : FSA V L} (hs : s.WF) (ops : List (Op V L)) (hp : s.abs.HistOK ops) :
    ∃ s', s.run ops = .ok s' ∧
      (∀ e, e ∈ s'.edgesG ↔ e ∈ s'.edgesO) ∧ (∀ e, e ∈ s'.edgesG ↔ e ∈ s'.edgesI) ∧
      s'.edgesG.Nodup ∧ s'.edgesO.Nodup ∧ s'.edgesI.Nodup ∧
      (∀ v l w, (v, l, w) ∈ s'.edgesG ↔ (s.abs.run ops).edges v l w) ∧
      (∀ v, v ∈ s'.vertices ↔ (s.abs.run ops).verts v) := by
  obtain ⟨s', e, w, -, a⟩ := run_refines hs ops hp
  obtain ⟨h1, h2, h3, h4, h5, -⟩ := coherent_views w.1
  refine ⟨s', e, h1, h2, h3, h4, h5, ?_, ?_⟩
  · intro v l x; rw [mem_edges_iff_abs w.1, a]
  · intro v; rw [← a]; rfl

/-! ## the read accessors are read-only -/

/-- `has_edge` / `edge_labels` / `edge_label` (as repaired) on a vertex `t` and any `h`: they do not
raise, they answer from the outgoing view exactly what the label view says — `edge_labels` lists
each label of an edge `t → h` once, `has_edge` is true iff there is one — and they cannot change
the automaton (in the model they return no automaton; on the pinned tree they inserted an empty
entry for a non-adjacent pair, after which `recurrent` kept dead ends: D13). -/
theorem query_readonly {s : FSA V L} (hs : s.WF) {t : V} (ht : t ∈ s.vertices) (h : V) :
    (∃ ls, s.edgeLabels t h = .ok ls ∧ ls.Nodup ∧ ∀ l, l ∈ ls ↔ s.step t l = some h) ∧
    (∃ b, s.hasEdge t h = .ok b ∧ (b = true ↔ ∃ l, s.step t l = some h)) :=
  ⟨edgeLabels_spec hs.1 ht h, hasEdge_spec hs ht h⟩

/-- `add_edges` (as repaired) refuses an edge that contradicts an existing `(tail, label)`:
`FSAException`, whatever `ignore_redundant` is -/
theorem addLabel_conflict_refused {s : FSA V L} {t h w : V} {l : L} (ir : Bool)
    (hst : s.step t l = some w) (hne : w ≠ h) : addLabel ir t h s l = .error .fsaException :=
  addLabel_conflict ir hst hne

section QueryExample
/-- `FSA({0: {'a': 0, 'b': 1}}, [0])`: vertex 1 is a dead end, before and after asking `has_edge(1, 0)` -/
def exQ : FSA Nat String := fromGraphDict [(0, [("a", 0), ("b", 1)])] [0]

example : (exQ.recurrent.toOption.map fun s => s.vertices) = some [0] ∧
    (exQ.hasEdge 1 0).toOption = some false ∧ (exQ.edgeLabels 0 1).toOption = some ["b"] ∧
    (addLabel true 0 0 exQ "b").toOption = none := by
  refine ⟨by rfl, by rfl, by rfl, by rfl⟩
end QueryExample

/-! ## the plain set model in closed form -/

theorem setModel_addEdges (m : SetFSA V L) (es : List (V × V × L)) :
    (∀ v l w, (m.addEdges es).edges v l w ↔ m.edges v l w ∨ (v, w, l) ∈ es) ∧
    (∀ v, (m.addEdges es).verts v ↔ m.verts v ∨ ∃ e ∈ es, v = e.1 ∨ v = e.2.1) := by
  induction es generalizing m with
  | nil => simp [SetFSA.addEdges]
  | cons e es ih =>
    obtain ⟨t, h, l⟩ := e
    have := ih (m.addEdge t h l)
    simp only [SetFSA.addEdges, List.foldl_cons] at this ⊢
    constructor
    · intro v l' w; rw [this.1]; simp only [SetFSA.addEdge, List.mem_cons, Prod.mk.injEq]; grind
    · intro v; rw [this.2]; simp only [SetFSA.addEdge, List.mem_cons, exists_eq_or_imp]; grind

theorem setModel_deleteVertices (m : SetFSA V L) (xs : List V) :
    (∀ v l w, (m.deleteVertices xs).edges v l w ↔ m.edges v l w ∧ v ∉ xs ∧ w ∉ xs) ∧
    (∀ v, (m.deleteVertices xs).verts v ↔ m.verts v ∧ v ∉ xs) := by
  induction xs generalizing m with
  | nil => simp [SetFSA.deleteVertices]
  | cons x xs ih =>
    have := ih (m.deleteVertex x)
    simp only [SetFSA.deleteVertices, List.foldl_cons] at this ⊢
    constructor
    · intro v l w; rw [this.1]; simp only [SetFSA.deleteVertex, List.mem_cons]; grind
    · intro v; rw [this.2]; simp only [SetFSA.deleteVertex, List.mem_cons]; grind

/-! ## non-vacuity: a concrete history -/

section Example
/-- `FSA({0: {'a': 1}, 1: {'b': 1}}, [0])` -/
def ex0 : FSA Nat String := fromGraphDict [(0, [("a", 1)]), (1, [("b", 1)])] [0]

/-- add a parallel edge, a new vertex with a list of labels, delete, prune, relabel -/
def exOps : List (Op Nat String) :=
  [.addEdges [(0, 1, "b")] true, .addEdgesL [(1, 2, ["a", "c"]), (2, 0, [])] true,
   .deleteVertex 2, .recurrent, .rename [("a", "b"), ("b", "a"), ("c", "c")], .copy]

example : ex0.WF := (wf_fromGraphDict _ _ ⟨by decide, by
  intro k row h
  have : row = [("a", 1)] ∨ row = [("b", 1)] := by
    have hm := Dict.mem_of_get? h
    simp only [List.mem_cons, Prod.mk.injEq, List.not_mem_nil, or_false] at hm
    rcases hm with ⟨-, rfl⟩ | ⟨-, rfl⟩ <;> simp
  rcases this with rfl | rfl <;> decide⟩).1

example : (ex0.run exOps).toOption.map (fun s => (s.edgesG, s.edgesO, s.edgesI, s.vertices)) =
    some ([(1, "a", 1)], [(1, "a", 1)], [(1, "a", 1)], [1]) := by rfl
end Example

end GT.C09
