/- property theorems for C09 (filled in below) -/
