/-
C01 — hyperbolic model coordinates are mutually consistent and carry one metric.
Only property theorems and non-vacuity examples live here; helper lemmas are in
`GT.Lemmas.Charts`.  Model: `GT.Model.Charts`.
-/
import GT.Lemmas.Charts
import GT.Lemmas.Triangle
import Mathlib.Analysis.SpecialFunctions.Arcosh
import Mathlib.Analysis.SpecialFunctions.Sqrt
import Mathlib.Tactic.NormNum

open Finset BigOperators

set_option linter.unusedSectionVars false

namespace GT.C01
open GT

section generic
variable {K : Type*} [Field K] [LinearOrder K] [IsStrictOrderedRing K] {n : ℕ} {r : K → K}

/-! ## chart round trips -/

/-- Poincaré → Klein → Poincaré is the identity on the closed ball, in every dimension -/
theorem k2p_p2k (hr : IsSqrt r) (p : Fin n → K) (hp : nsq p ≤ 1) : k2p r (p2k p) = p := by
  have h0 := nsq_nonneg p
  have h1 : (1 + nsq p) ≠ 0 := by linarith
  have h2 : 0 ≤ (1 - nsq p) / (1 + nsq p) := div_nonneg (by linarith) (by linarith)
  funext i
  unfold k2p
  rw [one_sub_nsq_p2k p h1, abs_of_nonneg (sq_nonneg _), hr.sq h2]
  unfold p2k
  have h3 : (1 + nsq p) + (1 - nsq p) ≠ 0 := by norm_num
  field_simp
  ring

/-- Klein → Poincaré → Klein is the identity on the closed ball, in every dimension -/
theorem p2k_k2p (hr : IsSqrt r) (k : Fin n → K) (hk : nsq k ≤ 1) : p2k (k2p r k) = k := by
  have hb : 0 ≤ 1 - nsq k := by linarith
  obtain ⟨hs0, hs1⟩ := hr (1 - nsq k) hb
  have hk2 : k2p r k = fun i => k i * (1 / (1 + r (1 - nsq k))) := by
    funext j; unfold k2p; rw [abs_of_nonneg hb]
  generalize r (1 - nsq k) = s at hs0 hs1 hk2
  have hne : (1 + s) ≠ 0 := by linarith
  have hb' : nsq k = 1 - s * s := by rw [hs1]; ring
  funext i
  unfold p2k
  rw [hk2, nsq_smul, hb']
  have key : 1 / (1 + s) * (2 / (1 + (1 / (1 + s)) ^ 2 * (1 - s * s))) = 1 := by
    have e : 1 + (1 / (1 + s)) ^ 2 * (1 - s * s) = 2 / (1 + s) := by
      field_simp; ring
    rw [e]; field_simp
  calc k i * (1 / (1 + s)) * (2 / (1 + (1 / (1 + s)) ^ 2 * (1 - s * s)))
      = k i * (1 / (1 + s) * (2 / (1 + (1 / (1 + s)) ^ 2 * (1 - s * s)))) := by ring
    _ = k i := by rw [key, mul_one]

/-- Poincaré → half-space → Poincaré, away from the half-space point at infinity
(`p = (1,0,…,0)`, where the denominator vanishes) -/
theorem h2p_p2h (p : Fin (n + 1) → K)
    (h : nsq (Fin.tail p) + (p 0 - 1) * (p 0 - 1) ≠ 0) : h2p (p2h p) = p := by
  set D := nsq (Fin.tail p) + (p 0 - 1) * (p 0 - 1) with hD
  have hv : Fin.init (p2h p) = fun i => Fin.tail p i * (-2 / D) := by
    unfold p2h; simp only [Fin.init_snoc]; funext i; rw [← hD]; field_simp
  have hl : p2h p (Fin.last n) = (1 - nsq (Fin.tail p) - p 0 * p 0) / D := by
    unfold p2h; simp only [Fin.snoc_last]; rfl
  have hn : nsq (Fin.init (p2h p)) = 4 * nsq (Fin.tail p) / D ^ 2 := by
    rw [hv, nsq_smul]; field_simp; ring
  have hx : nsq (Fin.tail p) = D - (p 0 - 1) * (p 0 - 1) := by rw [hD]; ring
  have hden : nsq (Fin.init (p2h p)) + (p2h p (Fin.last n) + 1) * (p2h p (Fin.last n) + 1)
      = 4 / D := by
    rw [hn, hl, hx]; field_simp; ring
  funext i
  unfold h2p
  rw [hden]
  refine Fin.cases ?_ (fun j => ?_) i
  · simp only [Fin.cons_zero]
    rw [hn, hl, hx]; field_simp; ring
  · simp only [Fin.cons_succ]
    rw [hv]; simp only [Fin.tail]; field_simp; ring

/-- half-space → Poincaré → half-space, for every point of the closed upper half-space
(the denominator `|v|²+(y+1)²` is positive there) -/
theorem p2h_h2p (h : Fin (n + 1) → K)
    (hh : nsq (Fin.init h) + (h (Fin.last n) + 1) * (h (Fin.last n) + 1) ≠ 0) :
    p2h (h2p h) = h := by
  set D := nsq (Fin.init h) + (h (Fin.last n) + 1) * (h (Fin.last n) + 1) with hD
  have hv : Fin.tail (h2p h) = fun i => Fin.init h i * (-2 / D) := by
    unfold h2p; simp only [Fin.tail_cons]; funext i; rw [← hD]; field_simp
  have hl : h2p h 0 = (nsq (Fin.init h) + h (Fin.last n) * h (Fin.last n) - 1) / D := by
    unfold h2p; simp only [Fin.cons_zero]; rfl
  have hn : nsq (Fin.tail (h2p h)) = 4 * nsq (Fin.init h) / D ^ 2 := by
    rw [hv, nsq_smul]; field_simp; ring
  have hx : nsq (Fin.init h) = D - (h (Fin.last n) + 1) * (h (Fin.last n) + 1) := by rw [hD]; ring
  have hden : nsq (Fin.tail (h2p h)) + (h2p h 0 - 1) * (h2p h 0 - 1) = 4 / D := by
    rw [hn, hl, hx]; field_simp; ring
  funext i
  unfold p2h
  rw [hden]
  refine Fin.lastCases ?_ (fun j => ?_) i
  · simp only [Fin.snoc_last]
    rw [hn, hl, hx]; field_simp; ring
  · simp only [Fin.snoc_castSucc]
    rw [hv]; simp only [Fin.init]; field_simp; ring

/-! ## `Point(d, model=m).coords(m) = d` for each model -/

theorem roundtrip_klein (k : Fin n → K) : getKlein (setKlein k) = k := klein_ofKlein k

theorem roundtrip_poincare (hr : IsSqrt r) (p : Fin n → K) (hp : nsq p ≤ 1) :
    getPoincare r (setPoincare p) = p := by
  unfold getPoincare setPoincare; rw [klein_ofKlein, k2p_p2k hr p hp]

/-- closed upper half-space: `0 ≤ y`; then the Poincaré image lies in the closed ball -/
theorem nsq_h2p_le_one (h : Fin (n + 1) → K) (hy : 0 ≤ h (Fin.last n)) : nsq (h2p h) ≤ 1 := by
  set y := h (Fin.last n) with hy'
  set x2 := nsq (Fin.init h) with hx2
  have hx0 : 0 ≤ x2 := nsq_nonneg _
  have hD : 0 < x2 + (y + 1) * (y + 1) := by nlinarith
  have e : nsq (h2p h) = ((x2 + y * y - 1) ^ 2 + 4 * x2) / (x2 + (y + 1) * (y + 1)) ^ 2 := by
    have hv : Fin.tail (h2p h) = fun i => Fin.init h i * (-2 / (x2 + (y + 1) * (y + 1))) := by
      unfold h2p; simp only [Fin.tail_cons]; funext i; rw [← hx2, ← hy']; field_simp
    have h0 : h2p h 0 = (x2 + y * y - 1) / (x2 + (y + 1) * (y + 1)) := by
      unfold h2p; simp only [Fin.cons_zero]; rw [← hx2, ← hy']
    have : nsq (h2p h) = h2p h 0 * h2p h 0 + nsq (Fin.tail (h2p h)) := by
      unfold nsq dot; rw [Fin.sum_univ_succ]; rfl
    rw [this, hv, nsq_smul, h0]; field_simp; ring
  rw [e, div_le_one (by positivity)]
  nlinarith [mul_nonneg hy hx0, mul_nonneg hy (mul_nonneg hy hy), mul_nonneg hy hy]

theorem roundtrip_halfspace (hr : IsSqrt r) (h : Fin (n + 1) → K) (hy : 0 ≤ h (Fin.last n)) :
    getHalfspace r (setHalfspace h) = h := by
  unfold getHalfspace setHalfspace
  rw [klein_ofKlein, k2p_p2k hr _ (nsq_h2p_le_one h hy)]
  apply p2h_h2p
  have := nsq_nonneg (Fin.init h)
  have : 0 < nsq (Fin.init h) + (h (Fin.last n) + 1) * (h (Fin.last n) + 1) := by nlinarith
  exact this.ne'

theorem roundtrip_hyperboloid (hr : IsSqrt r) (X : Fin (n + 1) → K) (hX : mink X X = -1) :
    getHyperboloid r X = X := by
  have h1 : r 1 = 1 := by simpa using hr.sq (zero_le_one (α := K))
  unfold getHyperboloid normalize
  rw [hX]; simp [h1]

/-- reading Klein coordinates of any stored representative and building a point back gives
the same projective point (the stored vector divided by its chart coordinate) -/
theorem set_get_klein (x : Fin (n + 1) → K) (h : x 0 ≠ 0) :
    setKlein (getKlein x) = fun i => x i / x 0 := ofKlein_klein x h

theorem set_get_poincare (hr : IsSqrt r) (x : Fin (n + 1) → K) (h : x 0 ≠ 0)
    (hx : nsq (klein x) ≤ 1) : setPoincare (getPoincare r x) = fun i => x i / x 0 := by
  unfold setPoincare getPoincare
  rw [p2k_k2p hr _ hx, ofKlein_klein x h]

/-! ## each model's closed-form metric is the library's `cosh d` -/

theorem metric_hyperboloid (hr : IsSqrt r) (X Y : Fin (n + 1) → K)
    (hX : mink X X = -1) (hY : mink Y Y = -1) : coshDist r X Y = |mink X Y| := by
  have hx := roundtrip_hyperboloid hr X hX
  have hy := roundtrip_hyperboloid hr Y hY
  unfold getHyperboloid at hx hy
  unfold coshDist; rw [hx, hy]

theorem normalize_ofKlein (hr : IsSqrt r) (k : Fin n → K) (hk : nsq k < 1) :
    normalize r (ofKlein k) = fun i => ofKlein k i * (1 / r (1 - nsq k)) := by
  have hm : mink (ofKlein k) (ofKlein k) = -(1 - nsq k) := by rw [mink_ofKlein]; unfold nsq; ring
  have hpos : 0 < 1 - nsq k := by linarith
  have hrp := hr.pos hpos
  unfold normalize
  rw [hm, abs_neg, abs_of_pos hpos, if_neg hrp.ne']
  funext i; field_simp

theorem metric_klein (hr : IsSqrt r) (k l : Fin n → K) (hk : nsq k < 1) (hl : nsq l < 1) :
    coshDist r (setKlein k) (setKlein l)
      = |1 - dot k l| / (r (1 - nsq k) * r (1 - nsq l)) := by
  have hk' := hr.pos (show 0 < 1 - nsq k by linarith)
  have hl' := hr.pos (show 0 < 1 - nsq l by linarith)
  unfold coshDist setKlein
  rw [normalize_ofKlein hr k hk, normalize_ofKlein hr l hl, mink_smul_left, mink_smul_right,
    mink_ofKlein]
  rw [abs_mul, abs_mul, abs_of_pos (by positivity : 0 < 1 / r (1 - nsq k)),
    abs_of_pos (by positivity : 0 < 1 / r (1 - nsq l))]
  have : |(-1 : K) + dot k l| = |1 - dot k l| := by rw [← abs_neg]; congr 1; ring
  rw [this]; field_simp

theorem metric_poincare (hr : IsSqrt r) (p q : Fin n → K) (hp : nsq p < 1) (hq : nsq q < 1) :
    coshDist r (setPoincare p) (setPoincare q)
      = 1 + 2 * nsq (fun i => p i - q i) / ((1 - nsq p) * (1 - nsq q)) := by
  have ha := nsq_nonneg p
  have hb := nsq_nonneg q
  have hd := nsq_nonneg (fun i => p i - q i)
  have h1 : (1 + nsq p) ≠ 0 := by linarith
  have h2 : (1 + nsq q) ≠ 0 := by linarith
  have hkp : nsq (p2k p) < 1 := by
    have := one_sub_nsq_p2k p h1
    have hpos : 0 < ((1 - nsq p) / (1 + nsq p)) ^ 2 := by
      apply pow_pos; apply div_pos <;> linarith
    linarith
  have hkq : nsq (p2k q) < 1 := by
    have := one_sub_nsq_p2k q h2
    have hpos : 0 < ((1 - nsq q) / (1 + nsq q)) ^ 2 := by
      apply pow_pos; apply div_pos <;> linarith
    linarith
  unfold setPoincare
  have := metric_klein hr (p2k p) (p2k q) hkp hkq
  unfold setKlein at this
  rw [this, one_sub_nsq_p2k p h1, one_sub_nsq_p2k q h2,
    hr.sq (div_nonneg (by linarith) (by linarith)), hr.sq (div_nonneg (by linarith) (by linarith))]
  have hdot : dot (p2k p) (p2k q) = 4 * dot p q / ((1 + nsq p) * (1 + nsq q)) := by
    unfold p2k; rw [dot_smul_left, dot_smul_right]; field_simp; ring
  have hsub : nsq (fun i => p i - q i) = nsq p - 2 * dot p q + nsq q := nsq_sub p q
  have hnum : 0 < (1 - nsq p) * (1 - nsq q) + 2 * nsq (fun i => p i - q i) := by
    have : 0 < (1 - nsq p) * (1 - nsq q) := mul_pos (by linarith) (by linarith)
    linarith
  have e : 1 - dot (p2k p) (p2k q)
      = ((1 - nsq p) * (1 - nsq q) + 2 * nsq (fun i => p i - q i)) / ((1 + nsq p) * (1 + nsq q)) := by
    rw [hdot, hsub]; field_simp; ring
  rw [e, abs_of_pos (div_pos hnum (by positivity))]
  have h3 : (1 - nsq p) ≠ 0 := by linarith
  have h4 : (1 - nsq q) ≠ 0 := by linarith
  field_simp

theorem dot_init_last (h g : Fin (n + 1) → K) :
    dot h g = dot (Fin.init h) (Fin.init g) + h (Fin.last n) * g (Fin.last n) := by
  unfold dot; rw [Fin.sum_univ_castSucc]; rfl

theorem dot_zero_tail (p q : Fin (n + 1) → K) :
    dot p q = p 0 * q 0 + dot (Fin.tail p) (Fin.tail q) := by
  unfold dot; rw [Fin.sum_univ_succ]; rfl

/-- half-space model: `cosh d = 1 + |x−y|² / (2 xₙ yₙ)` equals the library's value -/
theorem metric_halfspace (hr : IsSqrt r) (h g : Fin (n + 1) → K)
    (hh : 0 < h (Fin.last n)) (hg : 0 < g (Fin.last n)) :
    coshDist r (setHalfspace h) (setHalfspace g)
      = 1 + nsq (fun i => h i - g i) / (2 * h (Fin.last n) * g (Fin.last n)) := by
  -- scalar data of the two points
  set yh := h (Fin.last n) with hyh
  set yg := g (Fin.last n) with hyg
  set xh := nsq (Fin.init h) with hxh
  set xg := nsq (Fin.init g) with hxg
  set c := dot (Fin.init h) (Fin.init g) with hc
  have hxh0 : 0 ≤ xh := nsq_nonneg _
  have hxg0 : 0 ≤ xg := nsq_nonneg _
  have hDh : 0 < xh + (yh + 1) * (yh + 1) := by nlinarith
  have hDg : 0 < xg + (yg + 1) * (yg + 1) := by nlinarith
  -- components of the Poincaré images
  have tl : ∀ (f : Fin (n + 1) → K), Fin.tail (h2p f)
      = fun i => Fin.init f i * (-2 / (nsq (Fin.init f) + (f (Fin.last n) + 1) * (f (Fin.last n) + 1))) := by
    intro f; unfold h2p; simp only [Fin.tail_cons]; funext i; ring
  have hd : ∀ (f : Fin (n + 1) → K), h2p f 0
      = (nsq (Fin.init f) + f (Fin.last n) * f (Fin.last n) - 1)
        / (nsq (Fin.init f) + (f (Fin.last n) + 1) * (f (Fin.last n) + 1)) := by
    intro f; unfold h2p; simp only [Fin.cons_zero]
  have nh : nsq (h2p h) = ((xh + yh * yh - 1) ^ 2 + 4 * xh) / (xh + (yh + 1) * (yh + 1)) ^ 2 := by
    unfold nsq; rw [dot_zero_tail, tl h, hd h, dot_smul_left, dot_smul_right]
    show _ + _ * (_ * nsq (Fin.init h)) = _
    rw [← hxh, ← hyh]; field_simp; ring
  have ng : nsq (h2p g) = ((xg + yg * yg - 1) ^ 2 + 4 * xg) / (xg + (yg + 1) * (yg + 1)) ^ 2 := by
    unfold nsq; rw [dot_zero_tail, tl g, hd g, dot_smul_left, dot_smul_right]
    show _ + _ * (_ * nsq (Fin.init g)) = _
    rw [← hxg, ← hyg]; field_simp; ring
  have dhg : dot (h2p h) (h2p g)
      = ((xh + yh * yh - 1) * (xg + yg * yg - 1) + 4 * c)
        / ((xh + (yh + 1) * (yh + 1)) * (xg + (yg + 1) * (yg + 1))) := by
    rw [dot_zero_tail, tl h, tl g, hd h, hd g, dot_smul_left, dot_smul_right,
      ← hxh, ← hyh, ← hxg, ← hyg, ← hc]
    field_simp; ring
  have e1 : 1 - nsq (h2p h) = 4 * yh / (xh + (yh + 1) * (yh + 1)) := by
    rw [nh]; field_simp; ring
  have e2 : 1 - nsq (h2p g) = 4 * yg / (xg + (yg + 1) * (yg + 1)) := by
    rw [ng]; field_simp; ring
  have hp : nsq (h2p h) < 1 := by
    have : 0 < 4 * yh / (xh + (yh + 1) * (yh + 1)) := by positivity
    linarith
  have hq : nsq (h2p g) < 1 := by
    have : 0 < 4 * yg / (xg + (yg + 1) * (yg + 1)) := by positivity
    linarith
  have hdiff : nsq (fun i => h i - g i) = xh + yh * yh - 2 * (c + yh * yg) + (xg + yg * yg) := by
    rw [nsq_sub]
    unfold nsq
    rw [dot_init_last h h, dot_init_last g g, dot_init_last h g]
    rfl
  unfold setHalfspace
  have := metric_poincare hr (h2p h) (h2p g) hp hq
  unfold setPoincare at this
  rw [this, nsq_sub, e1, e2, nh, ng, dhg, hdiff]
  have h1 := hh.ne'
  have h2 := hg.ne'
  field_simp
  ring

end generic

/-! ## the reported distance over ℝ: `arccosh` of the (clamped) normalised product -/

section real
variable {n : ℕ}

theorem isSqrt_real : IsSqrt Real.sqrt := fun x hx => ⟨Real.sqrt_nonneg x, Real.mul_self_sqrt hx⟩

/-- `Point.distance` (repaired, D1: the argument of `arccosh` is clamped below at 1) -/
noncomputable def hdist (x y : Fin (n + 1) → ℝ) : ℝ := Real.arcosh (coshDistClamped Real.sqrt x y)

/-- the clamp is a no-op in exact arithmetic on interior points -/
theorem clamp_noop (x y : Fin (n + 1) → ℝ) (hx : mink x x < 0) (hy : mink y y < 0) :
    coshDistClamped Real.sqrt x y = coshDist Real.sqrt x y := by
  unfold coshDistClamped; exact max_eq_right (one_le_coshDist isSqrt_real x y hx hy)

theorem dist_self (x : Fin (n + 1) → ℝ) (hx : mink x x < 0) : hdist x x = 0 := by
  unfold hdist; rw [clamp_noop x x hx hx, coshDist_self isSqrt_real x hx, Real.arcosh_zero]

theorem dist_comm (x y : Fin (n + 1) → ℝ) : hdist x y = hdist y x := by
  unfold hdist coshDistClamped; rw [coshDist_comm]

theorem dist_nonneg (x y : Fin (n + 1) → ℝ) : 0 ≤ hdist x y := by
  unfold hdist coshDistClamped; exact Real.arcosh_nonneg (le_max_left _ _)

/-- the closed forms above give `cosh` of the reported distance -/
theorem cosh_hdist (x y : Fin (n + 1) → ℝ) (hx : mink x x < 0) (hy : mink y y < 0) :
    Real.cosh (hdist x y) = coshDist Real.sqrt x y := by
  unfold hdist
  rw [Real.cosh_arcosh (by unfold coshDistClamped; exact le_max_left _ _), clamp_noop x y hx hy]

/-- distance is projectively well defined: rescaling representatives (any sign) changes nothing -/
theorem hdist_smul (x y : Fin (n + 1) → ℝ) (a b : ℝ) (ha : a ≠ 0) (hb : b ≠ 0)
    (hx : mink x x < 0) (hy : mink y y < 0) :
    hdist (fun i => x i * a) (fun i => y i * b) = hdist x y := by
  have hxa : mink (fun i => x i * a) (fun i => x i * a) < 0 := by
    rw [mink_smul_left, mink_smul_right]; nlinarith [sq_pos_of_ne_zero ha, mul_self_pos.2 ha]
  have hyb : mink (fun i => y i * b) (fun i => y i * b) < 0 := by
    rw [mink_smul_left, mink_smul_right]; nlinarith [sq_pos_of_ne_zero hb, mul_self_pos.2 hb]
  unfold hdist
  rw [clamp_noop _ _ hxa hyb, clamp_noop _ _ hx hy,
    coshDist_timelike isSqrt_real _ _ hxa hyb, coshDist_timelike isSqrt_real _ _ hx hy]
  congr 1
  rw [mink_smul_left, mink_smul_right, mink_smul_left, mink_smul_right, mink_smul_left,
    mink_smul_right]
  have e1 : -(a * (a * mink x x)) = a ^ 2 * (-mink x x) := by ring
  have e2 : -(b * (b * mink y y)) = b ^ 2 * (-mink y y) := by ring
  rw [e1, e2, Real.sqrt_mul (sq_nonneg a), Real.sqrt_mul (sq_nonneg b), Real.sqrt_sq_eq_abs,
    Real.sqrt_sq_eq_abs, abs_mul, abs_mul]
  have := Real.sqrt_pos.2 (neg_pos.2 hx)
  have := Real.sqrt_pos.2 (neg_pos.2 hy)
  have := abs_pos.2 ha
  have := abs_pos.2 hb
  field_simp

/-- triangle inequality for the reported distance on interior points, every dimension -/
theorem dist_triangle (x y z : Fin (n + 1) → ℝ)
    (hx : mink x x < 0) (hy : mink y y < 0) (hz : mink z z < 0) :
    hdist x z ≤ hdist x y + hdist y z := by
  have ha := one_le_coshDist isSqrt_real x y hx hy
  have hc := one_le_coshDist isSqrt_real y z hy hz
  have hb := one_le_coshDist isSqrt_real x z hx hz
  have key := coshDist_triangle x y z hx hy hz
  unfold hdist
  rw [clamp_noop x z hx hz, clamp_noop x y hx hy, clamp_noop y z hy hz]
  set a := coshDist Real.sqrt x y
  set c := coshDist Real.sqrt y z
  set b := coshDist Real.sqrt x z
  have hα := Real.arcosh_nonneg ha
  have hγ := Real.arcosh_nonneg hc
  have hcosh : Real.cosh (Real.arcosh a + Real.arcosh c) = a * c + Real.sqrt (a ^ 2 - 1) * Real.sqrt (c ^ 2 - 1) := by
    rw [Real.cosh_add, Real.cosh_arcosh ha, Real.cosh_arcosh hc, Real.sinh_arcosh ha, Real.sinh_arcosh hc]
  calc Real.arcosh b ≤ Real.arcosh (Real.cosh (Real.arcosh a + Real.arcosh c)) := by
        rw [Real.arcosh_le_arcosh (by linarith) (Real.cosh_pos _), hcosh]; exact key
    _ = Real.arcosh a + Real.arcosh c := Real.arcosh_cosh (by linarith)

end real

/-! ## non-vacuity: concrete instances of the hypotheses -/

/-- a rational point of the open ball in dimension 3 (`|p|² = 3046/11025 < 1`) -/
example : nsq (![1/3, -1/7, 2/5] : Fin 3 → ℚ) ≤ 1 := by
  simp [nsq, dot, Fin.sum_univ_succ]; norm_num

/-- a timelike vector -/
example : mink (![2, 1, 1] : Fin 3 → ℚ) ![2, 1, 1] < 0 := by
  simp [mink, dot, Fin.sum_univ_succ, Fin.tail]; norm_num

end GT.C01
