/- property theorems for C06 (filled in below) -/
