/-
C06 — automaton-driven enumeration returns exactly the accepted words and their images.

Only property theorems and non-vacuity examples live here.  Model: `GT.Model.RepAut`
(`Rep.accepted` = literal recursion of `Representation._automaton_accepted` with the `precomputed`
dict threaded explicitly; `Rep.automatonAccepted` = the public wrapper; `Aut` = label view of an
FSA with the `out_dict`/`in_dict` views the code reads).  Helper lemmas: `GT.Lemmas.RepAut*`.

Vocabulary.  `Rep.accSpec ρ a o L v` is the memo-free specification of the recursion (same
traversal, list of `(word, matrix)` pairs); `Rep.toRes o pairs` packs it the way Python returns it
(`(matrices, words)` or the matrices alone); `Rep.MemoOK ρ a o memo` says every entry of the
`precomputed` dict is the specified value *for these options*; `Rep.startLang a maxlen L v` /
`Rep.endLang a maxlen L v` are the reference path enumerations (label concatenations of all paths
of length `= L` / `≤ L` from `v`, resp. from a start vertex to `v`), so `List.Perm` with them is
"exactly the accepted words, each once per accepting path".

Words are joined with `Rep.joinW` (repaired code): plain concatenation for a `parse_simple`
representation (`joinW_simple`), `"*"`-joined otherwise.  The memo theorems hold for every
representation; the language theorems and `accepted_pairs` carry `hp : ρ.parseSimple = true`;
`accepted_pairs_any` / `accepted_pairs_nonsimple` cover every representation (`parse_simple=False`
included), the words being parsed by the representation's own `parse_word`.
`Rep.automatonAcceptedD` is the public call on a caller-supplied dict (`Rep.PreDict`: recorded
options + memo entries); `Rep.GuardOK` is its invariant (`precomputed_guard_sound`).
-/
import GT.Lemmas.RepAut
import GT.Lemmas.RepAutFreeWords
import GT.Lemmas.RepAutLangStar

set_option linter.unusedSectionVars false

namespace GT.C06
open GT GT.RepW GT.RepW.Rep

variable {V : Type} [DecidableEq V] {n : ℕ} {R : Type} [Inhabited R] [CommRing R]

/-! ## memo -/

/-- **memo soundness and completeness** in one statement: on a `precomputed` dict all of whose
entries are right for these options, the memoised recursion returns exactly what the memo-free
specification returns (same result, or the same exception), and leaves a dict with the same
property — so a dict may be reused across calls with other lengths and states. -/
theorem memo_agrees (ρ : Rep n R) (a : Aut V) (L : Nat) (o : AccOpts) (v : V) (memo : Memo V n R)
    (hm : MemoOK ρ a o memo) :
    Agrees o (MemoOK ρ a o) (ρ.accepted a L o (some v) memo) (ρ.accSpec a o L v) :=
  Rep.accepted_agrees ρ a L o v memo hm

theorem memo_sound (ρ : Rep n R) (a : Aut V) (L : Nat) (o : AccOpts) (v : V)
    (memo memo' : Memo V n R) (res : AccRes n R) (hm : MemoOK ρ a o memo)
    (h : ρ.accepted a L o (some v) memo = .ok (res, memo')) :
    (∃ pairs, ρ.accSpec a o L v = .ok pairs ∧ res = toRes o pairs) ∧ MemoOK ρ a o memo' :=
  Rep.memo_sound ρ a L o v memo memo' res hm h

theorem memo_complete (ρ : Rep n R) (a : Aut V) (L : Nat) (o : AccOpts) (v : V)
    (memo : Memo V n R) (pairs : List (String × DMat n n R)) (hm : MemoOK ρ a o memo)
    (h : ρ.accSpec a o L v = .ok pairs) :
    ∃ memo', ρ.accepted a L o (some v) memo = .ok (toRes o pairs, memo') ∧ MemoOK ρ a o memo' :=
  Rep.memo_complete ρ a L o v memo pairs hm h

/-- `state=None` (default start vertex) -/
theorem memo_sound_none (ρ : Rep n R) (a : Aut V) (L : Nat) (o : AccOpts)
    (memo memo' : Memo V n R) (res : AccRes n R)
    (hm : MemoOK ρ a { o with asStart := true } memo)
    (h : ρ.accepted a L o none memo = .ok (res, memo')) :
    (∃ pairs, ρ.accSpecO a { o with asStart := true } L none = .ok pairs ∧
        res = toRes o pairs) ∧ MemoOK ρ a { o with asStart := true } memo' :=
  Rep.memo_sound_none ρ a L o memo memo' res hm h

/-- the empty dict (`precomputed=None`) is sound -/
theorem memo_empty (ρ : Rep n R) (a : Aut V) (o : AccOpts) : MemoOK ρ a o [] := Rep.memoOK_nil ρ a o

/-- the public wrapper `automaton_accepted` (all choices of `start_state` / `end_state`; both
given ⇒ `ValueError`) agrees with the specification on every sound dict -/
theorem automatonAccepted_agrees (ρ : Rep n R) (a : Aut V) (L : Nat) (maxlen withWords : Bool)
    (startState endState : Option V) (memo : Memo V n R) (edgeWords : Bool)
    (hm : MemoOK ρ a (topOpts maxlen withWords endState edgeWords) memo) :
    Agrees (topOpts maxlen withWords endState edgeWords)
      (MemoOK ρ a (topOpts maxlen withWords endState edgeWords))
      (ρ.automatonAccepted a L maxlen withWords startState endState memo edgeWords)
      (ρ.topSpec a L maxlen withWords startState endState edgeWords) :=
  Rep.automatonAccepted_agrees ρ a L maxlen withWords startState endState memo edgeWords hm

/-- words of a `parse_simple` representation are concatenated -/
theorem joinW_simple (ρ : Rep n R) (hp : ρ.parseSimple = true) (w1 w2 : String) :
    ρ.joinW w1 w2 = w1 ++ w2 := Rep.joinW_simple hp w1 w2

/-! ## the options guard of a caller-supplied `precomputed` dict -/

/-- the empty dict `{}` satisfies the invariant -/
theorem guard_empty (ρ : Rep n R) (a : Aut V) : GuardOK ρ a ({} : PreDict V n R) :=
  Rep.guard_empty ρ a

/-- **`precomputed_guard_sound`**: on a dict satisfying the invariant (in particular one that
started empty and was only ever passed to `automaton_accepted`), a public call with *any*
options keeps the invariant, and every value it returns is the specified one for the options of
this call (calls with other options than the recorded ones raise, `precomputed_guard_refuses`).
Retires the finding "memo key ignores the options". -/
theorem precomputed_guard_sound (ρ : Rep n R) (a : Aut V) (L : Nat) (maxlen withWords : Bool)
    (startState endState : Option V) (d : PreDict V n R) (edgeWords : Bool)
    (hd : GuardOK ρ a d) :
    GuardOK ρ a (ρ.automatonAcceptedD a L maxlen withWords startState endState d edgeWords).2 ∧
    ∀ res, (ρ.automatonAcceptedD a L maxlen withWords startState endState d edgeWords).1 =
        .ok res →
      ∃ pairs, ρ.topSpec a L maxlen withWords startState endState edgeWords = .ok pairs ∧
        res = toRes (topOpts maxlen withWords endState edgeWords) pairs :=
  Rep.precomputed_guard_sound ρ a L maxlen withWords startState endState d edgeWords hd

/-- any sequence `cs` of public calls (`Rep.Call`: length, options, states) sharing one dict
(`Rep.runCalls`) that satisfied the invariant at the start, e.g. `{}`: every value returned by
every call is the specified one for that call's options (`Rep.CallOK`) -/
theorem precomputed_guard_calls (ρ : Rep n R) (a : Aut V) (cs : List (Call V))
    (d : PreDict V n R) (hd : GuardOK ρ a d) :
    GuardOK ρ a (ρ.runCalls a cs d).2 ∧ List.Forall₂ (CallOK ρ a) cs (ρ.runCalls a cs d).1 :=
  Rep.precomputed_guard_calls ρ a cs d hd

/-- a dict that recorded other options is refused with `ValueError` and left unchanged -/
theorem precomputed_guard_refuses (ρ : Rep n R) (a : Aut V) (L : Nat) (maxlen withWords : Bool)
    (startState endState : Option V) (d : PreDict V n R) (edgeWords : Bool)
    (o' : Bool × Bool × Bool × Bool) (ho : d.options = some o')
    (hne : o' ≠ (endState.isNone, maxlen, withWords, edgeWords)) :
    ρ.automatonAcceptedD a L maxlen withWords startState endState d edgeWords =
      (.error "ValueError", d) :=
  Rep.precomputed_guard_refuses ρ a L maxlen withWords startState endState d edgeWords o' ho hne

/-! ## matrices are the images of the words -/

/-- every pair `(w, M)` of the specification has `M = ρ(w)` — labels read as words
(`edge_words=True`, `labelOK_of_edgeWords`) or as single generators (`edge_words=False`,
`labelOK_of_single`) -/
theorem accepted_pairs_spec (ρ : Rep n R) (a : Aut V) (o : AccOpts) (hp : ρ.parseSimple = true)
    (hL : LabelOK ρ o) (L : Nat) (v : V)
    (pairs : List (String × DMat n n R)) (h : ρ.accSpec a o L v = .ok pairs) :
    ∀ sM ∈ pairs, ρ.value (parseWord true sM.1) = .ok sM.2.toMatrix :=
  Rep.accSpec_pairs ρ a o hp hL L v pairs h

/-- **`accepted_pairs`**: what `_automaton_accepted(..., with_words=True)` returns on a sound dict:
the k-th matrix is, entry by entry, the image of the k-th word -/
theorem accepted_pairs (ρ : Rep n R) (a : Aut V) (L : Nat) (o : AccOpts) (v : V)
    (memo memo' : Memo V n R) (res : AccRes n R) (hp : ρ.parseSimple = true) (hL : LabelOK ρ o)
    (hw : o.withWords = true)
    (hm : MemoOK ρ a o memo) (h : ρ.accepted a L o (some v) memo = .ok (res, memo')) :
    List.Forall₂ (fun s M => ρ.value (parseWord true s) = .ok (DMat.toMatrix M)) res.words res.mats :=
  Rep.accepted_pairs ρ a L o v memo memo' res hp hL hw hm h

/-- the same for the public wrapper, every choice of start / end state -/
theorem automatonAccepted_pairs (ρ : Rep n R) (a : Aut V) (L : Nat) (maxlen : Bool)
    (startState endState : Option V) (memo memo' : Memo V n R) (edgeWords : Bool)
    (res : AccRes n R) (hp : ρ.parseSimple = true)
    (hL : LabelOK ρ (topOpts maxlen true endState edgeWords))
    (hm : MemoOK ρ a (topOpts maxlen true endState edgeWords) memo)
    (h : ρ.automatonAccepted a L maxlen true startState endState memo edgeWords = .ok (res, memo')) :
    List.Forall₂ (fun s M => ρ.value (parseWord true s) = .ok (DMat.toMatrix M)) res.words res.mats :=
  Rep.automatonAccepted_pairs ρ a L maxlen startState endState memo memo' edgeWords res hp hL hm h

/-! ### every representation (`parse_simple=False`: words joined with `"*"`) -/

/-- parsing a joined word gives the concatenation of the parsed parts, with
`simple = self.parse_simple` (for `parse_simple=False`: `parse_word(a + "*" + b) = parse_word(a) +
parse_word(b)`, empty tokens being dropped) -/
theorem parseWord_joinW (ρ : Rep n R) (w1 w2 : String) :
    parseWord ρ.parseSimple (ρ.joinW w1 w2) =
      parseWord ρ.parseSimple w1 ++ parseWord ρ.parseSimple w2 := Rep.parseWord_joinW ρ w1 w2

/-- every pair `(w, M)` of the specification has `M = ρ(parse_word(w))`, the word parsed the way
the representation parses words — any representation -/
theorem accepted_pairs_spec_any (ρ : Rep n R) (a : Aut V) (o : AccOpts) (hL : LabelOKg ρ o)
    (L : Nat) (v : V) (pairs : List (String × DMat n n R)) (h : ρ.accSpec a o L v = .ok pairs) :
    ∀ sM ∈ pairs, ρ.value (parseWord ρ.parseSimple sM.1) = .ok sM.2.toMatrix :=
  Rep.accSpec_pairs_g ρ a o hL L v pairs h

/-- … and of what `_automaton_accepted(..., with_words=True)` returns on a sound dict -/
theorem accepted_pairs_any (ρ : Rep n R) (a : Aut V) (L : Nat) (o : AccOpts) (v : V)
    (memo memo' : Memo V n R) (res : AccRes n R) (hL : LabelOKg ρ o) (hw : o.withWords = true)
    (hm : MemoOK ρ a o memo) (h : ρ.accepted a L o (some v) memo = .ok (res, memo')) :
    List.Forall₂ (fun s M => ρ.value (parseWord ρ.parseSimple s) = .ok (DMat.toMatrix M))
      res.words res.mats :=
  Rep.accepted_pairs_g ρ a L o v memo memo' res hL hw hm h

/-- the public wrapper, every choice of start / end state, any representation -/
theorem automatonAccepted_pairs_any (ρ : Rep n R) (a : Aut V) (L : Nat) (maxlen : Bool)
    (startState endState : Option V) (memo memo' : Memo V n R) (edgeWords : Bool)
    (res : AccRes n R) (hL : LabelOKg ρ (topOpts maxlen true endState edgeWords))
    (hm : MemoOK ρ a (topOpts maxlen true endState edgeWords) memo)
    (h : ρ.automatonAccepted a L maxlen true startState endState memo edgeWords = .ok (res, memo')) :
    List.Forall₂ (fun s M => ρ.value (parseWord ρ.parseSimple s) = .ok (DMat.toMatrix M))
      res.words res.mats :=
  Rep.automatonAccepted_pairs_g ρ a L maxlen startState endState memo memo' edgeWords res hL hm h

/-- **`accepted_pairs` for `parse_simple=False`**: if every edge label that has an edge element
evaluates (as a `"*"`-separated word) to that element, the k-th matrix returned is the image of
the k-th returned (`"*"`-joined) word -/
theorem accepted_pairs_nonsimple (ρ : Rep n R) (a : Aut V) (L : Nat) (o : AccOpts) (v : V)
    (memo memo' : Memo V n R) (res : AccRes n R) (hp : ρ.parseSimple = false)
    (hL : ∀ l A, ρ.edgeElt o l = .ok A → ρ.value (parseWord false l) = .ok A.toMatrix)
    (hw : o.withWords = true) (hm : MemoOK ρ a o memo)
    (h : ρ.accepted a L o (some v) memo = .ok (res, memo')) :
    List.Forall₂ (fun s M => ρ.value (parseWord false s) = .ok (DMat.toMatrix M))
      res.words res.mats :=
  Rep.accepted_pairs_nonsimple ρ a L o v memo memo' res hp hL hw hm h

/-- the label hypothesis is automatic for `edge_words=True`, whatever `parse_simple` -/
theorem labelOKg_edgeWords (ρ : Rep n R) (o : AccOpts) (he : o.edgeWords = true) : LabelOKg ρ o :=
  Rep.labelOKg_of_edgeWords ρ o he

/-- `edge_words=False`, `parse_simple=False`: it holds when every generator name passed the checks
of `_set_generator` (non-empty, none of `( ) *`) -/
theorem labelOKg_validNames (ρ : Rep n R) (o : AccOpts) (hp : ρ.parseSimple = false)
    (he : o.edgeWords = false) (h1 : ∀ g ∈ ρ.gens.map Prod.fst, validName g = true) :
    LabelOKg ρ o := Rep.labelOKg_of_validNames ρ o hp he h1

/-- `with_words=False` returns the very same matrices (fresh dict) -/
theorem accepted_mats_withWords_irrel (ρ : Rep n R) (a : Aut V) (L : Nat) (o : AccOpts) (v : V)
    (b : Bool) (m1 m2 : Memo V n R) (r1 r2 : AccRes n R)
    (h1 : ρ.accepted a L o (some v) [] = .ok (r1, m1))
    (h2 : ρ.accepted a L { o with withWords := b } (some v) [] = .ok (r2, m2)) :
    r2.mats = r1.mats :=
  Rep.accepted_mats_withWords_irrel ρ a L o v b m1 m2 r1 r2 h1 h2

theorem labelOK_edgeWords (ρ : Rep n R) (o : AccOpts) (hp : ρ.parseSimple = true)
    (he : o.edgeWords = true) : LabelOK ρ o := Rep.labelOK_of_edgeWords ρ o hp he

theorem labelOK_single (ρ : Rep n R) (o : AccOpts) (he : o.edgeWords = false)
    (h1 : ∀ g ∈ ρ.gens.map Prod.fst, ∃ c : Char, g = String.ofList [c]) : LabelOK ρ o :=
  Rep.labelOK_of_single ρ o he h1

/-- "edge labels read as words or as single generators": what each mode looks up for a label -/
theorem edgeElt_words (ρ : Rep n R) (o : AccOpts) (h : o.edgeWords = true) (l : String) :
    ρ.edgeElt o l = ρ.wordValueS l := by
  unfold Rep.edgeElt; rw [h]; rfl

theorem edgeElt_single (ρ : Rep n R) (o : AccOpts) (h : o.edgeWords = false) (l : String) :
    ρ.edgeElt o l = ρ.gen l := by
  unfold Rep.edgeElt; rw [h]; rfl

/-! ## the returned words are the accepted words, once per accepting path -/

/-- from a start state: words of all paths of length `= L` (`maxlen=False`) / `≤ L` (`maxlen=True`) -/
theorem accepted_words_start (ρ : Rep n R) (hp : ρ.parseSimple = true) (a : Aut V) (o : AccOpts) (h1 : o.asStart = true)
    (L : Nat) (v : V) (pairs : List (String × DMat n n R)) (h : ρ.accSpec a o L v = .ok pairs) :
    (pairs.map Prod.fst).Perm (startLang a o.maxlen L v) :=
  Rep.accepted_words_start ρ hp a o h1 L v pairs h

/-- towards an end state: words of all paths from a start vertex to that state (repaired code:
no early return for states without incoming edges) -/
theorem accepted_words_end (ρ : Rep n R) (hp : ρ.parseSimple = true) (a : Aut V) (hwf : a.WF) (o : AccOpts)
    (h1 : o.asStart = false) (L : Nat) (v : V) (pairs : List (String × DMat n n R))
    (h : ρ.accSpec a o L v = .ok pairs) : (pairs.map Prod.fst).Perm (endLang a o.maxlen L v) :=
  Rep.accepted_words_end ρ hp a hwf o h1 L v pairs h

/-- agreement with the automaton's own `enumerate_words` / `enumerate_fixed_length_paths` -/
theorem accepted_eq_enumerate (ρ : Rep n R) (hp : ρ.parseSimple = true) (a : Aut V) (o : AccOpts) (h1 : o.asStart = true)
    (h2 : o.maxlen = true) (L : Nat) (v : V) (pairs : List (String × DMat n n R))
    (ws : List (String × V)) (h : ρ.accSpec a o L v = .ok pairs)
    (he : a.enumWords v L = .ok ws) : (pairs.map Prod.fst).Perm (ws.map Prod.fst) :=
  Rep.accepted_eq_enumerate ρ hp a o h1 h2 L v pairs ws h he

theorem accepted_eq_enumFixed (ρ : Rep n R) (hp : ρ.parseSimple = true) (a : Aut V) (o : AccOpts) (h1 : o.asStart = true)
    (h2 : o.maxlen = false) (L : Nat) (v : V) (pairs : List (String × DMat n n R))
    (ws : List (String × V)) (h : ρ.accSpec a o L v = .ok pairs)
    (he : a.enumFixed v L = .ok ws) : (pairs.map Prod.fst).Perm (ws.map Prod.fst) :=
  Rep.accepted_eq_enumFixed ρ hp a o h1 h2 L v pairs ws h he

/-- the public wrapper, `with_words=True`, start direction (explicit `start_state` or the default
start vertex), any sound dict -/
theorem automatonAccepted_words_start (ρ : Rep n R) (hp : ρ.parseSimple = true) (a : Aut V) (L : Nat) (maxlen : Bool)
    (startState : Option V) (memo memo' : Memo V n R) (edgeWords : Bool) (res : AccRes n R)
    (s : V) (hs : (startState <|> a.starts.head?) = some s)
    (hm : MemoOK ρ a (topOpts maxlen true (none : Option V) edgeWords) memo)
    (h : ρ.automatonAccepted a L maxlen true startState none memo edgeWords = .ok (res, memo')) :
    res.words.Perm (startLang a maxlen L s) :=
  Rep.automatonAccepted_words_start ρ hp a L maxlen startState memo memo' edgeWords res s hs hm h

/-- the public wrapper, `end_state=e` -/
theorem automatonAccepted_words_end (ρ : Rep n R) (hp : ρ.parseSimple = true) (a : Aut V) (hwf : a.WF) (L : Nat)
    (maxlen : Bool) (e : V) (memo memo' : Memo V n R) (edgeWords : Bool) (res : AccRes n R)
    (hm : MemoOK ρ a (topOpts maxlen true (some e) edgeWords) memo)
    (h : ρ.automatonAccepted a L maxlen true none (some e) memo edgeWords = .ok (res, memo')) :
    res.words.Perm (endLang a maxlen L e) :=
  Rep.automatonAccepted_words_end ρ hp a hwf L maxlen e memo memo' edgeWords res hm h

theorem automatonAccepted_eq_enumerate (ρ : Rep n R) (hp : ρ.parseSimple = true) (a : Aut V) (L : Nat)
    (startState : Option V) (memo memo' : Memo V n R) (edgeWords : Bool) (res : AccRes n R)
    (s : V) (hs : (startState <|> a.starts.head?) = some s) (ws : List (String × V))
    (hm : MemoOK ρ a (topOpts true true (none : Option V) edgeWords) memo)
    (h : ρ.automatonAccepted a L true true startState none memo edgeWords = .ok (res, memo'))
    (he : a.enumWords s L = .ok ws) : res.words.Perm (ws.map Prod.fst) :=
  Rep.automatonAccepted_eq_enumerate ρ hp a L startState memo memo' edgeWords res s hs ws hm h he

/-- the language statements for EVERY representation (no `parse_simple` hypothesis): the returned
words are the labels of the paths combined with `Representation._join_words` (`Rep.joinW`:
concatenation for `parse_simple`, `"*"`-join otherwise), one per path; `startLangJ` / `endLangJ` are the
reference path enumerations over that join, and `startLangJ (· ++ ·) = startLang` -/
theorem accepted_words_start_any (ρ : Rep n R) (a : Aut V) (o : AccOpts) (h1 : o.asStart = true)
    (L : Nat) (v : V) (pairs : List (String × DMat n n R)) (h : ρ.accSpec a o L v = .ok pairs) :
    (pairs.map Prod.fst).Perm (startLangJ ρ.joinW a o.maxlen L v) :=
  Rep.accepted_words_startJ ρ a o h1 L v pairs h

theorem accepted_words_end_any (ρ : Rep n R) (a : Aut V) (hwf : a.WF) (o : AccOpts)
    (h1 : o.asStart = false) (L : Nat) (v : V) (pairs : List (String × DMat n n R))
    (h : ρ.accSpec a o L v = .ok pairs) : (pairs.map Prod.fst).Perm (endLangJ ρ.joinW a o.maxlen L v) :=
  Rep.accepted_words_endJ ρ a hwf o h1 L v pairs h

theorem automatonAccepted_words_start_any (ρ : Rep n R) (a : Aut V) (L : Nat) (maxlen : Bool)
    (startState : Option V) (memo memo' : Memo V n R) (edgeWords : Bool) (res : AccRes n R)
    (s : V) (hs : (startState <|> a.starts.head?) = some s)
    (hm : MemoOK ρ a (topOpts maxlen true (none : Option V) edgeWords) memo)
    (h : ρ.automatonAccepted a L maxlen true startState none memo edgeWords = .ok (res, memo')) :
    res.words.Perm (startLangJ ρ.joinW a maxlen L s) :=
  Rep.automatonAccepted_words_startJ ρ a L maxlen startState memo memo' edgeWords res s hs hm h

theorem automatonAccepted_words_end_any (ρ : Rep n R) (a : Aut V) (hwf : a.WF) (L : Nat)
    (maxlen : Bool) (e : V) (memo memo' : Memo V n R) (edgeWords : Bool) (res : AccRes n R)
    (hm : MemoOK ρ a (topOpts maxlen true (some e) edgeWords) memo)
    (h : ρ.automatonAccepted a L maxlen true none (some e) memo edgeWords = .ok (res, memo')) :
    res.words.Perm (endLangJ ρ.joinW a maxlen L e) :=
  Rep.automatonAccepted_words_endJ ρ a hwf L maxlen e memo memo' edgeWords res hm h

theorem joinW_laws (ρ : Rep n R) : JoinLaws ρ.joinW := Rep.joinLaws_joinW ρ

theorem startLangJ_append (a : Aut V) (maxlen : Bool) (L : Nat) (v : V) :
    startLangJ (· ++ ·) a maxlen L v = startLang a maxlen L v := Rep.startLangJ_append a maxlen L v

/-- the reference enumeration is the literal `enumerate_fixed_length_paths` -/
theorem enumFixed_eq_paths (a : Aut V) (s : V) (k : Nat) (xs : List (String × V))
    (h : a.enumFixed s k = .ok xs) : xs = a.pathsFrom k s := Aut.enumFixed_eq a s k xs h

/-! ## when exceptions are raised -/

/-- start direction: a value exists for every vertex of the automaton when every label has an image -/
theorem accSpec_total_start (ρ : Rep n R) (a : Aut V) (o : AccOpts) (h1 : o.asStart = true)
    (hlab : LabelsDefined ρ a o) (L : Nat) (v : V) (hv : v ∈ a.vertices) :
    ∃ pairs, ρ.accSpec a o L v = .ok pairs := Rep.accSpec_total_start ρ a o h1 hlab L v hv

/-- … and `KeyError` for a start state that is not a vertex (length ≥ 1) -/
theorem accSpec_keyError (ρ : Rep n R) (a : Aut V) (o : AccOpts) (h1 : o.asStart = true) (k : Nat) (v : V)
    (hv : v ∉ a.vertices) : ρ.accSpec a o (k + 1) v = .error "KeyError" :=
  Rep.accSpec_keyError ρ a o h1 k v hv

/-- end direction: always a value (`in_dict` is a `defaultdict`) -/
theorem accSpec_total_end (ρ : Rep n R) (a : Aut V) (o : AccOpts) (h1 : o.asStart = false)
    (hlab : LabelsDefined ρ a o) (L : Nat) (v : V) : ∃ pairs, ρ.accSpec a o L v = .ok pairs :=
  Rep.accSpec_total_end ρ a o h1 hlab L v

/-! ## free groups -/

/-- **`free_language`**: the paths of length `k` from the start state of `free_automaton(gs)` spell
exactly the freely reduced words of length `k` over `gs ∪ gs⁻¹` -/
theorem free_language {gs : List Gen} (h : FreeOK gs) (k : Nat) (w : List Gen) :
    w ∈ freePaths (freeGens gs) k "" ↔
      w.length = k ∧ (∀ g ∈ w, g ∈ freeGens gs) ∧ simplifyWord invertGen w = w :=
  RepW.free_language h k w

/-- the same on Python strings (single-character generator names), -/
theorem free_pathWords_mem {gs : List Gen} (h : FreeOK gs) (hs : SingleChar (freeGens gs))
    (k : Nat) (s : String) :
    s ∈ (freeAutomaton gs).pathWords k "" ↔ s.length = k ∧ IsReducedWord gs s :=
  RepW.free_pathWords_mem h hs k s

/-- `freely_reduced_elements(L, maxlen, with_words=True)` returns each freely reduced word of
length `= L` / `≤ L` exactly once, paired with its image -/
theorem freelyReducedElements_spec (ρ : Rep n R) (L : Nat) (maxlen : Bool) (res : AccRes n R)
    (hp : ρ.parseSimple = true) (h : ρ.freelyReducedElements L maxlen true = .ok res)
    (hok : FreeOK ρ.asymGens) (hs : SingleChar (freeGens ρ.asymGens)) :
    res.words.Nodup ∧
    (∀ s, s ∈ res.words ↔
      (if maxlen then s.length ≤ L else s.length = L) ∧ IsReducedWord ρ.asymGens s) ∧
    List.Forall₂ (fun s M => ρ.value (parseWord true s) = .ok (DMat.toMatrix M))
      res.words res.mats :=
  Rep.freelyReducedElements_spec ρ L maxlen res hp h hok hs

/-- `free_words_of_length(k)` yields exactly the freely reduced words of length `k` over the stored
letters (one-character generator names), each once -/
theorem freeWordsOfLength_spec (ρ : Rep n R) (hs : SingleChar (ρ.gens.map Prod.fst))
    (hnd : (ρ.gens.map Prod.fst).Nodup) (k : Nat) :
    (ρ.freeWordsOfLength k).Nodup ∧ ∀ s, s ∈ ρ.freeWordsOfLength k ↔ s.length = k ∧
      (∀ g ∈ parseWord true s, g ∈ ρ.gens.map Prod.fst) ∧
      simplifyWord invertGen (parseWord true s) = parseWord true s :=
  ⟨Rep.freeWordsOfLength_nodup ρ hs hnd k, fun s => Rep.freeWordsOfLength_mem ρ hs k s⟩

/-- `free_words_less_than(L)` yields exactly the freely reduced words of length `< L` (what the code
does; the docstring's "inclusive" is wrong), each once -/
theorem freeWordsLessThan_spec (ρ : Rep n R) (hs : SingleChar (ρ.gens.map Prod.fst))
    (hnd : (ρ.gens.map Prod.fst).Nodup) (L : Nat) :
    (ρ.freeWordsLessThan L).Nodup ∧ ∀ s, s ∈ ρ.freeWordsLessThan L ↔ s.length < L ∧
      (∀ g ∈ parseWord true s, g ∈ ρ.gens.map Prod.fst) ∧
      simplifyWord invertGen (parseWord true s) = parseWord true s :=
  ⟨Rep.freeWordsLessThan_nodup ρ hs hnd L, fun s => Rep.freeWordsLessThan_mem ρ hs L s⟩

/-! ## non-vacuity (concrete automaton `0 -a→ 1 -a→ 1 -b→ 0`, `SL(2,ℤ)` matrices) -/

section examples
open RepAutExamples

example : MemoOK r0 a0 {} [] := memo_empty _ _ _
example : (r0.accSpec a0 {} 2 0).isOk = true := by decide
example : (r0.accSpec a0 { asStart := false, maxlen := false } 2 1).isOk = true := by decide
example : LabelOK r0 { withWords := true } := labelOK_edgeWords r0 _ rfl rfl
example : a0.WF := ⟨by decide, by decide⟩
example : startLang a0 true 2 0 = ["", "a", "aa", "ab"] := by decide
example : endLang a0 true 3 0 = ["", "ab", "aab"] := by decide
example : (a0.enumWords 0 2).isOk = true := by decide
example : FreeOK ["a", "b"] := ⟨by decide, by decide, by decide⟩
example : ((r1.freelyReducedElements 2 true true).toOption.map fun r => r.words) =
    some ["", "a", "aa", "A", "AA"] := by decide

/-- the guard at work: a dict filled by a `maxlen=True` call records its options; reusing it with
`maxlen=False` raises `ValueError`, reusing it with the same options is served -/
example :
    let d := (r0.automatonAcceptedD a0 2 true true (some 0) none {} true).2
    d.options = some (true, true, true, true) ∧ d.memo.length = 2 ∧
    errOf (r0.automatonAcceptedD a0 2 false true (some 0) none d true).1 = some "ValueError" ∧
    ((r0.automatonAcceptedD a0 1 true true (some 1) none d true).1.toOption.map (·.words)) =
      some ["", "a", "b"] := by
  decide
example : ((r0.runCalls a0 [⟨2, true, true, some 0, none, true⟩, ⟨2, false, true, some 0, none, true⟩,
    ⟨1, true, true, some 1, none, true⟩] {}).1.map errOf) = [none, some "ValueError", none] := by
  decide
example : GuardOK r0 a0 (r0.automatonAcceptedD a0 2 true true (some 0) none {} true).2 :=
  (precomputed_guard_sound r0 a0 2 true true (some 0) none {} true (guard_empty _ _)).1

example : LabelOKg r0ns { withWords := true, edgeWords := false } :=
  labelOKg_validNames r0ns _ rfl rfl (by decide)
example : LabelOKg r0ns { withWords := true } := labelOKg_edgeWords r0ns _ rfl

/-- `parse_simple=False`: the words are joined with `"*"` -/
example : ((r0ns.accepted a0 2 { withWords := true } (some 0) []).toOption.map (·.1.words)) =
    some ["", "a", "a*a", "a*b"] := by decide

/-- why the guard exists: at the level of the inner recursion `_automaton_accepted` the dict is
only sound for the options it was filled under (former defect D12; the key is `(length, state)`
only): a dict filled by a `maxlen=True` call makes a `maxlen=False` call return the `maxlen=True`
answer -/
example :
    let m := ((r0.accepted a0 2 { withWords := true } (some 0) []).toOption.map (·.2)).getD []
    ((r0.accepted a0 2 { withWords := true, maxlen := false } (some 0) m).toOption.map
        (·.1.words)) = some ["", "a", "aa", "ab"] ∧
    ((r0.accepted a0 2 { withWords := true, maxlen := false } (some 0) []).toOption.map
        (·.1.words)) = some ["aa", "ab"] := by
  decide

end examples

end GT.C06
