/- property theorems for C08 (filled in below) -/
