/-
C08 — Coxeter group representations satisfy the relations and preserve the form.
Only property theorems and non-vacuity examples live here; helper lemmas are in
`GT.Lemmas.Coxeter`.  Model: `GT.Model.Coxeter` (`refl`, `geomRep`, `canonRep`, `hypRep`,
`cosineForm`, `wordProd`).

Every theorem is for every rank `n`.  The algebraic ones hold over every commutative ring
(so in particular over ℝ, over ℚ where the driver executes the same definitions, and over the
float-converted cosines the correspondence feeds in); the statements that mention
`cos(π/m)` are over ℝ.
-/
import GT.Lemmas.Coxeter
import Mathlib.Tactic.NormNum
import Mathlib.Tactic.FinCases
import Mathlib.Analysis.SpecialFunctions.Trigonometric.Inverse
import Mathlib.Analysis.SpecialFunctions.Sqrt
import Mathlib.Tactic.Positivity

open Matrix Finset

namespace GT.C08
open GT.Cox

section ring
variable {R : Type*} [CommRing R] {n : ℕ}

/-! ## generators are involutions -/

/-- `(refl C i)² = 1` for every Cartan matrix (`C_ii = 2`): every generator of
`cartan_representation`, hence of `tits_vinberg_rep`, is an involution -/
theorem refl_sq (C : Matrix (Fin n) (Fin n) R) (i : Fin n) (h : C i i = 2) :
    refl C i * refl C i = 1 := refl_sq' C i h

/-- generators of the geometric representation are involutions (`B_ii = 1`) -/
theorem geomRep_sq (B : Matrix (Fin n) (Fin n) R) (i : Fin n) (h : B i i = 1) :
    geomRep B i * geomRep B i = 1 :=
  refl_sq' _ i (by simp [h])

/-- a generator is a reflection: determinant `-1` -/
theorem refl_det (C : Matrix (Fin n) (Fin n) R) (i : Fin n) (h : C i i = 2) :
    (refl C i).det = -1 := by rw [det_refl, h]; ring

/-- a generator negates `e_i` and fixes the hyperplane `{v | C_i · v = 0}` pointwise -/
theorem refl_reflection (C : Matrix (Fin n) (Fin n) R) (i : Fin n) (h : C i i = 2) :
    refl C i *ᵥ Pi.single i 1 = -Pi.single i 1 ∧
      ∀ v : Fin n → R, C i ⬝ᵥ v = 0 → refl C i *ᵥ v = v := by
  refine ⟨?_, fun v hv => ?_⟩
  · rw [refl_mulVec, row_dot_single, h]; module
  · rw [refl_mulVec, hv]; simp

/-! ## the geometric representation preserves the cosine form -/

/-- `sᵢᵀ · B · sᵢ = B` for symmetric `B` with `B_ii = 1` -/
theorem geom_preserves (B : Matrix (Fin n) (Fin n) R) (i : Fin n) (hs : Bᵀ = B) (hd : B i i = 1) :
    (geomRep B i)ᵀ * B * geomRep B i = B := geom_preserves' B i hs hd

/-- … hence so does the image of every word (`Representation._word_value`) -/
theorem geom_preserves_word (B : Matrix (Fin n) (Fin n) R) (hs : Bᵀ = B) (hd : ∀ i, B i i = 1)
    (w : List (Fin n)) : (wordProd (geomRep B) w)ᵀ * B * wordProd (geomRep B) w = B := by
  unfold wordProd
  suffices ∀ acc : Matrix (Fin n) (Fin n) R, accᵀ * B * acc = B →
      (w.foldl (fun acc g => acc * geomRep B g) acc)ᵀ * B * w.foldl (fun acc g => acc * geomRep B g) acc = B by
    exact this 1 (by simp)
  induction w with
  | nil => intro acc h; exact h
  | cons g w ih =>
    intro acc h
    apply ih
    rw [transpose_mul]
    calc (geomRep B g)ᵀ * accᵀ * B * (acc * geomRep B g)
        = (geomRep B g)ᵀ * (accᵀ * B * acc) * geomRep B g := by simp only [mul_assoc]
      _ = B := by rw [h, geom_preserves B g hs (hd g)]

/-- the cosine matrix of a Coxeter matrix is symmetric with unit diagonal
(`cs x` stands for `cos(π/x)`; only `cos π = -1` is used) -/
theorem cosineForm_symm_diag (cs : ℚ → R) (M : Matrix (Fin n) (Fin n) ℤ) (hM : Mᵀ = M)
    (hd : ∀ i, M i i = 1) (h1 : cs 1 = -1) :
    (cosineForm cs M)ᵀ = cosineForm cs M ∧ ∀ i, cosineForm cs M i i = 1 := by
  constructor
  · ext i j
    have : M j i = M i j := congrFun (congrFun hM i) j
    simp [cosineForm, this]
  · intro i; simp [cosineForm, hd i, h1]

/-! ## the canonical representation is the dual of the geometric one -/

/-- `canonical_representation()[w] = ((geometric_representation()[w])ᵀ)⁻¹` for every word -/
theorem canon_is_dual (B : Matrix (Fin n) (Fin n) R) (w : List (Fin n)) :
    wordProd (canonRep B) w = dualMat (wordProd (geomRep B) w) :=
  wordProd_map_hom dualMat dualMat_one dualMat_mul (geomRep B) w

/-- the dual generator is the transpose (a generator is its own inverse); this is the form
the driver executes -/
theorem canonRep_eq_transpose (B : Matrix (Fin n) (Fin n) R) (i : Fin n) (h : B i i = 1) :
    canonRep B i = (geomRep B i)ᵀ := by
  unfold canonRep dualMat
  apply Matrix.inv_eq_left_inv
  rw [← transpose_mul, geomRep_sq B i h, transpose_one]

/-- any relation `ρ(w) = 1` of the geometric representation holds in the canonical one -/
theorem canon_relation (B : Matrix (Fin n) (Fin n) R) (w : List (Fin n))
    (h : wordProd (geomRep B) w = 1) : wordProd (canonRep B) w = 1 := by
  rw [canon_is_dual, h, dualMat_one]

/-! ## the braid relations -/

/-- with `P = sᵢsⱼ`, `t = C_ij·C_ji - 2`: `(P² - tP + 1)(P - 1) = 0`, over every commutative
ring and for every rank (the image of `P - 1` lies in `span(eᵢ, eⱼ)`, on which `P` has
trace `t` and determinant `1`) -/
theorem braid_core (C : Matrix (Fin n) (Fin n) R) (i j : Fin n) (hi : C i i = 2) (hj : C j j = 2) :
    quad (refl C i * refl C j) (C i j * C j i - 2) * (refl C i * refl C j - 1) = 0 :=
  braid_core' C i j hi hj

/-- general criterion: if the Chebyshev-type sequence of `t = C_ij·C_ji - 2` has vanishing
period sums over `m` steps then `(sᵢsⱼ)^m = 1` -/
theorem braid_of_cheb (C : Matrix (Fin n) (Fin n) R) (i j : Fin n) (hi : C i i = 2) (hj : C j j = 2)
    (m : ℕ) (h1 : ∑ k ∈ range m, cheb (C i j * C j i - 2) (k + 1) = 0)
    (h0 : ∑ k ∈ range m, cheb (C i j * C j i - 2) k = 0) :
    (refl C i * refl C j) ^ m = 1 :=
  pow_eq_one_of_cheb _ _ (braid_core C i j hi hj) m h1 h0

/-- label 2: `C_ij = C_ji = 0` ⇒ the generators commute and `(sᵢsⱼ)² = 1` -/
theorem braid_two (C : Matrix (Fin n) (Fin n) R) (i j : Fin n) (hi : C i i = 2) (hj : C j j = 2)
    (hij : C i j = 0) (hji : C j i = 0) : (refl C i * refl C j) ^ 2 = 1 := by
  have hc : refl C i * refl C j = refl C j * refl C i := by
    apply mulVec_injective
    funext v
    rw [P_mulVec, P_mulVec, hij, hji]
    module
  calc (refl C i * refl C j) ^ 2 = refl C i * (refl C j * refl C i) * refl C j := by
        rw [pow_two]; simp only [mul_assoc]
    _ = refl C i * refl C i * (refl C j * refl C j) := by rw [← hc]; simp only [mul_assoc]
    _ = 1 := by rw [refl_sq' C i hi, refl_sq' C j hj, one_mul]

/-- labels 3, 4, 6: `C_ij·C_ji = 1, 2, 3` ⇒ `(sᵢsⱼ)^m = 1` for `m = 3, 4, 6`, over every
commutative ring -/
theorem braid_small (C : Matrix (Fin n) (Fin n) R) (i j : Fin n) (hi : C i i = 2) (hj : C j j = 2) :
    (C i j * C j i = 1 → (refl C i * refl C j) ^ 3 = 1) ∧
    (C i j * C j i = 2 → (refl C i * refl C j) ^ 4 = 1) ∧
    (C i j * C j i = 3 → (refl C i * refl C j) ^ 6 = 1) := by
  refine ⟨fun h => ?_, fun h => ?_, fun h => ?_⟩ <;>
  · apply braid_of_cheb C i j hi hj <;>
    · rw [h]; simp only [Finset.sum_range_succ, Finset.sum_range_zero, cheb]; ring

/-- label 5: `t = C_ij·C_ji - 2` a root of `t² + t - 1` (i.e. `t = 2cos(2π/5)`) ⇒ `(sᵢsⱼ)⁵ = 1` -/
theorem braid_five (C : Matrix (Fin n) (Fin n) R) (i j : Fin n) (hi : C i i = 2) (hj : C j j = 2)
    (h : (C i j * C j i - 2) ^ 2 + (C i j * C j i - 2) - 1 = 0) :
    (refl C i * refl C j) ^ 5 = 1 := by
  apply braid_of_cheb C i j hi hj <;>
  · simp only [Finset.sum_range_succ, Finset.sum_range_zero, cheb]
    generalize C i j * C j i - 2 = t at h
    first
    | linear_combination h
    | linear_combination t * h

/-- relations survive conjugation by the diagonalising pair (`Winv * W = 1`):
`(Winv·M·W)^k = Winv·M^k·W` -/
theorem conj_pow (W Winv M : Matrix (Fin n) (Fin n) R) (h : Winv * W = 1) (k : ℕ) :
    (conjMat W Winv M) ^ k = conjMat W Winv (M ^ k) := by
  induction k with
  | zero => rw [pow_zero, pow_zero, conjMat_one W Winv h]
  | succ k ih => rw [pow_succ, pow_succ, ih, conjMat_mul W Winv _ _ h]

/-- relations survive dualising: `dual(M)^k = dual(M^k)` -/
theorem dual_pow (M : Matrix (Fin n) (Fin n) R) (k : ℕ) : (dualMat M) ^ k = dualMat (M ^ k) := by
  induction k with
  | zero => rw [pow_zero, pow_zero, dualMat_one]
  | succ k ih => rw [pow_succ, pow_succ, ih, dualMat_mul]

/-- so every relation `(sᵢsⱼ)^m = 1` / `sᵢ² = 1` of the geometric representation holds in the
canonical and in the diagonalised (hyperbolic) representation -/
theorem relations_transfer (B W Winv : Matrix (Fin n) (Fin n) R) (hW : Winv * W = 1) (i j : Fin n)
    (m : ℕ) (h : (geomRep B i * geomRep B j) ^ m = 1) :
    (canonRep B i * canonRep B j) ^ m = 1 ∧ (hypRep B W Winv i * hypRep B W Winv j) ^ m = 1 := by
  constructor
  · unfold canonRep; rw [← dualMat_mul, dual_pow, h, dualMat_one]
  · unfold hypRep; rw [← conjMat_mul _ _ _ _ hW, conj_pow _ _ _ hW, h, conjMat_one _ _ hW]

/-! ## the hyperbolic representation lies in `O(J)` and its generators are reflections -/

/-- `Wᵀ B W = J` (the `diagonalize_form` contract) ⇒ every generator of `hyperbolic_rep`
preserves `J` -/
theorem hypRep_in_O (B W Winv J : Matrix (Fin n) (Fin n) R) (hs : Bᵀ = B) (hd : ∀ i, B i i = 1)
    (hW : Winv * W = 1) (hJ : Wᵀ * B * W = J) (i : Fin n) :
    (hypRep B W Winv i)ᵀ * J * hypRep B W Winv i = J :=
  conjMat_iso W Winv B J _ hW hJ (geom_preserves B i hs (hd i))

/-- … and so does the image of every word -/
theorem hypRep_word_in_O (B W Winv J : Matrix (Fin n) (Fin n) R) (hs : Bᵀ = B) (hd : ∀ i, B i i = 1)
    (hW : Winv * W = 1) (hJ : Wᵀ * B * W = J) (w : List (Fin n)) :
    (wordProd (hypRep B W Winv) w)ᵀ * J * wordProd (hypRep B W Winv) w = J := by
  have e : wordProd (hypRep B W Winv) w = conjMat W Winv (wordProd (geomRep B) w) :=
    wordProd_map_hom (conjMat W Winv) (conjMat_one W Winv hW) (fun A B => conjMat_mul W Winv A B hW) _ w
  rw [e]
  exact conjMat_iso W Winv B J _ hW hJ (geom_preserves_word B hs hd w)

/-- a generator of `hyperbolic_rep` is the `J`-reflection in the unit spacelike vector
`x = Winv·eᵢ`: `J(x,x) = 1`, `x ↦ -x`, every `y` with `J(x,y) = 0` is fixed, `det = -1` -/
theorem hypRep_reflection (B W Winv J : Matrix (Fin n) (Fin n) R) (hd : ∀ i, B i i = 1)
    (hW : Winv * W = 1) (hJ : Wᵀ * B * W = J) (i : Fin n) :
    let x := Winv *ᵥ Pi.single i 1
    x ⬝ᵥ (J *ᵥ x) = 1 ∧ hypRep B W Winv i *ᵥ x = -x ∧
      (∀ y : Fin n → R, x ⬝ᵥ (J *ᵥ y) = 0 → hypRep B W Winv i *ᵥ y = y) ∧
      (hypRep B W Winv i).det = -1 := by
  intro x
  have hW' : W * Winv = 1 := mul_eq_one_comm.1 hW
  have hC : ((2 : R) • B) i i = 2 := by simp [hd i]
  have hJx : ∀ y, x ⬝ᵥ (J *ᵥ y) = B i ⬝ᵥ (W *ᵥ y) := by
    intro y
    have : J *ᵥ y = Wᵀ *ᵥ (B *ᵥ (W *ᵥ y)) := by rw [← hJ]; simp only [mulVec_mulVec, mul_assoc]
    rw [this, dotProduct_mulVec, vecMul_transpose, mulVec_mulVec, hW', one_mulVec,
      single_one_dotProduct]
    have : (B *ᵥ (W *ᵥ y)) i = B i ⬝ᵥ (W *ᵥ y) := rfl
    exact this
  have hWx : W *ᵥ x = Pi.single i 1 := by rw [mulVec_mulVec, hW', one_mulVec]
  refine ⟨?_, ?_, ?_, ?_⟩
  · rw [hJx, hWx, row_dot_single, hd]
  · unfold hypRep conjMat geomRep
    rw [← mulVec_mulVec, hWx, ← mulVec_mulVec, (refl_reflection _ i hC).1, mulVec_neg]
  · intro y hy
    rw [hJx] at hy
    unfold hypRep conjMat geomRep
    rw [← mulVec_mulVec, ← mulVec_mulVec, (refl_reflection _ i hC).2 (W *ᵥ y), mulVec_mulVec, hW,
      one_mulVec]
    show ((2 : R) • B) i ⬝ᵥ (W *ᵥ y) = 0
    have : ((2 : R) • B) i = (2 : R) • B i := rfl
    rw [this, smul_dotProduct, hy, smul_zero]
  · unfold hypRep conjMat geomRep
    rw [det_mul, det_mul, refl_det _ i hC, mul_comm (Winv.det), mul_assoc, ← det_mul, hW, det_one]
    ring

/-- an involution is its own inverse, so its dual is its transpose (what the driver executes for
`canonical_representation(diagonalize=True)`) -/
theorem dualMat_of_involution (M : Matrix (Fin n) (Fin n) R) (h : M * M = 1) : dualMat M = Mᵀ := by
  unfold dualMat
  apply Matrix.inv_eq_left_inv
  rw [← transpose_mul, h, transpose_one]

/-- `cartan_matrix(parameters)` keeps the diagonal `2` and every entry whose label (in either order)
is positive (finite); so `tits_vinberg_rep` satisfies `refl_sq` and the braid theorems at every finite label -/
theorem cartanMatrix_spec [DecidableEq R] (B : Matrix (Fin n) (Fin n) R) (M : Matrix (Fin n) (Fin n) ℤ)
    (P : Matrix (Fin n) (Fin n) R) (i j : Fin n) (hij : 0 < M i j) (hji : 0 < M j i) :
    cartanMatrix B M P i j = 2 * B i j := by
  unfold cartanMatrix
  rw [if_neg (by omega), if_neg (by omega)]
  simp

/-- the parameters of `cartan_matrix` take effect at EVERY infinite label (`M i j ≤ 0`, including the
label written `0`): a specified (non-zero) parameter is the entry -/
theorem cartanMatrix_param [DecidableEq R] (B : Matrix (Fin n) (Fin n) R) (M : Matrix (Fin n) (Fin n) ℤ)
    (P : Matrix (Fin n) (Fin n) R) (i j : Fin n) (hij : M i j ≤ 0) (hP : P i j ≠ 0) :
    cartanMatrix B M P i j = P i j := by
  unfold cartanMatrix
  rw [if_pos ⟨hij, hP⟩]

/-- every infinite label (`≤ 0`, however it is written) gets the form entry `-cos(π/(1/2)) = -cos 2π` -/
theorem cosineForm_infinite (cs : ℚ → R) (M : Matrix (Fin n) (Fin n) ℤ) (i j : Fin n) (h : M i j ≤ 0) :
    cosineForm cs M i j = -cs (1 / 2) := by
  simp [cosineForm, h]

/-- the guard of `cartan_representation(diagonalize=True)` never refuses a genuine diagonalising
pair: `Winv * W = 1` implies that `W` has no zero column -/
theorem diagGuard_of_inverse [Nontrivial R] [DecidableEq R] (W Winv : Matrix (Fin n) (Fin n) R)
    (h : Winv * W = 1) : diagGuard W = true := by
  unfold diagGuard
  rw [decide_eq_true_eq]
  intro j
  by_contra hcon
  push Not at hcon
  have := congrFun (congrFun h j) j
  rw [Matrix.mul_apply, Matrix.one_apply_eq] at this
  simp [hcon] at this

/-- … and it refuses what `diagonalize_form` returns for a degenerate form: `W = U · diag(d)` with a
null direction `d j = 0` has a zero column -/
theorem diagGuard_refuses [DecidableEq R] (U : Matrix (Fin n) (Fin n) R) (d : Fin n → R) (j : Fin n)
    (hd : d j = 0) : diagGuard (U * Matrix.diagonal d) = false := by
  unfold diagGuard
  rw [decide_eq_false_iff_not]
  intro h
  obtain ⟨i, hi⟩ := h j
  exact hi (by rw [Matrix.mul_diagonal, hd, mul_zero])

end ring

/-! ## every finite label, over ℝ -/

/-- **braid relation for every finite label** `m ≥ 2` over ℝ: if `C_ii = C_jj = 2` and
`C_ij·C_ji = 4cos²(π/m)` (and `C_ij = C_ji = 0` when `m = 2`) then `(sᵢsⱼ)^m = 1`.
Route: `braid_core` ⇒ `P^k(P-1) = v_{k+1}·P(P-1) - v_k·(P-1)` for the Chebyshev recursion,
`v_k·sin θ = sin((k-1)θ)` at `θ = 2π/m`, period sums vanish, geometric sum. -/
theorem braid_all {n : ℕ} (C : Matrix (Fin n) (Fin n) ℝ) (i j : Fin n) (hi : C i i = 2) (hj : C j j = 2)
    (m : ℕ) (hm : 2 ≤ m) (hc : C i j * C j i = 4 * Real.cos (Real.pi / m) ^ 2)
    (h2 : m = 2 → C i j = 0 ∧ C j i = 0) :
    (refl C i * refl C j) ^ m = 1 := by
  rcases Nat.eq_or_lt_of_le hm with rfl | hm3
  · exact braid_two C i j hi hj (h2 rfl).1 (h2 rfl).2
  · have ht : C i j * C j i - 2 = 2 * Real.cos (2 * Real.pi / m) := by
      have : 2 * Real.pi / m = 2 * (Real.pi / m) := by ring
      rw [hc, this, Real.cos_two_mul]; ring
    obtain ⟨p1, p2, p3⟩ := cheb_period m hm3
    obtain ⟨s1, s0⟩ := cheb_sums_zero _ m p3 p1 p2
    exact braid_of_cheb C i j hi hj m (by rw [ht]; exact s1) (by rw [ht]; exact s0)

/-- the statement of the property for the geometric representation of a Coxeter matrix, with
the real cosine: generators are involutions preserving the cosine form, and
`(sᵢsⱼ)^{M_ij} = 1` for every finite label -/
theorem geometric_representation_real {n : ℕ} (M : Matrix (Fin n) (Fin n) ℤ) (hM : Mᵀ = M)
    (hd : ∀ i, M i i = 1) :
    let B := cosineForm (fun x : ℚ => Real.cos (Real.pi / (x : ℝ))) M
    (∀ i, geomRep B i * geomRep B i = 1) ∧
    (∀ i, (geomRep B i)ᵀ * B * geomRep B i = B) ∧
    (∀ i j, 2 ≤ M i j → (geomRep B i * geomRep B j) ^ (M i j).toNat = 1) := by
  intro B
  have h1 : (fun x : ℚ => Real.cos (Real.pi / (x : ℝ))) 1 = -1 := by simp
  obtain ⟨hs, hdiag⟩ : Bᵀ = B ∧ ∀ i, B i i = 1 := cosineForm_symm_diag (R := ℝ) (fun x : ℚ => Real.cos (Real.pi / (x : ℝ))) M hM hd h1
  refine ⟨fun i => geomRep_sq B i (hdiag i), fun i => geom_preserves B i hs (hdiag i), ?_⟩
  intro i j hij
  have hBij : ∀ a b, 2 ≤ M a b → B a b = -Real.cos (Real.pi / ((M a b).toNat : ℝ)) := by
    intro a b hab
    have h0 : ¬ M a b ≤ 0 := by omega
    have hc : ((M a b).toNat : ℝ) = ((M a b : ℚ) : ℝ) := by
      have : ((M a b).toNat : ℤ) = M a b := Int.toNat_of_nonneg (by omega)
      rw [Rat.cast_intCast]
      exact_mod_cast this
    show cosineForm _ M a b = _
    simp only [cosineForm, h0, if_false, hc]
    ring
  have hji : 2 ≤ M j i := by
    have : M j i = M i j := congrFun (congrFun hM i) j
    rw [this]; exact hij
  have hmm : (M j i).toNat = (M i j).toNat := by
    have : M j i = M i j := congrFun (congrFun hM i) j
    rw [this]
  have hm2 : 2 ≤ (M i j).toNat := by omega
  apply braid_all ((2 : ℝ) • B) i j (by simp [hdiag i]) (by simp [hdiag j]) _ hm2
  · simp only [Matrix.smul_apply, smul_eq_mul]
    rw [hBij i j hij, hBij j i hji, hmm]; ring
  · intro h
    simp only [Matrix.smul_apply, smul_eq_mul]
    rw [hBij i j hij, hBij j i hji, hmm, h]
    have : Real.cos (Real.pi / ((2 : ℕ) : ℝ)) = 0 := by
      have : Real.pi / ((2 : ℕ) : ℝ) = Real.pi / 2 := by norm_num
      rw [this, Real.cos_pi_div_two]
    rw [this]; simp


/-- **exact order** over ℝ: under the hypotheses of `braid_all` and `i ≠ j`, no smaller positive
power of `sᵢsⱼ` is the identity -/
theorem order_exact {n : ℕ} (C : Matrix (Fin n) (Fin n) ℝ) (i j : Fin n) (hij : i ≠ j)
    (hi : C i i = 2) (hj : C j j = 2) (m : ℕ) (hm : 2 ≤ m)
    (hc : C i j * C j i = 4 * Real.cos (Real.pi / m) ^ 2) (k : ℕ) (hk0 : 0 < k) (hkm : k < m) :
    (refl C i * refl C j) ^ k ≠ 1 := order_exact' C i j hij hi hj m hm hc k hk0 hkm

/-- … and the same for the canonical (dual) representation: `sᵢsⱼ` has order **exactly** `m` there -/
theorem canon_order_exact {n : ℕ} (B : Matrix (Fin n) (Fin n) ℝ) (i j : Fin n) (hij : i ≠ j)
    (hi : B i i = 1) (hj : B j j = 1) (m : ℕ) (hm : 2 ≤ m)
    (hc : (2 * B i j) * (2 * B j i) = 4 * Real.cos (Real.pi / m) ^ 2)
    (h2 : m = 2 → B i j = 0 ∧ B j i = 0) :
    (canonRep B i * canonRep B j) ^ m = 1 ∧
      ∀ k, 0 < k → k < m → (canonRep B i * canonRep B j) ^ k ≠ 1 := by
  have hCi : ((2 : ℝ) • B) i i = 2 := by simp [hi]
  have hCj : ((2 : ℝ) • B) j j = 2 := by simp [hj]
  have hCc : ((2 : ℝ) • B) i j * ((2 : ℝ) • B) j i = 4 * Real.cos (Real.pi / m) ^ 2 := by
    simpa [Matrix.smul_apply] using hc
  have hpow : (geomRep B i * geomRep B j) ^ m = 1 :=
    braid_all _ i j hCi hCj m hm hCc (fun h => by
      obtain ⟨a, b⟩ := h2 h; simp [Matrix.smul_apply, a, b])
  have hdual : ∀ k, (canonRep B i * canonRep B j) ^ k = dualMat ((geomRep B i * geomRep B j) ^ k) := by
    intro k; unfold canonRep; rw [← dualMat_mul, dual_pow]
  refine ⟨by rw [hdual, hpow, dualMat_one], fun k hk0 hkm hk => ?_⟩
  rw [hdual] at hk
  apply order_exact _ i j hij hCi hCj m hm hCc k hk0 hkm
  -- `((P^k)ᵀ)⁻¹ = 1` with `P^k` invertible gives `P^k = 1`
  set X := (refl ((2 : ℝ) • B) i * refl ((2 : ℝ) • B) j) ^ k with hX
  have hdet : IsUnit X.det := by
    rw [hX, det_pow, det_mul, refl_det _ i hCi, refl_det _ j hCj]; simp
  have hdetT : IsUnit Xᵀ.det := by rw [det_transpose]; exact hdet
  have h1 : Xᵀ = 1 := by
    have := Matrix.mul_nonsing_inv Xᵀ hdetT
    unfold dualMat geomRep at hk
    rw [← hX] at hk
    rw [hk, mul_one] at this
    exact this
  have : X = Xᵀᵀ := (transpose_transpose X).symm
  rw [this, h1, transpose_one]


/-- the statement of the property for the canonical (Tits) representation of a Coxeter matrix, with
the real cosine: generators are involutions and `sᵢsⱼ` has order **exactly** `M_ij` for every finite
label -/
theorem canonical_representation_real {n : ℕ} (M : Matrix (Fin n) (Fin n) ℤ) (hM : Mᵀ = M)
    (hd : ∀ i, M i i = 1) :
    let B := cosineForm (fun x : ℚ => Real.cos (Real.pi / (x : ℝ))) M
    (∀ i, canonRep B i * canonRep B i = 1) ∧
    (∀ i j, i ≠ j → 2 ≤ M i j → (canonRep B i * canonRep B j) ^ (M i j).toNat = 1 ∧
      ∀ k, 0 < k → k < (M i j).toNat → (canonRep B i * canonRep B j) ^ k ≠ 1) := by
  intro B
  have h1 : (fun x : ℚ => Real.cos (Real.pi / (x : ℝ))) 1 = -1 := by simp
  obtain ⟨hs, hdiag⟩ : Bᵀ = B ∧ ∀ i, B i i = 1 :=
    cosineForm_symm_diag (R := ℝ) (fun x : ℚ => Real.cos (Real.pi / (x : ℝ))) M hM hd h1
  have hBij : ∀ a b, 2 ≤ M a b → B a b = -Real.cos (Real.pi / ((M a b).toNat : ℝ)) := by
    intro a b hab
    have h0 : ¬ M a b ≤ 0 := by omega
    have hc : ((M a b).toNat : ℝ) = ((M a b : ℚ) : ℝ) := by
      have : ((M a b).toNat : ℤ) = M a b := Int.toNat_of_nonneg (by omega)
      rw [Rat.cast_intCast]
      exact_mod_cast this
    show cosineForm _ M a b = _
    simp only [cosineForm, h0, if_false, hc]
    ring
  refine ⟨fun i => ?_, fun i j hij hm => ?_⟩
  · rw [canonRep_eq_transpose B i (hdiag i), ← transpose_mul, geomRep_sq B i (hdiag i), transpose_one]
  · have hji : M j i = M i j := congrFun (congrFun hM i) j
    have hm2 : 2 ≤ (M i j).toNat := by omega
    apply canon_order_exact B i j hij (hdiag i) (hdiag j) _ hm2
    · rw [hBij i j hm, hBij j i (by rw [hji]; exact hm), hji]; ring
    · intro h
      rw [hBij i j hm, hBij j i (by rw [hji]; exact hm), hji, h]
      have : Real.cos (Real.pi / ((2 : ℕ) : ℝ)) = 0 := by
        have : Real.pi / ((2 : ℕ) : ℝ) = Real.pi / 2 := by norm_num
        rw [this, Real.cos_pi_div_two]
      rw [this]; simp


/-- an infinite label (`M_ij ≤ 0`, written `0` or negative) over ℝ: the cosine form entry is `-1` and
`sᵢsⱼ` has infinite order in the geometric representation -/
theorem infinite_label_real {n : ℕ} (M : Matrix (Fin n) (Fin n) ℤ) (hM : Mᵀ = M) (hd : ∀ i, M i i = 1)
    (i j : Fin n) (hij : i ≠ j) (h : M i j ≤ 0) :
    let B := cosineForm (fun x : ℚ => Real.cos (Real.pi / (x : ℝ))) M
    B i j = -1 ∧ ∀ k : ℕ, 0 < k → (geomRep B i * geomRep B j) ^ k ≠ 1 := by
  intro B
  have h1 : (fun x : ℚ => Real.cos (Real.pi / (x : ℝ))) 1 = -1 := by simp
  obtain ⟨hs, hdiag⟩ : Bᵀ = B ∧ ∀ i, B i i = 1 :=
    cosineForm_symm_diag (R := ℝ) (fun x : ℚ => Real.cos (Real.pi / (x : ℝ))) M hM hd h1
  have hval : ∀ a b, M a b ≤ 0 → B a b = -1 := by
    intro a b hab
    show cosineForm _ M a b = -1
    rw [cosineForm_infinite _ M a b hab]
    have : Real.pi / (((1 / 2 : ℚ)) : ℝ) = 2 * Real.pi := by push_cast; ring
    simp only [this, Real.cos_two_pi]
  have hji : M j i ≤ 0 := by
    have : M j i = M i j := congrFun (congrFun hM i) j
    rw [this]; exact h
  refine ⟨hval i j h, fun k hk => ?_⟩
  unfold geomRep
  apply order_infinite _ i j hij (by simp [hdiag i]) (by simp [hdiag j]) _ k hk
  simp only [Matrix.smul_apply, smul_eq_mul]
  rw [hval i j h, hval j i hji]; ring

/-- **triangle angles.**  For the cosine form `B = form3 a b c` of a triangle group, let `ω_k` be the
vertex fixed by `sᵢ` and `sⱼ` (hence by the rotation `sᵢsⱼ`), and `u, w` the directions at `ω_k`
towards the other two vertices.  Then `B(u,w) = -B_ij · B(u,u)`, `B(w,w) = B(u,u) = det(B)⁴(1-B_ij²)`
and `B(ω_k,ω_k) = det(B)(1-B_ij²)`: the interior angle has cosine `-B_ij = cos(π/m)`, and the vertex
is ideal (lightlike) exactly when `B_ij² = 1`, i.e. for an infinite label. -/
theorem triangle_angles {R : Type*} [CommRing R] (a b c : R) (i j k : Fin 3) (hij : i ≠ j) (hjk : j ≠ k)
    (hik : i ≠ k) :
    let B := form3 a b c
    let u := tangent B (vertex B k) (vertex B j)
    let w := tangent B (vertex B k) (vertex B i)
    geomRep B i *ᵥ vertex B k = vertex B k ∧ geomRep B j *ᵥ vertex B k = vertex B k ∧
      bil B u w = -B i j * bil B u u ∧ bil B w w = bil B u u ∧
      bil B u u = B.det ^ 4 * (1 - B i j ^ 2) ∧ bil B (vertex B k) (vertex B k) = B.det * (1 - B i j ^ 2) := by
  intro B u w
  obtain ⟨t1, t2, t3, t4⟩ := triangle3 a b c B rfl i j k hij hjk hik
  exact ⟨vertex_fixed B i k hik, vertex_fixed B j k hjk, t1, t2, t3, t4⟩

/-- over ℝ, at a finite vertex (`B_ij² < 1`, non-degenerate form) the cosine of the interior angle,
computed from the two directions, is `-B_ij`; with `B_ij = -cos(π/m)` the angle is `π/m` -/
theorem triangle_angle_real (a b c : ℝ) (i j k : Fin 3) (hij : i ≠ j) (hjk : j ≠ k) (hik : i ≠ k)
    (hdet : (form3 a b c).det ≠ 0) (hfin : (form3 a b c) i j ^ 2 < 1) :
    let B := form3 a b c
    let u := tangent B (vertex B k) (vertex B j)
    let w := tangent B (vertex B k) (vertex B i)
    bil B u w / Real.sqrt (bil B u u * bil B w w) = -B i j ∧
      ∀ m : ℕ, 2 ≤ m → B i j = -Real.cos (Real.pi / m) →
        Real.arccos (bil B u w / Real.sqrt (bil B u u * bil B w w)) = Real.pi / m := by
  intro B u w
  obtain ⟨_, _, t1, t2, t3, _⟩ := triangle_angles a b c i j k hij hjk hik
  have hpos : 0 < bil B u u := by
    rw [t3]
    have : 0 < B.det ^ 4 := by positivity
    have h1 : 0 < 1 - B i j ^ 2 := by linarith
    positivity
  have hcos : bil B u w / Real.sqrt (bil B u u * bil B w w) = -B i j := by
    rw [t2, Real.sqrt_mul_self hpos.le, t1]
    exact mul_div_cancel_right₀ _ hpos.ne'
  refine ⟨hcos, fun m hm hB => ?_⟩
  rw [hcos, hB, neg_neg]
  apply Real.arccos_cos
  · positivity
  · have hm0 : (0 : ℝ) < m := by exact_mod_cast (by omega : 0 < m)
    rw [div_le_iff₀ hm0]
    have : (1 : ℝ) ≤ m := by exact_mod_cast (by omega : 1 ≤ m)
    nlinarith [Real.pi_pos]

/-! ## non-vacuity: concrete instances of the hypotheses -/

/-- the (2,3,∞) form over ℚ: symmetric, unit diagonal, the generators are involutions and
`(s₀s₁)³ = 1`, `(s₀s₂)² = 1` hold by the theorems above -/
example :
    let B : Matrix (Fin 3) (Fin 3) ℚ := !![1, -1/2, 0; -1/2, 1, -1; 0, -1, 1]
    Bᵀ = B ∧ (∀ i, B i i = 1) ∧ (geomRep B 0 * geomRep B 1) ^ 3 = 1
      ∧ (geomRep B 0 * geomRep B 2) ^ 2 = 1 := by
  intro B
  have hd : ∀ i, B i i = 1 := by intro i; fin_cases i <;> simp [B]
  refine ⟨by ext i j; fin_cases i <;> fin_cases j <;> simp [B], hd, ?_, ?_⟩
  · exact (braid_small ((2 : ℚ) • B) 0 1 (by simp [hd]) (by simp [hd])).1 (by simp [B]; norm_num)
  · exact braid_two ((2 : ℚ) • B) 0 2 (by simp [hd]) (by simp [hd]) (by simp [B]) (by simp [B])

/-- `braid_five` is not vacuous: over ℝ, `t = (√5 - 1)/2` -/
example : ∃ t : ℝ, t ^ 2 + t - 1 = 0 := by
  refine ⟨(Real.sqrt 5 - 1) / 2, ?_⟩
  have := Real.sq_sqrt (show (0 : ℝ) ≤ 5 by norm_num)
  nlinarith [this]

/-- a diagonalising pair exists for the rank-2 form of label ∞ … no: that form is degenerate;
for `B = 1` (label 2, rank 2) `W = Winv = 1`, `J = 1` satisfy the `hypRep` hypotheses -/
example : (1 : Matrix (Fin 2) (Fin 2) ℚ) * 1 = 1 ∧ (1 : Matrix (Fin 2) (Fin 2) ℚ)ᵀ * 1 * 1 = 1 := by
  simp

/-- `triangle_angle_real` is not vacuous: the (2,3,7)-like numbers `a = 0, b = -1/2, c = -9/10` give a
non-degenerate form with a finite vertex -/
example : (form3 (0 : ℝ) (-1/2) (-9/10)).det ≠ 0 ∧ (form3 (0 : ℝ) (-1/2) (-9/10)) 0 1 ^ 2 < 1 := by
  rw [det3]; constructor <;> norm_num [form3]

end GT.C08
