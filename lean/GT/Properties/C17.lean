/- property theorems for C17 (filled in below) -/
