/-
C17 — the Lie-group maps are homomorphisms onto the groups they name.
Only property theorems and non-vacuity examples live here; helper lemmas are in
`GT.Lemmas.Lie`, `GT.Lemmas.So31`, `GT.Lemmas.IrrepDet`, `GT.Lemmas.Irrep.*`.
Model: `GT.Model.Lie`.  The dimensions `n = 4, 5, 6` of `sl2_irrep` are in
`GT.Properties.C17_n4/5/6` (imported here).
-/
import GT.Lemmas.Irrep.N1Det
import GT.Lemmas.Irrep.N2Det
import GT.Lemmas.Irrep.N3Det
import GT.Properties.C17_n4
import GT.Properties.C17_n5
import GT.Properties.C17_n6
import GT.Properties.C17_nd
import GT.Lemmas.So31
import GT.Lemmas.So31Det
import Mathlib.LinearAlgebra.Matrix.NonsingularInverse
import Mathlib.Analysis.SpecialFunctions.Sqrt
import Mathlib.Tactic.Positivity

open Matrix Finset BigOperators

set_option linter.unusedSectionVars false
set_option linter.unusedSimpArgs false

namespace GT.C17
open GT.Lie

/-! ## irreducible representations `SL(2) → SL(n)`, `n = 1, 2, 3` (4–6: `C17_n4/5/6`) -/

section irrep
variable {R : Type*} [CommRing R]

theorem sl2Irrep_mul_1 (A B : Matrix (Fin 2) (Fin 2) R) :
    sl2Irrep 1 (A * B) = sl2Irrep 1 A * sl2Irrep 1 B := GT.Lie.sl2Irrep_mul_1 A B
theorem sl2Irrep_mul_2 (A B : Matrix (Fin 2) (Fin 2) R) :
    sl2Irrep 2 (A * B) = sl2Irrep 2 A * sl2Irrep 2 B := GT.Lie.sl2Irrep_mul_2 A B
theorem sl2Irrep_mul_3 (A B : Matrix (Fin 2) (Fin 2) R) :
    sl2Irrep 3 (A * B) = sl2Irrep 3 A * sl2Irrep 3 B := GT.Lie.sl2Irrep_mul_3 A B

theorem sl2Irrep_one_1 : sl2Irrep 1 (1 : Matrix (Fin 2) (Fin 2) R) = 1 := GT.Lie.sl2Irrep_one_1
theorem sl2Irrep_one_2 : sl2Irrep 2 (1 : Matrix (Fin 2) (Fin 2) R) = 1 := GT.Lie.sl2Irrep_one_2
theorem sl2Irrep_one_3 : sl2Irrep 3 (1 : Matrix (Fin 2) (Fin 2) R) = 1 := GT.Lie.sl2Irrep_one_3

theorem sl2Irrep_det_1 (A : Matrix (Fin 2) (Fin 2) R) : (sl2Irrep 1 A).det = A.det ^ 0 :=
  GT.Lie.sl2Irrep_det_1 A
theorem sl2Irrep_det_2 (A : Matrix (Fin 2) (Fin 2) R) : (sl2Irrep 2 A).det = A.det ^ 1 :=
  GT.Lie.sl2Irrep_det_2 A
theorem sl2Irrep_det_3 (A : Matrix (Fin 2) (Fin 2) R) : (sl2Irrep 3 A).det = A.det ^ 3 :=
  GT.Lie.sl2Irrep_det_3 A

/-- determinant one for every irreducible representation of dimension `1..6` -/
theorem sl2Irrep_det_one (A : Matrix (Fin 2) (Fin 2) R) (h : A.det = 1) :
    (sl2Irrep 1 A).det = 1 ∧ (sl2Irrep 2 A).det = 1 ∧ (sl2Irrep 3 A).det = 1 ∧
    (sl2Irrep 4 A).det = 1 ∧ (sl2Irrep 5 A).det = 1 ∧ (sl2Irrep 6 A).det = 1 := by
  refine ⟨?_, ?_, ?_, sl2Irrep_det_one_4 A h, sl2Irrep_det_one_5 A h, sl2Irrep_det_one_6 A h⟩
  · rw [sl2Irrep_det_1, pow_zero]
  · rw [sl2Irrep_det_2, h, one_pow]
  · rw [sl2Irrep_det_3, h, one_pow]

/-- the 2-dimensional representation is `A` in the reversed basis (`e₂` first) -/
theorem sl2Irrep_two (A : Matrix (Fin 2) (Fin 2) R) :
    sl2Irrep 2 A = !![A 1 1, A 1 0; A 0 1, A 0 0] := by
  ext j k
  fin_cases j <;> fin_cases k <;>
    simp [sl2Irrep, sl2IrrepEntry, Finset.sum_Ico_eq_sum_range, Finset.sum_range_succ, Nat.choose]

end irrep

/-! ## `SL(2,ℝ) → SO(2,1)` -/

section so21
variable {K : Type*} [Field K]

theorem sl2ToSo21_mul (h2 : (2 : K) ≠ 0) (A B : Matrix (Fin 2) (Fin 2) K) :
    sl2ToSo21 (A * B) = sl2ToSo21 A * sl2ToSo21 B := by
  unfold sl2ToSo21
  rw [GT.Lie.sl2Irrep_mul_3]
  have e : perm210 * killingConj * sl2Irrep 3 A * killingConjInv * perm210
        * (perm210 * killingConj * sl2Irrep 3 B * killingConjInv * perm210)
      = perm210 * killingConj * sl2Irrep 3 A * (killingConjInv * ((perm210 * perm210) * killingConj))
        * sl2Irrep 3 B * killingConjInv * (perm210 : Matrix (Fin 3) (Fin 3) K) := by
    simp only [Matrix.mul_assoc]
  rw [e, perm210_mul_self, Matrix.one_mul, killingConjInv_mul h2, Matrix.mul_one]
  simp only [Matrix.mul_assoc]

theorem sl2ToSo21_one (h2 : (2 : K) ≠ 0) : sl2ToSo21 (1 : Matrix (Fin 2) (Fin 2) K) = 1 := by
  unfold sl2ToSo21
  rw [GT.Lie.sl2Irrep_one_3, Matrix.mul_one]
  have e : perm210 * killingConj * killingConjInv * perm210
      = perm210 * (killingConj * killingConjInv) * (perm210 : Matrix (Fin 3) (Fin 3) K) := by
    simp only [Matrix.mul_assoc]
  rw [e, killingConj_mul_inv h2, Matrix.mul_one, perm210_mul_self]

/-- the image scales the form `diag(-1,1,1)` by `(det A)²` — both as `MᵀJM` (action on
column vectors) and as `MJMᵀ` (the row-vector convention of `IsIso`) -/
theorem sl2ToSo21_form (h2 : (2 : K) ≠ 0) (A : Matrix (Fin 2) (Fin 2) K) :
    (sl2ToSo21 A)ᵀ * mink21 * sl2ToSo21 A = (A.det ^ 2) • (mink21 : Matrix (Fin 3) (Fin 3) K) ∧
    sl2ToSo21 A * mink21 * (sl2ToSo21 A)ᵀ = (A.det ^ 2) • (mink21 : Matrix (Fin 3) (Fin 3) K) := by
  have hS := sl2ToSo21_explicit h2 A
  constructor <;>
  · ext i j
    fin_cases i <;> fin_cases j <;>
      simp only [Matrix.mul_apply, Fin.sum_univ_three, mink21, Matrix.diagonal_apply,
        Matrix.transpose_apply, Matrix.smul_apply, Fin.zero_eta, Fin.mk_one, Fin.reduceFinMk] <;>
      rw [hS] <;> simp [Matrix.det_fin_two] <;> field_simp <;> ring

/-- on `SL^±(2)` the image preserves `diag(-1,1,1)` -/
theorem sl2ToSo21_isIso (h2 : (2 : K) ≠ 0) (A : Matrix (Fin 2) (Fin 2) K) (h : A.det ^ 2 = 1) :
    (sl2ToSo21 A)ᵀ * mink21 * sl2ToSo21 A = mink21 ∧ sl2ToSo21 A * mink21 * (sl2ToSo21 A)ᵀ = mink21 := by
  obtain ⟨h1, h2'⟩ := sl2ToSo21_form h2 A
  rw [h, one_smul] at h1 h2'
  exact ⟨h1, h2'⟩

theorem sl2ToSo21_det (h2 : (2 : K) ≠ 0) (A : Matrix (Fin 2) (Fin 2) K) :
    (sl2ToSo21 A).det = A.det ^ 3 := by
  unfold sl2ToSo21
  rw [Matrix.det_mul, Matrix.det_mul, Matrix.det_mul, Matrix.det_mul, GT.Lie.sl2Irrep_det_3]
  have hP : (perm210 : Matrix (Fin 3) (Fin 3) K).det * perm210.det = 1 := by
    rw [← Matrix.det_mul, perm210_mul_self, Matrix.det_one]
  have hK : (killingConj : Matrix (Fin 3) (Fin 3) K).det * killingConjInv.det = 1 := by
    rw [← Matrix.det_mul, killingConj_mul_inv h2, Matrix.det_one]
  calc perm210.det * killingConj.det * A.det ^ 3 * killingConjInv.det * perm210.det
      = (perm210.det * perm210.det) * (killingConj.det * killingConjInv.det) * A.det ^ 3 := by ring
    _ = A.det ^ 3 := by rw [hP, hK]; ring

/-- `SL(2)` lands in `SO(2,1)`: form preserved and determinant one -/
theorem sl2ToSo21_so21 (h2 : (2 : K) ≠ 0) (A : Matrix (Fin 2) (Fin 2) K) (h : A.det = 1) :
    (sl2ToSo21 A)ᵀ * mink21 * sl2ToSo21 A = mink21 ∧ (sl2ToSo21 A).det = 1 := by
  refine ⟨(sl2ToSo21_isIso h2 A (by rw [h]; ring)).1, ?_⟩
  rw [sl2ToSo21_det h2, h, one_pow]

example : sl2ToSo21 (!![2, 3; 1, 2] : Matrix (Fin 2) (Fin 2) ℚ) = !![9, 4, 8; -4, -1, -4; 8, 4, 7] := by
  ext i j
  fin_cases i <;> fin_cases j <;>
    simp [sl2ToSo21, sl2Irrep_three, perm210, killingConj, killingConjInv, Matrix.mul_apply,
      Fin.sum_univ_succ] <;> norm_num

end so21

/-! ## adjoint representations of `GL(n)` and `SL(n)`, every `n` -/

section adjoint
variable {R : Type*} [CommRing R] {ι : Type*} [DecidableEq ι] [Fintype ι]

/-- `linear_matrix_action` is functorial on linear maps: the matrix of a composite is the
product of the matrices (any index type, so every `n`) -/
theorem linearMatrixAction_mul (f g : Matrix ι ι R →ₗ[R] Matrix ι ι R) :
    linearMatrixAction (fun M => f (g M)) = linearMatrixAction f * linearMatrixAction g :=
  linearMatrixAction_comp f g

/-- `gln_adjoint(A B) = gln_adjoint(A) gln_adjoint(B)` with the inverses that `utils.invert`
returns under its contract (`Ai`, `Bi`; the inverse of `A B` is then `Bi Ai`) -/
theorem glnAdjoint_mul (A Ai B Bi : Matrix ι ι R) :
    glnAdjoint (A * B) (Bi * Ai) = glnAdjoint A Ai * glnAdjoint B Bi := by
  unfold glnAdjoint
  have h := linearMatrixAction_comp (conjLin A Ai) (conjLin B Bi)
  have e1 : (fun M => A * B * M * (Bi * Ai)) = fun M => conjLin A Ai (conjLin B Bi M) := by
    funext M
    simp only [conjLin_apply, Matrix.mul_assoc]
  rw [e1, h]; rfl

/-- the same statement with the inverse of the product supplied by the contract -/
theorem glnAdjoint_mul' (A Ai B Bi ABi : Matrix ι ι R) (hA : Ai * A = 1) (hB : Bi * B = 1)
    (hAB : A * B * ABi = 1) :
    glnAdjoint (A * B) ABi = glnAdjoint A Ai * glnAdjoint B Bi := by
  have : ABi = Bi * Ai := by
    calc ABi = (Bi * Ai * (A * B)) * ABi := by
            rw [show Bi * Ai * (A * B) = Bi * (Ai * A) * B by simp only [Matrix.mul_assoc], hA,
              Matrix.mul_one, hB, Matrix.one_mul]
      _ = Bi * Ai * (A * B * ABi) := by simp only [Matrix.mul_assoc]
      _ = Bi * Ai := by rw [hAB, Matrix.mul_one]
  rw [this, glnAdjoint_mul]

theorem glnAdjoint_one : glnAdjoint (1 : Matrix ι ι R) 1 = 1 := by
  unfold glnAdjoint
  simp only [Matrix.one_mul, Matrix.mul_one]
  exact linearMatrixAction_id

variable {n : ℕ}

theorem slnAdjoint_mul (A Ai B Bi : Matrix (Fin (n + 1)) (Fin (n + 1)) R) (hB : Bi * B = 1) :
    slnAdjoint (A * B) (Bi * Ai) = slnAdjoint A Ai * slnAdjoint B Bi := by
  unfold slnAdjoint
  have h := slnLinearAction_comp (conjLin A Ai) (conjLin B Bi) (by
    intro p
    rw [conjLin_apply, Matrix.trace_mul_cycle, hB, Matrix.one_mul, slnBasis_trace])
  have e1 : (fun M => A * B * M * (Bi * Ai)) = fun M => conjLin A Ai (conjLin B Bi M) := by
    funext M
    simp only [conjLin_apply, Matrix.mul_assoc]
  rw [e1, h]; rfl

theorem slnAdjoint_one : slnAdjoint (1 : Matrix (Fin (n + 1)) (Fin (n + 1)) R) 1 = 1 := by
  unfold slnAdjoint
  simp only [Matrix.one_mul, Matrix.mul_one]
  exact slnLinearAction_id

/-- the adjoint representation preserves `sln_killing_form` (the trace form
`(X,Y) ↦ tr(XY)` in the code's basis, a positive multiple of the Killing form):
`Ad(g)ᵀ κ Ad(g) = κ` -/
theorem killing_invariant (A Ai : Matrix (Fin (n + 1)) (Fin (n + 1)) R) (h1 : Ai * A = 1) :
    (slnAdjoint A Ai)ᵀ * slnKilling * slnAdjoint A Ai = slnKilling := by
  have htr : ∀ p : Fin (n + 1) × Fin (n + 1), Matrix.trace (A * slnBasis (R := R) p * Ai) = 0 := by
    intro p
    rw [Matrix.trace_mul_cycle, h1, Matrix.one_mul, slnBasis_trace]
  have hcol : ∀ p : SlIdx n, (fun s => slnAdjoint A Ai s p) = slnCoords (A * slnBasis p.1 * Ai) := by
    intro p; rfl
  ext p q
  have key := trace_mul_coords (A * slnBasis (R := R) p.1 * Ai) (A * slnBasis q.1 * Ai) (htr p.1) (htr q.1)
  have lhs : ((slnAdjoint A Ai)ᵀ * slnKilling * slnAdjoint A Ai : Matrix (SlIdx n) (SlIdx n) R) p q
      = slnCoords (A * slnBasis p.1 * Ai) ⬝ᵥ (slnKilling *ᵥ slnCoords (A * slnBasis q.1 * Ai)) := by
    simp only [Matrix.mul_apply, Matrix.transpose_apply, dotProduct, Matrix.mulVec, Finset.sum_mul,
      Finset.mul_sum]
    rw [Finset.sum_comm]
    refine Finset.sum_congr rfl fun s _ => Finset.sum_congr rfl fun t _ => ?_
    show slnAdjoint A Ai s p * slnKilling s t * slnAdjoint A Ai t q = _
    rw [show slnAdjoint A Ai s p = slnCoords (A * slnBasis p.1 * Ai) s from rfl,
      show slnAdjoint A Ai t q = slnCoords (A * slnBasis q.1 * Ai) t from rfl]
    ring
  rw [lhs, ← key]
  have : A * slnBasis (R := R) p.1 * Ai * (A * slnBasis q.1 * Ai)
      = A * (slnBasis p.1 * slnBasis q.1) * Ai := by
    calc A * slnBasis (R := R) p.1 * Ai * (A * slnBasis q.1 * Ai)
        = A * slnBasis p.1 * (Ai * A) * slnBasis q.1 * Ai := by simp only [Matrix.mul_assoc]
      _ = _ := by rw [h1, Matrix.mul_one]; simp only [Matrix.mul_assoc]
  rw [this, Matrix.trace_mul_cycle, h1, Matrix.one_mul]
  rfl

/-- non-vacuity: `A = [[2,3],[1,2]]`, `Ai = [[2,-3],[-1,2]]` -/
example : (slnAdjoint (!![2, 3; 1, 2] : Matrix (Fin 2) (Fin 2) ℤ) !![2, -3; -1, 2])ᵀ * slnKilling
    * slnAdjoint !![2, 3; 1, 2] !![2, -3; -1, 2] = slnKilling :=
  killing_invariant _ _ (by
    ext i j; fin_cases i <;> fin_cases j <;> simp [Matrix.mul_apply, Fin.sum_univ_succ])

end adjoint

/-! ## realification and block inclusion, every `n` -/

section blocks
variable {R : Type*} [CommRing R] {n k : ℕ}

/-- `slc_to_slr` is multiplicative: the product of `X₁+iY₁` and `X₂+iY₂` is
`(X₁X₂ - Y₁Y₂) + i(X₁Y₂ + Y₁X₂)` -/
theorem realify_mul (X₁ Y₁ X₂ Y₂ : Matrix (Fin n) (Fin n) R) :
    realify (X₁ * X₂ - Y₁ * Y₂) (X₁ * Y₂ + Y₁ * X₂) = realify X₁ Y₁ * realify X₂ Y₂ := by
  unfold realify
  rw [Matrix.fromBlocks_multiply]
  congr 1
  · rw [Matrix.neg_mul, sub_eq_add_neg]
  · rw [Matrix.mul_neg, Matrix.neg_mul, neg_add, add_comm]
  · rw [add_comm]
  · rw [Matrix.mul_neg, add_comm, sub_eq_add_neg]

/-- WHICH real block form: `slc_to_slr(X + iY)` acts on `(Re v, Im v)` as `X + iY` acts on `v = u + iw`
(real part `Xu - Yw`, imaginary part `Yu + Xw`).  This pins the complex structure: the other multiplicative
choice `[[X, Y], [-Y, X]]` (realification with respect to `-i`) does not satisfy it. -/
theorem realify_acts (X Y : Matrix (Fin n) (Fin n) R) (u w : Fin n → R) :
    realify X Y *ᵥ Sum.elim u w = Sum.elim (X *ᵥ u - Y *ᵥ w) (Y *ᵥ u + X *ᵥ w) := by
  unfold realify
  rw [Matrix.fromBlocks_mulVec]
  simp only [Sum.elim_comp_inl, Sum.elim_comp_inr, Matrix.neg_mulVec, sub_eq_add_neg]

theorem realify_one : realify (1 : Matrix (Fin n) (Fin n) R) 0 = 1 := by
  unfold realify
  rw [neg_zero, Matrix.fromBlocks_one]

/-- the same on matrices with entries in `Cx R` (pairs `re + i·im`), all `n` -/
theorem realifyCx_mul (Z W : Matrix (Fin n) (Fin n) (Cx R)) :
    realifyCx (Z * W) = realifyCx Z * realifyCx W := by
  unfold realifyCx
  rw [← realify_mul]
  congr 1 <;>
  · ext i j
    simp only [Matrix.map_apply, Matrix.mul_apply, Matrix.sub_apply, Matrix.add_apply]
    have hre : ∀ (s : Finset (Fin n)) (f : Fin n → Cx R), (∑ l ∈ s, f l).re = ∑ l ∈ s, (f l).re := by
      intro s f
      induction s using Finset.induction_on with
      | empty => simp
      | insert a s ha ih => rw [Finset.sum_insert ha, Finset.sum_insert ha, Cx.add_re, ih]
    have him : ∀ (s : Finset (Fin n)) (f : Fin n → Cx R), (∑ l ∈ s, f l).im = ∑ l ∈ s, (f l).im := by
      intro s f
      induction s using Finset.induction_on with
      | empty => simp
      | insert a s ha ih => rw [Finset.sum_insert ha, Finset.sum_insert ha, Cx.add_im, ih]
    first
      | rw [hre, ← Finset.sum_sub_distrib]; exact Finset.sum_congr rfl fun l _ => by simp
      | rw [him, ← Finset.sum_add_distrib]; exact Finset.sum_congr rfl fun l _ => by simp

theorem realifyCx_one : realifyCx (1 : Matrix (Fin n) (Fin n) (Cx R)) = 1 := by
  unfold realifyCx
  have h1 : (1 : Matrix (Fin n) (Fin n) (Cx R)).map Cx.re = 1 := by
    ext i j; by_cases h : i = j <;> simp [Matrix.one_apply, h]
  have h2 : (1 : Matrix (Fin n) (Fin n) (Cx R)).map Cx.im = 0 := by
    ext i j; by_cases h : i = j <;> simp [Matrix.one_apply, h]
  rw [h1, h2, realify_one]

theorem blockInclude_mul (A B : Matrix (Fin n) (Fin n) R) :
    blockInclude (k := k) (A * B) = blockInclude A * blockInclude B := by
  unfold blockInclude
  rw [Matrix.fromBlocks_multiply]
  simp

theorem blockInclude_one : blockInclude (k := k) (1 : Matrix (Fin n) (Fin n) R) = 1 := by
  unfold blockInclude
  rw [Matrix.fromBlocks_one]

theorem blockInclude_det (A : Matrix (Fin n) (Fin n) R) : (blockInclude (k := k) A).det = A.det := by
  unfold blockInclude
  rw [Matrix.det_fromBlocks_zero₂₁, Matrix.det_one, mul_one]

example : realifyCx (!![⟨1, 2⟩, ⟨0, 1⟩; ⟨3, 0⟩, ⟨1, -1⟩] * !![⟨0, 1⟩, ⟨2, 0⟩; ⟨1, 1⟩, ⟨0, 3⟩] :
      Matrix (Fin 2) (Fin 2) (Cx ℤ))
    = realifyCx !![⟨1, 2⟩, ⟨0, 1⟩; ⟨3, 0⟩, ⟨1, -1⟩] * realifyCx !![⟨0, 1⟩, ⟨2, 0⟩; ⟨1, 1⟩, ⟨0, 3⟩] :=
  realifyCx_mul _ _

end blocks

/-! ## `SL(2,ℂ) → SO(3,1)` (complex numbers as pairs over `K`) -/

section so31
variable {K : Type*} [Field K]

theorem sl2cToSo31_mul (h2 : (2 : K) ≠ 0) (M N : Matrix (Fin 2) (Fin 2) (Cx K)) :
    sl2cToSo31 (M * N) = sl2cToSo31 M * sl2cToSo31 N := by
  unfold sl2cToSo31
  rw [sl2cHermAction_mul h2]
  have e : so31BasisInv * sl2cHermAction M * so31Basis * (so31BasisInv * sl2cHermAction N * so31Basis)
      = so31BasisInv * sl2cHermAction M * (so31Basis * so31BasisInv) * sl2cHermAction N
        * (so31Basis : Matrix (Fin 4) (Fin 4) K) := by
    simp only [Matrix.mul_assoc]
  rw [e, so31Basis_mul_inv h2, Matrix.mul_one]
  simp only [Matrix.mul_assoc]

theorem sl2cToSo31_one (h2 : (2 : K) ≠ 0) : sl2cToSo31 (1 : Matrix (Fin 2) (Fin 2) (Cx K)) = 1 := by
  unfold sl2cToSo31
  rw [sl2cHermAction_one h2, Matrix.mul_one, so31BasisInv_mul h2]

/-- the imaginary part discarded by `utils.real` is identically zero -/
theorem sl2cHermAction_real (M : Matrix (Fin 2) (Fin 2) (Cx K)) (i j : Fin 4) :
    (sl2cHermActionCx M i j).im = 0 := sl2cHermActionCx_im M i j

/-- the image scales `diag(-1,1,1,1)` by `|det M|²` -/
theorem sl2cToSo31_form (h2 : (2 : K) ≠ 0) (M : Matrix (Fin 2) (Fin 2) (Cx K)) :
    (sl2cToSo31 M)ᵀ * mink31 * sl2cToSo31 M = detNormSq M • (mink31 : Matrix (Fin 4) (Fin 4) K) := by
  unfold sl2cToSo31
  have e : (so31BasisInv * sl2cHermAction M * so31Basis)ᵀ * mink31
        * (so31BasisInv * sl2cHermAction M * so31Basis)
      = so31Basisᵀ * ((sl2cHermAction M)ᵀ * (so31BasisInvᵀ * mink31 * so31BasisInv) * sl2cHermAction M)
        * (so31Basis : Matrix (Fin 4) (Fin 4) K) := by
    simp only [Matrix.transpose_mul, Matrix.mul_assoc]
  rw [e, so31BasisInv_form h2, sl2cHermAction_form h2, Matrix.mul_smul, Matrix.smul_mul,
    so31Basis_form h2]

/-- `SL(2,ℂ)` preserves `diag(-1,1,1,1)` -/
theorem sl2cToSo31_preserves (h2 : (2 : K) ≠ 0) (M : Matrix (Fin 2) (Fin 2) (Cx K)) (h : M.det = 1) :
    (sl2cToSo31 M)ᵀ * mink31 * sl2cToSo31 M = mink31 := by
  rw [sl2cToSo31_form h2, detNormSq, h]
  simp

/-- `det sl2c_to_so31(M) = |det M|⁴`: determinant one on `SL(2,ℂ)` -/
theorem sl2cToSo31_det (h2 : (2 : K) ≠ 0) (M : Matrix (Fin 2) (Fin 2) (Cx K)) :
    (sl2cToSo31 M).det = detNormSq M ^ 2 := sl2cToSo31_det' h2 M

theorem sl2cToSo31_so31 (h2 : (2 : K) ≠ 0) (M : Matrix (Fin 2) (Fin 2) (Cx K)) (h : M.det = 1) :
    (sl2cToSo31 M)ᵀ * mink31 * sl2cToSo31 M = mink31 ∧ (sl2cToSo31 M).det = 1 := by
  refine ⟨sl2cToSo31_preserves h2 M h, ?_⟩
  rw [sl2cToSo31_det h2, detNormSq, h]
  simp

example : detNormSq (!![⟨1, 1⟩, ⟨2, 0⟩; ⟨0, 1⟩, ⟨3 / 2, 1 / 2⟩] : Matrix (Fin 2) (Fin 2) (Cx ℚ)) = 1 := by
  simp [detNormSq, Matrix.det_fin_two]; norm_num

end so31

/-! ## `O(2,1) → PGL(2)`: recovery of `±A` (repaired code) and the pinned tree's failure -/

section pgl
variable {K : Type*} [Field K] [LinearOrder K] [IsStrictOrderedRing K] {r : K → K}

/-- **the last clause of C17 on the repaired tree**: `o_to_pgl (sl2_to_so21 A) = ±A` for
every real 2×2 matrix of non-zero determinant — in particular every `A ∈ SL(2,ℝ)`,
including those with vanishing entries -/
theorem oToPgl_recovers (hr : IsSqrt r) (A : Matrix (Fin 2) (Fin 2) K) (h : A.det ≠ 0) :
    oToPgl r (sl2ToSo21 A) = A ∨ oToPgl r (sl2ToSo21 A) = -A := by
  unfold oToPgl
  rw [oToPglAd_sl2ToSo21 two_ne_zero, normSign_irrep, sl2Irrep_three]
  have hdet : A 0 0 * A 1 1 - A 0 1 * A 1 0 ≠ 0 := by rwa [Matrix.det_fin_two] at h
  have := extract_spec hr
    (!![A 1 1 ^ 2, A 1 0 * A 1 1, A 1 0 ^ 2;
        2 * A 0 1 * A 1 1, A 0 0 * A 1 1 + A 0 1 * A 1 0, 2 * A 0 0 * A 1 0;
        A 0 1 ^ 2, A 0 0 * A 0 1, A 0 0 ^ 2])
    (A 0 0) (A 0 1) (A 1 0) (A 1 1) (by simp) (by simp) (by simp) (by simp) (by simp) (by simp)
    (by simp) (by simp) (by simp) (middle_row_pos _ _ _ _ hdet)
  rcases this with e | e
  · left; rw [e]; ext i j; fin_cases i <;> fin_cases j <;> simp
  · right; rw [e]; ext i j; fin_cases i <;> fin_cases j <;> simp

/-- `O(2,1) → PGL(2)` kills `-1`: the same answer for `-sl2_to_so21 A` -/
theorem oToPgl_neg (A : Matrix (Fin 2) (Fin 2) K) (h : A.det ≠ 0) :
    oToPgl r (-sl2ToSo21 A) = oToPgl r (sl2ToSo21 A) := by
  unfold oToPgl
  rw [oToPglAd_neg, oToPglAd_sl2ToSo21 two_ne_zero, normSign_irrep, normSign_neg_irrep A h]

/-- … hence, on all matrices `±sl2_to_so21 A` (`det A ≠ 0`; for real `A` with `det A = ±1`
these are all of `O(2,1)`), `±A` is recovered -/
theorem oToPgl_recovers_pm (hr : IsSqrt r) (A : Matrix (Fin 2) (Fin 2) K) (h : A.det ≠ 0) (ε : K)
    (hε : ε = 1 ∨ ε = -1) :
    oToPgl r (ε • sl2ToSo21 A) = A ∨ oToPgl r (ε • sl2ToSo21 A) = -A := by
  rcases hε with rfl | rfl
  · rw [one_smul]; exact oToPgl_recovers hr A h
  · rw [neg_one_smul, oToPgl_neg A h]; exact oToPgl_recovers hr A h

/-- … and a homomorphism up to sign on that group of matrices -/
theorem oToPgl_hom_up_to_sign_pm (hr : IsSqrt r) (A B : Matrix (Fin 2) (Fin 2) K)
    (hA : A.det ≠ 0) (hB : B.det ≠ 0) (ε δ : K) (hε : ε = 1 ∨ ε = -1) (hδ : δ = 1 ∨ δ = -1) :
    oToPgl r ((ε • sl2ToSo21 A) * (δ • sl2ToSo21 B))
        = oToPgl r (ε • sl2ToSo21 A) * oToPgl r (δ • sl2ToSo21 B) ∨
    oToPgl r ((ε • sl2ToSo21 A) * (δ • sl2ToSo21 B))
        = -(oToPgl r (ε • sl2ToSo21 A) * oToPgl r (δ • sl2ToSo21 B)) := by
  have hAB : (A * B).det ≠ 0 := by rw [Matrix.det_mul]; exact mul_ne_zero hA hB
  have hprod : (ε • sl2ToSo21 A) * (δ • sl2ToSo21 B) = (ε * δ) • sl2ToSo21 (A * B) := by
    rw [Matrix.smul_mul, Matrix.mul_smul, smul_smul, sl2ToSo21_mul two_ne_zero]
  have hεδ : ε * δ = 1 ∨ ε * δ = -1 := by
    rcases hε with rfl | rfl <;> rcases hδ with rfl | rfl <;> simp
  rw [hprod]
  rcases oToPgl_recovers_pm hr (A * B) hAB _ hεδ with e | e <;>
  rcases oToPgl_recovers_pm hr A hA ε hε with ea | ea <;>
  rcases oToPgl_recovers_pm hr B hB δ hδ with eb | eb <;>
  rw [e, ea, eb] <;> simp

/-- … in particular a homomorphism up to sign on the image of `SL^±(2)` -/
theorem oToPgl_hom_up_to_sign (hr : IsSqrt r) (A B : Matrix (Fin 2) (Fin 2) K)
    (hA : A.det ≠ 0) (hB : B.det ≠ 0) :
    oToPgl r (sl2ToSo21 A * sl2ToSo21 B) = oToPgl r (sl2ToSo21 A) * oToPgl r (sl2ToSo21 B) ∨
    oToPgl r (sl2ToSo21 A * sl2ToSo21 B) = -(oToPgl r (sl2ToSo21 A) * oToPgl r (sl2ToSo21 B)) := by
  rw [← sl2ToSo21_mul two_ne_zero]
  have hAB : (A * B).det ≠ 0 := by rw [Matrix.det_mul]; exact mul_ne_zero hA hB
  rcases oToPgl_recovers hr (A * B) hAB with e | e <;>
  rcases oToPgl_recovers hr A hA with ea | ea <;>
  rcases oToPgl_recovers hr B hB with eb | eb <;>
  rw [e, ea, eb] <;> simp

/-! ### the matrices `±sl2_to_so21 A` form a group, and `o_to_pgl` is a homomorphism to `PGL(2)` on it -/

/-- the set on which the last clause is stated: `{ε · sl2_to_so21 A : ε = ±1, det A ≠ 0}`
(for `det A = ±1` over ℝ: the images of `SL^±(2,ℝ)` and their negatives) -/
def pmImage (K : Type*) [Field K] : Set (Matrix (Fin 3) (Fin 3) K) :=
  {M | ∃ (A : Matrix (Fin 2) (Fin 2) K) (ε : K), A.det ≠ 0 ∧ (ε = 1 ∨ ε = -1) ∧ M = ε • sl2ToSo21 A}

/-- the identity belongs to it -/
theorem pmImage_one : (1 : Matrix (Fin 3) (Fin 3) K) ∈ pmImage K :=
  ⟨1, 1, by simp, Or.inl rfl, by rw [one_smul, sl2ToSo21_one two_ne_zero]⟩

/-- it is closed under products -/
theorem pmImage_mul {M N : Matrix (Fin 3) (Fin 3) K} (hM : M ∈ pmImage K) (hN : N ∈ pmImage K) :
    M * N ∈ pmImage K := by
  obtain ⟨A, ε, hA, hε, rfl⟩ := hM
  obtain ⟨B, δ, hB, hδ, rfl⟩ := hN
  refine ⟨A * B, ε * δ, by rw [Matrix.det_mul]; exact mul_ne_zero hA hB, ?_, ?_⟩
  · rcases hε with rfl | rfl <;> rcases hδ with rfl | rfl <;> simp
  · rw [Matrix.smul_mul, Matrix.mul_smul, smul_smul, sl2ToSo21_mul two_ne_zero]

/-- … and under inverses: every element has a two-sided inverse in the set -/
theorem pmImage_inv {M : Matrix (Fin 3) (Fin 3) K} (hM : M ∈ pmImage K) :
    ∃ N ∈ pmImage K, M * N = 1 ∧ N * M = 1 := by
  obtain ⟨A, ε, hA, hε, rfl⟩ := hM
  have hu : IsUnit A.det := isUnit_iff_ne_zero.2 hA
  have hAi : A⁻¹.det ≠ 0 := by
    have : A.det * A⁻¹.det = 1 := by rw [← Matrix.det_mul, Matrix.mul_nonsing_inv A hu, Matrix.det_one]
    exact fun h => by rw [h, mul_zero] at this; exact zero_ne_one this
  have hεε : ε * ε = 1 := by rcases hε with rfl | rfl <;> simp
  refine ⟨ε • sl2ToSo21 A⁻¹, ⟨A⁻¹, ε, hAi, hε, rfl⟩, ?_, ?_⟩
  · rw [Matrix.smul_mul, Matrix.mul_smul, smul_smul, hεε, one_smul, ← sl2ToSo21_mul two_ne_zero,
      Matrix.mul_nonsing_inv A hu, sl2ToSo21_one two_ne_zero]
  · rw [Matrix.smul_mul, Matrix.mul_smul, smul_smul, hεε, one_smul, ← sl2ToSo21_mul two_ne_zero,
      Matrix.nonsing_inv_mul A hu, sl2ToSo21_one two_ne_zero]

/-- `o_to_pgl` is a homomorphism to `PGL(2) = GL(2)/±` on that group: products go to products up
to sign, the identity to `±1`, and every value has non-zero determinant -/
theorem oToPgl_hom_on_pmImage (hr : IsSqrt r) {M N : Matrix (Fin 3) (Fin 3) K}
    (hM : M ∈ pmImage K) (hN : N ∈ pmImage K) :
    (oToPgl r (M * N) = oToPgl r M * oToPgl r N ∨ oToPgl r (M * N) = -(oToPgl r M * oToPgl r N)) ∧
    (oToPgl r (1 : Matrix (Fin 3) (Fin 3) K) = 1 ∨ oToPgl r (1 : Matrix (Fin 3) (Fin 3) K) = -1) ∧
    (oToPgl r M).det ≠ 0 := by
  obtain ⟨A, ε, hA, hε, rfl⟩ := hM
  obtain ⟨B, δ, hB, hδ, rfl⟩ := hN
  refine ⟨oToPgl_hom_up_to_sign_pm hr A B hA hB ε δ hε hδ, ?_, ?_⟩
  · have := oToPgl_recovers hr (1 : Matrix (Fin 2) (Fin 2) K) (by simp)
    rwa [sl2ToSo21_one two_ne_zero] at this
  · rcases oToPgl_recovers_pm hr A hA ε hε with e | e
    · rw [e]; exact hA
    · rw [e, Matrix.det_neg]; simpa using hA

/-- `sl2_to_so21` is injective up to sign (so `SL(2)/±1` embeds): a consequence of the recovery -/
theorem sl2ToSo21_injective_pm (hr : IsSqrt r) (A B : Matrix (Fin 2) (Fin 2) K) (hA : A.det ≠ 0)
    (hB : B.det ≠ 0) (h : sl2ToSo21 A = sl2ToSo21 B) : A = B ∨ A = -B := by
  rcases oToPgl_recovers hr A hA with ea | ea <;> rcases oToPgl_recovers hr B hB with eb | eb
  · left; rw [← ea, h, eb]
  · right; rw [← ea, h, eb]
  · right; rw [h, eb] at ea; rw [ea, neg_neg]
  · left; rw [h, eb] at ea; exact (neg_injective ea).symm

/-- the image of `SL(2)` preserves the time orientation: the `(0,0)` entry is `≥ 1`, so
`sl2_to_so21(SL(2,ℝ)) ⊆ SO⁺(2,1)` (with `sl2ToSo21_so21`) -/
theorem sl2ToSo21_time_pos (A : Matrix (Fin 2) (Fin 2) K) (h : A.det = 1) : 1 ≤ sl2ToSo21 A 0 0 := by
  rw [sl2ToSo21_explicit two_ne_zero]
  rw [Matrix.det_fin_two] at h
  simp only [Matrix.of_apply, Matrix.cons_val', Matrix.cons_val_zero, Matrix.empty_val', Matrix.cons_val_fin_one]
  rw [le_div_iff₀ (by norm_num : (0 : K) < 2)]
  nlinarith [sq_nonneg (A 0 0 - A 1 1), sq_nonneg (A 0 1 + A 1 0)]

/- NOT PROVED (stated for the record): surjectivity `SO⁺(2,1) ⊆ sl2_to_so21(SL(2,ℝ))`, i.e. that
`pmImage ℝ` restricted to `det A = ±1` is all of `O(2,1)`.  It needs the Veronese relations of the
conjugated matrix to be derived from `MᵀJM = J`, `det M = 1`, `M₀₀ > 0` (a Gröbner-basis style
computation; no `polyrith` in this image).  What is proved: the set is a group (`pmImage_one/mul/inv`),
it lies in `O(2,1)` (`sl2ToSo21_isIso`), `SL(2)` lands in `SO⁺(2,1)` (`sl2ToSo21_so21`,
`sl2ToSo21_time_pos`), the map is injective modulo `±1`, and `o_to_pgl` is its inverse and a
homomorphism to `PGL(2)` on the group. -/

/-! ### the `bilinear_form=` option: any form of signature (2,1), under the `diagonalize_form` contract -/

/-- the default form is the instance `W = Winv = (2,1,0)-permutation` -/
theorem oToPgl_eq_form (S : Matrix (Fin 3) (Fin 3) K) : oToPgl r S = oToPglForm r perm210 perm210 S := rfl

/-- `A_d` is a conjugation, hence multiplicative — *provided* the second matrix returned by
`diagonalize_form` is the inverse of the first (it is `Wᵀ` only when `W` is orthogonal) -/
theorem oToPglAdForm_mul (W Winv S T : Matrix (Fin 3) (Fin 3) K) (hW : W * Winv = 1) :
    oToPglAdForm W Winv (S * T) = oToPglAdForm W Winv S * oToPglAdForm W Winv T := by
  unfold oToPglAdForm
  have e : killingConjInv * Winv * S * (W * killingConj) * (killingConjInv * Winv * T * (W * killingConj))
      = killingConjInv * Winv * S * (W * (killingConj * killingConjInv) * Winv) * T * (W * killingConj) := by
    simp only [Matrix.mul_assoc]
  rw [e, killingConj_mul_inv two_ne_zero, Matrix.mul_one, hW, Matrix.mul_one]
  simp only [Matrix.mul_assoc]

/-- if `W` carries the given form to the standard one so that the conjugated isometry is the
image of `A` (`Winv S W = P · sl2_to_so21 A · P`), `o_to_pgl(S, form)` is `±A` -/
theorem oToPglForm_recovers (hr : IsSqrt r) (A : Matrix (Fin 2) (Fin 2) K) (h : A.det ≠ 0)
    (W Winv S : Matrix (Fin 3) (Fin 3) K) (hS : Winv * S * W = perm210 * sl2ToSo21 A * perm210) :
    oToPglForm r W Winv S = A ∨ oToPglForm r W Winv S = -A := by
  have e : oToPglAdForm W Winv S = oToPglAd (sl2ToSo21 A) := by
    unfold oToPglAdForm oToPglAd
    calc killingConjInv * Winv * S * (W * killingConj)
        = killingConjInv * (Winv * S * W) * killingConj := by simp only [Matrix.mul_assoc]
      _ = killingConjInv * perm210 * sl2ToSo21 A * (perm210 * killingConj) := by
          rw [hS]; simp only [Matrix.mul_assoc]
  have := oToPgl_recovers hr A h
  unfold oToPglForm
  unfold oToPgl at this
  rw [e]; exact this

/-- **negative result for the pinned tree** (D11): with its entry/sign extraction,
`o_to_pgl (sl2_to_so21 A)` for `A = [[2,3],[1,2]] ∈ SL(2)` is `[[2,1],[3,2]] = P·A·P`, which is
neither `A` nor `-A`: the last clause of the property is false of the pinned code -/
theorem oToPglPinned_not_recovers (hr : IsSqrt r) :
    oToPglPinned r (sl2ToSo21 (!![2, 3; 1, 2] : Matrix (Fin 2) (Fin 2) K)) = !![2, 1; 3, 2] ∧
    ¬ (oToPglPinned r (sl2ToSo21 (!![2, 3; 1, 2] : Matrix (Fin 2) (Fin 2) K)) = !![2, 3; 1, 2] ∨
       oToPglPinned r (sl2ToSo21 (!![2, 3; 1, 2] : Matrix (Fin 2) (Fin 2) K)) = -!![2, 3; 1, 2]) := by
  have r4 : r |(2 : K) ^ 2| = 2 := by rw [isSqrt_abs_sq hr, abs_of_pos]; norm_num
  have r9 : r |(3 : K) ^ 2| = 3 := by rw [isSqrt_abs_sq hr, abs_of_pos]; norm_num
  have r1 : r |(1 : K) ^ 2| = 1 := by rw [isSqrt_abs_sq hr, abs_of_pos]; norm_num
  have hval : oToPglPinned r (sl2ToSo21 (!![2, 3; 1, 2] : Matrix (Fin 2) (Fin 2) K)) = !![2, 1; 3, 2] := by
    unfold oToPglPinned
    rw [oToPglAd_sl2ToSo21 two_ne_zero, sl2Irrep_three]
    unfold extractPinned
    simp only [Matrix.of_apply, Matrix.cons_val', Matrix.cons_val_zero, Matrix.cons_val_one,
      Matrix.cons_val_two, Matrix.head_cons, Matrix.tail_cons, Matrix.empty_val', Matrix.cons_val_fin_one,
      Matrix.head_fin_const]
    simp only [r4, r9, r1]
    norm_num
  refine ⟨hval, ?_⟩
  rw [hval]
  rintro (e | e)
  · have := congrFun (congrFun e 0) 1
    norm_num at this
  · have := congrFun (congrFun e 0) 0
    norm_num at this

/-- what the pinned extraction does compute (**partial**: only under `c ≠ 0`, `d ≠ 0`; when
an entry vanishes the pinned signs are wrong, e.g. `[[0,1],[-1,0]] ↦ [[0,1],[1,0]]`):
`o_to_pgl (sl2_to_so21 A) = ±P·A·P`, `P` the swap matrix -/
theorem oToPglPinned_partial (hr : IsSqrt r) (A : Matrix (Fin 2) (Fin 2) K)
    (hc : A 1 0 ≠ 0) (hd : A 1 1 ≠ 0) :
    oToPglPinned r (sl2ToSo21 A) = !![A 1 1, A 1 0; A 0 1, A 0 0] ∨
    oToPglPinned r (sl2ToSo21 A) = -!![A 1 1, A 1 0; A 0 1, A 0 0] := by
  unfold oToPglPinned
  rw [oToPglAd_sl2ToSo21 two_ne_zero, sl2Irrep_three]
  unfold extractPinned
  simp only [Matrix.of_apply, Matrix.cons_val', Matrix.cons_val_zero, Matrix.cons_val_one,
    Matrix.cons_val_two, Matrix.head_cons, Matrix.tail_cons, Matrix.empty_val', Matrix.cons_val_fin_one,
    Matrix.head_fin_const]
  set a := A 0 0
  set b := A 0 1
  set c := A 1 0
  set d := A 1 1
  have hdd : r |d ^ 2| = |d| := isSqrt_abs_sq hr d
  have hcc : r |c ^ 2| = |c| := isSqrt_abs_sq hr c
  have hbb : r |b ^ 2| = |b| := isSqrt_abs_sq hr b
  have haa : r |a ^ 2| = |a| := isSqrt_abs_sq hr a
  rw [hdd, hcc, hbb, haa]
  have hc2 : 0 < c ^ 2 := by positivity
  rcases lt_or_gt_of_ne hd with hd0 | hd0
  · -- d < 0: everything comes out negated
    right
    have e1 : (if c * d < 0 then -|c| else |c|) = -c := by
      rcases lt_or_gt_of_ne hc with h | h
      · rw [if_neg (not_lt.2 (mul_pos_of_neg_of_neg h hd0).le), abs_of_neg h]
      · rw [if_pos (mul_neg_of_pos_of_neg h hd0), abs_of_pos h]
    have e2 : (if 2 * b * d < 0 then -|b| else |b|) = -b := by
      rcases lt_trichotomy b 0 with h | h | h
      · rw [if_neg (by nlinarith), abs_of_neg h]
      · rw [h]; simp
      · rw [if_pos (by nlinarith), abs_of_pos h]
    have e3 : (if 2 * a * c * (c * d) < 0 then -|a| else |a|) = -a := by
      have : 2 * a * c * (c * d) = 2 * (c ^ 2 * d) * a := by ring
      have hneg : c ^ 2 * d < 0 := mul_neg_of_pos_of_neg hc2 hd0
      rcases lt_trichotomy a 0 with h | h | h
      · rw [if_neg (by rw [this]; nlinarith), abs_of_neg h]
      · rw [h]; simp
      · rw [if_pos (by rw [this]; nlinarith), abs_of_pos h]
    rw [e1, e2, e3, abs_of_neg hd0]
    ext i j; fin_cases i <;> fin_cases j <;> simp
  · left
    have e1 : (if c * d < 0 then -|c| else |c|) = c := by
      rcases lt_or_gt_of_ne hc with h | h
      · rw [if_pos (mul_neg_of_neg_of_pos h hd0), abs_of_neg h, neg_neg]
      · rw [if_neg (not_lt.2 (mul_pos h hd0).le), abs_of_pos h]
    have e2 : (if 2 * b * d < 0 then -|b| else |b|) = b := by
      rcases lt_trichotomy b 0 with h | h | h
      · rw [if_pos (by nlinarith), abs_of_neg h, neg_neg]
      · rw [h]; simp
      · rw [if_neg (by nlinarith), abs_of_pos h]
    have e3 : (if 2 * a * c * (c * d) < 0 then -|a| else |a|) = a := by
      have : 2 * a * c * (c * d) = 2 * (c ^ 2 * d) * a := by ring
      have hpos : 0 < c ^ 2 * d := mul_pos hc2 hd0
      rcases lt_trichotomy a 0 with h | h | h
      · rw [if_pos (by rw [this]; nlinarith), abs_of_neg h, neg_neg]
      · rw [h]; simp
      · rw [if_neg (by rw [this]; nlinarith), abs_of_pos h]
    rw [e1, e2, e3, abs_of_pos hd0]

end pgl

/-- the statement read by a user: over ℝ with `Real.sqrt`, `o_to_pgl ∘ sl2_to_so21 = ±id` on `SL(2,ℝ)` -/
theorem oToPgl_recovers_real (A : Matrix (Fin 2) (Fin 2) ℝ) (h : A.det = 1) :
    oToPgl Real.sqrt (sl2ToSo21 A) = A ∨ oToPgl Real.sqrt (sl2ToSo21 A) = -A :=
  oToPgl_recovers (fun x hx => ⟨Real.sqrt_nonneg x, Real.mul_self_sqrt hx⟩) A (by rw [h]; exact one_ne_zero)

example : (!![0, 1; -1, 0] : Matrix (Fin 2) (Fin 2) ℝ).det = 1 := by simp [Matrix.det_fin_two]

end GT.C17
