/-
C07 — Coxeter automata accept exactly the geodesic / shortlex normal forms.   (PARTIAL)

Only property theorems and non-vacuity examples live here; helper lemmas are in
`GT.Lemmas.CoxAut`.  Model: `GT.Model.CoxAut`.

What is proved: the *structural* clauses — the constructed automaton is a well-formed partial
DFA, accepts no word containing `kk`, the shortlex language is contained in the geodesic
language, the even-length variant accepts exactly the even-length accepted words, and braid
moves / `ss`-deletions preserve the group element (Mathlib `CoxeterSystem`), so a shortening
move sequence is a kernel-checkable certificate that a word is not reduced.

NOT PROVED — kept as a comment, never as a theorem (Mathlib has no root systems of Coxeter
groups, no exchange/deletion condition, no Matsumoto theorem, no dominance order; formalising
Brink–Howlett is out of reach here):

    -- for every Coxeter matrix M with small roots computed by `findSmallRoots` (ε = 0):
    --   (generateAutomaton … false …).accepts w  ↔  cs.IsReduced w
    --   (generateAutomaton … true  …).accepts w  ↔  cs.IsReduced w ∧ ∀ w', cs.IsReduced w' →
    --        cs.wordProd w' = cs.wordProd w → w ≤ w'   (lexicographic in the generator order)
    --   hence: #accepted words of length ℓ = #{g | ℓ(g) = ℓ}, and distinct accepted shortlex
    --   words have distinct images under the faithful canonical representation.
    --   Also not proved: termination of `findSmallRoots` (the Brink–Howlett finiteness theorem).

These clauses are covered only by the bounded comparison in `props/C07.py`, which is a test.
-/
import GT.Lemmas.CoxAut
import Mathlib.GroupTheory.Coxeter.Length
import Mathlib.Logic.Relation

namespace GT.C07
open GT.CoxAut

/-! ## the constructed automaton is a well-formed partial DFA -/

/-- `generate_automaton` returns a partial DFA on the states `0..N-1`: one row per discovered
node, the start node (all zeros) is state `0`, every row has one entry per generator, and every
transition target is a state.  (Determinism is built into the table type: at most one target
per state and letter.) -/
theorem automaton_wf {nb : Nat → Nat → Option Nat} {nroots rank : Nat} {lex : Bool} {fuel : Nat}
    {N : List (List Bool)} {A : Table}
    (h : generateAutomaton nb nroots rank lex fuel = some (N, A)) :
    A.length = N.length ∧ N[0]? = some (List.replicate nroots false) ∧
      (∀ row ∈ A, row.length = rank) ∧
      ∀ s k t, A.step s k = some t → k < rank ∧ t < A.length := by
  have hF := final_of_bfs (succNode nb lex nroots) rank h
  refine ⟨hF.len, hF.start, ?_, ?_⟩
  · intro row hr
    obtain ⟨s, hs, rfl⟩ := List.getElem_of_mem hr
    have hs' : s < N.length := by rw [← hF.len]; exact hs
    exact (hF.rows s N[s] A[s] (List.getElem?_eq_getElem hs') (List.getElem?_eq_getElem hs)).1
  · intro s k t hst
    have hs : s < N.length := by
      rw [← hF.len]
      unfold Table.step at hst
      rcases Nat.lt_or_ge s A.length with h' | h'
      · exact h'
      · rw [List.getElem?_eq_none h'] at hst; cases hst
    obtain ⟨hk, _, hn⟩ := hF.step_some (List.getElem?_eq_getElem hs) hst
    refine ⟨hk, ?_⟩
    rw [hF.len]
    rcases Nat.lt_or_ge t N.length with h' | h'
    · exact h'
    · rw [List.getElem?_eq_none h'] at hn; cases hn

/-- the table is exactly the tabulation of the run on small-root sets: a word is accepted iff
every letter `k` is read at a node whose bit `k` is clear -/
theorem accepts_iff_run {nb : Nat → Nat → Option Nat} {nroots rank : Nat} {lex : Bool} {fuel : Nat}
    {N : List (List Bool)} {A : Table}
    (h : generateAutomaton nb nroots rank lex fuel = some (N, A)) (w : List Nat) :
    A.accepts w ↔ (run (succNode nb lex nroots) rank (List.replicate nroots false) w).isSome := by
  have hF := final_of_bfs (succNode nb lex nroots) rank h
  obtain ⟨h1, h2⟩ := hF.follow_run w 0 _ hF.start
  unfold Table.accepts
  constructor
  · intro ha
    obtain ⟨t, ht⟩ := Option.isSome_iff_exists.1 ha
    obtain ⟨node', _, hr⟩ := h1 t ht
    rw [hr]; rfl
  · intro hr
    obtain ⟨node', hn⟩ := Option.isSome_iff_exists.1 hr
    obtain ⟨t, ht, _⟩ := h2 node' hn
    rw [ht]; rfl

/-- **no accepted word contains `kk`**: after reading `k` the state has bit `k` set, and a set
bit `k` suppresses the `k`-transition (`rank ≤ nroots`: the simple roots are small roots) -/
theorem no_square {nb : Nat → Nat → Option Nat} {nroots rank : Nat} {lex : Bool} {fuel : Nat}
    {N : List (List Bool)} {A : Table}
    (h : generateAutomaton nb nroots rank lex fuel = some (N, A)) (hr : rank ≤ nroots)
    (u v : List Nat) (k : Nat) : ¬ A.accepts (u ++ k :: k :: v) := by
  rw [accepts_iff_run h, run_append]
  cases hu : run (succNode nb lex nroots) rank (List.replicate nroots false) u with
  | none => simp
  | some x =>
    have hnone : run (succNode nb lex nroots) rank x (k :: k :: v) = none := by
      by_cases hc : k < rank ∧ x.getD k false = false
      · have hb : (succNode nb lex nroots k x).getD k false = true := by
          rw [succNode_getD, if_pos (Nat.lt_of_lt_of_le hc.1 hr), applyGenToNode_self]
        have h2 : ¬ (k < rank ∧ (succNode nb lex nroots k x).getD k false = false) := by
          rintro ⟨_, h⟩; rw [hb] at h; cases h
        rw [run, if_pos hc, run, if_neg h2]
      · rw [run, if_neg hc]
    simp [hnone]

/-- **every shortlex-accepted word is geodesic-accepted**: along any word the lex-pruned node
contains the unpruned node, and a letter allowed at the larger node is allowed at the smaller -/
theorem shortlex_subset_geodesic {nb : Nat → Nat → Option Nat} {nroots rank : Nat} {f₁ f₂ : Nat}
    {N₁ N₂ : List (List Bool)} {A_lex A_geo : Table}
    (h₁ : generateAutomaton nb nroots rank true f₁ = some (N₁, A_lex))
    (h₂ : generateAutomaton nb nroots rank false f₂ = some (N₂, A_geo)) (w : List Nat) :
    A_lex.accepts w → A_geo.accepts w := by
  rw [accepts_iff_run h₁, accepts_iff_run h₂]
  intro ha
  obtain ⟨x', hx⟩ := Option.isSome_iff_exists.1 ha
  obtain ⟨y', hy, _⟩ := run_mono nb nroots rank w _ _ x' (fun p hp => hp) hx
  rw [hy]; rfl

/-! ## the even-length variant -/

/-- **even variant, transition level**: a sequence of 2-letter labels is a path of
`automaton_multiple(2)`'s transition relation iff the concatenated word is a path of the
original automaton (same end state).  Every word of even length is `unblock` of exactly one
label sequence, so the product automaton accepts exactly the accepted words of even length. -/
theorem even_step (A : Table) (s : Nat) (ps : List (Nat × Nat)) :
    follow2 A s ps = A.follow s (unblock ps) := by
  induction ps generalizing s with
  | nil => rfl
  | cons p ps ih =>
    simp only [follow2, unblock, List.flatMap_cons, List.cons_append, List.nil_append,
      Table.follow, Table.step2]
    cases h1 : A.step s p.1 with
    | none => simp
    | some t =>
      simp only [Option.bind_some]
      cases h2 : A.step t p.2 with
      | none => simp
      | some t' => simp only [Option.bind_some]; exact ih t'

/-- **even variant**: the automaton built by `automaton_multiple(2)` (breadth-first from the start
state, as the code does it) follows a sequence of 2-letter labels exactly as the original automaton
follows the concatenated word — same end state, same acceptance.  Together with `exists_unblock`
and `unblock_length`: it accepts exactly the accepted words of even length. -/
theorem even_variant {A : Table} {rank fuel : Nat} {E : EvenG} (hA : ∀ row ∈ A, row.length ≤ rank)
    (h : evenAutomaton A rank fuel = some E) (ps : List (Nat × Nat)) :
    E.follow 0 ps = A.follow 0 (unblock ps) := by
  obtain ⟨vis, hI⟩ := evenBfs_spec A rank hA fuel [0] [] [] E h
    ⟨fun v => by simp, fun v hv => (by cases hv), Or.inr (by simp)⟩
  have h0 : 0 ∈ vis := by
    rcases hI.start with h | h
    · exact h
    · cases h
  rw [even_follow A rank hA vis E hI ps 0 h0, even_step]

theorem unblock_length (ps : List (Nat × Nat)) : (unblock ps).length = 2 * ps.length := by
  induction ps with
  | nil => rfl
  | cons p ps ih => simp only [unblock, List.flatMap_cons, List.length_append, List.length_cons,
      List.length_nil] at ih ⊢; omega

/-- every word of even length is the block word of a label sequence -/
theorem exists_unblock (w : List Nat) (h : w.length % 2 = 0) : ∃ ps, unblock ps = w := by
  induction hn : w.length using Nat.strong_induction_on generalizing w with
  | _ n ih =>
    match w, hn with
    | [], _ => exact ⟨[], rfl⟩
    | [a], hn => simp at h
    | a :: b :: w', hn =>
      obtain ⟨ps, hps⟩ := ih w'.length (by simp at hn; omega) w' (by simp at h; omega) rfl
      exact ⟨(a, b) :: ps, by simp [unblock] at hps ⊢; exact hps⟩

/-! ## braid moves are sound (Mathlib `CoxeterSystem`) -/

section braid
variable {B W : Type*} [Group W] {M : CoxeterMatrix B} (cs : CoxeterSystem M W)

/-- one rewriting step of Tits' solution of the word problem: a braid move
`(i j i …)_{m} → (j i j …)_{m}` (`m = M i j`) or the deletion of a square `i i` -/
inductive Move (M : CoxeterMatrix B) : List B → List B → Prop
  | braid (u v : List B) (i j : B) :
      Move M (u ++ CoxeterSystem.braidWord M i j ++ v) (u ++ CoxeterSystem.braidWord M j i ++ v)
  | square (u v : List B) (i : B) : Move M (u ++ [i, i] ++ v) (u ++ v)

/-- a move does not change the group element -/
theorem move_sound {w w' : List B} (h : Move M w w') : cs.wordProd w = cs.wordProd w' := by
  cases h with
  | braid u v i j =>
    simp only [CoxeterSystem.wordProd_append, cs.wordProd_braidWord_eq i j]
  | square u v i =>
    simp only [CoxeterSystem.wordProd_append, CoxeterSystem.wordProd_cons,
      CoxeterSystem.wordProd_nil, mul_one, cs.simple_mul_simple_self, mul_one]

/-- **braid_moves_sound**: a word obtained from `w` by braid moves and `ss`-deletions has the
same `wordProd` -/
theorem braid_moves_sound {w w' : List B} (h : Relation.ReflTransGen (Move M) w w') :
    cs.wordProd w = cs.wordProd w' := by
  induction h with
  | refl => rfl
  | tail _ hm ih => rw [ih, move_sound cs hm]

/-- … hence a move sequence that shortens `w` is a certificate that `w` is **not reduced** -/
theorem not_reduced_of_moves {w w' : List B} (h : Relation.ReflTransGen (Move M) w w')
    (hl : w'.length < w.length) : ¬ cs.IsReduced w := by
  intro hr
  have h1 : cs.length (cs.wordProd w) = w.length := hr
  have h2 := cs.length_wordProd_le w'
  rw [← braid_moves_sound cs h, h1] at h2
  omega

end braid

/-! ## executable certificates -/

section
variable {B : Type} [DecidableEq B] {W : Type*} [Group W] {M : CoxeterMatrix B} (cs : CoxeterSystem M W)

theorem applyStep_sound {w w' : List B} {s : CertStep} (h : applyStep (fun a b => M a b) w s = some w') :
    Move M w w' := by
  cases s with
  | square pos =>
    simp only [applyStep] at h
    split at h
    · rename_i a b rest hd
      split at h
      · rename_i hab
        subst hab
        cases h
        have : w = w.take pos ++ [a, a] ++ rest := by
          conv_lhs => rw [← List.take_append_drop pos w, hd]
          simp
        have key := Move.square (M := M) (w.take pos) rest a
        rw [← this] at key
        exact key
      · cases h
    · cases h
  | braid pos =>
    simp only [applyStep] at h
    split at h
    · rename_i a b rest hd
      split at h
      · rename_i hc
        cases h
        obtain ⟨h1, h2⟩ := hc
        have hw : w = w.take pos ++ altFrom a b (M a b) ++ w.drop (pos + M a b) := by
          conv_lhs => rw [← List.take_append_drop pos w, ← List.take_append_drop (M a b) (w.drop pos), h1]
          simp [List.drop_drop, List.append_assoc]
        rw [altFrom_eq] at hw
        rw [altFrom_eq]
        have hsym : M b a = M a b := M.symmetric b a
        by_cases he : Even (M a b)
        · rw [if_pos he] at hw ⊢
          conv_lhs => rw [hw]
          have := Move.braid (M := M) (w.take pos) (w.drop (pos + M a b)) a b
          unfold CoxeterSystem.braidWord at this
          rw [hsym] at this
          exact this
        · rw [if_neg he] at hw ⊢
          conv_lhs => rw [hw]
          have := Move.braid (M := M) (w.take pos) (w.drop (pos + M a b)) b a
          unfold CoxeterSystem.braidWord at this
          rw [hsym] at this
          exact this
      · cases h
    · cases h

/-- **certificate soundness**: if the executable checker accepts a certificate turning `w` into a
shorter word, then `w` is not reduced in *any* Coxeter system with that matrix -/
theorem checkCert_sound : ∀ (steps : List CertStep) (w w' : List B),
    checkCert (fun a b => M a b) w steps = some w' → Relation.ReflTransGen (Move M) w w'
  | [], w, w', h => by simp only [checkCert, Option.some.injEq] at h; subst h; exact .refl
  | s :: ss, w, w', h => by
    simp only [checkCert] at h
    cases h1 : applyStep (fun a b => M a b) w s with
    | none => rw [h1] at h; cases h
    | some w1 =>
      rw [h1] at h
      exact Relation.ReflTransGen.head (applyStep_sound h1) (checkCert_sound ss w1 w' h)

theorem not_reduced_of_cert (steps : List CertStep) (w w' : List B)
    (h : checkCert (fun a b => M a b) w steps = some w') (hl : w'.length < w.length) :
    ¬ cs.IsReduced w :=
  not_reduced_of_moves cs (checkCert_sound steps w w' h) hl
end

/-! ## non-vacuity -/

/-- the hypotheses of `automaton_wf`, `no_square`, `shortlex_subset_geodesic` are satisfiable:
the infinite dihedral group (two simple roots, no neighbours) -/
example : generateAutomaton (fun _ _ => none) 2 2 true 10 =
    some ([[false, false], [true, false], [false, true]],
      [[some 1, some 2], [none, some 2], [some 1, none]]) := by decide

/-- `not_reduced_of_moves` applies: in any Coxeter system `i i` is not reduced -/
example {B W : Type*} [Group W] {M : CoxeterMatrix B} (cs : CoxeterSystem M W) (i : B) :
    ¬ cs.IsReduced [i, i] :=
  not_reduced_of_moves cs (w' := []) (Relation.ReflTransGen.single (Move.square [] [] i)) (by simp)

/-- the certificate checker accepts a genuine certificate: in the (3,3,∞)-type matrix with `m(0,1) = 3`
the word `0 1 0 1` is rewritten by a braid move at 0 to `1 0 1 1` and the square at 2 is deleted -/
example : checkCert (fun a b : Nat => if a = b then 1 else if a + b = 1 then 3 else 0) [0, 1, 0, 1]
    [.braid 0, .square 2] = some [1, 0] := by decide

end GT.C07
