/-
C07 — Coxeter automata accept exactly the geodesic / shortlex normal forms.   (PARTIAL: proved in rank 2)

Only property theorems and non-vacuity examples live here; helper lemmas are in
`GT.Lemmas.CoxAut`.  Model: `GT.Model.CoxAut`.

What is proved: the *structural* clauses — the constructed automaton is a well-formed partial
DFA, accepts no word containing `kk`, the shortlex language is contained in the geodesic
language, the even-length variant accepts exactly the even-length accepted words, and braid
moves / `ss`-deletions preserve the group element (Mathlib `CoxeterSystem`), so a shortening
move sequence is a kernel-checkable certificate that a word is not reduced.

The central clause is PROVED FOR RANK 2 (dihedral groups, every `m ≥ 2` and `m = ∞`; see the section
"rank 2" below).  FOR RANK ≥ 3 it is
NOT PROVED — kept as a comment, never as a theorem (Mathlib has no root systems of Coxeter
groups, no exchange/deletion condition, no Matsumoto theorem, no dominance order; formalising
Brink–Howlett is out of reach here):

    -- for every Coxeter matrix M with small roots computed by `findSmallRoots` (ε = 0):
    --   (generateAutomaton … false …).accepts w  ↔  cs.IsReduced w
    --   (generateAutomaton … true  …).accepts w  ↔  cs.IsReduced w ∧ ∀ w', cs.IsReduced w' →
    --        cs.wordProd w' = cs.wordProd w → w ≤ w'   (lexicographic in the generator order)
    --   hence: #accepted words of length ℓ = #{g | ℓ(g) = ℓ}, and distinct accepted shortlex
    --   words have distinct images under the faithful canonical representation.
    --   Also not proved: termination of `findSmallRoots` (the Brink–Howlett finiteness theorem).

These clauses are covered only by the bounded comparison in `props/C07.py`, which is a test.
-/
import GT.Lemmas.CoxAut
import GT.Lemmas.CoxRank2
import Mathlib.GroupTheory.Coxeter.Length
import Mathlib.Logic.Relation

namespace GT.C07
open GT.CoxAut

/-! ## the constructed automaton is a well-formed partial DFA -/

/-- `generate_automaton` returns a partial DFA on the states `0..N-1`: one row per discovered
node, the start node (all zeros) is state `0`, every row has one entry per generator, and every
transition target is a state.  (Determinism is built into the table type: at most one target
per state and letter.) -/
theorem automaton_wf {nb : Nat → Nat → Option Nat} {nroots rank : Nat} {lex : Bool} {fuel : Nat}
    {N : List (List Bool)} {A : Table}
    (h : generateAutomaton nb nroots rank lex fuel = some (N, A)) :
    A.length = N.length ∧ N[0]? = some (List.replicate nroots false) ∧
      (∀ row ∈ A, row.length = rank) ∧
      ∀ s k t, A.step s k = some t → k < rank ∧ t < A.length := by
  have hF := final_of_bfs (succNode nb lex nroots) rank h
  refine ⟨hF.len, hF.start, ?_, ?_⟩
  · intro row hr
    obtain ⟨s, hs, rfl⟩ := List.getElem_of_mem hr
    have hs' : s < N.length := by rw [← hF.len]; exact hs
    exact (hF.rows s N[s] A[s] (List.getElem?_eq_getElem hs') (List.getElem?_eq_getElem hs)).1
  · intro s k t hst
    have hs : s < N.length := by
      rw [← hF.len]
      unfold Table.step at hst
      rcases Nat.lt_or_ge s A.length with h' | h'
      · exact h'
      · rw [List.getElem?_eq_none h'] at hst; cases hst
    obtain ⟨hk, _, hn⟩ := hF.step_some (List.getElem?_eq_getElem hs) hst
    refine ⟨hk, ?_⟩
    rw [hF.len]
    rcases Nat.lt_or_ge t N.length with h' | h'
    · exact h'
    · rw [List.getElem?_eq_none h'] at hn; cases hn

/-- the table is exactly the tabulation of the run on small-root sets: a word is accepted iff
every letter `k` is read at a node whose bit `k` is clear -/
theorem accepts_iff_run {nb : Nat → Nat → Option Nat} {nroots rank : Nat} {lex : Bool} {fuel : Nat}
    {N : List (List Bool)} {A : Table}
    (h : generateAutomaton nb nroots rank lex fuel = some (N, A)) (w : List Nat) :
    A.accepts w ↔ (run (succNode nb lex nroots) rank (List.replicate nroots false) w).isSome := by
  have hF := final_of_bfs (succNode nb lex nroots) rank h
  obtain ⟨h1, h2⟩ := hF.follow_run w 0 _ hF.start
  unfold Table.accepts
  constructor
  · intro ha
    obtain ⟨t, ht⟩ := Option.isSome_iff_exists.1 ha
    obtain ⟨node', _, hr⟩ := h1 t ht
    rw [hr]; rfl
  · intro hr
    obtain ⟨node', hn⟩ := Option.isSome_iff_exists.1 hr
    obtain ⟨t, ht, _⟩ := h2 node' hn
    rw [ht]; rfl

/-- **no accepted word contains `kk`**: after reading `k` the state has bit `k` set, and a set
bit `k` suppresses the `k`-transition (`rank ≤ nroots`: the simple roots are small roots) -/
theorem no_square {nb : Nat → Nat → Option Nat} {nroots rank : Nat} {lex : Bool} {fuel : Nat}
    {N : List (List Bool)} {A : Table}
    (h : generateAutomaton nb nroots rank lex fuel = some (N, A)) (hr : rank ≤ nroots)
    (u v : List Nat) (k : Nat) : ¬ A.accepts (u ++ k :: k :: v) := by
  rw [accepts_iff_run h, run_append]
  cases hu : run (succNode nb lex nroots) rank (List.replicate nroots false) u with
  | none => simp
  | some x =>
    have hnone : run (succNode nb lex nroots) rank x (k :: k :: v) = none := by
      by_cases hc : k < rank ∧ x.getD k false = false
      · have hb : (succNode nb lex nroots k x).getD k false = true := by
          rw [succNode_getD, if_pos (Nat.lt_of_lt_of_le hc.1 hr), applyGenToNode_self]
        have h2 : ¬ (k < rank ∧ (succNode nb lex nroots k x).getD k false = false) := by
          rintro ⟨_, h⟩; rw [hb] at h; cases h
        rw [run, if_pos hc, run, if_neg h2]
      · rw [run, if_neg hc]
    simp [hnone]

/-- **every shortlex-accepted word is geodesic-accepted**: along any word the lex-pruned node
contains the unpruned node, and a letter allowed at the larger node is allowed at the smaller -/
theorem shortlex_subset_geodesic {nb : Nat → Nat → Option Nat} {nroots rank : Nat} {f₁ f₂ : Nat}
    {N₁ N₂ : List (List Bool)} {A_lex A_geo : Table}
    (h₁ : generateAutomaton nb nroots rank true f₁ = some (N₁, A_lex))
    (h₂ : generateAutomaton nb nroots rank false f₂ = some (N₂, A_geo)) (w : List Nat) :
    A_lex.accepts w → A_geo.accepts w := by
  rw [accepts_iff_run h₁, accepts_iff_run h₂]
  intro ha
  obtain ⟨x', hx⟩ := Option.isSome_iff_exists.1 ha
  obtain ⟨y', hy, _⟩ := run_mono nb nroots rank w _ _ x' (fun p hp => hp) hx
  rw [hy]; rfl

/-! ## the even-length variant -/

/-- **even variant, transition level**: a sequence of 2-letter labels is a path of
`automaton_multiple(2)`'s transition relation iff the concatenated word is a path of the
original automaton (same end state).  Every word of even length is `unblock` of exactly one
label sequence, so the product automaton accepts exactly the accepted words of even length. -/
theorem even_step (A : Table) (s : Nat) (ps : List (Nat × Nat)) :
    follow2 A s ps = A.follow s (unblock ps) := by
  induction ps generalizing s with
  | nil => rfl
  | cons p ps ih =>
    simp only [follow2, unblock, List.flatMap_cons, List.cons_append, List.nil_append,
      Table.follow, Table.step2]
    cases h1 : A.step s p.1 with
    | none => simp
    | some t =>
      simp only [Option.bind_some]
      cases h2 : A.step t p.2 with
      | none => simp
      | some t' => simp only [Option.bind_some]; exact ih t'

/-- **even variant**: the automaton built by `automaton_multiple(2)` (breadth-first from the start
state, as the code does it) follows a sequence of 2-letter labels exactly as the original automaton
follows the concatenated word — same end state, same acceptance.  Together with `exists_unblock`
and `unblock_length`: it accepts exactly the accepted words of even length. -/
theorem even_variant {A : Table} {rank fuel : Nat} {E : EvenG} (hA : ∀ row ∈ A, row.length ≤ rank)
    (h : evenAutomaton A rank fuel = some E) (ps : List (Nat × Nat)) :
    E.follow 0 ps = A.follow 0 (unblock ps) := by
  obtain ⟨vis, hI⟩ := evenBfs_spec A rank hA fuel [0] [] [] E h
    ⟨fun v => by simp, fun v hv => (by cases hv), Or.inr (by simp)⟩
  have h0 : 0 ∈ vis := by
    rcases hI.start with h | h
    · exact h
    · cases h
  rw [even_follow A rank hA vis E hI ps 0 h0, even_step]

theorem unblock_length (ps : List (Nat × Nat)) : (unblock ps).length = 2 * ps.length := by
  induction ps with
  | nil => rfl
  | cons p ps ih => simp only [unblock, List.flatMap_cons, List.length_append, List.length_cons,
      List.length_nil] at ih ⊢; omega

/-- every word of even length is the block word of a label sequence -/
theorem exists_unblock (w : List Nat) (h : w.length % 2 = 0) : ∃ ps, unblock ps = w := by
  induction hn : w.length using Nat.strong_induction_on generalizing w with
  | _ n ih =>
    match w, hn with
    | [], _ => exact ⟨[], rfl⟩
    | [a], hn => simp at h
    | a :: b :: w', hn =>
      obtain ⟨ps, hps⟩ := ih w'.length (by simp at hn; omega) w' (by simp at h; omega) rfl
      exact ⟨(a, b) :: ps, by simp [unblock] at hps ⊢; exact hps⟩

/-! ## braid moves are sound (Mathlib `CoxeterSystem`) -/

section braid
variable {B W : Type*} [Group W] {M : CoxeterMatrix B} (cs : CoxeterSystem M W)

/-- one rewriting step of Tits' solution of the word problem: a braid move
`(i j i …)_{m} → (j i j …)_{m}` (`m = M i j`) or the deletion of a square `i i` -/
inductive Move (M : CoxeterMatrix B) : List B → List B → Prop
  | braid (u v : List B) (i j : B) :
      Move M (u ++ CoxeterSystem.braidWord M i j ++ v) (u ++ CoxeterSystem.braidWord M j i ++ v)
  | square (u v : List B) (i : B) : Move M (u ++ [i, i] ++ v) (u ++ v)

/-- a move does not change the group element -/
theorem move_sound {w w' : List B} (h : Move M w w') : cs.wordProd w = cs.wordProd w' := by
  cases h with
  | braid u v i j =>
    simp only [CoxeterSystem.wordProd_append, cs.wordProd_braidWord_eq i j]
  | square u v i =>
    simp only [CoxeterSystem.wordProd_append, CoxeterSystem.wordProd_cons,
      CoxeterSystem.wordProd_nil, mul_one, cs.simple_mul_simple_self, mul_one]

/-- **braid_moves_sound**: a word obtained from `w` by braid moves and `ss`-deletions has the
same `wordProd` -/
theorem braid_moves_sound {w w' : List B} (h : Relation.ReflTransGen (Move M) w w') :
    cs.wordProd w = cs.wordProd w' := by
  induction h with
  | refl => rfl
  | tail _ hm ih => rw [ih, move_sound cs hm]

/-- … hence a move sequence that shortens `w` is a certificate that `w` is **not reduced** -/
theorem not_reduced_of_moves {w w' : List B} (h : Relation.ReflTransGen (Move M) w w')
    (hl : w'.length < w.length) : ¬ cs.IsReduced w := by
  intro hr
  have h1 : cs.length (cs.wordProd w) = w.length := hr
  have h2 := cs.length_wordProd_le w'
  rw [← braid_moves_sound cs h, h1] at h2
  omega

end braid

/-! ## executable certificates -/

section
variable {B : Type} [DecidableEq B] {W : Type*} [Group W] {M : CoxeterMatrix B} (cs : CoxeterSystem M W)

theorem applyStep_sound {w w' : List B} {s : CertStep} (h : applyStep (fun a b => M a b) w s = some w') :
    Move M w w' := by
  cases s with
  | square pos =>
    simp only [applyStep] at h
    split at h
    · rename_i a b rest hd
      split at h
      · rename_i hab
        subst hab
        cases h
        have : w = w.take pos ++ [a, a] ++ rest := by
          conv_lhs => rw [← List.take_append_drop pos w, hd]
          simp
        have key := Move.square (M := M) (w.take pos) rest a
        rw [← this] at key
        exact key
      · cases h
    · cases h
  | braid pos =>
    simp only [applyStep] at h
    split at h
    · rename_i a b rest hd
      split at h
      · rename_i hc
        cases h
        obtain ⟨h1, h2⟩ := hc
        have hw : w = w.take pos ++ altFrom a b (M a b) ++ w.drop (pos + M a b) := by
          conv_lhs => rw [← List.take_append_drop pos w, ← List.take_append_drop (M a b) (w.drop pos), h1]
          simp [List.drop_drop, List.append_assoc]
        rw [altFrom_eq] at hw
        rw [altFrom_eq]
        have hsym : M b a = M a b := M.symmetric b a
        by_cases he : Even (M a b)
        · rw [if_pos he] at hw ⊢
          conv_lhs => rw [hw]
          have := Move.braid (M := M) (w.take pos) (w.drop (pos + M a b)) a b
          unfold CoxeterSystem.braidWord at this
          rw [hsym] at this
          exact this
        · rw [if_neg he] at hw ⊢
          conv_lhs => rw [hw]
          have := Move.braid (M := M) (w.take pos) (w.drop (pos + M a b)) b a
          unfold CoxeterSystem.braidWord at this
          rw [hsym] at this
          exact this
      · cases h
    · cases h

/-- **certificate soundness**: if the executable checker accepts a certificate turning `w` into a
shorter word, then `w` is not reduced in *any* Coxeter system with that matrix -/
theorem checkCert_sound : ∀ (steps : List CertStep) (w w' : List B),
    checkCert (fun a b => M a b) w steps = some w' → Relation.ReflTransGen (Move M) w w'
  | [], w, w', h => by simp only [checkCert, Option.some.injEq] at h; subst h; exact .refl
  | s :: ss, w, w', h => by
    simp only [checkCert] at h
    cases h1 : applyStep (fun a b => M a b) w s with
    | none => rw [h1] at h; cases h
    | some w1 =>
      rw [h1] at h
      exact Relation.ReflTransGen.head (applyStep_sound h1) (checkCert_sound ss w1 w' h)

theorem not_reduced_of_cert (steps : List CertStep) (w w' : List B)
    (h : checkCert (fun a b => M a b) w steps = some w') (hl : w'.length < w.length) :
    ¬ cs.IsReduced w :=
  not_reduced_of_moves cs (checkCert_sound steps w w' h) hl
end

/-! ## rank 2 (dihedral groups): the central clause, proved

For a rank-2 Coxeter matrix `[[1, m], [m, 1]]` (`m ≥ 2`, or `m = 0` for ∞) the central clause of the
property IS proved:

* `order_simple_mul_simple` / `isReduced_iff_rank2`: in Mathlib's `CoxeterSystem`, `sᵢsᵢ'` has order
  exactly `M i i'` (every finite rank; via the geometric representation of C08 lifted to the
  presented group), and the reduced words of a rank-2 group are exactly the alternating words of
  length `≤ m` (all alternating words for ∞).  Mathlib has only the easy half.
* `accepts_iff_reduced_rank2`, `shortlex_rank2`, `accepts_iff_reduced_rank2_inf`: for EVERY `m ≥ 2`
  and for ∞, the automaton `generateAutomaton` builds from a neighbour table with the dihedral
  reflection structure (`DihedralNb m nb ang`: `nb` is the action of `s₀, s₁` on the `m` positive roots
  indexed by their angle) accepts exactly the reduced words; the shortlex automaton accepts exactly
  one word per element, the lexicographically least reduced expression.
* `coxeterAutomaton_rank2_finite`, `coxeterAutomaton_rank2_inf`: end to end, including the numeric
  stage `findSmallRoots` with an explicit fuel bound (8/8/16), for the exact rational cosines
  `m ∈ {2, 3, ∞}` and both thresholds `ε = 0` and `ε = 10⁻⁶`.

REMAINING GAP in rank 2: that `findSmallRoots` produces a `DihedralNb` table for the irrational cosines
(`m = 4, 5, 6, 7, …`) — the numeric loop over ℝ with `cos(π/m)` is not analysed; the harness checks the
`DihedralNb` hypothesis on the implementation's small roots for `m = 2..12`, which is a test.
REMAINING GAP in general: rank ≥ 3 (the Brink–Howlett theorem itself). -/

section rank2
open GT.C07R2 CoxeterSystem

/-- **the order of `sᵢsᵢ'` in a Coxeter group is exactly `M i i'`** (infinite for the label `0`), for
every finite rank -/
theorem order_simple_mul_simple {W : Type*} [Group W] {n : ℕ} {M : CoxeterMatrix (Fin n)}
    (cs : CoxeterSystem M W) (i i' : Fin n) (hii : i ≠ i') (k : ℕ) (hk : 0 < k)
    (hM : M i i' = 0 ∨ k < M i i') : (cs.simple i * cs.simple i') ^ k ≠ 1 :=
  no_early cs i i' hii k hk hM

/-- **reduced words of a rank-2 Coxeter group** -/
theorem isReduced_iff_rank2 {W : Type*} [Group W] {M : CoxeterMatrix (Fin 2)} (cs : CoxeterSystem M W)
    (w : List (Fin 2)) :
    cs.IsReduced w ↔ ∃ ℓ, (M 0 1 = 0 ∨ ℓ ≤ M 0 1) ∧
      (w = alternatingWord 0 1 ℓ ∨ w = alternatingWord 1 0 ℓ) :=
  GT.C07R2.isReduced_iff_rank2 cs w

/-- accepted ⇔ the run on bit functions from the empty set succeeds -/
theorem accepts_iff_runF {nb : Nat → Nat → Option Nat} {nroots rank : Nat} {lex : Bool} {fuel : Nat}
    {N : List (List Bool)} {A : Table}
    (h : generateAutomaton nb nroots rank lex fuel = some (N, A)) (w : List Nat) :
    A.accepts w ↔ (runF nb lex nroots rank (fun _ => false) w).isSome := by
  rw [accepts_iff_run h, ← bits_replicate nroots, ← run_bits]
  cases run (succNode nb lex nroots) rank (List.replicate nroots false) w <;> rfl

section
variable {W : Type*} [Group W] {M : CoxeterMatrix (Fin 2)} (cs : CoxeterSystem M W)

/-- **rank 2, finite label: the geodesic automaton accepts exactly the reduced words.**
`nb` is any neighbour table with the dihedral reflection structure (`DihedralNb`), `m = M 0 1`. -/
theorem accepts_iff_reduced_rank2 {nb : Nat → Nat → Option Nat} {ang : Nat → Nat} {fuel : Nat}
    {N : List (List Bool)} {A : Table} (hd : DihedralNb (M 0 1) nb ang)
    (h : generateAutomaton nb (M 0 1) 2 false fuel = some (N, A)) (w : List (Fin 2)) :
    A.accepts (w.map Fin.val) ↔ cs.IsReduced w := by
  have hm := hd.hm
  rw [accepts_iff_runF h, dihedral_geo hd, isReduced_iff_rank2]
  constructor
  · rintro ⟨ℓ, hℓ, hw⟩
    refine ⟨ℓ, Or.inr hℓ, (alt_pair w ℓ).2 ?_⟩
    rcases hw with hw | hw
    · left; apply map_val_injective; rw [hw, altFrom_map]; rfl
    · right; apply map_val_injective; rw [hw, altFrom_map]; rfl
  · rintro ⟨ℓ, hℓ, hw⟩
    refine ⟨ℓ, by omega, ?_⟩
    rcases (alt_pair w ℓ).1 hw with hw | hw
    · left; rw [hw, altFrom_map]; rfl
    · right; rw [hw, altFrom_map]; rfl

/-- every accepted word is a word in the generators `0..rank-1` -/
theorem accepted_letters {nb : Nat → Nat → Option Nat} {nroots rank : Nat} {lex : Bool} {fuel : Nat}
    {N : List (List Bool)} {A : Table}
    (h : generateAutomaton nb nroots rank lex fuel = some (N, A)) (w : List Nat) (ha : A.accepts w) :
    ∀ k ∈ w, k < rank := by
  rw [accepts_iff_runF h] at ha
  have key : ∀ (w : List Nat) (f : Nat → Bool), (runF nb lex nroots rank f w).isSome → ∀ k ∈ w, k < rank := by
    intro w
    induction w with
    | nil => intro f _ k hk; cases hk
    | cons a w ih =>
      intro f hf k hk
      simp only [runF] at hf
      split at hf
      · rename_i hc
        rcases List.mem_cons.1 hk with rfl | hk'
        · exact hc.1
        · exact ih _ hf k hk'
      · cases hf
  exact key w _ ha

/-- the shortlex language of a finite dihedral group in terms of words over `Fin 2` -/
theorem lex_accepts_rank2 {nb : Nat → Nat → Option Nat} {ang : Nat → Nat} {fuel : Nat}
    {N : List (List Bool)} {A : Table} (hd : DihedralNb (M 0 1) nb ang)
    (h : generateAutomaton nb (M 0 1) 2 true fuel = some (N, A)) (w : List (Fin 2)) :
    A.accepts (w.map Fin.val) ↔
      (∃ ℓ, ℓ ≤ M 0 1 ∧ w = altFrom 0 1 ℓ) ∨ (∃ ℓ, ℓ + 1 ≤ M 0 1 ∧ w = altFrom 1 0 ℓ) := by
  rw [accepts_iff_runF h, dihedral_lex hd]
  constructor
  · rintro (⟨ℓ, hℓ, hw⟩ | ⟨ℓ, hℓ, hw⟩)
    · left; exact ⟨ℓ, hℓ, map_val_injective (by rw [hw, altFrom_map]; rfl)⟩
    · right; exact ⟨ℓ, hℓ, map_val_injective (by rw [hw, altFrom_map]; rfl)⟩
  · rintro (⟨ℓ, hℓ, hw⟩ | ⟨ℓ, hℓ, hw⟩)
    · left; exact ⟨ℓ, hℓ, by rw [hw, altFrom_map]; rfl⟩
    · right; exact ⟨ℓ, hℓ, by rw [hw, altFrom_map]; rfl⟩

/-- **rank 2, finite label: the shortlex automaton accepts exactly one word per group element, and it
is the lexicographically least reduced expression** (generator order `0 < 1`) -/
theorem shortlex_rank2 {nb : Nat → Nat → Option Nat} {ang : Nat → Nat} {fuel : Nat}
    {N : List (List Bool)} {A : Table} (hd : DihedralNb (M 0 1) nb ang)
    (h : generateAutomaton nb (M 0 1) 2 true fuel = some (N, A)) :
    (∀ w : List (Fin 2), A.accepts (w.map Fin.val) → cs.IsReduced w) ∧
    (∀ g : W, ∃! w : List (Fin 2), A.accepts (w.map Fin.val) ∧ cs.wordProd w = g) ∧
    (∀ w w' : List (Fin 2), A.accepts (w.map Fin.val) → cs.IsReduced w' →
      cs.wordProd w' = cs.wordProd w → w = w' ∨ w < w') := by
  have hm := hd.hm
  have hacc := lex_accepts_rank2 hd h
  have hred : ∀ w : List (Fin 2), A.accepts (w.map Fin.val) → cs.IsReduced w := by
    intro w hw
    rw [isReduced_iff_rank2]
    rcases (hacc w).1 hw with ⟨ℓ, hℓ, rfl⟩ | ⟨ℓ, hℓ, rfl⟩
    · exact ⟨ℓ, Or.inr hℓ, (alt_pair _ ℓ).2 (Or.inl rfl)⟩
    · exact ⟨ℓ, Or.inr (by omega), (alt_pair _ ℓ).2 (Or.inr rfl)⟩
  -- the word `1 0 1 …` of length `m` is not accepted
  have hnot : ¬ A.accepts ((altFrom (1 : Fin 2) 0 (M 0 1)).map Fin.val) := by
    intro ha
    rcases (hacc _).1 ha with ⟨ℓ, _, he⟩ | ⟨ℓ, hℓ, he⟩
    · have hl := congrArg List.length he
      rw [altFrom_length, altFrom_length] at hl
      exact altFrom_ne ℓ (M 0 1) (by omega) he.symm
    · have hl := congrArg List.length he
      rw [altFrom_length, altFrom_length] at hl
      omega
  have hlt : altFrom (0 : Fin 2) 1 (M 0 1) < altFrom (1 : Fin 2) 0 (M 0 1) := by
    obtain ⟨k, hk⟩ : ∃ k, M 0 1 = k + 1 := ⟨M 0 1 - 1, by omega⟩
    rw [hk]
    exact List.Lex.rel (by decide)
  have hleast : ∀ w w' : List (Fin 2), A.accepts (w.map Fin.val) → cs.IsReduced w' →
      cs.wordProd w' = cs.wordProd w → w = w' ∨ w < w' := by
    intro w w' hw hw' hp
    by_cases hne : w = w'
    · exact Or.inl hne
    · right
      obtain ⟨_, hpair⟩ := reduced_unique cs (hred w hw) hw' hp.symm hne
      rcases hpair with ⟨h1, h2⟩ | ⟨h1, h2⟩
      · rw [h1, h2]; exact hlt
      · exfalso; rw [h1] at hw; exact hnot hw
  refine ⟨hred, fun g => ?_, hleast⟩
  obtain ⟨w₀, hw₀, hg⟩ := cs.exists_isReduced g
  obtain ⟨hb, hf⟩ := reduced_form cs hw₀
  -- an accepted word for g
  have hex : ∃ w : List (Fin 2), A.accepts (w.map Fin.val) ∧ cs.wordProd w = g := by
    have hbound : w₀.length ≤ M 0 1 := by
      rcases hb with h0 | h0
      · omega
      · exact h0
    rcases hf with hf | hf
    · exact ⟨w₀, (hacc w₀).2 (Or.inl ⟨_, hbound, hf⟩), hg.symm⟩
    · by_cases hlast : w₀.length = M 0 1
      · -- the other side of the braid relation
        refine ⟨altFrom 0 1 (M 0 1), (hacc _).2 (Or.inl ⟨_, le_refl _, rfl⟩), ?_⟩
        rw [hg, hf, hlast, altFrom_eq, altFrom_eq]
        have hb1 := cs.wordProd_braidWord_eq 0 1
        have h10 : M 1 0 = M 0 1 := M.symmetric 1 0
        unfold braidWord at hb1
        rw [h10] at hb1
        by_cases he : Even (M 0 1)
        · simp only [he, if_true]; exact hb1
        · simp only [he, if_false]; exact hb1.symm
      · exact ⟨w₀, (hacc w₀).2 (Or.inr ⟨_, by omega, hf⟩), hg.symm⟩
  obtain ⟨w, hw, hwg⟩ := hex
  refine ⟨w, ⟨hw, hwg⟩, fun w' ⟨hw', hwg'⟩ => ?_⟩
  -- uniqueness: two accepted words with the same product coincide
  by_contra hne
  obtain ⟨_, hpair⟩ := reduced_unique cs (hred w' hw') (hred w hw) (by rw [hwg, hwg']) hne
  rcases hpair with ⟨_, h2⟩ | ⟨h1, _⟩
  · rw [h2] at hw; exact hnot hw
  · rw [h1] at hw'; exact hnot hw'

/-- **rank 2, label ∞**: both automata accept exactly the reduced words, and every element has exactly
one reduced word (so the shortlex and the geodesic language coincide, one word per element) -/
theorem accepts_iff_reduced_rank2_inf {nb : Nat → Nat → Option Nat} {lex : Bool} {fuel : Nat}
    {N : List (List Bool)} {A : Table} (hM : M 0 1 = 0) (hnb : ∀ p < 2, ∀ k < 2, nb p k = none)
    (h : generateAutomaton nb 2 2 lex fuel = some (N, A)) :
    (∀ w : List (Fin 2), A.accepts (w.map Fin.val) ↔ cs.IsReduced w) ∧
    (∀ w w' : List (Fin 2), cs.IsReduced w → cs.IsReduced w' → cs.wordProd w = cs.wordProd w' → w = w') := by
  constructor
  · intro w
    rw [accepts_iff_runF h, isReduced_iff_rank2]
    have hstart : (runF nb lex 2 2 (fun _ => false) (w.map Fin.val)).isSome ↔
        ∃ ℓ, w.map Fin.val = altFrom 0 1 ℓ ∨ w.map Fin.val = altFrom 1 0 ℓ := by
      cases hw : w.map Fin.val with
      | nil => exact ⟨fun _ => ⟨0, Or.inl rfl⟩, fun _ => rfl⟩
      | cons k v =>
        simp only [runF]
        by_cases hk : k < 2
        · simp only [hk, and_self, if_true]
          have hs : ∀ p, succF nb lex 2 k (fun _ => false) p = decide (p = k) := by
            intro p
            unfold succF agF
            by_cases hp : p < 2
            · have hany : (List.range k).any (fun j => nb j k == some p) = false := by
                rw [List.any_eq_false]
                intro j hj
                have hj' : j < 2 := by have := List.mem_range.1 hj; omega
                simp [hnb j hj' k hk]
              simp only [hp, if_true, hany, Bool.and_false, Bool.false_eq_true, if_false, hnb p hp k hk]
              by_cases e : p = k <;> simp [e]
            · have : p ≠ k := by omega
              simp [hp, this]
          rw [dihedral_inf nb hnb lex v k _ hk hs]
          constructor
          · rintro ⟨ℓ, rfl⟩
            refine ⟨ℓ + 1, ?_⟩
            have : k = 0 ∨ k = 1 := by omega
            rcases this with rfl | rfl
            · left; rfl
            · right; rfl
          · rintro ⟨ℓ, hv | hv⟩ <;> cases ℓ with
            | zero => simp [altFrom] at hv
            | succ j =>
              simp only [altFrom, List.cons.injEq] at hv
              obtain ⟨rfl, rfl⟩ := hv
              exact ⟨j, rfl⟩
        · simp only [hk, false_and, if_false]
          constructor
          · intro hx; cases hx
          · rintro ⟨ℓ, hv | hv⟩ <;> cases ℓ with
            | zero => simp [altFrom] at hv
            | succ j => simp only [altFrom, List.cons.injEq] at hv; omega
    rw [hstart]
    constructor
    · rintro ⟨ℓ, hw⟩
      refine ⟨ℓ, Or.inl hM, (alt_pair w ℓ).2 ?_⟩
      rcases hw with hw | hw
      · left; apply map_val_injective; rw [hw, altFrom_map]; rfl
      · right; apply map_val_injective; rw [hw, altFrom_map]; rfl
    · rintro ⟨ℓ, _, hw⟩
      refine ⟨ℓ, ?_⟩
      rcases (alt_pair w ℓ).1 hw with hw | hw
      · left; rw [hw, altFrom_map]; rfl
      · right; rw [hw, altFrom_map]; rfl
  · intro w w' hw hw' hp
    by_contra hne
    exact (reduced_unique cs hw hw' hp hne).1 hM

/-- the conclusion of the end-to-end rank-2 theorems -/
def Rank2Correct {W : Type*} [Group W] {M : CoxeterMatrix (Fin 2)} (cs : CoxeterSystem M W)
    (A_geo A_lex : Table) : Prop :=
  (∀ w : List (Fin 2), A_geo.accepts (w.map Fin.val) ↔ cs.IsReduced w) ∧
  (∀ w : List (Fin 2), A_lex.accepts (w.map Fin.val) → cs.IsReduced w) ∧
  (∀ g : W, ∃! w : List (Fin 2), A_lex.accepts (w.map Fin.val) ∧ cs.wordProd w = g) ∧
  (∀ w w' : List (Fin 2), A_lex.accepts (w.map Fin.val) → cs.IsReduced w' →
    cs.wordProd w' = cs.wordProd w → w = w' ∨ w < w')

/-- from computed small roots with the dihedral structure to the language statement -/
theorem rank2_finish {m : ℕ} (hM : M 0 1 = m) (ε c : ℚ) (L : List (List ℚ × List (Option Nat)))
    (ang : Nat → Nat) (hs : summary (findSmallRoots ε (form2 c) 8 8) = some L) (hl : L.length = m)
    (hd : DihedralNb m (nbOfList (L.map (·.2))) ang)
    (hg : (generateAutomaton (nbOfList (L.map (·.2))) m 2 false 16).isSome)
    (hx : (generateAutomaton (nbOfList (L.map (·.2))) m 2 true 16).isSome) :
    ∃ A_geo A_lex : Table,
      coxeterAutomaton ε (form2 c) 8 8 16 false = .ok A_geo ∧
      coxeterAutomaton ε (form2 c) 8 8 16 true = .ok A_lex ∧ Rank2Correct cs A_geo A_lex := by
  obtain ⟨⟨N₁, A₁⟩, h₁⟩ := Option.isSome_iff_exists.1 hg
  obtain ⟨⟨N₂, A₂⟩, h₂⟩ := Option.isSome_iff_exists.1 hx
  refine ⟨A₁, A₂, coxeterAutomaton_of_summary ε _ 8 8 16 false L N₁ A₁ hs (by rw [hl]; exact h₁),
    coxeterAutomaton_of_summary ε _ 8 8 16 true L N₂ A₂ hs (by rw [hl]; exact h₂), ?_⟩
  subst hM
  exact ⟨accepts_iff_reduced_rank2 cs hd h₁, shortlex_rank2 cs hd h₂⟩

/-- **end to end, rank 2 with exact rational cosines** (`m = 2`: `c = 0`; `m = 3`: `c = -1/2`), for
`ε = 0` and for the code's `ε = 10⁻⁶`: the whole model pipeline `findSmallRoots` → `generateAutomaton`
terminates within fuel 8/8/16; its geodesic automaton accepts exactly the reduced words of the
dihedral group, its shortlex automaton exactly one word per element, the lexicographically least -/
theorem coxeterAutomaton_rank2_finite (m : ℕ) (c : ℚ) (hmc : (m = 2 ∧ c = 0) ∨ (m = 3 ∧ c = -1 / 2))
    (hM : M 0 1 = m) (ε : ℚ) (hε : ε = eps0 ∨ ε = eps6) :
    ∃ A_geo A_lex : Table,
      coxeterAutomaton ε (form2 c) 8 8 16 false = .ok A_geo ∧
      coxeterAutomaton ε (form2 c) 8 8 16 true = .ok A_lex ∧ Rank2Correct cs A_geo A_lex := by
  rcases hmc with ⟨rfl, rfl⟩ | ⟨rfl, rfl⟩
  · refine rank2_finish cs hM ε 0 [([1, 0], [none, some 0]), ([0, 1], [some 1, none])] (fun p => p) ?_ rfl
      dihedralNb_two (by decide) (by decide)
    rcases hε with rfl | rfl
    · exact smallRoots_two.1
    · exact smallRoots_two.2
  · refine rank2_finish cs hM ε (-1 / 2)
      [([1, 0], [none, some 2]), ([0, 1], [some 2, none]), ([1, 1], [some 1, some 0])]
      (fun p => if p = 1 then 2 else if p = 2 then 1 else p) ?_ rfl dihedralNb_three (by decide) (by decide)
    rcases hε with rfl | rfl
    · exact smallRoots_three.1
    · exact smallRoots_three.2

/-- **end to end, rank 2, label ∞** (`c = -1`) -/
theorem coxeterAutomaton_rank2_inf (hM : M 0 1 = 0) (ε : ℚ) (hε : ε = eps0 ∨ ε = eps6) (lex : Bool) :
    ∃ A : Table, coxeterAutomaton ε (form2 (-1 : ℚ)) 8 8 16 lex = .ok A ∧
      (∀ w : List (Fin 2), A.accepts (w.map Fin.val) ↔ cs.IsReduced w) ∧
      (∀ w w' : List (Fin 2), cs.IsReduced w → cs.IsReduced w' → cs.wordProd w = cs.wordProd w' → w = w') := by
  have hs : summary (findSmallRoots ε (form2 (-1 : ℚ)) 8 8) =
      some [([1, 0], [none, none]), ([0, 1], [none, none])] := by
    rcases hε with rfl | rfl
    · exact smallRoots_inf.1
    · exact smallRoots_inf.2
  have hg : (generateAutomaton (nbOfList [[none, none], [none, none]]) 2 2 lex 16).isSome := by
    cases lex <;> decide
  obtain ⟨⟨N, A⟩, h⟩ := Option.isSome_iff_exists.1 hg
  refine ⟨A, coxeterAutomaton_of_summary ε _ 8 8 16 lex _ N A hs h, ?_⟩
  exact accepts_iff_reduced_rank2_inf cs hM (by decide) h

end
end rank2

/-! ## non-vacuity -/

/-- the hypotheses of `automaton_wf`, `no_square`, `shortlex_subset_geodesic` are satisfiable:
the infinite dihedral group (two simple roots, no neighbours) -/
example : generateAutomaton (fun _ _ => none) 2 2 true 10 =
    some ([[false, false], [true, false], [false, true]],
      [[some 1, some 2], [none, some 2], [some 1, none]]) := by decide

/-- `not_reduced_of_moves` applies: in any Coxeter system `i i` is not reduced -/
example {B W : Type*} [Group W] {M : CoxeterMatrix B} (cs : CoxeterSystem M W) (i : B) :
    ¬ cs.IsReduced [i, i] :=
  not_reduced_of_moves cs (w' := []) (Relation.ReflTransGen.single (Move.square [] [] i)) (by simp)

/-- the certificate checker accepts a genuine certificate: in the (3,3,∞)-type matrix with `m(0,1) = 3`
the word `0 1 0 1` is rewritten by a braid move at 0 to `1 0 1 1` and the square at 2 is deleted -/
example : checkCert (fun a b : Nat => if a = b then 1 else if a + b = 1 then 3 else 0) [0, 1, 0, 1]
    [.braid 0, .square 2] = some [1, 0] := by decide

end GT.C07
