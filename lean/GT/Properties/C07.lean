/- property theorems for C07 (filled in below) -/
