/-
C16 — affine charts, affine maps and subspace operations in projective space are exact.
Only property theorems and non-vacuity examples live here; helper lemmas are in
`GT.Lemmas.Affine`.  Model: `GT.Model.Affine`.  Every theorem holds over an arbitrary field
`K` (so over ℝ and ℂ, including purely imaginary chart coordinates).
-/
import GT.Lemmas.Affine
import Mathlib.Data.Complex.Basic
import Mathlib.Algebra.BigOperators.Field
import Mathlib.LinearAlgebra.Matrix.NonsingularInverse
import Mathlib.Tactic.NormNum
import Mathlib.Tactic.FinCases
import Mathlib.LinearAlgebra.FiniteDimensional.Lemmas
import Mathlib.LinearAlgebra.Matrix.ToLin
import Mathlib.LinearAlgebra.Dimension.Constructions

open Matrix Finset BigOperators

set_option linter.unusedSectionVars false

namespace GT.C16
open GT.Affine

variable {K : Type*} [Field K] {n m k₁ k₂ d : ℕ}

/-! ## charts: `1` in the chart slot, round trips after any non-zero rescaling -/

/-- homogeneous coordinates built from affine coordinates have a `1` in the chart slot -/
theorem projCoords_chart (c : Fin (n + 1)) (a : Fin n → K) : projCoords c a c = 1 := by
  simp [projCoords]

/-- … and the affine coordinates in the other slots, in order -/
theorem projCoords_succAbove (c : Fin (n + 1)) (a : Fin n → K) (i : Fin n) :
    projCoords c a (c.succAbove i) = a i := by
  simp [projCoords]

/-- affine → projective → affine is the identity, in every chart and dimension -/
theorem affine_proj_roundtrip (c : Fin (n + 1)) (a : Fin n → K) :
    affineCoords c (projCoords c a) = a := by
  funext i; simp [affineCoords, projCoords]

/-- affine coordinates do not depend on the homogeneous representative -/
theorem affine_smul (c : Fin (n + 1)) (x : Fin (n + 1) → K) (s : K) (hs : s ≠ 0) :
    affineCoords c (s • x) = affineCoords c x := by
  funext i
  simp only [affineCoords, Pi.smul_apply, smul_eq_mul]
  exact mul_div_mul_left _ _ hs

/-- the round trip after an arbitrary non-zero rescaling of the homogeneous coordinates -/
theorem affine_proj_roundtrip_smul (c : Fin (n + 1)) (a : Fin n → K) (s : K) (hs : s ≠ 0) :
    affineCoords c (s • projCoords c a) = a := by
  rw [affine_smul c _ s hs, affine_proj_roundtrip]

/-- projective → affine → projective gives back the same projective point (the
representative normalised to `1` in the chart slot) -/
theorem proj_affine_roundtrip (c : Fin (n + 1)) (x : Fin (n + 1) → K) (h : x c ≠ 0) :
    projCoords c (affineCoords c x) = (x c)⁻¹ • x := by
  funext i
  rcases Fin.eq_self_or_eq_succAbove c i with rfl | ⟨j, rfl⟩
  · simp [projCoords, h]
  · simp [projCoords, affineCoords, div_eq_inv_mul]

/-- a rescaled point stays in the chart -/
theorem smul_chart_ne (c : Fin (n + 1)) (x : Fin (n + 1) → K) (s : K) (hs : s ≠ 0) (h : x c ≠ 0) :
    (s • x) c ≠ 0 := by
  simpa using mul_ne_zero hs h

/-- column layout: the same round trip, with the `1`s in row `c` -/
theorem affine_proj_roundtrip_cols (c : Fin (n + 1)) (A : Matrix (Fin n) (Fin m) K) :
    affineCoordsCols c (projCoordsCols c A) = A ∧ ∀ j, projCoordsCols c A c j = 1 := by
  constructor
  · ext i j
    simp [affineCoordsCols, projCoordsCols, affineCoords, projCoords, Matrix.transpose_apply]
  · intro j
    simp [projCoordsCols, projCoords, Matrix.transpose_apply]

/-- the column layout is the transpose of the row layout -/
theorem affineCoordsCols_transpose (c : Fin (n + 1)) (X : Matrix (Fin (n + 1)) (Fin m) K) (j : Fin m) :
    (affineCoordsCols c X)ᵀ j = affineCoords c (Xᵀ j) := rfl

section guard
variable [DecidableEq K]

/-- `Point.in_affine_chart`: true exactly when the chart coordinate is non-zero (compared in
the field itself — over ℂ a purely imaginary chart coordinate is non-zero) -/
theorem inChart_iff (c : Fin (n + 1)) (x : Fin (n + 1) → K) : inChart c x = true ↔ x c ≠ 0 := by
  simp [inChart]

/-- a point is reported outside the chart (`GeometryError`) exactly when its chart
coordinate is zero -/
theorem affineCoords?_eq_none_iff (c : Fin (n + 1)) (x : Fin (n + 1) → K) :
    affineCoords? c x = none ↔ x c = 0 := by
  unfold affineCoords?; split_ifs with h <;> simp [h]

theorem affineCoords?_eq_some (c : Fin (n + 1)) (x : Fin (n + 1) → K) (h : x c ≠ 0) :
    affineCoords? c x = some (affineCoords c x) := by
  simp [affineCoords?, h]

/-- composite arrays: the call raises exactly when *some* point has chart coordinate zero,
and otherwise converts every point -/
theorem affineCoordsAll?_eq_none_iff (c : Fin (n + 1)) (xs : List (Fin (n + 1) → K)) :
    affineCoordsAll? c xs = none ↔ ∃ x ∈ xs, x c = 0 := by
  unfold affineCoordsAll?; split_ifs with h
  · simpa using h
  · simpa using h

theorem affineCoordsAll?_eq_some (c : Fin (n + 1)) (xs : List (Fin (n + 1) → K))
    (h : ∀ x ∈ xs, x c ≠ 0) : affineCoordsAll? c xs = some (xs.map (affineCoords c)) := by
  unfold affineCoordsAll?
  rw [if_neg]
  simpa using h

/-- set-then-get through the guard, after any non-zero rescaling: never an error -/
theorem affineCoords?_smul_projCoords (c : Fin (n + 1)) (a : Fin n → K) (s : K) (hs : s ≠ 0) :
    affineCoords? c (s • projCoords c a) = some a := by
  rw [affineCoords?_eq_some, affine_proj_roundtrip_smul c a s hs]
  exact smul_chart_ne c _ s hs (by rw [projCoords_chart]; exact one_ne_zero)

end guard

/-- purely imaginary chart coordinate over ℂ: inside the chart, and the round trip holds -/
example : affineCoords (K := ℂ) 0 (Complex.I • projCoords 0 ![2, 3]) = ![2, 3] :=
  affine_proj_roundtrip_smul 0 _ Complex.I Complex.I_ne_zero

example : (Complex.I • projCoords (K := ℂ) 0 ![2, 3]) 0 ≠ 0 :=
  smul_chart_ne 0 _ _ Complex.I_ne_zero (by rw [projCoords_chart]; exact one_ne_zero)

/-! ## automatic chart choice (`chart_index=None`) -/

section auto
variable {L : Type*} [LinearOrder L] [Zero L]

/-- if *some* standard chart contains all the points, the chart chosen by
`affine_coords(points, chart_index=None)` (argmax over charts of the smallest `|coordinate|`)
contains all of them; `absf` is `np.abs` (any map with `0 ≤ absf x` and `absf x = 0 ↔ x = 0`) -/
theorem autoChart_contains (absf : K → L) (h0 : ∀ x, 0 ≤ absf x) (hz : ∀ x, absf x = 0 ↔ x = 0)
    (p₀ : Fin (n + 1) → K) (rest : List (Fin (n + 1) → K))
    (hex : ∃ c, ∀ x ∈ p₀ :: rest, x c ≠ 0) :
    ∀ x ∈ p₀ :: rest, x (autoChart absf p₀ rest) ≠ 0 := by
  obtain ⟨c, hc⟩ := hex
  obtain ⟨y, hy, hmin⟩ := (colMin_spec absf p₀ rest c).2
  have hpos : 0 < colMin absf p₀ rest c := by
    rw [hmin]
    exact lt_of_le_of_ne (h0 _) (fun h => hc y hy ((hz _).1 h.symm))
  have hle : colMin absf p₀ rest c ≤ colMin absf p₀ rest (autoChart absf p₀ rest) :=
    argmaxFirst_spec _ c
  intro x hx hx0
  have := (colMin_spec absf p₀ rest (autoChart absf p₀ rest)).1 x hx
  rw [hx0, (hz 0).2 rfl] at this
  exact absurd (lt_of_lt_of_le hpos (le_trans hle this)) (lt_irrefl _)

/-- the automatic call raises ("points don't lie in any standard affine chart") exactly when no
standard chart contains all the points; otherwise it converts every point in the chosen chart -/
theorem affineCoordsAuto?_eq_none_iff [DecidableEq K] (absf : K → L) (h0 : ∀ x, 0 ≤ absf x)
    (hz : ∀ x, absf x = 0 ↔ x = 0) (p₀ : Fin (n + 1) → K) (rest : List (Fin (n + 1) → K)) :
    affineCoordsAuto? absf p₀ rest = none ↔ ∀ c, ∃ x ∈ p₀ :: rest, x c = 0 := by
  unfold affineCoordsAuto?
  rw [Option.map_eq_none_iff, affineCoordsAll?_eq_none_iff]
  constructor
  · intro h c
    by_contra hc
    have hc' : ∀ x ∈ p₀ :: rest, x c ≠ 0 := fun x hx h0' => hc ⟨x, hx, h0'⟩
    obtain ⟨x, hx, hx0⟩ := h
    exact autoChart_contains absf h0 hz p₀ rest ⟨c, hc'⟩ x hx hx0
  · intro h; exact h _

theorem affineCoordsAuto?_eq_some [DecidableEq K] (absf : K → L) (h0 : ∀ x, 0 ≤ absf x)
    (hz : ∀ x, absf x = 0 ↔ x = 0) (p₀ : Fin (n + 1) → K) (rest : List (Fin (n + 1) → K))
    (hex : ∃ c, ∀ x ∈ p₀ :: rest, x c ≠ 0) :
    affineCoordsAuto? absf p₀ rest =
      some ((p₀ :: rest).map (affineCoords (autoChart absf p₀ rest)), autoChart absf p₀ rest) := by
  unfold affineCoordsAuto?
  rw [affineCoordsAll?_eq_some _ _ (autoChart_contains absf h0 hz p₀ rest hex)]
  rfl

example : autoChart (K := ℚ) (fun x => |x|) ![0, 2, 1] [![3, 1, 0]] = 1 := by decide

end auto

/-! ## affine maps act in the chart as the linear map / the translation -/

/-- `affine_linear_map(L, c, column_vectors=True)`: the chart coordinate is kept and the
affine coordinates are multiplied by `L` on the left (column vectors) -/
theorem affineLinearMap_acts_col (c : Fin (n + 1)) (L : Matrix (Fin n) (Fin n) K)
    (x : Fin (n + 1) → K) :
    applyT (affineLinearMap c L true) x c = x c ∧
    affineCoords c (applyT (affineLinearMap c L true) x) = L *ᵥ affineCoords c x := by
  have e : applyT (affineLinearMap c L true) x = affineLinearBlock c L *ᵥ x := by
    simp [applyT, affineLinearMap, Matrix.vecMul_transpose]
  rw [e]
  refine ⟨mulVec_block_c c L x, ?_⟩
  funext i
  show (affineLinearBlock c L *ᵥ x) (c.succAbove i) / (affineLinearBlock c L *ᵥ x) c = _
  rw [mulVec_block_c, mulVec_block_sa]
  simp only [affineCoords, Matrix.mulVec, dotProduct]
  rw [Finset.sum_div]
  exact Finset.sum_congr rfl fun j _ => by rw [mul_div_assoc]

/-- `affine_linear_map(L, c, column_vectors=False)`: `L` acts on row vectors, on the right -/
theorem affineLinearMap_acts_row (c : Fin (n + 1)) (L : Matrix (Fin n) (Fin n) K)
    (x : Fin (n + 1) → K) :
    applyT (affineLinearMap c L false) x c = x c ∧
    affineCoords c (applyT (affineLinearMap c L false) x) = affineCoords c x ᵥ* L := by
  have e : applyT (affineLinearMap c L false) x = x ᵥ* affineLinearBlock c L := by
    simp [applyT, affineLinearMap]
  rw [e]
  refine ⟨vecMul_block_c c L x, ?_⟩
  funext i
  show (x ᵥ* affineLinearBlock c L) (c.succAbove i) / (x ᵥ* affineLinearBlock c L) c = _
  rw [vecMul_block_c, vecMul_block_sa]
  simp only [affineCoords, Matrix.vecMul, dotProduct]
  rw [Finset.sum_div]
  exact Finset.sum_congr rfl fun j _ => by rw [div_mul_eq_mul_div]

/-- both layouts in one statement -/
theorem affineLinearMap_acts (c : Fin (n + 1)) (L : Matrix (Fin n) (Fin n) K) (cv : Bool)
    (x : Fin (n + 1) → K) :
    affineCoords c (applyT (affineLinearMap c L cv) x) =
      if cv then L *ᵥ affineCoords c x else affineCoords c x ᵥ* L := by
  cases cv
  · simpa using (affineLinearMap_acts_row c L x).2
  · simpa using (affineLinearMap_acts_col c L x).2

/-- the fixed point of the chart (affine origin) is fixed -/
theorem affineLinearMap_origin (c : Fin (n + 1)) (L : Matrix (Fin n) (Fin n) K) (cv : Bool) :
    affineCoords c (applyT (affineLinearMap c L cv) (projCoords c 0)) = 0 := by
  rw [affineLinearMap_acts, affine_proj_roundtrip]; cases cv <;> simp

/-- `affine_translation(t, c)`: the chart coordinate is kept and the affine coordinates are
translated by `t` -/
theorem affineTranslation_acts (c : Fin (n + 1)) (t : Fin n → K) (x : Fin (n + 1) → K)
    (h : x c ≠ 0) :
    applyT (affineTranslation c t) x c = x c ∧
    affineCoords c (applyT (affineTranslation c t) x) = affineCoords c x + t := by
  refine ⟨vecMul_translation_c c t x, ?_⟩
  funext i
  simp only [applyT, affineCoords, vecMul_translation_c, vecMul_translation_sa, Pi.add_apply]
  field_simp

example : affineCoords (K := ℚ) 1 (applyT (affineTranslation 1 ![5, 6]) ![1, 2, 3]) = ![1/2 + 5, 3/2 + 6] :=
  (affineTranslation_acts 1 ![5, 6] ![1, 2, 3] (by norm_num)).2.trans (by
    funext i; fin_cases i <;> simp [affineCoords, Fin.succAbove])

/-! ## `hyperplane_coordinate_transform` under the QR (and inverse) contract -/

/-- QR contract: `Q` orthogonal, first column of `Q` times `r₀₀` is the normal, `sgn = ±1`
(`np.sign r₀₀`); inverse contract: `inv M * M = 1` for the matrix it is applied to.
Then the returned transformation is `sgn • Q`, it is orthogonal, and the chart-0 coordinate
of the image of any point `p` is `(sgn / r₀₀) * (p · normal)`. -/
theorem hyperplaneTransform_spec
    (inv : Matrix (Fin (n + 1)) (Fin (n + 1)) K → Matrix (Fin (n + 1)) (Fin (n + 1)) K)
    (Q : Matrix (Fin (n + 1)) (Fin (n + 1)) K) (sgn r₀₀ : K) (normal : Fin (n + 1) → K)
    (hQ : Qᵀ * Q = 1) (hcol : ∀ i, normal i = Q i 0 * r₀₀) (hs : sgn * sgn = 1)
    (hinv : inv (definiteIsometry Q sgn)ᵀ * (definiteIsometry Q sgn)ᵀ = 1) :
    let T := hyperplaneTransform inv Q sgn
    T = sgn • Q ∧ Tᵀ * T = 1 ∧ T * Tᵀ = 1 ∧
      ∀ p : Fin (n + 1) → K, applyT T p 0 * r₀₀ = sgn * (p ⬝ᵥ normal) := by
  intro T
  have hQ' : Q * Qᵀ = 1 := mul_eq_one_comm.mp hQ
  have hiso : (sgn • Q) * (sgn • Q)ᵀ = 1 := by
    rw [Matrix.transpose_smul, Matrix.smul_mul, Matrix.mul_smul, hQ', smul_smul, hs, one_smul]
  have hT : T = sgn • Q := by
    have h1 : T * (sgn • Q)ᵀ = 1 := hinv
    calc T = T * ((sgn • Q)ᵀ * (sgn • Q)) := by
            rw [mul_eq_one_comm.mp hiso, Matrix.mul_one]
      _ = sgn • Q := by rw [← Matrix.mul_assoc, h1, Matrix.one_mul]
  refine ⟨hT, ?_, ?_, ?_⟩
  · rw [hT]; exact mul_eq_one_comm.mp hiso
  · rw [hT]; exact hiso
  · intro p
    rw [hT]
    simp only [applyT, Matrix.vecMul, dotProduct, Matrix.smul_apply, smul_eq_mul]
    rw [Finset.sum_mul, Finset.mul_sum]
    exact Finset.sum_congr rfl fun i _ => by rw [hcol i]; ring

/-- "sends the hyperplane to infinity": with `r₀₀ ≠ 0`, a point lies on the hyperplane
`p · normal = 0` exactly when its image has chart-0 coordinate zero, so the chart
`{p · normal ≠ 0}` is carried onto the standard chart of index 0 -/
theorem hyperplaneTransform_infinity
    (inv : Matrix (Fin (n + 1)) (Fin (n + 1)) K → Matrix (Fin (n + 1)) (Fin (n + 1)) K)
    (Q : Matrix (Fin (n + 1)) (Fin (n + 1)) K) (sgn r₀₀ : K) (normal : Fin (n + 1) → K)
    (hQ : Qᵀ * Q = 1) (hcol : ∀ i, normal i = Q i 0 * r₀₀) (hs : sgn * sgn = 1) (hr : r₀₀ ≠ 0)
    (hinv : inv (definiteIsometry Q sgn)ᵀ * (definiteIsometry Q sgn)ᵀ = 1)
    (p : Fin (n + 1) → K) :
    applyT (hyperplaneTransform inv Q sgn) p 0 = 0 ↔ p ⬝ᵥ normal = 0 := by
  have h := (hyperplaneTransform_spec inv Q sgn r₀₀ normal hQ hcol hs hinv).2.2.2 p
  have hs0 : sgn ≠ 0 := by rintro rfl; simp at hs
  constructor
  · intro h0
    rw [h0, zero_mul] at h
    exact (mul_eq_zero.1 h.symm).resolve_left hs0
  · intro h0
    rw [h0, mul_zero] at h
    exact (mul_eq_zero.1 h).resolve_right hr

/-- over an ordered field `np.sign r₀₀` squares to one when `r₀₀ ≠ 0`, and the factor
`sgn / r₀₀` is positive: the normal itself goes to the *positive* side of chart 0 -/
theorem npSign_spec [LinearOrder K] [IsStrictOrderedRing K] (r : K) (hr : r ≠ 0) :
    npSign r * npSign r = 1 ∧ 0 < npSign r * r := by
  unfold npSign
  rcases lt_or_gt_of_ne hr with h | h
  · rw [if_neg (not_lt.2 h.le), if_pos h]
    constructor
    · ring
    · linarith
  · rw [if_pos h]
    constructor
    · ring
    · linarith

/-- non-vacuity: the normal `(3,4)`, `Q = [[3/5,-4/5],[4/5,3/5]]`, `r₀₀ = 5`, exact inverse -/
example : ∀ p : Fin 2 → ℚ,
    applyT (hyperplaneTransform (fun M => M⁻¹) !![3/5, -4/5; 4/5, 3/5] 1) p 0 = 0 ↔
      p ⬝ᵥ ![3, 4] = 0 := by
  intro p
  have hQ : (!![3/5, -4/5; 4/5, 3/5] : Matrix (Fin 2) (Fin 2) ℚ)ᵀ * !![3/5, -4/5; 4/5, 3/5] = 1 := by
    ext i j; fin_cases i <;> fin_cases j <;> simp [Matrix.mul_apply, Fin.sum_univ_succ] <;> norm_num
  refine hyperplaneTransform_infinity (fun M => M⁻¹) _ 1 5 ![3, 4] hQ ?_ (by norm_num) (by norm_num) ?_ p
  · intro i; fin_cases i <;> simp
  · have : IsUnit ((definiteIsometry (!![3/5, -4/5; 4/5, 3/5] : Matrix (Fin 2) (Fin 2) ℚ) 1)ᵀ).det := by
      simp [definiteIsometry, Matrix.det_fin_two]; norm_num
    exact Matrix.nonsing_inv_mul _ this

/-! ## `Subspace.intersect` under the kernel contract -/

/-- kernel contract `spansᵀ * ker = 0`: every returned row is a combination of the rows of
`p₁` (by definition) *and* of the rows of `p₂` (with coefficients `-ker[k₁:, :]ᵀ`): the
returned subspace lies in both -/
theorem intersect_spec (p₁ : Matrix (Fin k₁) (Fin n) K) (p₂ : Matrix (Fin k₂) (Fin n) K)
    (ker : Matrix (Fin k₁ ⊕ Fin k₂) (Fin d) K) (hker : (spans p₁ p₂)ᵀ * ker = 0) :
    intersect p₁ ker = (ker.toRows₁)ᵀ * p₁ ∧ intersect p₁ ker = (-(ker.toRows₂)ᵀ) * p₂ := by
  refine ⟨rfl, ?_⟩
  have h : p₁ᵀ * ker.toRows₁ + p₂ᵀ * ker.toRows₂ = 0 := by
    rw [← hker]
    ext i j
    simp [spans, Matrix.mul_apply, Fintype.sum_sum_type, Matrix.toRows₁, Matrix.toRows₂]
  have h' : (ker.toRows₁)ᵀ * p₁ + (ker.toRows₂)ᵀ * p₂ = 0 := by
    have := congrArg Matrix.transpose h
    simpa [Matrix.transpose_add, Matrix.transpose_mul] using this
  unfold intersect
  rw [Matrix.neg_mul]
  exact eq_neg_of_add_eq_zero_left h'

/-- completeness: if the kernel contract also says that the columns of `ker` *span* the
kernel, every vector lying in both row spans is a combination of the returned rows -/
theorem intersect_complete (p₁ : Matrix (Fin k₁) (Fin n) K) (p₂ : Matrix (Fin k₂) (Fin n) K)
    (ker : Matrix (Fin k₁ ⊕ Fin k₂) (Fin d) K)
    (hspan : ∀ v, v ᵥ* spans p₁ p₂ = 0 → ∃ c, v = ker *ᵥ c)
    (w : Fin n → K) (a : Fin k₁ → K) (b : Fin k₂ → K) (ha : w = a ᵥ* p₁) (hb : w = b ᵥ* p₂) :
    ∃ c, w = c ᵥ* intersect p₁ ker := by
  obtain ⟨c, hc⟩ := hspan (Sum.elim a (-b)) (by
    rw [spans, Matrix.sumElim_vecMul_fromRows, Matrix.neg_vecMul, ← ha, ← hb, add_neg_cancel])
  refine ⟨c, ?_⟩
  have ha' : a = ker.toRows₁ *ᵥ c := by
    funext i
    have := congrFun hc (Sum.inl i)
    simpa [Matrix.mulVec, Matrix.toRows₁] using this
  rw [ha, ha', intersect, ← Matrix.vecMul_vecMul, Matrix.vecMul_transpose]

/-- independence: if the rows of `p₁` and of `p₂` are independent and the columns of `ker`
are independent, the returned rows are independent (the returned spanning set is a basis) -/
theorem intersect_independent (p₁ : Matrix (Fin k₁) (Fin n) K) (p₂ : Matrix (Fin k₂) (Fin n) K)
    (ker : Matrix (Fin k₁ ⊕ Fin k₂) (Fin d) K) (hker : (spans p₁ p₂)ᵀ * ker = 0)
    (h₁ : ∀ a, a ᵥ* p₁ = 0 → a = 0) (h₂ : ∀ b, b ᵥ* p₂ = 0 → b = 0)
    (hk : ∀ c, ker *ᵥ c = 0 → c = 0) (c : Fin d → K) (hc : c ᵥ* intersect p₁ ker = 0) : c = 0 := by
  obtain ⟨e₁, e₂⟩ := intersect_spec p₁ p₂ ker hker
  apply hk
  have a0 : ker.toRows₁ *ᵥ c = 0 := by
    apply h₁
    rw [← Matrix.vecMul_transpose, Matrix.vecMul_vecMul, ← e₁]; exact hc
  have b0 : ker.toRows₂ *ᵥ c = 0 := by
    apply h₂
    have : c ᵥ* ((-(ker.toRows₂)ᵀ) * p₂) = 0 := by rw [← e₂]; exact hc
    rw [← Matrix.vecMul_vecMul, Matrix.vecMul_neg, Matrix.vecMul_transpose, Matrix.neg_vecMul,
      neg_eq_zero] at this
    exact this
  funext i
  rcases i with i | i
  · simpa [Matrix.mulVec, Matrix.toRows₁] using congrFun a0 i
  · simpa [Matrix.mulVec, Matrix.toRows₂] using congrFun b0 i

/-- **expected dimension**: under the full kernel contract (the columns of `ker` are a basis of
the kernel of `spansᵀ`) and transversality (the two spanning sets together span `Kⁿ`), the
number of returned rows is `k₁ + k₂ - n` -/
theorem intersect_dim (p₁ : Matrix (Fin k₁) (Fin n) K) (p₂ : Matrix (Fin k₂) (Fin n) K)
    (ker : Matrix (Fin k₁ ⊕ Fin k₂) (Fin d) K) (hker : (spans p₁ p₂)ᵀ * ker = 0)
    (hspan : ∀ v, v ᵥ* spans p₁ p₂ = 0 → ∃ c, v = ker *ᵥ c)
    (hk : ∀ c, ker *ᵥ c = 0 → c = 0)
    (htrans : ∀ w : Fin n → K, ∃ u, u ᵥ* spans p₁ p₂ = w) :
    d + n = k₁ + k₂ := by
  let f : (Fin k₁ ⊕ Fin k₂ → K) →ₗ[K] (Fin n → K) := Matrix.vecMulLinear (spans p₁ p₂)
  have hf : ∀ u, f u = u ᵥ* spans p₁ p₂ := fun u => rfl
  have hr : LinearMap.range f = ⊤ := LinearMap.range_eq_top.2 (fun w => by
    obtain ⟨u, hu⟩ := htrans w; exact ⟨u, hu⟩)
  have h1 := LinearMap.finrank_range_add_finrank_ker f
  have hin : ∀ c, ker *ᵥ c ∈ LinearMap.ker f := by
    intro c
    rw [LinearMap.mem_ker, hf, ← Matrix.mulVec_transpose, Matrix.mulVec_mulVec, hker, Matrix.zero_mulVec]
  let g : (Fin d → K) →ₗ[K] LinearMap.ker f := LinearMap.codRestrict _ (Matrix.mulVecLin ker) hin
  have hg : Function.Bijective g := by
    constructor
    · intro c c' h
      have h' : ker *ᵥ c = ker *ᵥ c' := congrArg Subtype.val h
      have : ker *ᵥ (c - c') = 0 := by rw [Matrix.mulVec_sub, h', sub_self]
      exact sub_eq_zero.1 (hk _ this)
    · rintro ⟨v, hv⟩
      rw [LinearMap.mem_ker, hf] at hv
      obtain ⟨c, hc⟩ := hspan v hv
      exact ⟨c, Subtype.ext hc.symm⟩
  have e := (LinearEquiv.ofBijective g hg).finrank_eq
  rw [hr, finrank_top, ← e] at h1
  simp only [Module.finrank_fintype_fun_eq_card, Fintype.card_fin, Fintype.card_sum] at h1
  omega

/-- elementwise on composite subspaces: unit `i` of the result is the intersection of units `i` -/
theorem intersectElementwise_get (P₁ : List (Matrix (Fin k₁) (Fin n) K))
    (kers : List (Matrix (Fin k₁ ⊕ Fin k₂) (Fin d) K)) (i : ℕ) (h₁ : i < P₁.length) (h₂ : i < kers.length) :
    (intersectElementwise P₁ kers)[i]'(by simp [intersectElementwise, h₁, h₂]) = intersect P₁[i] kers[i] := by
  simp [intersectElementwise]

/-- pairwise (`broadcast_match`): unit `i * |a₂| + j` of the tiled arrays is the pair
(unit `i` of the first, unit `j` of the second) — every subspace against every subspace -/
theorem broadcastMatch_length {α β : Type*} (a₁ : List α) (a₂ : List β) :
    (broadcastMatch a₁ a₂).1.length = a₁.length * a₂.length ∧
    (broadcastMatch a₁ a₂).2.length = a₁.length * a₂.length := by
  induction a₁ with
  | nil => simp [broadcastMatch]
  | cons a l ih =>
    simp only [broadcastMatch, List.flatMap_cons, List.length_append, List.length_map,
      List.length_cons] at ih ⊢
    constructor
    · rw [ih.1]; ring
    · rw [ih.2]; ring

theorem broadcastMatch_zip {α β : Type*} (a₁ : List α) (a₂ : List β) :
    (broadcastMatch a₁ a₂).1.zip (broadcastMatch a₁ a₂).2 = a₁.flatMap fun a => a₂.map fun b => (a, b) := by
  induction a₁ with
  | nil => simp [broadcastMatch]
  | cons a l ih =>
    simp only [broadcastMatch, List.flatMap_cons] at ih ⊢
    rw [List.zip_append (by simp), ih, zip_const_left]

/-- non-vacuity: two planes of ℚ³ (`z = 0` and `x = 0`) meet in the `y`-axis -/
example : intersect (K := ℚ) (k₂ := 2) !![1, 0, 0; 0, 1, 0] (Matrix.of (Sum.elim ![![0], ![1]] ![![-1], ![0]]))
    = !![0, 1, 0] := by
  ext i j; fin_cases i; fin_cases j <;>
    simp [intersect, Matrix.mul_apply, Matrix.toRows₁, Fin.sum_univ_succ]

/-! ## `eigenvector` / `diagonalize` under the eig contract -/

theorem firstTrue_spec : ∀ (m : ℕ) (ic : Fin m → Bool),
    (∀ i, firstTrue m ic = some i → ic i = true ∧ ∀ j, j < i → ic j = false) ∧
    (firstTrue m ic = none ↔ ∀ i, ic i = false)
  | 0, ic => by simp [firstTrue]
  | m + 1, ic => by
    obtain ⟨ih1, ih2⟩ := firstTrue_spec m fun i => ic i.succ
    unfold firstTrue
    by_cases h0 : ic 0 = true
    · rw [if_pos h0]
      constructor
      · intro i hi
        cases hi
        exact ⟨h0, fun j hj => absurd hj (Fin.not_lt_zero j)⟩
      · simp only [reduceCtorEq, false_iff, not_forall]
        exact ⟨0, by simp [h0]⟩
    · rw [if_neg h0]
      constructor
      · intro i hi
        rw [Option.map_eq_some_iff] at hi
        obtain ⟨i', hi', rfl⟩ := hi
        obtain ⟨h1, h2⟩ := ih1 i' hi'
        refine ⟨h1, fun j hj => ?_⟩
        refine Fin.cases ?_ (fun j' hj' => ?_) j hj
        · intro _; simpa using h0
        · exact h2 j' (Fin.succ_lt_succ_iff.1 hj')
      · rw [Option.map_eq_none_iff, ih2]
        constructor
        · intro h i
          refine Fin.cases ?_ (fun j => h j) i
          simpa using h0
        · intro h i; exact h i.succ

/-- eig contract `Pᵀ * V = V * diagonal vals` (columns of `V` are eigenvectors of the
transposed row matrix).  A reported eigenvector `v` is row `i` of `Vᵀ` for the *first* `i`
whose eigenvalue passes the mask, and the transformation maps it to `vals i • v`. -/
theorem eigenvector_selected (P V : Matrix (Fin m) (Fin m) K) (vals : Fin m → K) (ic : K → Bool)
    (hc : Pᵀ * V = V * Matrix.diagonal vals) (v : Fin m → K)
    (hv : eigenvector vals V ic = some v) :
    ∃ i, v = Vᵀ i ∧ ic (vals i) = true ∧ (∀ j, j < i → ic (vals j) = false) ∧
      applyT P v = vals i • v := by
  unfold eigenvector at hv
  rw [Option.map_eq_some_iff] at hv
  obtain ⟨i, hi, rfl⟩ := hv
  obtain ⟨h1, h2⟩ := (firstTrue_spec m fun i => ic (vals i)).1 i hi
  refine ⟨i, rfl, h1, h2, ?_⟩
  funext j
  have := congrFun (congrFun hc j) i
  simp only [Matrix.mul_apply, Matrix.transpose_apply, Matrix.diagonal_apply, mul_ite, mul_zero,
    Finset.sum_ite_eq', Finset.mem_univ, if_true] at this
  simp only [applyT, Matrix.vecMul, dotProduct, Matrix.transpose_apply, Pi.smul_apply, smul_eq_mul]
  rw [mul_comm (vals i), ← this]
  exact Finset.sum_congr rfl fun k _ => mul_comm _ _

/-- the `GeometryError` of the single-matrix branch is raised exactly when no eigenvalue
passes the mask -/
theorem eigenvector_none_iff (V : Matrix (Fin m) (Fin m) K) (vals : Fin m → K) (ic : K → Bool) :
    eigenvector vals V ic = none ↔ ∀ i, ic (vals i) = false := by
  unfold eigenvector
  rw [Option.map_eq_none_iff]
  exact (firstTrue_spec m fun i => ic (vals i)).2

/-- composite branch: each unit of the answer is either an eigenvector of its unit for a
masked eigenvalue or (no match) the zero vector -/
theorem eigenvectorComposite_spec (units : List ((Fin m → K) × Matrix (Fin m) (Fin m) K))
    (Ps : List (Matrix (Fin m) (Fin m) K)) (ic : K → Bool) (hlen : Ps.length = units.length)
    (hc : ∀ i (h : i < units.length), (Ps[i]'(hlen ▸ h))ᵀ * units[i].2 = units[i].2 * Matrix.diagonal units[i].1)
    (i : ℕ) (h : i < units.length) :
    let v := (eigenvectorComposite units ic)[i]'(by simp [eigenvectorComposite, h])
    (∃ l, ic (units[i].1 l) = true ∧ applyT (Ps[i]'(hlen ▸ h)) v = units[i].1 l • v) ∨
      ((∀ l, ic (units[i].1 l) = false) ∧ v = 0) := by
  intro v
  have hv : v = (eigenvector units[i].1 units[i].2 ic).getD 0 := by
    simp [v, eigenvectorComposite]
  cases he : eigenvector units[i].1 units[i].2 ic with
  | none =>
    right
    exact ⟨(eigenvector_none_iff _ _ _).1 he, by rw [hv, he]; rfl⟩
  | some w =>
    left
    obtain ⟨l, -, h1, -, h3⟩ := eigenvector_selected _ _ _ ic (hc i h) w he
    exact ⟨l, h1, by rw [hv, he]; exact h3⟩

/-- `diagonalize`: eig contract + inverse contract ⇒ `M.inv() @ T @ M` is the diagonal
matrix of the eigenvalues -/
theorem diagonalize_spec (P V W : Matrix (Fin m) (Fin m) K) (vals : Fin m → K)
    (hc : Pᵀ * V = V * Matrix.diagonal vals) (hW : diagonalize V * W = 1) :
    conjugated (diagonalize V) W P = Matrix.diagonal vals := by
  have h : Vᵀ * P = Matrix.diagonal vals * Vᵀ := by
    have := congrArg Matrix.transpose hc
    simpa [Matrix.transpose_mul, Matrix.diagonal_transpose] using this
  unfold conjugated diagonalize at *
  rw [← Matrix.mul_assoc, h, Matrix.mul_assoc, hW, Matrix.mul_one]

/-- non-vacuity: `P = [[2,0],[1,3]]` (row matrix), eigen-data of `Pᵀ` -/
example : ∃ v, eigenvector (K := ℚ) ![2, 3] !![1, 1; 0, 1] (fun x => x == 3) = some v ∧
    applyT !![2, 0; 1, 3] v = (3 : ℚ) • v := by
  have hc : (!![2, 0; 1, 3] : Matrix (Fin 2) (Fin 2) ℚ)ᵀ * !![1, 1; 0, 1] = !![1, 1; 0, 1] * Matrix.diagonal ![2, 3] := by
    ext i j; fin_cases i <;> fin_cases j <;> simp [Matrix.mul_apply, Fin.sum_univ_succ, Matrix.diagonal_apply] <;> norm_num
  have hv : eigenvector (K := ℚ) ![2, 3] !![1, 1; 0, 1] (fun x => x == 3) = some ((!![1, 1; 0, 1] : Matrix (Fin 2) (Fin 2) ℚ)ᵀ 1) := by
    simp [eigenvector, firstTrue]
  obtain ⟨i, hi, h1, _, h3⟩ := eigenvector_selected _ _ _ _ hc _ hv
  refine ⟨_, hv, ?_⟩
  have : i = 1 := by
    fin_cases i
    · simp at h1
    · rfl
  subst this
  simpa using h3

end GT.C16
