/- property theorems for C16 (filled in below) -/
