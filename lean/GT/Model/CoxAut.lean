/-
Model of the Brink–Howlett automaton construction in
`geometry_tools/automata/coxeter_automaton.py` (`form_gen_root`, `apply_gen_to_root`,
`find_word_to_negative`, `find_root_from_vector`, `find_small_roots`, `apply_gen_to_node`,
`generate_automaton`) and of the even-length variant (`fsa.automaton_multiple(2)` after
`rename_generators`), verbatim over an ordered field with the threshold `ε` a parameter
(`ε = 10⁻⁶` mirrors the code; `ε = 0` is the mathematical algorithm).  Executed over ℚ.

`while` loops whose termination is not proved take fuel; fuel exhaustion is its own outcome
(`none` / `"fuel"`), never a silent default.  Termination of `find_small_roots` *is* the
Brink–Howlett finiteness theorem and is not proved.
-/
import Mathlib.Algebra.Order.Field.Basic
import Mathlib.Algebra.Field.Rat

namespace GT.CoxAut

/-! ## numeric part: small roots -/

section numeric
variable {K : Type} [Field K] [LinearOrder K] {n : ℕ}

/-- `class Root`: coordinates `v` in the simple roots and `neighbors[k]` (the id of the root
`s_k(v)` if it is a known small root) -/
structure Root (K : Type) (n : ℕ) where
  v : Vector K n
  nb : Vector (Option Nat) n

/-- `form_gen_root(form, k, root) = sum(root[i] * form[i][k] for i in range(rank))` -/
def formGenRoot (form : Vector (Vector K n) n) (k : Fin n) (root : Vector K n) : K :=
  (List.finRange n).foldl (fun acc i => acc + root[i] * form[i][k]) 0

/-- `apply_gen_to_root(form, k, root)`: `root[k] -= 2 * form_gen_root(form, k, root)` -/
def applyGenToRoot (form : Vector (Vector K n) n) (k : Fin n) (root : Vector K n) : Vector K n :=
  root.set k (root[k] - 2 * formGenRoot form k root)

/-- `find_word_to_negative(form, root, startwith)`.  One unit of fuel per `while` iteration.
Python's `if startwith and k != startwith: continue` treats `startwith = 0` as "not given"
(`0` is falsy): the restriction is active only for `startwith = some s` with `s ≠ 0`. -/
def findWordToNegative (ε : K) (form : Vector (Vector K n) n) :
    Nat → Vector K n → Option (Fin n) → List (Fin n) → Option (List (Fin n))
  | 0, _, _, _ => none
  | fuel + 1, root, startwith, word =>
    -- `while not next(filter(lambda x: x < -1e-6, root), None)`
    if root.toList.any (fun x => x < -ε) then some word
    else
      let allowed (k : Fin n) : Bool :=
        match startwith with
        | some s => !(s.val != 0 && k != s)
        | none => true
      match (List.finRange n).find? (fun k => allowed k && decide (formGenRoot form k root > ε)) with
      | some k => findWordToNegative ε form fuel (applyGenToRoot form k root) none (word ++ [k])
      | none => findWordToNegative ε form fuel root none word

/-- the inner `while len(word) > 0` walk of `find_root_from_vector`: follow `neighbors` along the
letters popped from the end of the word -/
def walkNeighbors (roots : Array (Root K n)) : Nat → List (Fin n) → Option Nat
  | r, [] => some r
  | r, letter :: rest =>
    match roots[r]? with
    | none => none
    | some ro =>
      match ro.nb[letter] with
      | none => none
      | some r' => walkNeighbors roots r' rest

/-- `find_root_from_vector(form, roots, vector)`; `Except.error "fuel"` when the inner search
ran out of fuel -/
def findRootFromVector (ε : K) (form : Vector (Vector K n) n) (fuel : Nat) (roots : Array (Root K n))
    (vector : Vector K n) : Except String (Option Nat) := do
  for k in List.finRange n do
    match findWordToNegative ε form fuel vector (some k) [] with
    | none => throw "fuel"
    | some word =>
      match word.getLast? with
      | none => continue                      -- `if not word: continue`
      | some last =>
        -- `rootobj = roots[word.pop()]`, then pop the remaining letters from the end
        match walkNeighbors roots last.val word.dropLast.reverse with
        | some r => return some r
        | none => continue
  return none

/-- the simple roots: standard basis vectors, no neighbours yet -/
def simpleRoots (K : Type) [Field K] (n : ℕ) : Array (Root K n) :=
  (Array.ofFn fun i : Fin n => ⟨(Vector.replicate n (0 : K)).set i 1, Vector.replicate n none⟩)

/-- body of the `for k in range(rank)` loop of `find_small_roots` for the root with index `i` -/
def smallRootsStep (ε : K) (form : Vector (Vector K n) n) (fuel : Nat) (i : Nat)
    (roots : Array (Root K n)) : Except String (Array (Root K n)) := do
  let mut roots := roots
  for k in List.finRange n do
    match roots[i]? with
    | none => throw "index"
    | some root =>
      let newroot := applyGenToRoot form k root.v
      match ← findRootFromVector ε form fuel roots newroot with
      | some r =>
        roots := roots.set! i { root with nb := root.nb.set k (some r) }
      | none =>
        let f := formGenRoot form k root.v
        if f > -1 + ε ∧ f < -ε then        -- new and small
          let id := roots.size
          roots := (roots.set! i { root with nb := root.nb.set k (some id) }).push
            ⟨newroot, Vector.replicate n none⟩
  return roots

/-- `find_small_roots(form)`: `while i < len(small_roots)`; `outer` bounds the number of roots
processed -/
def findSmallRootsLoop (ε : K) (form : Vector (Vector K n) n) (fuel : Nat) :
    Nat → Nat → Array (Root K n) → Except String (Array (Root K n))
  | 0, i, roots => if i < roots.size then throw "fuel" else pure roots
  | outer + 1, i, roots =>
    if i < roots.size then do
      let roots' ← smallRootsStep ε form fuel i roots
      findSmallRootsLoop ε form fuel outer (i + 1) roots'
    else pure roots

def findSmallRoots (ε : K) (form : Vector (Vector K n) n) (fuel outer : Nat) :
    Except String (Array (Root K n)) :=
  findSmallRootsLoop ε form fuel outer 0 (simpleRoots K n)

end numeric

/-- neighbour ids as a function: `T[p][k]` (what the discrete part takes as `nb`) -/
def nbOfList (T : List (List (Option Nat))) : Nat → Nat → Option Nat :=
  fun p k => ((T[p]?).bind fun row => row[k]?).join

/-- `small_roots[p].neighbors[k].id` -/
def nbTable {K : Type} {n : ℕ} (roots : Array (Root K n)) : Nat → Nat → Option Nat :=
  nbOfList (roots.toList.map fun r => r.nb.toList)

/-- coordinates and neighbour ids of a small-root computation (`none` on fuel exhaustion) -/
def summary {K : Type} {n : ℕ} (r : Except String (Array (Root K n))) :
    Option (List (List K × List (Option Nat))) :=
  match r with
  | .ok roots => some (roots.toList.map fun x => (x.v.toList, x.nb.toList))
  | .error _ => none

/-- the two thresholds the rank-2 theorems are evaluated at: the mathematical `ε = 0` and the code's `10⁻⁶` -/
def eps0 : ℚ := 0
def eps6 : ℚ := 1 / 1000000

/-- the rank-2 form `[[1, c], [c, 1]]`, `c = -cos(π/m)` -/
def form2 {K : Type} [One K] (c : K) : Vector (Vector K 2) 2 := #v[#v[1, c], #v[c, 1]]

/-! ## discrete part: the automaton on sets of small roots

A node is the Python tuple of 0/1 (here `List Bool`); `nb p k` is the id of
`small_roots[p].neighbors[k]` (`none` for `None`).  In the Python every index is in range
(`p < nroots`, `k < rank`, ids `< nroots`); the driver validates that before running, so the
`none`/`false` defaults below are never taken. -/

/-- `apply_gen_to_node(small_roots, k, node, position, lex_reduced)` -/
def applyGenToNode (nb : Nat → Nat → Option Nat) (lex : Bool) (k : Nat) (node : List Bool)
    (pos : Nat) : Bool :=
  if lex && (List.range k).any (fun j => nb j k == some pos) then true
  else if pos == k then true
  else match nb pos k with
    | some sw => node.getD sw false
    | none => false

/-- `newnode = tuple(apply_gen_to_node(small_roots, k, node, i, lex) for i in range(nroots))` -/
def succNode (nb : Nat → Nat → Option Nat) (lex : Bool) (nroots : Nat) (k : Nat) (node : List Bool) :
    List Bool :=
  (List.range nroots).map (applyGenToNode nb lex k node)

/-- the `for k in range(rank)` loop of `generate_automaton` for one node: returns the extended
node list (new nodes get the next ids) and the row of transitions (`none` where `node[k] == 1`) -/
def processNode (succ : Nat → List Bool → List Bool) (rank : Nat) (node : List Bool)
    (nodes : List (List Bool)) : List (List Bool) × List (Option Nat) :=
  (List.range rank).foldl (fun (st : List (List Bool) × List (Option Nat)) k =>
    if node.getD k false then (st.1, st.2 ++ [none])
    else
      let nn := succ k node
      let t := st.1.idxOf nn
      if t < st.1.length then (st.1, st.2 ++ [some t])
      else (st.1 ++ [nn], st.2 ++ [some st.1.length])) (nodes, [])

/-- the `while todo` loop of `generate_automaton`.  The deque is used first-in-first-out and ids
are assigned at discovery, so the queue is always `nodes[rows.length:]`: nodes are processed in
id order. -/
def bfs (succ : Nat → List Bool → List Bool) (rank : Nat) :
    Nat → List (List Bool) → List (List (Option Nat)) →
      Option (List (List Bool) × List (List (Option Nat)))
  | 0, nodes, rows =>
    match nodes[rows.length]? with
    | none => some (nodes, rows)
    | some _ => none
  | fuel + 1, nodes, rows =>
    match nodes[rows.length]? with
    | none => some (nodes, rows)
    | some node =>
      let r := processNode succ rank node nodes
      bfs succ rank fuel r.1 (rows ++ [r.2])

/-- transition table: `A[s][k] = some t` iff `graph[s][k] == t` -/
abbrev Table := List (List (Option Nat))

/-- `generate_automaton(small_roots, lex_reduced)`: start node all zeros with id 0 -/
def generateAutomaton (nb : Nat → Nat → Option Nat) (nroots rank : Nat) (lex : Bool) (fuel : Nat) :
    Option (List (List Bool) × Table) :=
  bfs (succNode nb lex nroots) rank fuel [List.replicate nroots false] []

/-- `generate_automaton_coxeter_matrix` after the form matrix has been computed: small roots, then the
automaton (fuel exhaustion of either stage is the error `"fuel"`) -/
def coxeterAutomaton {K : Type} [Field K] [LinearOrder K] {n : ℕ} (ε : K) (form : Vector (Vector K n) n)
    (fuel outer bfsFuel : Nat) (lex : Bool) : Except String Table := do
  let roots ← findSmallRoots ε form fuel outer
  match generateAutomaton (nbTable roots) roots.size n lex bfsFuel with
  | none => throw "fuel"
  | some (_, A) => pure A

/-- `graph[s][k]` (a `KeyError` is `none`) -/
def Table.step (A : Table) (s k : Nat) : Option Nat := (A[s]?).bind fun row => (row[k]?).join

/-- `FSA.follow_word` from state `s` -/
def Table.follow (A : Table) : Nat → List Nat → Option Nat
  | s, [] => some s
  | s, k :: w => (A.step s k).bind fun t => Table.follow A t w

/-- `FSA.accepts` with start vertex 0 -/
def Table.accepts (A : Table) (w : List Nat) : Prop := (A.follow 0 w).isSome

/-- the run on nodes that the table tabulates: letter `k` is allowed iff `k < rank` and bit `k`
of the current node is clear -/
def run (succ : Nat → List Bool → List Bool) (rank : Nat) : List Bool → List Nat → Option (List Bool)
  | node, [] => some node
  | node, k :: w => if k < rank ∧ node.getD k false = false then run succ rank (succ k node) w else none

/-! ## the even-length variant -/

/-- one transition of `automaton_multiple(2)`: the label is the concatenation of two letters,
the target is reached by the length-2 path (`enumerate_fixed_length_paths(2, start_vertex=v)`) -/
def Table.step2 (A : Table) (s : Nat) (p : Nat × Nat) : Option Nat :=
  (A.step s p.1).bind fun t => A.step t p.2

/-- the vertices `automaton_multiple` visits and the edges it adds: breadth-first from the start
vertex, one unit of fuel per dequeued vertex.  Returns the association list
`vertex ↦ [((k₁,k₂), target)]` in the order the Python adds them. -/
def evenBfs (A : Table) (rank : Nat) :
    Nat → List Nat → List Nat → List (Nat × List ((Nat × Nat) × Nat)) →
      Option (List (Nat × List ((Nat × Nat) × Nat)))
  | _, [], _, acc => some acc
  | 0, _ :: _, _, _ => none
  | fuel + 1, v :: queue, visited, acc =>
    if visited.contains v then evenBfs A rank fuel queue visited acc
    else
      let pairs := (List.range rank).flatMap fun k₁ => (List.range rank).map fun k₂ => (k₁, k₂)
      let edges := pairs.filterMap fun p => (A.step2 v p).map fun t => (p, t)
      evenBfs A rank fuel (queue ++ edges.map (·.2)) (v :: visited) (acc ++ [(v, edges)])

/-- `aut.even_automaton()` -/
def evenAutomaton (A : Table) (rank fuel : Nat) : Option (List (Nat × List ((Nat × Nat) × Nat))) :=
  evenBfs A rank fuel [0] [] []

/-- the product automaton returned by `evenAutomaton`: `vertex ↦ [(label, target)]` -/
abbrev EvenG := List (Nat × List ((Nat × Nat) × Nat))

/-- `graph[v][label]` of the even automaton -/
def EvenG.step (E : EvenG) (v : Nat) (p : Nat × Nat) : Option Nat :=
  (E.lookup v).bind fun es => es.lookup p

def EvenG.follow (E : EvenG) : Nat → List (Nat × Nat) → Option Nat
  | s, [] => some s
  | s, p :: ps => (E.step s p).bind fun t => EvenG.follow E t ps

def allPairs (rank : Nat) : List (Nat × Nat) :=
  (List.range rank).flatMap fun k₁ => (List.range rank).map fun k₂ => (k₁, k₂)

def edgesOf (A : Table) (rank v : Nat) : List ((Nat × Nat) × Nat) :=
  (allPairs rank).filterMap fun p => (A.step2 v p).map fun t => (p, t)

/-! ## certificates of non-reducedness (Tits: braid moves and deletion of squares) -/

/-- the alternating word `a b a b …` of length `m` (starting with `a`) -/
def altFrom {B : Type} (a b : B) : Nat → List B
  | 0 => []
  | m + 1 => a :: altFrom b a m

/-- one step of a non-reducedness certificate -/
inductive CertStep
  | braid (pos : Nat)    -- replace the alternating subword of length `m(a,b)` starting at `pos`
  | square (pos : Nat)   -- delete the square at `pos`, `pos + 1`

/-- apply one certificate step; `none` if it does not apply (`M a b = 0` is an infinite label: no braid move) -/
def applyStep {B : Type} [DecidableEq B] (M : B → B → Nat) (w : List B) : CertStep → Option (List B)
  | .square pos =>
    match w.drop pos with
    | a :: b :: rest => if a = b then some (w.take pos ++ rest) else none
    | _ => none
  | .braid pos =>
    match w.drop pos with
    | a :: b :: _ =>
      let m := M a b
      if (w.drop pos).take m = altFrom a b m ∧ m ≤ (w.drop pos).length then
        some (w.take pos ++ altFrom b a m ++ w.drop (pos + m))
      else none
    | _ => none

/-- run a certificate -/
def checkCert {B : Type} [DecidableEq B] (M : B → B → Nat) : List B → List CertStep → Option (List B)
  | w, [] => some w
  | w, s :: ss => (applyStep M w s).bind fun w' => checkCert M w' ss

/-- the block word of a list of 2-letter labels (what `enumerate_words` prints for the even automaton) -/
def unblock (ps : List (Nat × Nat)) : List Nat := ps.flatMap fun p => [p.1, p.2]

/-- following 2-letter labels with `step2` -/
def follow2 (A : Table) : Nat → List (Nat × Nat) → Option Nat
  | s, [] => some s
  | s, p :: ps => (A.step2 s p).bind fun t => follow2 A t ps

end GT.CoxAut
