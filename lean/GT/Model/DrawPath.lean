/-
Model of the path assembly in geometry_tools/drawtools.py
(`HyperbolicDrawing.get_polygon_arcpath`, `get_straight_arcpath`, `get_vertical_segment`,
`preprocess_object`).  matplotlib's `Path.arc` output (vertices and codes of the Bézier
approximation, after `Affine2D().scale(r).translate(c)`) is an INPUT of the model: what
matplotlib draws for a path is outside any theorem.

Distances are compared squared (`‖a - b‖ < τ` ⇔ `‖a - b‖² < τ²` for `τ ≥ 0`), so no square
root occurs.  No Mathlib beyond ordered fields.
-/
import Mathlib.Algebra.Order.Field.Basic

namespace GT.DrawPath

variable {K : Type*} [Field K] [LinearOrder K]

/-- matplotlib path codes that occur -/
inductive Code | moveto | lineto | curve4
  deriving DecidableEq, Repr

/-- one edge's piece: `g_path.vertices`, `g_path.codes` and the edge's end pair
(`segment.get_end_pair()` in the drawing's model coordinates) -/
structure Piece (K : Type*) where
  verts : List (K × K)
  codes : List Code
  p1 : K × K
  p2 : K × K

/-- `np.linalg.norm(a - b) < distance_threshold`, squared (`τ2 = DISTANCE_THRESHOLD²`) -/
def near (τ2 : K) (a b : K × K) : Bool :=
  decide ((a.1 - b.1) * (a.1 - b.1) + (a.2 - b.2) * (a.2 - b.2) < τ2)

/-- the reversal heuristic: `g_verts[::-1]` when `p1` is within the threshold of the LAST
vertex or `p2` within the threshold of the FIRST one.  `none` = `IndexError` on an empty path -/
def orient (τ2 : K) (pc : Piece K) : Option (List (K × K)) :=
  match pc.verts.head?, pc.verts.getLast? with
  | some f, some l =>
    some (if near τ2 pc.p1 l || near τ2 pc.p2 f then pc.verts.reverse else pc.verts)
  | _, _ => none

/-- `g_codes[0] = Path.LINETO` for every piece but the first -/
def recode (first : Bool) (codes : List Code) : List Code :=
  if first then codes else
    match codes with
    | [] => []
    | _ :: cs => .lineto :: cs

/-- the loop of `get_polygon_arcpath`: concatenate the oriented pieces -/
def assembleAux (τ2 : K) : Bool → List (Piece K) → Option (List (K × K) × List Code)
  | _, [] => some ([], [])
  | first, pc :: rest =>
    match orient τ2 pc, assembleAux τ2 false rest with
    | some v, some (vs, cs) => some (v ++ vs, recode first pc.codes ++ cs)
    | _, _ => none

/-- `get_polygon_arcpath(polygon)` given the pieces of its edges -/
def assemble (τ2 : K) (pcs : List (Piece K)) : Option (List (K × K) × List Code) :=
  assembleAux τ2 true pcs

/-- `get_vertical_segment(endpts)` in the half-plane: an endpoint whose `x` is NaN (`none`) or
off-screen is the ideal point at infinity; the segment is drawn vertically above the other
endpoint, up to `up_infinity` when the second endpoint is at infinity -/
def verticalSegment (left right up : K) (e0 e1 : Option K × K) : (Option K × K) × (Option K × K) :=
  let off (x : Option K) : Bool := match x with
    | none => true
    | some x => decide (x < left) || decide (right < x)
  let o : (Option K × K) × (Option K × K) := if off e0.1 then (e1, e0) else (e0, e1)
  let y1 := if off o.2.1 then up else o.2.2
  (o.1, (o.1.1, y1))

/-- `get_circle_arcpath` / `get_straight_arcpath`: the radius-threshold switch.  `radius = none`
is NaN.  `arc` is matplotlib's (transformed) `Path.arc`; `straight` the two endpoints
(`endpoint_coords`, after `get_vertical_segment` in the half-plane) -/
def edgePiece (thr : K) (radius : Option K) (arc : List (K × K) × List Code)
    (straight : (K × K) × (K × K)) (p1 p2 : K × K) : Piece K :=
  match radius with
  | some r =>
    if r < thr then ⟨arc.1, arc.2, p1, p2⟩
    else ⟨[straight.1, straight.2], [.moveto, .lineto], p1, p2⟩
  | none => ⟨[straight.1, straight.2], [.moveto, .lineto], p1, p2⟩

/-- `preprocess_object`: only 2-dimensional objects are drawn -/
def preprocess (dimension : Nat) : Except String Unit :=
  if dimension ≠ 2 then throw "GeometryError" else pure ()

end GT.DrawPath
