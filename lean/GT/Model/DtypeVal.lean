/-
Values next to the dtype decision model (`GT.Model.Dtype`): a packaged number is a packaging
together with the rational it denotes; `np.array(x, dtype=d)` / assignment into an array of
dtype `d` casts that value.  `float32` rounding is a supplied function `f32` (the theorems
assume `f32 v = v`, i.e. the value is representable; the correspondence uses dyadic values).
-/
import GT.Model.Dtype
import Mathlib.Data.Rat.Floor

namespace GT.Dtype

/-- the value stored when `v` is written into an array of dtype `d`
(`int64`: truncation towards zero, as `astype(int)` / assignment does) -/
def castVal (f32 : ℚ → ℚ) : Dt → ℚ → ℚ
  | .int64, v => if 0 ≤ v then (⌊v⌋ : ℤ) else (⌈v⌉ : ℤ)
  | .float32, v => f32 v
  | _, v => v

/-- `utils.array_like(x)` for a packaging `p` of the number `v`: decided dtype and stored value -/
def arrayLikeVal (f32 : ℚ → ℚ) (L : Lib) (p : Pack) (v : ℚ) (like : Option Pack := none)
    (dtype : Option Dt := none) (integerType : Bool := false) : Except Err (Dt × ℚ) := do
  let d ← arrayLike L p like dtype integerType
  pure (d, castVal f32 d v)

/-- the value an entry point stores for its real parameter (or a number computed from it) -/
def entryVal (f32 : ℚ → ℚ) (L : Lib) (e : Entry) (p : Pack) (v : ℚ) : Except Err (Dt × ℚ) := do
  let d ← entryDtype L e p
  pure (d, castVal f32 d v)

end GT.Dtype
