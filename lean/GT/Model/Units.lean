/-
Unit views of composite arrays in Mathlib's types (`Fin n → K`, `Matrix`), so that what a
composite array holds *at an outer index* can be stated with `Matrix.vecMul` / `*`:
the last `unit_ndims` axes form one unit object, everything in front is the composite
shape (projective.py:139 `ProjectiveObject.__init__`, :311 `shape`).
-/
import GT.Model.ND
import Mathlib.Data.Matrix.Mul

namespace GT.Act
open ND

variable {K : Type} [Inhabited K]

/-- the row vector (unit of rank 1, e.g. a point) at outer index `i` -/
def rowAt (a : ND K) (n : ℕ) (i : List ℕ) : Fin n → K := fun c => a.get (i ++ [c.1])

/-- the matrix (unit of rank 2: transformation, point pair, polygon vertices, …) at outer index `i` -/
def matAt (a : ND K) (p n : ℕ) (i : List ℕ) : Matrix (Fin p) (Fin n) K :=
  fun r c => a.get (i ++ [r.1, c.1])

/-- the stack of matrices (unit of rank 3: a polygon's edges) at outer index `i` -/
def stackAt (a : ND K) (k p n : ℕ) (i : List ℕ) : Fin k → Matrix (Fin p) (Fin n) K :=
  fun v r c => a.get (i ++ [v.1, r.1, c.1])

/-- the scalar (unit of rank 0: a distance, a norm) at outer index `i` -/
def scalarAt (a : ND K) (i : List ℕ) : K := a.get i

end GT.Act
