/-
The C11 state machine: objects ⟨kind, proj, aux⟩ over `ND` arrays, the operations
construct / copy / apply / reshape / flatten / index / setItem / stack / combine / astype
(geometry_tools/projective.py `ProjectiveObject.set`, `_construct_from_object`, `reshape`,
`flatten_to_unit`, `__getitem__`, `__setitem__`, `astype`, `combine`;
`Transformation.apply`), the derived data of polygons, segments and tangent vectors, and
the in-place writes reachable from read-only queries (`utils.normalize`,
`indefinite_orthogonalize`).  `__setitem__` and `combine` are modelled as REPAIRED (D6).
-/
import GT.Model.Obj
import GT.Model.Action
import GT.Model.Units

open Matrix

namespace GT.Act
open ND

variable {K : Type} [Field K] [Inhabited K]

/-- `hyperbolic.minkowski(n)`: `diag(-1, 1, …, 1)` -/
def minkJ (n : ℕ) : Matrix (Fin n) (Fin n) K := Matrix.diagonal fun i => if i.1 = 0 then -1 else 1

/-- the row-index part of a unit of derived data when the primary unit has `t` rows:
polygon edges `[t, 2]`, segment / tangent vector `[t]` (`t = 2`) -/
def auxRows : Kind → ℕ → List ℕ
  | .polygon, t => [t, 2]
  | _, t => [t]

/-- entry `x` of the unit of derived data computed from ONE primary unit, given by its
accessor `acc` (`acc [a, b]` = entry `(a, b)` of the unit):
* polygon (`Polygon._compute_aux_data`, projective.py:883 / hyperbolic.py:1687): edge `v` is the pair
  of vertices `v`, `v+1 mod t`;
* segment (`hyperbolic.Segment._compute_aux_data`, :945): the ideal endpoints (`r` = square root);
* tangent vector (`hyperbolic.TangentVector._compute_aux_data`, :1208): `[p, v - proj_p v]`. -/
def auxEntry (r : K → K) : Kind → List ℕ → (List ℕ → K) → List ℕ → K
  | .polygon, [t, _], acc, [v, e, c] => acc [(v + e) % t, c]
  | .segment, [2, n], acc, [e, c] =>
    if h : e < 2 ∧ c < n then
      segmentIdeal (minkJ n) r (Matrix.of fun a b => acc [a.1, b.1]) ⟨e, h.1⟩ ⟨c, h.2⟩
    else 0
  | .tangent, [2, n], acc, [e, c] =>
    if h : e < 2 ∧ c < n then
      tangentProj (minkJ n) (Matrix.of fun a b => acc [a.1, b.1]) ⟨e, h.1⟩ ⟨c, h.2⟩
    else 0
  | _, _, _, _ => 0

/-- `self._compute_aux_data(proj_data)` for a composite array: every unit independently
(the vectorised numpy code is shown to act per unit by C04's lifting theorems and by the
per-unit oracle; the literal numpy form of the polygon case is `computeAuxPolygonLit`) -/
def computeAux (r : K → K) (kind : Kind) (p : ND K) : Option (ND K) :=
  if kind.auxNdims = 0 then none
  else
    let ol := p.shape.length - 2
    let o := p.shape.take ol
    let U := p.shape.drop ol
    some (ofFn (o ++ auxRows kind (U.headD 0) ++ [U.getD 1 0])
      (fun ix => auxEntry r kind U (fun y => p.get (ix.take ol ++ y)) (ix.drop ol)))

/-- `PointPair(v, np.roll(v, -1, axis=-2)).proj_data = np.stack([v, roll], axis=-2)`: the
literal numpy form of a polygon's edges -/
def computeAuxPolygonLit (p : ND K) : Except String (ND K) :=
  ND.stack [p, p.rollBack 1 (p.rank - 2)] (p.rank - 1)

/-- `Cls(proj_data)` -/
def Obj.construct (r : K → K) (kind : Kind) (p : ND K) : Obj K := ⟨kind, p, computeAux r kind p, none⟩

/-- the operations of the histories in C11 -/
inductive ObjOp (K : Type)
  | copy
  | apply (A AinvT : ND K)
  | reshape (s : List ℕ)
  | flatten
  | index (k : ℕ)
  | setItem (k : ℕ) (v : ND K)
  | stack (others : List (Obj K))
  | combine (others : List (Obj K))
  | astype

def optMapE {α β : Type} (f : α → Except String β) : Option α → Except String (Option β)
  | none => .ok none
  | some a => (f a).map some

/-- all `some`, or `none` if any is missing (`(aux_array == None).any()` in `_construct_from_object`) -/
def allSome {α : Type} : List (Option α) → Option (List α)
  | [] => some []
  | none :: _ => none
  | some a :: l => (allSome l).map (a :: ·)

/-- one operation.  Errors are the library's exceptions (`ValueError` from numpy's reshape /
stack / concatenate, `IndexError`). -/
def Obj.step (r : K → K) (X : Obj K) : ObjOp K → Except String (Obj K)
  | .copy => .ok X                                 -- `Cls(obj)`: `set(obj.proj_data, aux_data=obj.aux_data)`
  | .astype => .ok X                               -- same values, other packaging
  | .apply A AinvT => X.apply A AinvT .elementwise -- `A @ obj`
  | .reshape s =>                                  -- `obj.reshape(s)`: every block reshaped, aux passed on
    match X.proj.reshape (s ++ X.proj.shape.drop (X.proj.shape.length - X.kind.unitNdims)) with
    | .error e => .error e
    | .ok p =>
      match optMapE (fun a => a.reshape (s ++ a.shape.drop (a.shape.length - X.kind.auxNdims))) X.aux with
      | .error e => .error e
      | .ok a => .ok ⟨X.kind, p, a, X.dual⟩
  | .flatten =>                                    -- `obj.flatten_to_unit()`
    .ok ⟨X.kind, X.proj.flattenOuter X.kind.unitNdims,
      X.aux.map (·.flattenOuter X.kind.auxNdims), X.dual⟩
  | .index k =>                                    -- `obj[k]` = `Cls(obj.proj_data[k])`: aux recomputed
    if X.kind.unitNdims < X.proj.shape.length ∧ k < X.proj.shape.headD 0 then
      .ok (Obj.construct r X.kind (X.proj.sub [k]))
    else .error "IndexError"
  | .setItem k v =>                                -- `obj[k] = value` (repaired: aux recomputed)
    if X.kind.unitNdims < X.proj.shape.length ∧ k < X.proj.shape.headD 0 ∧
        v.shape = X.proj.shape.drop 1 then
      let p := X.proj.setSub [k] v
      .ok ⟨X.kind, p, computeAux r X.kind p, X.dual⟩
    else .error "IndexError"
  | .stack others =>                               -- `Cls([obj, *others])`
    match ND.stack ((X :: others).map (·.proj)) 0 with
    | .error e => .error e
    | .ok p =>
      match allSome ((X :: others).map (·.aux)) with
      | none => .ok ⟨X.kind, p, computeAux r X.kind p, none⟩      -- `set(..., aux_data=None)` recomputes
      | some as =>
        match ND.stack as 0 with
        | .error e => .error e
        | .ok a => .ok ⟨X.kind, p, some a, none⟩
  | .combine others =>                             -- `Cls.combine([obj, *others])` (repaired)
    match ND.concat ((X :: others).map fun Y => Y.proj.flattenOuter Y.kind.unitNdims) 0 with
    | .error e => .error e
    | .ok p =>
      if X.kind.auxNdims = 0 then .ok ⟨X.kind, p, none, none⟩
      else
        match allSome ((X :: others).map (·.aux)) with
        | none => .error "AttributeError"
        | some as =>
          match ND.concat (as.map fun a => a.flattenOuter X.kind.auxNdims) 0 with
          | .error e => .error e
          | .ok a => .ok ⟨X.kind, p, some a, none⟩

/-- a history -/
def Obj.run (r : K → K) (X : Obj K) : List (ObjOp K) → Except String (Obj K)
  | [] => .ok X
  | op :: ops =>
    match X.step r op with
    | .error e => .error e
    | .ok Y => Y.run r ops

/-! ### in-place writes reachable from read-only queries -/

/-- `normalizeRows` for vectors of length `n` (`n` = last axis) -/
def normalizeRowsN [LinearOrder K] (r : K → K) (n : ℕ) (a : ND K) : ND K :=
  let ol := a.shape.length - 1
  ofFn a.shape (fun ix =>
    let row : Fin n → K := fun c => a.get (ix.take ol ++ [c.1])
    let nrm := r |bil (minkJ n) row row|
    if nrm = 0 then a.get ix else a.get ix / nrm)

/-- `utils.normalize(vectors, J)` with `out=vectors`: the new value of the caller's array.
Each row is divided by `√|⟨x,x⟩|` where that is non-zero and left alone otherwise. -/
def normalizeRows [LinearOrder K] (r : K → K) (a : ND K) : ND K :=
  normalizeRowsN r (a.shape.getLastD 0) a

/-- one row under `utils.normalize` -/
def normalizeRow [LinearOrder K] {n : ℕ} (r : K → K) (x : Fin n → K) : Fin n → K :=
  if r |bil (minkJ n) x x| = 0 then x else fun c => x c / r |bil (minkJ n) x x|

/-- `TangentVector.origin_to`: `normalize(self.aux_data)` in place, then
`indefinite_orthogonalize` works on views of it: the second row gets
`row₁ -= projection(row₁, row₀)`.  New value of one aux unit `[p, w]`. -/
def tangentOriginWrite [LinearOrder K] {n : ℕ} (r : K → K) (X : Matrix (Fin 2) (Fin n) K) :
    Matrix (Fin 2) (Fin n) K :=
  let p := normalizeRow r (X 0)
  let w := normalizeRow r (X 1)
  Matrix.of ![p, fun c => w c - p c * bil (minkJ n) w p / bil (minkJ n) p p]

/-- the queries of C11, by the arrays they write into -/
inductive Query
  | coords                -- klein / projective / poincare / halfspace coordinates: no write
  | hyperboloidCoords     -- `Point.hyperboloid_coords`: `normalize(self.proj_data)`
  | distance              -- `Point.distance`: `normalize` on the point's data (and on the other point's)
  | originTo              -- `Point.origin_to`: `normalize(self.proj_data)`
  | tangentNormalized     -- `TangentVector.normalized` / `angle`: `normalize(self.aux_data[..., 1, :])`
  | tangentOriginTo       -- `TangentVector.origin_to` / `isometry_to` / `point_along`
  | circleParameters      -- works on copies: no write
  | fixedPoints           -- `eig` of a copy: no write

/-- `normalize` on the rows `[..., 1, :]` of an array of shape `(..., 2, n)` only -/
def normalizeSecondRows [LinearOrder K] (r : K → K) (a : ND K) : ND K :=
  let nr := normalizeRows r a
  ofFn a.shape (fun ix => if ix.getD (ix.length - 2) 0 = 1 then nr.get ix else a.get ix)

/-- every unit `[p, w]` of an array of shape `(..., 2, n)` replaced by `tangentOriginWrite` -/
def tangentOriginWriteN [LinearOrder K] (r : K → K) (n : ℕ) (a : ND K) : ND K :=
  let ol := a.shape.length - 2
  ofFn a.shape (fun ix =>
    let X : Matrix (Fin 2) (Fin n) K := fun e c => a.get (ix.take ol ++ [e.1, c.1])
    let e := ix.getD ol 0
    let c := ix.getD (ol + 1) 0
    if h : e < 2 ∧ c < n then tangentOriginWrite r X ⟨e, h.1⟩ ⟨c, h.2⟩ else a.get ix)

def tangentOriginWriteND [LinearOrder K] (r : K → K) (a : ND K) : ND K :=
  tangentOriginWriteN r (a.shape.getLastD 0) a

/-- the object after a query: the new value of every array the Python writes into -/
def Obj.afterQuery [LinearOrder K] (r : K → K) (X : Obj K) : Query → Obj K
  | .coords | .circleParameters | .fixedPoints => X
  | .hyperboloidCoords | .distance | .originTo => ⟨X.kind, normalizeRows r X.proj, X.aux, X.dual⟩
  | .tangentNormalized => ⟨X.kind, X.proj, X.aux.map (normalizeSecondRows r), X.dual⟩
  | .tangentOriginTo => ⟨X.kind, X.proj, X.aux.map (tangentOriginWriteND r), X.dual⟩

/-! ### the invariant -/

/-- two arrays of the same shape whose rows (last axis) agree up to a positive scalar each -/
def RowsPosEq [LinearOrder K] (a b : ND K) : Prop :=
  a.shape = b.shape ∧ ∀ ρ, Valid (a.shape.take (a.shape.length - 1)) ρ →
    ∃ c : K, 0 < c ∧ ∀ j, j < a.shape.getLastD 0 → a.get (ρ ++ [j]) = c * b.get (ρ ++ [j])

/-- `Inv`: the stored derived data equals, row by row up to a non-zero scalar, what
`_compute_aux_data` gives on the stored primary data (classes without derived data store none) -/
def Inv (r : K → K) (X : Obj K) : Prop :=
  (X.kind.auxNdims = 0 ∧ X.aux = none) ∨
  (X.kind.auxNdims ≠ 0 ∧ ∃ a o t n, X.aux = some a ∧ X.proj.shape = o ++ [t, n] ∧
    a.shape = o ++ auxRows X.kind t ++ [n] ∧
    ∀ i ρ, Valid o i → Valid (auxRows X.kind t) ρ →
      ∃ c : K, c ≠ 0 ∧ ∀ j, j < n →
        a.get (i ++ ρ ++ [j]) = c * auxEntry r X.kind [t, n] (fun y => X.proj.get (i ++ y)) (ρ ++ [j]))

/-- side conditions under which an operation is claimed to preserve `Inv`:
`apply` with a square matrix that preserves the Minkowski form when the derived data is
metric (segments, tangent vectors); `stack` / `combine` with objects of the same class that
satisfy `Inv` themselves.  (Independent of the current state: a matrix of the wrong size
makes the step fail with numpy's `ValueError`.) -/
def OpOk (r : K → K) (kind : Kind) : ObjOp K → Prop
  | .apply A _ => ∃ n, A.shape = [n, n] ∧
      (kind = .segment ∨ kind = .tangent → IsIso (minkJ n) (matAt A n n []))
  | .stack others => ∀ Y ∈ others, Y.kind = kind ∧ Inv r Y
  | .combine others => ∀ Y ∈ others, Y.kind = kind ∧ Inv r Y
  | _ => True

end GT.Act
