/-
Model of `geometry_tools/representation.py` — class `Representation` (the non-Sage part) and
the module functions `sym_index … symmetric_projection`.

A representation is an insertion-ordered Python dict  generator name ↦ matrix; matrices are
array-backed `DMat n n R` (a structure boundary forces evaluation: the driver executes these
very definitions over ℚ), `R` any commutative ring.  `numpy.linalg.inv` (`utils.invert`) is a
*contract*: a parameter `invert : DMat n n R → Option (DMat n n R)` (`none` = `LinAlgError`)
about which the theorems assume `InvertOK` (what it returns is a right inverse); the driver
instantiates it with the adjugate formula over ℚ, proved to satisfy the contract
(`GT.Lemmas.Rep.invertQ_ok`).

Python exceptions are `Except String` with the enum
`"KeyError" | "ValueError" | "LinAlgError" | "IndexError"`.
-/
import Mathlib.Algebra.Ring.Defs
import Mathlib.Algebra.Field.Defs
import Mathlib.Algebra.Ring.Invertible
import Mathlib.LinearAlgebra.Matrix.Adjugate
import Mathlib.Algebra.Field.Rat
import GT.Base.DMat
import GT.Model.Words

namespace GT.RepW

abbrev Err := String
abbrev M? := Except Err

/-- `Representation`: `generators` (dict, insertion ordered), `invert_gen`, `parse_simple`,
`relations` (strings, read character by character by the Fox calculus).  `_dim` is the type
index `n` (a shape mismatch is rejected with `ValueError` where matrices enter the model). -/
structure Rep (n : ℕ) (R : Type) where
  gens : List (Gen × DMat n n R) := []
  inv : Gen → Gen := invertGen
  parseSimple : Bool := true
  relations : List Word := []

namespace Rep
variable {n m : ℕ} {R S : Type} [Inhabited R] [Inhabited S] [CommRing R] [CommRing S]

/-- `self.generators[g]` -/
def gen (ρ : Rep n R) (g : Gen) : M? (DMat n n R) :=
  match dget ρ.gens g with
  | some A => .ok A
  | none => .error "KeyError"

/-- loop body of `_word_value`: `matrix = matrix @ self.generators[gen]` -/
def wordStep (ρ : Rep n R) (acc : M? (DMat n n R)) (g : Gen) : M? (DMat n n R) := do
  let a ← acc
  let b ← ρ.gen g
  pure (a.mul b)

/-- `Representation._word_value` after `parse_word`:
```
matrix = utils.identity(self._dim)
for gen in gen_list: matrix = matrix @ self.generators[gen]
``` -/
def wordValue (ρ : Rep n R) (w : Word) : M? (DMat n n R) :=
  w.foldl ρ.wordStep (.ok DMat.one)

/-- `rep.element(s, parse_simple=None)` (repaired default) / `rep._word_value(s)` on a Python
string: `parse_word(word, simple)` with `simple = self.parse_simple` when `None` -/
def wordValueS (ρ : Rep n R) (s : String)
    (simple : Option Bool := none) : M? (DMat n n R) :=
  ρ.wordValue (parseWord (simple.getD ρ.parseSimple) s)

/-- `Representation.elements(words)` -/
def elements (ρ : Rep n R) (ws : List Word) :
    M? (List (DMat n n R)) :=
  ws.mapM ρ.wordValue

/-- `Representation._set_generator(generator, matrix, compute_inverse)`:
name guards, `self.generators[generator] = matrix`, and
`self.generators[self.invert_gen(generator)] = utils.invert(matrix)` -/
def setGenerator (invert : DMat n n R → Option (DMat n n R)) (ρ : Rep n R) (g : Gen)
    (A : DMat n n R) (computeInverse : Bool := true) : M? (Rep n R) :=
  if !validName g then .error "ValueError" else
  let gens1 := dset ρ.gens g A
  if computeInverse then
    match invert A with
    | none => .error "LinAlgError"
    | some Ai => .ok { ρ with gens := dset gens1 (ρ.inv g) Ai }
  else .ok { ρ with gens := gens1 }

/-- `Representation.asym_gens()` -/
def asymGens (ρ : Rep n R) : List Gen := GT.RepW.asymGens (ρ.gens.map Prod.fst)

/-- `Representation(representation, generator_names=None, …)`: the copy constructor
(`_set_generator(gen, representation.generators[gen], compute_inverse=False)` for every key) -/
def copy (ρ : Rep n R) : M? (Rep n R) :=
  ρ.gens.foldlM (fun (σ : Rep n R) kv => σ.setGenerator (fun _ => none) kv.1 kv.2 false)
    { ρ with gens := [] }

/-- `Representation._compose(hom, compute_inverses=False)`: a fresh representation with the
same non-matrix data; for every key `g` (inverse letters included)
```
image = self.generators[g];  inv_image = self.generators[self.invert_gen(g)]
composed = hom(image, inv=inv_image)   # or hom(image)
composed_rep._set_generator(g, composed, compute_inverse=False)
``` -/
def compose (h : DMat n n R → DMat n n R → M? (DMat m m S)) (ρ : Rep n R) : M? (Rep m S) :=
  ρ.gens.foldlM (fun (σ : Rep m S) kv => do
      let image ← ρ.gen kv.1
      let invImage ← ρ.gen (ρ.inv kv.1)
      let composed ← h image invImage
      σ.setGenerator (fun _ => none) kv.1 composed false)
    { gens := [], inv := ρ.inv, parseSimple := ρ.parseSimple, relations := ρ.relations }

section ring

/-- `Representation._conjugate(mat, inv_mat)`: `lambda M: inv_mat @ M @ mat` -/
def conjugate (ρ : Rep n R) (C Ci : DMat n n R) : M? (Rep n R) :=
  ρ.compose (fun A _ => .ok ((Ci.mul A).mul C))

/-- `Representation.conjugate(mat)` with `inv_mat=None`: `inv_mat = utils.invert(mat)` -/
def conjugate' (invert : DMat n n R → Option (DMat n n R)) (ρ : Rep n R) (C : DMat n n R) :
    M? (Rep n R) :=
  match invert C with
  | none => .error "LinAlgError"
  | some Ci => ρ.conjugate C Ci

/-- `Representation.dual()`: `lambda M: utils.invert(M).T` -/
def dual (invert : DMat n n R → Option (DMat n n R)) (ρ : Rep n R) : M? (Rep n R) :=
  ρ.compose (fun A _ => match invert A with
    | none => .error "LinAlgError"
    | some Ai => .ok Ai.transpose)

/-- `M.astype(dtype)`: entrywise conversion `f` (a ring homomorphism for exact conversions) -/
def astype (f : R → S) (ρ : Rep n R) : M? (Rep n S) :=
  ρ.compose (fun A _ => .ok (DMat.ofMatrix (A.toMatrix.map f)))

/-- `Representation.subgroup(generators: dict name ↦ word, compute_inverse)`:
```
subrep = self.__class__(relations=relations, …)           # default invert_gen, parse_simple
for g, word in generator_pairs:
    subrep._set_generator(g, self._word_value(word), compute_inverse=compute_inverse)
    if not compute_inverse:
        subrep._set_generator(self.invert_gen(g),
            self._word_value(formal_inverse(word, inverse_map=self.invert_gen)))
```
(the second `_set_generator` has the default `compute_inverse=True`: besides the inverse
letter it overwrites `subrep.invert_gen(self.invert_gen(g))` with `utils.invert` of the
inverse word's value). -/
def subgroup (invert : DMat n n R → Option (DMat n n R)) (ρ : Rep n R)
    (pairs : List (Gen × Word)) (computeInverse : Bool := true) (relations : List Word := []) :
    M? (Rep n R) :=
  pairs.foldlM (fun (σ : Rep n R) gw => do
      let v ← ρ.wordValue gw.2
      let σ1 ← σ.setGenerator invert gw.1 v computeInverse
      if computeInverse then pure σ1 else do
        let vi ← ρ.wordValue (formalInverse ρ.inv gw.2)
        σ1.setGenerator invert (ρ.inv gw.1) vi true)
    { gens := [], relations := relations }

/-! ### tensor product and symmetric square -/

/-- `np.tensordot(A, B, axes=0)`: `T[i,j,k,l] = A[i,j] * B[k,l]` -/
def tensordot0 {p : ℕ} (A : DMat n n R) (B : DMat p p R) :
    Fin n → Fin n → Fin p → Fin p → R :=
  fun i j k l => A.toMatrix i j * B.toMatrix k l

/-- `np.concatenate(T, axis=1)` for a 4-d array `T[a][b][c][d]` read as the sequence of its
`a` sub-arrays `T[i]` (each `b × c × d`) joined along *their* axis 1:
`out[j][i*c + k][l] = T[i][j][k][l]` -/
def concat1of4 {a b c d : ℕ} (T : Fin a → Fin b → Fin c → Fin d → R) :
    Fin b → Fin (a * c) → Fin d → R :=
  fun j p l => T (finProdFinEquiv.symm p).1 j (finProdFinEquiv.symm p).2 l

/-- `np.concatenate(C, axis=1)` for a 3-d array `C[b][r][d]` read as the sequence of its `b`
matrices joined along their axis 1: `out[r][j*d + l] = C[j][r][l]` -/
def concat1of3 {b r d : ℕ} (C : Fin b → Fin r → Fin d → R) : Matrix (Fin r) (Fin (b * d)) R :=
  fun p q => C (finProdFinEquiv.symm q).1 p (finProdFinEquiv.symm q).2

/-- the matrix assigned by `tensor_product`:
`np.concatenate(np.concatenate(np.tensordot(self[g], rep[g], axes=0), axis=1), axis=1)` -/
def tensorMat {p : ℕ} (A : DMat n n R) (B : DMat p p R) : DMat (n * p) (n * p) R :=
  DMat.ofMatrix (concat1of3 (concat1of4 (tensordot0 A B)))

/-- `Representation.tensor_product(rep)`: `ValueError` unless the key *sets* agree; a fresh
`Representation(parse_simple=self.parse_simple)` (repaired); `product_rep[gen] = …` (inverse by `utils.invert`) for `gen` in
`self.asym_gens()` -/
def tensorProduct {p : ℕ} (invert : DMat (n * p) (n * p) R → Option (DMat (n * p) (n * p) R))
    (ρ : Rep n R) (σ : Rep p R) : M? (Rep (n * p) R) :=
  let k1 := ρ.gens.map Prod.fst
  let k2 := σ.gens.map Prod.fst
  if !(k1.all (k2.contains ·) && k2.all (k1.contains ·)) then .error "ValueError" else
  ρ.asymGens.foldlM (fun (τ : Rep (n * p) R) g => do
      let a ← ρ.wordValueS g   -- `self[gen]` = `element(gen)`
      let b ← σ.wordValueS g
      τ.setGenerator invert g (tensorMat a b) true)
    { gens := [], parseSimple := ρ.parseSimple }

/-- `sym_index(i, j, n)`: `int((n - i) * (n - i - 1) / 2 + (j - i))` after sorting `i ≤ j`.
The product of two consecutive integers is even, so the float division is exact and `ℕ`
division models it (`GT.Lemmas.Sym.symIndex_exact`). -/
def symIndex (i j n : ℕ) : ℕ :=
  let i' := min i j
  let j' := max i j
  (n - i') * (n - i' - 1) / 2 + (j' - i')

/-- `int(n * (n + 1) / 2)` -/
def symDim (n : ℕ) : ℕ := n * (n + 1) / 2

/-- `tensor_index(i, j, n)` -/
def tensorIndex (i j n : ℕ) : ℕ := i * n + j

/-- `tensor_pos(i, n)`: `(int(i / n), i % n)` -/
def tensorPos (i n : ℕ) : ℕ × ℕ := (i / n, i % n)

/-- `symmetric_inclusion(n)`: zero matrix, then for all `i, j`:
`incl[tensor_index(i,j,n)][sym_index(i,j,n)] = 1/2 + (i == j) * 1/2`  (`half` is `1/2`) -/
def symInclusion (half : R) (n : ℕ) : DMat (n * n) (symDim n) R :=
  DMat.ofMatrix fun t s =>
    let i := (tensorPos t.1 n).1
    let j := (tensorPos t.1 n).2
    -- the unique assignment that writes row `t` is the one with `tensor_index(i,j,n) = t`
    if symIndex i j n = s.1 then half + (if i = j then 1 else 0) * half else 0

/-- `symmetric_projection(n)`: `proj[sym_index(u, v, n)][i] = 1` with `(u, v) = tensor_pos(i, n)` -/
def symProjection (n : ℕ) : DMat (symDim n) (n * n) R :=
  DMat.ofMatrix fun s t =>
    if symIndex (tensorPos t.1 n).1 (tensorPos t.1 n).2 n = s.1 then 1 else 0

/-- `Representation.symmetric_square()` (repaired: `sym_index`, `@`):
`square_rep[g] = proj @ tensor_rep[g] @ incl` for `g` in `asym_gens`, inverses by `utils.invert` -/
def symmetricSquare (half : R)
    (invertT : DMat (n * n) (n * n) R → Option (DMat (n * n) (n * n) R))
    (invertS : DMat (symDim n) (symDim n) R → Option (DMat (symDim n) (symDim n) R))
    (ρ : Rep n R) : M? (Rep (symDim n) R) := do
  let τ ← ρ.tensorProduct invertT ρ
  ρ.asymGens.foldlM (fun (σ : Rep (symDim n) R) g => do
      let t ← τ.wordValueS g
      σ.setGenerator invertS g (((symProjection n).mul t).mul (symInclusion half n)) true)
    { gens := [], parseSimple := ρ.parseSimple }

/-! ### Fox calculus -/

/-- integer multiple of a matrix: `coeff * self._word_value(word)` -/
def zsmul (c : Int) (A : DMat n n R) : DMat n n R := DMat.ofMatrix ((c : R) • A.toMatrix)

def madd (A B : DMat n n R) : DMat n n R := DMat.ofMatrix (A.toMatrix + B.toMatrix)
def msub (A B : DMat n n R) : DMat n n R := DMat.ofMatrix (A.toMatrix - B.toMatrix)
def mzero : DMat n n R := DMat.ofMatrix 0

/-- `Representation._differential(word, generator)` (repaired: the Fox derivative is taken of
the *parsed* word, so it works for one-character and for multi-character generator names):
```
word_diff = fox_word_derivative(generator, tuple-or-str(self.parse_word(word)))
matrix_diff = [coeff * self._word_value(word) for word, coeff in word_diff.items()]
if len(matrix_diff) == 0: return zeros
return np.sum(matrix_diff, axis=0)
``` -/
def differentialAt (ρ : Rep n R) (w : Word) (g : Gen) : M? (DMat n n R) :=
  match foxDeriv invertGen g w with
  | none => .error "IndexError"
  | some d => do
    let terms ← d.mapM (fun kc => do let v ← ρ.wordValue kc.1; pure (zsmul kc.2 v))
    pure (terms.foldl madd mzero)

/-- `Representation._differential(word)`: the list of blocks (one per `asym_gens` entry) that
`np.concatenate(blocks, axis=-1)` glues side by side -/
def differential (ρ : Rep n R) (w : Word) : M? (List (DMat n n R)) :=
  ρ.asymGens.mapM (ρ.differentialAt w)

/-- `Representation.cocycle_matrix()`: one block row per relation -/
def cocycleMatrix (ρ : Rep n R) : M? (List (List (DMat n n R))) :=
  ρ.relations.mapM ρ.differential

/-- `Representation.coboundary_matrix()`: blocks `identity - generators[gen]`, stacked -/
def coboundaryMatrix (ρ : Rep n R) : M? (List (DMat n n R)) :=
  ρ.asymGens.mapM (fun g => do let a ← ρ.gen g; pure (msub DMat.one a))

/-- block row times block column -/
def blockDot (row col : List (DMat n n R)) : DMat n n R :=
  (List.zipWith DMat.mul row col).foldl madd mzero

/-! ### adjoint representations (`lie/core.py`, reached through `lie.hom._wrap_hom`) -/

/-- `lie.basis_matrix(i, j, n)` -/
def basisMatrix (i j : Fin n) : Matrix (Fin n) (Fin n) R := fun a b => if a = i ∧ b = j then 1 else 0

/-- `lie.linear_matrix_action(linear_map, n)`:
`map_matrix[:, i*n + j] = gln_lie_algebra_coords(linear_map(basis_matrix(i, j, n)))`
(`coords` = row-major reshape) -/
def linearMatrixAction (f : Matrix (Fin n) (Fin n) R → Matrix (Fin n) (Fin n) R) :
    DMat (n * n) (n * n) R :=
  DMat.ofMatrix fun r c =>
    f (basisMatrix (finProdFinEquiv.symm c).1 (finProdFinEquiv.symm c).2)
      (finProdFinEquiv.symm r).1 (finProdFinEquiv.symm r).2

/-- `lie.gln_adjoint(mat, inv)`: `linear_matrix_action(lambda M: mat @ M @ inv, n)` -/
def glnAdjointMat (A Ai : DMat n n R) : DMat (n * n) (n * n) R :=
  linearMatrixAction fun M => A.toMatrix * M * Ai.toMatrix

/-- `Representation.gln_adjoint()`: `_compose(lie.hom.gln_adjoint())`, the hom receives
`inv=inv_image` -/
def glnAdjoint (ρ : Rep n R) : M? (Rep (n * n) R) :=
  ρ.compose fun A Ai => .ok (glnAdjointMat A Ai)

/-- `lie.sln_basis_matrix(i, j, n)`: `E_ij`, and `bm[n-1, n-1] = -1` when `i == j` -/
def slnBasisMatrix {k : ℕ} (i j : ℕ) : Matrix (Fin (k + 1)) (Fin (k + 1)) R := fun a b =>
  if i = j ∧ a.1 = k ∧ b.1 = k then -1 else if a.1 = i ∧ b.1 = j then 1 else 0

/-- `lie.sln_linear_action(linear_map, n)`: for `(i, j) ≠ (n-1, n-1)`
`map_matrix[:, i*n + j] = reshape(linear_map(sln_basis_matrix(i, j, n)))[:-1]` -/
def slnLinearAction {k : ℕ}
    (f : Matrix (Fin (k + 1)) (Fin (k + 1)) R → Matrix (Fin (k + 1)) (Fin (k + 1)) R) :
    DMat ((k + 1) * (k + 1) - 1) ((k + 1) * (k + 1) - 1) R :=
  DMat.ofMatrix fun r c =>
    f (slnBasisMatrix (c.1 / (k + 1)) (c.1 % (k + 1)))
      ⟨r.1 / (k + 1), Nat.div_lt_of_lt_mul (by have := r.2; omega)⟩
      ⟨r.1 % (k + 1), Nat.mod_lt _ (Nat.succ_pos k)⟩

/-- `lie.sln_adjoint(mat, inv)` -/
def slnAdjointMat {k : ℕ} (A Ai : DMat (k + 1) (k + 1) R) :
    DMat ((k + 1) * (k + 1) - 1) ((k + 1) * (k + 1) - 1) R :=
  slnLinearAction fun M => A.toMatrix * M * Ai.toMatrix

/-- `Representation.sln_adjoint()` -/
def slnAdjoint {k : ℕ} (ρ : Rep (k + 1) R) : M? (Rep ((k + 1) * (k + 1) - 1) R) :=
  ρ.compose fun A Ai => .ok (slnAdjointMat A Ai)

end ring

/-- exact inverse over a field by the adjugate formula (the driver's `utils.invert`) -/
def invertF {K : Type} [Field K] [DecidableEq K] [Inhabited K] (A : DMat n n K) :
    Option (DMat n n K) :=
  let d := A.toMatrix.det
  if d = 0 then none else some (DMat.ofMatrix (d⁻¹ • A.toMatrix.adjugate))

/-- Gauss–Jordan elimination on the augmented array `[A | 1]` (no theorem is proved about
it: its result is only used after the run-time check in `invertG`) -/
def gaussJordan {K : Type} [Field K] [DecidableEq K] (n : ℕ) (a : Array (Array K)) :
    Option (Array (Array K)) := Id.run do
  let mut m : Array (Array K) := (Array.range n).map fun i =>
    (Array.range (2 * n)).map fun j =>
      if j < n then (a.getD i #[]).getD j 0 else if j = n + i then 1 else 0
  for c in [0:n] do
    let mut p : Option Nat := none
    for r in [c:n] do
      if p.isNone ∧ (m.getD r #[]).getD c 0 ≠ 0 then p := some r
    match p with
    | none => return none
    | some r =>
      let rowR := m.getD r #[]
      let rowC := m.getD c #[]
      m := (m.setIfInBounds r rowC).setIfInBounds c rowR
      let d := rowR.getD c 0
      let piv := rowR.map (· / d)
      m := m.setIfInBounds c piv
      for r' in [0:n] do
        if r' ≠ c then
          let row := m.getD r' #[]
          let f := row.getD c 0
          if f ≠ 0 then
            m := m.setIfInBounds r' ((Array.range (2 * n)).map fun j => row.getD j 0 - f * piv.getD j 0)
  return some (m.map fun row => row.extract n (2 * n))

/-- the driver's `utils.invert` for larger matrices: a Gauss–Jordan candidate, accepted only
if it *is* a right inverse (checked by an exact matrix product) -/
def invertG {K : Type} [Field K] [DecidableEq K] [Inhabited K] (A : DMat n n K) :
    Option (DMat n n K) :=
  match gaussJordan n A.a with
  | none => none
  | some x =>
    let X : DMat n n K := ⟨x⟩
    if A.toMatrix * X.toMatrix = 1 then some X else none

/-- exact inverse over ℤ via ℚ (an inverse with a non-integer entry is no inverse over ℤ) -/
def invertZG [Inhabited ℚ] (A : DMat n n ℤ) : Option (DMat n n ℤ) :=
  match gaussJordan (K := ℚ) n (A.a.map (·.map (fun z : ℤ => (z : ℚ)))) with
  | none => none
  | some x =>
    if x.all (·.all (·.den = 1)) then
      let X : DMat n n ℤ := ⟨x.map (·.map (·.num))⟩
      if A.toMatrix * X.toMatrix = 1 then some X else none
    else none

/-- exact inverse over ℤ (unimodular matrices only; anything else has no integer inverse) -/
def invertZ (A : DMat n n ℤ) : Option (DMat n n ℤ) :=
  let d := A.toMatrix.det
  if d = 1 ∨ d = -1 then some (DMat.ofMatrix (d • A.toMatrix.adjugate)) else none

end Rep
end GT.RepW
