/-
Ring-generic model of the Coxeter-group representations built by
`geometry_tools/coxeter.py` (`CoxeterGroup.bilinear_form`, `cartan_representation`,
`geometric_representation`, `canonical_representation`, `hyperbolic_rep`) and of the word
evaluation `Representation._word_value` they are read through.

Transcendental functions never occur here: the cosine enters as a supplied function
`cs : ℚ → K` standing for `x ↦ cos(π/x)`, about which the theorems assume exactly what they
use (`cs 1 = -1`, i.e. unit diagonal; `4·cs(m)² = 2 + 2cos(2π/m)` enters the braid theorems
through the Cartan entries).  The diagonalising pair `(W, Winv)` of `utils.diagonalize_form`
is a supplied value with the contract `Winv * W = 1`, `Wᵀ B W = J` as hypotheses.
Executed over ℚ by `GT.Driver.C08`, instantiated at ℝ in `GT.Properties.C08`.
-/
import Mathlib.Data.Matrix.Basis
import Mathlib.Data.Matrix.Mul
import Mathlib.LinearAlgebra.Matrix.NonsingularInverse
import Mathlib.LinearAlgebra.Matrix.Adjugate
import Mathlib.Algebra.Order.Ring.Abs
import Mathlib.Algebra.Order.Group.Abs
import GT.Base.DMat

namespace GT.Cox

open Matrix

variable {R : Type*} [CommRing R] {n : ℕ}

/-- `CoxeterGroup.bilinear_form`: non-positive labels are replaced by `1/2`
(`adjusted_cox_matrix[... <= 0] = half`), then `-cos(π / m)` entrywise.  `cs x` stands for
`cos(π/x)`; so an infinite label gives `-cos 2π = -1` and the diagonal label `1` gives
`-cos π = 1`. -/
def cosineForm (cs : ℚ → R) (M : Matrix (Fin n) (Fin n) ℤ) : Matrix (Fin n) (Fin n) R :=
  fun i j => -1 * cs (if M i j ≤ 0 then 1 / 2 else (M i j : ℚ))

/-- one generator of `CoxeterGroup.cartan_representation(cartan_matrix)`:
`identity(n) - np.diag(e_i) @ cartan_matrix` -/
def refl (C : Matrix (Fin n) (Fin n) R) (i : Fin n) : Matrix (Fin n) (Fin n) R :=
  1 - Matrix.diagonal (Pi.single i 1) * C

/-- `CoxeterGroup.geometric_representation`: `cartan_representation(2 * bilinear_form)` -/
def geomRep (B : Matrix (Fin n) (Fin n) R) (i : Fin n) : Matrix (Fin n) (Fin n) R :=
  refl ((2 : R) • B) i

/-- `CoxeterGroup.cartan_matrix(parameters)`: start from `2 * bilinear_form()`; for every index
with a non-positive (infinite) label whose parameter is specified (non-zero; a missing dictionary key counts
as unspecified) overwrite that entry, and also the transposed entry unless that one is specified
itself.  (`P` is the parameter array; the dictionary format denotes the same data.) -/
def cartanMatrix [DecidableEq R] (B : Matrix (Fin n) (Fin n) R) (M : Matrix (Fin n) (Fin n) ℤ)
    (P : Matrix (Fin n) (Fin n) R) : Matrix (Fin n) (Fin n) R :=
  fun i j =>
    if M i j ≤ 0 ∧ P i j ≠ 0 then P i j
    else if M j i ≤ 0 ∧ P j i ≠ 0 ∧ P i j = 0 then P j i
    else ((2 : R) • B) i j

/-- the homomorphism composed in `canonical_representation`: `utils.invert(mat.T)` -/
noncomputable def dualMat (M : Matrix (Fin n) (Fin n) R) : Matrix (Fin n) (Fin n) R := (Mᵀ)⁻¹

/-- `CoxeterGroup.canonical_representation` on a generator -/
noncomputable def canonRep (B : Matrix (Fin n) (Fin n) R) (i : Fin n) : Matrix (Fin n) (Fin n) R :=
  dualMat (geomRep B i)

/-- the homomorphism composed in `cartan_representation(diagonalize=True)`:
`lambda mat: Winv @ mat @ W` (`Winv` is computed separately by `diagonalize_form`, it is
*not* obtained by inverting `W`) -/
def conjMat (W Winv M : Matrix (Fin n) (Fin n) R) : Matrix (Fin n) (Fin n) R := Winv * M * W

/-- the guard of the repaired `cartan_representation(diagonalize=True)`: `diagonalize_form` marks a null
direction of the form by a zero column of `W`; the code raises `GeometryError` when there is one
(`not np.abs(W).any(axis=-2).all()`): a degenerate form has no diagonalising change of basis -/
def diagGuard {K : Type*} [Zero K] [DecidableEq K] (W : Matrix (Fin n) (Fin n) K) : Bool :=
  decide (∀ j, ∃ i, W i j ≠ 0)

/-- `CoxeterGroup.hyperbolic_rep` on a generator: the geometric representation composed with
`conjMat` for the diagonalising pair of the cosine form -/
def hypRep (B W Winv : Matrix (Fin n) (Fin n) R) (i : Fin n) : Matrix (Fin n) (Fin n) R :=
  conjMat W Winv (geomRep B i)

/-- `Representation._word_value`: `identity`, then `matrix = matrix @ generators[g]` for the
letters from left to right -/
def wordProd (ρ : Fin n → Matrix (Fin n) (Fin n) R) (w : List (Fin n)) : Matrix (Fin n) (Fin n) R :=
  w.foldl (fun acc g => acc * ρ g) 1

/-- the Minkowski form `hyperbolic.minkowski(n)`: `diag(-1, 1, …, 1)` -/
def minkJ : Matrix (Fin (n + 1)) (Fin (n + 1)) R :=
  Matrix.diagonal (fun i => if i = 0 then -1 else 1)

/-! ### relation residuals (evaluated by the driver on the implementation's output) -/

/-- `(g_i g_j)^m - 1` -/
def braidResidual (gi gj : Matrix (Fin n) (Fin n) R) (m : ℕ) : Matrix (Fin n) (Fin n) R :=
  (gi * gj) ^ m - 1

/-- `gᵀ B g - B` -/
def formResidual (B g : Matrix (Fin n) (Fin n) R) : Matrix (Fin n) (Fin n) R := gᵀ * B * g - B

/-- the quadratic factor `P² - tP + 1` of the characteristic polynomial of a product of two
reflections (`t` = trace of the 2×2 block) -/
def quad (P : Matrix (Fin n) (Fin n) R) (t : R) : Matrix (Fin n) (Fin n) R := P * P - t • P + 1

/-- the Chebyshev-type sequence `v 0 = -1, v 1 = 0, v (k+2) = t·v (k+1) - v k`
(`v k = U_{k-2}(t/2)`; for `t = 2cos θ`: `v k · sin θ = sin((k-1)θ)`) -/
def cheb (t : R) : ℕ → R
  | 0 => -1
  | 1 => 0
  | (k + 2) => t * cheb t (k + 1) - cheb t k

/-! ### the fundamental triangle of a rank-3 group (used for the triangle-angle clause) -/

/-- the bilinear form `xᵀ B y` (`utils.apply_bilinear`) -/
def bil (B : Matrix (Fin n) (Fin n) R) (x y : Fin n → R) : R := x ⬝ᵥ (B *ᵥ y)

/-- the vertex opposite to mirror `k`: column `k` of the adjugate, i.e. the vector orthogonal to
every simple root except `α_k` (the common fixed vector of the other reflections, hence the fixed
point of their product) -/
def vertex (B : Matrix (Fin n) (Fin n) R) (k : Fin n) : Fin n → R := fun a => B.adjugate a k

/-- direction at `x` towards `y`: `B(x,x)·y − B(y,x)·x` (the same multiple, for every `y`, of the
`B`-orthogonal projection of `y` off `x`; angles between two such directions do not see the factor) -/
def tangent (B : Matrix (Fin n) (Fin n) R) (x y : Fin n → R) : Fin n → R :=
  bil B x x • y - bil B y x • x

/-- a symmetric rank-3 form with unit diagonal: the cosine form of a triangle group -/
def form3 (a b c : R) : Matrix (Fin 3) (Fin 3) R := !![1, a, b; a, 1, c; b, c, 1]

/-! ### materialised execution (array-backed; see `GT.Base.DMat`) -/

/-- `wordProd` through `DMat` (each partial product is forced) -/
def wordProdD {K : Type} [Inhabited K] [Mul K] [AddCommMonoid K] [One K]
    (ρ : Fin n → DMat n n K) (w : List (Fin n)) : DMat n n K :=
  w.foldl (fun acc g => acc.mul (ρ g)) DMat.one

/-- `A^m` through `DMat` -/
def powD {K : Type} [Inhabited K] [Mul K] [AddCommMonoid K] [One K] (A : DMat n n K) : ℕ → DMat n n K
  | 0 => DMat.one
  | (m + 1) => (powD A m).mul A

end GT.Cox
