/-
Literal array-level (`ND`) models of the *vectorised* Lie maps of `geometry_tools/lie/core.py`:
the code of `sl2_irrep` / `sl2_to_so21` / `linear_matrix_action` (`gln_adjoint`) works on arrays
of shape `(..., k, k)` with numpy array arithmetic inside Python loops over matrix entries.
These models use the `ND` array model of C04 (`GT.Act.ND`, row-major data, `ofFn`/`get`,
`matmul` with broadcasting) and mirror the loops; `GT.Lemmas.LieND` proves that every unit of the
result is the single-matrix model (`GT.Lie.sl2Irrep`, `sl2ToSo21`, `glnAdjoint`) of the unit.

numpy idioms used by that code and their index functions (each is an `ofFn`, so `get_ofFn` is its
index law):
* `A[..., i, j]`                        `lastEntry A i j`
* `x * y`, on arrays of equal shape     `ew2 (· * ·) x y`   (the only case that occurs)
* `x ** e`, `c * x`                     `ND.map`
* `im[..., j, k] += t`                  `addAtLast2 im j k t`
* `M[..., col] = v`                     `setLastCol M col v`
* `X.reshape(X.shape[:-2] + (n*n,))`    `flattenLast2 n X`
* `np.tile(M, o + (1, 1))` for 2-d `M`  `tileOuter o M`
-/
import GT.Model.ND
import GT.Model.Lie

namespace GT.Lie.Arr
open GT.Act GT.Act.ND

variable {K : Type} [Inhabited K]

/-- composite shape of an array of matrices: `A.shape[:-2]` -/
def outer (A : ND K) : List ℕ := A.shape.take (A.shape.length - 2)

/-- `A[..., i, j]` -/
def lastEntry (A : ND K) (i j : ℕ) : ND K := ND.ofFn (outer A) fun ix => A.get (ix ++ [i, j])

/-- a binary ufunc on two arrays of the same shape -/
def ew2 (f : K → K → K) (x y : ND K) : ND K := ND.ofFn x.shape fun ix => f (x.get ix) (y.get ix)

/-- `utils.zeros(s)` -/
def zerosND [Zero K] (s : List ℕ) : ND K := ND.ofFn s fun _ => 0

/-- `im[..., j, k] += t` (`t` of the composite shape) -/
def addAtLast2 [Add K] (im : ND K) (j k : ℕ) (t : ND K) : ND K :=
  ND.ofFn im.shape fun ix =>
    if ix.drop (ix.length - 2) = [j, k] then im.get ix + t.get (ix.take (ix.length - 2)) else im.get ix

/-- the triples `(k, j, i)` visited by the three nested loops of `sl2_irrep`, in order:
`for k in range(n): for j in range(n): for i in range(max(0, j-r+k), min(j+1, k+1))` -/
def irrepLoop (n : ℕ) : List (ℕ × ℕ × ℕ) :=
  (List.range n).flatMap fun k => (List.range n).flatMap fun j =>
    (List.range (min (j + 1) (k + 1) - (j + k - (n - 1)))).map fun t => (k, j, j + k - (n - 1) + t)

/-- the summand `binom(k,i)·binom(r-k,j-i) * a**i * c**(k-i) * b**(j-i) * d**(r-k-j+i)` as array
arithmetic on the entry arrays `a, b, c, d` -/
def irrepTerm [Field K] (n : ℕ) (a b c d : ND K) (k j i : ℕ) : ND K :=
  ew2 (· * ·)
    (ew2 (· * ·)
      (ew2 (· * ·) ((a.map (· ^ i)).map fun x => ((Nat.choose k i : K) * (Nat.choose (n - 1 - k) (j - i) : K)) * x)
        (c.map (· ^ (k - i))))
      (b.map (· ^ (j - i))))
    (d.map (· ^ (n - 1 + i - k - j)))

/-- `lie.sl2_irrep(A, n)` on an array `A` of shape `(..., 2, 2)` -/
def sl2IrrepND [Field K] (n : ℕ) (A : ND K) : ND K :=
  let a := lastEntry A 0 0
  let b := lastEntry A 0 1
  let c := lastEntry A 1 0
  let d := lastEntry A 1 1
  (irrepLoop n).foldl (fun im t => addAtLast2 im t.2.1 t.1 (irrepTerm n a b c d t.1 t.2.1 t.2.2))
    (zerosND (outer A ++ [n, n]))

/-- a constant (non-composite) matrix as a 2-d array -/
def constMat [Field K] {p q : ℕ} (M : Matrix (Fin p) (Fin q) K) : ND K :=
  ND.ofFn [p, q] fun ix => if h : ix.getD 0 0 < p ∧ ix.getD 1 0 < q then M ⟨ix.getD 0 0, h.1⟩ ⟨ix.getD 1 0, h.2⟩ else 0

/-- `lie.sl2_to_so21(A)` on an array of shape `(..., 2, 2)`:
`permutation @ killing_conj @ sl2_irrep(A, 3) @ invert(killing_conj) @ permutation` with numpy's
broadcasting `@` (left-associated, as Python evaluates it) -/
def sl2ToSo21ND [Field K] (A : ND K) : Except String (ND K) := do
  let pk ← ND.matmul (constMat (perm210 : Matrix (Fin 3) (Fin 3) K)) (constMat killingConj)
  let x1 ← ND.matmul pk (sl2IrrepND 3 A)
  let x2 ← ND.matmul x1 (constMat killingConjInv)
  ND.matmul x2 (constMat perm210)

/-- `X.reshape(X.shape[:-2] + (n*n,))` for `X` of shape `(..., n, n)` (`gln_lie_algebra_coords`) -/
def flattenLast2 (n : ℕ) (X : ND K) : ND K :=
  ND.ofFn (outer X ++ [n * n]) fun ix =>
    X.get (ix.take (ix.length - 1) ++ [ix.getD (ix.length - 1) 0 / n, ix.getD (ix.length - 1) 0 % n])

/-- `M[..., col] = v` -/
def setLastCol (M : ND K) (col : ℕ) (v : ND K) : ND K :=
  ND.ofFn M.shape fun ix =>
    if ix.getD (ix.length - 1) 0 = col then v.get (ix.take (ix.length - 1)) else M.get ix

/-- `np.tile(M, o + (1, 1))` for a 2-d array `M` -/
def tileOuter (o : List ℕ) (M : ND K) : ND K :=
  ND.ofFn (o ++ M.shape) fun ix => M.get (ix.drop o.length)

/-- `lie.basis_matrix(i, j, n)` as a 2-d array -/
def basisND [Field K] (n i j : ℕ) : ND K := ND.ofFn [n, n] fun ix => if ix = [i, j] then 1 else 0

/-- one pass of the loop body of `linear_matrix_action` for `gln_adjoint`:
`gln_lie_algebra_coords(mat @ E_ij @ inv)` -/
def imageCoords [Field K] (n : ℕ) (mat inv : ND K) (i j : ℕ) : Except String (ND K) := do
  let x ← ND.matmul mat (basisND n i j)
  let img ← ND.matmul x inv
  pure (flattenLast2 n img)

/-- `lie.gln_adjoint(mat, inv=inv)` on arrays `mat`, `inv` of shape `(..., n, n)` through the
(repaired, array-aware) `linear_matrix_action`: for every `(i, j)` the image `mat @ E_ij @ inv`
is flattened and written into column `i*n+j` of `map_matrix`, which starts as a 2-d zero matrix
and is tiled over `coords.shape[:-1]` when the images turn out to be arrays -/
def glnAdjointND [Field K] (n : ℕ) (mat inv : ND K) : Except String (ND K) :=
  ((List.range n).flatMap fun i => (List.range n).map fun j => (i, j)).foldlM
    (fun (mm : ND K) (ij : ℕ × ℕ) => do
      let coords ← imageCoords n mat inv ij.1 ij.2
      let mm := if coords.shape.length > mm.shape.length - 1
        then tileOuter (coords.shape.take (coords.shape.length - 1)) mm else mm
      pure (setLastCol mm (ij.1 * n + ij.2) coords))
    (zerosND [n * n, n * n])

end GT.Lie.Arr
