/-
Field-generic model of the affine-chart code of `geometry_tools/projective.py`
(`affine_coords`, `projective_coords`, `Point.in_affine_chart`, `affine_linear_map`,
`affine_translation`, `hyperplane_coordinate_transform`, `Subspace.intersect`,
`Transformation.eigenvector`, `Transformation.diagonalize`) and of
`utils.find_definite_isometry`.

`K` is any field (ℝ, ℂ; executed at ℚ and ℚ(i) by the driver).  LAPACK routines
(`qr`, `svd` kernel, `eig`, `inv`) are *parameters*: their outputs are arguments of the model
functions and their postconditions are hypotheses of the theorems (`GT.Properties.C16`).

Conventions of the Python that the model keeps:
* a `Transformation` stores a *row matrix*: `T.apply(p)` is `p @ T.proj_data`
  (`applyT`); `column_vectors=True` stores the transpose of what it is given.
* `np.delete(x, c)` is `fun i => x (c.succAbove i)`; writing `coords` into all slots but `c`
  and `1` into slot `c` is `Fin.insertNth c 1 coords`.
-/
import Mathlib.Data.Matrix.Mul
import Mathlib.Data.Matrix.ColumnRowPartitioned
import Mathlib.Data.Matrix.Diagonal
import Mathlib.Data.Fin.Tuple.Basic
import Mathlib.Algebra.Field.Basic

open Matrix

namespace GT.Affine

variable {K : Type*} {n m k₁ k₂ d : ℕ}

/-! ## charts -/

section charts
variable [Field K]

/-- `projective.affine_coords(x, chart_index=c)` on one point, past the chart test:
`np.delete(x / x[c], c)` -/
def affineCoords (c : Fin (n + 1)) (x : Fin (n + 1) → K) : Fin n → K :=
  fun i => x (c.succAbove i) / x c

/-- `projective.projective_coords(a, chart_index=c)`: the affine coordinates in all slots
but `c`, the literal `1` in slot `c` -/
def projCoords (c : Fin (n + 1)) (a : Fin n → K) : Fin (n + 1) → K :=
  c.insertNth (α := fun _ => K) 1 a

/-- `Point.in_affine_chart(c)` for one point: `proj_data[..., c] != 0` -/
def inChart [DecidableEq K] (c : Fin (n + 1)) (x : Fin (n + 1) → K) : Bool := x c != 0

/-- `projective.affine_coords(x, chart_index=c)` for one point with its guard (repaired,
D8: the chart coordinate itself is compared with 0): `none` is the `GeometryError` -/
def affineCoords? [DecidableEq K] (c : Fin (n + 1)) (x : Fin (n + 1) → K) : Option (Fin n → K) :=
  if x c = 0 then none else some (affineCoords c x)

/-- the same for a composite array of points: the guard is `(… == 0).any()` over *all*
points, so one point outside the chart makes the whole call raise -/
def affineCoordsAll? [DecidableEq K] (c : Fin (n + 1)) (xs : List (Fin (n + 1) → K)) :
    Option (List (Fin n → K)) :=
  if xs.any (fun x => x c = 0) then none else some (xs.map (affineCoords c))

/-- `affine_coords(X, chart_index=c, column_vectors=True)`: points are the *columns* -/
def affineCoordsCols (c : Fin (n + 1)) (X : Matrix (Fin (n + 1)) (Fin m) K) :
    Matrix (Fin n) (Fin m) K :=
  (Matrix.of fun j => affineCoords c (Xᵀ j))ᵀ

/-- `projective_coords(A, chart_index=c, column_vectors=True)` -/
def projCoordsCols (c : Fin (n + 1)) (A : Matrix (Fin n) (Fin m) K) :
    Matrix (Fin (n + 1)) (Fin m) K :=
  (Matrix.of fun j => projCoords c (Aᵀ j))ᵀ

end charts

/-! ## transformations acting in a chart -/

section maps
variable [Field K]

/-- `Transformation.apply` on the projective coordinates of one point:
`utils.matrix_product(p, T.proj_data, 1, 2)` = `p @ T.proj_data` -/
def applyT (T : Matrix (Fin m) (Fin m) K) (p : Fin m → K) : Fin m → K := p ᵥ* T

/-- the `np.block` of `affine_linear_map`: `L` spread over the rows/columns other than `c`,
`1` at `(c,c)`, zeros elsewhere in row and column `c` -/
def affineLinearBlock (c : Fin (n + 1)) (L : Matrix (Fin n) (Fin n) K) :
    Matrix (Fin (n + 1)) (Fin (n + 1)) K :=
  Matrix.of fun i => c.insertNth (α := fun _ => Fin (n + 1) → K) (Pi.single c 1)
    (fun i' => c.insertNth (α := fun _ => K) 0 (L i')) i

/-- `affine_linear_map(L, chart_index=c, column_vectors=cv).proj_data`:
`Transformation(tf_mat, column_vectors=cv)` stores `tf_matᵀ` when `cv` -/
def affineLinearMap (c : Fin (n + 1)) (L : Matrix (Fin n) (Fin n) K) (cv : Bool) :
    Matrix (Fin (n + 1)) (Fin (n + 1)) K :=
  if cv then (affineLinearBlock c L)ᵀ else affineLinearBlock c L

/-- `affine_translation(t, chart_index=c).proj_data`: the identity with row `c` replaced by
`t` spread over the slots other than `c` (the `1` of the identity stays at `(c,c)`) -/
def affineTranslation (c : Fin (n + 1)) (t : Fin n → K) : Matrix (Fin (n + 1)) (Fin (n + 1)) K :=
  Matrix.of fun i j => if i = c then c.insertNth (α := fun _ => K) 1 t j else (1 : Matrix _ _ K) i j

end maps

/-! ## `hyperplane_coordinate_transform` under the QR contract -/

section hyperplane
variable [Field K]

/-- `utils.find_definite_isometry(normal)` for one vector: `np.sign(r[0,0]) * q` where
`q, r = np.linalg.qr([normal | I])`; `Q` and `sgn = sign r₀₀` are the contract outputs -/
def definiteIsometry (Q : Matrix (Fin m) (Fin m) K) (sgn : K) : Matrix (Fin m) (Fin m) K :=
  sgn • Q

/-- `hyperplane_coordinate_transform(normal).proj_data`:
`Transformation(mat, column_vectors=True).inv()`, i.e. `inv(matᵀ)`; `inv` is `np.linalg.inv`
(contract) -/
def hyperplaneTransform (inv : Matrix (Fin m) (Fin m) K → Matrix (Fin m) (Fin m) K)
    (Q : Matrix (Fin m) (Fin m) K) (sgn : K) : Matrix (Fin m) (Fin m) K :=
  inv (definiteIsometry Q sgn)ᵀ

/-- `np.sign` on an ordered field -/
def npSign [LinearOrder K] (x : K) : K := if 0 < x then 1 else if x < 0 then -1 else 0

end hyperplane

/-! ## `Subspace.intersect` under the kernel contract -/

section intersect
variable [Field K]

/-- `np.concatenate((p1, p2), axis=-2)` -/
def spans (p₁ : Matrix (Fin k₁) (Fin n) K) (p₂ : Matrix (Fin k₂) (Fin n) K) :
    Matrix (Fin k₁ ⊕ Fin k₂) (Fin n) K := Matrix.fromRows p₁ p₂

/-- `Subspace.intersect` for one pair of units: `ker = utils.kernel(spansᵀ)` (contract output,
shape `(k₁+k₂) × d`), `subspace_coeffs = ker[:k₁, :]ᵀ`, result `subspace_coeffs @ p1` -/
def intersect (p₁ : Matrix (Fin k₁) (Fin n) K) (ker : Matrix (Fin k₁ ⊕ Fin k₂) (Fin d) K) :
    Matrix (Fin d) (Fin n) K :=
  (ker.toRows₁)ᵀ * p₁

/-- `broadcast="elementwise"` on composite subspaces: unit by unit -/
def intersectElementwise (P₁ : List (Matrix (Fin k₁) (Fin n) K))
    (kers : List (Matrix (Fin k₁ ⊕ Fin k₂) (Fin d) K)) : List (Matrix (Fin d) (Fin n) K) :=
  List.zipWith intersect P₁ kers

/-- `utils.broadcast_match(a1, a2, 2)` on flat composites: every unit of `a1` against
every unit of `a2`, first index slowest -/
def broadcastMatch {α β : Type*} (a₁ : List α) (a₂ : List β) : List α × List β :=
  (a₁.flatMap fun a => a₂.map fun _ => a, a₁.flatMap fun _ => a₂)

end intersect

/-! ## `Transformation.eigenvector` / `diagonalize` under the eig contract -/

section eig
variable [Field K]

/-- `ic.nonzero()[0][0]`: the first index at which the boolean mask holds -/
def firstTrue : (m : ℕ) → (Fin m → Bool) → Option (Fin m)
  | 0, _ => none
  | m + 1, ic => if ic 0 then some 0 else (firstTrue m fun i => ic i.succ).map Fin.succ

/-- `Transformation.eigenvector(eigenvalue)` for a single matrix.
`vals, V = np.linalg.eig(proj_dataᵀ)` are contract outputs (eigenvectors are the columns of
`V`); `ic` is the mask (`np.isclose(·, eigenvalue)`, or constantly `true` for
`eigenvalue=None`); the answer is row `i₀` of `Vᵀ`; `none` is the `GeometryError`. -/
def eigenvector (vals : Fin m → K) (V : Matrix (Fin m) (Fin m) K) (ic : K → Bool) :
    Option (Fin m → K) :=
  (firstTrue m fun i => ic (vals i)).map fun i => Vᵀ i

/-- the composite branch of `eigenvector`: for each unit the first matching eigenvector
(`np.unique(..., return_index=True)` keeps first occurrences), and the zero vector of
`utils.zeros` where no eigenvalue matches (no exception in this branch) -/
def eigenvectorComposite (units : List ((Fin m → K) × Matrix (Fin m) (Fin m) K)) (ic : K → Bool) :
    List (Fin m → K) :=
  units.map fun u => (eigenvector u.1 u.2 ic).getD 0

/-- `Transformation.diagonalize().proj_data`: `Transformation(V, column_vectors=True)` -/
def diagonalize (V : Matrix (Fin m) (Fin m) K) : Matrix (Fin m) (Fin m) K := Vᵀ

/-- data of `M.inv() @ T @ M` (`@` is `apply`: `(S @ T).proj_data = T.proj_data * S.proj_data`) -/
def conjugated (M Minv P : Matrix (Fin m) (Fin m) K) : Matrix (Fin m) (Fin m) K := M * (P * Minv)

/-- `np.isclose(x, e)` with numpy's defaults `rtol=1e-5, atol=1e-8` on an ordered field -/
def isclose [LinearOrder K] (e x : K) : Bool :=
  decide (|x - e| ≤ 1 / 100000000 + 1 / 100000 * |e|)

end eig

/-! ## automatic chart choice (`chart_index=None`) -/

section auto
variable [Field K] {L : Type*} [LinearOrder L]

/-- `np.min(np.abs(apoints), axis=<all point axes>)[c]` for a non-empty family `p₀ :: rest` of
points; `absf` is `np.abs` (absolute value, complex modulus — or any order-equivalent of it) -/
def colMin (absf : K → L) (p₀ : Fin (n + 1) → K) (rest : List (Fin (n + 1) → K)) (c : Fin (n + 1)) : L :=
  rest.foldl (fun m x => min m (absf (x c))) (absf (p₀ c))

/-- `np.argmax(f)`: the first index of a maximal value -/
def argmaxFirst (f : Fin (n + 1) → L) : Fin (n + 1) :=
  (List.finRange (n + 1)).foldl (fun best i => if f best < f i then i else best) 0

/-- the chart chosen by `affine_coords(points, chart_index=None)` -/
def autoChart (absf : K → L) (p₀ : Fin (n + 1) → K) (rest : List (Fin (n + 1) → K)) : Fin (n + 1) :=
  argmaxFirst (colMin absf p₀ rest)

/-- `affine_coords(points, chart_index=None)`: `(affine, chart)`; `none` is the `GeometryError`
"points don't lie in any standard affine chart" -/
def affineCoordsAuto? [DecidableEq K] (absf : K → L) (p₀ : Fin (n + 1) → K)
    (rest : List (Fin (n + 1) → K)) : Option (List (Fin n → K) × Fin (n + 1)) :=
  (affineCoordsAll? (autoChart absf p₀ rest) (p₀ :: rest)).map fun as => (as, autoChart absf p₀ rest)

end auto

end GT.Affine
