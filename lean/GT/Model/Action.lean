/-
Unit-level model of how transformations act (geometry_tools/projective.py
`Transformation._apply_to_data/apply/__matmul__/inv`, `ProjectiveRepresentation.wrap_func/
unwrap_func`) and of the derived ("auxiliary") data of polygons, segments and tangent
vectors (`Polygon._compute_aux_data`, `hyperbolic.Segment._compute_aux_data`,
`hyperbolic.TangentVector._compute_aux_data`).  Field-generic; square roots are supplied.

Convention of the library: a transformation is stored as a *row matrix* acting on the
right, a point is a row vector `x`, `T @ x` is `x · T.matrix`, and `(A @ B).matrix =
B.matrix · A.matrix`.
-/
import Mathlib.Data.Matrix.Mul
import Mathlib.LinearAlgebra.Matrix.NonsingularInverse
import Mathlib.Algebra.Order.Field.Basic

open Matrix

namespace GT.Act

variable {K : Type*} [Field K] {n k : ℕ}

/-- `T @ x` for a point (row vector): `utils.matrix_product(x, T.matrix, 1, 2)` at unit level -/
def actRow (A : Matrix (Fin n) (Fin n) K) (x : Fin n → K) : Fin n → K := Matrix.vecMul x A

/-- `T @ X` for a unit of rank 2 (pair, segment data, polygon vertices, a transformation, …) -/
def actMat (A : Matrix (Fin n) (Fin n) K) (X : Matrix (Fin k) (Fin n) K) : Matrix (Fin k) (Fin n) K :=
  X * A

/-- `(A @ B).matrix`: `A.apply(B)` multiplies `B`'s data by `A`'s matrix on the right -/
def compose (A B : Matrix (Fin n) (Fin n) K) : Matrix (Fin n) (Fin n) K := actMat A B

/-- `ProjectiveRepresentation.wrap_func(M) = Transformation(M, column_vectors=True)`: the stored
row matrix is the transpose -/
def wrap (M : Matrix (Fin n) (Fin n) K) : Matrix (Fin n) (Fin n) K := Mᵀ

/-- `ProjectiveRepresentation.unwrap_func(T) = T.matrix.T` -/
def unwrap (T : Matrix (Fin n) (Fin n) K) : Matrix (Fin n) (Fin n) K := Tᵀ

/-- `Representation._word_value`: identity times the generators' (column) matrices in word order -/
def wordMat {G : Type*} (gens : G → Matrix (Fin n) (Fin n) K) (w : List G) : Matrix (Fin n) (Fin n) K :=
  w.foldl (fun M g => M * gens g) 1

/-- the bilinear form `x ↦ x J yᵀ` is preserved by the right action of `A` -/
def IsIso (J A : Matrix (Fin n) (Fin n) K) : Prop := A * J * Aᵀ = J

/-- `⟨x, y⟩ = x J yᵀ` (`utils.apply_bilinear(x, y, J)`) -/
def bil (J : Matrix (Fin n) (Fin n) K) (x y : Fin n → K) : K := x ⬝ᵥ (J *ᵥ y)

/-! ### derived data -/

/-- `Polygon._compute_aux_data`: `PointPair(v, np.roll(v, -1, axis=-2)).proj_data`: edge `e` is
the pair (vertex `e`, vertex `e+1 mod k`) -/
def polygonEdges (X : Matrix (Fin (k + 1)) (Fin n) K) : Fin (k + 1) → Matrix (Fin 2) (Fin n) K :=
  fun e => Matrix.of ![X e, X (e + 1)]

/-- coefficients of the quadratic in `hyperbolic.Segment._compute_aux_data` -/
def segQuad (J : Matrix (Fin n) (Fin n) K) (X : Matrix (Fin 2) (Fin n) K) : K × K × K :=
  let a11 := bil J (X 0) (X 0)
  let a22 := bil J (X 1) (X 1)
  let a12 := bil J (X 0) (X 1)
  (a11 - 2 * a12 + a22, 2 * a12 - 2 * a22, a22)

/-- the two points `μ± x₀ + (1-μ±) x₁`, `μ± = (-b ± √(b²-4ac)) / 2a`, for given coefficients -/
def segMix (q : K × K × K) (r : K → K) (X : Matrix (Fin 2) (Fin n) K) : Matrix (Fin 2) (Fin n) K :=
  let a := q.1
  let b := q.2.1
  let c := q.2.2
  let mu1 := (-b + r (b * b - 4 * a * c)) / (2 * a)
  let mu2 := (-b - r (b * b - 4 * a * c)) / (2 * a)
  Matrix.of ![fun j => mu1 * X 0 j + (1 - mu1) * X 1 j, fun j => mu2 * X 0 j + (1 - mu2) * X 1 j]

/-- `hyperbolic.Segment._compute_aux_data`: the two null points on the line through the
endpoints (roots of `⟨μx₀+(1-μ)x₁, μx₀+(1-μ)x₁⟩ = aμ²+bμ+c`); `r` is the square root -/
def segmentIdeal (J : Matrix (Fin n) (Fin n) K) (r : K → K) (X : Matrix (Fin 2) (Fin n) K) :
    Matrix (Fin 2) (Fin n) K :=
  segMix (segQuad J X) r X

/-- `[p, v - p·c]` -/
def tanMix (c : K) (X : Matrix (Fin 2) (Fin n) K) : Matrix (Fin 2) (Fin n) K :=
  Matrix.of ![X 0, fun j => X 1 j - X 0 j * c]

/-- `hyperbolic.TangentVector._compute_aux_data`: `[p, v - p·⟨v,p⟩/⟨p,p⟩]`
(`project_to_hyperboloid` = `v - utils.projection(v, p, J)`) -/
def tangentProj (J : Matrix (Fin n) (Fin n) K) (X : Matrix (Fin 2) (Fin n) K) :
    Matrix (Fin 2) (Fin n) K :=
  tanMix (bil J (X 1) (X 0) / bil J (X 0) (X 0)) X

/-- `utils.normalize(x, F)` on one vector: divide by `√|⟨x,x⟩_F|` where that is non-zero
(`rabs = √|·|` supplied) -/
def normalizeRowF [DecidableEq K] (rabs : K → K) (F : Matrix (Fin n) (Fin n) K) (x : Fin n → K) : Fin n → K :=
  if rabs (bil F x x) = 0 then x else fun c => x c / rabs (bil F x x)

/-- projective equality of two rows: equal up to a non-zero scalar -/
def ProjEq (x y : Fin n → K) : Prop := ∃ c : K, c ≠ 0 ∧ x = c • y

/-- … up to a *positive* scalar (what in-place normalisation does) -/
def PosProjEq [LinearOrder K] (x y : Fin n → K) : Prop := ∃ c : K, 0 < c ∧ x = c • y

end GT.Act
