/-
Field-generic model of the indefinite Gram–Schmidt helpers of `geometry_tools/utils/core.py`:
`apply_bilinear`, `projection`, `normalize`, `indefinite_orthogonalize`, `find_isometry`,
`make_orientation_preserving`, `orthogonal_complement`.

The control flow is the library's: each row is projected onto the **unnormalised** earlier
output rows (`row -= projection(row, result[j], form)`), and all rows are normalised once at
the end.  A division by a null intermediate row gives `inf/nan` in numpy; the theorems assume
that no intermediate row is null and the driver reports `"DivZero"` instead of answering.
`utils.kernel` (SVD, LAPACK) is a **contract parameter** `ker`: `find_isometry` is modelled
given the kernel basis that was returned.  Square roots are a supplied function `r`.

Rows are `Fin n → K`; `…D` variants work on array-backed `DVec` (materialised after every
projection) and are what the driver executes (`gsD_toFn`).
-/
import GT.Model.Isometry
import Mathlib.LinearAlgebra.Matrix.Determinant.Basic

open Finset BigOperators Matrix

namespace GT.GS
open GT.Iso

variable {K : Type*} [Field K] {n : ℕ}

/-- `utils.apply_bilinear(x, y, F)`: `x F yᵀ` -/
def bil (F : Matrix (Fin n) (Fin n) K) (x y : Fin n → K) : K := x ⬝ᵥ (F *ᵥ y)

/-- `utils.projection(v1, v2, F)`: `v2 · ⟨v1,v2⟩ / ⟨v2,v2⟩` -/
def gproj (F : Matrix (Fin n) (Fin n) K) (v1 v2 : Fin n → K) : Fin n → K :=
  (bil F v1 v2 / bil F v2 v2) • v2

/-- inner loop of `indefinite_orthogonalize`: `for j in range(i): row -= projection(row, result[j])` -/
def gsStep (F : Matrix (Fin n) (Fin n) K) (outs : List (Fin n → K)) (row : Fin n → K) : Fin n → K :=
  outs.foldl (fun row o => row - gproj F row o) row

/-- outer loop of `indefinite_orthogonalize` (the array `result` before `normalize`) -/
def gs (F : Matrix (Fin n) (Fin n) K) (rows : List (Fin n → K)) : List (Fin n → K) :=
  rows.foldl (fun outs row => outs ++ [gsStep F outs row]) []

/-- `utils.normalize(x, F)` on one vector: divide by `√|⟨x,x⟩|` where that is non-zero -/
def normalizeVec [LinearOrder K] (r : K → K) (F : Matrix (Fin n) (Fin n) K) (x : Fin n → K) : Fin n → K :=
  if r |bil F x x| = 0 then x else (1 / r |bil F x x|) • x

/-- `utils.normalize(result, F)` on the rows -/
def normalizeRows [LinearOrder K] (r : K → K) (F : Matrix (Fin n) (Fin n) K) (rows : List (Fin n → K)) :
    List (Fin n → K) := rows.map (normalizeVec r F)

/-- `utils.indefinite_orthogonalize(F, rows)` -/
def indefiniteOrthogonalize [LinearOrder K] (r : K → K) (F : Matrix (Fin n) (Fin n) K)
    (rows : List (Fin n → K)) : List (Fin n → K) := normalizeRows r F (gs F rows)

/-- `utils.find_isometry(F, partial)` given the kernel basis `ker` that `utils.kernel(orth_partial @ F)`
returned (contract: its rows span the `F`-orthogonal complement of `partial`):
`concatenate([orth_partial, indefinite_orthogonalize(F, ker)])` -/
def findIsometry [LinearOrder K] (r : K → K) (F : Matrix (Fin n) (Fin n) K)
    (partialMap ker : List (Fin n → K)) : List (Fin n → K) :=
  indefiniteOrthogonalize r F partialMap ++ indefiniteOrthogonalize r F ker

/-- `utils.orthogonal_complement(vectors, F, normalize='form')` given the kernel basis `ker`
returned by `utils.kernel(vectors @ F)`; with `normalize=None` the result is `ker` itself -/
def orthogonalComplement [LinearOrder K] (r : K → K) (F : Matrix (Fin n) (Fin n) K)
    (ker : List (Fin n → K)) : List (Fin n → K) := indefiniteOrthogonalize r F ker

/-- the rows of a list as a matrix (when there are exactly `m` of them) -/
def rowsMatrix {m : ℕ} (rows : List (Fin n → K)) (h : rows.length = m) : Matrix (Fin m) (Fin n) K :=
  Matrix.of fun i => rows.get (i.cast h.symm)

/-- `preserved[..., -1, :] *= -1` -/
def negLastRow {m : ℕ} (M : Matrix (Fin (m + 1)) (Fin n) K) : Matrix (Fin (m + 1)) (Fin n) K :=
  Matrix.of fun i => if i = Fin.last m then -M i else M i

/-- `utils.make_orientation_preserving(M)`: negate the last row where `det M < 0` -/
def makeOriented [LinearOrder K] {m : ℕ} (M : Matrix (Fin (m + 1)) (Fin (m + 1)) K) :
    Matrix (Fin (m + 1)) (Fin (m + 1)) K := if M.det < 0 then negLastRow M else M

/-! ### the SVD-based isometry constructors of `hyperbolic.py`, given the kernel basis -/

section ctors
variable [LinearOrder K]

/-- `np.where(normed[..., :1] < 0, -1, 1)`: the sign that moves a representative to the upper sheet -/
def sheetSign (y : Fin (n + 1) → K) : K := if y 0 < 0 then -1 else 1

/-- (repaired, 9e8c9e6) `Point.origin_to(force_oriented=False)`:
`find_isometry(minkowski, [σ·normalize(x)])` with `σ = −1` iff the normalised time coordinate is negative -/
def originTo (r : K → K) (x : Fin (n + 1) → K) (ker : List (Fin (n + 1) → K)) : List (Fin (n + 1) → K) :=
  let xn := normalizeVec r (minkJ n) x
  findIsometry r (minkJ n) [sheetSign xn • xn] ker

/-- (repaired, 9e8c9e6) `TangentVector.origin_to(force_oriented=False)`:
`find_isometry(minkowski, σ·normalize([x, v]))` (`v` the tangent vector stored in `aux_data`,
Minkowski-orthogonal to the base point `x`; `σ` the sheet sign of the normalised base point) -/
def tangentOriginTo (r : K → K) (x v : Fin (n + 1) → K) (ker : List (Fin (n + 1) → K)) : List (Fin (n + 1) → K) :=
  let xn := normalizeVec r (minkJ n) x
  let vn := normalizeVec r (minkJ n) v
  findIsometry r (minkJ n) [sheetSign xn • xn, sheetSign xn • vn] ker

/-- the frame `(t, v̂)` completed by (repaired) `hyperbolic.spacelike_to`:
`t = e₀ − projection(e₀, v̂)` -/
def spacelikeFrame (r : K → K) (v : Fin (n + 1) → K) : List (Fin (n + 1) → K) :=
  let vn := normalizeVec r (minkJ n) v
  [Pi.single 0 1 - gproj (minkJ n) (Pi.single 0 1) vn, vn]

/-- `hyperbolic.spacelike_to(v, force_oriented=False)` -/
def spacelikeTo (r : K → K) (v : Fin (n + 1) → K) (ker : List (Fin (n + 1) → K)) : List (Fin (n + 1) → K) :=
  findIsometry r (minkJ n) (spacelikeFrame r v) ker

end ctors

/-- `CoxeterGroup.hyperbolic_rep` on one group element: the geometric representation `ρ(g)`
conjugated by the output `(W, Winv)` of `diagonalize_form(cosine matrix)` and wrapped with
`column_vectors=True`: the stored row matrix is `(Winv ρ W)ᵀ` -/
def hyperbolicRepMat {p : ℕ} (W Winv rho : Matrix (Fin p) (Fin p) K) : Matrix (Fin p) (Fin p) K :=
  (Winv * rho * W)ᵀ

/-! ### array-backed execution -/

section exec
variable {K : Type} [Field K] [Inhabited K] {n : ℕ}

def gsStepD (F : Matrix (Fin n) (Fin n) K) (outs : List (DVec n K)) (row : DVec n K) : DVec n K :=
  outs.foldl (fun row o => DVec.ofFn (row.toFn - gproj F row.toFn o.toFn)) row

def gsD (F : Matrix (Fin n) (Fin n) K) (rows : List (DVec n K)) : List (DVec n K) :=
  rows.foldl (fun outs row => outs ++ [gsStepD F outs row]) []

end exec

end GT.GS
