/-
Model of the Lie-group maps of `geometry_tools/lie/core.py` (`sl2_irrep`, `sl2_to_so21`,
`o_to_pgl`, `linear_matrix_action`, `sln_linear_action`, `gln_adjoint`, `sln_adjoint`,
`sln_killing_form`, `slc_to_slr`, `block_include`, `sl2c_herm_action`, `sl2c_to_so31`) and of
`hyperbolic.sl2_iso` / `Isometry.to_sl2`.

* polynomial maps: over an arbitrary commutative ring `R` (ℕ-safe exponents);
* maps whose literal conjugating matrices contain `1/2`: over a field `K`;
* complex matrices: matrices over `Cx R` (pairs over `R`, `GT.Lie.Cx`);
* `np.linalg.inv` is a contract: the inverse is an *argument* (`Ainv`) or a literal matrix
  proved to be the inverse in `GT.Lemmas.Lie`;
* `o_to_pgl` compares and takes square roots: ordered field, supplied root function `r`.

Flattening conventions: `gln_lie_algebra_coords` is row-major `reshape`, so the index
`k*n + l` of a flattened `n×n` matrix is the pair `(k,l) : Fin n × Fin n` (the driver
converts with `finProdFinEquiv`).
-/
import Mathlib.Data.Matrix.Mul
import Mathlib.Data.Matrix.Basis
import Mathlib.Data.Matrix.Block
import Mathlib.LinearAlgebra.Matrix.Notation
import Mathlib.Data.Nat.Choose.Basic
import Mathlib.Algebra.BigOperators.Intervals
import Mathlib.Algebra.Order.Field.Basic
import Mathlib.LinearAlgebra.Matrix.Trace
import Mathlib.Tactic.Ring

open Matrix Finset BigOperators

namespace GT.Lie

/-! ## complex numbers as pairs over a commutative ring -/

/-- `re + im·i` over `R`; the arithmetic of numpy's complex numbers, exactly -/
@[ext] structure Cx (R : Type*) where
  re : R
  im : R
deriving DecidableEq, Repr

namespace Cx
variable {R : Type*} [CommRing R]

instance : Zero (Cx R) := ⟨⟨0, 0⟩⟩
instance : One (Cx R) := ⟨⟨1, 0⟩⟩
instance : Add (Cx R) := ⟨fun a b => ⟨a.re + b.re, a.im + b.im⟩⟩
instance : Neg (Cx R) := ⟨fun a => ⟨-a.re, -a.im⟩⟩
instance : Sub (Cx R) := ⟨fun a b => ⟨a.re - b.re, a.im - b.im⟩⟩
instance : Mul (Cx R) := ⟨fun a b => ⟨a.re * b.re - a.im * b.im, a.re * b.im + a.im * b.re⟩⟩
instance [Inhabited R] : Inhabited (Cx R) := ⟨⟨default, default⟩⟩

/-- `utils.unit_imag()` -/
def I : Cx R := ⟨0, 1⟩
/-- real numbers inside the complex numbers -/
def ofReal (x : R) : Cx R := ⟨x, 0⟩
/-- `utils.conjugate` -/
def conj (a : Cx R) : Cx R := ⟨a.re, -a.im⟩

@[simp] theorem zero_re : (0 : Cx R).re = 0 := rfl
@[simp] theorem zero_im : (0 : Cx R).im = 0 := rfl
@[simp] theorem one_re : (1 : Cx R).re = 1 := rfl
@[simp] theorem one_im : (1 : Cx R).im = 0 := rfl
@[simp] theorem add_re (a b : Cx R) : (a + b).re = a.re + b.re := rfl
@[simp] theorem add_im (a b : Cx R) : (a + b).im = a.im + b.im := rfl
@[simp] theorem neg_re (a : Cx R) : (-a).re = -a.re := rfl
@[simp] theorem neg_im (a : Cx R) : (-a).im = -a.im := rfl
@[simp] theorem sub_re (a b : Cx R) : (a - b).re = a.re - b.re := rfl
@[simp] theorem sub_im (a b : Cx R) : (a - b).im = a.im - b.im := rfl
@[simp] theorem mul_re (a b : Cx R) : (a * b).re = a.re * b.re - a.im * b.im := rfl
@[simp] theorem mul_im (a b : Cx R) : (a * b).im = a.re * b.im + a.im * b.re := rfl
@[simp] theorem I_re : (I : Cx R).re = 0 := rfl
@[simp] theorem I_im : (I : Cx R).im = 1 := rfl
@[simp] theorem ofReal_re (x : R) : (ofReal x).re = x := rfl
@[simp] theorem ofReal_im (x : R) : (ofReal x).im = 0 := rfl
@[simp] theorem conj_re (a : Cx R) : (conj a).re = a.re := rfl
@[simp] theorem conj_im (a : Cx R) : (conj a).im = -a.im := rfl

instance : CommRing (Cx R) where
  add_assoc a b c := by ext <;> simp [add_assoc]
  zero_add a := by ext <;> simp
  add_zero a := by ext <;> simp
  add_comm a b := by ext <;> simp [add_comm]
  neg_add_cancel a := by ext <;> simp
  sub_eq_add_neg a b := by ext <;> simp [sub_eq_add_neg]
  mul_assoc a b c := by ext <;> simp <;> ring
  one_mul a := by ext <;> simp
  mul_one a := by ext <;> simp
  left_distrib a b c := by ext <;> simp <;> ring
  right_distrib a b c := by ext <;> simp <;> ring
  mul_comm a b := by ext <;> simp <;> ring
  zero_mul a := by ext <;> simp
  mul_zero a := by ext <;> simp
  nsmul := nsmulRec
  zsmul := zsmulRec

end Cx

variable {R : Type*} [CommRing R]

/-! ## `sl2_irrep` -/

/-- entry `(j,k)` of `lie.sl2_irrep(A, n)` with `A = [[a,b],[c,d]]`:
`for i in range(max(0, j-r+k), min(j+1,k+1)): binom(k,i)·binom(r-k,j-i)·a^i·c^(k-i)·b^(j-i)·d^(r-k-j+i)`,
`r = n-1`.  In ℕ, `j+k-r` is already `max 0 (j-r+k)` and the last exponent is written
`r+i-k-j` so that truncated subtraction never bites (`i ≥ j+k-r` in the range). -/
def sl2IrrepEntry (a b c d : R) (n j k : ℕ) : R :=
  ∑ i ∈ Finset.Ico (j + k - (n - 1)) (min (j + 1) (k + 1)),
    (Nat.choose k i : R) * (Nat.choose (n - 1 - k) (j - i) : R)
      * a ^ i * c ^ (k - i) * b ^ (j - i) * d ^ (n - 1 + i - k - j)

/-- `lie.sl2_irrep(A, n)` -/
def sl2Irrep (n : ℕ) (A : Matrix (Fin 2) (Fin 2) R) : Matrix (Fin n) (Fin n) R :=
  Matrix.of fun j k => sl2IrrepEntry (A 0 0) (A 0 1) (A 1 0) (A 1 1) n j k

/-! ## `linear_matrix_action`, adjoint representations, Killing form -/

section adjoint
variable {n : ℕ}

/-- `lie.linear_matrix_action(f, n)`: column `i*n+j` is the flattened image of the
elementary matrix `E_ij` -/
def linearMatrixAction {ι : Type*} [DecidableEq ι] (f : Matrix ι ι R → Matrix ι ι R) :
    Matrix (ι × ι) (ι × ι) R :=
  Matrix.of fun kl ij => f (Matrix.single ij.1 ij.2 1) kl.1 kl.2

/-- `lie.gln_adjoint(A, inv=Ainv)`: `M ↦ A M A⁻¹` in the elementary-matrix basis -/
def glnAdjoint {ι : Type*} [DecidableEq ι] [Fintype ι] (A Ainv : Matrix ι ι R) :
    Matrix (ι × ι) (ι × ι) R :=
  linearMatrixAction fun M => A * M * Ainv

/-- indices of the basis of `sl(n+1)`: all `(i,j)` but the last diagonal position -/
abbrev SlIdx (n : ℕ) := {p : Fin (n + 1) × Fin (n + 1) // p ≠ (Fin.last n, Fin.last n)}

/-- `lie.sln_basis_matrix(i, j, n+1)`: `E_ij`, with `-1` at the last diagonal position when
`i = j` -/
def slnBasis (p : Fin (n + 1) × Fin (n + 1)) : Matrix (Fin (n + 1)) (Fin (n + 1)) R :=
  Matrix.single p.1 p.2 1 - if p.1 = p.2 then Matrix.single (Fin.last n) (Fin.last n) 1 else 0

/-- `lie.sln_linear_action(f, n+1)`: column `(i,j)` is the flattened image of the basis
matrix with its last entry dropped (`sln_lie_algebra_coords`) -/
def slnLinearAction (f : Matrix (Fin (n + 1)) (Fin (n + 1)) R → Matrix (Fin (n + 1)) (Fin (n + 1)) R) :
    Matrix (SlIdx n) (SlIdx n) R :=
  Matrix.of fun q p => f (slnBasis p.1) q.1.1 q.1.2

/-- `lie.sln_adjoint(A, inv=Ainv)` -/
def slnAdjoint (A Ainv : Matrix (Fin (n + 1)) (Fin (n + 1)) R) : Matrix (SlIdx n) (SlIdx n) R :=
  slnLinearAction fun M => A * M * Ainv

/-- `lie.sln_killing_form(n+1)`: `trace(B_p B_q)` over the basis matrices -/
def slnKilling : Matrix (SlIdx n) (SlIdx n) R :=
  Matrix.of fun p q => Matrix.trace (slnBasis (R := R) p.1 * slnBasis q.1)

/-- `sln_lie_algebra_coords`: flattened matrix without its last entry -/
def slnCoords (M : Matrix (Fin (n + 1)) (Fin (n + 1)) R) : SlIdx n → R := fun p => M p.1.1 p.1.2

end adjoint

/-! ## realification and block inclusion -/

section blocks
variable {n k : ℕ}

/-- `lie.slc_to_slr(Z)` for `Z = X + iY`: `[[X, -Y], [Y, X]]` -/
def realify (X Y : Matrix (Fin n) (Fin n) R) : Matrix (Fin n ⊕ Fin n) (Fin n ⊕ Fin n) R :=
  Matrix.fromBlocks X (-Y) Y X

/-- the same on a matrix over `Cx R` (`utils.real`, `utils.imag` entrywise) -/
def realifyCx (Z : Matrix (Fin n) (Fin n) (Cx R)) : Matrix (Fin n ⊕ Fin n) (Fin n ⊕ Fin n) R :=
  realify (Z.map Cx.re) (Z.map Cx.im)

/-- `lie.block_include(A, n+k)`: `A` in the top-left corner, identity below -/
def blockInclude (A : Matrix (Fin n) (Fin n) R) : Matrix (Fin n ⊕ Fin k) (Fin n ⊕ Fin k) R :=
  Matrix.fromBlocks A 0 0 1

end blocks

/-! ## `sl2_to_so21`, `o_to_pgl` -/

section so21
variable {K : Type*} [Field K]

/-- `utils.permutation_matrix((2,1,0))` -/
def perm210 : Matrix (Fin 3) (Fin 3) K := !![0, 0, 1; 0, 1, 0; 1, 0, 0]

/-- `killing_conj` of `sl2_to_so21` -/
def killingConj : Matrix (Fin 3) (Fin 3) K := !![0, -1, 0; -1, 0, 1; -1, 0, -1]

/-- its inverse (`utils.invert(killing_conj)`; also the literal `killing_conj / 2` of
`o_to_pgl`).  `GT.Lemmas.Lie.killingConj_inv` proves it is the inverse when `2 ≠ 0`. -/
def killingConjInv : Matrix (Fin 3) (Fin 3) K :=
  !![0, -1 / 2, -1 / 2; -1, 0, 0; 0, 1 / 2, -1 / 2]

/-- `lie.sl2_to_so21(A)` = `hyperbolic.sl2_iso(A)` as a column matrix -/
def sl2ToSo21 (A : Matrix (Fin 2) (Fin 2) K) : Matrix (Fin 3) (Fin 3) K :=
  perm210 * killingConj * sl2Irrep 3 A * killingConjInv * perm210

/-- the form `diag(-1, 1, 1)` -/
def mink21 : Matrix (Fin 3) (Fin 3) K := Matrix.diagonal ![-1, 1, 1]

/-- `A_d = conj_i @ S @ conj` in `o_to_pgl(S)` with the default form `diag(-1,1,1)`:
`diagonalize_form(…, "minkowski", reverse=True)` of that form is the permutation `(2,1,0)`
(eigh contract on a diagonal matrix), `conj = P · inv(killing_conj/2) = P·K`,
`conj_i = (killing_conj/2)·P` -/
def oToPglAd (S : Matrix (Fin 3) (Fin 3) K) : Matrix (Fin 3) (Fin 3) K :=
  killingConjInv * perm210 * S * (perm210 * killingConj)

/-- `A_d` of `o_to_pgl(S, bilinear_form=B)` for a general form of signature (2,1):
`W, Winv = utils.diagonalize_form(B, "minkowski", reverse=True, with_inverse=True)` are contract
outputs (`W * Winv = 1`, `Wᵀ B W = diag(1,1,-1)`), `conj = W · inv(killing_conj/2)`,
`conj_i = (killing_conj/2) · Winv`.  The default form has `W = Winv = perm210` (`oToPglAd`). -/
def oToPglAdForm (W Winv S : Matrix (Fin 3) (Fin 3) K) : Matrix (Fin 3) (Fin 3) K :=
  killingConjInv * Winv * S * (W * killingConj)

variable [LinearOrder K]

/-- entry and sign extraction of `o_to_pgl` **on the pinned tree**:
`a=√|A_d[0,0]|`, `b=√|A_d[0,2]|`, `c=√|A_d[2,0]|`, `d=√|A_d[2,2]|`, `b` negated if
`A_d[0,1]<0`, `c` if `A_d[1,0]<0`, `d` if `A_d[1,2]·A_d[0,1]<0` -/
def extractPinned (r : K → K) (M : Matrix (Fin 3) (Fin 3) K) : Matrix (Fin 2) (Fin 2) K :=
  let a := r |M 0 0|
  let b := r |M 0 2|
  let c := r |M 2 0|
  let d := r |M 2 2|
  let b := if M 0 1 < 0 then -b else b
  let c := if M 1 0 < 0 then -c else c
  let d := if M 1 2 * M 0 1 < 0 then -d else d
  !![a, b; c, d]

/-- `lie.o_to_pgl(S)` on the pinned tree (default form) -/
def oToPglPinned (r : K → K) (S : Matrix (Fin 3) (Fin 3) K) : Matrix (Fin 2) (Fin 2) K :=
  extractPinned r (oToPglAd S)

/-- entry and sign extraction of the **repaired** `o_to_pgl` (D11).  `A_d` is the action of
`[[a,b],[c,d]]` on binary quadratic forms, rows `(d², cd, c²)`, `(2bd, ad+bc, 2ac)`,
`(b², ab, a²)`: `(a,b)` is read off the last row up to sign, `(c,d)` off the first row up to
sign, and the middle row fixes the relative sign. -/
def extract (r : K → K) (M : Matrix (Fin 3) (Fin 3) K) : Matrix (Fin 2) (Fin 2) K :=
  let a := r |M 2 2|
  let b := r |M 2 0|
  let c := r |M 0 2|
  let d := r |M 0 0|
  let b := if M 2 1 < 0 then -b else b
  let d := if M 0 1 < 0 then -d else d
  if 2 * b * d * M 1 0 + (a * d + b * c) * M 1 1 + 2 * a * c * M 1 2 < 0 then !![a, b; -c, -d]
  else !![a, b; c, d]

/-- sign normalisation of the repaired `o_to_pgl`: `A_d` is `±sl2_irrep(A,3)` and the corner
entries of `sl2_irrep` are squares, so a negative corner sum means the minus sign
(`O(2,1) → PGL(2)` kills `-1`) -/
def normSign (M : Matrix (Fin 3) (Fin 3) K) : Matrix (Fin 3) (Fin 3) K :=
  if M 0 0 + M 0 2 + M 2 0 + M 2 2 < 0 then -M else M

/-- repaired `lie.o_to_pgl(S)` (default form) = `Isometry.to_sl2` -/
def oToPgl (r : K → K) (S : Matrix (Fin 3) (Fin 3) K) : Matrix (Fin 2) (Fin 2) K :=
  extract r (normSign (oToPglAd S))

/-- repaired `lie.o_to_pgl(S, bilinear_form=B)` with the diagonalising pair `W, Winv` of `B` -/
def oToPglForm (r : K → K) (W Winv S : Matrix (Fin 3) (Fin 3) K) : Matrix (Fin 2) (Fin 2) K :=
  extract r (normSign (oToPglAdForm W Winv S))

end so21

/-! ## `sl2c_to_so31` -/

section so31
variable {K : Type*} [Field K]

/-- `utils.conjugate(mat.swapaxes(-1,-2))` -/
def conjTranspose {ι : Type*} (M : Matrix ι ι (Cx K)) : Matrix ι ι (Cx K) := Mᵀ.map Cx.conj

/-- `basischange` of `sl2c_herm_action`: columns are the flattened Hermitian basis
`[[1,0],[0,0]], [[0,0],[0,1]], [[0,1],[1,0]], [[0,i],[-i,0]]`; rows indexed by the
row-major position in the 2×2 matrix -/
def hermBasis : Matrix (Fin 2 × Fin 2) (Fin 4) (Cx K) :=
  Matrix.of fun p j =>
    (!![1, 0, 0, 0; 0, 0, 1, Cx.I; 0, 0, 1, -Cx.I; 0, 1, 0, 0] : Matrix (Fin 4) (Fin 4) (Cx K))
      (finProdFinEquiv p) j

/-- `utils.invert(basischange)` (contract; proved to be the inverse in `GT.Lemmas.Lie`) -/
def hermBasisInv : Matrix (Fin 4) (Fin 2 × Fin 2) (Cx K) :=
  Matrix.of fun i p =>
    (!![1, 0, 0, 0; 0, 0, 0, 1; 0, Cx.ofReal (1 / 2), Cx.ofReal (1 / 2), 0;
        0, ⟨0, -1 / 2⟩, ⟨0, 1 / 2⟩, 0] : Matrix (Fin 4) (Fin 4) (Cx K)) i (finProdFinEquiv p)

/-- `lie.sl2c_herm_action(mat, force_real=False)`: the matrix of `X ↦ mat·X·mat^H` on 2×2
complex matrices, conjugated into the Hermitian basis -/
def sl2cHermActionCx (M : Matrix (Fin 2) (Fin 2) (Cx K)) : Matrix (Fin 4) (Fin 4) (Cx K) :=
  hermBasisInv * linearMatrixAction (fun X => M * X * conjTranspose M) * hermBasis

/-- `lie.sl2c_herm_action(mat)` (`force_real=True`: `utils.real` entrywise) -/
def sl2cHermAction (M : Matrix (Fin 2) (Fin 2) (Cx K)) : Matrix (Fin 4) (Fin 4) K :=
  (sl2cHermActionCx M).map Cx.re

/-- `basischange` of `sl2c_to_so31` -/
def so31Basis : Matrix (Fin 4) (Fin 4) K := !![1, -1, 0, 0; 1, 1, 0, 0; 0, 0, 1, 0; 0, 0, 0, 1]

/-- its inverse (contract; proved in `GT.Lemmas.Lie`) -/
def so31BasisInv : Matrix (Fin 4) (Fin 4) K :=
  !![1 / 2, 1 / 2, 0, 0; -1 / 2, 1 / 2, 0, 0; 0, 0, 1, 0; 0, 0, 0, 1]

/-- `lie.sl2c_to_so31(mat)` -/
def sl2cToSo31 (M : Matrix (Fin 2) (Fin 2) (Cx K)) : Matrix (Fin 4) (Fin 4) K :=
  so31BasisInv * sl2cHermAction M * so31Basis

/-- the form `diag(-1, 1, 1, 1)` -/
def mink31 : Matrix (Fin 4) (Fin 4) K := Matrix.diagonal ![-1, 1, 1, 1]

end so31

end GT.Lie
