/-
Field-generic model of reflections, hyperplanes-from-reflections and the fixed-point selection
of isometries (C15): `Subspace.reflection_across`, `Hyperplane._data_with_dual`,
`Hyperplane._compute_ideal_basis`, `Hyperplane.from_reflection`, `Geodesic.from_reflection`,
`Isometry._fixpoint_data / fixed_point_pair / fixed_point`.

Isometries act on row vectors (`x ↦ x·M`).  `np.linalg.inv`, `np.linalg.eig` and the frame
completion inside `spacelike_to` are contracts: their results enter as arguments with the
assumed postcondition as a hypothesis of the theorems.
-/
import GT.Model.Charts
import Mathlib.Data.Matrix.Mul
import Mathlib.Data.Matrix.Diagonal
import Mathlib.Data.List.Sort
import Mathlib.Data.Prod.Lex

open Finset BigOperators Matrix

namespace GT.Reflect

variable {K : Type*} [Field K] {n : ℕ}

/-- `minkowski(n+1)`: `diag(-1, 1, …, 1)` -/
def Jm : Matrix (Fin (n + 1)) (Fin (n + 1)) K := Matrix.diagonal fun i => if i = 0 then -1 else 1

/-- `J·dᵀ` as a vector: first entry negated -/
def Jvec (d : Fin (n + 1) → K) : Fin (n + 1) → K := fun i => if i = 0 then -d 0 else d i

/-- closed form of the reflection across `d^⊥` acting on a row vector:
`v ↦ v − 2⟨v,d⟩/⟨d,d⟩ · d` -/
def reflApply (d v : Fin (n + 1) → K) : Fin (n + 1) → K :=
  fun i => v i - 2 * mink v d / mink d d * d i

/-- the same as a matrix: `R = 1 − 2 (J dᵀ d)/⟨d,d⟩` -/
def reflMat (d : Fin (n + 1) → K) : Matrix (Fin (n + 1)) (Fin (n + 1)) K :=
  fun i j => (if i = j then 1 else 0) - 2 * Jvec d i * d j / mink d d

/-- the literal `Subspace.reflection_across`: `utils.invert(D) @ minkowski @ D`, where `D` is
`_data_with_dual()` (row 0 the spacelike normal, the other rows the ideal basis) and `Dinv` the
result of `np.linalg.inv` (contract `Dinv * D = 1`) -/
def reflLiteral (Dinv D : Matrix (Fin (n + 1)) (Fin (n + 1)) K) :
    Matrix (Fin (n + 1)) (Fin (n + 1)) K := Dinv * Jm * D

/-- column `j` of the `standard_ideal_basis` of `Hyperplane._compute_ideal_basis` in
`R^{n+2}`: `(1, 0, e_j)` for `j < n`, and `(1, 0, …, 0, -1)` for `j = n` -/
def stdIdeal (j : Fin (n + 1)) : Fin (n + 2) → K := fun i =>
  if i.val = 0 then 1
  else if i.val = j.val + 2 then 1
  else if j.val = n ∧ i.val = n + 1 then -1
  else 0

/-- `Hyperplane._compute_ideal_basis`: the rows of the hyperplane data are the normal and the
images `b_j · T` of the standard ideal basis under `T = spacelike_to(normal)` (repaired code: the
frame `(t, v̂)` completed by `find_isometry`, model `GT.GS.spacelikeTo`; used here through its
contract: `T` preserves the form and its row 1 is the normalised normal) -/
def hyperplaneData (T : Matrix (Fin (n + 2)) (Fin (n + 2)) K) (normal : Fin (n + 2) → K) :
    Fin (n + 2) → Fin (n + 2) → K :=
  Fin.cons normal fun j => stdIdeal j ᵥ* T

/-! ### `Hyperplane.from_reflection`: the eigenvalue test -/

section ordered
variable [LinearOrder K]

/-- `expected_evals`: `(-1, 1, …, 1)` of the given length -/
def expectedEvals : ℕ → List K
  | 0 => []
  | k + 1 => (-1 : K) :: List.replicate k 1

/-- the acceptance test of `from_reflection` on the (real) spectrum returned by `eig`:
`|sort(evals) - (-1,1,…,1)| ≤ ε` entrywise (`ε = ERROR_THRESHOLD = 1e-8`) -/
def isReflSpectrum (ε : K) (evals : List K) : Bool :=
  ((evals.mergeSort (fun a b => decide (a ≤ b))).zip (expectedEvals evals.length)).all
    fun p => decide (|p.1 - p.2| ≤ ε)

/-- the whole acceptance decision of `from_reflection`: the spectrum test, then the spacelike test
that `spacelike_to` applies to the chosen `(-1)`-eigenvector (after `normalize`, so its Minkowski
norm is `±1` or `0`): `normsq > ERROR_THRESHOLD`.  `vnorm` is the Minkowski norm of that
normalised eigenvector. -/
def fromReflectionAccepts (ε : K) (evals : List K) (vnorm : K) : Bool :=
  isReflSpectrum ε evals && decide (ε < vnorm)

/-- `M` and `-M` are the same isometry, so `from_reflection` first passes to the representative of
non-negative trace; on the spectrum this negates every eigenvalue when their sum is negative -/
def traceRep (evals : List K) : List K :=
  if evals.sum < 0 then evals.map (fun x => -x) else evals

/-- the acceptance decision of `from_reflection` on either representative `±M` -/
def fromReflectionAcceptsRep (ε : K) (evals : List K) (vnorm : K) : Bool :=
  fromReflectionAccepts ε (traceRep evals) vnorm

/-- scan for `np.argmin` (first minimum): position `i` in the scan, best value and index so far -/
def argminGo : List K → ℕ → K → ℕ → ℕ
  | [], _, _, bi => bi
  | x :: xs, i, b, bi => if x < b then argminGo xs (i + 1) x i else argminGo xs (i + 1) b bi

/-- index of the eigenvalue with least real part (`np.argmin`: first minimum) -/
def argminIdx : List K → Option ℕ
  | [] => none
  | x :: xs => some (argminGo xs 1 x 0)

/-! ### `Isometry._fixpoint_data`: ordering of the eigenvectors -/

/-- what the sort sees of one eigenpair: `|λ|`, `|Im λ|` and the Minkowski square norm of the
eigenvector returned by `eig` -/
structure EigInfo (K : Type*) where
  absVal : K
  absIm : K
  norm : K

/-- `in_plane = np.where((norms > ERROR_THRESHOLD) | (|Im λ| > ERROR_THRESHOLD), 0, 1)` (repaired:
eigenvectors of non-real eigenvalues are not points of real hyperbolic space) -/
def EigInfo.inPlane (ε : K) (e : EigInfo K) : ℕ := if e.norm > ε ∨ e.absIm > ε then 0 else 1

/-- the `np.lexsort` key (last key primary): `(in_plane, -|Im λ|, |λ|)`, compared
lexicographically -/
def EigInfo.key (ε : K) (e : EigInfo K) : ℕ ×ₗ (K ×ₗ K) :=
  toLex (e.inPlane ε, toLex (-e.absIm, e.absVal))

def keyLe (ε : K) (a b : EigInfo K) : Bool := decide (a.key ε ≤ b.key ε)

/-- `_fixpoint_data(sort_eigvals=True)`: indices of the eigenvectors in the order they are
returned — stable ascending `lexsort`, then `np.flip` -/
def fixOrder (ε : K) (es : List (EigInfo K)) : List ℕ :=
  (((List.range es.length).zip es).mergeSort (fun a b => keyLe ε a.2 b.2)).reverse.map Prod.fst

/-- `_fixpoint_data(sort_eigvals=False)`: `np.argsort(in_plane)` (stable), flipped -/
def fixOrderPlain (ε : K) (es : List (EigInfo K)) : List ℕ :=
  (((List.range es.length).zip es).mergeSort
    (fun a b => decide (a.2.inPlane ε ≤ b.2.inPlane ε))).reverse.map Prod.fst

end ordered

end GT.Reflect
