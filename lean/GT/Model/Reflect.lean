/-
Field-generic model of reflections, hyperplanes-from-reflections and the fixed-point selection
of isometries (C15): `Subspace.reflection_across`, `Hyperplane._data_with_dual`,
`Hyperplane._compute_ideal_basis`, `Hyperplane.from_reflection`, `Geodesic.from_reflection`,
`Isometry._fixpoint_data / fixed_point_pair / fixed_point`.

Isometries act on row vectors (`x ↦ x·M`).  `np.linalg.inv`, `np.linalg.eig` and the frame
completion inside `spacelike_to` are contracts: their results enter as arguments with the
assumed postcondition as a hypothesis of the theorems.
-/
import GT.Model.Charts
import Mathlib.Data.Matrix.Mul
import Mathlib.Data.Matrix.Diagonal
import Mathlib.Data.List.Sort
import Mathlib.Data.Prod.Lex
import Mathlib.LinearAlgebra.Matrix.Trace
import Mathlib.Data.List.MinMax

open Finset BigOperators Matrix

namespace GT.Reflect

variable {K : Type*} [Field K] {n : ℕ}

/-- `minkowski(n+1)`: `diag(-1, 1, …, 1)` -/
def Jm : Matrix (Fin (n + 1)) (Fin (n + 1)) K := Matrix.diagonal fun i => if i = 0 then -1 else 1

/-- `J·dᵀ` as a vector: first entry negated -/
def Jvec (d : Fin (n + 1) → K) : Fin (n + 1) → K := fun i => if i = 0 then -d 0 else d i

/-- closed form of the reflection across `d^⊥` acting on a row vector:
`v ↦ v − 2⟨v,d⟩/⟨d,d⟩ · d` -/
def reflApply (d v : Fin (n + 1) → K) : Fin (n + 1) → K :=
  fun i => v i - 2 * mink v d / mink d d * d i

/-- the same as a matrix: `R = 1 − 2 (J dᵀ d)/⟨d,d⟩` -/
def reflMat (d : Fin (n + 1) → K) : Matrix (Fin (n + 1)) (Fin (n + 1)) K :=
  fun i j => (if i = j then 1 else 0) - 2 * Jvec d i * d j / mink d d

/-- the literal `Subspace.reflection_across`: `utils.invert(D) @ minkowski @ D`, where `D` is
`_data_with_dual()` (row 0 the spacelike normal, the other rows the ideal basis) and `Dinv` the
result of `np.linalg.inv` (contract `Dinv * D = 1`) -/
def reflLiteral (Dinv D : Matrix (Fin (n + 1)) (Fin (n + 1)) K) :
    Matrix (Fin (n + 1)) (Fin (n + 1)) K := Dinv * Jm * D

/-- column `j` of the `standard_ideal_basis` of `Hyperplane._compute_ideal_basis` in
`R^{n+2}`: `(1, 0, e_j)` for `j < n`, and `(1, 0, …, 0, -1)` for `j = n` -/
def stdIdeal (j : Fin (n + 1)) : Fin (n + 2) → K := fun i =>
  if i.val = 0 then 1
  else if i.val = j.val + 2 then 1
  else if j.val = n ∧ i.val = n + 1 then -1
  else 0

/-- `Hyperplane._compute_ideal_basis`: the rows of the hyperplane data are the normal and the
images `b_j · T` of the standard ideal basis under `T = spacelike_to(normal)` (repaired code: the
frame `(t, v̂)` completed by `find_isometry`, model `GT.GS.spacelikeTo`; used here through its
contract: `T` preserves the form and its row 1 is the normalised normal) -/
def hyperplaneData (T : Matrix (Fin (n + 2)) (Fin (n + 2)) K) (normal : Fin (n + 2) → K) :
    Fin (n + 2) → Fin (n + 2) → K :=
  Fin.cons normal fun j => stdIdeal j ᵥ* T

/-! ### `Hyperplane.from_reflection`: the acceptance test

(repaired code) A reflection `R` acting on row vectors is `v ↦ v − 2⟨v,d⟩/⟨d,d⟩ d`, so every row of
`R − 1` is a multiple of the normal `d`.  `from_reflection` reads `d` off the largest row of
`R − 1`, accepts when `R` agrees with the closed-form reflection in `d` up to
`ERROR_THRESHOLD · max(1, |R|)` entrywise, and then builds the hyperplane from `d`, which
`spacelike_to` refuses unless `d` is spacelike.  (The earlier test compared the eigenvalues
returned by `eig` with `(-1, 1, …, 1)` at an absolute threshold, which numpy cannot meet for walls
far from the centre of the ball.) -/

section ordered
variable [LinearOrder K]

/-- `M` and `-M` are the same isometry, so `from_reflection` first passes to the representative of
non-negative trace -/
def traceRep (M : Matrix (Fin (n + 1)) (Fin (n + 1)) K) : Matrix (Fin (n + 1)) (Fin (n + 1)) K :=
  if Matrix.trace M < 0 then -M else M

/-- row `k` of `M − 1` -/
def offsetRow (M : Matrix (Fin (n + 1)) (Fin (n + 1)) K) (k : Fin (n + 1)) : Fin (n + 1) → K :=
  fun j => M k j - (if k = j then 1 else 0)

/-- `np.argmax` of the Euclidean square norms of the rows of `M − 1` (first maximum) -/
def largestRow (M : Matrix (Fin (n + 1)) (Fin (n + 1)) K) : Fin (n + 1) :=
  ((List.finRange (n + 1)).argmax fun k => nsq (offsetRow M k)).getD 0

/-- `|M|`: the largest absolute value of an entry -/
def matMax (M : Matrix (Fin (n + 1)) (Fin (n + 1)) K) : K :=
  Finset.univ.sup' ⟨((0 : Fin (n + 1)), (0 : Fin (n + 1))), Finset.mem_univ _⟩ fun p => |M p.1 p.2|

/-- the normal `from_reflection` reads off `M` (after passing to the representative of
non-negative trace) -/
def reflNormal (M : Matrix (Fin (n + 1)) (Fin (n + 1)) K) : Fin (n + 1) → K :=
  offsetRow (traceRep M) (largestRow (traceRep M))

/-- the whole acceptance decision of `from_reflection`: the representative of non-negative trace
agrees entrywise, up to `ε · max(1, |M|)`, with the reflection in the normal read off it, and that
normal is spacelike (the test `spacelike_to` applies to it) -/
def fromReflectionAccepts (ε : K) (M : Matrix (Fin (n + 1)) (Fin (n + 1)) K) : Bool :=
  decide (∀ i j, |traceRep M i j - reflMat (reflNormal M) i j| ≤ ε * max 1 (matMax (traceRep M)))
    && decide (0 < mink (reflNormal M) (reflNormal M))

/-! ### `Isometry._fixpoint_data`: ordering of the eigenvectors -/

/-- what the sort sees of one eigenpair: `|λ|`, `|Im λ|` and the Minkowski square norm of the
eigenvector returned by `eig` -/
structure EigInfo (K : Type*) where
  absVal : K
  absIm : K
  norm : K

/-- `in_plane = np.where((norms > ERROR_THRESHOLD) | (|Im λ| > ERROR_THRESHOLD), 0, 1)` (repaired:
eigenvectors of non-real eigenvalues are not points of real hyperbolic space) -/
def EigInfo.inPlane (ε : K) (e : EigInfo K) : ℕ := if e.norm > ε ∨ e.absIm > ε then 0 else 1

/-- the `np.lexsort` key (last key primary): `(in_plane, -|Im λ|, |λ|)`, compared
lexicographically -/
def EigInfo.key (ε : K) (e : EigInfo K) : ℕ ×ₗ (K ×ₗ K) :=
  toLex (e.inPlane ε, toLex (-e.absIm, e.absVal))

def keyLe (ε : K) (a b : EigInfo K) : Bool := decide (a.key ε ≤ b.key ε)

/-- `_fixpoint_data(sort_eigvals=True)`: indices of the eigenvectors in the order they are
returned — stable ascending `lexsort`, then `np.flip` -/
def fixOrder (ε : K) (es : List (EigInfo K)) : List ℕ :=
  (((List.range es.length).zip es).mergeSort (fun a b => keyLe ε a.2 b.2)).reverse.map Prod.fst

/-- `_fixpoint_data(sort_eigvals=False)`: `np.argsort(in_plane)` (stable), flipped -/
def fixOrderPlain (ε : K) (es : List (EigInfo K)) : List ℕ :=
  (((List.range es.length).zip es).mergeSort
    (fun a b => decide (a.2.inPlane ε ≤ b.2.inPlane ε))).reverse.map Prod.fst

end ordered

end GT.Reflect
