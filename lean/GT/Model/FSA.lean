/-
Model of `geometry_tools/automata/fsa.py` (class `FSA`, `free_automaton`, `_from_gap_record`,
`_hidden_vertices`) and `geometry_tools/automata/kbmag_utils.py` (`build_dict`).

Core Lean only (no Mathlib): the driver executes exactly these definitions.

A Python `dict` is an insertion-ordered association list (`Dict`): assignment to an existing
key keeps the key's position, assignment to a new key appends, `pop` removes.  The three views
of an automaton are three such dictionaries:

  graph : vertex ↦ (label ↦ target)            `_graph_dict`
  out   : vertex ↦ (target ↦ [labels])         `_out_dict`   (inner dicts are `defaultdict(list)`)
  inn   : vertex ↦ (source ↦ [labels])         `_in_dict`    (outer dict is `defaultdict(dict)`)

In-place mutation becomes "return the new state".  Python exceptions become `Except Err`.
The model is pure, hence has no aliasing: it is the model of the *repaired* `_build_in_dict`
(which copies each label list) and of the repaired `add_edges` (per-label redundancy test).

`defaultdict` reads.  `_in_dict[v]` on a missing `v` inserts `{}`.  In `delete_vertex` and
`recurrent` the inserted entry is popped again before the function returns, in `add_edges` it
is immediately written to; the model therefore reads with `getOr … []` and lets the following
`set`/`erase` do the rest.  The inner dictionaries of `_in_dict` are plain dicts when they come
from `_build_in_dict` and `defaultdict(list)` when they come from `add_vertices`; the model
takes the stricter reading (`KeyError` on a missing inner key).  The two readings agree on
every coherent state (`GT.FSA.Coherent`), which is all the property theorems are about.
-/

namespace GT

/-- the Python exceptions the modelled code can raise -/
inductive FSA.Err
  | keyError      -- KeyError
  | indexError    -- IndexError (`start_vertices[0]` on an empty list)
  | fsaException  -- FSAException (`add_edges` refusing an edge that contradicts an existing (tail, label))
  | fuel          -- model-only: a `while` loop did not finish within the supplied fuel
  deriving DecidableEq, Repr

/-- Python `dict`: insertion-ordered association list -/
abbrev Dict (κ ν : Type) := List (κ × ν)

namespace Dict
variable {κ ν : Type} [DecidableEq κ]

/-- `d.get(k)` -/
def get? : Dict κ ν → κ → Option ν
  | [], _ => none
  | (k', v) :: r, k => if k = k' then some v else get? r k

/-- `k in d` -/
def contains (d : Dict κ ν) (k : κ) : Bool := (d.get? k).isSome

/-- `list(d)` / `d.keys()` -/
def keys (d : Dict κ ν) : List κ := d.map Prod.fst

/-- `d[k] = v` (keeps the position of an existing key, appends a new one) -/
def set : Dict κ ν → κ → ν → Dict κ ν
  | [], k, v => [(k, v)]
  | (k', v') :: r, k, v => if k = k' then (k', v) :: r else (k', v') :: set r k v

/-- removal of key `k` (the state change of `d.pop(k)`) -/
def erase (d : Dict κ ν) (k : κ) : Dict κ ν := d.filter (fun p => !decide (p.1 = k))

/-- `d[k]`, raising `KeyError` -/
def get (d : Dict κ ν) (k : κ) : Except FSA.Err ν :=
  match d.get? k with
  | some v => .ok v
  | none => .error .keyError

/-- `d.pop(k)`, raising `KeyError` -/
def pop (d : Dict κ ν) (k : κ) : Except FSA.Err (Dict κ ν) :=
  if d.contains k then .ok (d.erase k) else .error .keyError

/-- read of a `defaultdict` whose insertion is recorded by the caller's following write -/
def getOr (d : Dict κ ν) (k : κ) (dflt : ν) : ν := (d.get? k).getD dflt

end Dict

/-- the three views and the start list of `FSA` -/
structure FSA (V L : Type) where
  graph : Dict V (Dict L V)
  out : Dict V (Dict V (List L))
  inn : Dict V (Dict V (List L))
  starts : List V
  deriving Repr

namespace FSA
variable {V L : Type} [DecidableEq V] [DecidableEq L]

/-! ### construction -/

/-- `_hidden_vertices(graph_dict)` (fsa.py:815): targets that are not keys, in order of first
appearance -/
def hiddenVertices (gd : Dict V (Dict L V)) : List V :=
  gd.foldl (fun hid row => row.2.foldl
    (fun hid e => if e.2 ∈ gd.keys ∨ e.2 ∈ hid then hid else hid ++ [e.2]) hid) []

/-- inner loop of `_from_graph_dict` (fsa.py:138-140): `out_dict[v][neighbor].append(label)` on a
fresh `defaultdict(list)` -/
def outRow (nbrs : Dict L V) : Dict V (List L) :=
  nbrs.foldl (fun d e => d.set e.2 (d.getOr e.2 [] ++ [e.1])) []

/-- `_build_in_dict` (fsa.py:153, repaired: one (empty) row per vertex first; stores a copy of each label list):
`in_dict[w][v] = list(labels)` with `in_dict` a `defaultdict(dict)` -/
def buildInDict (out : Dict V (Dict V (List L))) : Dict V (Dict V (List L)) :=
  out.foldl (fun inn row => row.2.foldl
    (fun inn e => inn.set e.1 ((inn.getOr e.1 []).set row.1 e.2)) inn) (out.map fun row => (row.1, []))

/-- inner loops of `_build_graph_dict` (fsa.py:148-150) for one vertex: `label_dict[v][label] = w` -/
def graphRow (nbrs : Dict V (List L)) : Dict L V :=
  nbrs.foldl (fun g e => e.2.foldl (fun g l => g.set l e.1) g) []

/-- `_build_graph_dict` (fsa.py:145).  `label_dict[v]` is only written while the outer loop is at
`v`'s own row, and the keys of a dict are distinct, so the double loop is a map over rows. -/
def buildGraphDict (out : Dict V (Dict V (List L))) : Dict V (Dict L V) :=
  out.map (fun row => (row.1, graphRow row.2))

/-- `_from_graph_dict` (fsa.py:129) + `self.start_vertices = start_vertices`.  The hidden vertices
are not keys and pairwise distinct, so `self._graph_dict[v] = {}` appends them in order; the loop
over `self._graph_dict.items()` writes one fresh `defaultdict(list)` per row. -/
def fromGraphDict (gd : Dict V (Dict L V)) (starts : List V) : FSA V L :=
  let graph := gd ++ (hiddenVertices gd).map (fun v => (v, []))
  let out := graph.map (fun row => (row.1, outRow row.2))
  { graph := graph, out := out, inn := buildInDict out, starts := starts }

/-- `FSA(vert_dict, start_vertices, graph_dict=False)` (fsa.py:115-118) -/
def fromOutDict (od : Dict V (Dict V (List L))) (starts : List V) : FSA V L :=
  { graph := buildGraphDict od, out := od, inn := buildInDict od, starts := starts }

/-- `FSA()` / `FSA({})` -/
def empty (starts : List V) : FSA V L := fromGraphDict [] starts

/-- `copy.deepcopy(self)`: the identity of the pure model -/
def copy (s : FSA V L) : FSA V L := s

/-! ### views -/

/-- `self.vertices()` -/
def vertices (s : FSA V L) : List V := s.out.keys

/-- `edges(with_labels=True)` read off the label view, as `(tail, label, head)` -/
def edgesG (s : FSA V L) : List (V × L × V) :=
  s.graph.flatMap fun row => row.2.map fun e => (row.1, e.1, e.2)

/-- all `edges_out(v)` read off the outgoing view, as `(tail, label, head)` -/
def edgesO (s : FSA V L) : List (V × L × V) :=
  s.out.flatMap fun row => row.2.flatMap fun e => e.2.map fun l => (row.1, l, e.1)

/-- all `edges_in(w)` read off the incoming view, as `(tail, label, head)` -/
def edgesI (s : FSA V L) : List (V × L × V) :=
  s.inn.flatMap fun row => row.2.flatMap fun e => e.2.map fun l => (e.1, l, row.1)

/-! ### in-place edits -/

/-- body of the loop of `add_vertices` (fsa.py:225-229, with the label view created as a plain
`{}` — the repaired code) -/
def addVertex (s : FSA V L) (v : V) : FSA V L :=
  if s.out.contains v then s
  else { s with out := s.out.set v [], inn := s.inn.set v [], graph := s.graph.set v [] }

/-- `add_vertices(vertices)` (fsa.py:222) -/
def addVertices (s : FSA V L) (vs : List V) : FSA V L := vs.foldl addVertex s

/-- body of the per-label loop of the repaired `add_edges`:
```
if self._graph_dict[tail].get(l, head) != head:
    raise FSAException(...)
if head not in self._out_dict[tail]:
    self._out_dict[tail][head] = []
    self._in_dict[head][tail] = []
if ignore_redundant and l in self._out_dict[tail][head]:
    continue
self._out_dict[tail][head].append(l)
self._in_dict[head][tail].append(l)
self._graph_dict[tail][l] = head
``` -/
def addLabel (ignoreRedundant : Bool) (tail head : V) (s : FSA V L) (l : L) : Except Err (FSA V L) := do
  let grow0 ← s.graph.get tail
  if (grow0.get? l).getD head ≠ head then throw .fsaException
  let row ← s.out.get tail
  let (out, inn) :=
    if row.contains head then (s.out, s.inn)
    else (s.out.set tail (row.set head []), s.inn.set head ((s.inn.getOr head []).set tail []))
  let row ← out.get tail
  let labs ← row.get head
  if ignoreRedundant && decide (l ∈ labs) then
    return { s with out := out, inn := inn }
  let out := out.set tail (row.set head (labs ++ [l]))
  let irow := inn.getOr head []
  let ilabs ← irow.get tail
  let inn := inn.set head (irow.set tail (ilabs ++ [l]))
  let grow ← s.graph.get tail
  return { s with out := out, inn := inn, graph := s.graph.set tail (grow.set l head) }

/-- one iteration of the outer loop of `add_edges` for `e = (tail, head, labels)`:
`add_vertices([tail, head])`, then the per-label loop over `list(label) if elist else [label]` -/
def addEdge (ignoreRedundant : Bool) (s : FSA V L) (e : V × V × List L) : Except Err (FSA V L) :=
  e.2.2.foldlM (addLabel ignoreRedundant e.1 e.2.1) (s.addVertices [e.1, e.2.1])

/-- `add_edges(edges, elist=True, ignore_redundant)` (fsa.py:231, repaired) -/
def addEdgesL (s : FSA V L) (edges : List (V × V × List L)) (ignoreRedundant : Bool := true) :
    Except Err (FSA V L) :=
  edges.foldlM (addEdge ignoreRedundant) s

/-- `add_edges(edges, elist=False, ignore_redundant)` -/
def addEdges (s : FSA V L) (edges : List (V × V × L)) (ignoreRedundant : Bool := true) :
    Except Err (FSA V L) :=
  s.addEdgesL (edges.map fun e => (e.1, e.2.1, [e.2.2])) ignoreRedundant

/-- `edge_labels(tail, head)` (fsa.py:215, repaired): a copy of `self._out_dict[tail].get(head, ())`;
`KeyError` for an unknown `tail`.  A read accessor: the automaton is not an output. -/
def edgeLabels (s : FSA V L) (tail head : V) : Except Err (List L) := do
  let row ← s.out.get tail
  return (row.get? head).getD []

/-- `has_edge(tail, head)` (fsa.py:178, repaired) -/
def hasEdge (s : FSA V L) (tail head : V) : Except Err Bool := do
  let ls ← s.edgeLabels tail head
  return decide (ls.length > 0)

/-- `edge_label(tail, head)` (fsa.py:202, repaired): the label of the unique edge, `none` = `ValueError` -/
def edgeLabel (s : FSA V L) (tail head : V) : Except Err (Option L) := do
  let ls ← s.edgeLabels tail head
  match ls with
  | [l] => return some l
  | _ => return none

/-- first loop of `delete_vertex` (fsa.py:280-281): `self._in_dict[w].pop(vertex)` for `w` in
`neighbors_out(vertex)` -/
def popIn (x : V) : List V → Dict V (Dict V (List L)) → Except Err (Dict V (Dict V (List L)))
  | [], inn => .ok inn
  | w :: ws, inn => do
    let d ← (inn.getOr w []).pop x
    popIn x ws (inn.set w d)

/-- second loop of `delete_vertex` (fsa.py:282-287): for `w` in `neighbors_in(vertex)` pop the
entry of the outgoing view and every label of the label view that leads to `vertex` -/
def popOut (x : V) : List V → Dict V (Dict V (List L)) × Dict V (Dict L V) →
    Except Err (Dict V (Dict V (List L)) × Dict V (Dict L V))
  | [], og => .ok og
  | w :: ws, (out, graph) => do
    let row ← out.get w
    let row' ← row.pop x
    let grow ← graph.get w
    popOut x ws (out.set w row', graph.set w (grow.filter fun e => !decide (e.2 = x)))

/-- `delete_vertex(vertex)` (fsa.py:277) -/
def deleteVertex (s : FSA V L) (x : V) : Except Err (FSA V L) := do
  let row ← s.out.get x
  let inn ← popIn x row.keys s.inn
  let (out, graph) ← popOut x (inn.getOr x []).keys (s.out, s.graph)
  let out ← out.pop x
  let graph ← graph.pop x
  return { s with out := out, inn := inn.erase x, graph := graph }

/-- `delete_vertices(vertices)` (fsa.py:271) -/
def deleteVertices (s : FSA V L) (vs : List V) : Except Err (FSA V L) := vs.foldlM deleteVertex s

/-- the `for v in vertices` loop inside `recurrent` (fsa.py:340-344); the flag is `still_pruning` -/
def pruneRound : List V → FSA V L × Bool → Except Err (FSA V L × Bool)
  | [], sb => .ok sb
  | v :: vs, (s, b) => do
    let row ← s.out.get v
    if row.length == 0 || (s.inn.getOr v []).length == 0 then
      let s' ← s.deleteVertex v
      pruneRound vs (s', true)
    else pruneRound vs (s, b)

/-- the `while still_pruning` loop of `recurrent` (fsa.py:336-344) with a fuel argument -/
def recurrentLoop : Nat → FSA V L → Except Err (FSA V L)
  | 0, _ => .error .fuel
  | n + 1, s => do
    let (s', b) ← pruneRound s.out.keys (s, false)
    if b then recurrentLoop n s' else return s'

/-- `recurrent()` (fsa.py:313).  Every round but the last deletes a vertex, so `#vertices + 1`
rounds suffice (`GT.FSA.recurrent_ok`). -/
def recurrent (s : FSA V L) : Except Err (FSA V L) := recurrentLoop (s.out.length + 1) s

/-- the inner dict comprehension of `rename_generators` (fsa.py:592-595):
`{rename_map[label]: neighbor for label, neighbor in neighbors.items()}` -/
def renameRow {L' : Type} [DecidableEq L'] (m : Dict L L') (nbrs : Dict L V) : Except Err (Dict L' V) :=
  nbrs.foldlM (fun d e => do let l' ← m.get e.1; pure (d.set l' e.2)) []

/-- the outer dict comprehension of `rename_generators` (keys are the distinct vertices) -/
def renameDict {L' : Type} [DecidableEq L'] (m : Dict L L') (g : Dict V (Dict L V)) :
    Except Err (Dict V (Dict L' V)) :=
  g.mapM fun row => do let r ← renameRow m row.2; pure (row.1, r)

/-- `rename_generators(rename_map)` (fsa.py:568), in place or not: a new automaton from the
renamed label view, same start list -/
def rename {L' : Type} [DecidableEq L'] (s : FSA V L) (m : Dict L L') : Except Err (FSA V L') := do
  let nd ← renameDict m s.graph
  return fromGraphDict nd s.starts

/-! ### walks and enumeration -/

/-- `self.graph_dict[vertex][letter]`, `none` = `KeyError` -/
def step (s : FSA V L) (v : V) (l : L) : Option V := (s.graph.get? v).bind (·.get? l)

/-- `follow_word(word, start_vertex)` (fsa.py:458): `none` = `FSAException` -/
def follow (s : FSA V L) : V → List L → Option V
  | v, [] => some v
  | v, l :: w => match s.step v l with
    | some v' => s.follow v' w
    | none => none

/-- `accepts(word, start_vertex)` (fsa.py:659) -/
def accepts (s : FSA V L) (w : List L) (start : Option V := none) : Bool :=
  (match start with | some v => [v] | none => s.starts).any fun v => (s.follow v w).isSome

/-- the loop of `initial_accepted_subword` from a given vertex -/
def acceptedPrefixFrom (s : FSA V L) : V → List L → List L
  | _, [] => []
  | v, l :: w => match s.step v l with
    | some v' => l :: s.acceptedPrefixFrom v' w
    | none => []

/-- `initial_accepted_subword(word)` (fsa.py:401) -/
def initialAccepted (s : FSA V L) (w : List L) : Except Err (List L) :=
  match s.starts with
  | [] => .error .indexError
  | v :: _ => .ok (s.acceptedPrefixFrom v w)

/-- the loop of `initial_rejected_subword` from a given vertex: `none` is Python's `None` -/
def rejectedPrefixFrom (s : FSA V L) : V → List L → Option (List L)
  | _, [] => none
  | v, l :: w => match s.step v l with
    | some v' => (s.rejectedPrefixFrom v' w).map (l :: ·)
    | none => some [l]

/-- `initial_rejected_subword(word)` (fsa.py:429, repaired): the shortest rejected prefix, `None`
when the word is accepted -/
def initialRejected (s : FSA V L) (w : List L) : Except Err (Option (List L)) :=
  match s.starts with
  | [] => .error .indexError
  | v :: _ => .ok (s.rejectedPrefixFrom v w)

/-- one level of `enumerate_fixed_length_paths`: extend every `(word, vertex)` by every item of
`self._graph_dict[vertex]` (`KeyError` if the vertex has no row) -/
def extendPaths (s : FSA V L) : List (List L × V) → Except Err (List (List L × V))
  | [] => .ok []
  | (w, v) :: rest => do
    let row ← s.graph.get v
    let tl ← s.extendPaths rest
    return row.map (fun e => (w ++ [e.1], e.2)) ++ tl

/-- `enumerate_fixed_length_paths(length, start_vertex, with_states=True)` (fsa.py:496), the
generator run to exhaustion -/
def enumFixed (s : FSA V L) (start : V) : Nat → Except Err (List (List L × V))
  | 0 => .ok [([], start)]
  | n + 1 => do
    let prev ← s.enumFixed start n
    s.extendPaths prev

/-- `enumerate_words(max_length, start_vertex, with_states=True)` (fsa.py:539): lengths
`0, 1, …, max_length` in turn -/
def enumUpTo (s : FSA V L) (start : V) : Nat → Except Err (List (List L × V))
  | 0 => s.enumFixed start 0
  | n + 1 => do
    let a ← s.enumUpTo start n
    let b ← s.enumFixed start (n + 1)
    return a ++ b

/-- `start_vertex=None` → `self.start_vertices[0]` -/
def start0 (s : FSA V L) : Except Err V :=
  match s.starts with
  | [] => .error .indexError
  | v :: _ => .ok v

/-! ### derived automata -/

/-- the `for word, neighbor in …` loop of `automaton_multiple` (fsa.py:630-640) -/
def multipleEdges (v : V) (visited : Dict V Bool) :
    List (List L × V) → FSA V (List L) × List V → Except Err (FSA V (List L) × List V)
  | [], nq => .ok nq
  | (word, nb) :: rest, (new, q) => do
    let new ← (new.addVertices [nb]).addEdges [(v, nb, word)]
    let vis ← visited.get nb
    multipleEdges v visited rest (new, if vis then q else q ++ [nb])

/-- the `while len(to_visit) > 0` loop of `automaton_multiple` (fsa.py:625), with fuel.  The loop
marks a vertex when it is popped and never checks the mark at pop time. -/
def multipleLoop (s : FSA V L) (k : Nat) :
    Nat → FSA V (List L) → Dict V Bool → List V → Except Err (FSA V (List L))
  | _, new, _, [] => .ok new
  | 0, _, _, _ :: _ => .error .fuel
  | fuel + 1, new, visited, v :: q => do
    let visited := visited.set v true
    let new := new.addVertices [v]
    let paths ← s.enumFixed v k
    let (new, q) ← multipleEdges v visited paths (new, q)
    multipleLoop s k fuel new visited q

/-- `automaton_multiple(multiple)` (fsa.py:603).  Labels of the result are words (Python:
concatenated strings). -/
def multiple (s : FSA V L) (k : Nat) (fuel : Nat) : Except Err (FSA V (List L)) :=
  multipleLoop s k fuel (empty s.starts) (s.vertices.map fun v => (v, false)) s.starts

/-- `[w for w in self.neighbors_out(v) if not marked[w]]` -/
def unmarked (marked : Dict V Bool) : List V → Except Err (List V)
  | [] => .ok []
  | w :: ws => do
    let m ← marked.get w
    let r ← unmarked marked ws
    return if m then r else w :: r

/-- `[w for w in self.neighbors_out(v) if distance[w] == distance[v] + 1]` -/
def atLevel (dist : Dict V Nat) (d : Nat) : List V → Except Err (List V)
  | [] => .ok []
  | w :: ws => do
    let dw ← dist.get w
    let r ← atLevel dist d ws
    return if dw = d then w :: r else r

/-- `[(v, w, self.edge_labels(v, w)) for w in short_nbrs]` -/
def labelled (row : Dict V (List L)) (v : V) : List V → Except Err (List (V × V × List L))
  | [] => .ok []
  | w :: ws => do
    let ls ← row.get w
    let r ← labelled row v ws
    return (v, w, ls) :: r

/-- the `while len(vertex_queue) > 0` loop of `remove_long_paths` (fsa.py:382-397), with fuel -/
def rlpLoop (s : FSA V L) (ties : Bool) :
    Nat → FSA V L → Dict V Bool → Dict V Nat → List V → Except Err (FSA V L × Dict V Nat)
  | _, H, _, dist, [] => .ok (H, dist)
  | 0, _, _, _, _ :: _ => .error .fuel
  | fuel + 1, H, marked, dist, v :: q => do
    let row ← s.out.get v
    let toVisit ← unmarked marked row.keys
    let dv ← dist.get v
    let marked := toVisit.foldl (fun m w => m.set w true) marked
    let dist := toVisit.foldl (fun d w => d.set w (dv + 1)) dist
    let short ← if ties then atLevel dist (dv + 1) row.keys else pure toVisit
    let es ← labelled row v short
    let H ← H.addEdgesL es
    rlpLoop s ties fuel H marked dist (q ++ toVisit)

/-- `remove_long_paths(root, edge_ties)` (fsa.py:349) together with the `distance` dictionary.
`H = FSA({}, start_vertices=[root])` (repaired).  Every vertex enters the queue at most once, so
`#vertices + 1` iterations suffice. -/
def removeLongPaths (s : FSA V L) (root : Option V) (ties : Bool) :
    Except Err (FSA V L × Dict V Nat) := do
  let root ← match root with | some r => pure r | none => s.start0
  let H := (empty [root] : FSA V L).addVertices s.vertices
  let marked := Dict.set (s.vertices.map fun v => (v, false)) root true
  rlpLoop s ties (s.out.length + 2) H marked [(root, 0)] [root]

/-- `free_automaton(generating_set)` (fsa.py:788); `inv` is `words.invert_gen`, `eps` is `''`.
Dict comprehensions overwrite repeated keys, hence the folds of `set`. -/
def free (inv : L → L) (eps : L) (gens : List L) : FSA L L :=
  let generators := gens ++ gens.map inv
  let row (g : L) : Dict L L :=
    (generators.filter fun h => !decide (inv h = g)).foldl (fun d h => d.set h h) []
  fromGraphDict ((eps :: generators).foldl (fun d g => d.set g (row g)) []) [eps]

/-- `kbmag_utils.build_dict(transitions, labels, to_filter)` (kbmag_utils.py:14): rows are numbered
from 1; `zip` truncates to the shorter of `labels`, `neighbors` -/
def buildDict (transitions : List (List Nat)) (labels : List L) (toFilter : List Nat) :
    Dict Nat (Dict L Nat) :=
  (transitions.zipIdx).foldl (fun vd ni =>
    vd.set (ni.2 + 1) ((labels.zip ni.1).foldl
      (fun nd lv => if lv.2 ∈ toFilter then nd else nd.set lv.1 lv.2) [])) []

/-- `_from_gap_record` (fsa.py:713) on the already-parsed fields of the FSA record -/
def fromKbmag (transitions : List (List Nat)) (labels : List L) (initial : List Nat) : FSA Nat L :=
  fromGraphDict (buildDict transitions labels [0]) initial

/-! ### operation histories -/

/-- the in-place operations named by C09 (plus `copy.deepcopy`) -/
inductive Op (V L : Type)
  | addVertices (vs : List V)
  | addEdges (es : List (V × V × L)) (ignoreRedundant : Bool)
  | addEdgesL (es : List (V × V × List L)) (ignoreRedundant : Bool)
  | deleteVertex (v : V)
  | deleteVertices (vs : List V)
  | recurrent
  | rename (m : Dict L L)
  | copy
  | hasEdge (tail head : V)   -- a read accessor (it used to write to a `defaultdict`)

/-- apply one operation -/
def applyOp (s : FSA V L) : Op V L → Except Err (FSA V L)
  | .addVertices vs => .ok (s.addVertices vs)
  | .addEdges es ir => s.addEdges es ir
  | .addEdgesL es ir => s.addEdgesL es ir
  | .deleteVertex v => s.deleteVertex v
  | .deleteVertices vs => s.deleteVertices vs
  | .recurrent => s.recurrent
  | .rename m => s.rename m
  | .copy => .ok s.copy
  | .hasEdge t h => (s.hasEdge t h).map fun _ => s

/-- apply a history, stopping at the first operation that raises -/
def run (s : FSA V L) : List (Op V L) → Except Err (FSA V L)
  | [] => .ok s
  | op :: ops => do
    let s' ← s.applyOp op
    run s' ops

end FSA
end GT
