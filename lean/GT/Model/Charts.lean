/-
Field-generic model of the chart maps between the hyperbolic models and of the Minkowski
normalisation / distance (geometry_tools/hyperbolic.py, utils/core.py).

Transcendental functions never occur here: a square root enters as a function
`r : K → K` about which the theorems assume `r x * r x = x` for the `x ≥ 0` they use.
Executed over ℚ by the driver (with exact rational roots supplied by the generator),
instantiated at ℝ with `Real.sqrt` in `GT.Properties.C01`.
-/
import Mathlib.Algebra.BigOperators.Fin
import Mathlib.Algebra.Order.Field.Basic
import Mathlib.Algebra.Order.AbsoluteValue.Basic
import Mathlib.Data.Fin.Tuple.Basic

open Finset BigOperators

namespace GT

variable {K : Type*} [Field K] {n : ℕ}

/-- `utils.apply_bilinear(x, y)` with the Euclidean form -/
def dot (x y : Fin n → K) : K := ∑ i, x i * y i

/-- `utils.normsq(x)` -/
def nsq (x : Fin n → K) : K := dot x x

/-- `utils.apply_bilinear(x, y, minkowski(n+1))`: the form `diag(-1, 1, …, 1)` -/
def mink (x y : Fin (n + 1) → K) : K := -(x 0 * y 0) + dot (Fin.tail x) (Fin.tail y)

/-- `projective.affine_coords(x, chart_index=0)` = `Point.kleinian_coords()` (get) -/
def klein (x : Fin (n + 1) → K) : Fin n → K := fun i => x i.succ / x 0

/-- `projective.projective_coords(k, chart_index=0)` = `Point.kleinian_coords(k)` (set) -/
def ofKlein (k : Fin n → K) : Fin (n + 1) → K := Fin.cons 1 k

/-- `hyperbolic.poincare_to_kleinian`: `p * 2/(1+|p|²)` -/
def p2k (p : Fin n → K) : Fin n → K := fun i => p i * (2 / (1 + nsq p))

/-- `hyperbolic.kleinian_to_poincare`: `k * 1/(1+√|1-|k|²|)`; `r` is the square root -/
def k2p [LinearOrder K] (r : K → K) (k : Fin n → K) : Fin n → K :=
  fun i => k i * (1 / (1 + r |1 - nsq k|))

/-- `hyperbolic.poincare_to_halfspace` (first Poincaré coordinate is the "height" axis) -/
def p2h (p : Fin (n + 1) → K) : Fin (n + 1) → K :=
  let y := p 0
  let v := Fin.tail p
  let x2 := nsq v
  let denom := x2 + (y - 1) * (y - 1)
  Fin.snoc (fun i => (-2 * v i) / denom) ((1 - x2 - y * y) / denom)

/-- `hyperbolic.halfspace_to_poincare` -/
def h2p (h : Fin (n + 1) → K) : Fin (n + 1) → K :=
  let y := h (Fin.last n)
  let v := Fin.init h
  let x2 := nsq v
  let denom := x2 + (y + 1) * (y + 1)
  Fin.cons ((x2 + y * y - 1) / denom) (fun i => (-2 * v i) / denom)

/-- `utils.normalize(x, minkowski)`: divide by `√|⟨x,x⟩|` where that is non-zero -/
def normalize [LinearOrder K] (r : K → K) (x : Fin (n + 1) → K) : Fin (n + 1) → K :=
  if r |mink x x| = 0 then x else fun i => x i / r |mink x x|

/-- the argument of `arccosh` in `Point.distance`: `|⟨x̂, ŷ⟩|` -/
def coshDist [LinearOrder K] (r : K → K) (x y : Fin (n + 1) → K) : K :=
  |mink (normalize r x) (normalize r y)|

/-- repaired `Point.distance` argument: clamped below at 1 (see D1) -/
def coshDistClamped [LinearOrder K] (r : K → K) (x y : Fin (n + 1) → K) : K :=
  max 1 (coshDist r x y)

/-! ### `Point.coords(model, data)` (set) and `Point.coords(model)` (get) as the class
dispatches them: Klein is the affine chart 0, Poincaré goes through Klein, half-space
through Poincaré, hyperboloid is `normalize` of the stored data. -/

def setKlein (k : Fin n → K) : Fin (n + 1) → K := ofKlein k
def setPoincare (p : Fin n → K) : Fin (n + 1) → K := ofKlein (p2k p)
def setHalfspace (h : Fin (n + 1) → K) : Fin (n + 2) → K := ofKlein (p2k (h2p h))
def getKlein (x : Fin (n + 1) → K) : Fin n → K := klein x
def getPoincare [LinearOrder K] (r : K → K) (x : Fin (n + 1) → K) : Fin n → K := k2p r (klein x)
def getHalfspace [LinearOrder K] (r : K → K) (x : Fin (n + 2) → K) : Fin (n + 1) → K :=
  p2h (k2p r (klein x))
def getHyperboloid [LinearOrder K] (r : K → K) (x : Fin (n + 1) → K) : Fin (n + 1) → K :=
  normalize r x

end GT
