/-
`utils.matrix_product` and its helpers as the LITERAL composition of numpy primitives
(`GT.Model.ND`), the projective-object record, `Transformation.apply`, and the C11 state
machine (geometry_tools/utils/core.py, projective.py, hyperbolic.py).
-/
import GT.Model.ND

namespace GT.Act
open ND

variable {K : Type} [Inhabited K]

/-- the `broadcast=` keyword of `utils.matrix_product` / `Transformation.apply` -/
inductive Bcast | elementwise | pairwise | pairwiseReversed
  deriving DecidableEq, Repr

/-- `utils.expand_unit_axes(array, unit_axes, new_axes)` (core.py:655):
`if new_axes <= unit_axes: return array`;
`return np.expand_dims(array.T, axis=tuple(range(unit_axes, new_axes))).T` -/
def expandUnitAxes (a : ND K) (unit new : Nat) : ND K :=
  if new ≤ unit then a else (a.T.expandRange unit (new - unit)).T

/-- `utils.squeeze_excess(array, unit_axes, other_unit_axes)` (core.py:686):
`squeezable = array.T.shape[unit:other]`; `to_squeeze = nonzero(squeezable == 1) + unit`;
`np.squeeze(array.T, axis=tuple(to_squeeze)).T`  (a python slice is clipped to the length,
hence the `getD … 0`) -/
def squeezeExcess (a : ND K) (unit other : Nat) : ND K :=
  let t := a.T
  let toSqueeze := (List.range' unit (other - unit)).filter (fun p => t.shape.getD p 0 == 1)
  (t.squeezeAxes toSqueeze).T

/-- the `if broadcast == "pairwise" or broadcast == "pairwise_reversed":` block of
`utils.matrix_product` (core.py:820-841): insert blocks of length-1 axes so that `@`
broadcasts the two outer shapes against each other as an outer product.
`excessᵢ = reshapeᵢ.ndim - large_axes`; precondition of every caller
(`_assert_geometry_valid`): `reshapeᵢ.ndim ≥ large_axes`, so python's integer subtraction is
the ℕ-subtraction below. -/
def pairExpand (mode : Bcast) (reshape1 reshape2 : ND K) (large : Nat) : ND K × ND K :=
  let excess1 := reshape1.rank - large
  let excess2 := reshape2.rank - large
  match mode with
  | .elementwise => (reshape1, reshape2)
  | .pairwise =>
    (if excess1 > 0 then reshape1.expandRange excess1 excess2 else reshape1,
     if excess2 > 0 then reshape2.expandRange 0 excess1 else reshape2)
  | .pairwiseReversed =>
    (if excess1 > 0 then reshape1.expandRange 0 excess2 else reshape1,
     if excess2 > 0 then reshape2.expandRange excess2 excess1 else reshape2)

/-- `utils.matrix_product(array1, array2, unit_axis_1, unit_axis_2, broadcast)`
(core.py:755): expand the unit axes, insert the outer-product axes, `@`, squeeze. -/
def matrixProduct [Add K] [Mul K] [Zero K] (a₁ a₂ : ND K) (u₁ u₂ : Nat) (mode : Bcast) :
    Except String (ND K) :=
  let reshape1 := expandUnitAxes a₁ u₁ u₂
  let reshape2 := expandUnitAxes a₂ u₂ u₁
  let r := pairExpand mode reshape1 reshape2 (max u₁ u₂)
  match matmul r.1 r.2 with
  | .error e => .error e
  | .ok product => .ok (if u₁ < u₂ then squeezeExcess product u₁ u₂ else product)

/-! #### specification vocabulary for `matrixProduct` (used by the C04 theorems):
which outer shape the result has and which unit of each argument feeds result unit `bix` -/

/-- outer (composite) shape of the result in each broadcast mode -/
def outerShape (mode : Bcast) (o₁ o₂ : List Nat) : Option (List Nat) :=
  match mode with
  | .elementwise => bcastShape o₁ o₂
  | .pairwise => some (o₁ ++ o₂)
  | .pairwiseReversed => some (o₂ ++ o₁)

/-- index of the unit of `array1` used for result unit `bix` -/
def unitIx1 (mode : Bcast) (o₁ o₂ bix : List Nat) : List Nat :=
  match mode with
  | .elementwise => bcIx o₁ bix
  | .pairwise => bix.take o₁.length
  | .pairwiseReversed => bix.drop o₂.length

/-- index of the unit of `array2` used for result unit `bix` -/
def unitIx2 (mode : Bcast) (o₁ o₂ bix : List Nat) : List Nat :=
  match mode with
  | .elementwise => bcIx o₂ bix
  | .pairwise => bix.drop o₁.length
  | .pairwiseReversed => bix.take o₂.length

/-- `utils.apply_bilinear(v1, v2, bilinear_form)` (core.py:225), elementwise:
`matrix_product(matrix_product(expand_dims(v1,-2), form), expand_dims(v2,-1)).squeeze((-1,-2))`
(`form = None`: the first product is skipped).  Requires `v₁.ndim, v₂.ndim ≥ 1`. -/
def applyBilinear [Add K] [Mul K] [Zero K] (v₁ v₂ : ND K) (form : Option (ND K)) :
    Except String (ND K) := do
  let e1 := v₁.expandRange (v₁.rank - 1) 1
  let intermed ← match form with
    | none => pure e1
    | some f => matrixProduct e1 f 2 2 .elementwise
  let prod ← matrixProduct intermed (v₂.expandRange v₂.rank 1) 2 2 .elementwise
  pure (prod.squeezeAxes [prod.rank - 1, prod.rank - 2])

/-! ### projective objects -/

/-- the eleven object classes of the properties; fixes `unit_ndims` / `aux_ndims`
(projective.py / hyperbolic.py `__init__` of each class) -/
inductive Kind
  | point | pair | segment | geodesic | polygon | simplex | tangent | horosphere | hyperplane
  | subspace | transformation
  deriving DecidableEq, Repr

def Kind.unitNdims : Kind → Nat
  | .point => 1
  | _ => 2

def Kind.auxNdims : Kind → Nat
  | .segment => 2
  | .polygon => 3
  | .tangent => 2
  | _ => 0

/-- `ProjectiveObject`: primary data, derived ("auxiliary") data kept beside it, dual data
(only `ConvexPolygon`, `dual_ndims = 1`, carries any; kept for `apply`) -/
structure Obj (K : Type) where
  kind : Kind
  proj : ND K
  aux : Option (ND K)
  dual : Option (ND K)

/-- composite shape `obj.shape = proj_data.shape[:-unit_ndims]` (projective.py:311) -/
def Obj.shape (X : Obj K) : List Nat := X.proj.shape.take (X.proj.shape.length - X.kind.unitNdims)

/-- `Transformation.apply(obj, broadcast)` (projective.py:1198): `matrix_product` of the primary
and auxiliary data with `self.matrix`, each with its own unit rank, and of the dual data with
`utils.invert(self.matrix).swapaxes(-1,-2)` (`_apply_to_data(..., dual=True)`, as repaired);
class kept.  The inverse transpose `AinvT` is supplied (`utils.invert` is LAPACK: a contract). -/
def Obj.apply [Add K] [Mul K] [Zero K] (A AinvT : ND K) (X : Obj K) (mode : Bcast) : Except String (Obj K) :=
  match matrixProduct X.proj A X.kind.unitNdims 2 mode with
  | .error e => .error e
  | .ok p =>
    match (match X.aux with
      | none => Except.ok none
      | some a => (matrixProduct a A X.kind.auxNdims 2 mode).map some) with
    | .error e => .error e
    | .ok a' =>
      match (match X.dual with
        | none => Except.ok none
        | some d => (matrixProduct d AinvT 1 2 mode).map some) with
      | .error e => .error e
      | .ok d' => .ok ⟨X.kind, p, a', d'⟩

/-- iteration over a composite object (`for u in obj`: python's legacy `__getitem__` protocol,
projective.py:496 `__getitem__`, :502 `__len__`): `obj[0], obj[1], …` -/
def iterItems (a : ND K) : List (ND K) := (List.range (a.shape.headD 0)).map fun k => a.sub [k]

end GT.Act
