/-
Field-generic model of the formulas whose invariance under rescaling of homogeneous
coordinates is the second half of C12 (geometry_tools/projective.py, hyperbolic.py,
utils/core.py).  Square roots are supplied functions `r` (see `GT.IsSqrt`).  Reuses
`GT.Model.Charts` (`mink`, `klein`, `normalize`, `coshDist`, `k2p`).
-/
import GT.Model.Charts
import Mathlib.Data.Matrix.Mul
import Mathlib.LinearAlgebra.Matrix.NonsingularInverse

open Finset BigOperators

namespace GT.Rescale
open GT

variable {K : Type*} [Field K] {n : ℕ}

/-- `projective.affine_coords(x, chart_index=c)`: divide by coordinate `c`, delete it -/
def affineChart (c : Fin (n + 1)) (x : Fin (n + 1) → K) : Fin n → K :=
  fun i => x (c.succAbove i) / x c

/-! ### `hyperbolic.Segment._compute_aux_data`: the two null vectors `μ x₁ + (1-μ) x₂` -/

/-- `a = a11 - 2 a12 + a22` -/
def segA (x₁ x₂ : Fin (n + 1) → K) : K := mink x₁ x₁ - 2 * mink x₁ x₂ + mink x₂ x₂
/-- `b = 2 a12 - 2 a22` -/
def segB (x₁ x₂ : Fin (n + 1) → K) : K := 2 * mink x₁ x₂ - 2 * mink x₂ x₂
/-- `c = a22` -/
def segC (x₁ x₂ : Fin (n + 1) → K) : K := mink x₂ x₂
/-- `b * b - 4 * a * c` -/
def segDisc (x₁ x₂ : Fin (n + 1) → K) : K :=
  segB x₁ x₂ * segB x₁ x₂ - 4 * segA x₁ x₂ * segC x₁ x₂

/-- `mu1` (`s = 1`) and `mu2` (`s = -1`): `(-b ± sqrt(b*b - 4*a*c)) / (2*a)` -/
def segMu (r : K → K) (s : K) (x₁ x₂ : Fin (n + 1) → K) : K :=
  (-segB x₁ x₂ + s * r (segDisc x₁ x₂)) / (2 * segA x₁ x₂)

/-- `mu * end_data[0] + (1 - mu) * end_data[1]` -/
def lineComb (μ : K) (x₁ x₂ : Fin (n + 1) → K) : Fin (n + 1) → K :=
  fun i => μ * x₁ i + (1 - μ) * x₂ i

/-- `null1` (`s = 1`) and `null2` (`s = -1`) of `Segment._compute_aux_data` -/
def segNull (r : K → K) (s : K) (x₁ x₂ : Fin (n + 1) → K) : Fin (n + 1) → K :=
  lineComb (segMu r s x₁ x₂) x₁ x₂

/-! ### `Subspace.sphere_parameters(model=POINCARE)` for a geodesic (two ideal points) -/

/-- `utils.sphere_inversion(p) = p / |p|²` -/
def sphereInv (p : Fin n → K) : Fin n → K := fun i => p i / nsq p

/-- Poincaré midpoint of the chord: `kleinian_to_poincare((k₁ + k₂)/2)` of the Klein
coordinates of the two ideal basis vectors -/
def poincareMid [LinearOrder K] (r : K → K) (N₁ N₂ : Fin (n + 1) → K) : Fin n → K :=
  k2p r (fun i => (klein N₁ i + klein N₂ i) / 2)

/-- `center = (mid + extreme) / 2` -/
def circleCentre [LinearOrder K] (r : K → K) (N₁ N₂ : Fin (n + 1) → K) : Fin n → K :=
  fun i => (poincareMid r N₁ N₂ i + sphereInv (poincareMid r N₁ N₂) i) / 2

/-- `radius = sqrt(normsq(mid - extreme)) / 2` -/
def circleRadius [LinearOrder K] (r : K → K) (N₁ N₂ : Fin (n + 1) → K) : K :=
  r (nsq fun i => poincareMid r N₁ N₂ i - sphereInv (poincareMid r N₁ N₂) i) / 2

/-! ### tangent vectors -/

/-- `utils.projection(v, w, minkowski) = w * ⟨v,w⟩ / ⟨w,w⟩` -/
def mproj (v w : Fin (n + 1) → K) : Fin (n + 1) → K :=
  fun i => w i * mink v w / mink w w

/-- `hyperbolic.project_to_hyperboloid(basepoint, tangent_vector)` -/
def projHyp (x v : Fin (n + 1) → K) : Fin (n + 1) → K := fun i => v i - mproj v x i

/-- pinned `Point.unit_tangent_towards` before normalisation:
`TangentVector(self, other.proj_data - self.proj_data)` (defect D7) -/
def tangentTowardsPinned (x y : Fin (n + 1) → K) : Fin (n + 1) → K :=
  projHyp x (fun i => y i - x i)

/-- repaired `Point.unit_tangent_towards` before normalisation: the representative of
`other` is first moved to the sheet of `self` (`signs = where(⟨x,y⟩ > 0, -1, 1)`) -/
def tangentTowards [LinearOrder K] (x y : Fin (n + 1) → K) : Fin (n + 1) → K :=
  projHyp x (fun i => y i * (if 0 < mink x y then -1 else 1) - x i)

/-- `.normalized()`: `utils.normalize(vector, minkowski)` -/
def unitTangentTowards [LinearOrder K] (r : K → K) (x y : Fin (n + 1) → K) : Fin (n + 1) → K :=
  normalize r (tangentTowards x y)

def unitTangentTowardsPinned [LinearOrder K] (r : K → K) (x y : Fin (n + 1) → K) :
    Fin (n + 1) → K :=
  normalize r (tangentTowardsPinned x y)

/-- `TangentVector.point_along(d)` = `origin_to().apply((1, tanh d, 0, …))`: rows 0 and 1 of
`origin_to()` are the normalised base point and the normalised tangent vector (C13), so the
image is `x̂ + t·v̂` with `t = tanh d` (`hyp_to_affine_dist`) -/
def pointAlong [LinearOrder K] (r : K → K) (x v : Fin (n + 1) → K) (t : K) : Fin (n + 1) → K :=
  fun i => normalize r x i + t * normalize r v i

/-! ### reflections and transformations -/

/-- reflection in the Minkowski-orthogonal hyperplane of a non-null vector `v` -/
def reflectIn (v x : Fin (n + 1) → K) : Fin (n + 1) → K :=
  fun i => x i - 2 * mink x v / mink v v * v i

/-- `Subspace.reflection_across`: `invert(D) @ diag(-1, 1, …, 1) @ D` for the matrix `D`
whose rows are the dual vector and the ideal basis -/
noncomputable def reflectionAcross (D : Matrix (Fin (n + 1)) (Fin (n + 1)) K) :
    Matrix (Fin (n + 1)) (Fin (n + 1)) K :=
  D⁻¹ * Matrix.diagonal (fun i => if i = 0 then (-1 : K) else 1) * D

/-- `Transformation.apply` on one point (row vector times row matrix) -/
def applyT (M : Matrix (Fin (n + 1)) (Fin (n + 1)) K) (x : Fin (n + 1) → K) : Fin (n + 1) → K :=
  Matrix.vecMul x M

end GT.Rescale
