/-
Gaussian rationals ℚ(i) with a proved `Field` instance: the exact execution domain for the
complex inputs of C16 / C17 (the field-generic model is *run* at `K = QI`, the theorems are
proved for every field, in particular ℂ).  Everything here is computable.
-/
import Mathlib.Algebra.Field.Rat
import Mathlib.Algebra.Order.Field.Basic
import Mathlib.Algebra.Order.Ring.Abs
import Mathlib.Tactic.Ring
import Mathlib.Tactic.FieldSimp
import Mathlib.Tactic.Positivity
import Mathlib.Tactic.Linarith

namespace GT

@[ext] structure QI where
  re : ℚ
  im : ℚ
deriving DecidableEq, Repr

namespace QI

instance : Zero QI := ⟨⟨0, 0⟩⟩
instance : One QI := ⟨⟨1, 0⟩⟩
instance : Add QI := ⟨fun a b => ⟨a.re + b.re, a.im + b.im⟩⟩
instance : Neg QI := ⟨fun a => ⟨-a.re, -a.im⟩⟩
instance : Sub QI := ⟨fun a b => ⟨a.re - b.re, a.im - b.im⟩⟩
instance : Mul QI := ⟨fun a b => ⟨a.re * b.re - a.im * b.im, a.re * b.im + a.im * b.re⟩⟩
/-- `z⁻¹ = conj z / |z|²` (and `0⁻¹ = 0`, as in every Mathlib field) -/
instance : Inv QI := ⟨fun a => ⟨a.re / (a.re * a.re + a.im * a.im), -a.im / (a.re * a.re + a.im * a.im)⟩⟩
instance : Inhabited QI := ⟨0⟩

/-- the imaginary unit -/
def I : QI := ⟨0, 1⟩
/-- embedding of ℚ -/
def ofQ (q : ℚ) : QI := ⟨q, 0⟩
/-- complex conjugation (`utils.conjugate`) -/
def conj (a : QI) : QI := ⟨a.re, -a.im⟩
/-- squared modulus -/
def normSq (a : QI) : ℚ := a.re * a.re + a.im * a.im

@[simp] theorem zero_re : (0 : QI).re = 0 := rfl
@[simp] theorem zero_im : (0 : QI).im = 0 := rfl
@[simp] theorem one_re : (1 : QI).re = 1 := rfl
@[simp] theorem one_im : (1 : QI).im = 0 := rfl
@[simp] theorem add_re (a b : QI) : (a + b).re = a.re + b.re := rfl
@[simp] theorem add_im (a b : QI) : (a + b).im = a.im + b.im := rfl
@[simp] theorem neg_re (a : QI) : (-a).re = -a.re := rfl
@[simp] theorem neg_im (a : QI) : (-a).im = -a.im := rfl
@[simp] theorem sub_re (a b : QI) : (a - b).re = a.re - b.re := rfl
@[simp] theorem sub_im (a b : QI) : (a - b).im = a.im - b.im := rfl
@[simp] theorem mul_re (a b : QI) : (a * b).re = a.re * b.re - a.im * b.im := rfl
@[simp] theorem mul_im (a b : QI) : (a * b).im = a.re * b.im + a.im * b.re := rfl
@[simp] theorem inv_re (a : QI) : (a⁻¹).re = a.re / (a.re * a.re + a.im * a.im) := rfl
@[simp] theorem inv_im (a : QI) : (a⁻¹).im = -a.im / (a.re * a.re + a.im * a.im) := rfl

theorem normSq_pos {a : QI} (h : a ≠ 0) : 0 < a.re * a.re + a.im * a.im := by
  rcases eq_or_ne a.re 0 with hr | hr
  · have hi : a.im ≠ 0 := by
      intro hi; apply h; ext <;> simp [hr, hi]
    have := mul_self_pos.2 hi
    have := mul_self_nonneg a.re
    linarith
  · have := mul_self_pos.2 hr
    have := mul_self_nonneg a.im
    linarith

instance : CommRing QI where
  add_assoc a b c := by ext <;> simp <;> ring
  zero_add a := by ext <;> simp
  add_zero a := by ext <;> simp
  add_comm a b := by ext <;> simp <;> ring
  neg_add_cancel a := by ext <;> simp
  sub_eq_add_neg a b := by ext <;> simp <;> ring
  mul_assoc a b c := by ext <;> simp <;> ring
  one_mul a := by ext <;> simp
  mul_one a := by ext <;> simp
  left_distrib a b c := by ext <;> simp <;> ring
  right_distrib a b c := by ext <;> simp <;> ring
  mul_comm a b := by ext <;> simp <;> ring
  zero_mul a := by ext <;> simp
  mul_zero a := by ext <;> simp
  nsmul := nsmulRec
  zsmul := zsmulRec

instance : Field QI where
  exists_pair_ne := ⟨0, 1, by intro h; have := congrArg QI.re h; simp at this⟩
  mul_inv_cancel a h := by
    have hp := normSq_pos h
    have hne : a.re * a.re + a.im * a.im ≠ 0 := ne_of_gt hp
    ext
    · simp only [mul_re, inv_re, inv_im, one_re]
      rw [show a.re * (a.re / (a.re * a.re + a.im * a.im)) - a.im * (-a.im / (a.re * a.re + a.im * a.im))
        = (a.re * a.re + a.im * a.im) / (a.re * a.re + a.im * a.im) by ring]
      exact div_self hne
    · simp only [mul_im, inv_re, inv_im, one_im]; ring
  inv_zero := by ext <;> simp
  nnqsmul := _
  nnqsmul_def := fun _ _ => rfl
  qsmul := _
  qsmul_def := fun _ _ => rfl

end QI
end GT
