/-
Model of the arc-ordering helpers `utils.short_arc`, `right_to_left`, `arc_include`
(geometry_tools/utils/core.py) on one pair of angles, over an ordered field with an abstract
`π > 0` (`pi`) and, for `right_to_left`, an abstract cosine `cs`.
-/
import Mathlib.Algebra.Order.Field.Basic
import Mathlib.Order.Defs.LinearOrder

namespace GT.Arcs

variable {K : Type*} [Field K] [LinearOrder K]

/-- `x[x < 0] += 2π` -/
def shiftNonneg (pi x : K) : K := if x < 0 then x + 2 * pi else x

/-- `utils.short_arc`: shift negatives by `2π`, sort, flip when the gap exceeds `π` -/
def shortArc (pi : K) (t : K × K) : K × K :=
  let a := shiftNonneg pi t.1
  let b := shiftNonneg pi t.2
  let lo := min a b
  let hi := max a b
  if pi < hi - lo then (hi, lo) else (lo, hi)

/-- `utils.right_to_left`: flip when `cos θ₀ < cos θ₁` -/
def rightToLeft (cs : K → K) (t : K × K) : K × K := if cs t.1 < cs t.2 then (t.2, t.1) else t

/-- `utils.arc_include(thetas, reference_theta)` -/
def arcInclude (pi : K) (t : K × K) (ref : K) : K × K :=
  let s1 := shiftNonneg pi (t.2 - t.1)
  let sref := shiftNonneg pi (ref - t.1)
  if s1 < sref then (t.2, t.1) else t

/-- congruence modulo `2π` -/
def CongPi (pi a b : K) : Prop := ∃ k : ℤ, a - b = k * (2 * pi)

end GT.Arcs
