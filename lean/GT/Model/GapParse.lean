/-
Character-level model of `geometry_tools/automata/gap_parse.py` (the recursive-descent
parser for GAP records written by kbmag) with the same offset arithmetic, and of
`kbmag_utils.build_dict` / `fsa._from_gap_record`.

Python slices `text[k:]` become `List.drop`; every function returns the value together with
the offset *relative to the slice it was given*, exactly as the Python does.  `while` /
`for` loops become recursion on the index with a fuel argument: every iteration and every
call consumes one unit; `2 * text.length + 4` is enough (each iteration advances the index,
each nested call costs at most one extra unit per consumed character).
No Mathlib imports.
-/

namespace GT.Gap

inductive Err | unclosedList | unclosedQuote | indexError | valueError | fuel
  deriving Repr, DecidableEq, Inhabited

/-- parsed values.  `flt` keeps the literal text of a float (never compared numerically);
`range a b` is Python's `range(a, b+1)` produced by the `[a..b]` interval syntax -/
inductive GVal
  | str (s : List Char)
  | int (n : Nat)
  | flt (s : List Char)
  | list (l : List GVal)
  | range (a b : Int)
  | record (fs : List (List Char × GVal))
  deriving Repr, Inhabited

abbrev R := Except Err

def isWs (c : Char) : Bool := c == ' ' || c == '\n' || c == '\t'

def isDigit (c : Char) : Bool := '0' ≤ c && c ≤ '9'

def digitsToNat (ds : List Char) : Nat := ds.foldl (fun a c => 10 * a + (c.toNat - '0'.toNat)) 0

/-- `re.match(r"\d*\.\d+", s)`: a prefix of digits, a dot, at least one digit -/
def floatPrefix (s : List Char) : Bool :=
  match s.dropWhile isDigit with
  | '.' :: d :: _ => isDigit d
  | _ => false

/-- `literal_contents`: float if it starts like one, int if it starts with a digit (then
`float(s)` / `int(s)` must succeed: we accept only plain `digits.digits` / all-digit strings
and report `valueError` otherwise — Python additionally accepts exponents and underscores,
which the correspondence treats as outside the model), else the string itself -/
def isPlainFloat (s : List Char) : Bool :=
  match s.dropWhile isDigit with
  | '.' :: ds => !ds.isEmpty && ds.all isDigit
  | _ => false

def literal (s : List Char) : R GVal :=
  if floatPrefix s then (if isPlainFloat s then pure (.flt s) else throw .valueError)
  else match s with
    | c :: _ => if isDigit c then (if s.all isDigit then pure (.int (digitsToNat s)) else throw .valueError)
                else pure (.str s)
    | [] => pure (.str [])

/-- `parse_quote`: no escaped quotations -/
def parseQuote (t : List Char) : R (List Char × Nat) :=
  match t.idxOf? '"' with
  | some k => pure (t.take k, k + 1)
  | none => throw .unclosedQuote

/-- optional sign then at least one digit: `-?\d+`; returns value, matched length -/
def matchDigits (neg : Bool) (r : List Char) : Option (Int × Nat) :=
  let ds := r.takeWhile isDigit
  if ds.isEmpty then none
  else some (if neg then -(digitsToNat ds : Int) else (digitsToNat ds : Int), ds.length + (if neg then 1 else 0))

def matchInt (t : List Char) : Option (Int × Nat) :=
  match t with
  | '-' :: r => matchDigits true r
  | _ => matchDigits false t

/-- `re.match(r"((-?\d+)\.\.(-?\d+)\])", text)` -/
def matchInterval (t : List Char) : Option (Int × Int × Nat) :=
  match matchInt t with
  | none => none
  | some (a, la) =>
    match t.drop la with
    | '.' :: '.' :: r =>
      match matchInt r with
      | none => none
      | some (b, lb) =>
        match r.drop lb with
        | ']' :: _ => some (a, b, la + 2 + lb + 1)
        | _ => none
    | _ => none

/-- update-or-append, as assignment to a Python dict does -/
def setField (fs : List (List Char × GVal)) (k : List Char) (v : GVal) : List (List Char × GVal) :=
  match fs with
  | [] => [(k, v)]
  | (k', v') :: r => if k' = k then (k, v) :: r else (k', v') :: setField r k v

mutual

/-- body of the `while i < len(text)` loop of `parse_list` -/
def listLoop (fuel : Nat) (t : List Char) (i : Nat) (content : List Char) (cur : List GVal) :
    R (GVal × Nat) :=
  match fuel with
  | 0 => throw .fuel
  | fuel + 1 =>
    match t[i]? with
    | none => throw .unclosedList
    | some c =>
      if c == '"' then do
        let (q, off) ← parseQuote (t.drop (i + 1))
        listLoop fuel t (i + off + 1) [] (cur ++ [.str q])
      else if c == ',' then do
        let cur' ← if content.isEmpty then pure cur else do pure (cur ++ [← literal content])
        listLoop fuel t (i + 1) [] cur'
      else if c == '[' then do
        let (l, off) ← parseList fuel (t.drop (i + 1))
        listLoop fuel t (i + off + 1) content (cur ++ [l])
      else if c == ']' then do
        let cur' ← if content.isEmpty then pure cur else do pure (cur ++ [← literal content])
        pure (.list cur', i + 1)
      else if isWs c then listLoop fuel t (i + 1) content cur
      else listLoop fuel t (i + 1) (content ++ [c]) cur

/-- `parse_list(text)`: `text` starts just after the opening bracket -/
def parseList (fuel : Nat) (t : List Char) : R (GVal × Nat) :=
  match fuel with
  | 0 => throw .fuel
  | fuel + 1 =>
    match matchInterval t with
    | some (a, b, len) => if a ≤ b then pure (.range a b, len) else listLoop fuel t 0 [] []
    | none => listLoop fuel t 0 [] []

/-- body of `for i, c in enumerate(text)` in `parse_contents` -/
def contentsLoop (fuel : Nat) (t : List Char) (i : Nat) (content : List Char) : R (GVal × Nat) :=
  match fuel with
  | 0 => throw .fuel
  | fuel + 1 =>
    match t[i]? with
    | none => do pure (← literal content, t.length)
    | some c =>
      if c == '"' then do
        let (q, off) ← parseQuote (t.drop (i + 1))
        pure (.str q, off + i + 1)
      else if c == '[' then do
        let (l, off) ← parseList fuel (t.drop (i + 1))
        pure (l, off + i + 1)
      else if isWs c then contentsLoop fuel t (i + 1) content
      else if c == 'r' then
        if t.length > i + 4 && (t.drop i).take 4 == ['r', 'e', 'c', '('] then do
          let (r, off) ← recordLoop fuel (t.drop (i + 4)) 0 [] []
          pure (.record r, off + i + 4)
        else contentsLoop fuel t (i + 1) (content ++ [c])
      else if c == ',' || c == ')' then do pure (← literal content, i + 1)
      else contentsLoop fuel t (i + 1) (content ++ [c])

/-- `parse_record(text)`: the `while i < len(text)` loop; returns `(record, i + 1)` -/
def recordLoop (fuel : Nat) (t : List Char) (i : Nat) (name : List Char)
    (fs : List (List Char × GVal)) : R (List (List Char × GVal) × Nat) :=
  match fuel with
  | 0 => throw .fuel
  | fuel + 1 =>
    match t[i]? with
    | none => pure (fs, i + 1)
    | some c =>
      if c == ')' then pure (fs, i + 1 + 1)
      else if c == ',' then recordLoop fuel t (i + 1) [] fs
      else if c == ':' then
        match t[i + 1]? with
        | none => throw .indexError
        | some d =>
          if d == '=' then do
            let (v, off) ← contentsLoop fuel (t.drop (i + 2)) 0 []
            recordLoop fuel t (i + off + 1) name (setField fs name v)
          else recordLoop fuel t (i + 1) (name ++ [c]) fs
      else if !isWs c then recordLoop fuel t (i + 1) (name ++ [c]) fs
      else recordLoop fuel t (i + 1) name fs

end

def parseContents (fuel : Nat) (t : List Char) : R (GVal × Nat) := contentsLoop fuel t 0 []

/-- `gap_parse.parse_record(text)` on a whole file -/
def parseRecord (t : List Char) : R (List (List Char × GVal) × Nat) :=
  recordLoop (2 * t.length + 4) t 0 [] []

/-! ### `kbmag_utils.build_dict(transitions, labels, to_filter=[0])` and `_from_gap_record` -/

/-- `zip(labels, neighbors)` filtered by `vertex not in [0]` -/
def setKV (d : List (List Char × Nat)) (k : List Char) (v : Nat) : List (List Char × Nat) :=
  match d with
  | [] => [(k, v)]
  | (k', v') :: r => if k' = k then (k, v) :: r else (k', v') :: setKV r k v

def rowDict (labels : List (List Char)) (row : List Nat) : List (List Char × Nat) :=
  (labels.zip row).foldl (fun d p => if p.2 != 0 then setKV d p.1 p.2 else d) []

/-- label-view dictionary `{i+1 : {label: target}}` (later duplicates of a label overwrite) -/
def buildDict (transitions : List (List Nat)) (labels : List (List Char)) :
    List (Nat × List (List Char × Nat)) :=
  transitions.zipIdx.map fun (row, i) => (i + 1, rowDict labels row)

def lookupField (fs : List (List Char × GVal)) (k : String) : Option GVal :=
  (fs.find? fun p => p.1 == k.toList).map Prod.snd

def asNatList : GVal → Option (List Nat)
  | .list l => l.mapM fun | .int n => some n | _ => none
  | .range a b => if 0 ≤ a then some ((List.range (b + 1 - a).toNat).map fun k => a.toNat + k) else none
  | _ => none

def asStrList : GVal → Option (List (List Char))
  | .list l => l.mapM fun | .str s => some s | _ => none
  | _ => none

/-- `_from_gap_record`: first field whose `isFSA` is `"true"`; returns (label view, start vertices) -/
def fromGapRecord (top : List (List Char × GVal)) :
    Option (List (Nat × List (List Char × Nat)) × List Nat) :=
  top.findSome? fun (_, v) =>
    match v with
    | .record fs =>
      match lookupField fs "isFSA" with
      | some (.str s) =>
        if s == "true".toList then do
          let .record alpha ← lookupField fs "alphabet" | none
          let names ← asStrList (← lookupField alpha "names")
          let .record table ← lookupField fs "table" | none
          let .list rows ← lookupField table "transitions" | none
          let trans ← rows.mapM asNatList
          let init ← asNatList (← lookupField fs "initial")
          some (buildDict trans names, init)
        else none
      | _ => none
    | _ => none

end GT.Gap
