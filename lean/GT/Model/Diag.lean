/-
Field-generic model of `utils.diagonalize_form`, `numerical.svd_kernel` / `utils.kernel` and
`utils.sphere_through` / `circle_through` (geometry_tools/utils/core.py, utils/numerical.py).

LAPACK enters by contract: `numpy.linalg.eigh` is the pair `(eigs, U)` it returned (assumed:
`Uᵀ B U = diag eigs`, `Uᵀ U = 1`), `numpy.linalg.svd` the triple `(u, s, vh)` (assumed:
`A = u Σ vh`, `vh vhᵀ = 1`, `s` descending so that the values counted as small are the
trailing ones), `utils.invert` is Mathlib's `⁻¹`.  `np.argsort` is modelled by insertion sort of
the indices; numpy's default sort is **not** stable (SIMD sorts on AVX2/AVX-512), so the order
among equal keys is unspecified — the theorems use only that the result is a permutation along
which the keys are sorted, and the correspondence compares modulo ties.  `np.isclose(·, 0)` /
`s < tolerance` are modelled exactly (`= 0`): the theorems are about exact arithmetic.
-/
import GT.Model.Charts
import Mathlib.Data.List.Sort
import Mathlib.Data.Matrix.Diagonal
import Mathlib.LinearAlgebra.Matrix.NonsingularInverse
import Mathlib.Algebra.Order.Field.Basic

open Finset BigOperators Matrix

namespace GT.Diag

variable {K : Type*} [Field K] [LinearOrder K] {n : ℕ}

/-- comparison of indices by a key -/
def keyLE (key : Fin n → K) (i j : Fin n) : Prop := key i ≤ key j

instance (key : Fin n → K) : DecidableRel (keyLE key) := fun i j => inferInstanceAs (Decidable (key i ≤ key j))

/-- `np.argsort(key, axis=-1)`: a sort of `0..n-1` by `key` (insertion sort; ties: see header) -/
def argsort (key : Fin n → K) : List (Fin n) := (List.finRange n).insertionSort (keyLE key)

/-- sort keys computed by `diagonalize_form(order_eigenvalues="minkowski")`; the code's variable
`num_positive` counts the negative eigenvalues and vice versa — modelled as it behaves:
`flip = −1` iff (number of positive eigenvalues) < (number of negative eigenvalues) -/
def minkowskiKey (eigs : Fin n → K) : Fin n → K :=
  let numNeg := (Finset.univ.filter fun i => eigs i < 0).card
  let numPos := (Finset.univ.filter fun i => 0 < eigs i).card
  let flip : K := if numPos < numNeg then -1 else 1
  fun i => if eigs i < 0 then -1 * flip else if 0 < eigs i then flip else 0

/-- the `order` array of `diagonalize_form` (`mink = false`: `"signed"`) -/
def formOrder (eigs : Fin n → K) (mink reverse : Bool) : List (Fin n) :=
  let o := argsort (if mink then minkowskiKey eigs else eigs)
  if reverse then o.reverse else o

/-- a list of all indices as a function -/
def orderFn (l : List (Fin n)) (h : l.length = n) : Fin n → Fin n := fun i => l.get (i.cast h.symm)

/-- `D` of `diagonalize_form`: `1/√|λ|` where `√|λ|` is not (close to) zero, else 0 -/
def diagD (r : K → K) (eigs : Fin n → K) : Fin n → K := fun i => if r |eigs i| = 0 then 0 else 1 / r |eigs i|

/-- `Dinv = construct_diagonal(sqrt(abs(eigs)))` -/
def diagDinv (r : K → K) (eigs : Fin n → K) : Fin n → K := fun i => r |eigs i|

/-- `utils.diagonalize_form(B, order_eigenvalues, reverse)` given the output `(eigs, U)` of `eigh(B)`:
`W = permute_along_axis(U @ D, order, axis=-1, inverse=True)` (column `i` of the result is column
`order[i]` of `U D`), `Winv = permute_along_axis(Dinv @ Uᵀ, order, axis=-2, inverse=True)` -/
def diagonalizeForm (r : K → K) (eigs : Fin n → K) (U : Matrix (Fin n) (Fin n) K) (σ : Fin n → Fin n) :
    Matrix (Fin n) (Fin n) K × Matrix (Fin n) (Fin n) K :=
  ((U * Matrix.diagonal (diagD r eigs)).submatrix id σ,
   (Matrix.diagonal (diagDinv r eigs) * Uᵀ).submatrix σ id)

/-! ### kernel -/

/-- `kernel_dim` of `svd_kernel(mat)` for an `m × n` matrix with singular values `s`
(`len(s) = min(m,n)`): `max(n − m, 0) + #{s < tolerance}` -/
def svdKernelDim (tol : K) (m n : ℕ) (s : List K) : ℕ := (n - m) + (s.filter (· < tol)).length

/-- rows `v[n − kernel_dim :, :]` of `vh` — the columns of the array `svd_kernel` returns
(repaired indexing: from the front, so that `kernel_dim = 0` selects nothing) -/
def svdKernelRows (tol : K) (m : ℕ) (s : List K) (Vh : Matrix (Fin n) (Fin n) K) : List (Fin n → K) :=
  ((List.finRange n).drop (n - svdKernelDim tol m n s)).map fun i => Vh i

/-! ### spheres -/

/-- `t_pts = points[1:] − points[0]` -/
def sphereT {d : ℕ} (pts : Fin (d + 1) → Fin d → K) : Matrix (Fin d) (Fin d) K :=
  Matrix.of fun i => pts i.succ - pts 0

/-- translated centre in `utils.sphere_through`: `r_sq @ invert(t_ptsᵀ) / 2` -/
noncomputable def sphereCenterT {d : ℕ} (pts : Fin (d + 1) → Fin d → K) : Fin d → K :=
  (1 / 2 : K) • Matrix.vecMul (fun i => nsq (sphereT pts i)) ((sphereT pts)ᵀ)⁻¹

/-- `utils.sphere_through(points)`: `(center, radius)` with `radius = ‖t_ctr‖` -/
noncomputable def sphereThrough {d : ℕ} (r : K → K) (pts : Fin (d + 1) → Fin d → K) : (Fin d → K) × K :=
  (sphereCenterT pts + pts 0, r (nsq (sphereCenterT pts)))

end GT.Diag
