/-
Model of `geometry_tools/utils/words.py` (all of it) and of the name checks / word parsing of
`representation.py` (`parse_word`, the `re.search` guards of `_set_generator`).

A Python word is a `str`; iterating it yields 1-character strings, and under
`parse_simple=True` every such character is a generator name.  The model therefore works on
`Word = List Gen` with `Gen = String`; `parseWord` is the (only) place where a Python string
is cut into generator names.  Python `dict`s (`defaultdict(int)` of the Fox calculus) are
association lists with insertion order and update-in-place (`dset`).

No Mathlib here: everything is executable core Lean.
-/

namespace GT.RepW

abbrev Gen := String
abbrev Word := List Gen

/-- `str.lower()` restricted to ASCII (trusted base: ASCII generator names) -/
def lowerS (g : Gen) : Gen := String.ofList (g.toList.map Char.toLower)
/-- `str.upper()` restricted to ASCII -/
def upperS (g : Gen) : Gen := String.ofList (g.toList.map Char.toUpper)

/-- `utils.words.invert_gen`:
```
if generator.lower() == generator: return generator.upper()
return generator.lower()
``` -/
def invertGen (g : Gen) : Gen := if lowerS g = g then upperS g else lowerS g

/-- `utils.words.formal_inverse(word, simple=True, inverse_map)`:
`"".join([inverse_map(g) for g in word[::-1]])` -/
def formalInverse (inv : Gen → Gen) (w : Word) : Word := w.reverse.map inv

/-- one iteration of the loop of `simplify_word`; the Python list `simp` is kept *reversed*
(head of the Lean list = `simp[-1]`):
```
if len(simp) == 0 or let != inverse_map(simp[-1]): simp.append(let)
else: simp = simp[:-1]
``` -/
def simplifyStep (inv : Gen → Gen) (simp : List Gen) (l : Gen) : List Gen :=
  match simp with
  | [] => [l]
  | t :: rest => if l ≠ inv t then l :: t :: rest else rest

/-- `utils.words.simplify_word(word, inverse_map)` (a left-to-right stack machine) -/
def simplifyWord (inv : Gen → Gen) (w : Word) : Word :=
  (w.foldl (simplifyStep inv) []).reverse

/-- `utils.words.asym_gens`: `gen.lower() == gen` -/
def isAsym (g : Gen) : Bool := lowerS g = g

def asymGens (gens : List Gen) : List Gen := gens.filter isAsym

/-- `utils.words.commutator` -/
def commutator (inv : Gen → Gen) (w1 w2 : Word) : Word :=
  simplifyWord inv (w1 ++ w2 ++ formalInverse inv w1 ++ formalInverse inv w2)

/-! ## Python dicts -/

/-- `d[k] = v` on an insertion-ordered dict: update in place, else append -/
def dset {κ ν : Type} [DecidableEq κ] : List (κ × ν) → κ → ν → List (κ × ν)
  | [], k, v => [(k, v)]
  | (k', v') :: d, k, v => if k' = k then (k', v) :: d else (k', v') :: dset d k v

/-- `d.get(k)` -/
def dget {κ ν : Type} [DecidableEq κ] : List (κ × ν) → κ → Option ν
  | [], _ => none
  | (k', v') :: d, k => if k' = k then some v' else dget d k

/-- a `defaultdict(int)` mapping words to integers -/
abbrev ZWord := List (Word × Int)

/-- `utils.words.simplify(zmod)`:
`defaultdict(int, {simplify_word(word): zmod[word] for word in zmod})` — a dict comprehension:
a repeated key *overwrites* -/
def zsimplify (inv : Gen → Gen) (z : ZWord) : ZWord :=
  z.foldl (fun acc kv => dset acc (simplifyWord inv kv.1) kv.2) []

/-- `utils.words.aug` -/
def zaug (z : ZWord) : Int := (z.map Prod.snd).foldl (· + ·) 0

/-- `utils.words.act_left(word, zmod)`:
`prod = {word + zword: zmod[zword] for zword in zmod}; return simplify(prod)` -/
def actLeft (inv : Gen → Gen) (w : Word) (z : ZWord) : ZWord :=
  zsimplify inv (z.foldl (fun acc kv => dset acc (w ++ kv.1) kv.2) [])

/-- `utils.words.act_right` -/
def actRight (z1 z2 : ZWord) : ZWord :=
  z1.foldl (fun acc kv => dset acc kv.1 (kv.2 * zaug z2)) []

/-- `utils.words.zmod_sum(z1, z2)`:
```
z_sum = defaultdict(int, {word: coeff for word, coeff in z1.items()})
for word in z2: z_sum[word] += z2[word]
``` -/
def zsum (z1 z2 : ZWord) : ZWord :=
  z2.foldl (fun acc kv => dset acc kv.1 ((dget acc kv.1).getD 0 + kv.2))
    (z1.foldl (fun acc kv => dset acc kv.1 kv.2) [])

/-- the `len(word) == 1` branch of (repaired) `fox_word_derivative`: `word[0] == differential`
gives `{word[:0]: 1}`, `word[0] == invert_gen(differential)` gives `{word: -1}`.  A word is a
Python string (one character per generator) or a tuple of generator names; both are `Word`. -/
def foxLetter (inv : Gen → Gen) (g x : Gen) : ZWord :=
  if x = g then [([], 1)]
  else if [x] = formalInverse inv [g] then [([x], -1)]
  else []

/-- `utils.words.fox_word_derivative(differential, word)`.  The empty word raises `IndexError`
(= `none`).
```
if len(word) == 1: ...
word[0]
return zmod_sum(fox_word_derivative(differential, word[:1]),
                act_left(word[:1], fox_word_derivative(differential, word[1:])))
``` -/
def foxDeriv (inv : Gen → Gen) (g : Gen) : Word → Option ZWord
  | [] => none
  | [x] => some (foxLetter inv g x)
  | x :: y :: w =>
    match foxDeriv inv g (y :: w) with
    | none => none
    | some d => some (zsum (foxLetter inv g x) (actLeft inv [x] d))

/-! ## strings → words -/

/-- `re.split("[()*]", word)` on the character list -/
def splitSep : List Char → List Char → List (List Char)
  | cur, [] => [cur.reverse]
  | cur, c :: cs =>
    if c = '(' ∨ c = ')' ∨ c = '*' then cur.reverse :: splitSep [] cs else splitSep (c :: cur) cs

/-- `Representation.parse_word(word, simple)`: the string itself (iterated character by
character) or (repaired) `[g for g in re.split("[()*]", word) if g]` — the empty tokens that
`re.split` produces for `""`, `"(a)*b"`, `"a**b"` are dropped -/
def parseWord (simple : Bool) (s : String) : Word :=
  if simple then s.toList.map (fun c => String.ofList [c])
  else ((splitSep [] s.toList).filter (· ≠ [])).map String.ofList

def isAsciiLetter (c : Char) : Bool := ('a' ≤ c ∧ c ≤ 'z') ∨ ('A' ≤ c ∧ c ≤ 'Z')

/-- the three guards of `_set_generator` on the generator name (each raises `ValueError`) -/
def validName (g : Gen) : Bool :=
  !(g.toList.any fun c => c = '*' ∨ c = '(' ∨ c = ')')
  && g.toList.any isAsciiLetter
  && !(g ≠ lowerS g ∧ g ≠ upperS g)

end GT.RepW
