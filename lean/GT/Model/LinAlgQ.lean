/-
Exact linear algebra over ℚ for the driver: Gauss–Jordan inverse with a checked certificate.
`utils.invert` (LAPACK) is a contract in the model (Mathlib's `⁻¹`); the driver computes a
candidate `B` and answers only if `M * B = 1` holds exactly, which determines `B = M⁻¹`
(`certInv_spec`).
-/
import GT.Base.DMat
import Mathlib.Algebra.Field.Rat
import Mathlib.LinearAlgebra.Matrix.NonsingularInverse

namespace GT.LinAlgQ

/-- Gauss–Jordan elimination on the augmented matrix `[a | 1]`; `none` if singular -/
def qinv (a : Array (Array ℚ)) : Option (Array (Array ℚ)) := Id.run do
  let n := a.size
  let mut A : Array (Array ℚ) :=
    Array.ofFn (n := n) fun i => a[i.1]! ++ Array.ofFn (n := n) fun j => if i.1 = j.1 then (1 : ℚ) else 0
  for c in [0:n] do
    let mut p : Option Nat := none
    for r in [c:n] do
      if p.isNone && (A[r]!)[c]! ≠ 0 then p := some r
    match p with
    | none => return none
    | some r =>
      let tmp := A[c]!
      A := A.set! c A[r]!
      A := A.set! r tmp
      let piv := (A[c]!)[c]!
      A := A.set! c ((A[c]!).map (· / piv))
      for r2 in [0:n] do
        if r2 ≠ c then
          let f := (A[r2]!)[c]!
          if f ≠ 0 then A := A.set! r2 (Array.zipWith (fun x y => x - f * y) A[r2]! A[c]!)
  return some (A.map fun row => row.extract n (2 * n))

/-- candidate inverse, returned only together with the exact check `M * B = 1` -/
def certInv {p : ℕ} (M : Matrix (Fin p) (Fin p) ℚ) : Option (Matrix (Fin p) (Fin p) ℚ) :=
  match qinv (DMat.ofMatrix M).a with
  | none => none
  | some b =>
    let B : Matrix (Fin p) (Fin p) ℚ := (⟨b⟩ : DMat p p ℚ).toMatrix
    if (DMat.ofMatrix (M * B)).a = (DMat.ofMatrix (1 : Matrix (Fin p) (Fin p) ℚ)).a then some B else none

theorem certInv_spec {p : ℕ} {M B : Matrix (Fin p) (Fin p) ℚ} (h : certInv M = some B) : B = M⁻¹ := by
  unfold certInv at h
  split at h
  · cases h
  · rename_i b _
    simp only at h
    split_ifs at h with hc
    cases h
    have : M * (⟨b⟩ : DMat p p ℚ).toMatrix = 1 := by
      have := congrArg (fun a => (⟨a⟩ : DMat p p ℚ).toMatrix) hc
      change (DMat.ofMatrix _).toMatrix = (DMat.ofMatrix _).toMatrix at this
      rwa [DMat.toMatrix_ofMatrix, DMat.toMatrix_ofMatrix] at this
    exact (Matrix.inv_eq_right_inv this).symm

end GT.LinAlgQ
