/-
Model of `Representation.automaton_accepted / _automaton_accepted / freely_reduced_elements /
free_words_of_length / free_words_less_than` (representation.py) together with the small part
of `automata/fsa.py` they read: an automaton given by its *label view* (`graph_dict`), the
`out_dict` / `in_dict` views `FSA._from_graph_dict` / `_build_in_dict` derive from it,
`enumerate_fixed_length_paths`, `enumerate_words`, `free_automaton`.
(The full three-view FSA class with its edit operations is modelled in `GT.Model.FSA`.)

Edge labels and the returned words are Python strings (`String`; `label + word` is string
concatenation, `_word_value(label)` parses the string); a state is any value of a type `V`
with decidable equality; `None` is `Option.none`.
-/
import GT.Model.Rep

namespace GT.RepW

/-- `FSA(graph_dict, start_vertices)`: `{vertex: {label: neighbour}}`, insertion ordered -/
structure Aut (V : Type) where
  graph : List (V × List (String × V))
  starts : List V

namespace Aut
variable {V : Type} [DecidableEq V]

/-- `_hidden_vertices(graph_dict)`: neighbours that are not keys, in order of first appearance -/
def hidden (a : Aut V) : List V :=
  let keys := a.graph.map Prod.fst
  a.graph.foldl (fun hid vn =>
    vn.2.foldl (fun hid ln => if ln.2 ∉ keys ∧ ln.2 ∉ hid then hid ++ [ln.2] else hid) hid) []

/-- keys of `_graph_dict` after `_from_graph_dict` (hidden vertices appended with `{}`) -/
def vertices (a : Aut V) : List V := a.graph.map Prod.fst ++ a.hidden

/-- `self._graph_dict[v]` (`none` = `KeyError`) -/
def succs? (a : Aut V) (v : V) : Option (List (String × V)) :=
  match dget a.graph v with
  | some e => some e
  | none => if v ∈ a.hidden then some [] else none

/-- `out_dict[v]` as built by `_from_graph_dict`:
`for label, neighbor in neighbors.items(): out_dict[v][neighbor].append(label)` -/
def groupOut (e : List (String × V)) : List (V × List String) :=
  e.foldl (fun acc ln => dset acc ln.2 ((dget acc ln.2).getD [] ++ [ln.1])) []

/-- `automaton.out_dict[state]` (`none` = `KeyError`) -/
def outDict? (a : Aut V) (v : V) : Option (List (V × List String)) := (a.succs? v).map groupOut

/-- `automaton.in_dict[state]` (a `defaultdict(dict)`: never raises), as built by
`_build_in_dict`: `for v, nbrs in out_dict.items(): for w, labels in nbrs.items(): in_dict[w][v] = labels` -/
def inDict (a : Aut V) (w : V) : List (V × List String) :=
  a.vertices.flatMap fun v =>
    ((a.outDict? v).getD []).filterMap fun wl => if wl.1 = w then some (v, wl.2) else none

/-- `FSA.enumerate_fixed_length_paths(length, start_vertex, with_states=True)`:
```
if length <= 0: yield ("", start_vertex)
else:
    for word, vertex in self.enumerate_fixed_length_paths(length - 1, …):
        for label, neighbor in self._graph_dict[vertex].items(): yield (word + label, neighbor)
``` -/
def enumFixed (a : Aut V) (s : V) : Nat → M? (List (String × V))
  | 0 => .ok [("", s)]
  | k + 1 => do
    let prev ← a.enumFixed s k
    let parts ← prev.mapM fun wv =>
      match a.succs? wv.2 with
      | none => Except.error "KeyError"
      | some e => .ok (e.map fun ln => (wv.1 ++ ln.1, ln.2))
    pure parts.flatten

/-- `FSA.enumerate_words(max_length, start_vertex, with_states=True)` -/
def enumWords (a : Aut V) (s : V) (maxLength : Nat) : M? (List (String × V)) := do
  let parts ← (List.range (maxLength + 1)).mapM (a.enumFixed s)
  pure parts.flatten

end Aut

/-- `fsa.free_automaton(generating_set)`:
```
generators = list(generating_set) + [invert_gen(g) for g in generating_set]
graph = {g: {h: h for h in generators if invert_gen(h) != g} for g in [''] + generators}
FSA(graph, start_vertices=[''])
``` -/
def freeAutomaton (gs : List Gen) : Aut Gen :=
  let generators := gs ++ gs.map invertGen
  -- the dict comprehension `{h: h for h in …}` keeps the first position of a repeated key
  let row (g : Gen) : List (String × Gen) :=
    (generators.filter fun h => invertGen h ≠ g).foldl (fun acc h => dset acc h h) []
  { graph := ("" :: generators).foldl (fun acc g => dset acc g (row g)) [], starts := [""] }

/-- options of `_automaton_accepted` -/
structure AccOpts where
  maxlen : Bool := true
  withWords : Bool := false
  asStart : Bool := true
  edgeWords : Bool := true
deriving DecidableEq, Repr

/-- what `_automaton_accepted` returns: the `(k, n, n)` array as a list of matrices and the
parallel list of words (`[]` when `with_words=False`, where Python returns the array alone) -/
structure AccRes (n : ℕ) (R : Type) where
  mats : List (DMat n n R)
  words : List String

/-- `precomputed`: dict `(length, state) ↦ result` -/
abbrev Memo (V : Type) (n : ℕ) (R : Type) := List ((Nat × Option V) × AccRes n R)

namespace Rep
variable {V : Type} [DecidableEq V] {n : ℕ} {R : Type} [Inhabited R] [CommRing R]

/-- the `length == 0` branch of `_automaton_accepted` -/
def acceptedZero (ρ : Rep n R) (a : Aut V) (o : AccOpts) (state : Option V) : AccRes n R :=
  let isStart : Bool := match state with
    | none => true
    | some s => o.asStart || a.starts.contains s
  if isStart then ⟨[DMat.one], if o.withWords then [""] else []⟩ else ⟨[], []⟩

/-- `edge_elt`: `self._word_value(label)` if `edge_words` else `self.generators[label]` -/
def edgeElt (ρ : Rep n R) (o : AccOpts) (label : String) : M? (DMat n n R) :=
  if o.edgeWords then ρ.wordValueS label else ρ.gen label

/-- `Representation._join_words(word1, word2)` (repaired code): words of a `parse_simple`
representation are concatenated, those of a `parse_simple=False` one are joined with `"*"`
(nothing is inserted next to an empty word) -/
def joinW (ρ : Rep n R) (w1 w2 : String) : String :=
  if ρ.parseSimple || w1 == "" || w2 == "" then w1 ++ w2 else w1 ++ "*" ++ w2

/-- the body of `_automaton_accepted` for `length > 0`, the recursive call being `recur`
(`recur o state memo` = `self._automaton_accepted(automaton, length - 1, state=…,
precomputed=memo, as_start=…, maxlen=…, with_words=…, edge_words=…)`).  Repaired code: the early `return empty` for an end
state without incoming edges is gone. -/
def acceptedStep (ρ : Rep n R) (a : Aut V) (o : AccOpts) (length : Nat)
    (recur : AccOpts → Option V → Memo V n R → M? (AccRes n R × Memo V n R))
    (state : Option V) (memo : Memo V n R) : M? (AccRes n R × Memo V n R) := do
  -- if state is None: as_start = True; state = automaton.start_vertices[0]
  let (st, o) ← match state with
    | some s => pure (s, o)
    | none => match a.starts with
      | s :: _ => pure (s, { o with asStart := true })
      | [] => Except.error "IndexError"
  let adj ← if o.asStart then
      match a.outDict? st with
      | some d => pure d
      | none => Except.error "KeyError"
    else pure (a.inDict st)
  -- for adj_state, labels in adj_states.items(): for label in labels: …
  let edges : List (V × String) := adj.flatMap fun vl => vl.2.map fun l => (vl.1, l)
  let (mats, words, memo) ← edges.foldlM
    (fun (acc : List (DMat n n R) × List String × Memo V n R) vl => do
      let (r, memo') ← recur o (some vl.1) acc.2.2
      let ws := if o.withWords then
          (if o.asStart then r.words.map (ρ.joinW vl.2 ·) else r.words.map (ρ.joinW · vl.2))
        else []
      let e ← ρ.edgeElt o vl.2
      let ms := if o.asStart then r.mats.map (e.mul ·) else r.mats.map (·.mul e)
      pure (acc.1 ++ ms, acc.2.1 ++ ws, memo'))
    ([], [], memo)
  -- if maxlen: prepend `_automaton_accepted(automaton, 0, state=state, as_start=as_start, with_words=…)`
  let res : AccRes n R :=
    if o.maxlen then
      let z := ρ.acceptedZero a o (some st)
      ⟨z.mats ++ mats, z.words ++ words⟩
    else ⟨mats, words⟩
  -- precomputed[(length, state)] = accepted
  pure (res, dset memo (length, some st) res)

/-- `Representation._automaton_accepted(automaton, length, state, as_start, maxlen, precomputed,
with_words, edge_words)`: memo look-up first, then the `length == 0` branch (whose value is
*not* stored), then the loop over the adjacent states. -/
def accepted (ρ : Rep n R) (a : Aut V) :
    Nat → AccOpts → Option V → Memo V n R → M? (AccRes n R × Memo V n R)
  | 0, o, state, memo =>
    match dget memo (0, state) with
    | some r => .ok (r, memo)
    | none => .ok (ρ.acceptedZero a o state, memo)
  | k + 1, o, state, memo =>
    match dget memo (k + 1, state) with
    | some r => .ok (r, memo)
    | none => ρ.acceptedStep a o (k + 1) (ρ.accepted a k) state memo

/-- `Representation.automaton_accepted(automaton, length, maxlen, with_words, start_state,
end_state, precomputed, edge_words)` -/
def automatonAccepted (ρ : Rep n R) (a : Aut V) (length : Nat) (maxlen withWords : Bool)
    (startState endState : Option V) (memo : Memo V n R) (edgeWords : Bool) :
    M? (AccRes n R × Memo V n R) :=
  match startState, endState with
  | some _, some _ => .error "ValueError"
  | _, some e => ρ.accepted a length ⟨maxlen, withWords, false, edgeWords⟩ (some e) memo
  | s, none => ρ.accepted a length ⟨maxlen, withWords, true, edgeWords⟩ s memo

/-- a caller-supplied `precomputed` dict: the memo entries and (repaired code) the entry
`"options"` = `(as_start, maxlen, with_words, edge_words)` recorded by the first call -/
structure PreDict (V : Type) (n : ℕ) (R : Type) where
  options : Option (Bool × Bool × Bool × Bool) := none
  memo : Memo V n R := []

/-- `Representation.automaton_accepted(..., precomputed=d)` with a caller-supplied dict
(repaired code): after the `start_state`/`end_state` check,
```
options = (as_start, maxlen, with_words, edge_words)
if precomputed.setdefault("options", options) != options: raise ValueError
```
The dict is mutated also when the call raises, so the new dict is returned next to the result. -/
def automatonAcceptedD (ρ : Rep n R) (a : Aut V) (length : Nat) (maxlen withWords : Bool)
    (startState endState : Option V) (d : PreDict V n R) (edgeWords : Bool) :
    M? (AccRes n R) × PreDict V n R :=
  match startState, endState with
  | some _, some _ => (.error "ValueError", d)
  | _, _ =>
    let opts := (endState.isNone, maxlen, withWords, edgeWords)
    match d.options with
    | some o' => if o' ≠ opts then (.error "ValueError", d) else
      match ρ.automatonAccepted a length maxlen withWords startState endState d.memo edgeWords with
      | .ok (r, m) => (.ok r, { d with memo := m })
      | .error e => (.error e, d)
    | none =>
      match ρ.automatonAccepted a length maxlen withWords startState endState d.memo edgeWords with
      | .ok (r, m) => (.ok r, ⟨some opts, m⟩)
      | .error e => (.error e, { d with options := some opts })

/-- `Representation.freely_reduced_elements(length, maxlen, with_words)` -/
def freelyReducedElements (ρ : Rep n R) (length : Nat) (maxlen withWords : Bool) :
    M? (AccRes n R) := do
  let r ← ρ.automatonAccepted (freeAutomaton ρ.asymGens) length maxlen withWords none none [] true
  pure r.1

/-- `Representation.free_words_of_length(length)` -/
def freeWordsOfLength (ρ : Rep n R) : Nat → List String
  | 0 => [""]
  | k + 1 => (ρ.freeWordsOfLength k).flatMap fun w =>
      (ρ.gens.map Prod.fst).filterMap fun g =>
        if w = "" ∨ some g ≠ (w.toList.getLast?).map (fun c => invertGen (String.ofList [c]))
        then some (w ++ g) else none

/-- `Representation.free_words_less_than(length)`: `for i in range(length)` — lengths `< length` -/
def freeWordsLessThan (ρ : Rep n R) (length : Nat) : List String :=
  (List.range length).flatMap ρ.freeWordsOfLength

end Rep
end GT.RepW
